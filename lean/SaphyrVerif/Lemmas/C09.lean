import SaphyrVerif.Model.Reader
import SaphyrVerif.Spec.Utf8
/-! Helper lemmas for C09: UTF-8 arithmetic, reading through a schedule = reading the flat bytes. -/
namespace SaphyrVerif.Lemmas.C09
open SaphyrVerif SaphyrVerif.Reader SaphyrVerif.Spec.Utf8

/-- the bit tests of `ChunkedChars::next` as ranges (finite table: all 256 byte values) -/
theorem needed_ranges : ∀ b, b < 256 →
    needed b =
      (if b < 0x80 then some 1 else if b < 0xC0 then none else if b < 0xE0 then some 2
       else if b < 0xF0 then some 3 else if b < 0xF8 then some 4 else none) := by
  decide +kernel

theorem char_valid (c : Char) : c.toNat < 0xD800 ∨ (0xDFFF < c.toNat ∧ c.toNat < 0x110000) := by
  exact c.valid

theorem ofNat_toNat' (c : Char) (n : Nat) (h : n = c.toNat) : Char.ofNat n = c := by
  subst h; exact Char.ofNat_toNat c

theorem toNat_ofNat' (n : Nat) (h : n < 0xD800 ∨ (0xDFFF < n ∧ n < 0x110000)) : (Char.ofNat n).toNat = n := by
  have : n.isValidChar := h
  simp [Char.ofNat, this, Char.toNat, Char.ofNatAux]

theorem decode1_enc1 (n : Nat) (h : n < 0x80) : decode1 [n] = some (Char.ofNat n) := by
  simp [decode1, h]

theorem decode1_enc2 (n : Nat) (h1 : 0x80 ≤ n) (h2 : n < 0x800) :
    decode1 [0xC0 + n / 64, 0x80 + n % 64] = some (Char.ofNat n) := by
  have e : (0xC0 + n / 64 - 0xC0) * 64 + (0x80 + n % 64 - 0x80) = n := by omega
  have c : (0xC2 ≤ 0xC0 + n / 64 && 0xC0 + n / 64 ≤ 0xDF && isCont (0x80 + n % 64)) = true := by
    simp [isCont]; omega
  simp only [decode1, c, e, if_true]

theorem decode1_enc3 (n : Nat) (h1 : 0x800 ≤ n) (h2 : n < 0x10000) (hs : n < 0xD800 ∨ 0xDFFF < n) :
    decode1 [0xE0 + n / 4096, 0x80 + (n / 64) % 64, 0x80 + n % 64] = some (Char.ofNat n) := by
  have e : (0xE0 + n / 4096 - 0xE0) * 4096 + (0x80 + (n / 64) % 64 - 0x80) * 64 + (0x80 + n % 64 - 0x80) = n := by omega
  have c : (((0xE0 + n / 4096 == 0xE0 && 0xA0 ≤ 0x80 + (n / 64) % 64 && 0x80 + (n / 64) % 64 ≤ 0xBF) ||
      (0xE1 ≤ 0xE0 + n / 4096 && 0xE0 + n / 4096 ≤ 0xEC && isCont (0x80 + (n / 64) % 64)) ||
      (0xE0 + n / 4096 == 0xED && 0x80 ≤ 0x80 + (n / 64) % 64 && 0x80 + (n / 64) % 64 ≤ 0x9F) ||
      (0xEE ≤ 0xE0 + n / 4096 && 0xE0 + n / 4096 ≤ 0xEF && isCont (0x80 + (n / 64) % 64))) &&
      isCont (0x80 + n % 64)) = true := by
    simp [isCont]; omega
  simp only [decode1, c, e, if_true]

theorem decode1_enc4 (n : Nat) (h1 : 0x10000 ≤ n) (h2 : n < 0x110000) :
    decode1 [0xF0 + n / 262144, 0x80 + (n / 4096) % 64, 0x80 + (n / 64) % 64, 0x80 + n % 64] = some (Char.ofNat n) := by
  have e : (0xF0 + n / 262144 - 0xF0) * 262144 + (0x80 + (n / 4096) % 64 - 0x80) * 4096 +
      (0x80 + (n / 64) % 64 - 0x80) * 64 + (0x80 + n % 64 - 0x80) = n := by omega
  have c : (((0xF0 + n / 262144 == 0xF0 && 0x90 ≤ 0x80 + (n / 4096) % 64 && 0x80 + (n / 4096) % 64 ≤ 0xBF) ||
      (0xF1 ≤ 0xF0 + n / 262144 && 0xF0 + n / 262144 ≤ 0xF3 && isCont (0x80 + (n / 4096) % 64)) ||
      (0xF0 + n / 262144 == 0xF4 && 0x80 ≤ 0x80 + (n / 4096) % 64 && 0x80 + (n / 4096) % 64 ≤ 0x8F)) &&
      isCont (0x80 + (n / 64) % 64) && isCont (0x80 + n % 64)) = true := by
    simp [isCont]; omega
  simp only [decode1, c, e, if_true]

/-- the validator accepts every encoded scalar value and returns it -/
theorem decode1_encodeChar (c : Char) : decode1 (encodeChar c) = some c := by
  have hv := char_valid c
  have hc : Char.ofNat c.toNat = c := Char.ofNat_toNat c
  unfold encodeChar
  simp only []
  split
  · rw [decode1_enc1 _ (by assumption), hc]
  · split
    · rw [decode1_enc2 _ (by omega) (by assumption), hc]
    · split
      · rw [decode1_enc3 _ (by omega) (by assumption) (by omega), hc]
      · rw [decode1_enc4 _ (by omega) (by omega), hc]

theorem encodeChar_ofNat (n : Nat) (h : n < 0xD800 ∨ (0xDFFF < n ∧ n < 0x110000)) :
    encodeChar (Char.ofNat n) =
      (if n < 0x80 then [n]
       else if n < 0x800 then [0xC0 + n / 64, 0x80 + n % 64]
       else if n < 0x10000 then [0xE0 + n / 4096, 0x80 + (n / 64) % 64, 0x80 + n % 64]
       else [0xF0 + n / 262144, 0x80 + (n / 4096) % 64, 0x80 + (n / 64) % 64, 0x80 + n % 64]) := by
  simp only [encodeChar, toNat_ofNat' n h]

private theorem l2 {a b a' b' : Nat} (h1 : a = a') (h2 : b = b') : [a, b] = [a', b'] := by subst h1 h2; rfl
private theorem l3 {a b c a' b' c' : Nat} (h1 : a = a') (h2 : b = b') (h3 : c = c') : [a, b, c] = [a', b', c'] := by
  subst h1 h2 h3; rfl
private theorem l4 {a b c d a' b' c' d' : Nat} (h1 : a = a') (h2 : b = b') (h3 : c = c') (h4 : d = d') :
    [a, b, c, d] = [a', b', c', d'] := by subst h1 h2 h3 h4; rfl

/-- the validator accepts nothing but encoded scalar values -/
theorem decode1_sound (bs : List Nat) (c : Char) (h : decode1 bs = some c) : bs = encodeChar c := by
  match bs, h with
  | [b0], h =>
    simp only [decode1] at h
    split at h
    · rename_i h0
      have h := Option.some.inj h; subst h
      rw [encodeChar_ofNat _ (by omega)]; simp [h0]
    · cases h
  | [b0, b1], h =>
    simp only [decode1] at h
    split at h
    · rename_i hc
      have h := Option.some.inj h; subst h
      simp [isCont] at hc
      rw [encodeChar_ofNat _ (by omega)]
      rw [if_neg (by omega), if_pos (by omega)]
      exact l2 (by omega) (by omega)
    · cases h
  | [b0, b1, b2], h =>
    simp only [decode1] at h
    split at h
    · rename_i hc
      have h := Option.some.inj h; subst h
      simp [isCont] at hc
      rw [encodeChar_ofNat _ (by omega)]
      rw [if_neg (by omega), if_neg (by omega), if_pos (by omega)]
      exact l3 (by omega) (by omega) (by omega)
    · cases h
  | [b0, b1, b2, b3], h =>
    simp only [decode1] at h
    split at h
    · rename_i hc
      have h := Option.some.inj h; subst h
      simp [isCont] at hc
      rw [encodeChar_ofNat _ (by omega)]
      rw [if_neg (by omega), if_neg (by omega), if_neg (by omega)]
      exact l4 (by omega) (by omega) (by omega) (by omega)
    · cases h
  | [], h => simp [decode1] at h
  | _ :: _ :: _ :: _ :: _ :: _, h => simp [decode1] at h

/-- the leading byte of an encoded scalar value announces exactly its length -/
theorem encodeChar_shape (c : Char) :
    ∃ b rest, encodeChar c = b :: rest ∧ b < 256 ∧ needed b = some (rest.length + 1) := by
  have hv := char_valid c
  unfold encodeChar
  simp only []
  split
  · refine ⟨_, _, rfl, by omega, ?_⟩
    rw [needed_ranges _ (by omega)]; simp; omega
  · split
    · refine ⟨_, _, rfl, by omega, ?_⟩
      rw [needed_ranges _ (by omega)]
      rw [if_neg (by omega), if_neg (by omega), if_pos (by omega)]; rfl
    · split
      · refine ⟨_, _, rfl, by omega, ?_⟩
        rw [needed_ranges _ (by omega)]
        rw [if_neg (by omega), if_neg (by omega), if_neg (by omega), if_pos (by omega)]; rfl
      · refine ⟨_, _, rfl, by omega, ?_⟩
        rw [needed_ranges _ (by omega)]
        rw [if_neg (by omega), if_neg (by omega), if_neg (by omega), if_neg (by omega), if_pos (by omega)]; rfl

/-! ### reading through a schedule of non-empty read results = reading the flat bytes -/

theorem chunked_flat_nil {s : Sched} (hc : chunked s = true) (h : flat s = []) : s = [] := by
  cases s with
  | nil => rfl
  | cons it rest =>
    cases it with
    | data bs => cases bs <;> simp_all [chunked, flat]
    | fail k => simp [chunked] at hc

theorem readFirst_chunked {s : Sched} (hc : chunked s = true) {b : Nat} {t : List Nat} (h : flat s = b :: t) :
    ∃ s', readFirst s = (.byte b, s') ∧ chunked s' = true ∧ flat s' = t := by
  cases s with
  | nil => simp [flat] at h
  | cons it rest =>
    cases it with
    | fail k => simp [chunked] at hc
    | data bs =>
      match bs, hc, h with
      | [], hc, _ => simp [chunked] at hc
      | [x], hc, h =>
        simp [chunked] at hc; simp [flat] at h
        exact ⟨rest, by simp [readFirst, h.1], hc, h.2⟩
      | x :: y :: ys, hc, h =>
        simp [chunked] at hc; simp [flat] at h
        exact ⟨.data (y :: ys) :: rest, by simp [readFirst, h.1], by simp [chunked, hc], by simp [flat, h.2]⟩

theorem readCall_chunked {s : Sched} (hc : chunked s = true) {n : Nat} (hn : 0 < n) {b : Nat} {t : List Nat}
    (h : flat s = b :: t) :
    ∃ g gs s', readCall n s = (.ok (g :: gs), s') ∧ gs.length + 1 ≤ n ∧ chunked s' = true ∧
      (g :: gs) ++ flat s' = flat s := by
  cases s with
  | nil => simp [flat] at h
  | cons it rest =>
    cases it with
    | fail k => simp [chunked] at hc
    | data bs =>
      cases bs with
      | nil => simp [chunked] at hc
      | cons x xs =>
        simp [chunked] at hc
        by_cases hl : (x :: xs).length ≤ n
        · have hl2 : xs.length + 1 ≤ n := by simpa using hl
          exact ⟨x, xs, rest, by simp [readCall, hl2], hl2, hc, by simp [flat]⟩
        · have hl' : n < xs.length + 1 := by simpa using hl
          obtain ⟨m, rfl⟩ : ∃ m, n = m + 1 := ⟨n - 1, by omega⟩
          refine ⟨x, xs.take m, .data (xs.drop m) :: rest, ?_, ?_, ?_, ?_⟩
          · simp [readCall]; omega
          · simp; omega
          · simp [chunked, hc]; omega
          · simp [flat]; rw [← List.append_assoc, List.take_append_drop]

theorem contLoopF_chunked : ∀ (fuel rem : Nat) (acc : List Nat) (s : Sched), rem ≤ fuel → chunked s = true →
    (rem ≤ (flat s).length →
      ∃ s', contLoopF fuel rem acc s = (.done (acc ++ (flat s).take rem), s') ∧ chunked s' = true ∧
        flat s' = (flat s).drop rem) ∧
    ((flat s).length < rem →
      ∃ s', contLoopF fuel rem acc s = (.eof (acc ++ flat s), s') ∧ chunked s' = true ∧ flat s' = []) := by
  intro fuel
  induction fuel with
  | zero =>
    intro rem acc s hr hc
    have : rem = 0 := by omega
    subst this
    exact ⟨fun _ => ⟨s, by simp [contLoopF], hc, by simp⟩, fun h => by omega⟩
  | succ fuel ih =>
    intro rem acc s hr hc
    by_cases h0 : rem = 0
    · subst h0
      exact ⟨fun _ => ⟨s, by simp [contLoopF], hc, by simp⟩, fun h => by omega⟩
    · cases hf : flat s with
      | nil =>
        have hs := chunked_flat_nil hc hf
        subst hs
        refine ⟨fun h => by simp at h; omega, fun _ => ⟨[], ?_, rfl, rfl⟩⟩
        simp [contLoopF, h0, readCall]
      | cons b t =>
        obtain ⟨g, gs, s', hrc, hlen, hc', hfl⟩ := readCall_chunked hc (Nat.pos_of_ne_zero h0) hf
        have hstep : contLoopF (fuel + 1) rem acc s = contLoopF fuel (rem - (gs.length + 1)) (acc ++ g :: gs) s' := by
          simp [contLoopF, h0, hrc]
        have hlen2 : (flat s).length = gs.length + 1 + (flat s').length := by
          rw [← hfl]; simp; omega
        have ih' := ih (rem - (gs.length + 1)) (acc ++ g :: gs) s' (by omega) hc'
        rw [hf] at hlen2
        have hbt : (b :: t).length = t.length + 1 := rfl
        constructor
        · intro hle
          obtain ⟨s'', h1, h2, h3⟩ := ih'.1 (by simp at hle; omega)
          refine ⟨s'', ?_, h2, ?_⟩
          · rw [hstep, h1, ← hf, ← hfl]
            congr 2
            rw [List.take_append]
            simp [List.take_of_length_le (show (g :: gs).length ≤ rem by simpa using hlen)]
          · rw [h3, ← hf, ← hfl, List.drop_append]
            simp [List.drop_eq_nil_of_le (show (g :: gs).length ≤ rem by simpa using hlen)]
        · intro hlt
          obtain ⟨s'', h1, h2, h3⟩ := ih'.2 (by simp at hlt; omega)
          refine ⟨s'', ?_, h2, h3⟩
          rw [hstep, h1, ← hf, ← hfl]
          simp

/-- one decoding step on the flat byte string (no reader, no schedule) -/
inductive FlatStep where
  | endOfInput
  | bad (k : IoKind)
  | char (c : Char) (rest : List Nat)

def flatStep : List Nat → FlatStep
  | [] => .endOfInput
  | b :: t =>
    match needed b with
    | none => .bad kInvalidData
    | some n =>
      if t.length < n - 1 then .bad kUnexpectedEof
      else
        match decode1 (b :: t.take (n - 1)) with
        | none => .bad kInvalidData
        | some c => .char c (t.drop (n - 1))

/-- `ChunkedChars::next` over ANY partition of the stream into non-empty read results is the flat step -/
theorem next_chunked (cc : CC) (hc : chunked cc.reader = true) (hm : cc.maxBytes = none) :
    match flatStep (flat cc.reader) with
    | .endOfInput => ∃ cc', next cc = (none, cc') ∧ cc'.cell = cc.cell ∧ flat cc'.reader = [] ∧
        chunked cc'.reader = true ∧ cc'.maxBytes = none
    | .bad k => ∃ cc', next cc = (none, cc') ∧ cc'.cell = some k
    | .char c rest => ∃ cc', next cc = (some c, cc') ∧ cc'.cell = cc.cell ∧ chunked cc'.reader = true ∧
        flat cc'.reader = rest ∧ cc'.maxBytes = none := by
  cases hf : flat cc.reader with
  | nil =>
    have hs := chunked_flat_nil hc hf
    simp only [flatStep]
    refine ⟨{ cc with reader := [] }, ?_, rfl, rfl, rfl, hm⟩
    simp [next, hs, readFirst]
  | cons b t =>
    obtain ⟨s', h1, hc', hf'⟩ := readFirst_chunked hc hf
    simp only [flatStep]
    cases hn : needed b with
    | none =>
      simp only []
      exact ⟨_, by simp [next, h1, hn]; rfl, rfl⟩
    | some n =>
      simp only []
      have hcl := contLoopF_chunked (n - 1) (n - 1) [] s' (Nat.le_refl _) hc'
      rw [hf'] at hcl
      by_cases hlt : t.length < n - 1
      · obtain ⟨s'', h2, _, _⟩ := hcl.2 hlt
        simp only [hlt, if_true]
        exact ⟨_, by simp [next, h1, hn, contLoop, h2]; rfl, rfl⟩
      · obtain ⟨s'', h2, hc'', hf''⟩ := hcl.1 (by omega)
        simp only [hlt, if_false]
        simp only [List.nil_append] at h2
        cases hd : decode1 (b :: t.take (n - 1)) with
        | none =>
          simp only []
          exact ⟨_, by simp [next, h1, hn, contLoop, h2, hm, hd]; rfl, rfl⟩
        | some c =>
          simp only []
          have he : ∃ cc', next cc = (some c, cc') ∧ cc'.reader = s'' ∧ cc'.cell = cc.cell ∧ cc'.maxBytes = none := by
            simp [next, h1, hn, contLoop, h2, hm, hd]
          obtain ⟨cc', e1, e2, e3, e4⟩ := he
          exact ⟨cc', e1, e3, by rw [e2]; exact hc'', by rw [e2]; exact hf'', e4⟩

/-- greedy decoding of the flat byte string: characters, the error kind at the stopping point (if
any), and the undecoded remainder -/
def flatDecode : Nat → List Nat → List Char × Option IoKind × List Nat
  | 0, bs => ([], none, bs)
  | fuel + 1, bs =>
    match flatStep bs with
    | .endOfInput => ([], none, [])
    | .bad k => ([], some k, bs)
    | .char c rest =>
      let r := flatDecode fuel rest
      (c :: r.1, r.2.1, r.2.2)

theorem flatStep_char {bs : List Nat} {c : Char} {rest : List Nat} (h : flatStep bs = .char c rest) :
    bs = encodeChar c ++ rest ∧ rest.length < bs.length := by
  cases bs with
  | nil => simp [flatStep] at h
  | cons b t =>
    simp only [flatStep] at h
    split at h
    · cases h
    · rename_i n hn
      split at h
      · cases h
      · rename_i hlt
        split at h
        · cases h
        · rename_i c' hd
          injection h with h1 h2
          subst h1 h2
          have := decode1_sound _ _ hd
          constructor
          · rw [← this]; simp
          · simp; omega

theorem flatStep_bad {bs : List Nat} {k : IoKind} (h : flatStep bs = .bad k) : bs ≠ [] ∧ ¬ StartsWithChar bs := by
  cases bs with
  | nil => simp [flatStep] at h
  | cons b t =>
    refine ⟨by simp, ?_⟩
    rintro ⟨c, tail, hb⟩
    obtain ⟨b', r, he, _, hn'⟩ := encodeChar_shape c
    rw [he] at hb
    simp at hb
    obtain ⟨hb1, hb2⟩ := hb
    subst hb1
    have hdec := decode1_encodeChar c
    rw [he] at hdec
    simp only [flatStep, hn'] at h
    have hlen : ¬ t.length < r.length + 1 - 1 := by rw [hb2]; simp
    rw [if_neg hlen] at h
    have htake : t.take (r.length + 1 - 1) = r := by rw [hb2]; simp
    rw [htake, hdec] at h
    cases h

theorem flatStep_end {bs : List Nat} (h : flatStep bs = .endOfInput) : bs = [] := by
  cases bs with
  | nil => rfl
  | cons b t =>
    simp only [flatStep] at h
    split at h
    · cases h
    · split at h
      · cases h
      · split at h <;> cases h

/-- the greedy flat decoder meets the encoding-based specification -/
theorem flatDecode_spec : ∀ (fuel : Nat) (bs : List Nat), bs.length < fuel →
    bs = encode (flatDecode fuel bs).1 ++ (flatDecode fuel bs).2.2 ∧
    ((flatDecode fuel bs).2.2 = [] ↔ (flatDecode fuel bs).2.1 = none) ∧
    ((flatDecode fuel bs).2.2 ≠ [] → ¬ StartsWithChar (flatDecode fuel bs).2.2) := by
  intro fuel
  induction fuel with
  | zero => intro bs h; omega
  | succ fuel ih =>
    intro bs hl
    simp only [flatDecode]
    cases hs : flatStep bs with
    | endOfInput =>
      have := flatStep_end hs
      subst this
      simp [encode]
    | bad k =>
      obtain ⟨h1, h2⟩ := flatStep_bad hs
      simp [encode, h1, h2]
    | char c rest =>
      obtain ⟨h1, h2⟩ := flatStep_char hs
      obtain ⟨i1, i2, i3⟩ := ih rest (by omega)
      simp only []
      refine ⟨?_, i2, i3⟩
      simp only [encode, List.append_assoc]
      rw [← i1]; exact h1

/-- `collect` over any partition into non-empty read results = greedy decoding of the flat bytes -/
theorem collect_eq_flat : ∀ (fuel : Nat) (cc : CC), chunked cc.reader = true → cc.maxBytes = none →
    cc.cell = none → (flat cc.reader).length < fuel →
    (collect fuel cc).1 = (flatDecode fuel (flat cc.reader)).1 ∧
    (collect fuel cc).2.cell = (flatDecode fuel (flat cc.reader)).2.1 := by
  intro fuel
  induction fuel with
  | zero => intro cc _ _ _ h; omega
  | succ fuel ih =>
    intro cc hc hm hcell hl
    have hn := next_chunked cc hc hm
    simp only [collect, flatDecode]
    cases hs : flatStep (flat cc.reader) with
    | endOfInput =>
      rw [hs] at hn
      obtain ⟨cc', e1, e2, _⟩ := hn
      simp [e1, e2, hcell]
    | bad k =>
      rw [hs] at hn
      obtain ⟨cc', e1, e2⟩ := hn
      simp [e1, e2]
    | char c rest =>
      rw [hs] at hn
      obtain ⟨cc', e1, e2, e3, e4, e5⟩ := hn
      obtain ⟨_, h2⟩ := flatStep_char hs
      have := ih cc' e3 e5 (by rw [e2]; exact hcell) (by rw [e4]; omega)
      simp only [e1]
      rw [e4] at this
      exact ⟨by rw [this.1], this.2⟩

/-! ### a chunked prefix followed by an arbitrary tail (used for faults after some good data) -/

theorem readFirst_app {pre tl : Sched} (hc : chunked pre = true) {b : Nat} {t : List Nat} (h : flat pre = b :: t) :
    ∃ pre', readFirst (pre ++ tl) = (.byte b, pre' ++ tl) ∧ chunked pre' = true ∧ flat pre' = t := by
  cases pre with
  | nil => simp [flat] at h
  | cons it rest =>
    cases it with
    | fail k => simp [chunked] at hc
    | data bs =>
      match bs, hc, h with
      | [], hc, _ => simp [chunked] at hc
      | [x], hc, h =>
        simp [chunked] at hc; simp [flat] at h
        exact ⟨rest, by simp [readFirst, h.1], hc, h.2⟩
      | x :: y :: ys, hc, h =>
        simp [chunked] at hc; simp [flat] at h
        exact ⟨.data (y :: ys) :: rest, by simp [readFirst, h.1], by simp [chunked, hc], by simp [flat, h.2]⟩

theorem readCall_app {pre tl : Sched} (hc : chunked pre = true) {n : Nat} (hn : 0 < n) {b : Nat} {t : List Nat}
    (h : flat pre = b :: t) :
    ∃ g gs pre', readCall n (pre ++ tl) = (.ok (g :: gs), pre' ++ tl) ∧ gs.length + 1 ≤ n ∧ chunked pre' = true ∧
      (g :: gs) ++ flat pre' = flat pre := by
  cases pre with
  | nil => simp [flat] at h
  | cons it rest =>
    cases it with
    | fail k => simp [chunked] at hc
    | data bs =>
      cases bs with
      | nil => simp [chunked] at hc
      | cons x xs =>
        simp [chunked] at hc
        by_cases hl : (x :: xs).length ≤ n
        · have hl2 : xs.length + 1 ≤ n := by simpa using hl
          exact ⟨x, xs, rest, by simp [readCall, hl2], hl2, hc, by simp [flat]⟩
        · have hl' : n < xs.length + 1 := by simpa using hl
          obtain ⟨m, rfl⟩ : ∃ m, n = m + 1 := ⟨n - 1, by omega⟩
          refine ⟨x, xs.take m, .data (xs.drop m) :: rest, ?_, ?_, ?_, ?_⟩
          · simp [readCall]; omega
          · simp; omega
          · simp [chunked, hc]; omega
          · simp [flat]; rw [← List.append_assoc, List.take_append_drop]

/-- the continuation loop over a chunked prefix followed by a failing call: it completes inside the prefix,
or it consumes the whole prefix and returns that error -/
theorem contLoopF_app (k : IoKind) (post : Sched) : ∀ (fuel rem : Nat) (acc : List Nat) (pre : Sched),
    rem ≤ fuel → chunked pre = true →
    (rem ≤ (flat pre).length →
      ∃ pre', contLoopF fuel rem acc (pre ++ .fail k :: post) = (.done (acc ++ (flat pre).take rem), pre' ++ .fail k :: post) ∧
        chunked pre' = true ∧ flat pre' = (flat pre).drop rem) ∧
    ((flat pre).length < rem →
      contLoopF fuel rem acc (pre ++ .fail k :: post) = (.err k (acc ++ flat pre), post)) := by
  intro fuel
  induction fuel with
  | zero =>
    intro rem acc pre hr hc
    have : rem = 0 := by omega
    subst this
    exact ⟨fun _ => ⟨pre, by simp [contLoopF], hc, by simp⟩, fun h => by omega⟩
  | succ fuel ih =>
    intro rem acc pre hr hc
    by_cases h0 : rem = 0
    · subst h0
      exact ⟨fun _ => ⟨pre, by simp [contLoopF], hc, by simp⟩, fun h => by omega⟩
    · cases hf : flat pre with
      | nil =>
        have hs := chunked_flat_nil hc hf
        subst hs
        refine ⟨fun h => by simp at h; omega, fun _ => ?_⟩
        simp [contLoopF, h0, readCall]
      | cons b t =>
        obtain ⟨g, gs, pre', hrc, hlen, hc', hfl⟩ := readCall_app (tl := .fail k :: post) hc (Nat.pos_of_ne_zero h0) hf
        have hstep : contLoopF (fuel + 1) rem acc (pre ++ .fail k :: post) =
            contLoopF fuel (rem - (gs.length + 1)) (acc ++ g :: gs) (pre' ++ .fail k :: post) := by
          simp [contLoopF, h0, hrc]
        have hlen2 : (flat pre).length = gs.length + 1 + (flat pre').length := by
          rw [← hfl]; simp; omega
        have ih' := ih (rem - (gs.length + 1)) (acc ++ g :: gs) pre' (by omega) hc'
        rw [hf] at hlen2
        have hbt : (b :: t).length = t.length + 1 := rfl
        constructor
        · intro hle
          obtain ⟨s'', h1, h2, h3⟩ := ih'.1 (by simp at hle; omega)
          refine ⟨s'', ?_, h2, ?_⟩
          · rw [hstep, h1, ← hf, ← hfl]
            congr 2
            rw [List.take_append]
            simp [List.take_of_length_le (show (g :: gs).length ≤ rem by simpa using hlen)]
          · rw [h3, ← hf, ← hfl, List.drop_append]
            simp [List.drop_eq_nil_of_le (show (g :: gs).length ≤ rem by simpa using hlen)]
        · intro hlt
          have := ih'.2 (by simp at hlt; omega)
          rw [hstep, this, ← hf, ← hfl]
          simp

/-- a hard reader error after a chunked prefix is always recorded in the cell (or an earlier
malformed / truncated sequence already was) -/
theorem collect_fault_recorded (k : IoKind) (hk1 : k ≠ kInterrupted) (post : Sched) :
    ∀ (fuel : Nat) (cc : CC) (pre : Sched), cc.reader = pre ++ .fail k :: post → chunked pre = true →
    cc.maxBytes = none → (flat pre).length < fuel → (collect fuel cc).2.cell ≠ none := by
  intro fuel
  induction fuel with
  | zero => intro cc pre _ _ _ h; omega
  | succ fuel ih =>
    intro cc pre hr hc hm hl
    simp only [collect]
    cases hf : flat pre with
    | nil =>
      have hs := chunked_flat_nil hc hf
      subst hs
      have hn : Reader.next cc = (none, { cc with reader := post, cell := some k }) := by
        unfold Reader.next
        have hki : (k == kInterrupted) = false := by simpa using hk1
        simp [hr, readFirst, hki]
      rw [hn]; simp
    | cons b t =>
      obtain ⟨pre1, h1, hc1, hf1⟩ := readFirst_app (tl := .fail k :: post) hc hf
      cases hn : needed b with
      | none =>
        have : Reader.next cc = (none, { cc with reader := pre1 ++ .fail k :: post, pulled := cc.pulled + 1, cell := some kInvalidData }) := by
          unfold Reader.next; simp [hr, h1, hn]
        rw [this]; simp [kInvalidData]
      | some n =>
        have hcl := contLoopF_app k post (n - 1) (n - 1) [] pre1 (Nat.le_refl _) hc1
        rw [hf1] at hcl
        by_cases hlt : t.length < n - 1
        · have h2 := hcl.2 hlt
          have : ∃ cc', Reader.next cc = (none, cc') ∧ cc'.cell = some k := by
            unfold Reader.next; simp [hr, h1, hn, contLoop, h2]
          obtain ⟨cc', e1, e2⟩ := this
          rw [e1]; simp [e2]
        · obtain ⟨pre2, h2, hc2, hf2⟩ := hcl.1 (by omega)
          simp only [List.nil_append] at h2
          cases hd : decode1 (b :: t.take (n - 1)) with
          | none =>
            have : ∃ cc', Reader.next cc = (none, cc') ∧ cc'.cell = some kInvalidData := by
              unfold Reader.next; simp [hr, h1, hn, contLoop, h2, hm, hd]
            obtain ⟨cc', e1, e2⟩ := this
            rw [e1]; simp [e2, kInvalidData]
          | some c =>
            have : ∃ cc', Reader.next cc = (some c, cc') ∧ cc'.reader = pre2 ++ .fail k :: post ∧ cc'.maxBytes = none := by
              unfold Reader.next; simp [hr, h1, hn, contLoop, h2, hm, hd]
            obtain ⟨cc', e1, e2, e3⟩ := this
            rw [e1]
            simp only []
            have hlen : (flat pre2).length < fuel := by
              rw [hf2]; simp; rw [hf] at hl; simp at hl; omega
            exact ih cc' pre2 e2 hc2 e3 hlen

/-! ### RingReader -/

theorem readCall_flat {n : Nat} {s s' : Sched} {r : ReadRes} (h : readCall n s = (r, s')) :
    (∀ bs, r = .ok bs → bs ++ flat s' = flat s ∧ bs.length ≤ n) ∧ (∀ k, r = .err k → flat s' = flat s) := by
  cases s with
  | nil => simp [readCall] at h; obtain ⟨rfl, rfl⟩ := h; simp [flat]
  | cons it rest =>
    cases it with
    | fail k => simp [readCall] at h; obtain ⟨rfl, rfl⟩ := h; simp [flat]
    | data d =>
      simp only [readCall] at h
      split at h
      · rename_i hl
        simp at h; obtain ⟨rfl, rfl⟩ := h
        simp [flat]; exact hl
      · simp at h; obtain ⟨rfl, rfl⟩ := h
        simp [flat]
        constructor
        · rw [← List.append_assoc, List.take_append_drop]
        · omega

theorem pushRing_fields (r : Ring) (bs : List Nat) (off : Nat) :
    (pushRingBytes r bs off).inner = r.inner ∧ (pushRingBytes r bs off).stash = r.stash ∧
    (pushRingBytes r bs off).returnedTotal = r.returnedTotal ∧ (pushRingBytes r bs off).out = r.out ∧
    (pushRingBytes r bs off).pulledBytes = r.pulledBytes ∧ (pushRingBytes r bs off).cap = r.cap ∧
    (pushRingBytes r bs off).ahead = r.ahead := by
  fun_induction pushRingBytes r bs off
  case case1 => simp
  case case2 r b bs off r1 r2 ih =>
    have h1 : r1.inner = r.inner ∧ r1.stash = r.stash ∧ r1.returnedTotal = r.returnedTotal ∧ r1.out = r.out ∧
        r1.pulledBytes = r.pulledBytes ∧ r1.cap = r.cap ∧ r1.ahead = r.ahead := by
      simp only [r1]; split <;> simp
    have h2 : r2.inner = r.inner ∧ r2.stash = r.stash ∧ r2.returnedTotal = r.returnedTotal ∧ r2.out = r.out ∧
        r2.pulledBytes = r.pulledBytes ∧ r2.cap = r.cap ∧ r2.ahead = r.ahead := by
      simp only [r2]
      split
      · split <;> simp [h1]
      · exact h1
    simp only [] at ih
    obtain ⟨a, b', c, d, e, f, g⟩ := ih
    exact ⟨by rw [a]; exact h2.1, by rw [b']; exact h2.2.1, by rw [c]; exact h2.2.2.1, by rw [d]; exact h2.2.2.2.1,
      by rw [e]; exact h2.2.2.2.2.1, by rw [f]; exact h2.2.2.2.2.2.1, by rw [g]; exact h2.2.2.2.2.2.2⟩

/-- transparency invariant of the ring reader: what was handed out plus what is stashed is exactly what
was taken from the inner reader, in order; the inner stream is intact; the stash respects the cap -/
def RInv (total : List Nat) (r : Ring) : Prop :=
  r.out ++ r.stash = r.pulledBytes ∧ r.pulledBytes ++ flat r.inner = total ∧ r.stash.length ≤ r.ahead

theorem pushBackN_room {n : Nat} {l : List Nat} (b : Nat) (h : l.length < n) : pushBackN n l b = l ++ [b] := by
  unfold pushBackN
  have : (l.length == n) = false := by simp; omega
  simp [this]

theorem stashAll_room {n : Nat} : ∀ (bs st : List Nat), st.length + bs.length ≤ n → stashAll n st bs = st ++ bs := by
  intro bs
  induction bs with
  | nil => intro st _; simp [stashAll]
  | cons b bs ih =>
    intro st h
    simp only [stashAll]
    rw [pushBackN_room b (by simp at h; omega), ih _ (by simp at h ⊢; omega)]
    simp

theorem read_RInv {total : List Nat} (r : Ring) (n : Nat) (h : RInv total r) :
    RInv total (r.read n).2 ∧ (r.read n).2.ahead = r.ahead ∧
    (∀ bs, (r.read n).1 = .ok bs → (r.read n).2.out = r.out ++ bs) ∧
    (∀ k, (r.read n).1 = .err k → (r.read n).2.out = r.out) := by
  obtain ⟨h1, h2, h3⟩ := h
  fun_cases Ring.read r n
  case case1 hn => exact ⟨⟨h1, h2, h3⟩, rfl, by simp, by simp⟩
  case case2 hn hs got =>
    refine ⟨⟨?_, h2, ?_⟩, rfl, by simp [got], by simp⟩
    · show (r.out ++ got) ++ r.stash.drop n = r.pulledBytes
      rw [List.append_assoc]; simp only [got]; rw [List.take_append_drop]; exact h1
    · show (r.stash.drop n).length ≤ r.ahead
      simp; omega
  case case3 hn hs k s hr =>
    have hf := readCall_flat hr
    refine ⟨⟨h1, ?_, h3⟩, rfl, by simp, by simp⟩
    show r.pulledBytes ++ flat s = total
    rw [hf.2 k rfl]; exact h2
  case case4 hn hs s hr =>
    have hf := readCall_flat hr
    have := (hf.1 [] rfl).1
    simp at this
    refine ⟨⟨h1, ?_, h3⟩, rfl, by simp, by simp⟩
    show r.pulledBytes ++ flat s = total
    rw [this]; exact h2
  case case5 hn hs chunk s hne hr r1 r2 =>
    have hf := readCall_flat hr
    have hfl := (hf.1 chunk rfl).1
    have hse : r.stash = [] := by simpa using hs
    have pf := pushRing_fields r1 chunk r1.returnedTotal
    obtain ⟨p1, p2, p3, p4, p5, p6, p7⟩ := pf
    have q : r2 = pushRingBytes r1 chunk r1.returnedTotal := rfl
    refine ⟨⟨?_, ?_, ?_⟩, ?_, ?_, by simp⟩
    · show (r2.out ++ chunk) ++ r2.stash = r2.pulledBytes
      rw [q, p2, p4, p5]
      show (r.out ++ chunk) ++ r.stash = r.pulledBytes ++ chunk
      rw [hse] at h1 ⊢; simp at h1 ⊢; exact h1
    · show r2.pulledBytes ++ flat r2.inner = total
      rw [q, p5, p1]
      show (r.pulledBytes ++ chunk) ++ flat s = total
      rw [List.append_assoc, hfl]; exact h2
    · show r2.stash.length ≤ r2.ahead
      rw [q, p2, p7]; exact h3
    · show r2.ahead = r.ahead
      rw [q, p7]
    · intro bs hb
      simp at hb
      show r2.out ++ chunk = r.out ++ bs
      rw [q, p4, hb]

theorem readAheadF_RInv {total : List Nat} (fuel : Nat) (r : Ring) (remaining : Nat) :
    RInv total r → r.stash.length + remaining ≤ r.ahead →
    RInv total (readAheadF fuel r remaining).2 ∧ (readAheadF fuel r remaining).2.ahead = r.ahead ∧
    (readAheadF fuel r remaining).2.out = r.out := by
  fun_induction readAheadF fuel r remaining
  case case1 r rem => intro h _; exact ⟨h, rfl, rfl⟩
  case case2 fuel r rem h0 => intro h _; exact ⟨h, rfl, rfl⟩
  case case3 fuel r rem h0 want k s hr =>
    intro h _
    have hf := readCall_flat hr
    exact ⟨⟨h.1, by show r.pulledBytes ++ flat s = total; rw [hf.2 k rfl]; exact h.2.1, h.2.2⟩, rfl, rfl⟩
  case case4 fuel r rem h0 want s hr =>
    intro h _
    have hf := readCall_flat hr
    have := (hf.1 [] rfl).1
    simp at this
    exact ⟨⟨h.1, by show r.pulledBytes ++ flat s = total; rw [this]; exact h.2.1, h.2.2⟩, rfl, rfl⟩
  case case5 fuel r rem h0 want b bs s hr chunk absStart r1 r2 ih =>
    intro h hroom
    obtain ⟨h1, h2, h3⟩ := h
    have hf := readCall_flat hr
    obtain ⟨hfl, hlen⟩ := hf.1 (b :: bs) rfl
    have hlen2 : chunk.length ≤ rem := by
      have : min rem SCRATCH ≤ rem := Nat.min_le_left _ _
      simp only [chunk, want] at hlen ⊢
      omega
    have hst : stashAll r.ahead r.stash chunk = r.stash ++ chunk :=
      stashAll_room chunk r.stash (by omega)
    obtain ⟨p1, p2, p3, p4, p5, p6, p7⟩ := pushRing_fields r1 chunk absStart
    have q : r2 = pushRingBytes r1 chunk absStart := rfl
    have hinv : RInv total r2 := by
      refine ⟨?_, ?_, ?_⟩
      · rw [q, p2, p4, p5]
        show r.out ++ stashAll r.ahead r.stash chunk = r.pulledBytes ++ chunk
        rw [hst, ← List.append_assoc, h1]
      · rw [q, p5, p1]
        show (r.pulledBytes ++ chunk) ++ flat s = total
        rw [List.append_assoc]; rw [← hfl] at h2; exact h2
      · rw [q, p2, p7]
        show (stashAll r.ahead r.stash chunk).length ≤ r.ahead
        rw [hst]; simp; omega
    have hroom2 : r2.stash.length + (rem - chunk.length) ≤ r2.ahead := by
      rw [q, p2, p7]
      show (stashAll r.ahead r.stash chunk).length + (rem - chunk.length) ≤ r.ahead
      rw [hst]; simp; omega
    obtain ⟨i1, i2, i3⟩ := ih hinv hroom2
    refine ⟨i1, ?_, ?_⟩
    · rw [i2, q, p7]
    · rw [i3, q, p4]

theorem getRecent_RInv {total : List Nat} (r : Ring) (h : RInv total r) :
    RInv total r.getRecent.2 ∧ r.getRecent.2.ahead = r.ahead ∧ r.getRecent.2.out = r.out := by
  have key : ∀ (e : Option IoKind) (r' : Ring),
      (if r.ahead - r.stash.length > 0 then readAheadAtMost r (r.ahead - r.stash.length) else (none, r)) = (e, r') →
      RInv total r' ∧ r'.ahead = r.ahead ∧ r'.out = r.out := by
    intro e r' he
    by_cases hc : r.ahead - r.stash.length > 0
    · simp only [hc, if_true, readAheadAtMost] at he
      have := readAheadF_RInv (total := total) (r.ahead - r.stash.length) r (r.ahead - r.stash.length) h
        (by have := h.2.2; omega)
      rw [he] at this
      exact this
    · simp only [hc, if_false] at he
      simp only [Prod.mk.injEq] at he
      obtain ⟨_, rfl⟩ := he
      exact ⟨h, rfl, rfl⟩
  unfold Ring.getRecent
  simp only []
  cases hx : (if r.ahead - r.stash.length > 0 then readAheadAtMost r (r.ahead - r.stash.length) else (none, r)) with
  | mk e r' =>
    have := key e r' hx
    cases e <;> simp only [] <;> exact this

theorem step_RInv {total : List Nat} (r : Ring) (op : RingOp) (h : RInv total r) :
    RInv total (r.step op).2 ∧ (r.step op).2.ahead = r.ahead := by
  cases op with
  | read n => exact ⟨(read_RInv r n h).1, (read_RInv r n h).2.1⟩
  | recent => exact ⟨(getRecent_RInv r h).1, (getRecent_RInv r h).2.1⟩

/-- bytes handed to the consumer by the `read` operations of a run -/
def returned : List (RingOut × Ring) → List Nat
  | [] => []
  | (.read (.ok bs), _) :: rest => bs ++ returned rest
  | _ :: rest => returned rest

theorem run_returned {total : List Nat} : ∀ (ops : List RingOp) (r : Ring), RInv total r →
    (r.after ops).out = r.out ++ returned (r.run ops) ∧ RInv total (r.after ops) ∧ (r.after ops).ahead = r.ahead := by
  intro ops
  induction ops with
  | nil => intro r h; simp [Ring.after, Ring.run, returned]; exact h
  | cons op ops ih =>
    intro r h
    simp only [Ring.after, Ring.run]
    obtain ⟨hs, ha⟩ := step_RInv r op h
    obtain ⟨i1, i2, i3⟩ := ih (r.step op).2 hs
    refine ⟨?_, i2, by rw [i3, ha]⟩
    rw [i1]
    cases op with
    | read n =>
      obtain ⟨_, _, ho, he⟩ := read_RInv r n h
      show (r.read n).2.out ++ _ = r.out ++ returned ((RingOut.read (r.read n).1, (r.read n).2) :: _)
      cases hres : (r.read n).1 with
      | ok bs => rw [ho bs hres]; simp [returned]
      | err k => rw [he k hres]; simp [returned]
    | recent =>
      obtain ⟨_, _, ho⟩ := getRecent_RInv r h
      show r.getRecent.2.out ++ _ = r.out ++ returned ((RingOut.recent r.getRecent.1, r.getRecent.2) :: _)
      rw [ho]; simp [returned]

end SaphyrVerif.Lemmas.C09
