import SaphyrVerif.Model.Entry
import SaphyrVerif.Lemmas.C08_Step
/-!
End-to-end composition with the budget enforcer, part 1 (pump level): the pump with a budget enforcer and the
same pump without one (`stripP`) make the same steps — same step, same successor state up to the enforcer —
until the first breach; a breach is the only way the enforcer shows.  Also: the null scalar of a stream
without content is synthesized at most once, at the very end (`J`), so a breach is never reported by a pump
whose `synthesized_null` flag is set.
-/
namespace SaphyrVerif.Lemmas.E2EBudget
open SaphyrVerif SaphyrVerif.Scalars SaphyrVerif.Pump SaphyrVerif.Budget SaphyrVerif.De

/-- the pump without its budget enforcer -/
@[reducible] def stripP (p : Pump) : Pump := { p with budget := none }

theorem serveInject_syn (p : Pump) (fs : List InjectFrame) :
    (serveInject p fs).2.synthesizedNull = p.synthesizedNull := by
  induction fs with
  | nil => rfl
  | cons fr rest ih =>
    simp only [serveInject]
    repeat' split
    all_goals first
      | exact ih
      | rfl

theorem serveInject_strip (p : Pump) (fs : List InjectFrame) {r : Option Step} {p' : Pump}
    (h : serveInject p fs = (r, p')) :
    serveInject (stripP p) fs = (r, stripP p') ∨
    ((∃ b l, r = some (.error (.budget b l))) ∧ p'.synthesizedNull = p.synthesizedNull) := by
  obtain ⟨pa, sn, lk, inj, anc, rs, bud, ll, lim, tr, pera, sade, sde, rip⟩ := p
  induction fs with
  | nil => cases h; left; rfl
  | cons fr rest ih =>
    simp only [serveInject, stripP] at h ih ⊢
    split at h
    · cases h; left; rfl
    · split at h
      · rename_i hc; simp only [hc, ↓reduceIte]; exact ih h
      · rename_i hc; simp only [hc, ↓reduceIte]
        split at h
        · exact ih h
        · split at h
          · rename_i hc2; simp only [hc2, ↓reduceIte]; cases h; left; rfl
          · rename_i hc2; simp only [hc2, ↓reduceIte]
            split at h
            · cases h; left; rfl
            · split at h
              · cases h; right; exact ⟨⟨_, _, rfl⟩, rfl⟩
              · cases h; left; rfl

theorem parserLoop_strip (p : Pump) (inp : List RawItem) {s : Step} {p' : Pump} {rest : List RawItem}
    (h : parserLoop p inp = (s, p', rest)) :
    parserLoop (stripP p) inp = (s, stripP p', rest) ∨
    ((∃ b l, s = .error (.budget b l)) ∧ p'.synthesizedNull = p.synthesizedNull) := by
  fun_induction parserLoop p inp generalizing s p' rest
  all_goals try (cases h; left; simp +zetaDelta [parserLoop, stripP, *]; done)
  all_goals try (cases h; right; exact ⟨⟨_, _, rfl⟩, rfl⟩)
  case case20 ih1 =>
    rcases ih1 h with h1 | ⟨hb, hs⟩
    · left; simpa +zetaDelta [parserLoop, stripP, Pump.resetDocumentState] using h1
    · right; exact ⟨hb, by simpa +zetaDelta [Pump.resetDocumentState] using hs⟩
  case case24 ih1 =>
    rcases ih1 h with h1 | ⟨hb, hs⟩
    · left; simp_all +zetaDelta [parserLoop, stripP, Pump.resetDocumentState]
    · right; exact ⟨hb, by simpa +zetaDelta [Pump.resetDocumentState] using hs⟩
  case case25 ih1 =>
    rcases ih1 h with h1 | ⟨hb, hs⟩
    · left; simpa +zetaDelta [parserLoop, stripP, Pump.resetDocumentState] using h1
    · right; exact ⟨hb, by simpa +zetaDelta [Pump.resetDocumentState] using hs⟩
  case case26 ih1 =>
    rcases ih1 h with h1 | ⟨hb, hs⟩
    · left; simpa +zetaDelta [parserLoop, stripP, Pump.resetDocumentState] using h1
    · right; exact ⟨hb, by simpa +zetaDelta [Pump.resetDocumentState] using hs⟩
  case case27 ih1 =>
    rcases ih1 h with h1 | ⟨hb, hs⟩
    · left; simpa +zetaDelta [parserLoop, stripP, Pump.resetDocumentState] using h1
    · right; exact ⟨hb, by simpa +zetaDelta [Pump.resetDocumentState] using hs⟩
  case case6 p loc rest' bud p1 val style anchor tag hf ev p2 p3 ob hob =>
    cases h; left
    by_cases ha : anchor = 0 <;> simp +zetaDelta [parserLoop, stripP, *]
  case case16 p loc rest' bud p1 id count p2 hc nd hd hany hrec ob hob =>
    cases h; left
    have hc' : ¬ p.limits.maxAliasExpansionsPerAnchor < min (lookupCount p.perAnchor id + 1) USIZE_MAX := hc
    have hd' : ¬ p.limits.maxReplayStackDepth < p.inject.length + 1 := hd
    have hany' : (p.recStack.any fun f => f.id == id) = true := hany
    have hrec' : ¬ (p.recursiveInProgress.contains id) = true := hrec
    simp +zetaDelta [parserLoop, stripP, hc', hd', hany']
    simpa using hrec'
  case case21 => cases h; left; simp_all +zetaDelta [parserLoop, stripP, Pump.resetDocumentState]
  case case22 => cases h; left; simp_all +zetaDelta [parserLoop, stripP, Pump.resetDocumentState]
  case case23 => cases h; left; simp_all +zetaDelta [parserLoop, stripP, Pump.resetDocumentState]
  case case15 p loc rest' bud p1 id count p2 hc nd hd hany hrec ev ob hob =>
    cases h; left
    have hc' : ¬ p.limits.maxAliasExpansionsPerAnchor < min (lookupCount p.perAnchor id + 1) USIZE_MAX := hc
    have hd' : ¬ p.limits.maxReplayStackDepth < p.inject.length + 1 := hd
    have hany' : (p.recStack.any fun f => f.id == id) = true := hany
    have hrec' : (p.recursiveInProgress.contains id) = true := hrec
    simp +zetaDelta [parserLoop, stripP, hc', hd', hany']
    simpa using hrec'
  case case18 p loc rest' bud p1 id count p2 hc nd hd hany buf hbuf p3 step q hs ob hob =>
    cases h
    have hc' : ¬ p.limits.maxAliasExpansionsPerAnchor < min (lookupCount p.perAnchor id + 1) USIZE_MAX := hc
    have hd' : ¬ p.limits.maxReplayStackDepth < p.inject.length + 1 := hd
    have hany' : ¬ (p.recStack.any fun f => f.id == id) = true := hany
    have hbuf' : lookupAnchor p.anchors id = some buf := hbuf
    rcases serveInject_strip _ _ hs with h1 | ⟨hb, hsn⟩
    · left
      simp +zetaDelta [stripP] at h1
      simp +zetaDelta [parserLoop, stripP, hc', hd', hany', hbuf', h1]
    · right; exact ⟨by simpa using hb, hsn⟩
  case case19 p loc rest' bud p1 id count p2 hc nd hd hany buf hbuf p3 q hs ob hob ih =>
    have hc' : ¬ p.limits.maxAliasExpansionsPerAnchor < min (lookupCount p.perAnchor id + 1) USIZE_MAX := hc
    have hd' : ¬ p.limits.maxReplayStackDepth < p.inject.length + 1 := hd
    have hany' : ¬ (p.recStack.any fun f => f.id == id) = true := hany
    have hbuf' : lookupAnchor p.anchors id = some buf := hbuf
    have hq : q.synthesizedNull = p.synthesizedNull := by
      rcases serveInject_strip _ _ hs with h1 | ⟨hb, hsn⟩
      · have := congrArg (fun x => x.2.synthesizedNull) h1
        exact this.symm.trans (serveInject_syn _ _)
      · exact hsn
    rcases serveInject_strip _ _ hs with h1 | ⟨hb, hsn⟩
    · rcases ih h with h2 | ⟨hb2, hs2⟩
      · left
        simp +zetaDelta [stripP] at h1
        simp +zetaDelta [parserLoop, stripP, hc', hd', hany', hbuf', h1]
        exact h2
      · right; exact ⟨hb2, hs2.trans hq⟩
    · simp at hb


/-- a step that reports a budget breach -/
def IsBreach (s : Step) : Prop := ∃ b l, s = .error (.budget b l)

theorem nextImpl_strip (p : Pump) (inp : List RawItem) {s : Step} {p' : Pump} {rest : List RawItem}
    (h : nextImpl p inp = (s, p', rest)) :
    nextImpl (stripP p) inp = (s, stripP p', rest) ∨ (IsBreach s ∧ p'.synthesizedNull = p.synthesizedNull) := by
  unfold nextImpl at h ⊢
  rcases hs : serveInject p p.inject with ⟨_ | step, p1⟩
  · rw [hs] at h
    simp only at h
    have hsyn : p1.synthesizedNull = p.synthesizedNull := by
      have := serveInject_syn p p.inject
      rw [hs] at this; exact this
    rcases serveInject_strip _ _ hs with h1 | ⟨⟨b, l, hb⟩, -⟩
    · have h1' : serveInject (stripP p) (stripP p).inject = (none, stripP p1) := h1
      rw [h1']
      simp only
      rcases parserLoop_strip _ _ h with h2 | ⟨hb, hs2⟩
      · exact .inl h2
      · exact .inr ⟨hb, hs2.trans hsyn⟩
    · cases hb
  · rw [hs] at h
    simp only [Prod.mk.injEq] at h
    obtain ⟨rfl, rfl, rfl⟩ := h
    rcases serveInject_strip _ _ hs with h1 | ⟨hb, hsn⟩
    · have h1' : serveInject (stripP p) (stripP p).inject = (some step, stripP p1) := h1
      rw [h1']
      exact .inl rfl
    · exact .inr ⟨by simpa [IsBreach] using hb, hsn⟩



theorem parserLoop_syn (p : Pump) (inp : List RawItem) {s : Step} {p' : Pump} {rest : List RawItem}
    (hi : p.inject = []) (h : parserLoop p inp = (s, p', rest)) :
    p'.synthesizedNull = p.synthesizedNull ∨
      ((∃ e, s = .event e) ∧ rest = [] ∧ p'.inject = [] ∧ p'.producedAny = true) := by
  fun_induction parserLoop p inp generalizing s p' rest
  all_goals try (cases h; left; simp +zetaDelta [*]; done)
  all_goals try (cases h; right; simp +zetaDelta [*]; done)
  case case6 p loc rest' bud p1 val style anchor tag hf ev p2 p3 ob hob =>
    cases h; left
    by_cases ha : anchor = 0 <;> simp +zetaDelta [*]
  case case18 p loc rest' bud p1 id count p2 hc nd hd hany buf hbuf p3 step q hs ob hob =>
    cases h; left
    have := serveInject_syn p3 p3.inject
    rw [hs] at this
    exact this
  case case19 p loc rest' bud p1 id count p2 hc nd hd hany buf hbuf p3 q hs ob hob ih =>
    have hq : q = { p3 with inject := [] } := C08.serveInject_cases _ _ hs
    have := ih (by rw [hq]) h
    rw [hq] at this
    exact this
  case case20 ih => exact ih (by simp +zetaDelta [Pump.resetDocumentState]) h
  case case21 => cases h; left; simp +zetaDelta [Pump.resetDocumentState]
  case case22 => cases h; left; simp +zetaDelta [Pump.resetDocumentState]
  case case23 => cases h; left; simp +zetaDelta [Pump.resetDocumentState]
  case case24 ih => exact ih (by simp +zetaDelta [Pump.resetDocumentState]) h
  case case25 ih => exact ih (by simpa +zetaDelta using hi) h
  case case26 ih => exact ih (by simpa +zetaDelta using hi) h
  case case27 ih => exact ih (by simpa +zetaDelta using hi) h



theorem nextImpl_syn (p : Pump) (inp : List RawItem) {s : Step} {p' : Pump} {rest : List RawItem}
    (h : nextImpl p inp = (s, p', rest)) :
    p'.synthesizedNull = p.synthesizedNull ∨
      ((∃ e, s = .event e) ∧ rest = [] ∧ p'.inject = [] ∧ p'.producedAny = true) := by
  unfold nextImpl at h
  rcases hs : serveInject p p.inject with ⟨_ | step, p1⟩
  · rw [hs] at h
    simp only at h
    have hp1 : p1 = { p with inject := [] } := C08.serveInject_cases _ _ hs
    subst hp1
    exact parserLoop_syn { p with inject := [] } inp rfl h
  · rw [hs] at h
    simp only [Prod.mk.injEq] at h
    obtain ⟨rfl, rfl, rfl⟩ := h
    left
    have := serveInject_syn p p.inject
    rw [hs] at this; exact this

/-- once the null scalar of a stream without content was synthesized, the input is exhausted, no replay is
pending and the pump has produced something: from then on `next_impl` only reports end of input -/
def J (p : Pump) (inp : List RawItem) : Prop :=
  p.synthesizedNull = true → inp = [] ∧ p.inject = [] ∧ p.producedAny = true

theorem nextImpl_J {p : Pump} {inp : List RawItem} {s : Step} {p' : Pump} {rest : List RawItem}
    (hJ : J p inp) (h : nextImpl p inp = (s, p', rest)) :
    J p' rest ∧ (IsBreach s → p'.synthesizedNull = false) := by
  by_cases hsyn : p.synthesizedNull = true
  · obtain ⟨rfl, hinj, hpa⟩ := hJ hsyn
    simp [nextImpl, hinj, serveInject, parserLoop, hpa] at h
    obtain ⟨rfl, rfl, rfl⟩ := h
    refine ⟨fun _ => ⟨rfl, rfl, rfl⟩, ?_⟩
    rintro ⟨b, l, hb⟩
    cases hb
  · rcases nextImpl_syn p inp h with h1 | ⟨⟨e, rfl⟩, rfl, h2, h3⟩
    · refine ⟨fun h' => absurd (h1 ▸ h') hsyn, fun _ => ?_⟩
      rw [h1]; simpa using hsyn
    · refine ⟨fun _ => ⟨rfl, h2, h3⟩, ?_⟩
      rintro ⟨b, l, hb⟩
      cases hb


end SaphyrVerif.Lemmas.E2EBudget
