import SaphyrVerif.Lemmas.C11_TypedFam
/-!
Typed multi-document theorems (C11), part 5a: the frame step for the cursor-only loops.
-/
namespace SaphyrVerif.Lemmas.Frame
open SaphyrVerif SaphyrVerif.Scalars SaphyrVerif.Pump SaphyrVerif.De
open SaphyrVerif.Lemmas.C05 (Ev.delta)
open SaphyrVerif.Lemmas.CurSim (PL PLL MRel KM VM EV)

set_option linter.unusedSimpArgs false
set_option linter.unusedVariables false

variable {K : Ctx}

theorem capture_frStep {fuel : Nat} (ih : FrA K fuel) :
    ∀ {c c'}, FSim K c c' → pos c < K.buf.length → RF K Eq (De.capture (fuel + 1) c) (De.capture (fuel + 1) c') := by
  intro c c' hs hin
  rw [De.capture, De.capture]
  fr_loop

theorem captureSeq_frStep {fuel : Nat} (ih : FrA K fuel) :
    ∀ fps evs {c c'}, FSim K c c' → 1 ≤ dep K c →
      RF K Eq (De.captureSeq (fuel + 1) c fps evs) (De.captureSeq (fuel + 1) c' fps evs) := by
  intro fps evs c c' hs hd
  rw [De.captureSeq, De.captureSeq]
  fr_loop


theorem captureMap_frStep {fuel : Nat} (ih : FrA K fuel) :
    ∀ fps evs {c c'}, FSim K c c' → 1 ≤ dep K c →
      RF K Eq (De.captureMap (fuel + 1) c fps evs) (De.captureMap (fuel + 1) c' fps evs) := by
  intro fps evs c c' hs hd
  rw [De.captureMap, De.captureMap]
  fr_loop

theorem skipOneNode_frStep {fuel : Nat} (ih : FrA K fuel) :
    ∀ {c c'}, FSim K c c' → pos c < K.buf.length →
      RF K Eq (De.skipOneNode (fuel + 1) c) (De.skipOneNode (fuel + 1) c') := by
  intro c c' hs hin
  rw [De.skipOneNode, De.skipOneNode]
  fr_loop

theorem skipDepth_frStep {fuel : Nat} (ih : FrA K fuel) :
    ∀ (depth : Nat) {c c'}, FSim K c c' → (depth : Int) ≤ dep K c →
      RF K Eq (De.skipDepth (fuel + 1) c depth) (De.skipDepth (fuel + 1) c' depth) := by
  intro depth c c' hs hd
  rw [De.skipDepth, De.skipDepth]
  by_cases h0 : depth = 0
  · subst h0
    simp only [beq_self_eq_true, ↓reduceIte]
    fr_loop
  · have h1 : (depth == 0) = false := by simp [h0]
    have h2 : 1 ≤ dep K c := by omega
    simp only [h1, Bool.false_eq_true, ↓reduceIte]
    fr_loop

theorem collectTaggedSeq_frStep {fuel : Nat} (ih : FrA K fuel) :
    ∀ (depth : Nat) acc {c c'}, FSim K c c' → (depth : Int) ≤ dep K c →
      RF K Eq (De.collectTaggedSeq (fuel + 1) c depth acc) (De.collectTaggedSeq (fuel + 1) c' depth acc) := by
  intro depth acc c c' hs hd
  rw [De.collectTaggedSeq, De.collectTaggedSeq]
  by_cases h0 : depth = 0
  · subst h0
    simp only [beq_self_eq_true, ↓reduceIte]
    fr_loop
  · have h1 : (depth == 0) = false := by simp [h0]
    have h2 : 1 ≤ dep K c := by omega
    simp only [h1, Bool.false_eq_true, ↓reduceIte]
    fr_loop

theorem bytesLoop_frStep {fuel : Nat} (ih : FrA K fuel) :
    ∀ cfg acc {c c'}, FSim K c c' → 1 ≤ dep K c →
      RF K Eq (De.bytesLoop (fuel + 1) cfg c acc) (De.bytesLoop (fuel + 1) cfg c' acc) := by
  intro cfg acc c c' hs hd
  rw [De.bytesLoop, De.bytesLoop]
  fr_loop

theorem seqElems_frStep {fuel : Nat} (ih : FrA K fuel) :
    ∀ cfg t acc {c c'}, FSim K c c' → 1 ≤ dep K c →
      RF K Eq (De.seqElems (fuel + 1) cfg t c acc) (De.seqElems (fuel + 1) cfg t c' acc) := by
  intro cfg t acc c c' hs hd
  rw [De.seqElems, De.seqElems]
  fr_loop

theorem tupleElems_frStep {fuel : Nat} (ih : FrA K fuel) :
    ∀ cfg ts acc {c c'}, FSim K c c' → 1 ≤ dep K c →
      RF K Eq (De.tupleElems (fuel + 1) cfg ts c acc) (De.tupleElems (fuel + 1) cfg ts c' acc) := by
  intro cfg ts acc c c' hs hd
  cases ts <;> rw [De.tupleElems, De.tupleElems]
  all_goals fr_loop

end SaphyrVerif.Lemmas.Frame
