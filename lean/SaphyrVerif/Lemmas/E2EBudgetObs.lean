import SaphyrVerif.Lemmas.E2EBudget
/-!
End-to-end composition with the budget enforcer, part 8: what the enforcer is shown.  `obsCall q inp` is the
list of observations the budgeted pump makes during one `next_impl` call, computed from the pump WITHOUT the
enforcer (it mirrors `serveInject` / `parserLoop`): every raw item that is consumed (an alias that is about to
be replayed through `observe_alias_to_be_replayed`), and every replayed event (stripped of anchor and tag,
`replayRaw`).  `nextImpl_obs`: the budgeted call breaches exactly when the enforcer rejects one of these
observations; otherwise it makes the step of the stripped pump and the enforcer has folded over the list.
-/
namespace SaphyrVerif.Lemmas.E2EBudget
set_option linter.unusedSimpArgs false
set_option linter.unusedVariables false
open SaphyrVerif SaphyrVerif.Scalars SaphyrVerif.Pump SaphyrVerif.Budget SaphyrVerif.De

/-- one call of the enforcer -/
inductive Obs where
  | raw (r : Raw)          -- `observe`
  | aliasReplayed          -- `observe_alias_to_be_replayed`
  | occupies               -- `alias_occupies_position` (recursion wrappers only)
deriving Repr, DecidableEq

def obsStep (e : Enf) : Obs → Except Breach Enf
  | .raw r => e.observe r
  | .aliasReplayed => e.observeAliasReplayed
  | .occupies => .ok e.aliasOccupiesPosition

/-- the enforcer folded over a list of observations -/
def feedObs (e : Enf) : List Obs → Except Breach Enf
  | [] => .ok e
  | o :: os =>
    match obsStep e o with
    | .error b => .error b
    | .ok e' => feedObs e' os

/-- observations of the inject loop (mirror of `serveInject`) -/
def obsServe (p : Pump) : List InjectFrame → List Obs
  | [] => []
  | fr :: rest =>
    match lookupAnchor p.anchors fr.anchorId with
    | none => []
    | some buf =>
      if fr.idx ≥ buf.length then obsServe p rest
      else
        match buf[fr.idx]? with
        | none => obsServe p rest
        | some ev =>
          if p.totalReplayed + 1 > p.limits.maxTotalReplayedEvents then [] else [.raw (replayRaw ev)]

/-- the observation the parser loop makes on a raw item -/
def obsItem : Raw → Obs
  | .alias _ => .aliasReplayed
  | r => .raw r

/-- observations of the parser loop (mirror of `parserLoop` on the pump without enforcer) -/
def obsLoop (p : Pump) : List RawItem → List Obs
  | [] => []
  | .err _ _ :: _ => []
  | .ev raw loc :: rest =>
    obsItem raw ::
    match raw with
    | .alias id =>
      let count := min (lookupCount p.perAnchor id + 1) USIZE_MAX
      let p := { p with perAnchor := (id, count) :: p.perAnchor }
      if count > p.limits.maxAliasExpansionsPerAnchor then []
      else if p.inject.length + 1 > p.limits.maxReplayStackDepth then []
      else if p.recStack.any (fun f => f.id == id) then
        if p.recursiveInProgress.contains id then [.occupies] else []
      else
        match lookupAnchor p.anchors id with
        | none => []
        | some _ =>
          let p := { p with inject := { anchorId := id, idx := 0, refLoc := loc } :: p.inject }
          obsServe p p.inject ++
            match serveInject p p.inject with
            | (some _, _) => []
            | (none, p') => obsLoop p' rest
    | .docStart _ => obsLoop { p.resetDocumentState with lastLoc := loc } rest
    | .docEnd =>
      let p := { p.resetDocumentState with seenDocEnd := true, lastLoc := loc }
      if p.stopAtDocEnd then [] else obsLoop p rest
    | .streamStart => obsLoop { p with lastLoc := loc } rest
    | .streamEnd => obsLoop { p with lastLoc := loc } rest
    | .nothing => obsLoop p rest
    | _ => []

/-- observations of one `next_impl` call -/
def obsCall (p : Pump) (inp : List RawItem) : List Obs :=
  obsServe p p.inject ++
    match serveInject p p.inject with
    | (some _, _) => []
    | (none, p') => obsLoop p' inp

/-- the same pump with the enforcer `b` -/
@[reducible] def withBud (p : Pump) (b : Enf) : Pump := { p with budget := some b }

theorem serveInject_obs (q : Pump) (hq : q.budget = none) (fs : List InjectFrame) (b : Enf)
    {r : Option Step} {q' : Pump} (h : serveInject q fs = (r, q')) :
    match feedObs b (obsServe q fs) with
    | .ok b' => serveInject (withBud q b) fs = (r, withBud q' b')
    | .error br => ∃ l p', serveInject (withBud q b) fs = (some (.error (.budget br l)), p') := by
  obtain ⟨pa, sn, lk, inj, anc, rs, bud, ll, lim, tr, pera, sade, sde, rip⟩ := q
  simp only at hq
  subst hq
  induction fs with
  | nil => cases h; simp [obsServe, feedObs, serveInject, withBud]
  | cons fr rest ih =>
    simp only [serveInject, obsServe, withBud] at h ih ⊢
    split at h
    · rename_i x hla; simp only [hla]; cases h; simp [feedObs]
    · rename_i x buf hla; simp only [hla]
      split at h
      · rename_i hc; simp only [hc, ↓reduceIte]; exact ih h
      · rename_i hc; simp only [hc, ↓reduceIte]
        split at h
        · rename_i hg; simp only [hg]; exact ih h
        · rename_i ev hg; simp only [hg]
          split at h
          · rename_i hc2; simp only [hc2, ↓reduceIte]; cases h; simp [feedObs]
          · rename_i hc2; simp only [hc2, ↓reduceIte]
            cases h
            cases hb : b.observe (replayRaw ev) <;> simp [feedObs, obsStep, hb]

theorem obsServe_none (q : Pump) (fs : List InjectFrame) {q' : Pump} (h : serveInject q fs = (none, q')) :
    obsServe q fs = [] := by
  induction fs with
  | nil => rfl
  | cons fr rest ih =>
    simp only [serveInject, obsServe] at h ⊢
    split at h
    · cases h
    · rename_i x buf hla; simp only [hla]
      split at h
      · rename_i hc; simp only [hc, ↓reduceIte]; exact ih h
      · rename_i hc; simp only [hc, ↓reduceIte]
        split at h
        · rename_i hg; simp only [hg]; exact ih h
        · split at h
          · cases h
          · split at h
            · cases h
            · split at h <;> cases h

theorem parserLoop_obs (q : Pump) (inp : List RawItem) (hq : q.budget = none) (b : Enf)
    {s : Step} {q' : Pump} {rest : List RawItem} (h : parserLoop q inp = (s, q', rest)) :
    match feedObs b (obsLoop q inp) with
    | .ok b' => parserLoop (withBud q b) inp = (s, withBud q' b', rest)
    | .error br => ∃ l p' r', parserLoop (withBud q b) inp = (.error (.budget br l), p', r') := by
  fun_induction parserLoop q inp generalizing b s q' rest
  all_goals try (cases h; simp +zetaDelta [obsLoop, feedObs, parserLoop, withBud, *]; done)
  case case4 => simp_all +zetaDelta
  case case6 p loc rest' bud p1 val style anchor tag hf ev p2 p3 ob hob =>
    cases h
    have hbud : bud = none := by simp +zetaDelta [hq] at hob; exact hob.symm
    subst hbud
    simp only [obsLoop, feedObs, obsItem]
    cases hb : obsStep b (.raw (.scalar val style anchor tag)) with
    | error br =>
      simp only []
      simp only [obsStep] at hb
      exact ⟨loc, withBud p b, rest', by simp [parserLoop, withBud, hb, Except.map]⟩
    | ok b1 =>
      simp only [obsStep] at hb
      simp only []
      simp +zetaDelta only [parserLoop, withBud, hb, Except.map]
      by_cases ha : anchor = 0 <;> simp +zetaDelta [hf, ha]
  all_goals try (
    cases h
    have hbud := ‹_ = Except.ok _›
    simp +zetaDelta [hq] at hbud
    subst hbud
    simp only [obsLoop, feedObs, obsItem, obsStep]
    generalize hb : Enf.observe b _ = r
    cases r with
    | error br =>
      simp only []
      simp +zetaDelta only [parserLoop, withBud, hb, Except.map]
      exact ⟨_, _, _, rfl⟩
    | ok b1 =>
      simp only []
      simp +zetaDelta only [parserLoop, withBud, hb, Except.map]
      simp_all +zetaDelta
    done)
  case case7 p loc rest' bud p1 anchor tag ev fs2 fs1 fs ob hob =>
    cases h
    have hbud : bud = none := by simp +zetaDelta [hq] at hob; exact hob.symm
    subst hbud
    simp only [obsLoop, feedObs, obsItem, obsStep]
    generalize hb : Enf.observe b _ = r
    cases r with
    | error br =>
      simp only []
      simp +zetaDelta only [parserLoop, withBud, hb, Except.map]
      exact ⟨_, _, _, rfl⟩
    | ok b1 =>
      simp only []
      simp +zetaDelta only [parserLoop, withBud, hb, Except.map]
  case case10 p loc rest' bud p1 anchor tag ev fs2 fs1 fs ob hob =>
    cases h
    have hbud : bud = none := by simp +zetaDelta [hq] at hob; exact hob.symm
    subst hbud
    simp only [obsLoop, feedObs, obsItem, obsStep]
    generalize hb : Enf.observe b _ = r
    cases r with
    | error br =>
      simp only []
      simp +zetaDelta only [parserLoop, withBud, hb, Except.map]
      exact ⟨_, _, _, rfl⟩
    | ok b1 =>
      simp only []
      simp +zetaDelta only [parserLoop, withBud, hb, Except.map]
  case case20 p loc rest' bud p1 x ob hob ih =>
    have hbud : bud = none := by simp +zetaDelta [hq] at hob; exact hob.symm
    subst hbud
    simp only [obsLoop, feedObs, obsItem, obsStep]
    generalize hb : Enf.observe b _ = r
    cases r with
    | error br =>
      simp only []
      simp +zetaDelta only [parserLoop, withBud, hb, Except.map]
      exact ⟨_, _, _, rfl⟩
    | ok b1 =>
      simp only []
      have := ih (by simp +zetaDelta [Pump.resetDocumentState, hq]) b1 h
      have hstep : parserLoop (withBud p b) (.ev (.docStart x) loc :: rest') =
          parserLoop (withBud { p.resetDocumentState with lastLoc := loc } b1) rest' := by
        simp +zetaDelta [parserLoop, withBud, hb, Except.map, Pump.resetDocumentState]
      simp only [hstep]
      simpa +zetaDelta [Pump.resetDocumentState, withBud, hq] using this
  case case25 p loc rest' bud p1 ob hob ih =>
    have hbud : bud = none := by simp +zetaDelta [hq] at hob; exact hob.symm
    subst hbud
    simp only [obsLoop, feedObs, obsItem, obsStep]
    generalize hb : Enf.observe b _ = r
    cases r with
    | error br =>
      simp only []
      simp +zetaDelta only [parserLoop, withBud, hb, Except.map]
      exact ⟨_, _, _, rfl⟩
    | ok b1 =>
      simp only []
      have := ih (by simp +zetaDelta [Pump.resetDocumentState, hq]) b1 h
      have hstep : parserLoop (withBud p b) (.ev .streamStart loc :: rest') =
          parserLoop (withBud { p with lastLoc := loc } b1) rest' := by
        simp +zetaDelta [parserLoop, withBud, hb, Except.map, Pump.resetDocumentState]
      simp only [hstep]
      simpa +zetaDelta [Pump.resetDocumentState, withBud, hq] using this
  case case26 p loc rest' bud p1 ob hob ih =>
    have hbud : bud = none := by simp +zetaDelta [hq] at hob; exact hob.symm
    subst hbud
    simp only [obsLoop, feedObs, obsItem, obsStep]
    generalize hb : Enf.observe b _ = r
    cases r with
    | error br =>
      simp only []
      simp +zetaDelta only [parserLoop, withBud, hb, Except.map]
      exact ⟨_, _, _, rfl⟩
    | ok b1 =>
      simp only []
      have := ih (by simp +zetaDelta [Pump.resetDocumentState, hq]) b1 h
      have hstep : parserLoop (withBud p b) (.ev .streamEnd loc :: rest') =
          parserLoop (withBud { p with lastLoc := loc } b1) rest' := by
        simp +zetaDelta [parserLoop, withBud, hb, Except.map, Pump.resetDocumentState]
      simp only [hstep]
      simpa +zetaDelta [Pump.resetDocumentState, withBud, hq] using this
  case case27 p loc rest' bud p1 ob hob ih =>
    have hbud : bud = none := by simp +zetaDelta [hq] at hob; exact hob.symm
    subst hbud
    simp only [obsLoop, feedObs, obsItem, obsStep]
    generalize hb : Enf.observe b _ = r
    cases r with
    | error br =>
      simp only []
      simp +zetaDelta only [parserLoop, withBud, hb, Except.map]
      exact ⟨_, _, _, rfl⟩
    | ok b1 =>
      simp only []
      have hpe : ({ p with budget := (none : Option Enf) } : Pump) = p := by cases p; simp_all
      have := ih (by simp +zetaDelta [Pump.resetDocumentState, hq]) b1 h
      have hstep : parserLoop (withBud p b) (.ev .nothing loc :: rest') =
          parserLoop (withBud p b1) rest' := by
        simp +zetaDelta [parserLoop, withBud, hb, Except.map, Pump.resetDocumentState]
      simp only [hstep]
      simpa +zetaDelta [Pump.resetDocumentState, withBud, hq, hpe] using this
  case case21 p loc bud p1 p2 hstop x loc2 rest' ob hob =>
    cases h
    have hbud : bud = none := by simp +zetaDelta [hq] at hob; exact hob.symm
    subst hbud
    have hstop' : p.stopAtDocEnd = true := by simpa +zetaDelta [Pump.resetDocumentState] using hstop
    simp +zetaDelta only [obsLoop, feedObs, obsItem, obsStep, Pump.resetDocumentState, hstop', ↓reduceIte]
    generalize hb : Enf.observe b _ = r
    cases r with
    | error br =>
      simp only []
      simp +zetaDelta only [parserLoop, withBud, hb, Except.map]
      exact ⟨_, _, _, rfl⟩
    | ok b1 =>
      simp only []
      simp +zetaDelta [parserLoop, withBud, hb, Except.map, Pump.resetDocumentState, hstop', hq]
  case case22 p loc bud p1 p2 hstop hd rest' hne ob hob =>
    cases h
    have hbud : bud = none := by simp +zetaDelta [hq] at hob; exact hob.symm
    subst hbud
    have hstop' : p.stopAtDocEnd = true := by simpa +zetaDelta [Pump.resetDocumentState] using hstop
    simp +zetaDelta only [obsLoop, feedObs, obsItem, obsStep, Pump.resetDocumentState, hstop', ↓reduceIte]
    generalize hb : Enf.observe b _ = r
    cases r with
    | error br =>
      simp only []
      simp +zetaDelta only [parserLoop, withBud, hb, Except.map]
      exact ⟨_, _, _, rfl⟩
    | ok b1 =>
      simp only []
      simp +zetaDelta [parserLoop, withBud, hb, Except.map, Pump.resetDocumentState, hstop', hq]
  case case23 p loc bud p1 p2 hstop  ob hob =>
    cases h
    have hbud : bud = none := by simp +zetaDelta [hq] at hob; exact hob.symm
    subst hbud
    have hstop' : p.stopAtDocEnd = true := by simpa +zetaDelta [Pump.resetDocumentState] using hstop
    simp +zetaDelta only [obsLoop, feedObs, obsItem, obsStep, Pump.resetDocumentState, hstop', ↓reduceIte]
    generalize hb : Enf.observe b _ = r
    cases r with
    | error br =>
      simp only []
      simp +zetaDelta only [parserLoop, withBud, hb, Except.map]
      exact ⟨_, _, _, rfl⟩
    | ok b1 =>
      simp only []
      simp +zetaDelta [parserLoop, withBud, hb, Except.map, Pump.resetDocumentState, hstop', hq]
  case case24 p loc rest' bud p1 p2 hstop ob hob ih =>
    have hbud : bud = none := by simp +zetaDelta [hq] at hob; exact hob.symm
    subst hbud
    have hstop' : ¬ p.stopAtDocEnd = true := by simpa +zetaDelta [Pump.resetDocumentState] using hstop
    simp +zetaDelta only [obsLoop, feedObs, obsItem, obsStep, Pump.resetDocumentState, hstop', ↓reduceIte]
    generalize hb : Enf.observe b _ = r
    cases r with
    | error br =>
      simp only []
      simp +zetaDelta only [parserLoop, withBud, hb, Except.map]
      exact ⟨_, _, _, rfl⟩
    | ok b1 =>
      simp only []
      have := ih (by simp +zetaDelta [Pump.resetDocumentState, hq]) b1 h
      have hstep : parserLoop (withBud p b) (.ev .docEnd loc :: rest') =
          parserLoop (withBud { p.resetDocumentState with seenDocEnd := true, lastLoc := loc } b1) rest' := by
        simp +zetaDelta [parserLoop, withBud, hb, Except.map, Pump.resetDocumentState, hstop']
      simp only [hstep]
      simpa +zetaDelta [Pump.resetDocumentState, withBud, hq, hstop'] using this
  case case13 p loc rest' bud p1 id count p2 hc ob hob =>
    cases h
    have hbud : bud = none := by simp +zetaDelta [hq] at hob; exact hob.symm
    subst hbud
    have hc' : p.limits.maxAliasExpansionsPerAnchor < min (lookupCount p.perAnchor id + 1) USIZE_MAX := hc
    simp +zetaDelta only [obsLoop, feedObs, obsItem, obsStep, hc', gt_iff_lt, ↓reduceIte]
    generalize hb : Enf.observeAliasReplayed b = r
    cases r with
    | error br =>
      simp only []
      simp +zetaDelta only [parserLoop, withBud, hb, Except.map]
      exact ⟨_, _, _, rfl⟩
    | ok b1 =>
      simp only []
      simp +zetaDelta [parserLoop, withBud, hb, Except.map, hc', hq, feedObs]
  case case14 p loc rest' bud p1 id count p2 hc nd hd ob hob =>
    cases h
    have hbud : bud = none := by simp +zetaDelta [hq] at hob; exact hob.symm
    subst hbud
    have hc' : ¬ p.limits.maxAliasExpansionsPerAnchor < min (lookupCount p.perAnchor id + 1) USIZE_MAX := hc
    have hd' : p.limits.maxReplayStackDepth < p.inject.length + 1 := hd
    simp +zetaDelta only [obsLoop, feedObs, obsItem, obsStep, hc', hd', gt_iff_lt, ↓reduceIte]
    generalize hb : Enf.observeAliasReplayed b = r
    cases r with
    | error br =>
      simp only []
      simp +zetaDelta only [parserLoop, withBud, hb, Except.map]
      exact ⟨_, _, _, rfl⟩
    | ok b1 =>
      simp only []
      simp +zetaDelta [parserLoop, withBud, hb, Except.map, hc', hd', hq, feedObs]
  case case15 p loc rest' bud p1 id count p2 hc nd hd hany hrec ev ob hob =>
    cases h
    have hbud : bud = none := by simp +zetaDelta [hq] at hob; exact hob.symm
    subst hbud
    have hc' : ¬ p.limits.maxAliasExpansionsPerAnchor < min (lookupCount p.perAnchor id + 1) USIZE_MAX := hc
    have hd' : ¬ p.limits.maxReplayStackDepth < p.inject.length + 1 := hd
    have hany' : (p.recStack.any fun f => f.id == id) = true := hany
    have hrec' : (p.recursiveInProgress.contains id) = true := hrec
    simp +zetaDelta only [obsLoop, feedObs, obsItem, obsStep, hc', hd', hany', hrec', gt_iff_lt, ↓reduceIte]
    generalize hb : Enf.observeAliasReplayed b = r
    cases r with
    | error br =>
      simp only []
      simp +zetaDelta only [parserLoop, withBud, hb, Except.map]
      exact ⟨_, _, _, rfl⟩
    | ok b1 =>
      simp only []
      have hrec'' : id ∈ p.recursiveInProgress := by simpa using hrec'
      simp +zetaDelta [parserLoop, withBud, hb, Except.map, hc', hd', hany', hq, hrec'', feedObs, obsStep]
  case case16 p loc rest' bud p1 id count p2 hc nd hd hany hrec ob hob =>
    cases h
    have hbud : bud = none := by simp +zetaDelta [hq] at hob; exact hob.symm
    subst hbud
    have hc' : ¬ p.limits.maxAliasExpansionsPerAnchor < min (lookupCount p.perAnchor id + 1) USIZE_MAX := hc
    have hd' : ¬ p.limits.maxReplayStackDepth < p.inject.length + 1 := hd
    have hany' : (p.recStack.any fun f => f.id == id) = true := hany
    have hrec' : ¬ (p.recursiveInProgress.contains id) = true := hrec
    simp +zetaDelta only [obsLoop, feedObs, obsItem, obsStep, hc', hd', hany', hrec', gt_iff_lt, ↓reduceIte]
    generalize hb : Enf.observeAliasReplayed b = r
    cases r with
    | error br =>
      simp only []
      simp +zetaDelta only [parserLoop, withBud, hb, Except.map]
      exact ⟨_, _, _, rfl⟩
    | ok b1 =>
      simp only []
      have hrec'' : ¬ id ∈ p.recursiveInProgress := by simpa using hrec'
      simp +zetaDelta [parserLoop, withBud, hb, Except.map, hc', hd', hany', hq, hrec'', feedObs]
  case case17 p loc rest' bud p1 id count p2 hc nd hd hany hla ob hob =>
    cases h
    have hbud : bud = none := by simp +zetaDelta [hq] at hob; exact hob.symm
    subst hbud
    have hc' : ¬ p.limits.maxAliasExpansionsPerAnchor < min (lookupCount p.perAnchor id + 1) USIZE_MAX := hc
    have hd' : ¬ p.limits.maxReplayStackDepth < p.inject.length + 1 := hd
    have hany' : ¬ (p.recStack.any fun f => f.id == id) = true := hany
    have hla' : lookupAnchor p.anchors id = none := hla
    simp +zetaDelta only [obsLoop, feedObs, obsItem, obsStep, hc', hd', hany', hla', gt_iff_lt, ↓reduceIte]
    generalize hb : Enf.observeAliasReplayed b = r
    cases r with
    | error br =>
      simp only []
      simp +zetaDelta only [parserLoop, withBud, hb, Except.map]
      exact ⟨_, _, _, rfl⟩
    | ok b1 =>
      simp only []
      simp +zetaDelta [parserLoop, withBud, hb, Except.map, hc', hd', hany', hla', hq, feedObs]
  case case18 p loc rest' bud p1 id count p2 hc nd hd hany buf hbuf p3 step q hs ob hob =>
    cases h
    have hbud : bud = none := by simp +zetaDelta [hq] at hob; exact hob.symm
    subst hbud
    have hc' : ¬ p.limits.maxAliasExpansionsPerAnchor < min (lookupCount p.perAnchor id + 1) USIZE_MAX := hc
    have hd' : ¬ p.limits.maxReplayStackDepth < p.inject.length + 1 := hd
    have hany' : ¬ (p.recStack.any fun f => f.id == id) = true := hany
    have hbuf' : lookupAnchor p.anchors id = some buf := hbuf
    have hs' := hs
    simp +zetaDelta only [] at hs'
    have hso := serveInject_obs p3 (by simp +zetaDelta [hq]) p3.inject
    simp +zetaDelta only [obsLoop, feedObs, obsItem, obsStep, hc', hd', hany', hbuf', gt_iff_lt, ↓reduceIte, hs',
      List.append_nil, hq, Bool.false_eq_true]
    generalize hb : Enf.observeAliasReplayed b = r
    cases r with
    | error br =>
      simp only []
      simp +zetaDelta only [parserLoop, withBud, hb, Except.map]
      exact ⟨_, _, _, rfl⟩
    | ok b1 =>
      simp only []
      have hso1 := hso b1 hs
      simp +zetaDelta only [] at hso1
      revert hso1
      generalize feedObs b1 _ = r
      intro hso1
      cases r with
      | error br =>
        simp only [] at hso1 ⊢
        obtain ⟨l, p', hso1⟩ := hso1
        simp +zetaDelta only [withBud] at hso1
        exact ⟨l, p', rest', by simp +zetaDelta [parserLoop, withBud, hb, Except.map, hc', hd', hany', hbuf', hso1]⟩
      | ok b' =>
        simp only [] at hso1 ⊢
        simp +zetaDelta only [withBud] at hso1
        simp +zetaDelta [parserLoop, withBud, hb, Except.map, hc', hd', hany', hbuf', hso1]
  case case19 p loc rest' bud p1 id count p2 hc nd hd hany buf hbuf p3 q hs ob hob ih =>
    have hbud : bud = none := by simp +zetaDelta [hq] at hob; exact hob.symm
    subst hbud
    have hc' : ¬ p.limits.maxAliasExpansionsPerAnchor < min (lookupCount p.perAnchor id + 1) USIZE_MAX := hc
    have hd' : ¬ p.limits.maxReplayStackDepth < p.inject.length + 1 := hd
    have hany' : ¬ (p.recStack.any fun f => f.id == id) = true := hany
    have hbuf' : lookupAnchor p.anchors id = some buf := hbuf
    have hs' := hs
    simp +zetaDelta only [] at hs'
    have hon := obsServe_none p3 p3.inject hs
    simp +zetaDelta only [] at hon
    have hqb : q.budget = none := by
      have hq3 : q = { p3 with inject := [] } := C08.serveInject_cases _ _ hs
      rw [hq3]
    have hso := serveInject_obs p3 (by simp +zetaDelta [hq]) p3.inject
    simp +zetaDelta only [obsLoop, feedObs, obsItem, obsStep, hc', hd', hany', hbuf', gt_iff_lt, ↓reduceIte, hs',
      List.nil_append, hq, Bool.false_eq_true, hon]
    generalize hb : Enf.observeAliasReplayed b = r
    cases r with
    | error br =>
      simp only []
      simp +zetaDelta only [parserLoop, withBud, hb, Except.map]
      exact ⟨_, _, _, rfl⟩
    | ok b1 =>
      simp only []
      have hso1 := hso b1 hs
      simp +zetaDelta only [hon, feedObs] at hso1
      simp +zetaDelta only [withBud] at hso1
      have hih := ih hqb b1 h
      have hstep : parserLoop (withBud p b) (.ev (.alias id) loc :: rest') = parserLoop (withBud q b1) rest' := by
        simp +zetaDelta [parserLoop, withBud, hb, Except.map, hc', hd', hany', hbuf', hso1]
      simp only [hstep]
      exact hih


theorem nextImpl_obs (q : Pump) (inp : List RawItem) (hq : q.budget = none) (b : Enf)
    {s : Step} {q' : Pump} {rest : List RawItem} (h : nextImpl q inp = (s, q', rest)) :
    match feedObs b (obsCall q inp) with
    | .ok b' => nextImpl (withBud q b) inp = (s, withBud q' b', rest)
    | .error br => ∃ l p' r', nextImpl (withBud q b) inp = (.error (.budget br l), p', r') := by
  unfold nextImpl at h
  unfold obsCall
  rcases hs : serveInject q q.inject with ⟨_ | step, q1⟩
  · rw [hs] at h
    simp only at h
    have hon := obsServe_none q q.inject hs
    have hq1 : q1.budget = none := by
      have hq3 : q1 = { q with inject := [] } := C08.serveInject_cases _ _ hs
      rw [hq3]; exact hq
    have hso := serveInject_obs q hq q.inject b hs
    rw [hon] at hso
    simp only [feedObs] at hso
    have hpl := parserLoop_obs q1 inp hq1 b h
    simp only [hon, List.nil_append]
    have hn : nextImpl (withBud q b) inp = parserLoop (withBud q1 b) inp := by
      unfold nextImpl
      have : (withBud q b).inject = q.inject := rfl
      rw [this, hso]
    rw [hn]
    exact hpl
  · rw [hs] at h
    simp only [Prod.mk.injEq] at h
    obtain ⟨rfl, rfl, rfl⟩ := h
    have hso := serveInject_obs q hq q.inject b hs
    simp only [List.append_nil]
    revert hso
    generalize feedObs b _ = r
    intro hso
    cases r with
    | ok b' =>
      simp only [] at hso ⊢
      unfold nextImpl
      have : (withBud q b).inject = q.inject := rfl
      rw [this, hso]
    | error br =>
      simp only [] at hso ⊢
      obtain ⟨l, p', hso⟩ := hso
      refine ⟨l, p', inp, ?_⟩
      unfold nextImpl
      have : (withBud q b).inject = q.inject := rfl
      rw [this, hso]

end SaphyrVerif.Lemmas.E2EBudget
