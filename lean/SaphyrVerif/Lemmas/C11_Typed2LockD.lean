import SaphyrVerif.Lemmas.C11_Typed2LockDe
/-!
Lock-step simulation (twin of `Lemmas/E2EBudget*.lean`, see `Lemmas/C11_Typed2LockRel.lean`), part 5d: the map access (`nextKey`, `nextValue`).  The state of
the access is the SAME on both sides (the reference locations it stores are those of the cursor, which `σ`
keeps); buffered keys and values are deserialized from private replay buffers by literally the same calls.
-/
namespace SaphyrVerif.Lemmas.Lock
open SaphyrVerif SaphyrVerif.Scalars SaphyrVerif.Pump SaphyrVerif.De

set_option linter.unusedSimpArgs false
set_option linter.unusedVariables false
set_option linter.unusedSectionVars false

variable {P : LP} (hcl : Closed P)
include hcl

theorem nextValue_lkStep {fuel : Nat} (ih : LA P fuel) :
    ∀ cfg vt m {c}, P.Inv c → LR P (De.nextValue (fuel + 1) cfg vt c m) (De.nextValue (fuel + 1) cfg vt (P.σ c) m) := by
  intro cfg vt m c hi
  rw [De.nextValue, De.nextValue]
  lk_loop

/-- nothing pending, merges being flushed -/
theorem nextKey_flush {fuel : Nat} (ih : LA P fuel) (cfg : Cfg) (ks : Ty ⊕ Unit) {c : Cur} (hi : P.Inv c)
    (hk : Bool) (seen : List FP) (ms : List (List PendingEntry)) (pv : Option (List Ev × Loc)) :
    LR P (De.nextKey (fuel + 1) cfg ks c ⟨hk, seen, [], ms, true, pv⟩)
      (De.nextKey (fuel + 1) cfg ks (P.σ c) ⟨hk, seen, [], ms, true, pv⟩) := by
  rw [De.nextKey, De.nextKey]
  simp only [↓reduceIte]
  lk_loop

/-- nothing pending, reading the mapping -/
theorem nextKey_live {fuel : Nat} (ih : LA P fuel) (cfg : Cfg) (ks : Ty ⊕ Unit) {c : Cur} (hi : P.Inv c)
    (hk : Bool) (seen : List FP) (ms : List (List PendingEntry)) (pv : Option (List Ev × Loc)) :
    LR P (De.nextKey (fuel + 1) cfg ks c ⟨hk, seen, [], ms, false, pv⟩)
      (De.nextKey (fuel + 1) cfg ks (P.σ c) ⟨hk, seen, [], ms, false, pv⟩) := by
  rw [De.nextKey, De.nextKey]
  simp only [Bool.false_eq_true, ↓reduceIte]
  lk_loop

/-- a pending entry -/
theorem nextKey_pending {fuel : Nat} (ih : LA P fuel) (cfg : Cfg) (ks : Ty ⊕ Unit) {c : Cur} (hi : P.Inv c)
    (hk : Bool) (seen : List FP) (entry : PendingEntry) (rest : List PendingEntry)
    (ms : List (List PendingEntry)) (fl : Bool) (pv : Option (List Ev × Loc)) :
    LR P (De.nextKey (fuel + 1) cfg ks c ⟨hk, seen, entry :: rest, ms, fl, pv⟩)
      (De.nextKey (fuel + 1) cfg ks (P.σ c) ⟨hk, seen, entry :: rest, ms, fl, pv⟩) := by
  rw [De.nextKey, De.nextKey]
  simp only []
  lk_loop

theorem nextKey_lkStep {fuel : Nat} (ih : LA P fuel) :
    ∀ cfg ks m {c}, P.Inv c → LR P (De.nextKey (fuel + 1) cfg ks c m) (De.nextKey (fuel + 1) cfg ks (P.σ c) m) := by
  intro cfg ks m c hi
  obtain ⟨hk, seen, pend, ms, fl, pv⟩ := m
  rcases pend with _ | ⟨entry, rest⟩
  · cases fl
    · exact nextKey_live hcl ih cfg ks hi hk seen ms pv
    · exact nextKey_flush hcl ih cfg ks hi hk seen ms pv
  · exact nextKey_pending hcl ih cfg ks hi hk seen entry rest ms fl pv

end SaphyrVerif.Lemmas.Lock
