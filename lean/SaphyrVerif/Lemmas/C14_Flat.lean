import SaphyrVerif.Lemmas.C14_Ser
import SaphyrVerif.Lemmas.C14_De
/-!
C14, round trip of records whose fields are wrapper-free values or wrappers around wrapper-free
payloads ("one level of sharing"): exact behaviour of serializer, type derivation and deserializer on
wrapper-free values, and the field-by-field simulation.
-/
namespace SaphyrVerif.Lemmas.C14
open SaphyrVerif.Anchors SaphyrVerif.Spec.Anchors

mutual
/-- the document of a wrapper-free value written with the pending anchor `a` -/
def plainOut (a : Nat) : Val → Out
  | .leaf k => .leaf (if k.takesAnchor then a else 0) k
  | .node isMap items => .node a isMap (plainOutList items)
  | .strong .. => .leaf 0 .null
  | .weak .. => .leaf 0 .null
def plainOutList : List Val → List Out
  | [] => []
  | x :: xs => plainOut 0 x :: plainOutList xs
end

mutual
def plainTyOf : Val → Ty
  | .leaf _ => .leaf false
  | .node _ items => .node (plainTyOfList items)
  | .strong .. => .leaf false
  | .weak .. => .leaf false
def plainTyOfList : List Val → List Ty
  | [] => []
  | x :: xs => plainTyOf x :: plainTyOfList xs
end

theorem SerSt.pending_none_eta (s : SerSt) (h : s.pending = none) : { s with pending := none } = s := by
  cases s; simp_all

/-! ### the serializer on wrapper-free values -/

abbrev SerPlainIH (fuel : Nat) (H : Heap) : Prop :=
  ∀ (s : SerSt) (pv : Val) (o : Out) (s' : SerSt), plainV pv = true →
    (s.pending = none ∨ takesRoot pv = true) → serVal fuel H s pv = .ok (o, s') →
    o = plainOut (s.pending.getD 0) pv ∧ s' = { s with pending := none }

theorem ser_plain_list (fuel : Nat) (H : Heap) (ih : SerPlainIH fuel H) :
    ∀ (items : List Val) (s : SerSt) (outs : List Out) (s' : SerSt), plainVList items = true →
      s.pending = none → traverse (fun st x => serVal fuel H st x) s items = .ok (outs, s') →
      outs = plainOutList items ∧ s' = s := by
  intro items
  induction items with
  | nil =>
    intro s outs s' _ _ h
    simp only [traverse, Except.ok.injEq, Prod.mk.injEq] at h
    exact ⟨by rw [← h.1]; rfl, h.2.symm⟩
  | cons x xs ihl =>
    intro s outs s' hp hpend h
    simp only [plainVList, Bool.and_eq_true] at hp
    simp only [traverse] at h
    cases hx : serVal fuel H s x with
    | error e => rw [hx] at h; cases h
    | ok r =>
      obtain ⟨y, s1⟩ := r
      rw [hx] at h
      simp only at h
      obtain ⟨e1, e2⟩ := ih s x y s1 hp.1 (Or.inl hpend) hx
      rw [SerSt.pending_none_eta s hpend] at e2
      subst e2
      cases hxs : traverse (fun st x => serVal fuel H st x) s1 xs with
      | error e => rw [hxs] at h; cases h
      | ok r2 =>
        obtain ⟨ys, s2⟩ := r2
        rw [hxs] at h
        simp only [Except.ok.injEq, Prod.mk.injEq] at h
        obtain ⟨rfl, rfl⟩ := h
        obtain ⟨f1, f2⟩ := ihl s1 ys s2 hp.2 hpend hxs
        refine ⟨?_, f2⟩
        rw [e1, f1, hpend]
        rfl

theorem ser_plain (H : Heap) : ∀ fuel, SerPlainIH fuel H := by
  intro fuel
  induction fuel with
  | zero => intro s pv o s' _ _ h; simp [serVal] at h
  | succ fuel ih =>
    intro s pv o s' hp hpend h
    cases pv with
    | strong k tid p => simp [plainV] at hp
    | weak k tid p => simp [plainV] at hp
    | leaf k =>
      simp only [serVal] at h
      split at h
      · rename_i htk
        simp only [Except.ok.injEq, Prod.mk.injEq] at h
        exact ⟨by rw [← h.1]; simp [plainOut, htk], h.2.symm⟩
      · rename_i htk
        simp only [Except.ok.injEq, Prod.mk.injEq] at h
        have hn : s.pending = none := by
          rcases hpend with h0 | h0
          · exact h0
          · simp only [takesRoot] at h0; exact absurd h0 htk
        exact ⟨by rw [← h.1]; simp [plainOut, htk], by rw [← h.2, forgetPending_none s hn, SerSt.pending_none_eta s hn]⟩
    | node isMap items =>
      simp only [plainV] at hp
      simp only [serVal] at h
      cases hl : traverse (fun st x => serVal fuel H st x) { s with pending := none } items with
      | error e => rw [hl] at h; cases h
      | ok r =>
        obtain ⟨outs, s2⟩ := r
        rw [hl] at h
        simp only [Except.ok.injEq, Prod.mk.injEq] at h
        obtain ⟨rfl, rfl⟩ := h
        obtain ⟨f1, f2⟩ := ser_plain_list fuel H ih items _ outs s2 hp rfl hl
        exact ⟨by rw [f1]; simp [plainOut], f2⟩

/-! ### the derived type of a wrapper-free value -/

theorem mapM_tyOf_plain (fuel : Nat) (H : Heap)
    (ih : ∀ pv ty, plainV pv = true → tyOf fuel H pv = some ty → ty = plainTyOf pv) :
    ∀ (items : List Val) (tys : List Ty), plainVList items = true →
      items.mapM (fun x => tyOf fuel H x) = some tys → tys = plainTyOfList items := by
  intro items
  induction items with
  | nil => intro tys _ h; simp at h; rw [h]; rfl
  | cons x xs ihl =>
    intro tys hp h
    simp only [plainVList, Bool.and_eq_true] at hp
    simp only [List.mapM_cons] at h
    cases hx : tyOf fuel H x with
    | none => rw [hx] at h; simp at h
    | some t =>
      rw [hx] at h
      cases hxs : xs.mapM (fun x => tyOf fuel H x) with
      | none => rw [hxs] at h; simp at h
      | some ts =>
        rw [hxs] at h
        simp at h
        rw [← h, ih x t hp.1 hx, ihl ts hp.2 hxs]
        rfl

theorem tyOf_plain (H : Heap) : ∀ (fuel : Nat) (pv : Val) (ty : Ty), plainV pv = true →
    tyOf fuel H pv = some ty → ty = plainTyOf pv := by
  intro fuel
  induction fuel with
  | zero => intro pv ty _ h; simp [tyOf] at h
  | succ fuel ih =>
    intro pv ty hp h
    cases pv with
    | strong k tid p => simp [plainV] at hp
    | weak k tid p => simp [plainV] at hp
    | leaf k => simp [tyOf] at h; rw [← h]; rfl
    | node isMap items =>
      simp only [plainV] at hp
      simp only [tyOf, Option.map_eq_some_iff] at h
      obtain ⟨tys, h1, h2⟩ := h
      rw [← h2, mapM_tyOf_plain fuel H ih items tys hp h1]
      rfl

/-! ### the deserializer on the document of a wrapper-free value (exact) -/

/-- the pump registers an anchored node that comes from the parser -/
def recordDef (live : Bool) (D : DeSt) (o : Out) : DeSt :=
  if live && o.rootAnchor != 0 then { D with defs := (o.rootAnchor, o) :: D.defs } else D

theorem rootAnchor_plainOut_zero (pv : Val) : (plainOut 0 pv).rootAnchor = 0 := by
  cases pv <;> simp [plainOut, Out.rootAnchor]

theorem recordDef_zero (live : Bool) (D : DeSt) (pv : Val) : recordDef live D (plainOut 0 pv) = D := by
  simp [recordDef, rootAnchor_plainOut_zero]

mutual
theorem de_plain (onAlias : Ty → Nat → DeSt → DeRes) (live : Bool) :
    ∀ (pv : Val) (a : Nat) (D : DeSt), plainV pv = true →
      deCore onAlias live (plainTyOf pv) (plainOut a pv) D =
        .ok (plainOf pv, plainOut a pv, recordDef live D (plainOut a pv))
  | .leaf k, a, D, _ => by
    simp only [plainTyOf, plainOut, deCore, probeRejects, Bool.false_and, Bool.false_eq_true, if_false,
      plainOf, recordDef, Out.rootAnchor]
    rfl
  | .node isMap items, a, D, hp => by
    simp only [plainV] at hp
    simp only [plainTyOf, plainOut, deCore, plainOf, recordDef, Out.rootAnchor]
    by_cases hc : (live && a != 0) = true
    · simp only [hc, if_true]
      rw [de_plain_list onAlias live items _ hp]
      simp
    · have hc' : (live && a != 0) = false := by simpa using hc
      simp only [hc', Bool.false_eq_true, if_false]
      rw [de_plain_list onAlias live items _ hp]
  | .strong k tid p, _, _, hp => by simp [plainV] at hp
  | .weak k tid p, _, _, hp => by simp [plainV] at hp
theorem de_plain_list (onAlias : Ty → Nat → DeSt → DeRes) (live : Bool) :
    ∀ (items : List Val) (D : DeSt), plainVList items = true →
      deList onAlias live (plainTyOfList items) (plainOutList items) D =
        .ok (plainOfList items, plainOutList items, D)
  | [], D, _ => by simp [plainTyOfList, plainOutList, plainOfList, deList]
  | x :: xs, D, hp => by
    simp only [plainVList, Bool.and_eq_true] at hp
    simp only [plainTyOfList, plainOutList, plainOfList, deList]
    rw [de_plain onAlias live x 0 D hp.1, recordDef_zero]
    simp only
    rw [de_plain_list onAlias live xs D hp.2]
end

/-! ### the four things a wrapper field can do at top level -/

theorem rootAnchor_plainOut (a : Nat) (pv : Val) (ht : takesRoot pv = true) : (plainOut a pv).rootAnchor = a := by
  cases pv with
  | leaf k => simp only [takesRoot] at ht; simp [plainOut, Out.rootAnchor, ht]
  | node m items => simp [plainOut, Out.rootAnchor]
  | strong k t p => simp [takesRoot] at ht
  | weak k t p => simp [takesRoot] at ht

theorem plainOut_not_alias (a : Nat) (pv : Val) (id : Nat) : plainOut a pv ≠ .alias id := by
  cases pv <;> simp [plainOut]

/-- state after a strong wrapper at top level has built and stored a fresh allocation -/
def afterDefine (D : DeSt) (k : Kind) (id tid : Nat) (o : Out) (pv : RVal) : DeSt :=
  { D with
    nextPtr := D.nextPtr + 1
    heap := if k.isRec then (D.nextPtr, some pv) :: (D.nextPtr, none) :: D.heap else (D.nextPtr, some pv) :: D.heap
    store := ((k, id), (D.nextPtr, tid)) :: D.store
    defs := (id, o) :: D.defs }

theorem strong_case_split (onAlias : Ty → Nat → DeSt → DeRes) (live : Bool) (k : Kind) (tid : Nat) (inner : Ty)
    (o : Out) (hna : ∀ id, o ≠ .alias id) (s : DeSt) :
    deCore onAlias live (.strong k tid inner) o s =
      (let a := o.rootAnchor
       let s1 := pushCtx s k a
       match (if a = 0 then none else currentAnchorId s1 k) with
       | none =>
         match deCore onAlias live inner o s1 with
         | .error e => .error e
         | .ok (v, e, s2) =>
           let (q, s3) := alloc s2 (some v)
           .ok (.strong k q, e, popCtx s3 a)
       | some id =>
         match getStored s1 k id tid with
         | .error e => .error e
         | .ok (some q) =>
           match deCore onAlias live inner o s1 with
           | .error e => .error e
           | .ok (_, e, s2) => .ok (.strong k q, e, popCtx s2 a)
         | .ok none =>
           if reentrant s1 k id then .error .recNeedsWeak
           else if k.isRec then
             let (q, s2) := alloc s1 none
             match deCore onAlias live inner o (storePtr s2 k id q tid) with
             | .error e => .error e
             | .ok (v, e, s3) => .ok (.strong k q, e, popCtx (fill s3 q v) a)
           else
             match deCore onAlias live inner o s1 with
             | .error e => .error e
             | .ok (v, e, s2) =>
               let (q, s3) := alloc s2 (some v)
               .ok (.strong k q, e, popCtx (storePtr s3 k id q tid) a)) := by
  cases o with
  | alias id => exact absurd rfl (hna id)
  | leaf a lk => simp only [deCore]; rfl
  | node a m items => simp only [deCore]; rfl

theorem de_strong_fresh (k : Kind) (tid id : Nat) (hid : id ≠ 0) (payload : Val) (hp : plainV payload = true)
    (ht : takesRoot payload = true) (D : DeSt) (hstack : D.stack = [])
    (hfresh : D.store.lookup (k, id) = none) :
    de (.strong k tid (plainTyOf payload)) (plainOut id payload) D =
      .ok (.strong k D.nextPtr, plainOut id payload,
        afterDefine D k id tid (plainOut id payload) (plainOf payload)) := by
  have hra := rootAnchor_plainOut id payload ht
  unfold de
  rw [strong_case_split _ _ _ _ _ _ (plainOut_not_alias id payload)]
  simp only [hra]
  have hcur := current_after_push D k id hid
  have hget : getStored (pushCtx D k id) k id tid = .ok none := by
    simp [getStored, pushCtx_store, hfresh]
  have hre : reentrant (pushCtx D k id) k id = false := by
    simp [reentrant, inProgressCount, pushCtx, hstack]
  simp only [if_neg hid, hcur, hget, hre, Bool.false_eq_true, if_false]
  have hne : (id != 0) = true := by simpa using hid
  cases hk : k.isRec with
  | true =>
    simp only [if_true, alloc]
    rw [de_plain onAliasLive true payload id _ hp]
    simp only [recordDef, hra, hne, Bool.and_self, if_true]
    simp [afterDefine, popCtx, fill, storePtr, pushCtx, hstack, hk]
  | false =>
    simp only [Bool.false_eq_true, if_false]
    rw [de_plain onAliasLive true payload id _ hp]
    simp only [recordDef, hra, hne, Bool.and_self, if_true, alloc]
    simp [afterDefine, popCtx, storePtr, pushCtx, hstack, hk]

theorem de_strong_alias (k : Kind) (tid id : Nat) (hid : id ≠ 0) (payload : Val) (hp : plainV payload = true)
    (ht : takesRoot payload = true) (D : DeSt) (hopn : D.opn = [])
    (hdef : D.defs.lookup id = some (plainOut id payload)) (q : Ptr)
    (hst : D.store.lookup (k, id) = some (q, tid)) :
    de (.strong k tid (plainTyOf payload)) (.alias id) D = .ok (.strong k q, plainOut id payload, D) := by
  have hra := rootAnchor_plainOut id payload ht
  simp only [de, deCore, onAliasLive, resolveAlias, hopn, List.contains_nil, Bool.false_eq_true, if_false, hdef]
  unfold deE
  rw [strong_case_split _ _ _ _ _ _ (plainOut_not_alias id payload)]
  simp only [hra]
  have hcur := current_after_push D k id hid
  have hget : getStored (pushCtx D k id) k id tid = .ok (some q) := by
    simp [getStored, pushCtx_store, hst]
  simp only [if_neg hid, hcur, hget]
  rw [de_plain noAlias false payload id _ hp]
  simp [recordDef, popCtx, pushCtx]

theorem de_weak_alias (k : Kind) (tid id : Nat) (hid : id ≠ 0) (payload : Val)
    (ht : takesRoot payload = true) (D : DeSt) (hopn : D.opn = [])
    (hdef : D.defs.lookup id = some (plainOut id payload)) (q : Ptr)
    (hst : D.store.lookup (k, id) = some (q, tid)) :
    de (.weak k tid) (.alias id) D = .ok (.weak k q, plainOut id payload, D) := by
  have hra := rootAnchor_plainOut id payload ht
  simp only [de, deCore, onAliasLive, resolveAlias, hopn, List.contains_nil, Bool.false_eq_true, if_false, hdef]
  have hcur := current_after_push D k id hid
  have hget : getStored (pushCtx D k id) k id tid = .ok (some q) := by
    simp [getStored, pushCtx_store, hst]
  cases hpo : plainOut id payload with
  | alias j => exact absurd hpo (plainOut_not_alias id payload j)
  | leaf a lk =>
    rw [hpo] at hra
    simp only [Out.rootAnchor] at hra
    subst hra
    simp only [deE, deCore, Out.rootAnchor, hcur, hget, Bool.false_eq_true, if_false]
    simp [popCtx, pushCtx, hid]
  | node a m items =>
    rw [hpo] at hra
    simp only [Out.rootAnchor] at hra
    subst hra
    simp only [deE, deCore, Out.rootAnchor, hcur, hget, Bool.false_eq_true, if_false]
    simp [popCtx, pushCtx, hid]

theorem de_weak_dangling (k : Kind) (tid : Nat) (D : DeSt) :
    de (.weak k tid) (.leaf 0 .null) D = .ok (.weakNull k, .leaf 0 .null, D) := by
  simp [de, deCore, Out.rootAnchor, Out.isNull]

/-! ### records with one level of sharing -/

theorem lookup_head {α β : Type} [BEq α] [LawfulBEq α] (k : α) (b : β) (l : List (α × β)) :
    List.lookup k ((k, b) :: l) = some b := by
  simp [List.lookup]

theorem lookup_tail {α β : Type} [BEq α] [LawfulBEq α] (k k' : α) (b : β) (l : List (α × β)) (h : k' ≠ k) :
    List.lookup k' ((k, b) :: l) = List.lookup k' l := by
  have : (k' == k) = false := by simpa using h
  simp [List.lookup, this]

/-- a field of a record with one level of sharing: a wrapper-free value, or a wrapper whose payload (if
the allocation is alive) is a wrapper-free value written by an anchor-taking path.  `kindOf` gives the
wrapper family and payload `TypeId` of each pointer (in Rust a given allocation has one type). -/
def FlatItem (H : Heap) (kindOf : Ptr → Kind × Nat) : Val → Prop
  | .strong k tid p => kindOf p = (k, tid) ∧
      ∃ payload, H.lookup p = some payload ∧ plainV payload = true ∧ takesRoot payload = true
  | .weak k tid p => kindOf p = (k, tid) ∧
      ∀ payload, H.lookup p = some payload → plainV payload = true ∧ takesRoot payload = true
  | .leaf _ => True
  | .node _ items => plainVList items = true

theorem ser_flat_plain (fuel : Nat) (H : Heap) (pv : Val) (hp : plainV pv = true) (S : SerSt)
    (hpend : S.pending = none) (o : Out) (S' : SerSt) (h : serVal fuel H S pv = .ok (o, S')) :
    o = plainOut 0 pv ∧ S' = S := by
  obtain ⟨e1, e2⟩ := ser_plain H fuel S pv o S' hp (Or.inl hpend) h
  rw [hpend] at e1
  exact ⟨e1, by rw [e2, SerSt.pending_none_eta S hpend]⟩

theorem serPtr_flat (fuel : Nat) (H : Heap) (k : Kind) (p : Ptr) (payload : Val)
    (hp : plainV payload = true) (ht : takesRoot payload = true)
    (S : SerSt) (hpend : S.pending = none) (hheld : S.held = []) (o : Out) (S' : SerSt)
    (h : serPtr (fun st x => serVal fuel H st x) S k p payload = .ok (o, S')) :
    (∃ id, S.anchors.lookup p = some id ∧ o = .alias id ∧ S' = S) ∨
    (S.anchors.lookup p = none ∧ o = plainOut S.next payload ∧
      S' = SerSt.mk ((p, S.next) :: S.anchors) (S.next + 1) none []) := by
  unfold serPtr at h
  rcases alloc_cases S p hpend with ⟨id, hl1, ha⟩ | ⟨hl1, ha⟩
  · rw [ha] at h
    simp only [Except.ok.injEq, Prod.mk.injEq] at h
    exact Or.inl ⟨id, hl1, h.1.symm, h.2.symm⟩
  · rw [ha] at h
    simp only at h
    split at h
    · cases h
    · split at h
      · cases h
      · rename_i x o2 s2 hrec
        simp only [Except.ok.injEq, Prod.mk.injEq] at h
        obtain ⟨rfl, rfl⟩ := h
        obtain ⟨e1, e2⟩ := ser_plain H fuel _ payload o2 s2 hp (Or.inr ht) hrec
        refine Or.inr ⟨hl1, by simpa using e1, ?_⟩
        rw [e2, hheld]

theorem ser_flat_strong (fuel : Nat) (H : Heap) (k : Kind) (tid : Nat) (p : Ptr) (payload : Val)
    (hl : H.lookup p = some payload) (hp : plainV payload = true) (ht : takesRoot payload = true)
    (S : SerSt) (hpend : S.pending = none) (hheld : S.held = []) (o : Out) (S' : SerSt)
    (h : serVal fuel H S (.strong k tid p) = .ok (o, S')) :
    (∃ id, S.anchors.lookup p = some id ∧ o = .alias id ∧ S' = S) ∨
    (S.anchors.lookup p = none ∧ o = plainOut S.next payload ∧
      S' = SerSt.mk ((p, S.next) :: S.anchors) (S.next + 1) none []) := by
  cases fuel with
  | zero => simp [serVal] at h
  | succ fuel =>
    simp only [serVal, hl] at h
    exact serPtr_flat fuel H k p payload hp ht S hpend hheld o S' h

theorem ser_flat_weak (fuel : Nat) (H : Heap) (k : Kind) (tid : Nat) (p : Ptr)
    (hpl : ∀ payload, H.lookup p = some payload → plainV payload = true ∧ takesRoot payload = true)
    (S : SerSt) (hpend : S.pending = none) (hheld : S.held = []) (o : Out) (S' : SerSt)
    (h : serVal fuel H S (.weak k tid p) = .ok (o, S')) :
    (H.lookup p = none ∧ o = .leaf 0 .null ∧ S' = S) ∨
    (∃ id, S.anchors.lookup p = some id ∧ o = .alias id ∧ S' = S) ∨
    (∃ payload, H.lookup p = some payload ∧ S.anchors.lookup p = none ∧ o = plainOut S.next payload ∧
      S' = SerSt.mk ((p, S.next) :: S.anchors) (S.next + 1) none []) := by
  cases fuel with
  | zero => simp [serVal] at h
  | succ fuel =>
    simp only [serVal] at h
    cases hl : H.lookup p with
    | none =>
      rw [hl] at h
      simp only [hpend, Option.getD_none, Except.ok.injEq, Prod.mk.injEq] at h
      exact Or.inl ⟨rfl, h.1.symm, by rw [← h.2]; exact SerSt.pending_none_eta S hpend⟩
    | some payload =>
      obtain ⟨hp, ht⟩ := hpl payload hl
      rw [hl] at h
      rcases serPtr_flat fuel H k p payload hp ht S hpend hheld o S' h with h1 | ⟨a1, a2, a3⟩
      · exact Or.inr (Or.inl h1)
      · exact Or.inr (Or.inr ⟨payload, rfl, a1, a2, a3⟩)

theorem tyOf_strong (fuel : Nat) (H : Heap) (k : Kind) (tid : Nat) (p : Ptr) (payload : Val)
    (hl : H.lookup p = some payload) (hp : plainV payload = true) (ty : Ty)
    (h : tyOf fuel H (.strong k tid p) = some ty) : ty = .strong k tid (plainTyOf payload) := by
  cases fuel with
  | zero => simp [tyOf] at h
  | succ fuel =>
    simp only [tyOf, hl, Option.map_eq_some_iff] at h
    obtain ⟨t, h1, h2⟩ := h
    rw [← h2, tyOf_plain H fuel payload t hp h1]

theorem tyOf_weak (fuel : Nat) (H : Heap) (k : Kind) (tid : Nat) (p : Ptr) (ty : Ty)
    (h : tyOf fuel H (.weak k tid p) = some ty) : ty = .weak k tid := by
  cases fuel with
  | zero => simp [tyOf] at h
  | succ fuel => simp only [tyOf, Option.some.injEq] at h; exact h.symm

/-- the simulation invariant between the serializer's pointer table and the deserializer's store -/
structure Inv (H : Heap) (kindOf : Ptr → Kind × Nat) (S : SerSt) (D : DeSt) : Prop where
  pend : S.pending = none
  held : S.held = []
  tab : TableOK S
  tinj : TableInj S
  next1 : 1 ≤ S.next
  stack : D.stack = []
  opn : D.opn = []
  stored : ∀ p id, S.anchors.lookup p = some id → ∃ q payload, H.lookup p = some payload ∧
      takesRoot payload = true ∧ plainV payload = true ∧
      D.store.lookup ((kindOf p).1, id) = some (q, (kindOf p).2) ∧ D.cell q = some (plainOf payload) ∧
      D.defs.lookup id = some (plainOut id payload)
  keys : ∀ key v, D.store.lookup key = some v → key.2 < S.next ∧ v.1 < D.nextPtr
  qinj : ∀ k1 k2 v1 v2, D.store.lookup k1 = some v1 → D.store.lookup k2 = some v2 → v1.1 = v2.1 → k1 = k2

/-- nothing the two sides already agreed on is changed -/
def Ext (S : SerSt) (D : DeSt) (S' : SerSt) (D' : DeSt) : Prop :=
  (∀ p id, S.anchors.lookup p = some id → S'.anchors.lookup p = some id) ∧
  (∀ key v, D.store.lookup key = some v → D'.store.lookup key = some v) ∧
  (∀ q c, q < D.nextPtr → D.cell q = some c → D'.cell q = some c) ∧
  D.nextPtr ≤ D'.nextPtr

theorem Ext.refl (S : SerSt) (D : DeSt) : Ext S D S D :=
  ⟨fun _ _ h => h, fun _ _ h => h, fun _ _ _ h => h, Nat.le_refl _⟩

theorem Ext.trans {S0 : SerSt} {D0 : DeSt} {S1 : SerSt} {D1 : DeSt} {S2 : SerSt} {D2 : DeSt}
    (h1 : Ext S0 D0 S1 D1) (h2 : Ext S1 D1 S2 D2) : Ext S0 D0 S2 D2 :=
  ⟨fun p id h => h2.1 p id (h1.1 p id h), fun k v h => h2.2.1 k v (h1.2.1 k v h),
   fun q c hq hc => h2.2.2.1 q c (Nat.lt_of_lt_of_le hq h1.2.2.2) (h1.2.2.1 q c hq hc),
   Nat.le_trans h1.2.2.2 h2.2.2.2⟩

/-- how a field of the original record and a field of the rebuilt record correspond -/
def FieldRel (H : Heap) (S : SerSt) (D : DeSt) : Val → RVal → Prop
  | .strong k tid p, rv => ∃ id q, S.anchors.lookup p = some id ∧ D.store.lookup (k, id) = some (q, tid) ∧
      rv = .strong k q
  | .weak k tid p, rv => (H.lookup p = none ∧ rv = .weakNull k) ∨
      (H.lookup p ≠ none ∧ ∃ id q, S.anchors.lookup p = some id ∧ D.store.lookup (k, id) = some (q, tid) ∧
        rv = .weak k q)
  | .leaf lk, rv => rv = .leaf lk
  | .node m items, rv => rv = plainOf (.node m items)

theorem FieldRel.ext {H : Heap} {S : SerSt} {D : DeSt} {S' : SerSt} {D' : DeSt} (h : Ext S D S' D') (it : Val)
    (rv : RVal) (hr : FieldRel H S D it rv) : FieldRel H S' D' it rv := by
  cases it with
  | leaf lk => exact hr
  | node m items => exact hr
  | strong k tid p =>
    obtain ⟨id, q, h1, h2, h3⟩ := hr
    exact ⟨id, q, h.1 p id h1, h.2.1 _ _ h2, h3⟩
  | weak k tid p =>
    rcases hr with hr | ⟨hl, id, q, h1, h2, h3⟩
    · exact Or.inl hr
    · exact Or.inr ⟨hl, id, q, h.1 p id h1, h.2.1 _ _ h2, h3⟩

/-- field-by-field correspondence of two records -/
def FieldsRel (H : Heap) (S : SerSt) (D : DeSt) : List Val → List RVal → Prop
  | [], [] => True
  | it :: its, v :: vs => FieldRel H S D it v ∧ FieldsRel H S D its vs
  | [], _ :: _ => False
  | _ :: _, [] => False

end SaphyrVerif.Lemmas.C14
