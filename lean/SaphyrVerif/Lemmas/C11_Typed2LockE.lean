import SaphyrVerif.Lemmas.C11_Typed2LockDe
/-!
Lock-step simulation (twin of `Lemmas/E2EBudget*.lean`, see `Lemmas/C11_Typed2LockRel.lean`), part 5e: enums (`deserEnum`, `variantPayload`).
-/
namespace SaphyrVerif.Lemmas.Lock
open SaphyrVerif SaphyrVerif.Scalars SaphyrVerif.Pump SaphyrVerif.De

set_option linter.unusedSimpArgs false
set_option linter.unusedVariables false
set_option linter.unusedSectionVars false

variable {P : LP} (hcl : Closed P)
include hcl

theorem deserEnum_lkStep {fuel : Nat} (ih : LA P fuel) :
    ∀ cfg name variants {c}, P.Inv c →
      LR P (De.deserEnum (fuel + 1) cfg name variants c) (De.deserEnum (fuel + 1) cfg name variants (P.σ c)) := by
  intro cfg name variants c hi
  rw [De.deserEnum, De.deserEnum]
  lk_loop

theorem variantPayload_lkStep {fuel : Nat} (ih : LA P fuel) :
    ∀ cfg variants vname vloc mapMode tagged {c}, P.Inv c →
      LR P (De.variantPayload (fuel + 1) cfg variants vname vloc mapMode tagged c)
        (De.variantPayload (fuel + 1) cfg variants vname vloc mapMode tagged (P.σ c)) := by
  intro cfg variants vname vloc mapMode tagged c hi
  rw [De.variantPayload, De.variantPayload]
  cases lookupField variants vname with
  | none => lk_err
  | some p =>
    obtain ⟨i, vt⟩ := p
    cases vt
    case unit => cases mapMode <;> cases tagged <;> simp only [] <;> lk_loop
    case newtype => cases mapMode <;> cases tagged <;> simp only [] <;> lk_loop
    case tuple => cases mapMode <;> cases tagged <;> simp only [] <;> lk_loop
    case struct => cases mapMode <;> cases tagged <;> simp only [] <;> lk_loop

end SaphyrVerif.Lemmas.Lock
