import SaphyrVerif.Lemmas.C14_Flat2
/-!
C14, records with one level of sharing: the round trip succeeds when every weak field comes after its
strong owner, and a successful round trip has the same sharing.
-/
namespace SaphyrVerif.Lemmas.C14
open SaphyrVerif.Anchors SaphyrVerif.Spec.Anchors

mutual
theorem relV_plainOf (H : Heap) (ρ : Ptr → Option Ptr) : ∀ (v : Val), plainV v = true → RelV H ρ v (plainOf v)
  | .leaf k, _ => by simp [RelV, plainOf]
  | .node m items, hp => by
    simp only [plainV] at hp
    simp only [RelV, plainOf]
    exact ⟨_, rfl, relVList_plainOf H ρ items hp⟩
  | .strong k t p, hp => by simp [plainV] at hp
  | .weak k t p, hp => by simp [plainV] at hp
theorem relVList_plainOf (H : Heap) (ρ : Ptr → Option Ptr) :
    ∀ (vs : List Val), plainVList vs = true → RelVList H ρ vs (plainOfList vs)
  | [], _ => by simp [RelVList, plainOfList]
  | x :: xs, hp => by
    simp only [plainVList, Bool.and_eq_true] at hp
    simp only [RelVList, plainOfList]
    exact ⟨_, _, rfl, relV_plainOf H ρ x hp.1, relVList_plainOf H ρ xs hp.2⟩
end

/-- the renaming read off the final pointer table and store -/
def ptrMap (kindOf : Ptr → Kind × Nat) (S : SerSt) (D : DeSt) (p : Ptr) : Option Ptr :=
  (S.anchors.lookup p).bind fun id => (D.store.lookup ((kindOf p).1, id)).map (·.1)

theorem ptrMap_of (kindOf : Ptr → Kind × Nat) (S : SerSt) (D : DeSt) (p : Ptr) (k : Kind) (tid id : Nat) (q : Ptr)
    (hk : kindOf p = (k, tid)) (h1 : S.anchors.lookup p = some id) (h2 : D.store.lookup (k, id) = some (q, tid)) :
    ptrMap kindOf S D p = some q := by
  simp [ptrMap, h1, hk, h2]

theorem fields_relV (H : Heap) (kindOf : Ptr → Kind × Nat) (S : SerSt) (D : DeSt) (inv : Inv H kindOf S D) :
    ∀ (items : List Val) (vs : List RVal), (∀ it ∈ items, FlatItem H kindOf it) → FieldsRel H S D items vs →
      RelVList H (ptrMap kindOf S D) items vs
  | [], [], _, _ => by simp [RelVList]
  | [], _ :: _, _, h => by simp [FieldsRel] at h
  | _ :: _, [], _, h => by simp [FieldsRel] at h
  | it :: its, v :: vs, hflat, h => by
    simp only [FieldsRel] at h
    simp only [RelVList]
    refine ⟨v, vs, rfl, ?_, fields_relV H kindOf S D inv its vs (fun x hx => hflat x (List.mem_cons_of_mem _ hx)) h.2⟩
    have hit := hflat it (List.mem_cons_self ..)
    cases it with
    | leaf lk =>
      have : v = .leaf lk := h.1
      simp [RelV, this]
    | node m items =>
      have hv : v = plainOf (.node m items) := h.1
      rw [hv]
      exact relV_plainOf H _ _ (by simp only [plainV]; exact hit)
    | strong k tid p =>
      obtain ⟨id, q, h1, h2, h3⟩ := h.1
      exact ⟨q, ptrMap_of kindOf S D p k tid id q hit.1 h1 h2, h3⟩
    | weak k tid p =>
      rcases h.1 with ⟨hn, hv⟩ | ⟨hl, id, q, h1, h2, h3⟩
      · simp only [RelV, hn, if_true]
        exact hv
      · simp only [RelV, hl, if_false]
        exact ⟨q, ptrMap_of kindOf S D p k tid id q hit.1 h1 h2, h3⟩

theorem same_sharing_of_inv (H : Heap) (kindOf : Ptr → Kind × Nat) (S : SerSt) (D : DeSt) (inv : Inv H kindOf S D)
    (m : Bool) (items : List Val) (vs : List RVal) (hflat : ∀ it ∈ items, FlatItem H kindOf it)
    (hrel : FieldsRel H S D items vs) : SameSharing H (.node m items) D (.node m vs) := by
  refine ⟨ptrMap kindOf S D, ?_, ?_, ?_⟩
  · simp only [RelV]
    exact ⟨vs, rfl, fields_relV H kindOf S D inv items vs hflat hrel⟩
  · intro p1 p2 q h1 h2
    simp only [ptrMap, Option.bind_eq_some_iff, Option.map_eq_some_iff] at h1 h2
    obtain ⟨id1, a1, v1, b1, c1⟩ := h1
    obtain ⟨id2, a2, v2, b2, c2⟩ := h2
    have hk := inv.qinj _ _ v1 v2 b1 b2 (by rw [c1, c2])
    have hid : id1 = id2 := by
      have := congrArg Prod.snd hk
      exact this
    subst hid
    exact inv.tinj p1 p2 id1 a1 a2
  · intro p q h
    simp only [ptrMap, Option.bind_eq_some_iff, Option.map_eq_some_iff] at h
    obtain ⟨id, a, v, b, c⟩ := h
    obtain ⟨q0, payload, d1, _, d3, d4, d5, _⟩ := inv.stored p id a
    rw [d4] at b
    simp only [Option.some.injEq] at b
    subst b
    simp only at c
    subst c
    exact ⟨payload, plainOf payload, d1, d5, relV_plainOf H _ payload d3⟩

/-! ### success -/

theorem flat_step_ok (H : Heap) (kindOf : Ptr → Kind × Nat) (fuel fuel' : Nat) (it : Val)
    (hit : FlatItem H kindOf it) (S : SerSt) (D : DeSt) (inv : Inv H kindOf S D)
    (o : Out) (S' : SerSt) (hser : serVal fuel H S it = .ok (o, S'))
    (ty : Ty) (hty : tyOf fuel' H it = some ty)
    (hw : ∀ k tid p, it = .weak k tid p → H.lookup p = none ∨ S.anchors.lookup p ≠ none) :
    ∃ r, de ty o D = .ok r := by
  cases it with
  | leaf lk =>
    have hp : plainV (.leaf lk) = true := rfl
    obtain ⟨e1, e2⟩ := ser_flat_plain fuel H _ hp S inv.pend o S' hser
    have := tyOf_plain H fuel' _ ty hp hty
    subst e1 e2 this
    exact ⟨_, de_plain onAliasLive true _ 0 D hp⟩
  | node m items =>
    have hp : plainV (.node m items) = true := by
      simp only [plainV]
      exact hit
    obtain ⟨e1, e2⟩ := ser_flat_plain fuel H _ hp S inv.pend o S' hser
    have := tyOf_plain H fuel' _ ty hp hty
    subst e1 e2 this
    exact ⟨_, de_plain onAliasLive true _ 0 D hp⟩
  | strong k tid p =>
    obtain ⟨hk, payload, hl, hp, ht⟩ := hit
    have hty' := tyOf_strong fuel' H k tid p payload hl hp ty hty
    subst hty'
    rcases ser_flat_strong fuel H k tid p payload hl hp ht S inv.pend inv.held o S' hser with
      ⟨id, h1, rfl, rfl⟩ | ⟨h1, rfl, rfl⟩
    · obtain ⟨q, payload0, a1, a2, a3, a4, a5, a6⟩ := inv.stored p id h1
      rw [hl] at a1
      simp only [Option.some.injEq] at a1
      subst a1
      rw [hk] at a4
      have hid : id ≠ 0 := Nat.ne_of_gt (tableOK_lookup inv.tab h1).1
      exact ⟨_, de_strong_alias k tid id hid payload hp ht D inv.opn a6 q a4⟩
    · have hid : S.next ≠ 0 := Nat.ne_of_gt inv.next1
      have hfresh : D.store.lookup (k, S.next) = none := by
        cases hs : D.store.lookup (k, S.next) with
        | none => rfl
        | some v => exact absurd (inv.keys _ v hs).1 (Nat.lt_irrefl _)
      exact ⟨_, de_strong_fresh k tid S.next hid payload hp ht D inv.stack hfresh⟩
  | weak k tid p =>
    obtain ⟨hk, hpl⟩ := hit
    have hty' := tyOf_weak fuel' H k tid p ty hty
    subst hty'
    have hseen := hw k tid p rfl
    rcases ser_flat_weak fuel H k tid p hpl S inv.pend inv.held o S' hser with
      ⟨hn, rfl, rfl⟩ | ⟨id, h1, rfl, rfl⟩ | ⟨payload, hl, h1, rfl, rfl⟩
    · exact ⟨_, de_weak_dangling k tid D⟩
    · obtain ⟨q, payload0, a1, a2, a3, a4, a5, a6⟩ := inv.stored p id h1
      rw [hk] at a4
      have hid : id ≠ 0 := Nat.ne_of_gt (tableOK_lookup inv.tab h1).1
      exact ⟨_, de_weak_alias k tid id hid payload0 a2 D inv.opn a6 q a4⟩
    · rcases hseen with hn | hs
      · rw [hn] at hl; cases hl
      · exact absurd h1 hs

theorem flat_list_ok (H : Heap) (kindOf : Ptr → Kind × Nat) (fuel fuel' : Nat) :
    ∀ (items : List Val), (∀ it ∈ items, FlatItem H kindOf it) →
    ∀ (seen : List Ptr), weaksAfterStrong H seen items = true →
    ∀ (S : SerSt) (D : DeSt), Inv H kindOf S D → (∀ p ∈ seen, S.anchors.lookup p ≠ none) →
    ∀ (outs : List Out) (S' : SerSt), traverse (fun st x => serVal fuel H st x) S items = .ok (outs, S') →
    ∀ (tys : List Ty), items.mapM (fun x => tyOf fuel' H x) = some tys →
    ∃ r, deList onAliasLive true tys outs D = .ok r := by
  intro items
  induction items with
  | nil =>
    intro _ seen _ S D _ _ outs S' hser tys hty
    simp only [traverse, Except.ok.injEq, Prod.mk.injEq] at hser
    obtain ⟨rfl, rfl⟩ := hser
    simp only [List.mapM_nil, Option.pure_def, Option.some.injEq] at hty
    subst hty
    exact ⟨([], [], D), by simp [deList]⟩
  | cons x xs ih =>
    intro hflat seen hws S D inv hseen outs S' hser tys hty
    simp only [traverse] at hser
    cases hx : serVal fuel H S x with
    | error e => rw [hx] at hser; cases hser
    | ok r =>
      obtain ⟨o1, S1⟩ := r
      rw [hx] at hser
      simp only at hser
      cases hxs : traverse (fun st x => serVal fuel H st x) S1 xs with
      | error e => rw [hxs] at hser; cases hser
      | ok r2 =>
        obtain ⟨os, S2⟩ := r2
        rw [hxs] at hser
        simp only [Except.ok.injEq, Prod.mk.injEq] at hser
        obtain ⟨rfl, rfl⟩ := hser
        simp only [List.mapM_cons] at hty
        cases htx : tyOf fuel' H x with
        | none => rw [htx] at hty; simp at hty
        | some t1 =>
          rw [htx] at hty
          cases htxs : xs.mapM (fun x => tyOf fuel' H x) with
          | none => rw [htxs] at hty; simp at hty
          | some ts =>
            rw [htxs] at hty
            simp at hty
            subst hty
            have hx_flat := hflat x (List.mem_cons_self ..)
            have hw : ∀ k tid p, x = .weak k tid p → H.lookup p = none ∨ S.anchors.lookup p ≠ none := by
              intro k tid p e
              subst e
              simp only [weaksAfterStrong, Bool.and_eq_true, Bool.or_eq_true, Option.isNone_iff_eq_none,
                List.contains_iff_mem] at hws
              rcases hws.1 with hn | hm
              · exact Or.inl hn
              · exact Or.inr (hseen p hm)
            obtain ⟨⟨v1, e1, D1⟩, hd1⟩ := flat_step_ok H kindOf fuel fuel' x hx_flat S D inv o1 S1 hx t1 htx hw
            have st := flat_step H kindOf fuel fuel' x hx_flat S D inv o1 S1 hx t1 htx v1 e1 D1 hd1
            -- the `seen` list of the tail and what the table knows
            have hnext : ∃ seen', weaksAfterStrong H seen' xs = true ∧ ∀ p ∈ seen', S1.anchors.lookup p ≠ none := by
              cases x with
              | leaf lk =>
                exact ⟨seen, by simpa [weaksAfterStrong] using hws, fun p hp h0 => by
                  cases hs : S.anchors.lookup p with
                  | none => exact hseen p hp hs
                  | some id => rw [st.2.1.1 p id hs] at h0; cases h0⟩
              | node m its =>
                exact ⟨seen, by simpa [weaksAfterStrong] using hws, fun p hp h0 => by
                  cases hs : S.anchors.lookup p with
                  | none => exact hseen p hp hs
                  | some id => rw [st.2.1.1 p id hs] at h0; cases h0⟩
              | weak k tid p0 =>
                simp only [weaksAfterStrong, Bool.and_eq_true] at hws
                exact ⟨seen, hws.2, fun p hp h0 => by
                  cases hs : S.anchors.lookup p with
                  | none => exact hseen p hp hs
                  | some id => rw [st.2.1.1 p id hs] at h0; cases h0⟩
              | strong k tid p0 =>
                simp only [weaksAfterStrong] at hws
                refine ⟨p0 :: seen, hws, fun p hp h0 => ?_⟩
                simp only [List.mem_cons] at hp
                rcases hp with rfl | hp
                · obtain ⟨id, q, h1, _, _⟩ := st.2.2
                  rw [h1] at h0
                  cases h0
                · cases hs : S.anchors.lookup p with
                  | none => exact hseen p hp hs
                  | some id => rw [st.2.1.1 p id hs] at h0; cases h0
            obtain ⟨seen', hws', hseen'⟩ := hnext
            obtain ⟨⟨vs2, es2, D2⟩, hd2⟩ := ih (fun it h => hflat it (List.mem_cons_of_mem _ h)) seen' hws' S1 D1
              st.1 hseen' os S2 hxs ts htxs
            have hd1' : deCore onAliasLive true t1 o1 D = .ok (v1, e1, D1) := hd1
            exact ⟨(v1 :: vs2, e1 :: es2, D2), by simp only [deList, hd1', hd2]⟩

theorem roundtrip_flat_ok (H : Heap) (kindOf : Ptr → Kind × Nat) (fuel : Nat) (m : Bool) (items : List Val)
    (hflat : ∀ it ∈ items, FlatItem H kindOf it) (hws : weaksAfterStrong H [] items = true)
    (o : Out) (S' : SerSt) (hser : serialize fuel H (.node m items) = .ok (o, S'))
    (ty : Ty) (hty : tyOf fuel H (.node m items) = some ty) :
    ∃ rv s, roundtrip fuel H (.node m items) = .ok rv s := by
  cases fuel with
  | zero => simp [serialize, serVal] at hser
  | succ fuel =>
    simp only [serialize, serVal] at hser
    cases hl : traverse (fun st x => serVal fuel H st x) ({ ({} : SerSt) with pending := none }) items with
    | error e => rw [hl] at hser; simp at hser
    | ok r =>
      obtain ⟨outs, S1⟩ := r
      rw [hl] at hser
      simp only [Except.ok.injEq, Prod.mk.injEq] at hser
      simp only [tyOf, Option.map_eq_some_iff] at hty
      obtain ⟨tys, hty1, hty2⟩ := hty
      obtain ⟨⟨vs, es, D'⟩, hd⟩ := flat_list_ok H kindOf fuel fuel items hflat [] hws {} {} (inv_init H kindOf)
        (by intro p hp; cases hp) outs S1 hl tys hty1
      refine ⟨.node m vs, D', ?_⟩
      simp only [roundtrip, serialize, serVal, hl, tyOf, hty1, Option.map_some, deserialize, de, deCore,
        Option.getD_none, bne_self_eq_false, Bool.and_false, Bool.false_eq_true, if_false, hd]

end SaphyrVerif.Lemmas.C14
