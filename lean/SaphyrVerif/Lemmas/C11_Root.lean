import SaphyrVerif.Lemmas.C11_DeserFam
/-!
Helper lemmas for C11, part 8: at a document root (the look-ahead holds the event the iterator has just
peeked) a successful `deser` consumes at least that event — unless the event is a container end and the
target type accepts it without consuming (`()` / `Option<_>`, possibly behind newtypes).
-/
namespace SaphyrVerif.Lemmas.C11
open SaphyrVerif SaphyrVerif.Scalars SaphyrVerif.Pump SaphyrVerif.De

/-- types whose `deserialize` returns successfully on a container-end event without consuming it -/
def acceptsEnd : Ty → Bool
  | .unit => true
  | .option _ => true
  | .newtype t => acceptsEnd t
  | _ => false

def isEndEv : Ev → Bool
  | .seqEnd _ | .mapEnd _ => true
  | _ => false

/-- on success the returned cursor is strictly smaller -/
def RLt {α : Type} (c : Cur) (r : R α) : Prop :=
  match r with
  | .ok _ c' => Lt c c'
  | .err _ _ => True

@[grind =] theorem RLt_ok {α : Type} (c c' : Cur) (a : α) : RLt c (R.ok a c') = Lt c c' := rfl
@[grind =] theorem RLt_err {α : Type} (c c' : Cur) (e : DErr) : RLt c (R.err e c' : R α) = True := rfl

theorem Lt.trans_le_root {a b c : Cur} (_h0 : Root a) (h1 : Lt a b) (h2 : Le b c) : Lt a c := h1.trans_le h2
theorem Le.trans_lt_root {a b c : Cur} (_h0 : Root a) (h1 : Le a b) (h2 : Lt b c) : Lt a c := h1.trans_lt h2
theorem RLt.of_le {α : Type} {a b : Cur} {r : R α} (_h0 : Root a) (h1 : Le a b) (h2 : RLt b r) : RLt a r := by
  cases r with
  | ok v c => exact h1.trans_lt h2
  | err e c => trivial
theorem RLt.of_lt {α : Type} {a b : Cur} {r : R α} (_h0 : Root a) (h1 : Lt a b) (h2 : RLe b r) : RLt a r := by
  cases r with
  | ok v c => exact h1.trans_le h2
  | err e c => trivial
grind_pattern Lt.trans_le_root => Root a, Lt a b, Le b c
grind_pattern Le.trans_lt_root => Root a, Le a b, Lt b c
grind_pattern RLt.of_le => Root a, Le a b, RLt b r
grind_pattern RLt.of_lt => Root a, Lt a b, RLe b r

section
variable {c : Cur} {ev : Ev} (h : curLook c = some ev)
include h

theorem rlt_takeStringScalar (cfg : Cfg) : RLt c (takeStringScalar cfg c) := by
  obtain ⟨c2, hn, hlt⟩ := next_of_look h
  have hroot : Root c := trivial
  simp only [takeStringScalar]
  grind
theorem rlt_deserScalarTyped (cfg : Cfg) (ty : Ty) : RLt c (deserScalarTyped cfg ty c) := by
  obtain ⟨c1, hp, hpp, hl1, hle1⟩ := peek_of_look h
  obtain ⟨c2, hn, hlt⟩ := next_of_look h
  obtain ⟨c3, hn1, hlt1⟩ := next_of_look hl1
  have hroot : Root c := trivial
  simp only [deserScalarTyped]
  grind (splits := 40)

theorem rlt_deserString (cfg : Cfg) : RLt c (deserString cfg c) := by
  obtain ⟨c1, hp, hpp, hl1, hle1⟩ := peek_of_look h
  obtain ⟨c3, hn1, hlt1⟩ := next_of_look hl1
  have ht := rlt_takeStringScalar hl1 cfg
  have hroot : Root c := trivial
  simp only [deserString]
  grind (splits := 40)

theorem rlt_deserAnyScalar (cfg : Cfg) (v : List Char) (tag : Nat) (st : Style) (l : Loc) :
    RLt c (deserAnyScalar cfg c v tag st l) := by
  obtain ⟨c2, hn, hlt⟩ := next_of_look h
  have ht := rlt_takeStringScalar h cfg
  have hroot : Root c := trivial
  simp only [deserAnyScalar]
  grind (splits := 40)

theorem rlt_deserSeqLike (n : Nat) (cfg : Cfg) (sh : Ty ⊕ List Ty) : RLt c (deserSeqLike n cfg sh c) := by
  cases n with
  | zero => simp [deserSeqLike, RLt]
  | succ n =>
    obtain ⟨c1, hp, hpp, hl1, hle1⟩ := peek_of_look h
    obtain ⟨c3, hn1, hlt1⟩ := next_of_look hl1
    have i12 := (allLe n).seqElems
    have i13 := (allLe n).tupleElems
    have hroot : Root c := trivial
    simp only [deserSeqLike]
    grind (splits := 40) (gen := 40) (ematch := 40)

theorem rlt_deserMapLike (n : Nat) (cfg : Cfg) (sh : (Ty × Ty) ⊕ (List (String × Ty) × Bool)) :
    RLt c (deserMapLike n cfg sh c) := by
  cases n with
  | zero => simp [deserMapLike, RLt]
  | succ n =>
    obtain ⟨c1, hp, hpp, hl1, hle1⟩ := peek_of_look h
    obtain ⟨c3, hn1, hlt1⟩ := next_of_look hl1
    have i15 := (allLe n).mapEntries
    have i16 := (allLe n).structEntries
    have hroot : Root c := trivial
    simp only [deserMapLike]
    grind (splits := 40) (gen := 40) (ematch := 40)

theorem rlt_deserEnum (n : Nat) (cfg : Cfg) (name : String) (vs : List (String × VTy)) :
    RLt c (deserEnum n cfg name vs c) := by
  cases n with
  | zero => simp [deserEnum, RLt]
  | succ n =>
    obtain ⟨c1, hp, hpp, hl1, hle1⟩ := peek_of_look h
    obtain ⟨c3, hn1, hlt1⟩ := next_of_look hl1
    have i20 := (allLe n).collectTaggedSeq
    have i21 := (allLe n).variantPayload
    have hroot : Root c := trivial
    simp only [deserEnum]
    grind (splits := 40) (gen := 40) (ematch := 40)
end

/-- a successful `deser` at a document root makes progress -/
theorem deser_root (fuel : Nat) : ∀ (cfg : Cfg) (ty : Ty) (ik k : Bool) (c : Cur) (ev : Ev),
    curLook c = some ev → (isEndEv ev = true → acceptsEnd ty = false) →
    RLt c (deser fuel cfg ty ik k c) := by
  induction fuel with
  | zero => intro cfg ty ik k c ev _ _; simp [deser, RLt]
  | succ n ih =>
    intro cfg ty ik k c ev h hacc
    obtain ⟨c1, hp, hpp, hl1, hle1⟩ := peek_of_look h
    obtain ⟨c2, hn, hlt⟩ := next_of_look h
    obtain ⟨c3, hn1, hlt1⟩ := next_of_look hl1
    have hroot : Root c := trivial
    cases ty with
    | bool => simp only [deser]; exact rlt_deserScalarTyped h cfg _
    | int s w => simp only [deser]; exact rlt_deserScalarTyped h cfg _
    | float w => simp only [deser]; exact rlt_deserScalarTyped h cfg _
    | char => simp only [deser]; exact rlt_deserScalarTyped h cfg _
    | string => simp only [deser]; exact rlt_deserString h cfg
    | newtype t =>
      simp only [deser]
      exact ih cfg t ik k c ev h (by simpa [acceptsEnd] using hacc)
    | unit =>
      simp only [deser]
      cases ev <;> simp [isEndEv, acceptsEnd] at hacc <;> grind
    | option t =>
      simp only [deser]
      have i9 := (allLe n).deser
      cases ev with
      | seqEnd l => simp [isEndEv, acceptsEnd] at hacc
      | mapEnd l => simp [isEndEv, acceptsEnd] at hacc
      | scalar v tg rt st a l =>
        have ih1 := ih cfg t ik k c1 _ hl1 (by simp [isEndEv])
        grind
      | seqStart a tg rt l =>
        have ih1 := ih cfg t ik k c1 _ hl1 (by simp [isEndEv])
        grind
      | mapStart a l =>
        have ih1 := ih cfg t ik k c1 _ hl1 (by simp [isEndEv])
        grind
    | bytes =>
      simp only [deser]
      have i10 := (allLe n).bytesLoop
      grind
    | seq t => simp only [deser]; exact rlt_deserSeqLike h n cfg _
    | tuple ts => simp only [deser]; exact rlt_deserSeqLike h n cfg _
    | map kt vt => simp only [deser]; exact rlt_deserMapLike h n cfg _
    | struct fields deny => simp only [deser]; exact rlt_deserMapLike h n cfg _
    | enum name vs => simp only [deser]; exact rlt_deserEnum h n cfg name vs
    | any =>
      simp only [deser]
      have h1 := fun v tag st l => rlt_deserAnyScalar hl1 cfg v tag st l
      have h2 := rlt_deserSeqLike hl1 n cfg (.inl .any)
      have h3 := rlt_deserMapLike hl1 n cfg (.inl (.any, .any))
      grind

end SaphyrVerif.Lemmas.C11
