import SaphyrVerif.Lemmas.CurSimDe
/-!
The payload of a tag-selected variant (`!Variant payload`) is read from a private replay buffer whose
reference location is `tagUseSite c l` (fix e5db46c: the alias token when the tagged node is delivered by
a replay). The two sides of a cursor simulation disagree about that reference location, never about the
buffer: the outcome of the payload call is transported from one side to the other by `Sim.replay`.
-/
namespace SaphyrVerif.Lemmas.CurSim
open SaphyrVerif SaphyrVerif.Scalars SaphyrVerif.Pump SaphyrVerif.De

open Lean Elab Tactic Meta in
/-- transport the outcome of the `variantPayload` call over a replay cursor in the newest equation (left
side) to the other `variantPayload` call over a replay cursor that occurs in the goal (right side); needs a
`SimA _` hypothesis in the context -/
elab "sim_fwd_payload" : tactic => withMainContext do
  let some (n, isOk, h) ← newestCallEq | throwError "sim_fwd_payload: no call"
  unless n == ``De.variantPayload do throwError "sim_fwd_payload: not a payload call"
  let hty ← instantiateMVars (← inferType (← elabTerm h none))
  let some (_, lhs, _) := hty.eq? | throwError "sim_fwd_payload: not an equation"
  unless (lhs.getArg! 7).isAppOf ``De.Cur.replay do throwError "sim_fwd_payload: not over a replay cursor"
  let tgt ← instantiateMVars (← getMainTarget)
  let some t' := tgt.find? (fun e => e.isAppOfArity ``De.variantPayload 8 && (e.getArg! 7).isAppOf ``De.Cur.replay && e != lhs)
    | throwError "sim_fwd_payload: no other payload call in the goal"
  let t'stx ← Term.exprToSyntax t'
  let prf ← `((SimA.variantPayload ‹SimA _› _ _ _ _ _ _ (Sim.replay _ _ _ _) : RV Eq _ $t'stx))
  if isOk then evalTactic (← `(tactic| fwdk_eq $h, $prf))
  else evalTactic (← `(tactic| fwde $h, $prf))

end SaphyrVerif.Lemmas.CurSim
