import SaphyrVerif.Lemmas.C17Window
/-!
Helper lemmas for C17, part 5: rows of a text (`takeRows` / `dropRows`), `line_starts`, the vertical
window.
-/
namespace SaphyrVerif.Lemmas.C17
open SaphyrVerif SaphyrVerif.Snippet
open SaphyrVerif.Spec.Snippet (takeRows dropRows)

@[simp] theorem takeRows_zero (s : List Char) : takeRows 0 s = [] := by cases s <;> rfl
@[simp] theorem dropRows_zero (s : List Char) : dropRows 0 s = s := by cases s <;> rfl
@[simp] theorem takeRows_nil (k : Nat) : takeRows k [] = [] := by cases k <;> rfl
@[simp] theorem dropRows_nil (k : Nat) : dropRows k [] = [] := by cases k <;> rfl

theorem takeRows_succ_cons (k : Nat) (c : Char) (cs : List Char) :
    takeRows (k + 1) (c :: cs) = if c = '\n' then c :: takeRows k cs else c :: takeRows (k + 1) cs := rfl
theorem dropRows_succ_cons (k : Nat) (c : Char) (cs : List Char) :
    dropRows (k + 1) (c :: cs) = if c = '\n' then dropRows k cs else dropRows (k + 1) cs := rfl

theorem takeRows_append_dropRows (k : Nat) (s : List Char) : takeRows k s ++ dropRows k s = s := by
  induction s generalizing k with
  | nil => simp
  | cons c cs ih =>
    cases k with
    | zero => simp
    | succ k =>
      unfold takeRows dropRows
      by_cases hc : c = '\n'
      · rw [if_pos hc, if_pos hc, List.cons_append, ih]
      · rw [if_neg hc, if_neg hc, List.cons_append, ih]

theorem takeRows_add (i j : Nat) (s : List Char) :
    takeRows (i + j) s = takeRows i s ++ takeRows j (dropRows i s) := by
  induction s generalizing i with
  | nil => simp
  | cons c cs ih =>
    cases i with
    | zero => simp
    | succ i =>
      have e : i + 1 + j = (i + j) + 1 := by omega
      rw [e, takeRows_succ_cons, takeRows_succ_cons, dropRows_succ_cons]
      by_cases hc : c = '\n'
      · rw [if_pos hc, if_pos hc, if_pos hc, ih, List.cons_append]
      · rw [if_neg hc, if_neg hc, if_neg hc]
        have := ih (i + 1)
        rw [e] at this
        rw [this, List.cons_append]

theorem dropRows_add (i j : Nat) (s : List Char) : dropRows (i + j) s = dropRows j (dropRows i s) := by
  induction s generalizing i with
  | nil => simp
  | cons c cs ih =>
    cases i with
    | zero => simp
    | succ i =>
      have e : i + 1 + j = (i + j) + 1 := by omega
      rw [e, dropRows_succ_cons, dropRows_succ_cons]
      by_cases hc : c = '\n'
      · rw [if_pos hc, if_pos hc, ih]
      · rw [if_neg hc, if_neg hc]
        have := ih (i + 1)
        rw [e] at this
        exact this

theorem count_nl_cons (c : Char) (cs : List Char) :
    (c :: cs).count '\n' = cs.count '\n' + (if c = '\n' then 1 else 0) := by
  rw [List.count_cons]
  by_cases hc : c = '\n'
  · simp [hc]
  · have : (c == '\n') = false := by simp [hc]
    simp [hc, this]

/-- with at least as many rows requested as there are line breaks + 1, everything is taken -/
theorem takeRows_all (k : Nat) (s : List Char) (h : s.count '\n' < k) : takeRows k s = s := by
  induction s generalizing k with
  | nil => simp
  | cons c cs ih =>
    cases k with
    | zero => omega
    | succ k =>
      rw [count_nl_cons] at h
      unfold takeRows
      by_cases hc : c = '\n'
      · rw [if_pos hc] at h ⊢; rw [ih k (by omega)]
      · rw [if_neg hc] at h ⊢; rw [ih (k + 1) (by omega)]

theorem count_takeRows_le (k : Nat) (s : List Char) : (takeRows k s).count '\n' ≤ k := by
  induction s generalizing k with
  | nil => simp
  | cons c cs ih =>
    cases k with
    | zero => simp
    | succ k =>
      unfold takeRows
      by_cases hc : c = '\n'
      · rw [if_pos hc, count_nl_cons, if_pos hc]; have := ih k; omega
      · rw [if_neg hc, count_nl_cons, if_neg hc]; have := ih (k + 1); omega

theorem count_takeRows_eq (k : Nat) (s : List Char) (h : k ≤ s.count '\n') : (takeRows k s).count '\n' = k := by
  induction s generalizing k with
  | nil => simp at h; subst h; simp
  | cons c cs ih =>
    cases k with
    | zero => simp
    | succ k =>
      rw [count_nl_cons] at h
      rw [takeRows_succ_cons]
      by_cases hc : c = '\n'
      · rw [if_pos hc] at h ⊢; rw [count_nl_cons, if_pos hc, ih k (by omega)]
      · rw [if_neg hc] at h ⊢; rw [count_nl_cons, if_neg hc, ih (k + 1) (by omega)]

theorem count_dropRows (k : Nat) (s : List Char) : (dropRows k s).count '\n' = s.count '\n' - k := by
  induction s generalizing k with
  | nil => simp
  | cons c cs ih =>
    cases k with
    | zero => simp
    | succ k =>
      rw [dropRows_succ_cons, count_nl_cons]
      by_cases hc : c = '\n'
      · rw [if_pos hc, if_pos hc, ih k]; omega
      · rw [if_neg hc, if_neg hc, ih (k + 1)]; rfl

/-- a window of `k` rows that really contains `k` line breaks ends with a line break -/
theorem takeRows_full_ends (k : Nat) (s : List Char) (hk : 0 < k) (h : (takeRows k s).count '\n' = k) :
    (takeRows k s).getLast? = some '\n' := by
  induction s generalizing k with
  | nil => simp at h; omega
  | cons c cs ih =>
    cases k with
    | zero => omega
    | succ k =>
      unfold takeRows at h ⊢
      by_cases hc : c = '\n'
      · rw [if_pos hc] at h ⊢
        rw [count_nl_cons, if_pos hc] at h
        cases k with
        | zero => simp [hc]
        | succ k =>
          have := ih (k + 1) (by omega) (by omega)
          rw [List.getLast?_cons, this]; rfl
      · rw [if_neg hc] at h ⊢
        rw [count_nl_cons, if_neg hc] at h
        have := ih (k + 1) (by omega) (by omega)
        rw [List.getLast?_cons, this]; rfl

theorem takeRows_ends (k : Nat) (s : List Char) (h : k ≤ s.count '\n') :
    takeRows k s = [] ∨ (takeRows k s).getLast? = some '\n' := by
  cases k with
  | zero => left; simp
  | succ k => right; exact takeRows_full_ends (k + 1) s (by omega) (count_takeRows_eq (k + 1) s h)

/-! ### `line_starts` -/

theorem lineStartsFrom_length (off : Nat) (s : List Char) : (lineStartsFrom off s).length = s.count '\n' := by
  induction s generalizing off with
  | nil => rfl
  | cons c cs ih =>
    unfold lineStartsFrom
    rw [count_nl_cons]
    by_cases hc : c = '\n'
    · rw [if_pos hc, if_pos hc, List.length_cons, ih]
    · rw [if_neg hc, if_neg hc, ih]; rfl

theorem lineStartsFrom_get (off : Nat) (s : List Char) (k : Nat) (hk : k < s.count '\n') :
    (lineStartsFrom off s)[k]? = some (off + blen (takeRows (k + 1) s)) := by
  induction s generalizing off k with
  | nil => simp at hk
  | cons c cs ih =>
    rw [count_nl_cons] at hk
    unfold lineStartsFrom takeRows
    by_cases hc : c = '\n'
    · rw [if_pos hc] at hk ⊢
      rw [if_pos hc]
      have h1 : utf8LenChar c = 1 := by rw [hc]; decide
      cases k with
      | zero => simp [blen_cons, h1]
      | succ k =>
        rw [List.getElem?_cons_succ, ih (off + 1) k (by omega), blen_cons, h1]
        congr 1; omega
    · rw [if_neg hc] at hk ⊢
      rw [if_neg hc, ih _ k (by omega), blen_cons]
      congr 1; omega

theorem lineStarts_length (s : List Char) (hs : s ≠ []) : (lineStarts s).length = s.count '\n' + 1 := by
  unfold lineStarts
  have : s.isEmpty = false := by cases s <;> simp_all
  rw [this]
  simp [lineStartsFrom_length]

theorem lineStarts_nil_iff (s : List Char) : (lineStarts s).isEmpty = true ↔ s = [] := by
  unfold lineStarts
  cases s <;> simp

/-- the `k`-th line start is the byte length of the first `k` rows -/
theorem lineStarts_get (s : List Char) (hs : s ≠ []) (k : Nat) (hk : k ≤ s.count '\n') :
    (lineStarts s)[k]? = some (blen (takeRows k s)) := by
  unfold lineStarts
  have : s.isEmpty = false := by cases s <;> simp_all
  rw [this]
  simp only [Bool.false_eq_true, if_false]
  cases k with
  | zero => simp
  | succ k =>
    rw [List.getElem?_cons_succ, lineStartsFrom_get 0 s k (by omega)]
    simp

theorem idx_lineStarts (s : List Char) (hs : s ≠ []) (k : Nat) (hk : k ≤ s.count '\n') (site : String) :
    idx (lineStarts s) k site = .ok (blen (takeRows k s)) := by
  unfold idx
  rw [lineStarts_get s hs k hk]

/-! ### the vertical window -/

theorem windowRows_facts (row total : Nat) (h1 : 1 ≤ row) (h2 : row ≤ total) (hr : row ≤ usizeMax) :
    1 ≤ (windowRows row total).1 ∧ (windowRows row total).1 ≤ row ∧ row ≤ (windowRows row total).2 ∧
      (windowRows row total).2 ≤ total ∧
      (windowRows row total).2 - (windowRows row total).1 ≤ 2 * ctxLines := by
  unfold windowRows
  simp only []
  have h3 := satAdd_ge_left row ctxLines hr
  have h4 := satAdd_le row ctxLines
  omega

/-- with at least one line of context, the window starts strictly before every row but the first -/
theorem windowRows_before (row total : Nat) : row = 1 ∨ row = 0 ∨ (windowRows row total).1 < row := by
  unfold windowRows
  simp only []
  have : ctxLines = 2 := rfl
  omega

/-- the byte range of rows `ws..=we` and the slice taken from it -/
theorem window_slice (text : List Char) (ht : text ≠ []) (ws we : Nat) (h1 : 1 ≤ ws) (h2 : ws ≤ we)
    (h3 : we ≤ text.count '\n' + 1) (site site2 : String) :
    windowBytes text (lineStarts text) ws we site =
        .ok (blen (takeRows (ws - 1) text), blen (takeRows we text)) ∧
    slice text (blen (takeRows (ws - 1) text)) (blen (takeRows we text)) site2 =
        .ok (takeRows (we - (ws - 1)) (dropRows (ws - 1) text)) := by
  constructor
  · unfold windowBytes subOne
    rw [if_neg (by omega)]
    simp only [res_bind_ok]
    rw [idx_lineStarts text ht (ws - 1) (by omega)]
    simp only [res_bind_ok]
    rw [lineStarts_length text ht]
    by_cases hlt : we < text.count '\n' + 1
    · rw [if_pos hlt, idx_lineStarts text ht we (by omega)]
      rfl
    · rw [if_neg hlt, takeRows_all we text (by omega)]
      rfl
  · have e1 : takeRows we text = takeRows (ws - 1) text ++ takeRows (we - (ws - 1)) (dropRows (ws - 1) text) := by
      have : we = (ws - 1) + (we - (ws - 1)) := by omega
      conv => lhs; rw [this]
      rw [takeRows_add]
    have e2 : text = takeRows (ws - 1) text ++ takeRows (we - (ws - 1)) (dropRows (ws - 1) text) ++ dropRows we text := by
      rw [← e1, takeRows_append_dropRows]
    conv => lhs; arg 1; rw [e2]
    apply slice_append3'
    · rfl
    · rw [e1, blen_append]

/-- the error row lies inside the window, at row index `rel - ws` -/
theorem window_contains_row (text : List Char) (ws we rel : Nat) (h1 : 1 ≤ ws) (h2 : ws ≤ rel) (h3 : rel ≤ we) :
    takeRows (we - (ws - 1)) (dropRows (ws - 1) text) =
      takeRows (rel - ws) (dropRows (ws - 1) text) ++ takeRows 1 (dropRows (rel - 1) text) ++
        takeRows (we - rel) (dropRows rel text) := by
  have e1 : we - (ws - 1) = (rel - ws) + (1 + (we - rel)) := by omega
  rw [e1, takeRows_add, takeRows_add, ← dropRows_add, ← dropRows_add, List.append_assoc]
  have e2 : ws - 1 + (rel - ws) = rel - 1 := by omega
  have e3 : rel - 1 + 1 = rel := by omega
  rw [e2, e3]

end SaphyrVerif.Lemmas.C17
