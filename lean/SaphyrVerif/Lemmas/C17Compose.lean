import SaphyrVerif.Lemmas.C17Yaml
/-!
Helper lemmas for C17, part 14: composing what `with_snippet` stores (`crop_source_window`) with the
rendering of the stored region — the rows of a stored window are lines of the text under the YAML
line-break rule, at the row offset the region's first line number stands for.
-/
namespace SaphyrVerif.Lemmas.C17
open SaphyrVerif SaphyrVerif.Snippet
open SaphyrVerif.Spec.Snippet (isControl sanitizeChar clean takeRows dropRows row visibleLine yamlLines yamlLine)

/-! ### pieces of a normalised text cut at row boundaries are normalised -/

theorem normBreaks_suffix (a b : List Char) (h : normBreaks (a ++ b) = a ++ b) : normBreaks b = b := by
  induction a with
  | nil => exact h
  | cons c cs ih =>
    rw [List.cons_append, normBreaks_cons] at h
    exact ih (List.cons.inj h).2

theorem normBreaks_prefix (a b : List Char) (h : normBreaks (a ++ b) = a ++ b)
    (ha : a = [] ∨ a.getLast? = some '\n' ∨ b = []) : normBreaks a = a := by
  rcases ha with ha | ha | ha
  · subst ha; rfl
  · have := normBreaks_append a b (.inr (.inl ha))
    rw [this] at h
    exact (List.append_inj h (normBreaks_length a)).1
  · subst ha; simpa using h

theorem normBreaks_takeRows (k : Nat) (s : List Char) (h : normBreaks s = s) :
    normBreaks (takeRows k s) = takeRows k s := by
  have hs := takeRows_append_dropRows k s
  by_cases hk : k ≤ s.count '\n'
  · apply normBreaks_prefix _ (dropRows k s) (by rw [hs]; exact h)
    rcases takeRows_ends k s hk with h0 | h0
    · exact .inl h0
    · exact .inr (.inl h0)
  · rw [takeRows_all k s (by omega)]; exact h

theorem normBreaks_dropRows (k : Nat) (s : List Char) (h : normBreaks s = s) :
    normBreaks (dropRows k s) = dropRows k s :=
  normBreaks_suffix (takeRows k s) _ (by rw [takeRows_append_dropRows]; exact h)

theorem takeRows_one_append (body Z : List Char) (hn : '\n' ∉ body) :
    takeRows 1 (body ++ '\n' :: Z) = body ++ ['\n'] := by
  induction body with
  | nil => simp [takeRows]
  | cons c cs ih =>
    have hc : c ≠ '\n' := fun h0 => hn (by rw [h0]; simp)
    rw [List.cons_append, takeRows_succ_cons, if_neg hc, ih (fun hm => hn (List.mem_cons_of_mem _ hm))]
    rfl

/-- (rows of a stored window are YAML lines) row `rel − ws + 1` of the window `ws..=we` cut out of a
normalised text `T`, read under the YAML rule, is the visible line `rel` of `T` -/
theorem window_yaml_line (T : List Char) (hT : normBreaks T = T) (ws we rel : Nat) (h1 : 1 ≤ ws) (h2 : ws ≤ rel)
    (h3 : rel ≤ we) (h4 : rel ≤ T.count '\n' + 1) :
    yamlLine (takeRows (we - (ws - 1)) (dropRows (ws - 1) T)) (rel - ws + 1) = some (visibleLine T rel) := by
  have hD := normBreaks_dropRows (ws - 1) T hT
  have hw := normBreaks_takeRows (we - (ws - 1)) _ hD
  rw [window_contains_row T ws we rel h1 h2 h3, List.append_assoc] at hw ⊢
  generalize hpre : takeRows (rel - ws) (dropRows (ws - 1) T) = pre at hw ⊢
  generalize hX : takeRows 1 (dropRows (rel - 1) T) ++ takeRows (we - rel) (dropRows rel T) = X at hw ⊢
  have hcd := count_dropRows (ws - 1) T
  have hpre_norm : normBreaks pre = pre := by rw [← hpre]; exact normBreaks_takeRows _ _ hD
  have hpre_cnt : pre.count '\n' = rel - ws := by rw [← hpre]; exact count_takeRows_eq _ _ (by omega)
  have hpre_ends : pre = [] ∨ pre.getLast? = some '\n' := by
    rw [← hpre]; exact takeRows_ends (rel - ws) (dropRows (ws - 1) T) (by omega)
  have hE : EndsLine pre X := by
    rcases hpre_ends with h | h
    · exact .inl h
    · exact .inr (.inl h)
  have hlenp : (yamlLines pre).length = rel - ws + 1 := by rw [yamlLines_length, hpre_norm, hpre_cnt]
  have hcut := yamlLine_append pre X hE 1 (Nat.le_refl 1)
  rw [hlenp] at hcut
  have e : rel - ws + 1 - 1 + 1 = rel - ws + 1 := by omega
  rw [e] at hcut
  rw [hcut]
  -- the first line of the rest of the window
  have hXn : normBreaks X = X := normBreaks_suffix pre X hw
  rw [yamlLine_eq_visible X 1 (Nat.le_refl 1) (by omega), hXn]
  congr 1
  unfold visibleLine Spec.Snippet.row
  have e0 : dropRows (1 - 1) X = X := by simp
  rw [e0]
  congr 2
  rw [← hX]
  rcases takeRows_one (dropRows (rel - 1) T) with ⟨hn, ht⟩ | ⟨body, post, hd, hn, ht, hdr⟩
  · -- the last row of the text, without a line break: nothing follows it
    have e1 : dropRows rel T = [] := by
      have : rel = (rel - 1) + 1 := by omega
      rw [this, dropRows_add]; exact dropRows_of_no_nl 1 _ hn (Nat.le_refl _)
    rw [e1, ht]
    simp only [takeRows_nil, List.append_nil]
    exact ht
  · rw [ht, List.append_assoc]
    exact takeRows_one_append body _ hn

/-- a window around an existing row of a non-empty text is not empty -/
theorem window_ne_nil (T : List Char) (hT : T ≠ []) (ws we rel : Nat) (h1 : 1 ≤ ws) (h2 : ws ≤ rel) (h3 : rel ≤ we)
    (h4 : rel ≤ T.count '\n' + 1) (hb : rel = 1 ∨ ws < rel) :
    takeRows (we - (ws - 1)) (dropRows (ws - 1) T) ≠ [] := by
  rcases hb with hb | hb
  · have hws : ws = 1 := by omega
    subst hws
    have e : we - (1 - 1) = (we - 1) + 1 := by omega
    rw [e]
    cases T with
    | nil => exact absurd rfl hT
    | cons c cs =>
      simp only [Nat.sub_self, dropRows_zero]
      rw [takeRows_succ_cons]
      split <;> simp
  · rw [window_contains_row T ws we rel h1 h2 h3]
    intro h0
    have hcd := count_dropRows (ws - 1) T
    have hcnt : (takeRows (rel - ws) (dropRows (ws - 1) T)).count '\n' = rel - ws :=
      count_takeRows_eq _ _ (by omega)
    have h5 := (List.append_eq_nil_iff.mp (List.append_eq_nil_iff.mp h0).1).1
    rw [h5] at hcnt
    simp at hcnt
    omega

/-! ### `crop_source_window` on a text below the storage-crop thresholds -/

theorem splitInclusive_blen_le (s : List Char) : ∀ p ∈ splitInclusive s, blen p ≤ blen s := by
  induction s with
  | nil => intro p hp; simp [splitInclusive] at hp
  | cons c cs ih =>
    intro p hp
    unfold splitInclusive at hp
    by_cases hc : c = '\n'
    · rw [if_pos hc] at hp
      rcases List.mem_cons.mp hp with h | h
      · rw [h, blen_cons, blen_cons]; simp
      · have := ih p h
        rw [blen_cons]; omega
    · rw [if_neg hc] at hp
      cases hq : splitInclusive cs with
      | nil =>
        rw [hq] at hp
        simp only [List.mem_singleton] at hp
        rw [hp, blen_cons, blen_cons]; simp
      | cons l ls =>
        rw [hq] at hp
        rcases List.mem_cons.mp hp with h | h
        · have := ih l (by rw [hq]; simp)
          rw [h, blen_cons, blen_cons]; omega
        · have := ih p (by rw [hq]; exact List.mem_cons_of_mem _ h)
          rw [blen_cons]; omega

theorem blen_stripCR_le (l : List Char) : blen (stripCR l) ≤ blen l := by
  unfold stripCR
  split
  · rw [List.dropLast_eq_take]; exact blen_take_le _ _
  · exact Nat.le_refl _

theorem linesOf_blen_le (w : List Char) : ∀ l ∈ linesOf w, blen (stripCR l) ≤ blen w := by
  intro l hl
  unfold linesOf at hl
  obtain ⟨p, hp, rfl⟩ := List.mem_map.mp hl
  have h1 := splitInclusive_blen_le w p hp
  split
  · have h2 : blen p.dropLast ≤ blen p := by rw [List.dropLast_eq_take]; exact blen_take_le _ _
    have h3 := blen_stripCR_le p.dropLast
    have h4 := blen_stripCR_le (stripCR p.dropLast)
    omega
  · have h3 := blen_stripCR_le p
    omega

/-- `crop_source_window` on a text of at most 4 KiB (no line reaches the storage-crop threshold) and a
location on an existing row: the window is stored verbatim — the rows `ws..=we` of the normalised,
BOM-stripped text — and it is not empty -/
theorem cropSourceWindow_small (text0 : List Char) (loc : Snippet.Loc) (m : Mapping) (r rel : Nat)
    (hlen : text0.length + 1 ≤ usizeMax) (hsmall : blen text0 ≤ storageCropLine)
    (hu : loc.isUnknown = false) (hrel : relativeRow m loc.line = some rel)
    (hne : stripBom text0 ≠ []) (hr1 : 1 ≤ rel) (hr2 : rel ≤ (normBreaks (stripBom text0)).count '\n' + 1) :
    ∃ ws we, 1 ≤ ws ∧ ws ≤ rel ∧ rel ≤ we ∧ we - ws ≤ 2 * ctxLines ∧
      takeRows (we - (ws - 1)) (dropRows (ws - 1) (normBreaks (stripBom text0))) ≠ [] ∧
      cropSourceWindow text0 loc m r =
        .ok (takeRows (we - (ws - 1)) (dropRows (ws - 1) (normBreaks (stripBom text0))), absoluteRow m ws) := by
  have hne0 : text0 ≠ [] := by intro h0; rw [h0] at hne; exact hne rfl
  have hneT : normBreaks (stripBom text0) ≠ [] := fun h0 => hne ((normBreaks_eq_nil _).mp h0)
  unfold cropSourceWindow
  have h0 : ¬ (text0.isEmpty = true ∨ loc.isUnknown = true) := by
    intro h
    rcases h with h | h
    · exact hne0 (List.isEmpty_iff.mp h)
    · rw [hu] at h; cases h
  rw [if_neg h0]
  simp only []
  rw [hrel]
  simp only []
  have h1 : ¬ (lineStarts (normBreaks (stripBom text0))).isEmpty = true :=
    fun h => hneT ((lineStarts_nil_iff _).mp h)
  rw [if_neg h1, lineStarts_length _ hneT, if_neg (by omega)]
  have hrel_le : rel ≤ usizeMax := by
    have h3 : (normBreaks (stripBom text0)).count '\n' ≤ (normBreaks (stripBom text0)).length := List.count_le_length
    have := normBreaks_stripBom_length_le text0
    omega
  obtain ⟨f1, f2, f3, f4, f5⟩ := windowRows_facts rel ((normBreaks (stripBom text0)).count '\n' + 1) hr1 hr2 hrel_le
  have f6 : rel = 1 ∨ (windowRows rel ((normBreaks (stripBom text0)).count '\n' + 1)).1 < rel := by
    rcases windowRows_before rel ((normBreaks (stripBom text0)).count '\n' + 1) with h | h | h
    · exact .inl h
    · omega
    · exact .inr h
  generalize hws : (windowRows rel ((normBreaks (stripBom text0)).count '\n' + 1)).1 = ws at f1 f2 f3 f4 f5 f6
  generalize hwe : (windowRows rel ((normBreaks (stripBom text0)).count '\n' + 1)).2 = we at f1 f2 f3 f4 f5
  have hpair : windowRows rel ((normBreaks (stripBom text0)).count '\n' + 1) = (ws, we) := by
    rw [← hws, ← hwe]
  obtain ⟨hwb, hsl⟩ := window_slice (normBreaks (stripBom text0)) hneT ws we f1 (by omega) f4 "crop_source_window"
    "crop_source_window:text[window_start..window_end]"
  rw [hwb]
  simp only [res_bind_ok]
  rw [hsl]
  simp only [res_bind_ok]
  have hwne := window_ne_nil (normBreaks (stripBom text0)) hneT ws we rel f1 f2 f3 hr2 f6
  refine ⟨ws, we, f1, f2, f3, f5, hwne, ?_⟩
  generalize hw : takeRows (we - (ws - 1)) (dropRows (ws - 1) (normBreaks (stripBom text0))) = w
  have hwblen : blen w ≤ blen text0 := by
    rw [← hw]
    have a1 := takeRows_blen_le (we - (ws - 1)) (dropRows (ws - 1) (normBreaks (stripBom text0)))
    have a2 := dropRows_blen_le (ws - 1) (normBreaks (stripBom text0))
    have a3 := normBreaks_stripBom_blen_le text0
    omega
  by_cases hr0 : r = 0
  · rw [if_pos hr0]; rfl
  · rw [if_neg hr0]
    have hle : storageCropLine ≤ storageCropTotal := by decide
    have hneeds : (decide (blen w > storageCropTotal) ||
        (linesOf w).any (fun l => decide (blen (stripCR l) > storageCropLine))) = false := by
      rw [Bool.or_eq_false_iff]
      constructor
      · simp only [decide_eq_false_iff_not]; omega
      · rw [List.any_eq_false]
        intro l hl
        have := linesOf_blen_le w l hl
        simp only [decide_eq_true_eq]; omega
    rw [hneeds, if_pos (by simp)]
    rfl

end SaphyrVerif.Lemmas.C17
