import SaphyrVerif.Lemmas.C19Token
import SaphyrVerif.Lemmas.C19Pre
/-!
C19: sexagesimal tokens `D:M[:S[.frac]]` (digit groups with single underscores between digits).  An
independent description of what such a token denotes — the fields evaluated by Horner's rule in binary64
(as `read_uint_unders_to_f64` / `read_frac_part_unders` do), combined according to the sexagesimal mode
and the tag — and the proof that the token scanner consumes exactly the token and yields that value.
-/
set_option linter.unusedSimpArgs false
namespace SaphyrVerif.Lemmas.C19X
open SaphyrVerif SaphyrVerif.F64 SaphyrVerif.Robotics SaphyrVerif.Spec.Robotics SaphyrVerif.Lemmas.C19
open SaphyrVerif.Lemmas.C19L

/-- Horner evaluation of a digit string in binary64: `v ← v * 10.0 + digit` -/
def hornerF (ds : List Nat) (v : Fl) : Fl := ds.foldl (fun v c => add F (mul F v TEN) (ofNat F (c - 48))) v

/-- one digit of `read_frac_part_unders`: only the first `MAX_FRAC_DIGITS` digits count -/
def fracStep (acc : Fl × Fl × Nat) (c : Nat) : Fl × Fl × Nat :=
  (if acc.2.2 < MAX_FRAC_DIGITS then add F (mul F acc.1 TEN) (ofNat F (c - 48)) else acc.1,
   if acc.2.2 < MAX_FRAC_DIGITS then mul F acc.2.1 TEN else acc.2.1,
   acc.2.2 + 1)

/-- the fraction `0.ds`: numerator and power of ten of the first 18 digits, one division -/
def fracF (ds : List Nat) : Fl :=
  let r := ds.foldl fracStep (zero F false, ONE, 0)
  div F r.1 r.2.1

theorem fracFold_count (ds : List Nat) (acc : Fl × Fl × Nat) : (ds.foldl fracStep acc).2.2 = acc.2.2 + ds.length := by
  induction ds generalizing acc with
  | nil => rfl
  | cons c ds ih => simp only [List.foldl_cons, ih, fracStep, List.length_cons]; omega

/-! ## the field readers on digit groups -/

theorem readUint_run (ds rest pre : List Nat) (v : Fl) (d : Nat) (p : Bool) (hd : Digits ds)
    (hcap : d + ds.length ≤ MAX_NUM_DIGITS) :
    readUint pre (ds ++ rest) v d p =
      readUint (ds.reverse ++ pre) rest (hornerF ds v) (d + ds.length) (p || !ds.isEmpty) := by
  induction ds generalizing pre v d p with
  | nil => simp [hornerF]
  | cons c ds ih =>
    have hc : isDigit c = true := hd c List.mem_cons_self
    have hlen : d + 1 + ds.length ≤ MAX_NUM_DIGITS := by simp only [List.length_cons] at hcap; omega
    have hnot : ¬ MAX_NUM_DIGITS < d + 1 := by omega
    simp only [List.cons_append, readUint, hc, ↓reduceIte, hnot]
    rw [ih (c :: pre) _ (d + 1) true hd.tail hlen]
    simp only [List.reverse_cons, List.append_assoc, List.singleton_append, List.length_cons, Bool.true_or,
      List.isEmpty_cons, Bool.not_false, Bool.or_true, hornerF, List.foldl_cons]
    congr 1
    omega

theorem readUint_stop (pre rest : List Nat) (v : Fl) (d : Nat) (p : Bool) (hs : Stops rest) (hd : d ≠ 0) :
    readUint pre rest v d p = .ok (pre, rest, v, d) := by
  have hd' : (d == 0) = false := by simpa using hd
  cases rest with
  | nil => simp [readUint, hd']
  | cons c r =>
    obtain ⟨h1, h2⟩ := hs c r rfl
    have h2' : (c == 95) = false := by simpa using h2
    simp [readUint, h1, h2', hd']

theorem readUint_groups (gs : Groups) (rest pre : List Nat) (v : Fl) (d : Nat) (p : Bool)
    (hg : gs.WF) (hne : gs ≠ []) (hs : Stops rest) (hcap : d + gs.digits.length ≤ MAX_NUM_DIGITS) :
    ∃ pre', readUint pre (gs.render ++ rest) v d p =
      .ok (pre', rest, hornerF gs.digits v, d + gs.digits.length) := by
  induction gs generalizing pre v d p with
  | nil => exact absurd rfl hne
  | cons g gs ih =>
    obtain ⟨hgne, hdig⟩ := hg g List.mem_cons_self
    have hge : g.isEmpty = false := by cases g <;> simp_all
    have hgl : g.length ≠ 0 := by cases g <;> simp_all
    rw [groups_digits_cons] at hcap ⊢
    simp only [List.length_append] at hcap
    cases gs with
    | nil =>
      refine ⟨g.reverse ++ pre, ?_⟩
      simp only [Groups.render, Groups.digits, List.flatten_nil, List.append_nil]
      rw [readUint_run g rest pre v d p hdig (by simp [Groups.digits] at hcap; omega)]
      exact readUint_stop _ _ _ _ _ hs (by omega)
    | cons g' gs' =>
      simp only [Groups.render, List.append_assoc, List.cons_append]
      rw [readUint_run g _ pre v d p hdig (by omega)]
      obtain ⟨d', r', hhead, hd'⟩ := groups_render_head (groups_wf_tail hg) rest
      have h95 : isDigit 95 = false := by decide
      have hnot : ¬ MAX_NUM_DIGITS < d + g.length := by omega
      unfold readUint
      simp only [h95, Bool.false_eq_true, ↓reduceIte, beq_self_eq_true, hge, Bool.not_false, Bool.or_true,
        Bool.not_true, hnot]
      have hnx : nextIsDigit (Groups.render (g' :: gs') ++ rest) = true := by rw [hhead]; exact hd'
      simp only [hnx, Bool.not_true, Bool.or_self, Bool.false_eq_true, ↓reduceIte]
      obtain ⟨p2, h2⟩ := ih (95 :: (g.reverse ++ pre)) (hornerF g v) (d + g.length) false (groups_wf_tail hg)
        (by simp) (by omega)
      refine ⟨p2, ?_⟩
      rw [h2]
      simp only [hornerF, List.foldl_append, List.length_append, Nat.add_assoc]

theorem readFrac_run (ds rest pre : List Nat) (num sc : Fl) (d : Nat) (p : Bool) (hd : Digits ds)
    (hcap : d + ds.length ≤ MAX_NUM_DIGITS) :
    readFrac pre (ds ++ rest) num sc d p =
      readFrac (ds.reverse ++ pre) rest (ds.foldl fracStep (num, sc, d)).1 (ds.foldl fracStep (num, sc, d)).2.1
        (d + ds.length) (p || !ds.isEmpty) := by
  induction ds generalizing pre num sc d p with
  | nil => simp
  | cons c ds ih =>
    have hc : isDigit c = true := hd c List.mem_cons_self
    have hlen : d + 1 + ds.length ≤ MAX_NUM_DIGITS := by simp only [List.length_cons] at hcap; omega
    have hnot : ¬ MAX_NUM_DIGITS < d + 1 := by omega
    simp only [List.cons_append, readFrac, hc, ↓reduceIte, hnot]
    rw [ih (c :: pre) _ _ (d + 1) true hd.tail hlen]
    simp only [List.reverse_cons, List.append_assoc, List.singleton_append, List.length_cons, Bool.true_or,
      List.isEmpty_cons, Bool.not_false, Bool.or_true, List.foldl_cons, fracStep]
    congr 1
    omega

theorem readFrac_stop (pre rest : List Nat) (num sc : Fl) (d : Nat) (p : Bool) (hs : Stops rest) (hd : d ≠ 0) :
    readFrac pre rest num sc d p = .ok (pre, rest, div F num sc, d) := by
  have hd' : (d == 0) = false := by simpa using hd
  cases rest with
  | nil => simp [readFrac, hd']
  | cons c r =>
    obtain ⟨h1, h2⟩ := hs c r rfl
    have h2' : (c == 95) = false := by simpa using h2
    simp [readFrac, h1, h2', hd']

theorem readFrac_groups (gs : Groups) (rest pre : List Nat) (num sc : Fl) (d : Nat) (p : Bool)
    (hg : gs.WF) (hne : gs ≠ []) (hs : Stops rest) (hcap : d + gs.digits.length ≤ MAX_NUM_DIGITS) :
    ∃ pre', readFrac pre (gs.render ++ rest) num sc d p =
      .ok (pre', rest, div F (gs.digits.foldl fracStep (num, sc, d)).1 (gs.digits.foldl fracStep (num, sc, d)).2.1,
        d + gs.digits.length) := by
  induction gs generalizing pre num sc d p with
  | nil => exact absurd rfl hne
  | cons g gs ih =>
    obtain ⟨hgne, hdig⟩ := hg g List.mem_cons_self
    have hge : g.isEmpty = false := by cases g <;> simp_all
    have hgl : g.length ≠ 0 := by cases g <;> simp_all
    rw [groups_digits_cons] at hcap ⊢
    simp only [List.length_append] at hcap
    cases gs with
    | nil =>
      refine ⟨g.reverse ++ pre, ?_⟩
      simp only [Groups.render, Groups.digits, List.flatten_nil, List.append_nil]
      rw [readFrac_run g rest pre num sc d p hdig (by simp [Groups.digits] at hcap; omega)]
      exact readFrac_stop _ _ _ _ _ _ hs (by omega)
    | cons g' gs' =>
      simp only [Groups.render, List.append_assoc, List.cons_append]
      rw [readFrac_run g _ pre num sc d p hdig (by omega)]
      obtain ⟨d', r', hhead, hd'⟩ := groups_render_head (groups_wf_tail hg) rest
      have h95 : isDigit 95 = false := by decide
      have hnot : ¬ MAX_NUM_DIGITS < d + g.length := by omega
      unfold readFrac
      simp only [h95, Bool.false_eq_true, ↓reduceIte, beq_self_eq_true, hge, Bool.not_false, Bool.or_true,
        Bool.not_true, hnot]
      have hnx : nextIsDigit (Groups.render (g' :: gs') ++ rest) = true := by rw [hhead]; exact hd'
      simp only [hnx, Bool.not_true, Bool.or_self, Bool.false_eq_true, ↓reduceIte]
      obtain ⟨p2, h2⟩ := ih (95 :: (g.reverse ++ pre)) (g.foldl fracStep (num, sc, d)).1
        (g.foldl fracStep (num, sc, d)).2.1 (d + g.length) false (groups_wf_tail hg) (by simp) (by omega)
      refine ⟨p2, ?_⟩
      rw [h2]
      have hcnt := fracFold_count g (num, sc, d)
      simp only [] at hcnt
      have hacc : ((g.foldl fracStep (num, sc, d)).1, (g.foldl fracStep (num, sc, d)).2.1, d + g.length) =
          g.foldl fracStep (num, sc, d) := by
        rw [← hcnt]
      simp only [List.foldl_append, List.length_append, Nat.add_assoc, hacc]

/-! ## sexagesimal tokens -/

/-- `D:M`, `D:M:S`, `D:M:S.frac` — every field a non-empty list of digit groups -/
structure SexaTok where
  deg : Groups
  min : Groups
  sec : Option (Groups × Option Groups)

namespace SexaTok

def secRender (t : SexaTok) : List Nat :=
  match t.sec with
  | none => []
  | some (s, none) => 58 :: s.render
  | some (s, some f) => 58 :: (s.render ++ 46 :: f.render)

def render (t : SexaTok) : List Nat := t.deg.render ++ 58 :: (t.min.render ++ t.secRender)

def secDigits (t : SexaTok) : Nat :=
  match t.sec with
  | none => 0
  | some (s, none) => s.digits.length
  | some (s, some f) => s.digits.length + f.digits.length

def digitCount (t : SexaTok) : Nat := t.deg.digits.length + t.min.digits.length + t.secDigits

/-- a field read as `u32`: Horner in binary64, saturating conversion -/
def fieldU32 (gs : Groups) : Nat := toU32 (hornerF gs.digits (zero F false))
/-- the field does not exceed `u32::MAX` (as a binary64 value) and is at most 59 -/
def FieldOk (gs : Groups) : Prop := gt (hornerF gs.digits (zero F false)) U32MAX = false ∧ fieldU32 gs ≤ 59

structure WF (t : SexaTok) : Prop where
  deg : t.deg.WF ∧ t.deg ≠ []
  min : t.min.WF ∧ t.min ≠ [] ∧ FieldOk t.min
  sec : ∀ s fr, t.sec = some (s, fr) → s.WF ∧ s ≠ [] ∧ FieldOk s ∧ ∀ f, fr = some f → f.WF ∧ f ≠ []
  cap : t.digitCount ≤ MAX_NUM_DIGITS

/-- the seconds field (0 if absent) -/
def secs (t : SexaTok) : Fl :=
  match t.sec with
  | none => zero F false
  | some (s, none) => ofNat F (fieldU32 s)
  | some (s, some f) => add F (ofNat F (fieldU32 s)) (fracF f.digits)

/-- What the token denotes: with `D` evaluated by Horner's rule, `M`, `S` as above,
`degrees = D + M/60 + S/3600` and `seconds = D·3600 + M·60 + S` (binary64 operations, in this order);
* outside unit functions (`timeMode`): radians (`degrees · DEG2RAD`, converted ONCE) under `!degrees` /
  `!radians`, otherwise the seconds;
* inside `deg(..)` / `rad(..)`: the degrees (the wrapping function converts), the seconds under `!timestamp`. -/
def value (tag : Nat) (timeMode : Bool) (t : SexaTok) : Fl :=
  let D := hornerF t.deg.digits (zero F false)
  let M := ofNat F (fieldU32 t.min)
  let S := t.secs
  let degrees := add F (add F D (div F M SIXTY)) (div F S C3600)
  let seconds := add F (add F (mul F D C3600) (mul F M SIXTY)) S
  if timeMode then
    if tag == TAG_DEGREES || tag == TAG_RADIANS then mul F degrees DEG2RAD else seconds
  else if tag == TAG_TIMESTAMP then seconds else degrees

/-- bytes behind the token that do not continue it -/
def Ends (t : SexaTok) (k : List Nat) : Prop :=
  ∀ c r, k = c :: r → isDigit c = false ∧ c ≠ 95 ∧
    (t.sec = none → c ≠ 58) ∧ (∀ s, t.sec = some (s, none) → c ≠ 46)

end SexaTok

theorem stops_colon (r : List Nat) : Stops (58 :: r) := by
  intro c r' h; cases h; exact ⟨by decide, by decide⟩
theorem stops_dot (r : List Nat) : Stops (46 :: r) := by
  intro c r' h; cases h; exact ⟨by decide, by decide⟩

theorem ends_stops {t : SexaTok} {k : List Nat} (h : t.Ends k) : Stops k :=
  fun c r hk => ⟨(h c r hk).1, (h c r hk).2.1⟩

theorem readU32_groups (gs : Groups) (rest pre : List Nat) (hg : gs.WF) (hne : gs ≠ []) (hs : Stops rest)
    (hcap : gs.digits.length ≤ MAX_NUM_DIGITS) (hok : gt (hornerF gs.digits (zero F false)) U32MAX = false) :
    ∃ pre', readU32 pre (gs.render ++ rest) = .ok (pre', rest, SexaTok.fieldU32 gs, gs.digits.length) := by
  obtain ⟨p1, h1⟩ := readUint_groups gs rest pre (zero F false) 0 false hg hne hs (by omega)
  refine ⟨p1, ?_⟩
  unfold readU32
  rw [h1]
  simp only [hok, Bool.false_eq_true, ↓reduceIte, Nat.zero_add, SexaTok.fieldU32]

theorem sexa_head (t : SexaTok) (hwf : t.WF) (k : List Nat) : ∃ c r, t.render ++ k = c :: r ∧ isDigit c = true := by
  obtain ⟨hdeg, hdne⟩ := hwf.deg
  have hR : t.render ++ k = t.deg.render ++ (58 :: (t.min.render ++ (t.secRender ++ k))) := by
    simp [SexaTok.render]
  rw [hR]
  cases hd : t.deg with
  | nil => exact absurd hd hdne
  | cons g gs => exact groups_render_head (hd ▸ hdeg) _

/-- (T) a sexagesimal token followed by bytes that do not continue it is scanned as exactly that token and
denotes `SexaTok.value` — a unitized value (`used_unit = true`, not a bare term). -/
theorem sexa_token (tag : Nat) (tm : Bool) (t : SexaTok) (hwf : t.WF) (k : List Nat) (hk : t.Ends k)
    (pre : List Nat) (d : Nat) :
    ∃ pre', parseNumberOrSpecial tag ⟨pre, t.render ++ k, d, tm⟩ =
      .ok ((t.value tag tm, true, false), ⟨pre', k, d, tm⟩) := by
  obtain ⟨hdeg, hdne⟩ := hwf.deg
  obtain ⟨hmin, hmne, hmok, hm59⟩ := hwf.min
  have hcap := hwf.cap
  unfold SexaTok.digitCount at hcap
  have hks := ends_stops hk
  -- the head is a digit
  have hR : t.render ++ k = t.deg.render ++ (58 :: (t.min.render ++ (t.secRender ++ k))) := by
    simp [SexaTok.render]
  obtain ⟨c0, r0, hhead, hc0⟩ : ∃ c r, t.render ++ k = c :: r ∧ isDigit c = true := by
    rw [hR]
    cases hd : t.deg with
    | nil => exact absurd hd hdne
    | cons g gs => exact groups_render_head (hd ▸ hdeg) _
  unfold parseNumberOrSpecial
  simp only []
  rw [startsCi_head _ [46, 105, 110, 102] rfl rfl (by intro d hd h; cases h; simp [isDigit] at hd)
    ⟨c0, r0, hhead, Or.inl hc0⟩]
  rw [startsCi_head _ [46, 110, 97, 110] rfl rfl (by intro d hd h; cases h; simp [isDigit] at hd)
    ⟨c0, r0, hhead, Or.inl hc0⟩]
  simp only [Bool.false_eq_true, ↓reduceIte]
  -- the sexagesimal path
  have hsx : ∃ pre', trySexagesimal tag ⟨pre, t.render ++ k, d, tm⟩ =
      .ok (some ((t.value tag tm, true, false), ⟨pre', k, d, tm⟩)) := by
    unfold trySexagesimal
    simp only []
    rw [hR, sexaLook_groups t.deg _ hdeg hdne (stops_colon _) false]
    simp only [Bool.not_true, Bool.or_self, Bool.false_eq_true, ↓reduceIte, List.head?_cons, bne_self_eq_false]
    obtain ⟨p1, h1⟩ := readUint_groups t.deg (58 :: (t.min.render ++ (t.secRender ++ k))) pre (zero F false) 0 false
      hdeg hdne (stops_colon _) (by omega)
    rw [h1]
    simp only [lift_ok_eq, Res.ok_bind, Nat.zero_add]
    -- minutes
    have hsec_stops : Stops (t.secRender ++ k) := by
      unfold SexaTok.secRender
      cases t.sec with
      | none => exact hks
      | some sf =>
        obtain ⟨s, fr⟩ := sf
        cases fr <;> exact stops_colon _
    obtain ⟨p2, h2⟩ := readU32_groups t.min (t.secRender ++ k) (58 :: p1) hmin hmne hsec_stops (by omega) hmok
    rw [h2]
    have hm59' : ¬ 59 < SexaTok.fieldU32 t.min := by omega
    simp only [lift_ok_eq, Res.ok_bind, hm59', ↓reduceIte]
    -- seconds
    cases hsec : t.sec with
    | none =>
      have e : t.secRender ++ k = k := by simp [SexaTok.secRender, hsec]
      have hk58 : ∀ r', k = 58 :: r' → False := fun r' h => (hk 58 r' h).2.2.1 hsec rfl
      have hsd : t.secDigits = 0 := by simp [SexaTok.secDigits, hsec]
      rw [hsd] at hcap
      have hnot : ¬ MAX_NUM_DIGITS < t.deg.digits.length + t.min.digits.length := by omega
      refine ⟨p2, ?_⟩
      rw [e]
      split
      · exact absurd rfl (hk58 _)
      · simp only [Res.ok_bind, hnot, ↓reduceIte, SexaTok.value, SexaTok.secs, hsec]
        cases tm <;> simp <;> split <;> rfl
    | some sf =>
      obtain ⟨s, fr⟩ := sf
      obtain ⟨hs, hsne, ⟨hsok, hs59⟩, hfr⟩ := hwf.sec s fr hsec
      have hs59' : ¬ 59 < SexaTok.fieldU32 s := by omega
      cases fr with
      | none =>
        have e : t.secRender ++ k = 58 :: (s.render ++ k) := by simp [SexaTok.secRender, hsec]
        have hsd : t.secDigits = s.digits.length := by simp [SexaTok.secDigits, hsec]
        rw [hsd] at hcap
        rw [e]
        simp only []
        obtain ⟨p3, h3⟩ := readU32_groups s k (58 :: p2) hs hsne hks (by omega) hsok
        rw [h3]
        simp only [lift_ok_eq, Res.ok_bind, hs59', ↓reduceIte]
        have hk46 : ∀ r', k = 46 :: r' → False := fun r' h => (hk 46 r' h).2.2.2 s hsec rfl
        have hnot : ¬ MAX_NUM_DIGITS < t.deg.digits.length + t.min.digits.length + s.digits.length := by omega
        refine ⟨p3, ?_⟩
        split
        · exact absurd rfl (hk46 _)
        · simp only [Res.ok_bind, hnot, ↓reduceIte, SexaTok.value, SexaTok.secs, hsec]
          cases tm <;> simp <;> split <;> rfl
      | some f =>
        obtain ⟨hf, hfne⟩ := hfr f rfl
        have e : t.secRender ++ k = 58 :: (s.render ++ (46 :: (f.render ++ k))) := by
          simp [SexaTok.secRender, hsec]
        have hsd : t.secDigits = s.digits.length + f.digits.length := by simp [SexaTok.secDigits, hsec]
        rw [hsd] at hcap
        rw [e]
        simp only []
        obtain ⟨p3, h3⟩ := readU32_groups s (46 :: (f.render ++ k)) (58 :: p2) hs hsne (stops_dot _) (by omega) hsok
        rw [h3]
        simp only [lift_ok_eq, Res.ok_bind, hs59', ↓reduceIte]
        obtain ⟨p4, h4⟩ := readFrac_groups f k (46 :: p3) (zero F false) ONE 0 false hf hfne hks (by omega)
        rw [h4]
        have hnot : ¬ MAX_NUM_DIGITS <
            t.deg.digits.length + t.min.digits.length + s.digits.length + (0 + f.digits.length) := by omega
        refine ⟨p4, ?_⟩
        simp only [lift_ok_eq, Res.ok_bind, hnot, ↓reduceIte, SexaTok.value, SexaTok.secs, hsec, fracF]
        cases tm <;> simp <;> split <;> rfl
  obtain ⟨p', hp'⟩ := hsx
  rw [hp']
  exact ⟨p', rfl⟩

end SaphyrVerif.Lemmas.C19X
