import SaphyrVerif.Lemmas.E2EBudgetRun
import SaphyrVerif.Lemmas.E2EBudgetMono
/-!
End-to-end composition with the budget enforcer, part 10 (pump level): a breach-free run of the budgeted pump
stays breach-free under any other limits that bound the counters of its FINAL enforcer state (all-content
policy) — the counters are monotone along the run, so "every prefix within the limits" and "the whole stream
within the limits" coincide.
-/
namespace SaphyrVerif.Lemmas.E2EBudget
open SaphyrVerif SaphyrVerif.Scalars SaphyrVerif.Pump SaphyrVerif.Budget SaphyrVerif.De SaphyrVerif.Spec
open SaphyrVerif.Lemmas.CurSim (Quiet Run)
open SaphyrVerif.Lemmas.C07 (Within)

set_option linter.unusedSimpArgs false

/-- `BRun` with the final (quiet) pump exposed, without the requirement on `finish()` -/
inductive BRunTo : Pump → List RawItem → List Ev → Pump → Prop
  | eof {p : Pump} {inp : List RawItem} {p' : Pump} {inp' : List RawItem} :
      nextImpl p inp = (.eof, p', inp') → Quiet p' inp' → BRunTo p inp [] p'
  | ev {p : Pump} {inp : List RawItem} {e : Ev} {p' : Pump} {inp' : List RawItem} {es : List Ev} {pf : Pump} :
      nextImpl p inp = (.event e, p', inp') → BRunTo p' inp' es pf → BRunTo p inp (e :: es) pf

theorem BRunTo.toBRun {p : Pump} {inp : List RawItem} {es : List Ev} {pf : Pump} (h : BRunTo p inp es pf)
    (hf : FinishOk pf) : BRun p inp es := by
  induction h with
  | eof hn hq => exact BRun.eof hn hq hf
  | ev hn _ ih => exact BRun.ev hn (ih hf)

theorem brunTo_of_pumpAll {q : Pump} {inp : List RawItem} {es : List Ev} (hr : Run q inp es) :
    ∀ (p : Pump), stripP p = q → ∀ (fuel : Nat) (acc evs : List Ev) (p' : Pump),
      pumpAll fuel p inp acc = some (evs, none, p') → BRunTo p inp es p' := by
  induction hr with
  | @eof q inp q' inp' hn hq =>
    intro p hp fuel acc evs p' hpa
    subst hp
    cases fuel with
    | zero => simp [pumpAll] at hpa
    | succ fuel =>
      rcases hp1 : nextImpl p inp with ⟨s, p1, rest⟩
      rcases nextImpl_strip p inp hp1 with h1 | ⟨⟨b, l, rfl⟩, -⟩
      · rw [hn] at h1
        simp only [Prod.mk.injEq] at h1
        obtain ⟨rfl, rfl, rfl⟩ := h1
        simp only [pumpAll, hp1, Option.some.injEq, Prod.mk.injEq, true_and] at hpa
        obtain ⟨-, rfl⟩ := hpa
        exact BRunTo.eof hp1 (quiet_of_strip hq)
      · simp [pumpAll, hp1] at hpa
  | @ev q inp e q' inp' es hn hr ih =>
    intro p hp fuel acc evs p' hpa
    subst hp
    cases fuel with
    | zero => simp [pumpAll] at hpa
    | succ fuel =>
      rcases hp1 : nextImpl p inp with ⟨s, p1, rest⟩
      rcases nextImpl_strip p inp hp1 with h1 | ⟨⟨b, l, rfl⟩, -⟩
      · rw [hn] at h1
        simp only [Prod.mk.injEq] at h1
        obtain ⟨rfl, rfl, rfl⟩ := h1
        simp only [pumpAll, hp1] at hpa
        exact BRunTo.ev hp1 (ih p1 rfl fuel _ evs p' hpa)
      · simp [pumpAll, hp1] at hpa

theorem withBud_budget_none {q : Pump} (hq : q.budget = none) (b : Enf) : stripP (withBud q b) = q := by
  cases q
  simp_all [stripP, withBud]

/-- one breach-free call of the budgeted pump, in terms of the stripped pump and the observation list -/
theorem nextImpl_withBud_ok {q : Pump} {inp : List RawItem} (hq : q.budget = none) (b : Enf)
    {s : Step} {p' : Pump} {rest : List RawItem} (h : nextImpl (withBud q b) inp = (s, p', rest))
    (hs : ¬ IsBreach s) :
    ∃ q' b', nextImpl q inp = (s, q', rest) ∧ q'.budget = none ∧ p' = withBud q' b' ∧
      feedObs b (obsCall q inp) = .ok b' := by
  rcases h0 : nextImpl q inp with ⟨s0, q', r0⟩
  have hq' : q'.budget = none := by
    have := CurSim.nextImpl_budget q inp hq
    rw [h0] at this; exact this
  have ho := nextImpl_obs q inp hq b h0
  revert ho
  generalize feedObs b (obsCall q inp) = r
  intro ho
  cases r with
  | error br =>
    exfalso
    simp only [] at ho
    obtain ⟨l, p1, r1, ho⟩ := ho
    rw [h] at ho
    simp only [Prod.mk.injEq] at ho
    exact hs ⟨br, l, ho.1⟩
  | ok b' =>
    simp only [] at ho
    rw [h] at ho
    simp only [Prod.mk.injEq] at ho
    obtain ⟨rfl, rfl, rfl⟩ := ho
    exact ⟨q', b', rfl, hq', rfl, rfl⟩

theorem quiet_withBud {q : Pump} {inp : List RawItem} (hq : q.budget = none) (b b2 : Enf)
    (h : Quiet (withBud q b) inp) : Quiet (withBud q b2) inp := by
  apply quiet_of_strip
  rw [withBud_budget_none hq]
  have h1 : Quiet (stripP (withBud q b)) inp :=
    ⟨h.1, nextImpl_strip_of_ok h.2 not_breach_eof⟩
  rw [withBud_budget_none hq] at h1
  exact h1

/-- (monotonicity along the run) a breach-free run under the enforcer `b` is a breach-free run under the same
enforcer with any limits that bound the counters of the final state -/
theorem brunTo_withLim {p : Pump} {inp : List RawItem} {es : List Ev} {pf : Pump} (h : BRunTo p inp es pf) :
    ∀ (q : Pump) (b : Enf), p = withBud q b → q.budget = none → EnfOk b →
      ∃ qf bf, pf = withBud qf bf ∧ qf.budget = none ∧ LeC b bf ∧ EnfOk bf ∧
        ∀ lim, Within (withLim bf lim) → BRunTo (withBud q (withLim b lim)) inp es (withBud qf (withLim bf lim)) := by
  induction h with
  | @eof p inp p' inp' hn hqt =>
    intro q b hp hq ho
    subst hp
    obtain ⟨q', b', h0, hq', rfl, hfo⟩ := nextImpl_withBud_ok hq b hn not_breach_eof
    obtain ⟨hle, ho'⟩ := feedObs_leC ho hfo
    refine ⟨q', b', rfl, hq', hle, ho', fun lim hw => ?_⟩
    have hfl := feedObs_withLim lim ho hfo hw
    have hn2 := nextImpl_obs q inp hq (withLim b lim) h0
    rw [hfl] at hn2
    exact BRunTo.eof hn2 (quiet_withBud hq' b' _ hqt)
  | @ev p inp e p' inp' es pf hn _ ih =>
    intro q b hp hq ho
    subst hp
    obtain ⟨q', b', h0, hq', rfl, hfo⟩ := nextImpl_withBud_ok hq b hn (not_breach_event e)
    obtain ⟨hle, ho'⟩ := feedObs_leC ho hfo
    obtain ⟨qf, bf, rfl, hqf, hle2, hof, hrest⟩ := ih q' b' rfl hq' ho'
    refine ⟨qf, bf, rfl, hqf, hle.trans hle2, hof, fun lim hw => ?_⟩
    have hfl := feedObs_withLim lim ho hfo (within_of_leC lim hle2 hw)
    have hn2 := nextImpl_obs q inp hq (withLim b lim) h0
    rw [hfl] at hn2
    exact BRunTo.ev hn2 (hrest lim hw)

/-- a breach-free run with a silent `finish()` exposes its final pump -/
theorem BRun.to {p : Pump} {inp : List RawItem} {es : List Ev} (h : BRun p inp es) :
    ∃ pf, BRunTo p inp es pf ∧ (Pump.finish pf).1 = none := by
  induction h with
  | eof hn hq hfin => exact ⟨_, BRunTo.eof hn hq, hfin⟩
  | ev hn _ ih =>
    obtain ⟨pf, hto, hfin⟩ := ih
    exact ⟨pf, BRunTo.ev hn hto, hfin⟩

/-- a breach-free run is what `pumpAll` computes -/
theorem BRunTo.ends {p : Pump} {inp : List RawItem} {es : List Ev} {pf : Pump} (h : BRunTo p inp es pf) :
    C02.Ends p inp es pf := by
  induction h with
  | eof hn _ => exact ⟨_, _, _, C02.Steps.refl _ _, hn⟩
  | ev hn _ ih =>
    obtain ⟨p1, inp1, inp2, hs, he⟩ := ih
    exact ⟨p1, inp1, inp2, C02.Steps.cons hn hs, he⟩

theorem BRunTo.pumpAll {p : Pump} {inp : List RawItem} {es : List Ev} {pf : Pump} (h : BRunTo p inp es pf) :
    pumpAll (es.length + 1) p inp [] = some (es, none, pf) := C02.pumpAll_ends h.ends

/-- the final report and the ratio check of a pump with enforcer `bf` -/
theorem finish_withBud (q : Pump) (bf : Enf) :
    Pump.finish (withBud q bf) = (bf.finalize.2.map (fun b => PErr.budget b q.lastLoc), some bf.finalize.1) := rfl

/-- the limits bound the final report ⇒ they bound the final enforcer state -/
theorem within_withLim_of_report {bf : Enf} {lim : Limits} (h : within lim bf.finalize.1 = true) :
    Within (withLim bf lim) := by
  rw [C07.within_iff, C07.finalize_fst] at h
  simpa [Within, withLim] using h

/-- the mathematical ratio check passes ⇒ `finalize` under these limits reports nothing (the limits are `usize`
values, so the saturating product cannot change the comparison) -/
theorem finalize_withLim_none {bf : Enf} {lim : Limits} (hw : within lim bf.finalize.1 = true)
    (hr : ratioOk lim bf.finalize.1 = true) (hlim : lim.maxAliases ≤ USIZE_MAX) :
    (withLim bf lim).finalize.2 = none := by
  have hfst : (withLim bf lim).finalize.1 = bf.finalize.1 := by
    rw [C07.finalize_fst, C07.finalize_fst]; rfl
  cases hpd : (withLim bf lim).perDocument with
  | true => exact C07.finalize_snd_pd _ hpd
  | false =>
  rw [C07.finalize_snd _ hpd, hfst]
  have ha : bf.finalize.1.aliases ≤ USIZE_MAX := by
    rw [C07.within_iff] at hw
    omega
  simp only [ratioOk] at hr
  simp only [withLim]
  simp at hr ⊢
  intro h1 h2
  have := C07.gt_satMul (a := bf.finalize.1.aliases) lim.multiplier bf.finalize.1.anchors ha
  rcases hr with (h3 | h3) | ⟨h3, h4⟩
  · rw [h1] at h3; cases h3
  · omega
  · exact ⟨h3, by omega⟩

end SaphyrVerif.Lemmas.E2EBudget
