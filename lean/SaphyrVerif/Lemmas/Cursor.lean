import SaphyrVerif.Model.De
/-!
Replay cursors (`Cur.replay buf idx ref`): `Cur.next`, `Cur.peek`, `Cur.lastLoc`, `Cur.refLoc` are list
lookups.  Two equivalent ways of saying "the cursor stands in front of `e :: tl`" are supported:

* `buf.drop idx = e :: tl` (the `_of_drop` lemmas; convenient for inductions, use `drop_add_of_drop_eq_append`
  / `drop_succ_of_drop_eq_cons` to move the position), and
* `buf = pre ++ e :: tl`, `idx = pre.length` (the `@[simp]` lemmas `next_replay_append`, …).

Self-contained: depends only on Model/De.lean and core `List` lemmas.
-/
namespace SaphyrVerif.Lemmas.Cursor
open SaphyrVerif SaphyrVerif.Pump SaphyrVerif.De

/-! ### list facts -/

theorem getElem?_of_drop_eq_cons {α} {buf : List α} {idx : Nat} {e : α} {tl : List α}
    (h : buf.drop idx = e :: tl) : buf[idx]? = some e := by
  have h1 : (buf.drop idx)[0]? = some e := by rw [h]; rfl
  simpa [List.getElem?_drop] using h1

theorem drop_succ_of_drop_eq_cons {α} {buf : List α} {idx : Nat} {e : α} {tl : List α}
    (h : buf.drop idx = e :: tl) : buf.drop (idx + 1) = tl := by
  have h1 : (buf.drop idx).drop 1 = tl := by rw [h]; rfl
  simpa [List.drop_drop] using h1

theorem drop_add_of_drop_eq_append {α} {buf : List α} {idx : Nat} {xs tl : List α}
    (h : buf.drop idx = xs ++ tl) : buf.drop (idx + xs.length) = tl := by
  have h1 : (buf.drop idx).drop xs.length = tl := by rw [h]; simp
  simpa [List.drop_drop] using h1

theorem getElem?_of_drop_eq_nil {α} {buf : List α} {idx : Nat} (h : buf.drop idx = []) : buf[idx]? = none := by
  have h1 : buf.length ≤ idx := by simpa using h
  simp [h1]

theorem drop_length_append {α} (pre tl : List α) : (pre ++ tl).drop pre.length = tl := by simp

theorem drop_length_append_append {α} (pre xs tl : List α) : (pre ++ xs ++ tl).drop pre.length = xs ++ tl := by
  simp [List.append_assoc]

theorem getElem?_append_cons {α} (pre : List α) (e : α) (tl : List α) : (pre ++ e :: tl)[pre.length]? = some e := by
  simp

/-! ### `next` -/

theorem next_replay (buf : List Ev) (idx : Nat) (ref : Option Loc) :
    Cur.next (.replay buf idx ref) =
      match buf[idx]? with
      | some e => .ok (some e) (.replay buf (idx + 1) ref)
      | none => .ok none (.replay buf idx ref) := rfl

theorem next_replay_of_getElem? {buf : List Ev} {idx : Nat} {e : Ev} (ref : Option Loc) (h : buf[idx]? = some e) :
    Cur.next (.replay buf idx ref) = .ok (some e) (.replay buf (idx + 1) ref) := by
  simp [Cur.next, h]

theorem next_replay_of_getElem?_none {buf : List Ev} {idx : Nat} (ref : Option Loc) (h : buf[idx]? = none) :
    Cur.next (.replay buf idx ref) = .ok none (.replay buf idx ref) := by
  simp [Cur.next, h]

theorem next_replay_of_drop {buf : List Ev} {idx : Nat} {e : Ev} {tl : List Ev} (ref : Option Loc)
    (h : buf.drop idx = e :: tl) :
    Cur.next (.replay buf idx ref) = .ok (some e) (.replay buf (idx + 1) ref) :=
  next_replay_of_getElem? ref (getElem?_of_drop_eq_cons h)

theorem next_replay_of_drop_nil {buf : List Ev} {idx : Nat} (ref : Option Loc) (h : buf.drop idx = []) :
    Cur.next (.replay buf idx ref) = .ok none (.replay buf idx ref) :=
  next_replay_of_getElem?_none ref (getElem?_of_drop_eq_nil h)

@[simp] theorem next_replay_append (pre : List Ev) (e : Ev) (tl : List Ev) (ref : Option Loc) :
    Cur.next (.replay (pre ++ e :: tl) pre.length ref) = .ok (some e) (.replay (pre ++ e :: tl) (pre.length + 1) ref) :=
  next_replay_of_getElem? ref (getElem?_append_cons pre e tl)

@[simp] theorem next_replay_cons_zero (e : Ev) (tl : List Ev) (ref : Option Loc) :
    Cur.next (.replay (e :: tl) 0 ref) = .ok (some e) (.replay (e :: tl) 1 ref) := rfl

@[simp] theorem next_replay_end (buf : List Ev) (ref : Option Loc) :
    Cur.next (.replay buf buf.length ref) = .ok none (.replay buf buf.length ref) :=
  next_replay_of_getElem?_none ref (by simp)

@[simp] theorem next_replay_nil (idx : Nat) (ref : Option Loc) :
    Cur.next (.replay [] idx ref) = .ok none (.replay [] idx ref) := rfl

/-! ### `peek` -/

@[simp] theorem peek_replay (buf : List Ev) (idx : Nat) (ref : Option Loc) :
    Cur.peek (.replay buf idx ref) = .ok buf[idx]? (.replay buf idx ref) := rfl

theorem peek_replay_of_getElem? {buf : List Ev} {idx : Nat} {e : Ev} (ref : Option Loc) (h : buf[idx]? = some e) :
    Cur.peek (.replay buf idx ref) = .ok (some e) (.replay buf idx ref) := by
  simp [Cur.peek, h]

theorem peek_replay_of_drop {buf : List Ev} {idx : Nat} {e : Ev} {tl : List Ev} (ref : Option Loc)
    (h : buf.drop idx = e :: tl) :
    Cur.peek (.replay buf idx ref) = .ok (some e) (.replay buf idx ref) :=
  peek_replay_of_getElem? ref (getElem?_of_drop_eq_cons h)

theorem peek_replay_of_drop_nil {buf : List Ev} {idx : Nat} (ref : Option Loc) (h : buf.drop idx = []) :
    Cur.peek (.replay buf idx ref) = .ok none (.replay buf idx ref) := by
  simp [Cur.peek, getElem?_of_drop_eq_nil h]

theorem peek_replay_append (pre : List Ev) (e : Ev) (tl : List Ev) (ref : Option Loc) :
    Cur.peek (.replay (pre ++ e :: tl) pre.length ref) = .ok (some e) (.replay (pre ++ e :: tl) pre.length ref) :=
  peek_replay_of_getElem? ref (getElem?_append_cons pre e tl)

theorem peek_replay_end (buf : List Ev) (ref : Option Loc) :
    Cur.peek (.replay buf buf.length ref) = .ok none (.replay buf buf.length ref) := by
  simp [Cur.peek]

/-- `peek` never moves a replay cursor and never fails -/
theorem peek_replay_cur (buf : List Ev) (idx : Nat) (ref : Option Loc) :
    ∃ o, Cur.peek (.replay buf idx ref) = .ok o (.replay buf idx ref) := ⟨_, rfl⟩

/-- `next` on a replay cursor never fails -/
theorem next_replay_ok (buf : List Ev) (idx : Nat) (ref : Option Loc) :
    ∃ o idx', Cur.next (.replay buf idx ref) = .ok o (.replay buf idx' ref) := by
  simp only [Cur.next]
  cases buf[idx]? with
  | none => exact ⟨_, _, rfl⟩
  | some e => exact ⟨_, _, rfl⟩

/-! ### `lastLoc`, `refLoc` -/

theorem lastLoc_replay (buf : List Ev) (idx : Nat) (ref : Option Loc) :
    Cur.lastLoc (.replay buf idx ref) = match buf[idx - 1]? with
      | some e => e.loc
      | none => 0 := rfl

/-- after consuming `e` the last location is the one of `e` -/
@[simp] theorem lastLoc_replay_append_succ (pre : List Ev) (e : Ev) (tl : List Ev) (ref : Option Loc) :
    Cur.lastLoc (.replay (pre ++ e :: tl) (pre.length + 1) ref) = e.loc := by
  simp [Cur.lastLoc]

theorem lastLoc_replay_succ_of_drop {buf : List Ev} {idx : Nat} {e : Ev} {tl : List Ev} (ref : Option Loc)
    (h : buf.drop idx = e :: tl) : Cur.lastLoc (.replay buf (idx + 1) ref) = e.loc := by
  simp [Cur.lastLoc, getElem?_of_drop_eq_cons h]

@[simp] theorem lastLoc_replay_nil (idx : Nat) (ref : Option Loc) : Cur.lastLoc (.replay [] idx ref) = 0 := rfl

@[simp] theorem refLoc_replay_some (buf : List Ev) (idx : Nat) (l : Loc) :
    Cur.refLoc (.replay buf idx (some l)) = l := rfl

theorem refLoc_replay_none (buf : List Ev) (idx : Nat) :
    Cur.refLoc (.replay buf idx none) = match buf[idx]? with
      | some e => e.loc
      | none => match buf[idx - 1]? with
        | some e => e.loc
        | none => 0 := rfl

theorem refLoc_replay_none_of_getElem? {buf : List Ev} {idx : Nat} {e : Ev} (h : buf[idx]? = some e) :
    Cur.refLoc (.replay buf idx none) = e.loc := by
  simp [Cur.refLoc, h]

theorem refLoc_replay_none_of_drop {buf : List Ev} {idx : Nat} {e : Ev} {tl : List Ev}
    (h : buf.drop idx = e :: tl) : Cur.refLoc (.replay buf idx none) = e.loc :=
  refLoc_replay_none_of_getElem? (getElem?_of_drop_eq_cons h)

@[simp] theorem refLoc_replay_none_append (pre : List Ev) (e : Ev) (tl : List Ev) :
    Cur.refLoc (.replay (pre ++ e :: tl) pre.length none) = e.loc :=
  refLoc_replay_none_of_getElem? (getElem?_append_cons pre e tl)

@[simp] theorem refLoc_replay_none_cons_zero (e : Ev) (tl : List Ev) :
    Cur.refLoc (.replay (e :: tl) 0 none) = e.loc := rfl

@[simp] theorem refLoc_replay_none_nil (idx : Nat) : Cur.refLoc (.replay [] idx none) = 0 := rfl

/-- at the end of the buffer the reference location falls back to the last event -/
theorem refLoc_replay_none_end_append (pre : List Ev) (e : Ev) :
    Cur.refLoc (.replay (pre ++ [e]) (pre.length + 1) none) = e.loc := by
  simp [Cur.refLoc]

end SaphyrVerif.Lemmas.Cursor
