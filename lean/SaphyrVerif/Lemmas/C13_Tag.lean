import SaphyrVerif.Lemmas.C13_Plain
/-!
C13 proof machinery, part 3e: TAGGED scalar tokens (`tagged_enums`: `!!Enum token`).  The reference reader
skips the tag; a token that is neither tagged itself nor an entry indicator reads behind a tag as it reads
alone.
-/
set_option linter.unusedSimpArgs false
set_option linter.unusedVariables false
namespace SaphyrVerif.Emit
open SaphyrVerif

/-- a scalar token that may follow a tag: it is not tagged itself and not taken for `- …` / `? …` -/
structure CoreTok (t : List Char) (p : PVal) : Prop extends ScalarTok t p where
  cls : classify t = .other
  untagged : t.head? ≠ some '!'

theorem dropWhile_tagName : ∀ (e : List Char) (t : List Char), (∀ c ∈ e, c ≠ ' ') →
    (e ++ ' ' :: t).dropWhile (· != ' ') = ' ' :: t
  | [], t, _ => by simp
  | c :: e, t, h => by
    have hc : (c != ' ') = true := by simpa using h c (by simp)
    simp only [List.cons_append, List.dropWhile_cons, hc, if_true]
    exact dropWhile_tagName e t (fun x hx => h x (by simp [hx]))

theorem skipTag_tagged' {e t : List Char} (he : ∀ c ∈ e, c ≠ ' ') (ht : t.head? ≠ some ' ') :
    skipTag ('!' :: '!' :: e ++ ' ' :: t) = t := by
  have h1 : ('!' :: '!' :: e ++ ' ' :: t).dropWhile (· != ' ') = ' ' :: t := by
    have := dropWhile_tagName ('!' :: '!' :: e) t (fun x hx => by
      simp only [List.mem_cons] at hx
      rcases hx with rfl | rfl | hx
      · decide
      · decide
      · exact he x hx)
    simpa using this
  unfold skipTag
  simp only [h1]
  cases t with
  | nil => simp [dropSpaces]
  | cons c cs =>
    have hc : c ≠ ' ' := fun e' => ht (by simp [e'])
    simp [dropSpaces, hc]

theorem skipTag_untagged {t : List Char} (h : t.head? ≠ some '!') : skipTag t = t := by
  unfold skipTag
  split
  · rename_i r; exact absurd (by simp) h
  · rfl

/-- behind a tag a core token reads as it reads alone -/
theorem blockNode_tagged_eq (fuel n : Nat) (seqAt : Option Nat) (inl : Bool) (i : Nat) {e t : List Char} {p : PVal}
    (rest : List Line) (he : ∀ c ∈ e, c ≠ ' ') (ht : CoreTok t p) (hi : n ≤ i) :
    blockNode (fuel + 1) n seqAt inl (⟨i, '!' :: '!' :: e ++ ' ' :: t⟩ :: rest) =
      blockNode (fuel + 1) n seqAt inl (⟨i + (('!' :: '!' :: e ++ ' ' :: t).length - t.length), t⟩ :: rest) := by
  have hns1 : (⟨i, '!' :: '!' :: e ++ ' ' :: t⟩ : Line).isSkippable = false := notSkippable_of_head (by decide)
  have hne := ht.ne
  obtain ⟨c, cs, e'⟩ : ∃ c cs, t = c :: cs := by
    cases t with
    | nil => exact absurd rfl hne
    | cons c cs => exact ⟨c, cs, rfl⟩
  have hns2 : ∀ j, (⟨j, t⟩ : Line).isSkippable = false := fun j => by
    rw [e']; exact notSkippable_of_head (fun h => ht.head.2.1 (by rw [e', h]; rfl))
  have hcl1 : classify ('!' :: '!' :: e ++ ' ' :: t) = .other := by simp [classify]
  have hlt : ¬ (i < n) := by omega
  have hlt2 : ¬ (i + (('!' :: '!' :: e ++ ' ' :: t).length - t.length) < n) := by omega
  have hsk1 := skipTag_tagged' he ht.head.1
  have hsk2 := skipTag_untagged ht.untagged
  have hcl2 := ht.cls
  subst e'
  rw [blockNode, blockNode, skipBlank_cons rest hns1, skipBlank_cons rest (hns2 _)]
  simp only [hcl1, hcl2, hlt, hlt2, decide_false, Bool.false_and, Bool.false_eq_true, if_false, hsk1, hsk2,
    Nat.sub_self, Nat.add_zero]

/-- `!!Enum token` is a scalar token for what `token` reads as -/
theorem tagged_scalarTok {e t : List Char} {p : PVal} (he : tagNameOk e = true) (ht : CoreTok t p) :
    ScalarTok ('!' :: '!' :: e ++ ' ' :: t) p := by
  have he' : ∀ c ∈ e, c ≠ ' ' ∧ lineChar c = true := by
    intro c hc
    simp only [tagNameOk, Bool.and_eq_true] at he
    have hi := List.all_eq_true.mp he.2 c hc
    have h1 : c ≠ ' ' := by rintro rfl; exact absurd hi (by decide)
    have h2 : c ≠ '\n' := by rintro rfl; exact absurd hi (by decide)
    have h3 : c ≠ '\r' := by rintro rfl; exact absurd hi (by decide)
    have h4 : c ≠ Char.ofNat 0 := by rintro rfl; exact absurd hi (by decide)
    exact ⟨h1, by simp [lineChar, h2, h3, h4]⟩
  refine ⟨fun fuel n seqAt inl i rest hi hd => ?_, by simp, by simp, ?_,
    notMarker_head (t := '!' :: '!' :: e ++ ' ' :: t) rfl (Or.inl (by decide)) (by decide) 0⟩
  · rw [blockNode_tagged_eq fuel n seqAt inl i rest (fun c hc => (he' c hc).1) ht hi]
    exact ht.read fuel n seqAt inl _ rest (by omega) hd
  · intro x hx
    simp only [List.cons_append, List.mem_cons, List.mem_append] at hx
    rcases hx with rfl | rfl | hx | rfl | hx
    · decide
    · decide
    · exact (he' x hx).2
    · decide
    · exact ht.chars x hx

/-! ### core tokens -/

theorem PlainVal.coreTok {s : List Char} (h : PlainVal s) : CoreTok s (.str s) := by
  obtain ⟨c, cs, e, hc⟩ := h.start
  refine ⟨h.scalarTok, h.cls, ?_⟩
  rw [e]
  simp only [List.head?_cons, ne_eq, Option.some.injEq]
  exact keyStart_ne (plainStart_key hc) '!' (by decide)

theorem quoted_coreTok_dq {body s : List Char} (h : QuotedBody '"' readDq body s) : CoreTok ('"' :: body) (.str s) :=
  ⟨quoted_scalarTok_dq h, classify_quote body (Or.inl rfl), by simp⟩

theorem quoted_coreTok_sq {body s : List Char} (h : QuotedBody '\'' readSq body s) : CoreTok ('\'' :: body) (.str s) :=
  ⟨quoted_scalarTok_sq h, classify_quote body (Or.inr rfl), by simp⟩

theorem singleQuoted_coreTok {s : List Char} (h : needsDoubleQuotes s = false) : CoreTok (singleQuoted s) (.str s) :=
  quoted_coreTok_sq (singleQuoted_body (needsDoubleQuotes_false h))

end SaphyrVerif.Emit
