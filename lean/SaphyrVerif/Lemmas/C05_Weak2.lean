import SaphyrVerif.Lemmas.C05_Weak1
/-!
Weak cursor invariant, part 2: the functions that do not depend on `deser`: skipping, capturing, the tagged
sequence collector, the merge readers.
-/
namespace SaphyrVerif.Lemmas.C05
open SaphyrVerif SaphyrVerif.Scalars SaphyrVerif.Pump SaphyrVerif.De SaphyrVerif.Spec
set_option linter.unusedSimpArgs false
variable {cfg : Cfg} {buf : List Ev} {ref : Option Loc}

/-! ### skipping -/

theorem skipDepth_weak (fuel : Nat) : ∀ {i : Nat} {depth : Nat} {u : Unit} {c' : Cur},
    skipDepth fuel (.replay buf i ref) depth = .ok u c' → Stays buf ref i depth c' := by
  induction fuel with
  | zero => intro i depth u c' h; rw [skipDepth] at h; contradiction
  | succ fuel ih =>
    intro i depth u c' h
    rw [skipDepth] at h
    split at h
    · weak_leaf
    · rename_i hd
      have hd : depth ≠ 0 := by simpa using hd
      weak_ev
      · contradiction
      all_goals exact Stays.step hb (ih h) (by simp only [Ev.delta]; omega) (by omega)

theorem skipOneNode_weak {fuel : Nat} {i : Nat} {u : Unit} {c' : Cur}
    (h : skipOneNode fuel (.replay buf i ref) = .ok u c') : Stays buf ref i 0 c' := by
  cases fuel with
  | zero => rw [skipOneNode] at h; contradiction
  | succ fuel =>
    rw [skipOneNode] at h
    weak_ev
    all_goals first
      | weak_leaf
      | exact Stays.step hb (skipDepth_weak fuel h) (by simp [Ev.delta]) (by omega)

theorem collectTaggedSeq_weak (fuel : Nat) : ∀ {i : Nat} {depth : Nat} {acc r : List Ev} {c' : Cur},
    collectTaggedSeq fuel (.replay buf i ref) depth acc = .ok r c' → Stays buf ref i depth c' := by
  induction fuel with
  | zero => intro i depth acc r c' h; rw [collectTaggedSeq] at h; contradiction
  | succ fuel ih =>
    intro i depth acc r c' h
    rw [collectTaggedSeq] at h
    split at h
    · weak_leaf
    · rename_i hd
      have hd : depth ≠ 0 := by simpa using hd
      weak_ev
      · contradiction
      all_goals exact Stays.step hb (ih h) (by simp only [Ev.delta]; omega) (by omega)

/-! ### capturing -/

structure WeakCap (buf : List Ev) (ref : Option Loc) (fuel : Nat) : Prop where
  capture : ∀ {i : Nat} {n : KeyNode} {c' : Cur},
    capture fuel (.replay buf i ref) = .ok n c' → Stays buf ref i 0 c'
  captureSeq : ∀ {i : Nat} {fps : List FP} {evs : List Ev} {r : List FP × List Ev} {c' : Cur},
    captureSeq fuel (.replay buf i ref) fps evs = .ok r c' → Stays buf ref i 1 c'
  captureMap : ∀ {i : Nat} {fps : List (FP × FP)} {evs : List Ev} {r : List (FP × FP) × List Ev} {c' : Cur},
    captureMap fuel (.replay buf i ref) fps evs = .ok r c' → Stays buf ref i 1 c'

theorem weakCap (fuel : Nat) : WeakCap buf ref fuel := by
  induction fuel with
  | zero =>
    constructor
    · intro i n c' h; rw [capture] at h; contradiction
    · intro i fps evs r c' h; rw [captureSeq] at h; contradiction
    · intro i fps evs r c' h; rw [captureMap] at h; contradiction
  | succ fuel ih =>
    constructor
    · intro i n c' h
      rw [capture] at h
      weak_ev
      all_goals try weak_leaf
      · split at h
        · contradiction
        · rename_i hq; cases h
          exact Stays.step hb (ih.captureSeq hq) (by simp [Ev.delta]) (by omega)
      · split at h
        · contradiction
        · rename_i hq; cases h
          exact Stays.step hb (ih.captureMap hq) (by simp [Ev.delta]) (by omega)
    · intro i fps evs r c' h
      rw [captureSeq] at h
      weak_ev
      all_goals try weak_leaf
      all_goals
        split at h
        · contradiction
        · rename_i hq
          exact (ih.capture hq).trans (fun j hj => by subst hj; exact ih.captureSeq h) (by omega)
    · intro i fps evs r c' h
      rw [captureMap] at h
      weak_ev
      all_goals try weak_leaf
      all_goals
        split at h
        · contradiction
        · rename_i hq
          refine (ih.capture hq).trans (k' := 1) (fun j hj => ?_) (by omega)
          subst hj
          split at h
          · contradiction
          · rename_i hq2
            exact (ih.capture hq2).trans (fun j hj => by subst hj; exact ih.captureMap h) (by omega)

theorem capture_weak {fuel : Nat} {i : Nat} {n : KeyNode} {c' : Cur}
    (h : capture fuel (.replay buf i ref) = .ok n c') : Stays buf ref i 0 c' := (weakCap fuel).capture h

/-! ### merge readers -/

theorem mergeSeqBatches_weak (fuel : Nat) : ∀ {i : Nat} {bs r : List (List PendingEntry)} {c' : Cur},
    mergeSeqBatches fuel (.replay buf i ref) bs = .ok r c' → Stays buf ref i 1 c' := by
  induction fuel with
  | zero => intro i bs r c' h; rw [mergeSeqBatches] at h; contradiction
  | succ fuel ih =>
    intro i bs r c' h
    rw [mergeSeqBatches] at h
    weak_ev
    all_goals try weak_leaf
    all_goals
      split at h
      · contradiction
      · rename_i hq
        refine (capture_weak hq).trans (k' := 1) (fun j hj => ?_) (by omega)
        subst hj
        split at h
        · contradiction
        · exact ih h

theorem pendingFromLive_weak {fuel : Nat} {i : Nat} {mref : Loc} {r : List PendingEntry} {c' : Cur}
    (h : pendingFromLive fuel (.replay buf i ref) mref = .ok r c') : Stays buf ref i 0 c' := by
  cases fuel with
  | zero => rw [pendingFromLive] at h; contradiction
  | succ fuel =>
    rw [pendingFromLive] at h
    weak_ev
    all_goals try weak_leaf
    · weak_splits
    · split at h
      · contradiction
      · rename_i hq; cases h
        exact Stays.step hb (mergeSeqBatches_weak fuel hq) (by simp only [Ev.delta]; omega) (by omega)
    · split at h
      · contradiction
      · rename_i hq
        split at h
        · contradiction
        · cases h; exact capture_weak hq

theorem collectLoop_weak (fuel : Nat) : ∀ {i : Nat} {l : Loc} {fields r : List PendingEntry}
    {merges : List (List PendingEntry)} {c' : Cur},
    collectLoop fuel (.replay buf i ref) l fields merges = .ok r c' → Stays buf ref i 1 c' := by
  induction fuel with
  | zero => intro i l fields r merges c' h; rw [collectLoop] at h; contradiction
  | succ fuel ih =>
    intro i l fields r merges c' h
    rw [collectLoop] at h
    weak_ev
    all_goals try weak_leaf
    all_goals
      split at h
      · contradiction
      · rename_i hq
        refine (capture_weak hq).trans (k' := 1) (fun j hj => ?_) (by omega)
        subst hj
        split at h
        · simp only [peek_replay] at h
          split at h
          · contradiction
          · rename_i hq2
            exact (pendingFromLive_weak hq2).trans (fun j hj => by subst hj; exact ih h) (by omega)
        · split at h
          · contradiction
          · rename_i hq2
            exact (capture_weak hq2).trans (fun j hj => by subst hj; exact ih h) (by omega)

theorem collectEntriesFromMap_weak {fuel : Nat} {i : Nat} {l : Loc} {r : List PendingEntry} {c' : Cur}
    (h : collectEntriesFromMap fuel (.replay buf i ref) l = .ok r c') : Stays buf ref i 0 c' := by
  cases fuel with
  | zero => rw [collectEntriesFromMap] at h; contradiction
  | succ fuel =>
    rw [collectEntriesFromMap] at h
    weak_ev
    all_goals try weak_leaf
    exact Stays.step hb (collectLoop_weak fuel h) (by simp only [Ev.delta]; omega) (by omega)

end SaphyrVerif.Lemmas.C05
