import SaphyrVerif.Lemmas.C13_Emit
import SaphyrVerif.Lemmas.C13_Lines
/-!
C20 proof machinery: the explicit literal block string (`LitStr`) at the root — what the emitter
writes and how the reference reader gets the string back.
-/
set_option linter.unusedSimpArgs false
set_option linter.unusedVariables false
namespace SaphyrVerif.Emit
open SaphyrVerif

/-- chomping indicator for `t` trailing line feeds -/
def chompChars : Nat → List Char
  | 0 => ['-']
  | 1 => []
  | _ => ['+']

/-- body of a literal block: every line indented by two blanks -/
def litBody (lines : List (List Char)) : List Char := lines.flatMap fun l => ' ' :: ' ' :: l ++ ['\n']

/-- the lines of the body: the content lines, then one empty line per trailing line feed beyond the first -/
def litLines (s : List Char) : List (List Char) :=
  splitNl (trimEndNl s) ++ List.replicate (s.length - (trimEndNl s).length - 1) []

/-- the text of `LitStr(s)` at the root (indent step 2, no indentation indicator) -/
def litText (s : List Char) : List Char :=
  '|' :: chompChars (s.length - (trimEndNl s).length) ++ '\n' :: litBody (litLines s)

/-- the strings of the proved case: no control character other than LF / TAB (with CR, NUL, NEL, …
the emitter falls back to a quoted scalar), some content before the trailing line feeds, first
non-empty line not starting with a blank (no indentation indicator needed) -/
structure LitOk (s : List Char) : Prop where
  noCtl : (s.any fun c => isControl c && c != '\n' && c != '\t') = false
  content : trimEndNl s ≠ []
  noIndicator : firstLineLeadingSpaces (trimEndNl s) = 0

/-- in particular no CR and no NUL -/
theorem LitOk.noCr {s : List Char} (h : LitOk s) : ∀ c ∈ s, c ≠ '\r' ∧ c ≠ Char.ofNat 0 := by
  intro c hc
  have := List.any_eq_false.mp h.noCtl c hc
  refine ⟨?_, ?_⟩ <;> (rintro rfl; exact absurd this (by decide))

/-! ### emitter -/

theorem foldl_writeBodyLine (ind : List Char) : ∀ (lines : List (List Char)) (s : St),
    ((lines.foldl (fun s l => writeBodyLine ind l s) s).out =
      s.out ++ lines.flatMap fun l => ind ++ l ++ ['\n']) ∧
    (lines ≠ [] → (lines.foldl (fun s l => writeBodyLine ind l s) s).atLineStart = true)
  | [], s => by simp
  | l :: ls, s => by
    obtain ⟨h1, h2⟩ := foldl_writeBodyLine ind ls (writeBodyLine ind l s)
    refine ⟨?_, fun _ => ?_⟩
    · simp only [List.foldl_cons, h1, List.flatMap_cons]
      simp [writeBodyLine, newline, List.append_assoc]
    · simp only [List.foldl_cons]
      cases ls with
      | nil => simp [writeBodyLine, newline]
      | cons x xs => exact h2 (by simp)

theorem foldl_range_eq (ind : List Char) : ∀ (n : Nat) (s : St),
    (List.range n).foldl (fun s _ => writeBodyLine ind [] s) s =
      (List.replicate n ([] : List Char)).foldl (fun s l => writeBodyLine ind l s) s
  | 0, s => rfl
  | n + 1, s => by
    rw [List.range_succ, List.replicate_succ', List.foldl_append, List.foldl_append, foldl_range_eq ind n s]
    rfl

variable {o : Opts} {f : ScalarFns}

theorem emit_litStr (hy : o.yaml12 = false) (hi : o.indentStep = 2) (s : List Char) (hs : LitOk s) :
    emit o f (.litStr s) = .ok (litText s) := by
  have hni : (firstLineLeadingSpaces (trimEndNl s) > 0) = False := by simp [hs.noIndicator]
  have hce : (trimEndNl s).isEmpty = false := by
    cases h : trimEndNl s with
    | nil => exact absurd h hs.content
    | cons _ _ => rfl
  simp only [emit, hi]
  rw [ser]
  have hnc := hs.noCtl
  have hcols : ∀ st : St, st.indentShift = 0 → ∀ d, indentCols o st d = 2 * d := fun st h d => by
    simp only [indentCols, hi, h]; omega
  simp only [serStr, Option.isNone_some, Bool.false_and, Bool.false_eq_true, if_false, writeSpaceIfPending,
    Option.getD_none, writeIndent, hy, St.write, spaces, hni, decide_false, Bool.false_and, literalBlock, hce,
    List.replicate_zero, List.append_nil, Nat.mul_zero, Nat.mul_one, hi, if_true, Bool.not_false, newline, hnc,
    Bool.or_self, Nat.lt_irrefl, gt_iff_lt, Bool.or_false, hcols]
  generalize htl : s.length - (trimEndNl s).length = t
  have hb : ∀ st : St, (List.foldl (fun s line => writeBodyLine [' ', ' '] line s) st (splitNl (trimEndNl s))).out =
      st.out ++ List.flatMap (fun l => [' ', ' '] ++ l ++ ['\n']) (splitNl (trimEndNl s)) :=
    fun st => (foldl_writeBodyLine [' ', ' '] (splitNl (trimEndNl s)) st).1
  have hr : ∀ (n : Nat) (st : St), (List.foldl (fun s l => writeBodyLine [' ', ' '] l s) st (List.replicate n ([] : List Char))).out =
      st.out ++ List.flatMap (fun l => [' ', ' '] ++ l ++ ['\n']) (List.replicate n ([] : List Char)) :=
    fun n st => (foldl_writeBodyLine [' ', ' '] (List.replicate n []) st).1
  match t with
  | 0 => simp [hcols, List.replicate_succ, hb, litText, litLines, htl, chompChars, litBody, List.append_assoc]
  | 1 => simp [hcols, List.replicate_succ, hb, litText, litLines, htl, chompChars, litBody, List.append_assoc]
  | t + 2 =>
    have hw : ∀ (l : List Char) (st : St), (writeBodyLine [' ', ' '] l st).out = st.out ++ [' ', ' '] ++ l ++ ['\n'] :=
      fun l st => by simp [writeBodyLine, newline]
    simp [hcols, hb, hr, hw, foldl_range_eq, litText, litLines, htl, chompChars, litBody, List.append_assoc, List.replicate_succ]

/-! ### list / text facts -/

theorem takeWhile_space_replicate (x : List Char) :
    x.takeWhile (· == ' ') = List.replicate (x.takeWhile (· == ' ')).length ' ' := by
  induction x with
  | nil => rfl
  | cons c cs ih =>
    by_cases h : c = ' '
    · subst h; simp only [List.takeWhile_cons, beq_self_eq_true, if_true, List.length_cons, List.replicate_succ]
      rw [← ih]
    · simp [List.takeWhile_cons, h]

/-- the body line of a content line `x` -/
def bodyLine (x : List Char) : Line := mkLine (' ' :: ' ' :: x)

theorem bodyLine_eq (x : List Char) :
    bodyLine x = ⟨2 + (x.takeWhile (· == ' ')).length, x.dropWhile (· == ' ')⟩ := by
  simp [bodyLine, mkLine, List.takeWhile_cons, List.dropWhile_cons]; omega

theorem blockLines_body : ∀ (xs : List (List Char)), blockLines 2 (xs.map bodyLine) = (xs, [])
  | [] => rfl
  | x :: xs => by
    have ih := blockLines_body xs
    have ht := takeWhile_space_replicate x
    have hsplit : x.takeWhile (· == ' ') ++ x.dropWhile (· == ' ') = x := List.takeWhile_append_dropWhile
    simp only [List.map_cons, bodyLine_eq]
    rw [blockLines]
    by_cases hb : (x.dropWhile (· == ' ')).isEmpty = true
    · have hd : x.dropWhile (· == ' ') = [] := List.isEmpty_iff.mp hb
      have hx : x = List.replicate (x.takeWhile (· == ' ')).length ' ' := by
        conv => lhs; rw [← hsplit, hd, List.append_nil, ht]
      simp only [Line.isBlank, hb, if_true, ih]
      by_cases hk : (x.takeWhile (· == ' ')).length = 0
      · have : x = [] := by rw [hx, hk]; rfl
        simp [this]
      · have hgt : 2 + (x.takeWhile (· == ' ')).length > 2 := by omega
        simp only [hgt, if_true, Nat.add_sub_cancel_left]
        rw [← hx]
    · simp only [Line.isBlank, hb, Bool.false_eq_true, if_false]
      have hge : 2 + (x.takeWhile (· == ' ')).length ≥ 2 := by omega
      simp only [hge, if_true, Nat.add_sub_cancel_left, ih]
      rw [← ht, hsplit]

theorem splitNl_no_nl : ∀ (t : List Char), ∀ l ∈ splitNl t, ∀ c ∈ l, c ≠ '\n'
  | [], l, hl, c, hc => by simp [splitNl] at hl; subst hl; simp at hc
  | a :: as, l, hl, c, hc => by
    have ih := splitNl_no_nl as
    rw [splitNl_cons] at hl
    cases h : splitNl as with
    | nil => exact absurd h (splitNl_ne_nil as)
    | cons p ps =>
      rw [h] at hl ih
      by_cases ha : a = '\n'
      · simp only [ha, beq_self_eq_true, if_true, List.mem_cons] at hl
        rcases hl with rfl | rfl | hl
        · simp at hc
        · exact ih _ (by simp) c hc
        · exact ih _ (by simp [hl]) c hc
      · have : (a == '\n') = false := by simp [ha]
        simp only [this, Bool.false_eq_true, if_false, List.mem_cons] at hl
        rcases hl with rfl | hl
        · simp only [List.mem_cons] at hc
          rcases hc with rfl | hc
          · exact ha
          · exact ih _ (by simp) c hc
        · exact ih _ (by simp [hl]) c hc

theorem joinNl_splitNl : ∀ (t : List Char), joinNl (splitNl t) = t
  | [] => rfl
  | a :: as => by
    have ih := joinNl_splitNl as
    rw [splitNl_cons]
    cases h : splitNl as with
    | nil => exact absurd h (splitNl_ne_nil as)
    | cons p ps =>
      rw [h] at ih
      by_cases ha : a = '\n'
      · subst ha
        simp only [beq_self_eq_true, if_true]
        rw [joinNl]
        · simp [ih]
        · simp
      · have : (a == '\n') = false := by simp [ha]
        simp only [this, Bool.false_eq_true, if_false]
        cases ps with
        | nil => simp only [joinNl] at ih ⊢; rw [ih]
        | cons q qs => simp only [joinNl, List.cons_append] at ih ⊢; rw [ih]

theorem trimEndNl_split (s : List Char) :
    s = trimEndNl s ++ List.replicate (s.length - (trimEndNl s).length) '\n' ∧
    (trimEndNl s).getLast? ≠ some '\n' := by
  unfold trimEndNl
  generalize hr : s.reverse = r
  have hs : s = r.reverse := by rw [← hr, List.reverse_reverse]
  subst hs
  clear hr
  induction r with
  | nil => simp
  | cons c cs ih =>
    by_cases hc : c = '\n'
    · subst hc
      simp only [List.dropWhile_cons, beq_self_eq_true, if_true, List.reverse_cons, List.length_append,
        List.length_cons, List.length_nil, List.length_reverse]
      obtain ⟨h1, h2⟩ := ih
      refine ⟨?_, h2⟩
      simp only [List.length_reverse] at h1
      have hle : (List.dropWhile (· == '\n') cs).length ≤ cs.length := (List.dropWhile_sublist _).length_le
      conv => lhs; rw [h1]
      rw [List.append_assoc]
      congr 1
      rw [show cs.length + 1 - (List.dropWhile (· == '\n') cs).length = (cs.length - (List.dropWhile (· == '\n') cs).length) + 1 by omega,
        List.replicate_succ']
    · have : (c == '\n') = false := by simp [hc]
      simp [List.dropWhile_cons, this, hc]

/-! ### the reader on the body lines -/

theorem bodyLine_nil : bodyLine [] = ⟨2, []⟩ := by simp [bodyLine_eq]

theorem bodyLine_nonspace {c : Char} (cs : List Char) (hc : c ≠ ' ') : bodyLine (c :: cs) = ⟨2, c :: cs⟩ := by
  simp [bodyLine_eq, List.takeWhile_cons, List.dropWhile_cons, hc]

theorem bodyLine_indent_ge (x : List Char) : (bodyLine x).indent ≥ 2 := by rw [bodyLine_eq]; simp

/-- first non-empty content line without a leading blank ⇒ the first non-blank body line is at
indentation 2 and the blank lines before it are not indented deeper -/
theorem find_first_body : ∀ (xs : List (List Char)) (l1 : List Char),
    xs.find? (fun l => !l.isEmpty) = some l1 → (l1.takeWhile (· == ' ')).length = 0 →
    (∃ l, (xs.map bodyLine).find? (fun l => !l.isBlank) = some l ∧ l.indent = 2) ∧
    ((xs.map bodyLine).takeWhile (·.isBlank)).any (fun l => decide (l.indent > 2)) = false
  | [], _, h, _ => by simp at h
  | x :: xs, l1, h, h0 => by
    cases x with
    | nil =>
      simp only [List.find?_cons, List.isEmpty_nil, Bool.not_true, Bool.false_eq_true, if_false] at h
      obtain ⟨⟨l, hl, hi⟩, hb⟩ := find_first_body xs l1 h h0
      refine ⟨⟨l, ?_, hi⟩, ?_⟩
      · simp only [List.map_cons, bodyLine_nil, List.find?_cons, Line.isBlank, List.isEmpty_nil, Bool.not_true,
          Bool.false_eq_true, if_false]
        exact hl
      · simp only [List.map_cons, bodyLine_nil, List.takeWhile_cons, Line.isBlank, List.isEmpty_nil, if_true,
          List.any_cons, Bool.or_eq_false_iff]
        exact ⟨by decide, hb⟩
    | cons c cs =>
      simp only [List.find?_cons, List.isEmpty_cons, Bool.not_false, if_true, Option.some.injEq] at h
      subst h
      have hc : c ≠ ' ' := by
        intro e; subst e
        simp [List.takeWhile_cons] at h0
      refine ⟨⟨⟨2, c :: cs⟩, ?_, rfl⟩, ?_⟩
      · simp [List.map_cons, bodyLine_nonspace cs hc, List.find?_cons, Line.isBlank]
      · simp [List.map_cons, bodyLine_nonspace cs hc, List.takeWhile_cons, Line.isBlank]

theorem find?_append_left {α : Type} (p : α → Bool) (a b : List α) (x : α) (h : a.find? p = some x) :
    (a ++ b).find? p = some x := by
  rw [List.find?_append, h]; rfl

theorem splitNl_getLast_ne (t : List Char) (hne : t ≠ []) (hl : t.getLast? ≠ some '\n') :
    ∃ init l, splitNl t = init ++ [l] ∧ l ≠ [] := by
  induction t with
  | nil => exact absurd rfl hne
  | cons a as ih =>
    rw [splitNl_cons]
    cases has : as with
    | nil =>
      subst has
      have ha : a ≠ '\n' := by intro e; subst e; simp at hl
      have : (a == '\n') = false := by simp [ha]
      simp only [splitNl, this, Bool.false_eq_true, if_false]
      exact ⟨[], [a], rfl, by simp⟩
    | cons b bs =>
      have hl' : (b :: bs).getLast? ≠ some '\n' := by
        rw [has] at hl
        simpa [List.getLast?_cons_cons] using hl
      obtain ⟨init, l, he, hl2⟩ := ih (has ▸ by simp) (has ▸ hl')
      rw [has] at he
      rw [he]
      cases init with
      | nil =>
        simp only [List.nil_append]
        by_cases ha : a = '\n'
        · simp only [ha, beq_self_eq_true, if_true]; exact ⟨[[]], l, rfl, hl2⟩
        · have : (a == '\n') = false := by simp [ha]
          simp only [this, Bool.false_eq_true, if_false]; exact ⟨[], a :: l, rfl, by simp⟩
      | cons p ps =>
        simp only [List.cons_append]
        by_cases ha : a = '\n'
        · simp only [ha, beq_self_eq_true, if_true]; exact ⟨[] :: p :: ps, l, rfl, hl2⟩
        · have : (a == '\n') = false := by simp [ha]
          simp only [this, Bool.false_eq_true, if_false]; exact ⟨(a :: p) :: ps, l, rfl, hl2⟩

theorem stripTrailingEmpty_append (init : List (List Char)) (l : List Char) (hl : l ≠ []) (n : Nat) :
    stripTrailingEmpty (init ++ [l] ++ List.replicate n []) = (init ++ [l], n) := by
  have hle : l.isEmpty = false := by cases l <;> simp_all
  have hdw : List.dropWhile (fun (x : List Char) => x.isEmpty) (List.replicate n ([] : List Char) ++ l :: init.reverse) = l :: init.reverse := by
    induction n with
    | zero => simp [hle]
    | succ k ih => simp [List.replicate_succ, ih]
  simp only [stripTrailingEmpty, List.reverse_append, List.reverse_replicate, List.reverse_cons, List.reverse_nil,
    List.nil_append, List.singleton_append, hdw, List.reverse_reverse, List.length_append, List.length_replicate,
    List.length_cons, List.length_nil, List.length_reverse]
  simp

def chompOf : Nat → Chomp
  | 0 => .strip
  | 1 => .clip
  | _ => .keep

theorem blockHeader_chomp : ∀ t, blockHeader (chompChars t) = some (none, chompOf t)
  | 0 => rfl
  | 1 => rfl
  | _ + 2 => rfl

/-- the reader on the body of the literal block -/
theorem readBlockScalar_lit (s : List Char) (hs : LitOk s) :
    readBlockScalar false (chompChars (s.length - (trimEndNl s).length)) 0 ((litLines s).map bodyLine) = some (s, []) := by
  obtain ⟨hsplit, hlast⟩ := trimEndNl_split s
  obtain ⟨init, l, hinit, hl⟩ := splitNl_getLast_ne (trimEndNl s) hs.content hlast
  -- the first non-empty content line
  have hex : ∃ l1, (splitNl (trimEndNl s)).find? (fun l => !l.isEmpty) = some l1 := by
    have : ((splitNl (trimEndNl s)).find? (fun l => !l.isEmpty)).isSome = true := by
      rw [List.find?_isSome]
      refine ⟨l, by rw [hinit]; simp, ?_⟩
      cases l with
      | nil => exact absurd rfl hl
      | cons _ _ => rfl
    exact Option.isSome_iff_exists.mp this
  obtain ⟨l1, hl1⟩ := hex
  have h0 : (l1.takeWhile (· == ' ')).length = 0 := by
    have := hs.noIndicator
    simpa [firstLineLeadingSpaces, hl1] using this
  obtain ⟨⟨fl, hfl, hfi⟩, hlead⟩ := find_first_body (litLines s) l1 (find?_append_left _ _ _ _ hl1) h0
  have hbl := blockLines_body (litLines s)
  have hstrip : stripTrailingEmpty (litLines s) = (splitNl (trimEndNl s), s.length - (trimEndNl s).length - 1) := by
    unfold litLines; rw [hinit]; exact stripTrailingEmpty_append init l hl _
  have hkept : (splitNl (trimEndNl s)).isEmpty = false := by rw [hinit]; simp
  generalize ht : s.length - (trimEndNl s).length = t at *
  unfold readBlockScalar
  simp only [blockHeader_chomp, hfl, hfi, ge_iff_le, Nat.zero_le, if_true, Option.isNone_none, Bool.true_and, hlead,
    Bool.false_eq_true, if_false, hbl, hstrip, joinNl_splitNl, hkept]
  match t with
  | 0 =>
    simp only [List.replicate_zero, List.append_nil] at hsplit
    simp [chompOf, ← hsplit]
  | 1 =>
    simp only [List.replicate_one] at hsplit
    simp [chompOf, ← hsplit]
  | t + 2 =>
    simp only [chompOf, Nat.add_sub_cancel]
    rw [show t + 2 - 1 + 1 = t + 2 by omega, ← hsplit]

/-! ### the document -/

theorem litLines_no_nl (s : List Char) : ∀ l ∈ litLines s, ∀ c ∈ l, c ≠ '\n' := by
  intro l hl c hc
  simp only [litLines, List.mem_append, List.mem_replicate] at hl
  rcases hl with h | ⟨_, rfl⟩
  · exact splitNl_no_nl _ l h c hc
  · simp at hc

theorem splitNl_litBody : ∀ (lines : List (List Char)), (∀ l ∈ lines, ∀ c ∈ l, c ≠ '\n') →
    splitNl (litBody lines) = lines.map (fun x => ' ' :: ' ' :: x) ++ [[]]
  | [], _ => rfl
  | x :: xs, h => by
    have ih := splitNl_litBody xs (fun l hl => h l (by simp [hl]))
    have hx : ∀ c ∈ (' ' :: ' ' :: x), c ≠ '\n' := by
      intro c hc
      simp only [List.mem_cons] at hc
      rcases hc with rfl | rfl | hc
      · decide
      · decide
      · exact h x (by simp) c hc
    have e : litBody (x :: xs) = (' ' :: ' ' :: x) ++ '\n' :: litBody xs := by simp [litBody]
    rw [e, splitNl_line _ _ hx, ih]
    simp

theorem chompChars_mem (t : Nat) : ∀ c ∈ chompChars t, c = '-' ∨ c = '+' := by
  match t with
  | 0 => simp [chompChars]
  | 1 => simp [chompChars]
  | t + 2 => simp [chompChars]

theorem mem_splitNl_mem : ∀ (t : List Char), ∀ l ∈ splitNl t, ∀ x ∈ l, x ∈ t
  | [], l, hl, x, hx => by simp [splitNl] at hl; subst hl; simp at hx
  | a :: as, l, hl, x, hx => by
    have ih := mem_splitNl_mem as
    rw [splitNl_cons] at hl
    cases h : splitNl as with
    | nil => exact absurd h (splitNl_ne_nil as)
    | cons p ps =>
      rw [h] at hl ih
      by_cases ha : a = '\n'
      · simp only [ha, beq_self_eq_true, if_true, List.mem_cons] at hl
        rcases hl with rfl | rfl | hl
        · simp at hx
        · exact List.mem_cons_of_mem _ (ih _ (by simp) x hx)
        · exact List.mem_cons_of_mem _ (ih _ (by simp [hl]) x hx)
      · have : (a == '\n') = false := by simp [ha]
        simp only [this, Bool.false_eq_true, if_false, List.mem_cons] at hl
        rcases hl with rfl | hl
        · simp only [List.mem_cons] at hx
          rcases hx with rfl | hx
          · simp
          · exact List.mem_cons_of_mem _ (ih _ (by simp) x hx)
        · exact List.mem_cons_of_mem _ (ih _ (by simp [hl]) x hx)

theorem litBody_chars (s : List Char) (hs : LitOk s) : ∀ c ∈ litBody (litLines s), c ≠ '\r' ∧ c ≠ Char.ofNat 0 := by
  intro c hc
  simp only [litBody, List.mem_flatMap] at hc
  obtain ⟨l, hl, hc⟩ := hc
  simp only [List.mem_cons, List.mem_append, List.not_mem_nil, or_false] at hc
  rcases hc with (rfl | rfl | hc) | rfl
  · exact ⟨by decide, by decide⟩
  · exact ⟨by decide, by decide⟩
  · simp only [litLines, List.mem_append, List.mem_replicate] at hl
    rcases hl with hl | ⟨_, rfl⟩
    · have hmem : c ∈ trimEndNl s := mem_splitNl_mem _ l hl c hc
      have : c ∈ s := by rw [(trimEndNl_split s).1]; exact List.mem_append_left _ hmem
      exact hs.noCr c this
    · simp at hc
  · exact ⟨by decide, by decide⟩

theorem litText_chars (s : List Char) (hs : LitOk s) : ∀ c ∈ litText s, c ≠ '\r' ∧ c ≠ Char.ofNat 0 := by
  intro c hc
  have e : litText s = ('|' :: chompChars (s.length - (trimEndNl s).length)) ++ '\n' :: litBody (litLines s) := by
    simp [litText]
  rw [e] at hc
  rcases List.mem_append.mp hc with h | h
  · simp only [List.mem_cons] at h
    rcases h with rfl | h
    · exact ⟨by decide, by decide⟩
    · rcases chompChars_mem _ c h with rfl | rfl <;> exact ⟨by decide, by decide⟩
  · simp only [List.mem_cons] at h
    rcases h with rfl | h
    · exact ⟨by decide, by decide⟩
    · exact litBody_chars s hs c h

theorem toLines_litText (s : List Char) (hs : LitOk s) :
    toLines (litText s) = ⟨0, '|' :: chompChars (s.length - (trimEndNl s).length)⟩ :: (litLines s).map bodyLine := by
  have hcr : ∀ x ∈ litText s, x ≠ '\r' := fun x hx => (litText_chars s hs x hx).1
  have hhdr : ∀ c ∈ ('|' :: chompChars (s.length - (trimEndNl s).length)), c ≠ '\n' := by
    intro c hc
    simp only [List.mem_cons] at hc
    rcases hc with rfl | hc
    · decide
    · rcases chompChars_mem _ c hc with rfl | rfl <;> decide
  have hsplit : splitNl (litText s) =
      (('|' :: chompChars (s.length - (trimEndNl s).length)) :: List.map (fun x => ' ' :: ' ' :: x) (litLines s)) ++ [[]] := by
    have e : litText s = ('|' :: chompChars (s.length - (trimEndNl s).length)) ++ '\n' :: litBody (litLines s) := by
      simp [litText]
    rw [e, splitNl_line _ _ hhdr, splitNl_litBody _ (litLines_no_nl s)]
    simp
  unfold toLines
  rw [normBreaks_id _ hcr, hsplit]
  simp only [List.getLast?_append, List.getLast?_singleton, Option.some_or, beq_self_eq_true, if_true, List.dropLast_concat]
  simp [mkLine, bodyLine, List.map_map, Function.comp_def]

theorem bodyLine_not_marker (x : List Char) (m : List Char) : isDocMarker (bodyLine x) m = false := by
  have := bodyLine_indent_ge x
  have h : ((bodyLine x).indent == 0) = false := by simp; omega
  simp [isDocMarker, h]

/-- the reference reader gets the string back from the literal block -/
theorem read_litText (s : List Char) (hs : LitOk s) : readDoc (litText s) = some (.str s) := by
  have hnul : (litText s).takeWhile (· != Char.ofNat 0) = litText s := by
    apply takeWhile_all
    intro x hx
    have := (litText_chars s hs x hx).2
    simpa using this
  have hhdrLine : (⟨0, '|' :: chompChars (s.length - (trimEndNl s).length)⟩ : Line).isSkippable = false :=
    notSkippable_of_head (by decide)
  have hm1 : ∀ x ∈ (⟨0, '|' :: chompChars (s.length - (trimEndNl s).length)⟩ : Line) :: (litLines s).map bodyLine,
      (!isDocMarker x "...".toList) = true := by
    intro x hx
    simp only [List.mem_cons, List.mem_map] at hx
    rcases hx with rfl | ⟨y, _, rfl⟩
    · simp [isDocMarker]
    · rw [bodyLine_not_marker]; rfl
  have hany : ((⟨0, '|' :: chompChars (s.length - (trimEndNl s).length)⟩ : Line) :: (litLines s).map bodyLine).any
      (fun l => isDocMarker l "---".toList) = false := by
    rw [List.any_eq_false]
    intro x hx
    simp only [List.mem_cons, List.mem_map] at hx
    rcases hx with rfl | ⟨y, _, rfl⟩
    · simp [isDocMarker]
    · rw [bodyLine_not_marker]; simp
  have hm2 : ∀ x ∈ (⟨0, '|' :: chompChars (s.length - (trimEndNl s).length)⟩ : Line) :: (litLines s).map bodyLine,
      isDocMarker x "---".toList = false := by
    intro x hx
    simp only [List.mem_cons, List.mem_map] at hx
    rcases hx with rfl | ⟨y, _, rfl⟩
    · simp [isDocMarker]
    · exact bodyLine_not_marker _ _
  refine readDoc_core (litText s) _ _ _ hnul (toLines_litText s hs) hhdrLine (by simp) hm1 hm2 ?_
  -- the root node is the block scalar
  rw [show 2 * (litText s).length + 2 * ((⟨0, '|' :: chompChars (s.length - (trimEndNl s).length)⟩ : Line) ::
      (litLines s).map bodyLine).length + 8 = (2 * (litText s).length + 2 * ((⟨0, '|' :: chompChars (s.length - (trimEndNl s).length)⟩ : Line) ::
      (litLines s).map bodyLine).length + 7) + 1 from rfl, blockNode, skipBlank_cons _ hhdrLine]
  simp [classify, skipTag, readBlockScalar_lit s hs]

end SaphyrVerif.Emit
