import SaphyrVerif.Lemmas.E2EBudgetObs
/-!
End-to-end composition with the budget enforcer, part 12: the observations of one `next_impl` call, described
extensionally — the items it consumes (markers, document boundaries and exhausted aliases it passes over, then the
node / end item it delivers, or the alias whose first replayed event it delivers) and what the enforcer is shown
for them.
-/
namespace SaphyrVerif.Lemmas.E2EBudget
open SaphyrVerif SaphyrVerif.Scalars SaphyrVerif.Pump SaphyrVerif.Budget SaphyrVerif.De
set_option linter.unusedSimpArgs false
set_option linter.unusedVariables false

/-- the observation of a parser item (scan errors are not shown to the enforcer) -/
def itemObs : RawItem → List Obs
  | .ev r _ => [obsItem r]
  | .err _ _ => []

def itemsObs : List RawItem → List Obs
  | [] => []
  | it :: rest => itemObs it ++ itemsObs rest

theorem itemsObs_append (a b : List RawItem) : itemsObs (a ++ b) = itemsObs a ++ itemsObs b := by
  induction a with
  | nil => rfl
  | cons x xs ih => simp [itemsObs, ih, List.append_assoc]

/-- the event a raw node / end item is delivered as -/
def evOf : Raw → Loc → Option Ev
  | .scalar v st a tag, l => some (.scalar v (tagCode tag) tag st a l)
  | .seqStart a tag, l => some (.seqStart a (tagCode tag) tag l)
  | .seqEnd, l => some (.seqEnd l)
  | .mapStart a _, l => some (.mapStart a l)
  | .mapEnd, l => some (.mapEnd l)
  | _, _ => none

/-- items the parser loop passes over without delivering anything: markers, document boundaries, and aliases
(an alias whose buffer is exhausted at once) -/
def skippable : RawItem → Bool
  | .ev (.docStart _) _ | .ev .docEnd _ | .ev .streamStart _ | .ev .streamEnd _ | .ev .nothing _ | .ev (.alias _) _ => true
  | _ => false

/-- shape of one `parserLoop` call that does not end in an error: the items consumed, what was shown to the
enforcer, and how the delivered event (if any) arose (`rest` = what is left of the input) -/
inductive LoopShape (rest : List RawItem) : Step → List RawItem → List Obs → Prop
  | raw (skipped : List RawItem) (r : Raw) (l : Loc) (e : Ev) : skipped.all skippable = true → evOf r l = some e →
      LoopShape rest (.event e) (skipped ++ [.ev r l]) (itemsObs skipped ++ [.raw r])
  | replay (skipped : List RawItem) (id : Nat) (l : Loc) (e : Ev) : skipped.all skippable = true →
      LoopShape rest (.event e) (skipped ++ [.ev (.alias id) l])
        (itemsObs skipped ++ [.aliasReplayed, .raw (replayRaw e)])
  | null (skipped : List RawItem) (e : Ev) : rest = [] → LoopShape rest (.event e) skipped (itemsObs skipped)
  | eof (skipped : List RawItem) : skipped.all skippable = true → LoopShape rest .eof skipped (itemsObs skipped)
  | error (er : PErr) (c : List RawItem) (o : List Obs) : LoopShape rest (.error er) c o

theorem LoopShape.cons {rest : List RawItem} {s : Step} {c : List RawItem} {o : List Obs} (it : RawItem)
    (hit : skippable it = true) (h : LoopShape rest s c o) :
    LoopShape rest s (it :: c) (itemObs it ++ o) := by
  cases h with
  | raw skipped r l e hsk he =>
    have := LoopShape.raw (rest := rest) (it :: skipped) r l e (by simp [hit, hsk]) he
    simpa [itemsObs, List.append_assoc] using this
  | replay skipped id l e hsk =>
    have := LoopShape.replay (rest := rest) (it :: skipped) id l e (by simp [hit, hsk])
    simpa [itemsObs, List.append_assoc] using this
  | null _ e hr => exact LoopShape.null (it :: c) e hr
  | eof _ hsk => exact LoopShape.eof (it :: c) (by simp [hit, hsk])
  | error er c o => exact LoopShape.error er _ _

theorem obsServe_some_event (q : Pump) (fs : List InjectFrame) {e : Ev} {q' : Pump}
    (h : serveInject q fs = (some (.event e), q')) : obsServe q fs = [.raw (replayRaw e)] := by
  induction fs with
  | nil => simp [serveInject] at h
  | cons fr rest ih =>
    simp only [serveInject, obsServe] at h ⊢
    split at h
    · cases h
    · rename_i x buf hla; simp only [hla]
      split at h
      · rename_i hc; simp only [hc, ↓reduceIte]; exact ih h
      · rename_i hc; simp only [hc, ↓reduceIte]
        split at h
        · rename_i hg; simp only [hg]; exact ih h
        · rename_i ev hg; simp only [hg]
          split at h
          · cases h
          · rename_i hc2; simp only [hc2, ↓reduceIte]
            split at h
            · cases h; rfl
            · split at h
              · cases h
              · cases h; rfl

theorem parserLoop_shape (q : Pump) (inp : List RawItem) (hq : q.budget = none) (hrip : q.recursiveInProgress = [])
    (hsd : q.stopAtDocEnd = false) {s : Step} {q' : Pump} {rest : List RawItem}
    (h : parserLoop q inp = (s, q', rest)) :
    ∃ consumed, inp = consumed ++ rest ∧ LoopShape rest s consumed (obsLoop q inp) := by
  fun_induction parserLoop q inp generalizing s q' rest
  all_goals try (cases h; exact ⟨[_], rfl, LoopShape.error _ _ _⟩)
  case case1 p hpa ev =>
    cases h
    exact ⟨[], rfl, LoopShape.null [] _ rfl⟩
  case case2 =>
    cases h
    exact ⟨[], rfl, LoopShape.eof [] rfl⟩
  case case6 p loc rest' bud p1 val style anchor tag hf ev p2 p3 ob hob =>
    cases h
    exact ⟨[_], rfl, by simpa [obsLoop, itemsObs, obsItem] using LoopShape.raw (rest := rest') [] (.scalar val style anchor tag) loc _ rfl rfl⟩
  case case7 p loc rest' bud p1 anchor tag ev fs2 fs1 fs ob hob =>
    cases h
    exact ⟨[_], rfl, by simpa [obsLoop, itemsObs, obsItem] using LoopShape.raw (rest := rest') [] (.seqStart anchor tag) loc _ rfl rfl⟩
  case case9 p loc rest' bud p1 ev fs1 as fs hd ob hob =>
    cases h
    exact ⟨[_], rfl, by simpa [obsLoop, itemsObs, obsItem] using LoopShape.raw (rest := rest') [] .seqEnd loc _ rfl rfl⟩
  case case10 p loc rest' bud p1 anchor tag ev fs2 fs1 fs ob hob =>
    cases h
    exact ⟨[_], rfl, by simpa [obsLoop, itemsObs, obsItem] using LoopShape.raw (rest := rest') [] (.mapStart anchor tag) loc _ rfl rfl⟩
  case case12 p loc rest' bud p1 ev fs1 as fs hd ob hob =>
    cases h
    exact ⟨[_], rfl, by simpa [obsLoop, itemsObs, obsItem] using LoopShape.raw (rest := rest') [] .mapEnd loc _ rfl rfl⟩
  case case15 p loc rest' bud p1 id count p2 hc nd hd hany hrec ev ob hob =>
    exfalso
    have : p.recursiveInProgress.contains id = true := hrec
    rw [hrip] at this
    simp at this
  case case18 p loc rest' bud p1 id count p2 hc nd hd hany buf hbuf p3 step q hs ob hob =>
    cases h
    have hc' : ¬ p.limits.maxAliasExpansionsPerAnchor < min (lookupCount p.perAnchor id + 1) USIZE_MAX := hc
    have hd' : ¬ p.limits.maxReplayStackDepth < p.inject.length + 1 := hd
    have hany' : ¬ (p.recStack.any fun f => f.id == id) = true := hany
    have hbuf' : lookupAnchor p.anchors id = some buf := hbuf
    have hbud : bud = none := by simp +zetaDelta [hq] at hob; exact hob.symm
    subst hbud
    refine ⟨[_], rfl, ?_⟩
    cases step with
    | error er => exact LoopShape.error _ _ _
    | eof => exact (C08.serveInject_cases _ _ hs).elim
    | event e =>
      have ho := obsServe_some_event _ _ hs
      have hs' := hs
      simp +zetaDelta only [] at ho hs'
      have := LoopShape.replay (rest := rest') [] id loc e rfl
      simp only [itemsObs, List.nil_append] at this
      simp +zetaDelta only [obsLoop, obsItem, hc', hd', hany', hbuf', gt_iff_lt, ↓reduceIte, Bool.false_eq_true, hq,
        ho, hs', List.append_nil]
      exact this
  case case19 p loc rest' bud p1 id count p2 hc nd hd hany buf hbuf p3 q hs ob hob ih =>
    have hbud : bud = none := by simp +zetaDelta [hq] at hob; exact hob.symm
    subst hbud
    have hc' : ¬ p.limits.maxAliasExpansionsPerAnchor < min (lookupCount p.perAnchor id + 1) USIZE_MAX := hc
    have hd' : ¬ p.limits.maxReplayStackDepth < p.inject.length + 1 := hd
    have hany' : ¬ (p.recStack.any fun f => f.id == id) = true := hany
    have hbuf' : lookupAnchor p.anchors id = some buf := hbuf
    have hq3 : q = { p3 with inject := [] } := C08.serveInject_cases _ _ hs
    have hon := obsServe_none p3 p3.inject hs
    have hs' := hs
    simp +zetaDelta only [] at hon hs'
    obtain ⟨c, hcc, hsh⟩ := ih (by rw [hq3]) (by rw [hq3]; exact hrip) (by rw [hq3]; exact hsd) h
    refine ⟨_ :: c, by rw [hcc]; rfl, ?_⟩
    have := LoopShape.cons (.ev (.alias id) loc) rfl hsh
    simp +zetaDelta only [obsLoop, obsItem, hc', hd', hany', hbuf', gt_iff_lt, ↓reduceIte, Bool.false_eq_true, hq,
      hon, hs', List.nil_append]
    simpa [itemObs, obsItem] using this
  case case20 p loc rest' bud p1 x ob hob ih =>
    have hbud : bud = none := by simp +zetaDelta [hq] at hob; exact hob.symm
    subst hbud
    obtain ⟨c, hc, hsh⟩ := ih (by simp +zetaDelta [Pump.resetDocumentState, hq])
      (by simpa +zetaDelta [Pump.resetDocumentState] using hrip)
      (by simpa +zetaDelta [Pump.resetDocumentState] using hsd) h
    refine ⟨_ :: c, by rw [hc]; rfl, ?_⟩
    have := LoopShape.cons (.ev (.docStart x) loc) rfl hsh
    simpa +zetaDelta [obsLoop, itemObs, obsItem, Pump.resetDocumentState, hq, hsd] using this
  case case21 =>
    exfalso
    simp_all +zetaDelta [Pump.resetDocumentState]
  case case22 =>
    exfalso
    simp_all +zetaDelta [Pump.resetDocumentState]
  case case23 =>
    exfalso
    simp_all +zetaDelta [Pump.resetDocumentState]
  case case24 p loc rest' bud p1 p2 hstop ob hob ih =>
    have hbud : bud = none := by simp +zetaDelta [hq] at hob; exact hob.symm
    subst hbud
    obtain ⟨c, hc, hsh⟩ := ih (by simp +zetaDelta [Pump.resetDocumentState, hq])
      (by simpa +zetaDelta [Pump.resetDocumentState] using hrip)
      (by simpa +zetaDelta [Pump.resetDocumentState] using hsd) h
    refine ⟨_ :: c, by rw [hc]; rfl, ?_⟩
    have := LoopShape.cons (.ev .docEnd loc) rfl hsh
    simpa +zetaDelta [obsLoop, itemObs, obsItem, Pump.resetDocumentState, hq, hsd] using this
  case case25 p loc rest' bud p1  ob hob ih =>
    have hbud : bud = none := by simp +zetaDelta [hq] at hob; exact hob.symm
    subst hbud
    obtain ⟨c, hc, hsh⟩ := ih (by simp +zetaDelta [Pump.resetDocumentState, hq])
      (by simpa +zetaDelta [Pump.resetDocumentState] using hrip)
      (by simpa +zetaDelta [Pump.resetDocumentState] using hsd) h
    refine ⟨_ :: c, by rw [hc]; rfl, ?_⟩
    have := LoopShape.cons (.ev .streamStart loc) rfl hsh
    simpa +zetaDelta [obsLoop, itemObs, obsItem, Pump.resetDocumentState, hq, hsd] using this
  case case26 p loc rest' bud p1  ob hob ih =>
    have hbud : bud = none := by simp +zetaDelta [hq] at hob; exact hob.symm
    subst hbud
    obtain ⟨c, hc, hsh⟩ := ih (by simp +zetaDelta [Pump.resetDocumentState, hq])
      (by simpa +zetaDelta [Pump.resetDocumentState] using hrip)
      (by simpa +zetaDelta [Pump.resetDocumentState] using hsd) h
    refine ⟨_ :: c, by rw [hc]; rfl, ?_⟩
    have := LoopShape.cons (.ev .streamEnd loc) rfl hsh
    simpa +zetaDelta [obsLoop, itemObs, obsItem, Pump.resetDocumentState, hq, hsd] using this
  case case27 p loc rest' bud p1  ob hob ih =>
    have hbud : bud = none := by simp +zetaDelta [hq] at hob; exact hob.symm
    subst hbud
    obtain ⟨c, hc, hsh⟩ := ih (by simp +zetaDelta [Pump.resetDocumentState, hq])
      (by simpa +zetaDelta [Pump.resetDocumentState] using hrip)
      (by simpa +zetaDelta [Pump.resetDocumentState] using hsd) h
    refine ⟨_ :: c, by rw [hc]; rfl, ?_⟩
    have := LoopShape.cons (.ev .nothing loc) rfl hsh
    have hpe : ({ p with budget := (none : Option Enf) } : Pump) = p := by cases p; simp_all
    simpa +zetaDelta [obsLoop, itemObs, obsItem, Pump.resetDocumentState, hq, hsd, hpe] using this


/-- shape of one `next_impl` call: the parser loop ran (no replay frame was live), or a live replay frame served
the next event of its buffer without touching the input -/
inductive CallShape (rest : List RawItem) : Step → List RawItem → List Obs → Prop
  | loop {s : Step} {c : List RawItem} {o : List Obs} : LoopShape rest s c o → CallShape rest s c o
  | replay0 (e : Ev) : CallShape rest (.event e) [] [.raw (replayRaw e)]

theorem nextImpl_shape (q : Pump) (inp : List RawItem) (hq : q.budget = none) (hrip : q.recursiveInProgress = [])
    (hsd : q.stopAtDocEnd = false) {s : Step} {q' : Pump} {rest : List RawItem}
    (h : nextImpl q inp = (s, q', rest)) :
    ∃ consumed, inp = consumed ++ rest ∧ CallShape rest s consumed (obsCall q inp) := by
  unfold nextImpl at h
  unfold obsCall
  rcases hs : serveInject q q.inject with ⟨_ | step, q1⟩
  · rw [hs] at h
    simp only at h
    have hq3 : q1 = { q with inject := [] } := C08.serveInject_cases _ _ hs
    have hon := obsServe_none q q.inject hs
    obtain ⟨c, hc, hsh⟩ := parserLoop_shape q1 inp (by rw [hq3]; exact hq) (by rw [hq3]; exact hrip)
      (by rw [hq3]; exact hsd) h
    refine ⟨c, hc, ?_⟩
    simp only [hon, List.nil_append]
    exact CallShape.loop hsh
  · rw [hs] at h
    simp only [Prod.mk.injEq] at h
    obtain ⟨rfl, rfl, rfl⟩ := h
    refine ⟨[], rfl, ?_⟩
    simp only [List.append_nil]
    cases step with
    | error er => exact CallShape.loop (LoopShape.error _ _ _)
    | eof => exact (C08.serveInject_cases _ _ hs).elim
    | event e =>
      rw [obsServe_some_event _ _ hs]
      exact CallShape.replay0 e

end SaphyrVerif.Lemmas.E2EBudget
