import SaphyrVerif.Lemmas.C05_Cursor
/-!
Helper lemmas for C05, part 2: specification-side facts — sub-entries of a mapping (depth, key shape),
the effective entries as a stream (`nextStep` / `remaining`), `interpAny` and its fuel, field / variant lookup.
-/
namespace SaphyrVerif.Lemmas.C05
open SaphyrVerif SaphyrVerif.Scalars SaphyrVerif.Pump SaphyrVerif.De SaphyrVerif.Spec

/-! ### copies of the predicates of Props/C05 (shown equal there) -/

mutual
def tfree : Ty → Bool
  | .tuple _ => false
  | .option t | .seq t | .newtype t => tfree t
  | .map k v => tfree k && tfree v
  | .struct fs _ => tfreeF fs
  | .enum _ vs => tfreeV vs
  | _ => true
def tfreeF : List (String × Ty) → Bool
  | [] => true
  | (_, t) :: r => tfree t && tfreeF r
def tfreeV : List (String × VTy) → Bool
  | [] => true
  | (_, .unit) :: r => tfreeV r
  | (_, .newtype t) :: r => tfree t && tfreeV r
  | (_, .tuple _) :: _ => false
  | (_, .struct fs) :: r => tfreeF fs && tfreeV r
end

/-- the key is not a one-entry mapping whose own key is a null-like scalar -/
def keyShapeOK (k : ENode) : Bool :=
  match k with
  | .map _ _ _ [(.scalar sv stag _ _ _ _, _)] => !fpNullish sv stag
  | _ => true

mutual
def kfree : ENode → Bool
  | .scalar .. => true
  | .seq _ _ _ _ _ items => kfreeL items
  | .map _ _ _ entries => kfreeE entries
def kfreeL : List ENode → Bool
  | [] => true
  | n :: ns => kfree n && kfreeL ns
def kfreeE : List (ENode × ENode) → Bool
  | [] => true
  | (k, v) :: es => keyShapeOK k && kfree k && kfree v && kfreeE es
end

@[simp] theorem kfreeL_nil : kfreeL [] = true := by rw [kfreeL]
@[simp] theorem kfreeL_cons (n : ENode) (ns : List ENode) : kfreeL (n :: ns) = (kfree n && kfreeL ns) := by rw [kfreeL]
@[simp] theorem kfreeE_nil : kfreeE [] = true := by rw [kfreeE]
@[simp] theorem kfreeE_cons (k v : ENode) (es : List (ENode × ENode)) :
    kfreeE ((k, v) :: es) = (keyShapeOK k && kfree k && kfree v && kfreeE es) := by rw [kfreeE]
@[simp] theorem kfree_seq (a tag : Nat) (rt : Option (List Char)) (l el : Loc) (items : List ENode) :
    kfree (.seq a tag rt l el items) = kfreeL items := by rw [kfree]
@[simp] theorem kfree_map (a : Nat) (l el : Loc) (es : List (ENode × ENode)) : kfree (.map a l el es) = kfreeE es := by
  rw [kfree]

theorem kfreeL_mem {items : List ENode} (h : kfreeL items = true) {n : ENode} (hn : n ∈ items) : kfree n = true := by
  induction items with
  | nil => cases hn
  | cons x xs ih =>
    simp only [kfreeL_cons, Bool.and_eq_true] at h
    rcases List.mem_cons.mp hn with rfl | hm
    · exact h.1
    · exact ih h.2 hm

/-! ### depth -/

@[simp] theorem depthOfL_nil : depthOfL [] = 0 := by rw [depthOfL]
@[simp] theorem depthOfL_cons (n : ENode) (ns : List ENode) : depthOfL (n :: ns) = max (depthOf n) (depthOfL ns) := by
  rw [depthOfL]
@[simp] theorem depthOfE_nil : depthOfE [] = 0 := by rw [depthOfE]
@[simp] theorem depthOfE_cons (k v : ENode) (es : List (ENode × ENode)) :
    depthOfE ((k, v) :: es) = max (max (depthOf k) (depthOf v)) (depthOfE es) := by rw [depthOfE]
@[simp] theorem depthOf_scalar (v : List Char) (tag : Nat) (rt : Option (List Char)) (st : Style) (a : Nat) (l : Loc) :
    depthOf (.scalar v tag rt st a l) = 1 := by rw [depthOf]
@[simp] theorem depthOf_seq (a tag : Nat) (rt : Option (List Char)) (l el : Loc) (items : List ENode) :
    depthOf (.seq a tag rt l el items) = depthOfL items + 1 := by rw [depthOf]
@[simp] theorem depthOf_map (a : Nat) (l el : Loc) (es : List (ENode × ENode)) :
    depthOf (.map a l el es) = depthOfE es + 1 := by rw [depthOf]

theorem depthOf_pos (t : ENode) : 0 < depthOf t := by cases t <;> simp

theorem depthOfL_mem {items : List ENode} {n : ENode} (hn : n ∈ items) : depthOf n ≤ depthOfL items := by
  induction items with
  | nil => cases hn
  | cons x xs ih =>
    rcases List.mem_cons.mp hn with rfl | hm
    · simp; omega
    · have := ih hm; simp; omega

theorem depthOfE_mem {es : List (ENode × ENode)} {e : ENode × ENode} (he : e ∈ es) :
    depthOf e.1 ≤ depthOfE es ∧ depthOf e.2 ≤ depthOfE es := by
  induction es with
  | nil => cases he
  | cons x xs ih =>
    obtain ⟨k, v⟩ := x
    rcases List.mem_cons.mp he with rfl | hm
    · simp; omega
    · have := ih hm; simp; omega

/-! ### admissible entries below a depth bound -/

/-- an entry whose nodes are below depth `d`, free of the excluded key shape -/
def EntOK (d : Nat) (e : ENode × ENode) : Prop :=
  depthOf e.1 < d ∧ depthOf e.2 < d ∧ kfree e.1 = true ∧ kfree e.2 = true ∧ keyShapeOK e.1 = true

def AllOK (d : Nat) (es : List (ENode × ENode)) : Prop := ∀ e ∈ es, EntOK d e

theorem AllOK.nil (d : Nat) : AllOK d [] := fun _ h => by cases h

theorem AllOK.mono {d d' : Nat} {es : List (ENode × ENode)} (h : AllOK d es) (hd : d ≤ d') : AllOK d' es := by
  intro e he
  obtain ⟨h1, h2, h3⟩ := h e he
  exact ⟨by omega, by omega, h3⟩

theorem AllOK.append {d : Nat} {a b : List (ENode × ENode)} (ha : AllOK d a) (hb : AllOK d b) : AllOK d (a ++ b) := by
  intro e he
  rcases List.mem_append.mp he with h | h
  · exact ha e h
  · exact hb e h

theorem AllOK.cons {d : Nat} {e : ENode × ENode} {es : List (ENode × ENode)} (he : EntOK d e) (h : AllOK d es) :
    AllOK d (e :: es) := by
  intro x hx
  rcases List.mem_cons.mp hx with rfl | hm
  · exact he
  · exact h x hm

theorem AllOK.tail {d : Nat} {e : ENode × ENode} {es : List (ENode × ENode)} (h : AllOK d (e :: es)) : AllOK d es :=
  fun x hx => h x (List.mem_cons_of_mem _ hx)

theorem AllOK.head {d : Nat} {e : ENode × ENode} {es : List (ENode × ENode)} (h : AllOK d (e :: es)) : EntOK d e :=
  h e (List.mem_cons_self ..)

theorem allOK_of_kfreeE {es : List (ENode × ENode)} (h : kfreeE es = true) : AllOK (depthOfE es + 1) es := by
  induction es with
  | nil => exact AllOK.nil _
  | cons x xs ih =>
    obtain ⟨k, v⟩ := x
    simp only [kfreeE_cons, Bool.and_eq_true] at h
    obtain ⟨⟨⟨h1, h2⟩, h3⟩, h4⟩ := h
    refine AllOK.cons ⟨?_, ?_, h2, h3, h1⟩ ((ih h4).mono ?_) <;> simp <;> omega

@[simp] theorem sourceEntries_scalar (v : List Char) (tag : Nat) (rt : Option (List Char)) (st : Style) (a : Nat) (l : Loc) :
    sourceEntries (.scalar v tag rt st a l) = if mergeScalarIsNull v st tag then some [] else none := by rw [sourceEntries]; rfl
@[simp] theorem sourceEntries_map (a : Nat) (l el : Loc) (es : List (ENode × ENode)) :
    sourceEntries (.map a l el es) = mapSourceEntries es := by rw [sourceEntries]
@[simp] theorem sourceEntries_seq (a tag : Nat) (rt : Option (List Char)) (l el : Loc) (items : List ENode) :
    sourceEntries (.seq a tag rt l el items) = seqSourceEntries items := by rw [sourceEntries]
@[simp] theorem mapSourceEntries_nil : mapSourceEntries [] = some [] := by rw [mapSourceEntries]
theorem mapSourceEntries_cons (k v : ENode) (rest : List (ENode × ENode)) :
    mapSourceEntries ((k, v) :: rest) =
      if isMergeKeyNode k then
        match sourceEntries v, mapSourceEntries rest with
        | some b, some r => some (r ++ b)
        | _, _ => none
      else
        match mapSourceEntries rest with
        | some r => some ((k, v) :: r)
        | none => none := by rw [mapSourceEntries]; rfl
@[simp] theorem seqSourceEntries_nil : seqSourceEntries [] = some [] := by rw [seqSourceEntries]
theorem seqSourceEntries_cons (n : ENode) (ns : List ENode) :
    seqSourceEntries (n :: ns) =
      match sourceEntries n, seqSourceEntries ns with
      | some b, some r => some (r ++ b)
      | _, _ => none := by rw [seqSourceEntries]; rfl

mutual
theorem sourceEntries_ok : ∀ (n : ENode) (es : List (ENode × ENode)), kfree n = true → sourceEntries n = some es →
    AllOK (depthOf n) es
  | .scalar v tag rt st a l, es, _, h => by
    simp only [sourceEntries_scalar] at h
    split at h
    · cases h; exact AllOK.nil _
    · cases h
  | .map a l el entries, es, hk, h => by
    simp only [sourceEntries_map] at h
    simp only [kfree_map] at hk
    simpa using mapSourceEntries_ok entries es hk h
  | .seq a tag rt l el items, es, hk, h => by
    simp only [sourceEntries_seq] at h
    simp only [kfree_seq] at hk
    simpa using seqSourceEntries_ok items es hk h
theorem mapSourceEntries_ok : ∀ (entries es : List (ENode × ENode)), kfreeE entries = true →
    mapSourceEntries entries = some es → AllOK (depthOfE entries + 1) es
  | [], es, _, h => by
    simp at h; subst h; exact AllOK.nil _
  | (k, v) :: rest, es, hk, h => by
    simp only [kfreeE_cons, Bool.and_eq_true] at hk
    obtain ⟨⟨⟨h1, h2⟩, h3⟩, h4⟩ := hk
    rw [mapSourceEntries_cons] at h
    split at h
    · cases hb : sourceEntries v with
      | none => simp [hb] at h
      | some b =>
        cases hr : mapSourceEntries rest with
        | none => simp [hb, hr] at h
        | some r =>
          simp only [hb, hr, Option.some.injEq] at h
          subst h
          have i1 := sourceEntries_ok v b h3 hb
          have i2 := mapSourceEntries_ok rest r h4 hr
          exact AllOK.append (i2.mono (by simp; omega)) (i1.mono (by simp; omega))
    · cases hr : mapSourceEntries rest with
      | none => simp [hr] at h
      | some r =>
        simp only [hr, Option.some.injEq] at h
        subst h
        have i2 := mapSourceEntries_ok rest r h4 hr
        refine AllOK.cons ⟨?_, ?_, h2, h3, h1⟩ (i2.mono ?_) <;> simp <;> omega
theorem seqSourceEntries_ok : ∀ (items : List ENode) (es : List (ENode × ENode)), kfreeL items = true →
    seqSourceEntries items = some es → AllOK (depthOfL items + 1) es
  | [], es, _, h => by
    simp at h; subst h; exact AllOK.nil _
  | n :: ns, es, hk, h => by
    simp only [kfreeL_cons, Bool.and_eq_true] at hk
    rw [seqSourceEntries_cons] at h
    cases hb : sourceEntries n with
    | none => simp [hb] at h
    | some b =>
      cases hr : seqSourceEntries ns with
      | none => simp [hb, hr] at h
      | some r =>
        simp only [hb, hr, Option.some.injEq] at h
        subst h
        have i1 := sourceEntries_ok n b hk.1 hb
        have i2 := seqSourceEntries_ok ns r hk.2 hr
        exact AllOK.append (i2.mono (by simp; omega)) (i1.mono (by simp; omega))
end

/-- the entries contributed by the merge value of an admissible entry are admissible -/
theorem allOK_source {d : Nat} {e : ENode × ENode} (he : EntOK d e) {b : List (ENode × ENode)}
    (hb : sourceEntries e.2 = some b) : AllOK d b :=
  (sourceEntries_ok e.2 b he.2.2.2.1 hb).mono (by have := he.2.1; omega)

/-! ### shape mismatches at specification level -/

theorem interpFns_length (cfg : Cfg) (ts : List Ty) : (interpFns cfg ts).length = ts.length := by
  induction ts with
  | nil => rw [interpFns]; rfl
  | cons t ts ih => rw [interpFns]; simp [ih]

theorem tupleFrom_length_ne (fs : List NodeFn) (ns : List ENode) (h : ns.length ≠ fs.length) : tupleFrom fs ns = none := by
  induction fs generalizing ns with
  | nil => cases ns with
    | nil => simp at h
    | cons n ns => simp [tupleFrom]
  | cons f fs ih => cases ns with
    | nil => simp [tupleFrom]
    | cons n ns =>
      have := ih ns (by simpa using h)
      simp only [tupleFrom, this]
      split <;> simp_all

theorem variantFrom_unknown (cfg : Cfg) (vs : List (String × VarFn)) (v : List Char) (p : Option ENode) (tg : Bool)
    (h : ∀ q ∈ vs, q.1.toList ≠ v) : variantFrom cfg vs v p tg = none := by
  induction vs with
  | nil => simp [variantFrom]
  | cons q vs ih =>
    obtain ⟨n, vf⟩ := q
    have h1 : n.toList ≠ v := h (n, vf) (by simp)
    rw [variantFrom.eq_def]
    simp only [bne_iff_ne, ne_eq, h1, not_false_eq_true, if_true]
    exact ih (fun q hq => h q (by simp [hq]))

theorem variantFns_fst (cfg : Cfg) (vs : List (String × VTy)) : ∀ q ∈ variantFns cfg vs, ∃ p ∈ vs, p.1 = q.1 := by
  induction vs with
  | nil => rw [variantFns]; simp
  | cons p vs ih =>
    obtain ⟨n, vt⟩ := p
    intro q hq
    rw [variantFns.eq_def] at hq
    simp only [List.mem_cons] at hq
    rcases hq with rfl | hq
    · exact ⟨(n, vt), by simp, rfl⟩
    · obtain ⟨p, hp, e⟩ := ih q hq
      exact ⟨p, by simp [hp], e⟩

end SaphyrVerif.Lemmas.C05
