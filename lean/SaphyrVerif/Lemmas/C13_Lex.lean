import SaphyrVerif.Lemmas.C13_Layout
/-!
C13 proof machinery, part 3a: lexical facts about the reference reader on the tokens of the fragment
(safe strings, `null`, `true` / `false`, decimal integers, `[]`, `{}`, `key:` prefixes).
-/
set_option linter.unusedSimpArgs false
set_option linter.unusedVariables false
namespace SaphyrVerif.Emit
open SaphyrVerif

/-- characters of plain tokens: lower-case letters, digits, `-` -/
def isTokChar (c : Char) : Bool := isLowerAlnum c || c == '-'

/-- a plain token of the fragment: non-empty, token characters only, not a lone `-` -/
structure PlainTok (t : List Char) : Prop where
  ne : t ≠ []
  chars : ∀ c ∈ t, isTokChar c = true
  notDash : t ≠ ['-']

theorem isTokChar_ne {c : Char} (h : isTokChar c = true) (c' : Char) (h' : isTokChar c' = false) : c ≠ c' := by
  rintro rfl; rw [h] at h'; exact Bool.noConfusion h'

theorem safe_cons {s : List Char} (h : isSafeStr s = true) :
    ∃ c cs, s = c :: cs ∧ isLowerAlpha c = true ∧ cs.all isLowerAlnum = true ∧ reservedWords.contains s = false := by
  cases s with
  | nil => simp [isSafeStr] at h
  | cons c cs =>
    simp only [isSafeStr, Bool.and_eq_true, Bool.not_eq_eq_eq_not, Bool.not_true] at h
    exact ⟨c, cs, rfl, h.1.1, h.1.2, h.2⟩

theorem alpha_alnum {c : Char} (h : isLowerAlpha c = true) : isLowerAlnum c = true := by
  simp [isLowerAlnum, h]

theorem alnum_tok {c : Char} (h : isLowerAlnum c = true) : isTokChar c = true := by
  simp [isTokChar, h]

theorem safe_chars {s : List Char} (h : isSafeStr s = true) : ∀ c ∈ s, isLowerAlnum c = true := by
  obtain ⟨c, cs, rfl, hc, hcs, _⟩ := safe_cons h
  intro x hx
  simp only [List.mem_cons] at hx
  rcases hx with rfl | hx
  · exact alpha_alnum hc
  · exact List.all_eq_true.mp hcs x hx

theorem safe_plainTok {s : List Char} (h : isSafeStr s = true) : PlainTok s := by
  obtain ⟨c, cs, rfl, hc, hcs, _⟩ := safe_cons h
  refine ⟨by simp, fun x hx => alnum_tok (safe_chars h x hx), ?_⟩
  intro e
  simp only [List.cons.injEq] at e
  rw [e.1] at hc
  simp [isLowerAlpha] at hc

/-! ### decimal integers -/

theorem decValue_eq (cs : List Char) (acc : Nat) : decValue cs acc = Nat.ofDigitChars 10 cs acc := by
  induction cs generalizing acc with
  | nil => simp [decValue]
  | cons c cs ih => rw [decValue, Nat.ofDigitChars_cons, ih, Nat.mul_comm]; rfl

theorem isDecDigit_of_isDigit {c : Char} (h : c.isDigit = true) : isDecDigit c = true := by
  simp only [Char.isDigit, Bool.and_eq_true, decide_eq_true_eq] at h
  simp only [isDecDigit, Bool.and_eq_true, decide_eq_true_eq]
  exact ⟨Char.le_def.mpr (by simpa using h.1), Char.le_def.mpr (by simpa using h.2)⟩

theorem digits_all (n : Nat) : (Nat.toDigits 10 n).all isDecDigit = true :=
  List.all_eq_true.mpr fun c hc => isDecDigit_of_isDigit (Nat.isDigit_of_mem_toDigits (by decide) (by decide) hc)

theorem digit_tok {c : Char} (h : isDecDigit c = true) : isTokChar c = true := by
  simp only [isDecDigit, Bool.and_eq_true, decide_eq_true_eq] at h
  simp [isTokChar, isLowerAlnum, h.1, h.2]

theorem intText_nonneg (n : Nat) : intText (Int.ofNat n) = Nat.toDigits 10 n := by
  simp [intText, Int.repr_eq_if, Nat.toList_repr]

theorem intText_neg (n : Nat) : intText (Int.negSucc n) = '-' :: Nat.toDigits 10 (n + 1) := by
  simp only [intText, Int.toString_eq_repr, Int.repr_eq_if]
  have h : ¬ (0 ≤ Int.negSucc n) := by omega
  simp only [h, if_false, String.toList_append, Nat.toList_repr]
  have : (-Int.negSucc n).toNat = n + 1 := by omega
  rw [this]; rfl

theorem splitSign_other {c : Char} (cs : List Char) (h1 : c ≠ '-') (h2 : c ≠ '+') :
    splitSign (c :: cs) = (false, c :: cs) := by
  unfold splitSign
  split
  · rename_i r he; simp only [List.cons.injEq] at he; exact absurd he.1 h1
  · rename_i r he; simp only [List.cons.injEq] at he; exact absurd he.1 h2
  · rfl

theorem parseDecInt_intText (i : Int) : parseDecInt (intText i) = some i := by
  cases i with
  | ofNat n =>
    rw [intText_nonneg]
    have hne := Nat.toDigits_ne_nil (n := n) (b := 10)
    have hall := digits_all n
    cases hd : Nat.toDigits 10 n with
    | nil => exact absurd hd hne
    | cons c cs =>
      have hc : isDecDigit c = true := List.all_eq_true.mp hall c (by rw [hd]; simp)
      have hc1 : c ≠ '-' := by rintro rfl; exact absurd hc (by decide)
      have hc2 : c ≠ '+' := by rintro rfl; exact absurd hc (by decide)
      rw [hd] at hall
      have hv : decValue (c :: cs) 0 = n := by rw [← hd, decValue_eq, Nat.ofDigitChars_ten_toDigits]
      simp only [parseDecInt, splitSign_other cs hc1 hc2, hall, hv, List.isEmpty_cons, Bool.not_true, Bool.or_false,
        Bool.false_eq_true, if_false]
  | negSucc n =>
    rw [intText_neg]
    have hne := Nat.toDigits_ne_nil (n := n + 1) (b := 10)
    have hall := digits_all (n + 1)
    have hv : decValue (Nat.toDigits 10 (n + 1)) 0 = n + 1 := by rw [decValue_eq, Nat.ofDigitChars_ten_toDigits]
    simp only [parseDecInt, splitSign, hall, hne, hv, List.isEmpty_iff, Bool.not_true, Bool.or_false, Bool.false_eq_true,
      if_false, if_true]
    simp [Int.negSucc_eq]

theorem intText_plainTok (i : Int) : PlainTok (intText i) := by
  cases i with
  | ofNat n =>
    rw [intText_nonneg]
    refine ⟨Nat.toDigits_ne_nil, fun c hc => digit_tok (List.all_eq_true.mp (digits_all n) c hc), ?_⟩
    intro e
    have := List.all_eq_true.mp (digits_all n) '-' (by rw [e]; simp)
    simp [isDecDigit] at this
  | negSucc n =>
    rw [intText_neg]
    refine ⟨by simp, ?_, ?_⟩
    · intro c hc
      simp only [List.mem_cons] at hc
      rcases hc with rfl | hc
      · simp [isTokChar]
      · exact digit_tok (List.all_eq_true.mp (digits_all (n + 1)) c hc)
    · intro e
      simp only [List.cons.injEq, true_and] at e
      exact Nat.toDigits_ne_nil e

/-! ### the reader on plain tokens -/

theorem PlainTok.head {t : List Char} (h : PlainTok t) : ∃ c cs, t = c :: cs ∧ isTokChar c = true := by
  cases t with
  | nil => exact absurd rfl h.ne
  | cons c cs => exact ⟨c, cs, rfl, h.chars c (by simp)⟩

theorem classify_plainTok {t : List Char} (h : PlainTok t) : classify t = .other := by
  obtain ⟨c, cs, rfl, hc⟩ := h.head
  unfold classify
  split
  · rename_i he; exact absurd he h.notDash
  · rename_i r he
    simp only [List.cons.injEq] at he
    have := h.chars ' ' (by rw [he.2]; simp)
    exact absurd this (by decide)
  · rename_i he
    simp only [List.cons.injEq] at he
    rw [he.1] at hc; exact absurd hc (by decide)
  · rename_i r he
    simp only [List.cons.injEq] at he
    rw [he.1] at hc; exact absurd hc (by decide)
  · rfl

theorem skipTag_tok {t : List Char} {c : Char} {cs : List Char} (e : t = c :: cs) (hc : isTokChar c = true) :
    skipTag t = t := by
  subst e
  unfold skipTag
  split
  · rename_i he
    simp only [List.cons.injEq] at he
    rw [he.1] at hc; exact absurd hc (by decide)
  · rfl

/-- scanning token characters for a key separator finds none -/
theorem splitPlainKey_tok (t acc : List Char) (h : ∀ c ∈ t, isTokChar c = true) : splitPlainKey acc t = none := by
  induction t generalizing acc with
  | nil => rfl
  | cons c cs ih =>
    have hc := h c (by simp)
    have hcs : ∀ x ∈ cs, isTokChar x = true := fun x hx => h x (by simp [hx])
    unfold splitPlainKey
    split
    · rename_i he; exact absurd he (by simp)
    · rename_i r he
      simp only [List.cons.injEq] at he
      rw [he.1] at hc; exact absurd hc (by decide)
    · rename_i he
      simp only [List.cons.injEq] at he
      rw [he.1] at hc; exact absurd hc (by decide)
    · rename_i he
      simp only [List.cons.injEq] at he
      rw [he.1] at hc; exact absurd hc (by decide)
    · rename_i c' r he
      simp only [List.cons.injEq] at he
      obtain ⟨rfl, rfl⟩ := he
      exact ih _ hcs

theorem trimEndSpaces_tok {t : List Char} (h : ∀ c ∈ t, isTokChar c = true) : trimEndSpaces t = t := by
  unfold trimEndSpaces
  cases hr : t.reverse with
  | nil => simp [List.reverse_eq_nil_iff.mp hr]
  | cons c cs =>
    have hc : isTokChar c = true := h c (by rw [← List.mem_reverse, hr]; simp)
    have h1 : c ≠ ' ' := fun e => by rw [e] at hc; exact absurd hc (by decide)
    have h2 : c ≠ '\t' := fun e => by rw [e] at hc; exact absurd hc (by decide)
    have hb : (c == ' ' || c == '\t') = false := by simp [h1, h2]
    rw [List.dropWhile_cons_of_neg (by simp [hb]), ← hr, List.reverse_reverse]

theorem plainFirstLine_tok (t acc : List Char) (h : ∀ c ∈ t, isTokChar c = true) :
    plainFirstLine acc t = (trimEndSpaces (acc.reverse ++ t), false) := by
  induction t generalizing acc with
  | nil => simp [plainFirstLine]
  | cons c cs ih =>
    have hc := h c (by simp)
    have hcs : ∀ x ∈ cs, isTokChar x = true := fun x hx => h x (by simp [hx])
    unfold plainFirstLine
    split
    · rename_i he; exact absurd he (by simp)
    · rename_i he
      simp only [List.cons.injEq] at he
      rw [he.1] at hc; exact absurd hc (by decide)
    · rename_i he
      simp only [List.cons.injEq] at he
      rw [he.1] at hc; exact absurd hc (by decide)
    · rename_i c' r he
      simp only [List.cons.injEq] at he
      obtain ⟨rfl, rfl⟩ := he
      rw [ih _ hcs]; simp

theorem plainFirstLine_plainTok {t : List Char} (h : PlainTok t) : plainFirstLine [] t = (t, false) := by
  rw [plainFirstLine_tok t [] h.chars]; simp [trimEndSpaces_tok h.chars]

theorem implicitKey_plainTok {t : List Char} (h : PlainTok t) : implicitKey t = none := by
  obtain ⟨c, cs, e, hc⟩ := h.head
  unfold implicitKey
  rw [skipTag_tok e hc, e]
  have hq1 : c ≠ '"' := fun e => by rw [e] at hc; exact absurd hc (by decide)
  have hq2 : c ≠ '\'' := fun e => by rw [e] at hc; exact absurd hc (by decide)
  split
  · rename_i he; simp only [List.cons.injEq] at he; exact absurd he.1 hq1
  · rename_i he; simp only [List.cons.injEq] at he; exact absurd he.1 hq2
  · rename_i t' _ _
    split
    · rfl
    · rename_i c' r he
      split
      · rfl
      · rw [← e, splitPlainKey_tok t [] h.chars]; rfl

/-! ### scalar resolution -/

theorem asciiLower_tok {c : Char} (h : isTokChar c = true) : asciiLower c = c := by
  unfold asciiLower
  split
  · rename_i hc
    simp only [Bool.and_eq_true, decide_eq_true_eq] at hc
    simp only [isTokChar, isLowerAlnum, isLowerAlpha, Bool.or_eq_true, Bool.and_eq_true, decide_eq_true_eq, beq_iff_eq] at h
    have h65 : (65 : Nat) ≤ c.toNat := hc.1
    have h90 : c.toNat ≤ 90 := hc.2
    rcases h with (⟨h1, _⟩ | ⟨_, h2⟩) | h3
    · have : (97 : Nat) ≤ c.toNat := Char.le_def.mp h1; omega
    · have : c.toNat ≤ 57 := Char.le_def.mp h2; omega
    · rw [h3] at h65; exact absurd h65 (by decide)
  · rfl

theorem lowerAscii_tok {t : List Char} (h : ∀ c ∈ t, isTokChar c = true) : lowerAscii t = t := by
  induction t with
  | nil => rfl
  | cons c cs ih =>
    simp only [lowerAscii, List.map_cons, List.cons.injEq]
    exact ⟨asciiLower_tok (h c (by simp)), ih fun x hx => h x (by simp [hx])⟩

theorem resolvePlain_safe {s : List Char} (h : isSafeStr s = true) : resolvePlain s = .str s := by
  obtain ⟨c, cs, rfl, hc, hcs, hres⟩ := safe_cons h
  have hl := lowerAscii_tok (safe_plainTok h).chars
  have hne : ∀ w ∈ reservedWords, (c :: cs) ≠ w := by
    intro w hw e
    have : reservedWords.contains (c :: cs) = true := by rw [e]; exact List.contains_iff_mem.mpr hw
    rw [hres] at this; exact Bool.noConfusion this
  have hc1 : c ≠ '-' := by rintro rfl; exact absurd hc (by decide)
  have hc2 : c ≠ '+' := by rintro rfl; exact absurd hc (by decide)
  have hc3 : c ≠ '~' := by rintro rfl; exact absurd hc (by decide)
  have hd : isDecDigit c = false := by
    simp only [isLowerAlpha, Bool.and_eq_true, decide_eq_true_eq] at hc
    have h97 : (97 : Nat) ≤ c.toNat := Char.le_def.mp hc.1
    simp only [isDecDigit, Bool.and_eq_false_iff, decide_eq_false_iff_not]
    right
    intro h57
    have : c.toNat ≤ 57 := Char.le_def.mp h57
    omega
  have hp : parseDecInt (c :: cs) = none := by
    simp [parseDecInt, splitSign_other cs hc1 hc2, hd]
  have e1 : c :: cs ≠ ['n', 'u', 'l', 'l'] := hne _ (by decide)
  have e2 : c :: cs ≠ ['t', 'r', 'u', 'e'] := hne _ (by decide)
  have e3 : c :: cs ≠ ['y', 'e', 's'] := hne _ (by decide)
  have e4 : c :: cs ≠ ['y'] := hne _ (by decide)
  have e5 : c :: cs ≠ ['o', 'n'] := hne _ (by decide)
  have e6 : c :: cs ≠ ['f', 'a', 'l', 's', 'e'] := hne _ (by decide)
  have e7 : c :: cs ≠ ['n', 'o'] := hne _ (by decide)
  have e8 : c :: cs ≠ ['n'] := hne _ (by decide)
  have e9 : c :: cs ≠ ['o', 'f', 'f'] := hne _ (by decide)
  simp only [ne_eq, List.cons.injEq] at e1 e2 e3 e4 e5 e6 e7 e8 e9
  unfold resolvePlain
  simp only [hl, hp]
  simp [e1, e2, e3, e4, e5, e6, e7, e8, e9, hc3]

theorem resolvePlain_int (i : Int) : resolvePlain (intText i) = .int i := by
  have ht := intText_plainTok i
  have hl := lowerAscii_tok ht.chars
  have hp := parseDecInt_intText i
  obtain ⟨c, cs, e, hc⟩ := ht.head
  -- the first character is a digit or `-`, never a letter or `~`
  have hnl : isLowerAlpha c = false ∧ c ≠ '~' := by
    cases i with
    | ofNat n =>
      rw [intText_nonneg] at e
      have hd : isDecDigit c = true := List.all_eq_true.mp (digits_all n) c (by rw [e]; simp)
      simp only [isDecDigit, Bool.and_eq_true, decide_eq_true_eq] at hd
      have h57 : c.toNat ≤ 57 := Char.le_def.mp hd.2
      refine ⟨?_, ?_⟩
      · simp only [isLowerAlpha, Bool.and_eq_false_iff, decide_eq_false_iff_not]
        left; intro h97
        have : (97 : Nat) ≤ c.toNat := Char.le_def.mp h97
        omega
      · rintro rfl; exact absurd h57 (by decide)
    | negSucc n =>
      rw [intText_neg] at e
      simp only [List.cons.injEq] at e
      rw [← e.1]; exact ⟨by decide, by decide⟩
  have hw : ∀ w : List Char, (∃ a as, w = a :: as ∧ isLowerAlpha a = true) → intText i ≠ w := by
    rintro w ⟨a, as, rfl, ha⟩ e'
    rw [e] at e'
    simp only [List.cons.injEq] at e'
    rw [e'.1, ha] at hnl
    exact Bool.noConfusion hnl.1
  have e1 : intText i ≠ ['n', 'u', 'l', 'l'] := hw _ ⟨_, _, rfl, by decide⟩
  have e2 : intText i ≠ ['t', 'r', 'u', 'e'] := hw _ ⟨_, _, rfl, by decide⟩
  have e3 : intText i ≠ ['y', 'e', 's'] := hw _ ⟨_, _, rfl, by decide⟩
  have e4 : intText i ≠ ['y'] := hw _ ⟨_, _, rfl, by decide⟩
  have e5 : intText i ≠ ['o', 'n'] := hw _ ⟨_, _, rfl, by decide⟩
  have e6 : intText i ≠ ['f', 'a', 'l', 's', 'e'] := hw _ ⟨_, _, rfl, by decide⟩
  have e7 : intText i ≠ ['n', 'o'] := hw _ ⟨_, _, rfl, by decide⟩
  have e8 : intText i ≠ ['n'] := hw _ ⟨_, _, rfl, by decide⟩
  have e9 : intText i ≠ ['o', 'f', 'f'] := hw _ ⟨_, _, rfl, by decide⟩
  have e0 : intText i ≠ ['~'] := by
    intro e'; rw [e] at e'; simp only [List.cons.injEq] at e'; exact hnl.2 e'.1
  unfold resolvePlain
  simp only [hl, hp]
  simp [e1, e2, e3, e4, e5, e6, e7, e8, e9, e0, ht.ne]

theorem resolvePlain_null : resolvePlain ['n', 'u', 'l', 'l'] = .null := by rfl
theorem resolvePlain_true : resolvePlain ['t', 'r', 'u', 'e'] = .bool true := by rfl
theorem resolvePlain_false : resolvePlain ['f', 'a', 'l', 's', 'e'] = .bool false := by rfl

theorem plainTok_null : PlainTok "null".toList := ⟨by decide, by decide, by decide⟩
theorem plainTok_true : PlainTok "true".toList := ⟨by decide, by decide, by decide⟩
theorem plainTok_false : PlainTok "false".toList := ⟨by decide, by decide, by decide⟩

/-! ### key lines -/

theorem splitPlainKey_key (k acc after : List Char) (hk : ∀ c ∈ k, isLowerAlnum c = true)
    (ha : colonEndsKey after = true) :
    splitPlainKey acc (k ++ ':' :: after) = some (acc.reverse ++ k, after) := by
  induction k generalizing acc with
  | nil => simp [splitPlainKey, ha]
  | cons c cs ih =>
    have hc := alnum_tok (hk c (by simp))
    have hcs : ∀ x ∈ cs, isLowerAlnum x = true := fun x hx => hk x (by simp [hx])
    simp only [List.cons_append]
    unfold splitPlainKey
    split
    · rename_i he; exact absurd he (by simp)
    · rename_i r he
      simp only [List.cons.injEq] at he
      rw [he.1] at hc; exact absurd hc (by decide)
    · rename_i he
      simp only [List.cons.injEq] at he
      rw [he.1] at hc; exact absurd hc (by decide)
    · rename_i he
      simp only [List.cons.injEq] at he
      rw [he.1] at hc; exact absurd hc (by decide)
    · rename_i c' r he
      simp only [List.cons.injEq] at he
      obtain ⟨rfl, rfl⟩ := he
      rw [ih _ hcs]; simp

/-- a safe key followed by `:` and the end of the line or a blank is an implicit key -/
theorem implicitKey_key {k : List Char} (hk : isSafeStr k = true) (after : List Char)
    (ha : colonEndsKey after = true) : implicitKey (k ++ ':' :: after) = some (.str k, after) := by
  obtain ⟨c, cs, rfl, hc, hcs, _⟩ := safe_cons hk
  have htc : isTokChar c = true := alnum_tok (alpha_alnum hc)
  unfold implicitKey
  rw [skipTag_tok (t := (c :: cs) ++ ':' :: after) (c := c) (cs := cs ++ ':' :: after) rfl htc]
  have hq1 : c ≠ '"' := fun e => by rw [e] at htc; exact absurd htc (by decide)
  have hq2 : c ≠ '\'' := fun e => by rw [e] at htc; exact absurd htc (by decide)
  simp only [List.cons_append]
  split
  · rename_i he; simp only [List.cons.injEq] at he; exact absurd he.1 hq1
  · rename_i he; simp only [List.cons.injEq] at he; exact absurd he.1 hq2
  · split
    · rename_i he; exact absurd he (by simp)
    · rename_i c' r he
      simp only [List.cons.injEq] at he
      obtain ⟨rfl, rfl⟩ := he
      have hspecial : (c == '[' || c == '{' || c == '|' || c == '>' || c == '#' || c == '&' || c == '*' || c == '%' || c == '@' || c == '`') = false := by
        have h : ∀ x : Char, isTokChar x = false → (c == x) = false := fun x hx => by
          simp only [beq_eq_false_iff_ne]; exact isTokChar_ne htc x hx
        simp [h '[' (by decide), h '{' (by decide), h '|' (by decide), h '>' (by decide), h '#' (by decide),
          h '&' (by decide), h '*' (by decide), h '%' (by decide), h '@' (by decide), h '`' (by decide)]
      simp only [hspecial, Bool.false_eq_true, if_false]
      have := splitPlainKey_key (c :: cs) [] after (safe_chars hk) ha
      simp only [List.cons_append, List.reverse_nil, List.nil_append] at this
      rw [this]
      simp [trimEndSpaces_tok (safe_plainTok hk).chars, resolvePlain_safe hk]

theorem classify_key {k : List Char} (hk : isSafeStr k = true) (after : List Char) :
    classify (k ++ ':' :: after) = .other := by
  obtain ⟨c, cs, rfl, hc, _, _⟩ := safe_cons hk
  have htc : isTokChar c = true := alnum_tok (alpha_alnum hc)
  simp only [List.cons_append]
  unfold classify
  split
  · rename_i he; simp only [List.cons.injEq] at he; rw [he.1] at hc; exact absurd hc (by decide)
  · rename_i r he; simp only [List.cons.injEq] at he; rw [he.1] at hc; exact absurd hc (by decide)
  · rename_i he; simp only [List.cons.injEq] at he; rw [he.1] at hc; exact absurd hc (by decide)
  · rename_i r he; simp only [List.cons.injEq] at he; rw [he.1] at hc; exact absurd hc (by decide)
  · rfl

end SaphyrVerif.Emit
