import SaphyrVerif.Lemmas.C12Literal
/-!
Helper lemmas for C12, folded block scalars: `write_folded_block` wraps a line only inside runs of
spaces, in such a way that unfolding (a single line break between two non-indented lines reads as one
space) gives the line back.
-/
set_option linter.unusedSimpArgs false

namespace SaphyrVerif.Lemmas.C12
open SaphyrVerif SaphyrVerif.SerScalar SaphyrVerif.Spec.Read

/-- unfolding: the segments joined by single spaces -/
def joinSp : List (List Char) → List Char
  | [] => []
  | [x] => x
  | x :: y :: r => x ++ ' ' :: joinSp (y :: r)

/-- every segment followed by a space, then the remainder -/
def J (E : List (List Char)) (tail : List Char) : List Char := E.flatMap (· ++ [' ']) ++ tail

theorem joinSp_snoc (E : List (List Char)) (tail : List Char) : joinSp (E ++ [tail]) = J E tail := by
  induction E with
  | nil => simp [joinSp, J]
  | cons e E ih =>
    cases E with
    | nil => simp [joinSp, J]
    | cons e2 E2 =>
      have : (e :: e2 :: E2) ++ [tail] = e :: e2 :: (E2 ++ [tail]) := rfl
      rw [this, joinSp]
      have ih' : joinSp (e2 :: (E2 ++ [tail])) = J (e2 :: E2) tail := ih
      rw [ih']
      simp [J]

/-! ### the reader on the wrapped lines -/

theorem blockBody_fold (N : Nat) (hN : 1 ≤ N) (segs : List (List Char))
    (hsegs : ∀ e ∈ segs, e ≠ [] ∧ headSat isBlank e = false) :
    ∀ (first : Bool) (acc : List Char), segs ≠ [] →
      blockBody false N (segs.map (spaces N ++ ·)) first false 0 acc =
        (acc ++ (if first then [] else [' ']) ++ joinSp segs, 0, [], false) := by
  induction segs with
  | nil => intro _ _ h; exact absurd rfl h
  | cons e segs ih =>
    intro first acc _
    obtain ⟨hne, hhb⟩ := hsegs e (by simp)
    have hee : e.isEmpty = false := by cases e with | nil => exact absurd rfl hne | cons a b => rfl
    simp only [List.map_cons]
    rw [blockBody, isEmptyAt_spaces_append, hee]
    have h1 : ¬ leadingSpaces (spaces N ++ e) < N := by have := leadingSpaces_spaces_append N e; omega
    have h2 : (N == 0) = false := by cases N with | zero => omega | succ n => rfl
    simp only [Bool.false_eq_true, if_false, h1, h2, Bool.false_and, drop_spaces_append, hhb, Bool.not_false,
      Bool.and_self, Bool.true_and, beq_self_eq_true, if_true]
    cases segs with
    | nil =>
      simp only [List.map_nil, blockBody, joinSp]
      cases first <;> simp [nls]
    | cons e2 r =>
      rw [ih (fun x hx => hsegs x (by simp [hx])) false _ (by simp)]
      cases first <;> simp [joinSp, nls]

/-! ### `write_folded_block` on one line: the loop invariant -/

theorem drop_of_getElem? {L : List Char} {a : Nat} {x : Char} (h : L[a]? = some x) : L.drop a = x :: L.drop (a + 1) := by
  induction L generalizing a with
  | nil => simp at h
  | cons y L ih =>
    cases a with
    | zero => simp at h; subst h; rfl
    | succ a => simp at h; simpa using ih h

theorem drop_spaces_run {L : List Char} (n a : Nat) (h : ∀ k, a ≤ k → k < a + n → L[k]? = some ' ') :
    L.drop a = spaces n ++ L.drop (a + n) := by
  induction n generalizing a with
  | zero => simp [spaces]
  | succ n ih =>
    have h0 := h a (Nat.le_refl _) (by omega)
    rw [drop_of_getElem? h0, ih (a + 1) (fun k hk1 hk2 => h k (by omega) (by omega))]
    simp [spaces, List.replicate_succ]
    congr 1; omega

theorem take_drop_split (L : List Char) (s a : Nat) (h : s ≤ a) :
    L.drop s = (L.drop s).take (a - s) ++ L.drop a := by
  have := List.take_append_drop (a - s) (L.drop s)
  rw [List.drop_drop] at this
  rw [show s + (a - s) = a by omega] at this
  exact this.symm

/-- the part of the invariant that holds in every state -/
structure FoldInv (L indent : List Char) (st : FoldSt) (E : List (List Char)) : Prop where
  np : st.panicked = false
  out_eq : st.out = joinLines (E.map (indent ++ ·))
  join : J E (L.drop st.start) = L
  segs : ∀ e ∈ E, e ≠ [] ∧ e.head? ≠ some ' '
  start_lt : st.start < L.length
  start_ns : L[st.start]? ≠ some ' '

/-- the part that holds while the scan is still running, after `i` characters -/
structure FoldAct (L : List Char) (i : Nat) (st : FoldSt) : Prop where
  start_le : st.start ≤ i
  last_ok : ∀ a b n, st.last = some (a, b, n) →
    st.start < a ∧ a + n = b ∧ 1 ≤ n ∧ b < i ∧ b < L.length ∧ (∀ k, a ≤ k → k < b → L[k]? = some ' ') ∧ L[b]? ≠ some ' '
  run_ok : st.inRun = true →
    st.start < st.runStart ∧ st.runStart + st.runLen = i ∧ 1 ≤ st.runLen ∧
      (∀ k, st.runStart ≤ k → k < i → L[k]? = some ' ') ∧ (∀ a b n, st.last = some (a, b, n) → b ≤ st.runStart)


theorem getElem?_ne_of_ne {L : List Char} {a b : Nat} (ha : L[a]? = some ' ') (hb : L[b]? ≠ some ' ') : a ≠ b := by
  intro e; subst e; exact hb ha

/-- run tracking keeps the invariants (with `i + 1` processed characters) and does not touch the
output, `start` and `col` -/
theorem trackRun_inv (L : List Char) (i : Nat) (ch : Char) (hch : L[i]? = some ch) (st : FoldSt)
    (hns : L[st.start]? ≠ some ' ') (hA : FoldAct L i st) :
    FoldAct L (i + 1) (trackRun st i ch) ∧ (trackRun st i ch).start = st.start ∧ (trackRun st i ch).out = st.out ∧
      (trackRun st i ch).col = st.col ∧ (trackRun st i ch).panicked = st.panicked ∧ (trackRun st i ch).broke = st.broke := by
  have hilt : i < L.length := by
    rcases Nat.lt_or_ge i L.length with h | h
    · exact h
    · rw [List.getElem?_eq_none h] at hch; cases hch
  unfold trackRun
  by_cases hsp : ch = ' '
  · subst hsp
    simp only [bne_self_eq_false, Bool.and_false, Bool.false_eq_true, if_false, beq_self_eq_true, if_true]
    cases hr : st.inRun with
    | true =>
      simp only [Bool.not_true, Bool.false_eq_true, if_false]
      obtain ⟨r1, r2, r3, r4, r5⟩ := hA.run_ok hr
      refine ⟨⟨by have := hA.start_le; simp; omega, ?_, ?_⟩, by simp, by simp, by simp, by simp, by simp⟩
      · intro a b n hl
        obtain ⟨l1, l2, l3, l4, l5, l6, l7⟩ := hA.last_ok a b n hl
        exact ⟨l1, l2, l3, by omega, l5, l6, l7⟩
      · intro _
        refine ⟨r1, by simp <;> omega, by simp <;> omega, ?_, r5⟩
        intro k hk1 hk2
        by_cases hki : k = i
        · subst hki; exact hch
        · exact r4 k hk1 (by omega)
    | false =>
      simp only [Bool.not_false, if_true]
      have hsl : st.start < i := by
        have := hA.start_le
        have hne : i ≠ st.start := getElem?_ne_of_ne hch hns
        omega
      refine ⟨⟨by simp <;> omega, ?_, ?_⟩, by simp, by simp, by simp, by simp, by simp⟩
      · intro a b n hl
        obtain ⟨l1, l2, l3, l4, l5, l6, l7⟩ := hA.last_ok a b n hl
        exact ⟨l1, l2, l3, by omega, l5, l6, l7⟩
      · intro _
        refine ⟨hsl, rfl, Nat.le_refl _, ?_, ?_⟩
        · intro k hk1 hk2
          have : k = i := by simp at hk1 <;> omega
          subst this; exact hch
        · intro a b n hl
          obtain ⟨_, _, _, l4, _⟩ := hA.last_ok a b n hl
          simp <;> omega
  · have hb : (ch == ' ') = false := by simpa using hsp
    have hbn : (ch != ' ') = true := by simpa using hsp
    simp only [hbn, Bool.and_true, hb, Bool.false_eq_true, if_false]
    cases hr : st.inRun with
    | true =>
      simp only [if_true]
      obtain ⟨r1, r2, r3, r4, r5⟩ := hA.run_ok hr
      refine ⟨⟨by have := hA.start_le; simp; omega, ?_, ?_⟩, by simp, by simp, by simp, by simp, by simp⟩
      · intro a b n hl
        simp only [Option.some.injEq, Prod.mk.injEq] at hl
        obtain ⟨e1, e2, e3⟩ := hl
        subst e1 e2 e3
        refine ⟨r1, r2, r3, by omega, hilt, ?_, ?_⟩
        · intro k hk1 hk2; exact r4 k hk1 hk2
        · rw [hch]; simpa using hsp
      · intro h; simp at h
    | false =>
      simp only [Bool.false_eq_true, if_false]
      refine ⟨⟨by have := hA.start_le; omega, ?_, ?_⟩, by simp, by simp, by simp, by simp, by simp⟩
      · intro a b n hl
        obtain ⟨l1, l2, l3, l4, l5, l6, l7⟩ := hA.last_ok a b n hl
        exact ⟨l1, l2, l3, by omega, l5, l6, l7⟩
      · intro h; rw [hr] at h; cases h


theorem spaces_pred_snoc (n : Nat) (h : 1 ≤ n) : spaces (n - 1) ++ [' '] = spaces n := by
  cases n with
  | zero => omega
  | succ n => simp [spaces, List.replicate_succ']

/-- the wrap decision keeps the invariants -/
theorem breakStep_inv (L indent : List Char) (wrap i : Nat) (st : FoldSt) (E : List (List Char))
    (hI : FoldInv L indent st E) (hA : FoldAct L i st) :
    ∃ E', FoldInv L indent (breakStep L indent wrap st) E' ∧
      ((breakStep L indent wrap st).broke = false → FoldAct L i (breakStep L indent wrap st)) := by
  unfold breakStep
  by_cases hcol : st.col > wrap
  · rw [if_pos hcol]
    cases hl : st.last with
    | none =>
      refine ⟨E, ⟨hI.np, hI.out_eq, hI.join, hI.segs, hI.start_lt, hI.start_ns⟩, ?_⟩
      intro h; simp at h
    | some abn =>
      obtain ⟨a, b, n⟩ := abn
      obtain ⟨l1, l2, l3, l4, l5, l6, l7⟩ := hA.last_ok a b n hl
      have hale : a ≤ L.length := by omega
      have hslice : slice? L st.start a = some ((L.drop st.start).take (a - st.start)) := by
        unfold slice?
        have : (decide (st.start ≤ a) && decide (a ≤ L.length)) = true := by simp; omega
        rw [if_pos this]
      simp only [hslice]
      -- the segment
      have hdrop : L.drop st.start = (L.drop st.start).take (a - st.start) ++ (spaces n ++ L.drop b) := by
        have h1 := take_drop_split L st.start a (by omega)
        have h2 := drop_spaces_run (L := L) n a (fun k hk1 hk2 => l6 k hk1 (by omega))
        rw [l2] at h2
        rw [h2] at h1
        exact h1
      obtain ⟨x, hx⟩ : ∃ x, L[st.start]? = some x := by
        have := hI.start_lt
        exact ⟨L[st.start], List.getElem?_eq_getElem this⟩
      have hxs : x ≠ ' ' := by intro e; subst e; exact hI.start_ns hx
      have hsegne : (L.drop st.start).take (a - st.start) ≠ [] ∧
          ((L.drop st.start).take (a - st.start)).head? = some x := by
        rw [drop_of_getElem? hx]
        have : a - st.start = (a - st.start - 1) + 1 := by omega
        rw [this, List.take_succ_cons]
        simp
      refine ⟨E ++ [(L.drop st.start).take (a - st.start) ++ spaces (n - 1)], ⟨hI.np, ?_, ?_, ?_, l5, l7⟩, ?_⟩
      · simp only [hI.out_eq, joinLines, List.map_append, List.flatMap_append, List.map_cons, List.map_nil,
          List.flatMap_cons, List.flatMap_nil, List.append_nil, List.append_assoc]
      · have hj := hI.join
        rw [hdrop] at hj
        refine Eq.trans ?_ hj
        generalize (L.drop st.start).take (a - st.start) = seg
        generalize L.drop b = tl
        simp only [J, List.flatMap_append, List.flatMap_cons, List.flatMap_nil, List.append_nil, List.append_assoc]
        rw [← spaces_pred_snoc n l3]
        simp
      · intro e he
        simp only [List.mem_append, List.mem_singleton] at he
        rcases he with he | he
        · exact hI.segs e he
        · subst he
          constructor
          · intro hnil
            have := List.append_eq_nil_iff.mp hnil
            exact hsegne.1 this.1
          · cases hs : (L.drop st.start).take (a - st.start) with
            | nil => exact absurd hs hsegne.1
            | cons y r =>
              have := hsegne.2
              rw [hs] at this
              simp only [List.head?_cons, Option.some.injEq] at this
              subst this
              simpa using hxs
      · intro _
        refine ⟨by simp; omega, by intro a' b' n' h; simp at h, ?_⟩
        intro hr
        obtain ⟨r1, r2, r3, r4, r5⟩ := hA.run_ok hr
        have hb_le := r5 a b n hl
        have hrs : L[st.runStart]? = some ' ' := r4 st.runStart (Nat.le_refl _) (by omega)
        have hne : st.runStart ≠ b := getElem?_ne_of_ne hrs l7
        refine ⟨by simp; omega, r2, r3, r4, by intro a' b' n' h; simp at h⟩
  · rw [if_neg hcol]
    exact ⟨E, hI, fun _ => hA⟩

/-- one loop iteration keeps the invariants -/
theorem foldStep_inv (L indent : List Char) (wrap i : Nat) (ch : Char) (hch : L[i]? = some ch)
    (st : FoldSt) (E : List (List Char)) (hI : FoldInv L indent st E) (hA : st.broke = false → FoldAct L i st) :
    ∃ E', FoldInv L indent (foldStep L indent wrap st i ch) E' ∧
      ((foldStep L indent wrap st i ch).broke = false → FoldAct L (i + 1) (foldStep L indent wrap st i ch)) := by
  unfold foldStep
  cases hb : st.broke with
  | true =>
    simp only [Bool.true_or, if_true]
    exact ⟨E, hI, fun h => by rw [hb] at h; cases h⟩
  | false =>
    simp only [hI.np, Bool.or_self, Bool.false_eq_true, if_false]
    obtain ⟨hAct, hs, ho, _, hp, hbk⟩ := trackRun_inv L i ch hch st hI.start_ns (hA hb)
    have hI2 : FoldInv L indent { trackRun st i ch with col := (trackRun st i ch).col + 1 } E := by
      refine ⟨by simp [hp, hI.np], by simp [ho, hI.out_eq], by simp [hs, hI.join], hI.segs, by simp [hs, hI.start_lt], by simp [hs, hI.start_ns]⟩
    have hA2 : FoldAct L (i + 1) { trackRun st i ch with col := (trackRun st i ch).col + 1 } :=
      ⟨hAct.start_le, hAct.last_ok, hAct.run_ok⟩
    exact breakStep_inv L indent wrap (i + 1) _ E hI2 hA2


theorem foldLoop_inv (L indent : List Char) (wrap : Nat) :
    ∀ (rest : List Char) (i : Nat) (st : FoldSt) (E : List (List Char)), rest = L.drop i →
      FoldInv L indent st E → (st.broke = false → FoldAct L i st) →
      ∃ E', FoldInv L indent (foldLoop L indent wrap rest i st) E' := by
  intro rest
  induction rest with
  | nil => intro i st E _ hI _; exact ⟨E, hI⟩
  | cons ch rest ih =>
    intro i st E hr hI hA
    have hch : L[i]? = some ch := by
      have h0 : (L.drop i)[0]? = some ch := by rw [← hr]; rfl
      rw [List.getElem?_drop] at h0
      simpa using h0
    have hrest : rest = L.drop (i + 1) := by
      have := drop_of_getElem? hch
      rw [this] at hr
      injection hr with _ h2
    obtain ⟨E', hI', hA'⟩ := foldStep_inv L indent wrap i ch hch st E hI hA
    rw [foldLoop]
    exact ih (i + 1) _ E' hrest hI' hA'

/-- `fold_inverse` for one line: the emitted lines are the indented segments, the segments joined by
single spaces give the line back, no segment is empty or starts with a space -/
theorem foldLine_spec (L indent : List Char) (wrap : Nat) (hne : L ≠ []) (hhead : L.head? ≠ some ' ') :
    ∃ segs, foldLine L indent wrap = .ok (joinLines (segs.map (indent ++ ·))) ∧ joinSp segs = L ∧ segs ≠ [] ∧
      ∀ e ∈ segs, e ≠ [] ∧ e.head? ≠ some ' ' := by
  have hlen : 0 < L.length := by cases L with | nil => exact absurd rfl hne | cons a b => simp
  have h0 : L[0]? ≠ some ' ' := by
    cases L with
    | nil => exact absurd rfl hne
    | cons a b => simpa using hhead
  have hI0 : FoldInv L indent {} [] := by
    refine ⟨rfl, rfl, by simp [J], ?_, hlen, h0⟩
    intro e he; cases he
  have hA0 : ({} : FoldSt).broke = false → FoldAct L 0 {} := by
    intro _
    refine ⟨Nat.le_refl _, ?_, ?_⟩
    · intro a b n h; simp at h
    · intro h; simp at h
  obtain ⟨E, hI⟩ := foldLoop_inv L indent wrap L 0 {} [] (by simp) hI0 hA0
  have hemp : L.isEmpty = false := by cases L with | nil => exact absurd rfl hne | cons a b => rfl
  unfold foldLine
  rw [hemp]
  simp only [Bool.false_eq_true, if_false]
  have hh2 : (L.head? == some ' ') = false := by simpa using hhead
  simp only [hh2, hI.np, Bool.false_eq_true, if_false]
  have hsl : slice? L (foldLoop L indent wrap L 0 {}).start L.length = some (L.drop (foldLoop L indent wrap L 0 {}).start) := by
    unfold slice?
    have : (decide ((foldLoop L indent wrap L 0 {}).start ≤ L.length) && decide (L.length ≤ L.length)) = true := by
      have := hI.start_lt; simp; omega
    rw [if_pos this]
    congr 1
    apply List.take_of_length_le
    simp
  rw [hsl]
  refine ⟨E ++ [L.drop (foldLoop L indent wrap L 0 {}).start], ?_, ?_, by simp, ?_⟩
  · simp only [hI.out_eq, joinLines, List.map_append, List.flatMap_append, List.map_cons, List.map_nil,
      List.flatMap_cons, List.flatMap_nil, List.append_nil, List.append_assoc]
  · rw [joinSp_snoc]; exact hI.join
  · intro e he
    simp only [List.mem_append, List.mem_singleton] at he
    rcases he with he | he
    · exact hI.segs e he
    · subst he
      obtain ⟨x, hx⟩ : ∃ x, L[(foldLoop L indent wrap L 0 {}).start]? = some x :=
        ⟨_, List.getElem?_eq_getElem hI.start_lt⟩
      rw [drop_of_getElem? hx]
      refine ⟨by simp, ?_⟩
      simp only [List.head?_cons, ne_eq, Option.some.injEq]
      intro e; subst e; exact hI.start_ns hx

end SaphyrVerif.Lemmas.C12
