import SaphyrVerif.Lemmas.C14_De
/-!
C14, recursive wrappers: a cell `&a { plain fields and back references *a }` under `RcRecursive` /
`ArcRecursive` is built as a placeholder that is stored before its payload is read, every back reference
(read through `RcRecursion` / `ArcRecursion`) resolves to that very placeholder, and the placeholder is
filled afterwards.
-/
namespace SaphyrVerif.Lemmas.C14
open SaphyrVerif.Anchors SaphyrVerif.Spec.Anchors

/-- a field of the payload of a recursive cell: a plain scalar or a back reference to the cell -/
inductive RecItem where
  | plain (k : LeafKind)
  | back
deriving Repr, DecidableEq

def recDoc (a : Nat) : RecItem → Out
  | .plain k => .leaf 0 k
  | .back => .alias a

def recTy (kind : Kind) (tid : Nat) : RecItem → Ty
  | .plain _ => .leaf false
  | .back => .weak kind tid

def recVal (kind : Kind) (q : Ptr) : RecItem → RVal
  | .plain k => .leaf k
  | .back => .weak kind q

/-- what the recording frames receive: back references are delivered as the anchored null placeholder -/
def recExp (a : Nat) : RecItem → Out
  | .plain k => .leaf 0 k
  | .back => .leaf a .null

theorem rec_in_progress (s : DeSt) (kind : Kind) (hk : kind.isRec = true) (a : Nat)
    (h : s.stack.head? = some (kind, a)) : recursiveAnchorInProgress s a = true := by
  cases hs : s.stack with
  | nil => rw [hs] at h; cases h
  | cons e es =>
    rw [hs] at h
    simp only [List.head?_cons, Option.some.injEq] at h
    subst h
    cases kind with
    | rc => cases hk
    | arc => cases hk
    | rcRec => simp [recursiveAnchorInProgress, hs]
    | arcRec => simp [recursiveAnchorInProgress, hs]

/-- reading the fields of the cell leaves the state exactly as it was -/
theorem rec_items (kind : Kind) (hk : kind.isRec = true) (tid a : Nat) (ha : a ≠ 0) (q : Ptr) :
    ∀ (items : List RecItem) (t : DeSt),
      t.stack.head? = some (kind, a) → t.store.lookup (kind, a) = some (q, tid) → t.opn.contains a = true →
      deList onAliasLive true (items.map (recTy kind tid)) (items.map (recDoc a)) t =
        .ok (items.map (recVal kind q), items.map (recExp a), t) := by
  intro items
  induction items with
  | nil => intro t _ _ _; simp [deList]
  | cons it its ih =>
    intro t h1 h2 h3
    simp only [List.map_cons, deList]
    cases it with
    | plain k =>
      have e1 : deCore onAliasLive true (recTy kind tid (.plain k)) (recDoc a (.plain k)) t =
          .ok (.leaf k, .leaf 0 k, t) := by
        simp [recTy, recDoc, deCore, probeRejects]
      rw [e1]
      simp only
      rw [ih t h1 h2 h3]
      rfl
    | back =>
      have e1 : deCore onAliasLive true (recTy kind tid .back) (recDoc a .back) t =
          .ok (.weak kind q, .leaf a .null, t) := by
        simp only [recTy, recDoc, deCore, onAliasLive, resolveAlias, h3, if_true,
          rec_in_progress t kind hk a h1]
        simp only [deE, deCore, Out.rootAnchor]
        rw [current_after_push _ _ _ ha]
        simp only [Bool.false_eq_true, if_false]
        have hg : getStored (pushCtx t kind a) kind a tid = .ok (some q) := by
          simp [getStored, pushCtx_store, h2]
        rw [hg]
        simp only
        have : popCtx (pushCtx t kind a) a = t := by
          simp [popCtx, pushCtx]
        rw [this, if_neg ha]
      rw [e1]
      simp only
      rw [ih t h1 h2 h3]
      rfl

theorem count_not_mem {α : Type} [BEq α] [LawfulBEq α] (x : α) (l : List α) (h : x ∉ l) : l.count x = 0 :=
  List.count_eq_zero.mpr h

theorem rec_cell (kind : Kind) (hk : kind.isRec = true) (tid a : Nat) (ha : a ≠ 0) (items : List RecItem)
    (s : DeSt) (hfresh : s.store.lookup (kind, a) = none) (hstack : (kind, a) ∉ s.stack) :
    ∃ s', de (.strong kind tid (.node (items.map (recTy kind tid)))) (.node a true (items.map (recDoc a))) s =
        .ok (.strong kind s.nextPtr, .node a true (items.map (recExp a)), s') ∧
      s'.cell s.nextPtr = some (.node true (items.map (recVal kind s.nextPtr))) ∧
      s'.store.lookup (kind, a) = some (s.nextPtr, tid) ∧ s'.stack = s.stack ∧
      s'.defs.lookup a = some (.node a true (items.map (recExp a))) := by
  have hcur := current_after_push s kind a ha
  have hget : getStored (pushCtx s kind a) kind a tid = .ok none := by
    simp [getStored, pushCtx_store, hfresh]
  have hre : reentrant (pushCtx s kind a) kind a = false := by
    simp [reentrant, inProgressCount, pushCtx, count_not_mem _ _ hstack]
  obtain ⟨s1, hs1, f1, f2, f3⟩ : ∃ s1, s1 = pushCtx s kind a ∧ s1.nextPtr = s.nextPtr ∧
      s1.stack = (kind, a) :: s.stack ∧ s1.store = s.store :=
    ⟨_, rfl, by simp [pushCtx], by simp [pushCtx], by simp [pushCtx]⟩
  rw [← hs1] at hcur hget hre
  rw [← f1]
  simp only [de, deCore, Out.rootAnchor, ← hs1, if_neg ha, hcur, hget, hre, hk, Bool.false_eq_true, if_false, if_true, alloc]
  have hne : (a != 0) = true := by simpa using ha
  simp only [Bool.true_and, hne, if_true]
  rw [rec_items kind hk tid a ha s1.nextPtr items _ (by simp [storePtr, f2]) (by simp [storePtr])
    (by simp [storePtr])]
  refine ⟨_, rfl, ?_, ?_, ?_, ?_⟩
  · simp [DeSt.cell, popCtx, fill]
  · simp [popCtx, fill, storePtr]
  · simp [popCtx, fill, storePtr, f2]
  · simp [popCtx, fill, storePtr]

end SaphyrVerif.Lemmas.C14
