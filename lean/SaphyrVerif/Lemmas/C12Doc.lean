import SaphyrVerif.Lemmas.C12Plain
/-!
Helper lemmas for C12: from the scan-level plain lemmas to whole documents of the fixed shapes.
-/
namespace SaphyrVerif.Lemmas.C12
open SaphyrVerif SaphyrVerif.SerScalar SaphyrVerif.Spec.Read SaphyrVerif.Scalars

/-- what follows a one-line scalar in position `p`: the closing of the position and the line break -/
def lineEnd (p : Spec.Read.Pos) : List Char := p.closing ++ ['\n']

theorem finishLine_lineEnd (p : Spec.Read.Pos) (st : Style) (v : List Char) :
    finishLine p st v false (lineEnd p) = some (st, v) := by
  cases p <;> rfl

theorem isTerm_lineEnd (p : Spec.Read.Pos) : isTerm p.isFlow (lineEnd p) = true := by
  cases p <;> decide

theorem headSat_lineEnd (p : Spec.Read.Pos) : headSat (· == '#') (lineEnd p) = false := by
  cases p <;> decide

/-- A string the writer leaves plain, followed by the closing of its position, is read back unchanged
as a plain scalar — provided it has no trailing blank, is not a document marker at column 0 and (flow
context) does not end in blank + `-`. `fl` is the flow flag the writer's predicate was evaluated with. -/
theorem readNode_plain (p : Spec.Read.Pos) (s : List Char) (y fl col0 : Bool) (parent : Int)
    (h : isPlainValueSafe s y fl = true) (hfl : p.isFlow = true → fl = true)
    (hb : s.getLast? ≠ some ' ')
    (hd : p.isFlow = true → ¬ [' ', '-'] <:+ s)
    (hm : col0 = true → isDocMarker (s ++ lineEnd p) = false) :
    readNode p (s ++ lineEnd p) col0 parent = some (.plain, s) := by
  obtain ⟨_, hhead, hcs, hec, hsafe, _⟩ := pvs_unfold h
  have hsafe' : SafeChars p.isFlow s := by
    cases hp : p.isFlow with
    | false => exact fun c hc => ⟨(hsafe c hc).1, (hsafe c hc).2.1, fun hf => by cases hf⟩
    | true => have := hfl hp; subst this; exact hsafe
  have hstart := plain_start p.isFlow col0 s (lineEnd p) hsafe' hhead hm
  have hne : s ≠ [] := by intro e; subst e; simp [headRejects] at hhead
  have hscan := plain_scan_run p.isFlow (lineEnd p) (isTerm_lineEnd p) s [] [] hsafe'
    (colonOk_of s hcs (last_not_colon hec)) hd (fun _ h => absurd rfl h) (fun e => absurd e hne) hb
  unfold readNode
  simp only [hstart]
  unfold readPlain
  rw [hscan]
  simp only [List.reverse_nil, List.nil_append, Option.bind_some, headSat_lineEnd]
  exact finishLine_lineEnd p .plain s

/-- fixed openings of the positions whose text does not depend on the indentation step -/
def opening : Spec.Read.Pos → List Char
  | .root => []
  | .mapKey => []
  | .mapValue => ['k', ':', ' ']
  | .variant => ['V', ':', ' ']
  | .seqItem => ['-', ' ']
  | .flowSeq => ['[']
  | .flowMapValue => ['{', 'k', ':', ' ']
  | .flowMapKey => ['{']
  | .seqInSeq => ['-', ' ', '-', ' ']
  | .nestedMapValue => []
  | .seqInMap => []

def simplePos : Spec.Read.Pos → Bool
  | .nestedMapValue | .seqInMap => false
  | _ => true

def posCol0 : Spec.Read.Pos → Bool
  | .root => true
  | .mapKey => true
  | _ => false

def posParent : Spec.Read.Pos → Int
  | .root => -1
  | .mapKey => -1
  | .seqInSeq => 2
  | _ => 0

theorem dropWhile_blank_of_head {c : Char} {r : List Char} (h : isBlank c = false) :
    (c :: r).dropWhile isBlank = c :: r := by
  simp [List.dropWhile, h]

theorem stripOpening_opening (p : Spec.Read.Pos) (hp : simplePos p = true) (c : Char) (r : List Char)
    (hc : isBlank c = false) :
    stripOpening p (opening p ++ c :: r) = some (c :: r, posCol0 p, posParent p) := by
  have hd := dropWhile_blank_of_head (r := r) hc
  cases p with
  | root => simp [stripOpening, opening, posCol0, posParent, hd, headSat, hc]
  | mapKey => simp [stripOpening, opening, posCol0, posParent, hd, headSat, hc]
  | mapValue => simp [stripOpening, opening, posCol0, posParent, afterIndicator, stripPrefix?, sepBlank, hd]
  | variant => simp [stripOpening, opening, posCol0, posParent, afterIndicator, stripPrefix?, sepBlank, hd]
  | seqItem => simp [stripOpening, opening, posCol0, posParent, afterIndicator, stripPrefix?, sepBlank, hd]
  | flowSeq => simp [stripOpening, opening, posCol0, posParent, stripPrefix?, hd]
  | flowMapValue => simp [stripOpening, opening, posCol0, posParent, afterIndicator, stripPrefix?, sepBlank, hd]
  | flowMapKey => simp [stripOpening, opening, posCol0, posParent, stripPrefix?, hd]
  | seqInSeq =>
    have h2 : List.dropWhile isBlank ('-' :: ' ' :: c :: r) = '-' :: ' ' :: c :: r := dropWhile_blank_of_head (by decide)
    simp [stripOpening, opening, posCol0, posParent, afterIndicator, stripPrefix?, sepBlank, hd, h2]
  | nestedMapValue => cases hp
  | seqInMap => cases hp

/-- the head test of the writer's predicates excludes blanks, `%` and (not a control character) U+0000 -/
theorem head_facts {c : Char} {r : List Char} (hh : headRejects (c :: r) = false) :
    isBlank c = false ∧ c ≠ '%' := by
  rw [headRejects] at hh
  by_cases hws : isAsciiWhitespace c = true
  · rw [if_pos hws] at hh; cases hh
  have hws' : isAsciiWhitespace c = false := by simpa using hws
  obtain ⟨a, b, _, _⟩ := not_asciiws_facts hws'
  refine ⟨by simp only [isBlank, Bool.or_eq_false_iff]; exact ⟨by simpa using a, by simpa using b⟩, ?_⟩
  intro e; subst e
  rw [if_neg (by decide), if_neg (by decide), if_neg (by decide)] at hh
  revert hh; decide

/-- a string of safe characters that is not marker-like does not form a document marker with what
follows it on its line -/
theorem docMarker_safe (p : Spec.Read.Pos) (fl : Bool) (s : List Char) (hs : SafeChars fl s) (hne : s ≠ [])
    (hdm : docMarkerLike s = false) : isDocMarker (s ++ lineEnd p) = false := by
  match s, hne with
  | [a], _ => cases p <;> simp [lineEnd, Spec.Read.Pos.closing, isDocMarker]
  | [a, b], _ => cases p <;> simp [lineEnd, Spec.Read.Pos.closing, isDocMarker]
  | a :: b :: c :: r, _ =>
    simp only [List.cons_append, isDocMarker]
    simp only [docMarkerLike, Bool.and_eq_false_iff] at hdm
    rcases hdm with hm | ht
    · rw [hm]; rfl
    · apply Bool.and_eq_false_iff.mpr
      right
      cases r with
      | nil => simp [markerTail] at ht
      | cons d r' =>
        simp only [markerTail, Bool.or_eq_false_iff] at ht
        have hd := hs d (by simp)
        obtain ⟨_, hb, hn⟩ := not_control_facts hd.1
        simp only [List.cons_append, endOrBlankZ, isBlankOrBreakZ, isBlank, Bool.or_eq_false_iff]
        exact ⟨⟨⟨ht.1, ht.2⟩, hb⟩, hn⟩

theorem stripPrefix_append (pre rest : List Char) : stripPrefix? pre (pre ++ rest) = some rest := by
  induction pre with
  | nil => rfl
  | cons a pre ih => simp [stripPrefix?, ih]

/-- the document frame: the writer's optional `%YAML 1.2` / `---` preamble in front of a text that
starts neither with a byte-order mark nor with `%` -/
theorem readDoc_frame (o : Opts) (p : Spec.Read.Pos) (X : List Char)
    (hbom : X.head? ≠ some (Char.ofNat 0xFEFF)) (hpc : X.head? ≠ some '%') :
    readDoc p (preamble o ++ X) = readDocBody p X := by
  unfold readDoc preamble
  cases o.yaml12 with
  | true =>
    simp only [if_true]
    have h1 : stripBom ("%YAML 1.2\n---\n".toList ++ X) = yamlPreamble ++ X := rfl
    rw [h1]
    simp only [stripPrefix_append]
  | false =>
    simp only [Bool.false_eq_true, if_false, List.nil_append]
    cases X with
    | nil => rfl
    | cons c r =>
      have hc : c.toNat ≠ 0xFEFF := by
        intro e
        apply hbom
        simp only [List.head?_cons, Option.some.injEq]
        rw [← e, Char.ofNat_toNat]
      have hc2 : c ≠ '%' := by simpa using hpc
      have h1 : stripBom (c :: r) = c :: r := by
        simp only [stripBom]; rw [if_neg (by simpa using hc)]
      rw [h1]
      have h2 : stripPrefix? yamlPreamble (c :: r) = none := by
        have : (('%' : Char) == c) = false := by
          apply Bool.eq_false_iff.mpr; intro e; exact hc2 (eq_of_beq e).symm
        have hyp : yamlPreamble = '%' :: "YAML 1.2\n---\n".toList := by decide
        rw [hyp, stripPrefix?, this]
        rfl
      rw [h2]

theorem readDocBody_plain (p : Spec.Read.Pos) (hp : simplePos p = true) (s : List Char) (y fl : Bool)
    (h : isPlainValueSafe s y fl = true) (hfl : p.isFlow = true → fl = true)
    (hu : isUnsafePlainShape s = false) :
    readDocBody p (opening p ++ (s ++ lineEnd p)) = some (.plain, s) := by
  obtain ⟨_, hhead, _, _, hsafe, hdash⟩ := pvs_unfold h
  obtain ⟨hb, _, hdm⟩ := unsafe_shape_facts hu
  have hne : s ≠ [] := by intro e; subst e; simp [headRejects] at hhead
  have hd : p.isFlow = true → ¬ [' ', '-'] <:+ s := fun hf =>
    not_suffix_of_endsWithBlankDash (hdash (hfl hf))
  have hm : posCol0 p = true → isDocMarker (s ++ lineEnd p) = false := fun _ => docMarker_safe p fl s hsafe hne hdm
  have hnode := readNode_plain p s y fl (posCol0 p) (posParent p) h hfl hb hd hm
  have hnul : (opening p ++ (s ++ lineEnd p)).any isNul = false := by
    rw [List.any_append, List.any_append]
    have h1 : (opening p).any isNul = false := by cases p <;> decide
    have h2 : (lineEnd p).any isNul = false := by cases p <;> decide
    have h3 : s.any isNul = false := by
      apply Bool.eq_false_iff.mpr
      intro hc
      obtain ⟨c, hcm, hcn⟩ := List.any_eq_true.mp hc
      have := (not_control_facts (hsafe c hcm).1).2.2
      rw [this] at hcn; cases hcn
    rw [h1, h2, h3]; rfl
  cases s with
  | nil => exact absurd rfl hne
  | cons c r =>
    obtain ⟨hblank, hpct⟩ := head_facts hhead
    have hso := stripOpening_opening p hp c (r ++ lineEnd p) hblank
    unfold readDocBody
    have hpc : ((opening p ++ (c :: r ++ lineEnd p)).head? == some '%') = false := by
      cases p <;> first
        | rfl
        | (simp only [opening, List.nil_append, List.cons_append, List.head?_cons]
           simpa using hpct)
    simp only [hpc, hnul, Bool.or_self, Bool.false_eq_true, if_false]
    rw [show (c :: r ++ lineEnd p) = c :: (r ++ lineEnd p) from rfl, hso]
    exact hnode

/-- heads of `opening p ++ s ++ …` for the frame lemma -/
theorem opening_head (p : Spec.Read.Pos) (c : Char) (r : List Char)
    (hc : c ≠ '%') (hb : c ≠ Char.ofNat 0xFEFF) :
    (opening p ++ c :: r).head? ≠ some (Char.ofNat 0xFEFF) ∧ (opening p ++ c :: r).head? ≠ some '%' := by
  cases p <;> simp [opening] <;> first | exact ⟨hb, hc⟩ | decide

/-! ### the writer side: when does `emitDoc` write the string verbatim? -/

def toRead : SerScalar.Pos → Spec.Read.Pos
  | .root => .root | .mapValue => .mapValue | .mapKey => .mapKey | .seqItem => .seqItem
  | .flowSeq => .flowSeq | .flowMapValue => .flowMapValue | .flowMapKey => .flowMapKey
  | .variant => .variant | .nestedMapValue => .nestedMapValue | .seqInMap => .seqInMap
  | .seqInSeq => .seqInSeq

def isKeyPos : SerScalar.Pos → Bool
  | .mapKey | .flowMapKey => true
  | _ => false

theorem indentCols_shift0 (o : Opts) (cx : Ctx) (d : Nat) (h : cx.shift = 0) :
    indentCols o cx d = o.indentStep * d := by
  simp only [indentCols, h, Int.add_zero]
  omega

/-- "the writer decides *plain* for `s` in position `p`": the key sink's test in key positions; in value
positions no automatic block style, no `quote_all`, the value test, and not the one-character special
case (`.` is written `'.'`); everywhere `!is_unsafe_plain_shape(s)`. -/
def writerPlain (o : Opts) (p : SerScalar.Pos) (s : List Char) : Prop :=
  if isKeyPos p then (isPlainSafe s && isPlainValueSafe s o.yaml12 true && !isUnsafePlainShape s) = true
  else o.quoteAll = false ∧ autoStyle o (toRead p).isFlow s = none ∧
       isPlainValueSafe s o.yaml12 (toRead p).isFlow = true ∧ isUnsafePlainShape s = false ∧ s ≠ ['.']

instance (o : Opts) (p : SerScalar.Pos) (s : List Char) : Decidable (writerPlain o p s) := by
  unfold writerPlain; infer_instance

theorem emit_plain (o : Opts) (p : SerScalar.Pos) (hp : simplePos (toRead p) = true) (s : List Char)
    (hw : writerPlain o p s) :
    emitDoc o p s = .ok (preamble o ++ (opening (toRead p) ++ (s ++ lineEnd (toRead p)))) := by
  unfold writerPlain at hw
  by_cases hk : isKeyPos p = true
  · rw [if_pos hk] at hw
    cases p <;> first
      | (cases hk; done)
      | (simp [emitDoc, keySinkStr, hw, opening, toRead, lineEnd, Spec.Read.Pos.closing, posPre, posPost])
  · rw [if_neg hk] at hw
    obtain ⟨hq, hauto, hpv, hu, hdot⟩ := hw
    obtain ⟨_, hhead, _, _, _, _⟩ := pvs_unfold hpv
    have hspecial : (s.length == 1 && (s == ['.'] || s == ['#'] || s == ['-'])) = false := by
      have h1 : (s == ['.']) = false := by simpa using hdot
      have h2 : (s == ['#']) = false := by
        apply Bool.eq_false_iff.mpr; intro e; have := eq_of_beq e; subst this; revert hhead; decide
      have h3 : (s == ['-']) = false := by
        apply Bool.eq_false_iff.mpr; intro e; have := eq_of_beq e; subst this; revert hhead; decide
      simp [h1, h2, h3]
    have hV : writePlainOrQuoted ['V'] false = ['V'] := by decide
    cases p <;> first
      | (cases hp; done)
      | (exfalso; exact hk rfl)
      | (simp only [toRead, Spec.Read.Pos.isFlow] at hauto hpv
         cases hy : o.yaml12 <;>
         (rw [hy] at hpv
          simp [emitDoc, posCtx, posPre, posPost, hpv, hu, hV, spaces, serializeStr, hauto, scalarTail, hspecial, writePlainOrQuotedValue, hq, preamble,
            opening, toRead, lineEnd, Spec.Read.Pos.closing, writeIndent, hy, indentCols]))

end SaphyrVerif.Lemmas.C12
