import SaphyrVerif.Model.De
/-!
`Val.beq` decides equality of typed values: a `DecidableEq Val` instance, so that concrete results of the
typed deserializer can be checked by kernel evaluation (`decide +kernel`) in the non-vacuity examples.
-/
namespace SaphyrVerif.Lemmas.CurSim
open SaphyrVerif SaphyrVerif.De

set_option linter.unusedSimpArgs false

mutual
def Val.beq : Val → Val → Bool
  | .unit, .unit => true
  | .bool a, .bool b => a == b
  | .int a, .int b => a == b
  | .float w a, .float w' b => w == w' && a == b
  | .char a, .char b => a == b
  | .str a, .str b => a == b
  | .bytes a, .bytes b => a == b
  | .none, .none => true
  | .some a, .some b => Val.beq a b
  | .seq a, .seq b => Val.beqL a b
  | .map a, .map b => Val.beqE a b
  | .struct a, .struct b => Val.beqF a b
  | .variant n a, .variant n' b => n == n' && Val.beq a b
  | _, _ => false
def Val.beqL : List Val → List Val → Bool
  | [], [] => true
  | a :: as, b :: bs => Val.beq a b && Val.beqL as bs
  | _, _ => false
def Val.beqE : List (Val × Val) → List (Val × Val) → Bool
  | [], [] => true
  | (k1, v1) :: as, (k2, v2) :: bs => Val.beq k1 k2 && Val.beq v1 v2 && Val.beqE as bs
  | _, _ => false
def Val.beqF : List (String × Val) → List (String × Val) → Bool
  | [], [] => true
  | (n1, v1) :: as, (n2, v2) :: bs => n1 == n2 && Val.beq v1 v2 && Val.beqF as bs
  | _, _ => false
end

mutual
theorem Val.beq_iff : ∀ (a b : Val), Val.beq a b = true ↔ a = b
  | .unit, b => by cases b <;> simp [Val.beq]
  | .bool x, b => by cases b <;> simp [Val.beq]
  | .int x, b => by cases b <;> simp [Val.beq]
  | .float w x, b => by cases b <;> simp [Val.beq]
  | .char x, b => by cases b <;> simp [Val.beq]
  | .str x, b => by cases b <;> simp [Val.beq]
  | .bytes x, b => by cases b <;> simp [Val.beq]
  | .none, b => by cases b <;> simp [Val.beq]
  | .some x, b => by
    cases b <;> simp only [Val.beq, Bool.false_eq_true, false_iff, reduceCtorEq, not_false_eq_true]
    rename_i y
    rw [Val.beq_iff x y]
    simp
  | .seq xs, b => by
    cases b <;> simp only [Val.beq, Bool.false_eq_true, false_iff, reduceCtorEq, not_false_eq_true]
    rename_i ys
    rw [Val.beqL_iff xs ys]
    simp
  | .map xs, b => by
    cases b <;> simp only [Val.beq, Bool.false_eq_true, false_iff, reduceCtorEq, not_false_eq_true]
    rename_i ys
    rw [Val.beqE_iff xs ys]
    simp
  | .struct xs, b => by
    cases b <;> simp only [Val.beq, Bool.false_eq_true, false_iff, reduceCtorEq, not_false_eq_true]
    rename_i ys
    rw [Val.beqF_iff xs ys]
    simp
  | .variant n x, b => by
    cases b <;> simp only [Val.beq, Bool.false_eq_true, false_iff, reduceCtorEq, not_false_eq_true]
    rename_i n' y
    simp [Val.beq_iff x y]
theorem Val.beqL_iff : ∀ (a b : List Val), Val.beqL a b = true ↔ a = b
  | [], b => by cases b <;> simp [Val.beqL]
  | x :: xs, b => by
    cases b with
    | nil => simp [Val.beqL]
    | cons y ys => simp [Val.beqL, Val.beq_iff x y, Val.beqL_iff xs ys]
theorem Val.beqE_iff : ∀ (a b : List (Val × Val)), Val.beqE a b = true ↔ a = b
  | [], b => by cases b <;> simp [Val.beqE]
  | (k, v) :: xs, b => by
    cases b with
    | nil => simp [Val.beqE]
    | cons y ys =>
      obtain ⟨k', v'⟩ := y
      simp [Val.beqE, Val.beq_iff k k', Val.beq_iff v v', Val.beqE_iff xs ys, and_assoc]
theorem Val.beqF_iff : ∀ (a b : List (String × Val)), Val.beqF a b = true ↔ a = b
  | [], b => by cases b <;> simp [Val.beqF]
  | (k, v) :: xs, b => by
    cases b with
    | nil => simp [Val.beqF]
    | cons y ys =>
      obtain ⟨k', v'⟩ := y
      simp [Val.beqF, Val.beq_iff v v', Val.beqF_iff xs ys, and_assoc]
end

instance : DecidableEq Val := fun a b => decidable_of_iff _ (Val.beq_iff a b)

end SaphyrVerif.Lemmas.CurSim
