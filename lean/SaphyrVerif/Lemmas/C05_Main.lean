import SaphyrVerif.Lemmas.C05_Enum
/-!
Helper lemmas for C05, part 14: the refinement of every position, by induction on the nesting depth of the
node and the size of the target type.
-/
namespace SaphyrVerif.Lemmas.C05
open SaphyrVerif SaphyrVerif.Scalars SaphyrVerif.Pump SaphyrVerif.De SaphyrVerif.Spec

@[simp] theorem tfree_newtype (t : Ty) : tfree (.newtype t) = tfree t := by rw [tfree]
@[simp] theorem tfree_option (t : Ty) : tfree (.option t) = tfree t := by rw [tfree]
@[simp] theorem tfree_seq (t : Ty) : tfree (.seq t) = tfree t := by rw [tfree]
@[simp] theorem tfree_tuple (ts : List Ty) : tfree (.tuple ts) = false := by rw [tfree]
@[simp] theorem tfree_map (k v : Ty) : tfree (.map k v) = (tfree k && tfree v) := by rw [tfree]
@[simp] theorem tfree_struct (fs : List (String × Ty)) (d : Bool) : tfree (.struct fs d) = tfreeF fs := by rw [tfree]
@[simp] theorem tfree_enum (n : String) (vs : List (String × VTy)) : tfree (.enum n vs) = tfreeV vs := by rw [tfree]

/-- the refinement of all positions on nodes of depth at most `d` -/
def AllRef (cfg : Cfg) (d : Nat) : Prop :=
  ∀ (ty : Ty) (t : ENode), depthOf t ≤ d → kfree t = true → Ref (!tfree ty) cfg ty t

theorem AllRef.sub {cfg : Cfg} {d : Nat} (h : AllRef cfg d) (df : Bool) : SubRef df cfg (d + 1) := by
  intro t' ty h1 h2 h3
  refine (h ty t' (by omega) h2).mono (fun hd => ?_)
  cases df with
  | true => rfl
  | false => rw [h3 rfl] at hd; cases hd

theorem sizeOf_newtype_variant {name : String} {variants : List (String × VTy)} {nm : String} {ty : Ty}
    (hm : (nm, VTy.newtype ty) ∈ variants) : sizeOf ty < sizeOf (Ty.enum name variants) := by
  have := List.sizeOf_lt_of_mem hm
  simp at this ⊢
  omega

theorem allRef (cfg : Cfg) : ∀ d, AllRef cfg d := by
  intro d
  induction d with
  | zero => intro ty t h; have := depthOf_pos t; omega
  | succ d ihd =>
    -- inner induction on the size of the type
    have inner : ∀ s, ∀ (ty : Ty) (t : ENode), sizeOf ty ≤ s → depthOf t ≤ d + 1 → kfree t = true → Ref (!tfree ty) cfg ty t := by
      intro s
      induction s with
      | zero => intro ty t hs; cases ty <;> simp at hs
      | succ s ihs =>
        intro ty t hs hd hk
        -- nodes below `t`
        have hbelow : ∀ t', depthOf t' < depthOf t → depthOf t' ≤ d := fun t' h => by omega
        cases ty with
        | bool => exact ref_bool _ cfg t
        | int sg w => exact ref_int _ cfg sg w t
        | float w => exact ref_float _ cfg w t
        | char => exact ref_char _ cfg t
        | string => exact ref_string _ cfg t
        | unit => exact ref_unit _ cfg t
        | bytes => exact ref_bytes _ cfg t
        | newtype ty' =>
          have := ihs ty' t (by simp at hs; omega) hd hk
          simpa using ref_newtype this
        | option ty' =>
          have := ihs ty' t (by simp at hs; omega) hd hk
          simpa using ref_option this
        | seq te =>
          simp only [tfree_seq]
          apply ref_seq
          intro a tag rt l el items ht it hit
          subst ht
          simp only [kfree_seq] at hk
          exact ihd te it (hbelow it (by have := depthOfL_mem hit; simp; omega)) (kfreeL_mem hk hit)
        | tuple ts =>
          simp only [tfree_tuple, Bool.not_false]
          apply ref_tuple
          intro a tag rt l el items ht it hit ty'
          subst ht
          simp only [kfree_seq] at hk
          exact (ihd ty' it (hbelow it (by have := depthOfL_mem hit; simp; omega)) (kfreeL_mem hk hit)).mono (fun _ => rfl)
        | map kt vt =>
          apply ref_map hk
          · intro e he
            exact keyRef_ty (ihd kt e.1 (hbelow _ he.1) he.2.2.1)
          · intro e he
            refine (ihd vt e.2 (hbelow _ he.2.1) he.2.2.2.1).mono (fun h => ?_)
            simp only [tfree_map]
            cases hkt : tfree kt <;> simp_all
        | struct fields deny =>
          apply ref_struct hk
          · intro e he nt hnt
            refine (ihd nt.2 e.2 (hbelow _ he.2.1) he.2.2.2.1).mono (fun h => ?_)
            simp only [tfree_struct]
            cases hf : tfreeF fields with
            | false => rfl
            | true => rw [tfreeF_mem hf hnt] at h; cases h
          · intro e he
            refine (ihd .any e.2 (hbelow _ he.2.1) he.2.2.2.1).mono (fun h => ?_)
            rw [tfree_any] at h; cases h
        | any =>
          rw [tfree_any]
          apply ref_any hk
          intro t' h1 h2
          have := ihd .any t' (hbelow t' h1) h2
          rwa [tfree_any] at this
        | enum name variants =>
          simp only [tfree_enum]
          apply ref_enum hk
          · intro h; simpa using h
          · intro ty' nm hm t' hd' hk'
            refine (ihs ty' t' (by have := sizeOf_newtype_variant (name := name) hm; omega) (by omega) hk').mono (fun h => ?_)
            cases hv : tfreeV variants with
            | false => rfl
            | true =>
              have := tfreeV_mem hv hm
              simp only [vtFree] at this
              rw [this] at h; cases h
          · exact (ihd.sub _).mono hd
    intro ty t hd hk
    exact inner (sizeOf ty) ty t (Nat.le_refl _) hd hk

/-- the refinement of every position -/
theorem ref_all (cfg : Cfg) (ty : Ty) (t : ENode) (hk : kfree t = true) : Ref (!tfree ty) cfg ty t :=
  allRef cfg (depthOf t) ty t (Nat.le_refl _) hk

end SaphyrVerif.Lemmas.C05
