import SaphyrVerif.Model.De
/-!
C15, clause "no hash seed survives": the duplicate-key set `seen` of the map access (`FastHashSet<KeyFingerprint>`
in `de.rs`, a list in `Model/De.lean`) is used for membership tests and insertion only. Hence
`MA::next_key_seed` computes the same thing for any two representations of the same set
(order, duplicates, hash seed, iteration order are unobservable).
-/
namespace SaphyrVerif.De

/-- two representations of the same set of fingerprints -/
def SeenEq (a b : List FP) : Prop := ∀ fp, a.any (· == fp) = b.any (· == fp)

def reSeen (s' : List FP) : R (KeyStep × MA) → R (KeyStep × MA)
  | .ok (.key kv fp, m) c => .ok (.key kv fp, { m with seen := fp :: s' }) c
  | .ok (.done, m) c => .ok (.done, { m with seen := s' }) c
  | .err e c => .err e c

theorem seenContains_congr (m : MA) (s' : List FP) (hs : SeenEq s' m.seen) (fp : FP) :
    MA.seenContains { m with seen := s' } fp = m.seenContains fp := hs fp

theorem enqueue_seen (m : MA) (s' : List FP) :
    enqueueNextMergeBatch { m with seen := s' } =
      ((enqueueNextMergeBatch m).1, { (enqueueNextMergeBatch m).2 with seen := s' }) := by
  simp [enqueueNextMergeBatch]

theorem enqueue_seen_eq (m : MA) : (enqueueNextMergeBatch m).2.seen = m.seen := by
  simp [enqueueNextMergeBatch]

theorem nextKey_reSeen : ∀ fuel cfg ks c (m : MA) (s' : List FP), SeenEq s' m.seen →
    nextKey fuel cfg ks c { m with seen := s' } = reSeen s' (nextKey fuel cfg ks c m) := by
  intro fuel
  induction fuel with
  | zero => intro cfg ks c m s' _; simp [nextKey, reSeen]
  | succ n ih =>
    intro cfg ks c m s' hs
    obtain ⟨hk, seen, pending, ms, fl, pv⟩ := m
    have e1 : ∀ fp, s'.any (· == fp) = seen.any (· == fp) := hs
    dsimp only
    rw [nextKey, nextKey]
    dsimp only [MA.seenContains]
    cases pending with
    | cons entry rest =>
      dsimp only
      have hb := e1 entry.key.fp
      generalize (s'.any fun x => x == entry.key.fp) = b1 at hb ⊢
      generalize (seen.any fun x => x == entry.key.fp) = b2 at hb ⊢
      subst hb
      generalize hsk : (if fl = true then _ else _ : Option (Option DErr)) = sk
      generalize hdk : deserKey n cfg ks _ _ = dk
      match sk with
      | some (some e) => rfl
      | some none => exact ih cfg ks c ⟨hk, seen, rest, ms, fl, pv⟩ s' hs
      | none =>
        match dk with
        | .error e => rfl
        | .ok kv => rfl
    | nil =>
      dsimp only
      -- what `enqueue_next_merge_batch` does is independent of `seen`
      have hen : ∀ flg, enqueueNextMergeBatch ⟨hk, s', [], ms, flg, pv⟩ =
          ((enqueueNextMergeBatch ⟨hk, seen, [], ms, flg, pv⟩).1,
           { (enqueueNextMergeBatch ⟨hk, seen, [], ms, flg, pv⟩).2 with seen := s' }) :=
        fun flg => enqueue_seen ⟨hk, seen, [], ms, flg, pv⟩ s'
      have hfin : ∀ (c : Cur) (flg : Bool),
          (if (enqueueNextMergeBatch ⟨hk, s', [], ms, flg, pv⟩).1 = true then
              nextKey n cfg ks c (enqueueNextMergeBatch ⟨hk, s', [], ms, flg, pv⟩).2
            else R.ok (KeyStep.done, { (enqueueNextMergeBatch ⟨hk, s', [], ms, flg, pv⟩).2 with flushingMerges := false }) c) =
          reSeen s' (if (enqueueNextMergeBatch ⟨hk, seen, [], ms, flg, pv⟩).1 = true then
              nextKey n cfg ks c (enqueueNextMergeBatch ⟨hk, seen, [], ms, flg, pv⟩).2
            else R.ok (KeyStep.done, { (enqueueNextMergeBatch ⟨hk, seen, [], ms, flg, pv⟩).2 with flushingMerges := false }) c) := by
        intro c flg
        rw [hen]
        have hE := enqueue_seen_eq ⟨hk, seen, [], ms, flg, pv⟩
        generalize enqueueNextMergeBatch ⟨hk, seen, [], ms, flg, pv⟩ = e at hE ⊢
        obtain ⟨found, ⟨a1, a2, a3, a4, a5, a6⟩⟩ := e
        dsimp only at hE ⊢
        subst hE
        cases found
        · rfl
        · exact ih cfg ks c ⟨a1, a2, a3, a4, a5, a6⟩ s' hs
      cases fl with
      | true => exact hfin c true
      | false =>
        simp only [Bool.false_eq_true, if_false]
        generalize c.peek = pk
        match pk with
        | .err e c' => rfl
        | .ok none c' => rfl
        | .ok (some ev) c' =>
          cases ev
          case mapEnd loc =>
            dsimp only
            generalize c'.next = nx
            match nx with
            | .err e c2 => rfl
            | .ok a c2 =>
              dsimp only
              cases ms with
              | nil => rfl
              | cons b bs =>
                dsimp only [List.isEmpty]
                simp only [Bool.false_eq_true, if_false]
                exact hfin c2 true
          all_goals
            dsimp only
            generalize capture n c' = cap
            match cap with
            | .err e c2 => rfl
            | .ok keyNode c2 =>
              dsimp only
              generalize isMergeKey keyNode = mk
              cases mk
              · simp only [Bool.false_eq_true, if_false]
                have hb := e1 keyNode.fp
                generalize (s'.any fun x => x == keyNode.fp) = b1 at hb ⊢
                generalize (seen.any fun x => x == keyNode.fp) = b2 at hb ⊢
                subst hb
                have hdeliver :
                    (if (match keyNode.fp with
                          | FP.map [(FP.scalar sv stag, _)] => fpNullish sv stag
                          | _ => false) = true then
                        match c2.peek with
                        | R.err e c => R.err e c
                        | R.ok _ c =>
                          match capture n c with
                          | R.err e c => R.err e c
                          | R.ok valueNode c_1 =>
                            nextKey n cfg ks c_1 ⟨hk, s', [⟨keyNode, valueNode, c.refLoc⟩], ms, false, pv⟩
                      else
                        match deserKey n cfg ks keyNode.events (match keyNode.fp with | FP.map [] => true | _ => false) with
                        | Except.error e => R.err e c2
                        | Except.ok kv => R.ok (KeyStep.key kv keyNode.fp, ⟨true, keyNode.fp :: s', [], ms, false, none⟩) c2) =
                    reSeen s' (if (match keyNode.fp with
                          | FP.map [(FP.scalar sv stag, _)] => fpNullish sv stag
                          | _ => false) = true then
                        match c2.peek with
                        | R.err e c => R.err e c
                        | R.ok _ c =>
                          match capture n c with
                          | R.err e c => R.err e c
                          | R.ok valueNode c_1 =>
                            nextKey n cfg ks c_1 ⟨hk, seen, [⟨keyNode, valueNode, c.refLoc⟩], ms, false, pv⟩
                      else
                        match deserKey n cfg ks keyNode.events (match keyNode.fp with | FP.map [] => true | _ => false) with
                        | Except.error e => R.err e c2
                        | Except.ok kv => R.ok (KeyStep.key kv keyNode.fp, ⟨true, keyNode.fp :: seen, [], ms, false, none⟩) c2) := by
                  generalize (match keyNode.fp with
                          | FP.map [(FP.scalar sv stag, _)] => fpNullish sv stag
                          | _ => false) = on
                  cases on
                  · simp only [Bool.false_eq_true, if_false]
                    generalize deserKey n cfg ks _ _ = dk
                    match dk with
                    | .error e => rfl
                    | .ok kv => rfl
                  · simp only [if_true]
                    generalize c2.peek = pk2
                    match pk2 with
                    | .err e c3 => rfl
                    | .ok a c3 =>
                      dsimp only
                      generalize capture n c3 = cap2
                      match cap2 with
                      | .err e c4 => rfl
                      | .ok valueNode c4 => exact ih cfg ks c4 ⟨hk, seen, _, ms, false, pv⟩ s' hs
                have hskip :
                    (match skipOneNode n c2 with
                      | R.err e c => R.err e c
                      | R.ok _ c => nextKey n cfg ks c ⟨hk, s', [], ms, false, pv⟩) =
                    reSeen s' (match skipOneNode n c2 with
                      | R.err e c => R.err e c
                      | R.ok _ c => nextKey n cfg ks c ⟨hk, seen, [], ms, false, pv⟩) := by
                  generalize skipOneNode n c2 = sk
                  match sk with
                  | .err e c3 => rfl
                  | .ok a c3 => exact ih cfg ks c3 ⟨hk, seen, [], ms, false, pv⟩ s' hs
                generalize cfg.dup = d
                cases d <;> cases b1 <;>
                  simp only [Nat.reduceBEq, Bool.false_eq_true, if_false, if_true, beq_self_eq_true] <;>
                  first | rfl | exact hdeliver | exact hskip
              · simp only [if_true]
                generalize c2.peek = pk2
                match pk2 with
                | .err e c3 => rfl
                | .ok a c3 =>
                  dsimp only
                  generalize pendingFromLive n c3 c3.refLoc = pl
                  match pl with
                  | .err e c4 => rfl
                  | .ok entries c4 =>
                    dsimp only
                    cases entries with
                    | nil => exact ih cfg ks c4 ⟨hk, seen, [], ms, false, pv⟩ s' hs
                    | cons x xs => exact ih cfg ks c4 ⟨hk, seen, [], (x :: xs) :: ms, false, pv⟩ s' hs

/-- permutations represent the same set -/
theorem SeenEq.of_perm {a b : List FP} (h : a.Perm b) : SeenEq a b := fun _ => h.any_eq

end SaphyrVerif.De
