import SaphyrVerif.Lemmas.C12Quoted
import SaphyrVerif.Lemmas.C12Frame
/-!
Helper lemmas for C12: quoted scalars at node / document level (the readers continue with whatever
follows the closing quote; the emitted texts contain no U+0000).
-/
namespace SaphyrVerif.Lemmas.C12
open SaphyrVerif SaphyrVerif.SerScalar SaphyrVerif.Spec.Read SaphyrVerif.Scalars

theorem dq_body_rest (s rest acc : List Char) :
    dqRun .norm (s.flatMap dqEscape ++ '"' :: rest) acc = some (acc.reverse ++ s, rest) := by
  induction s generalizing acc with
  | nil => simp [dqRun]
  | cons c s ih =>
    rw [List.flatMap_cons, List.append_assoc, dq_char, ih]
    simp

theorem key_body_rest (s rest acc : List Char) :
    dqRun .norm (s.flatMap keyEscape ++ '"' :: rest) acc = some (acc.reverse ++ s, rest) := by
  induction s generalizing acc with
  | nil => simp [dqRun]
  | cons c s ih =>
    rw [List.flatMap_cons, List.append_assoc, key_char, ih]
    simp

theorem sq_body_rest (s rest acc : List Char) (h : ∀ c ∈ s, isBreak c = false ∧ isNul c = false)
    (hr : rest.head? ≠ some '\'') :
    sqRun false (s.flatMap sqEsc ++ '\'' :: rest) acc = some (acc.reverse ++ s, rest) := by
  induction s generalizing acc with
  | nil =>
    cases rest with
    | nil => simp [sqRun]
    | cons x r =>
      have : (x == '\'') = false := by
        apply Bool.eq_false_iff.mpr; intro e; apply hr; simp [eq_of_beq e]
      simp [sqRun, this]
  | cons c s ih =>
    have hc := h c (by simp)
    rw [List.flatMap_cons, List.append_assoc, sq_char c _ _ hc.1 hc.2, ih]
    · simp
    · intro d hd; exact h d (by simp [hd])

/-! ### no U+0000 in the emitted quoted texts -/

theorem hexUp_noNul : ∀ d, d < 16 → isNul (hexUp d) = false := by decide

theorem dqEscape_noNul (c : Char) : (dqEscape c).any isNul = false := by
  unfold dqEscape
  by_cases h0 : (c == '\\') = true
  · rw [if_pos h0]; decide
  rw [if_neg h0]
  by_cases h1 : (c == '"') = true
  · rw [if_pos h1]; decide
  rw [if_neg h1]
  by_cases h2 : (c.toNat == 0) = true
  · rw [if_pos h2]; decide
  rw [if_neg h2]
  by_cases h3 : (c.toNat == 7) = true
  · rw [if_pos h3]; decide
  rw [if_neg h3]
  by_cases h4 : (c.toNat == 8) = true
  · rw [if_pos h4]; decide
  rw [if_neg h4]
  by_cases h5 : (c == '\t') = true
  · rw [if_pos h5]; decide
  rw [if_neg h5]
  by_cases h6 : (c == '\n') = true
  · rw [if_pos h6]; decide
  rw [if_neg h6]
  by_cases h7 : (c.toNat == 0xB) = true
  · rw [if_pos h7]; decide
  rw [if_neg h7]
  by_cases h8 : (c.toNat == 0xC) = true
  · rw [if_pos h8]; decide
  rw [if_neg h8]
  by_cases h9 : (c == '\r') = true
  · rw [if_pos h9]; decide
  rw [if_neg h9]
  by_cases h10 : (c.toNat == 0x1B) = true
  · rw [if_pos h10]; decide
  rw [if_neg h10]
  by_cases h11 : (c.toNat == 0xFEFF) = true
  · rw [if_pos h11]; decide
  rw [if_neg h11]
  by_cases h12 : (c.toNat == 0x85) = true
  · rw [if_pos h12]; decide
  rw [if_neg h12]
  by_cases h13 : (c.toNat == 0x2028) = true
  · rw [if_pos h13]; decide
  rw [if_neg h13]
  by_cases h14 : (c.toNat == 0x2029) = true
  · rw [if_pos h14]; decide
  rw [if_neg h14]
  by_cases h15 : (decide (c.toNat ≤ 0xFF) && (isControl c || (decide (0x7F ≤ c.toNat) && decide (c.toNat ≤ 0x9F)))) = true
  · rw [if_pos h15]
    simp only [Bool.and_eq_true, decide_eq_true_eq] at h15
    have hd1 : c.toNat / 16 < 16 := by omega
    have hd2 : c.toNat % 16 < 16 := by omega
    simp only [hex2, List.any_cons, List.any_nil, Bool.or_false, hexUp_noNul _ hd1, hexUp_noNul _ hd2]
    decide
  rw [if_neg h15]
  by_cases h16 : (decide (c.toNat ≤ 0xFFFF) && (isControl c || (decide (0x7F ≤ c.toNat) && decide (c.toNat ≤ 0x9F)))) = true
  · rw [if_pos h16]
    simp only [hex4, List.any_cons, List.any_nil, Bool.or_false,
      hexUp_noNul _ (Nat.mod_lt _ (by decide : 16 > 0))]
    decide
  rw [if_neg h16]
  simp only [List.any_cons, List.any_nil, Bool.or_false, isNul]
  simpa using h2

theorem keyEscape_noNul (c : Char) : (keyEscape c).any isNul = false := by
  unfold keyEscape
  by_cases h0 : (c == '\\') = true
  · rw [if_pos h0]; decide
  rw [if_neg h0]
  by_cases h1 : (c == '"') = true
  · rw [if_pos h1]; decide
  rw [if_neg h1]
  by_cases h2 : (c == '\n') = true
  · rw [if_pos h2]; decide
  rw [if_neg h2]
  by_cases h3 : (c == '\r') = true
  · rw [if_pos h3]; decide
  rw [if_neg h3]
  by_cases h4 : (c == '\t') = true
  · rw [if_pos h4]; decide
  rw [if_neg h4]
  by_cases h5 : isControl c = true
  · rw [if_pos h5]
    simp only [hex4, List.any_cons, List.any_nil, Bool.or_false,
      hexUp_noNul _ (Nat.mod_lt _ (by decide : 16 > 0))]
    decide
  rw [if_neg h5]
  have := (not_control_facts (by simpa using h5)).2.2
  simp only [List.any_cons, List.any_nil, Bool.or_false]
  exact this

theorem flatMap_noNul (f : Char → List Char) (hf : ∀ c, (f c).any isNul = false) (s : List Char) :
    (s.flatMap f).any isNul = false := by
  induction s with
  | nil => rfl
  | cons c s ih => rw [List.flatMap_cons, List.any_append, hf c, ih]; rfl

theorem writeQuoted_noNul (s : List Char) : (writeQuoted s).any isNul = false := by
  unfold writeQuoted
  simp only [List.any_cons, List.any_append, flatMap_noNul dqEscape dqEscape_noNul s, List.any_nil]
  decide

/-- the key sink's quoted form -/
def keyQuoted (s : List Char) : List Char := '"' :: (s.flatMap keyEscape ++ ['"'])

theorem keyQuoted_noNul (s : List Char) : (keyQuoted s).any isNul = false := by
  unfold keyQuoted
  simp only [List.any_cons, List.any_append, flatMap_noNul keyEscape keyEscape_noNul s, List.any_nil]
  decide

theorem writeSingleQuoted_noNul (s : List Char) (h : needsDoubleQuotes s = false) :
    (writeSingleQuoted s).any isNul = false := by
  unfold writeSingleQuoted
  have hf : (s.flatMap (fun c => if c == '\'' then ['\'', '\''] else [c])).any isNul = false := by
    apply Bool.eq_false_iff.mpr
    intro hc
    obtain ⟨x, hx, hxn⟩ := List.any_eq_true.mp hc
    simp only [List.mem_flatMap] at hx
    obtain ⟨c, hcs, hxc⟩ := hx
    have hcc := any_false_mem h c hcs
    simp only [Bool.or_eq_false_iff] at hcc
    split at hxc
    · simp only [List.mem_cons, List.mem_nil_iff, or_false, or_self] at hxc
      subst hxc; revert hxn; decide
    · simp only [List.mem_singleton] at hxc
      subst hxc
      rw [(not_control_facts hcc.2).2.2] at hxn; cases hxn
  simp only [List.any_cons, List.any_append, hf, List.any_nil]
  decide

/-! ### node level -/

theorem lineEnd_head (p : Spec.Read.Pos) : (lineEnd p).head? ≠ some '\'' := by
  cases p <;> decide

theorem startKind_dq (flow col0 : Bool) (t : List Char) : startKind flow col0 ('"' :: t) = .dq := by
  have hm : isDocMarker ('"' :: t) = false := isDocMarker_head _ _ (by decide) (by decide)
  cases flow <;> cases col0 <;> simp [startKind, hm, isFlowInd]

theorem startKind_sq (flow col0 : Bool) (t : List Char) : startKind flow col0 ('\'' :: t) = .sq := by
  have hm : isDocMarker ('\'' :: t) = false := isDocMarker_head _ _ (by decide) (by decide)
  cases flow <;> cases col0 <;> simp [startKind, hm, isFlowInd]

theorem readNode_dq (p : Spec.Read.Pos) (s : List Char) (col0 : Bool) (parent : Int) :
    readNode p (writeQuoted s ++ lineEnd p) col0 parent = some (.double, s) := by
  unfold readNode writeQuoted
  simp only [List.cons_append, startKind_dq, readDq, List.append_assoc]
  rw [List.nil_append, dq_body_rest]
  simp only [List.reverse_nil, List.nil_append, Option.bind_some]
  exact finishLine_lineEnd p .double s

theorem readNode_keydq (p : Spec.Read.Pos) (s : List Char) (col0 : Bool) (parent : Int) :
    readNode p (keyQuoted s ++ lineEnd p) col0 parent = some (.double, s) := by
  unfold readNode keyQuoted
  simp only [List.cons_append, startKind_dq, readDq, List.append_assoc]
  rw [List.nil_append, key_body_rest]
  simp only [List.reverse_nil, List.nil_append, Option.bind_some]
  exact finishLine_lineEnd p .double s

theorem readNode_sq (p : Spec.Read.Pos) (s : List Char) (col0 : Bool) (parent : Int)
    (h : needsDoubleQuotes s = false) :
    readNode p (writeSingleQuoted s ++ lineEnd p) col0 parent = some (.single, s) := by
  have hchars : ∀ c ∈ s, isBreak c = false ∧ isNul c = false := by
    intro c hc
    have hc' := any_false_mem h c hc
    simp only [Bool.or_eq_false_iff] at hc'
    obtain ⟨_, hb, hn⟩ := not_control_facts hc'.2
    exact ⟨hb, hn⟩
  unfold readNode writeSingleQuoted
  simp only [List.cons_append, startKind_sq, readSq, List.append_assoc]
  show (sqRun false (List.flatMap sqEsc s ++ '\'' :: lineEnd p) []).bind _ = _
  rw [sq_body_rest s (lineEnd p) [] hchars (lineEnd_head p)]
  simp only [List.reverse_nil, List.nil_append, Option.bind_some]
  exact finishLine_lineEnd p .single s

end SaphyrVerif.Lemmas.C12
