import SaphyrVerif.Lemmas.C11_TypedFam
/-!
Typed multi-document theorems (C11), part 5c: the frame step for the deserializer proper, sequences and
mappings.
-/
namespace SaphyrVerif.Lemmas.Frame
open SaphyrVerif SaphyrVerif.Scalars SaphyrVerif.Pump SaphyrVerif.De
open SaphyrVerif.Lemmas.C05 (Ev.delta)
open SaphyrVerif.Lemmas.CurSim (PL PLL MRel KM VM EV)

set_option linter.unusedSimpArgs false
set_option linter.unusedVariables false

variable {K : Ctx}

theorem deser_frStep {fuel : Nat} (ih : FrA K fuel) :
    ∀ cfg ty ik km {c c'}, FSim K c c' → pos c < K.buf.length →
      RF K Eq (De.deser (fuel + 1) cfg ty ik km c) (De.deser (fuel + 1) cfg ty ik km c') := by
  intro cfg ty ik km c c' hs hin
  cases ty <;> rw [De.deser, De.deser]
  all_goals fr_loop

theorem deserMapLike_frStep {fuel : Nat} (ih : FrA K fuel) :
    ∀ cfg shape {c c'}, FSim K c c' → pos c < K.buf.length →
      RF K Eq (De.deserMapLike (fuel + 1) cfg shape c) (De.deserMapLike (fuel + 1) cfg shape c') := by
  intro cfg shape c c' hs hin
  rw [De.deserMapLike, De.deserMapLike]
  fr_loop


theorem deserSeqLike_frStep {fuel : Nat} (ih : FrA K fuel) :
    ∀ cfg shape {c c'}, FSim K c c' → pos c < K.buf.length →
      RF K Eq (De.deserSeqLike (fuel + 1) cfg shape c) (De.deserSeqLike (fuel + 1) cfg shape c') := by
  intro cfg shape c c' hs hin
  have hnn := hs.dep_nonneg
  obtain ⟨e1, d', hb1, hp, hp', hs1⟩ := hs.peek hin
  obtain ⟨e2, e, e', hb2, hn, hn', hs2, hpos2, hdep2⟩ := hs1.next hin
  have he : e1 = e2 := by rw [hb1] at hb2; exact Option.some.inj hb2
  subst he
  rcases shape with t | ts
  case inr =>
    rw [De.deserSeqLike, De.deserSeqLike]
    rw [hp, hp']
    simp only [hn, hn']
    rcases e1 with ⟨v, tag, rt, st, a, l⟩ | _ | _ | _ | _ <;> simp only [Ev.delta, Int.add_zero] at hdep2
    case scalar =>
      by_cases h1 : (tag == tagNull || scalarIsNullish v st) = true
      · by_cases h3 : ts.isEmpty = true
        · simp only [h1, h3, ↓reduceIte, Bool.false_eq_true]
          fr_loop
        · simp only [h1, h3, ↓reduceIte, Bool.false_eq_true]
          fr_loop
      · by_cases h2 : (tag == tagBinary) = true
        · simp only [h1, h2, ↓reduceIte, Bool.false_eq_true]
          cases Base64.decode (utf8Bytes v) <;> simp only [] <;> fr_loop
        · simp only [h1, h2, ↓reduceIte, Bool.false_eq_true]
          fr_loop
    all_goals
      simp only []
      fr_loop
  rw [De.deserSeqLike, De.deserSeqLike]
  rw [hp, hp']
  simp only [hn, hn']
  rcases e1 with ⟨v, tag, rt, st, a, l⟩ | _ | _ | _ | _ <;> simp only [Ev.delta, Int.add_zero] at hdep2
  case scalar =>
    by_cases h1 : (tag == tagNull || scalarIsNullish v st) = true
    · simp only [h1, ↓reduceIte, Bool.false_eq_true]
      fr_loop
    · by_cases h2 : (tag == tagBinary) = true
      · simp only [h1, h2, ↓reduceIte, Bool.false_eq_true]
        cases Base64.decode (utf8Bytes v) <;> simp only [] <;> fr_loop
      · simp only [h1, h2, ↓reduceIte, Bool.false_eq_true]
        fr_loop
  all_goals
    simp only []
    fr_loop

end SaphyrVerif.Lemmas.Frame
