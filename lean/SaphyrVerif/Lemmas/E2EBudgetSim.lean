import SaphyrVerif.Lemmas.E2EBudgetTrace
import SaphyrVerif.Lemmas.E2EBudgetMono
/-!
End-to-end composition with the budget enforcer, part 15 (enforcer level): what the enforcer does with the
observations of a pump run — raw events, replayed events without anchor and tag, and
`observe_alias_to_be_replayed` calls — compared with what it does (`Budget.run`, the subject of `Props/C07`) with
the stream of the same events stripped of anchors and tags and without the alias calls: same nesting depth,
container stack, node / byte / document counters, at most as many merge keys; the event counter is ahead by the
number of alias calls, which is the alias counter; the anchors are those of the raw events.
-/
namespace SaphyrVerif.Lemmas.E2EBudget
open SaphyrVerif SaphyrVerif.Scalars SaphyrVerif.Budget SaphyrVerif.Spec
open SaphyrVerif.Lemmas.C07

set_option linter.unusedSimpArgs false
set_option linter.unusedVariables false

/-- the limits the stripped stream is run under: `K` events are set aside for the alias calls -/
def limX (lim : Limits) (K : Nat) : Limits := { lim with maxEvents := lim.maxEvents - K }

/-- enforcer over the pump's observations (`e`, after `k` alias calls) versus enforcer over the stripped stream
(`eX`) -/
structure SimRel (lim : Limits) (K : Nat) (e eX : Enf) (k : Nat) : Prop where
  lim_e : e.lim = lim
  lim_x : eX.lim = limX lim K
  pd_e : e.perDocument = false
  pd_x : eX.perDocument = false
  within_x : Within eX
  depth : e.depth = eX.depth
  containers : e.containers = eX.containers
  events : e.report.events = eX.report.events + k
  aliases : e.report.aliases = k
  documents : e.report.documents = eX.report.documents
  nodes : e.report.nodes = eX.report.nodes
  maxDepth : e.report.maxDepth = eX.report.maxDepth
  bytes : e.report.totalScalarBytes = eX.report.totalScalarBytes
  mergeKeys : e.report.mergeKeys ≤ eX.report.mergeKeys

theorem erase_kinds (r : Raw) :
    isNodeEv (erase r) = isNodeEv r ∧ isStart (erase r) = isStart r ∧ isEnd (erase r) = isEnd r ∧
    isDocStart (erase r) = isDocStart r ∧ isAliasEv (erase r) = isAliasEv r ∧ scalarBytesOf (erase r) = scalarBytesOf r := by
  cases r <;> simp [erase, isNodeEv, isStart, isEnd, isDocStart, isAliasEv, scalarBytesOf]

theorem cstep_erase (cs : List CState) (r : Raw) : cstep false cs (erase r) = cstep false cs r := by
  cases r <;> rfl

theorem wf_erase (cs : List CState) (r : Raw) : wf cs (erase r) = wf cs r := by
  cases r <;> rfl

theorem mkOf_erase_ge (cs : List CState) (r : Raw) : mkOf cs r ≤ mkOf cs (erase r) := by
  cases r <;> simp [mkOf, erase, b2n]
  rename_i v st a tag
  cases isKeyTop cs <;> cases tag <;> simp

theorem tsb_erase (t : Nat) (r : Raw) :
    (match erase r with | .scalar v _ _ _ => satAdd t (utf8Len v) | _ => t) =
    (match r with | .scalar v _ _ _ => satAdd t (utf8Len v) | _ => t) := by
  cases r <;> rfl

/-- the successor states stay related (no checks involved) -/
theorem simRel_next {lim : Limits} {K : Nat} {e eX : Enf} {k : Nat} (r : Raw) (h : SimRel lim K e eX k)
    (hna : isAliasEv r = false) (hw : Within (next eX (erase r))) :
    SimRel lim K (next e r) (next eX (erase r)) k := by
  obtain ⟨k1, k2, k3, k4, k5, k6⟩ := erase_kinds r
  have hmk := mkOf_erase_ge eX.containers r
  constructor
  · simp [h.lim_e]
  · simp [h.lim_x]
  · simp [h.pd_e]
  · simp [h.pd_x]
  · exact hw
  · simp only [next_depth, h.pd_e, h.pd_x, Bool.false_and, Bool.false_eq_true, if_false, k2, k3, h.depth]
  · rw [next_containers, next_containers, h.pd_e, h.pd_x, cstep_erase, h.containers]
  · simp [next, h.pd_e, h.pd_x, h.events]; omega
  · simp [next, h.pd_e, h.pd_x, h.aliases, hna, b2n]
  · simp [next, h.pd_e, h.pd_x, h.documents, k4]
  · simp [next, h.pd_e, h.pd_x, h.nodes, k1]
  · simp [next, h.pd_e, h.pd_x, h.maxDepth, h.depth, k2]
  · simp only [next, h.pd_e, h.pd_x, Bool.false_and, Bool.false_eq_true, if_false, h.bytes]
    cases r <;> rfl
  · simp only [next, h.pd_e, h.pd_x, Bool.false_and, Bool.false_eq_true, if_false, h.containers]
    have := h.mergeKeys
    omega

/-- one raw observation: if the stripped stream's enforcer accepts the stripped event, the pump's enforcer
accepts the event -/
theorem sim_raw {lim : Limits} {K : Nat} {e eX eX' : Enf} {k : Nat} {r : Raw} (h : SimRel lim K e eX k)
    (hk : k ≤ K) (hK : K ≤ lim.maxEvents) (hna : isAliasEv r = false)
    (hanch : (defIns e.defined (anchorOf r)).length ≤ lim.maxAnchors)
    (hx : eX.observe (erase r) = .ok eX') :
    e.observe r = .ok (next e r) ∧ SimRel lim K (next e r) eX' k := by
  obtain ⟨rfl, hw⟩ := observe_ok hx
  have hwx := hw h.within_x
  have hrel := simRel_next r h hna hwx
  refine ⟨?_, hrel⟩
  cases h2 : e.observe r with
  | ok e2 =>
    obtain ⟨rfl, -⟩ := observe_ok h2
    rfl
  | error br =>
    exfalso
    have hs := observe_err h2
    rw [pro_of_not_pd r h.pd_e] at hs
    obtain ⟨k1, k2, k3, k4, k5, k6⟩ := erase_kinds r
    have hmk := mkOf_erase_ge eX.containers r
    simp only [Within, next, h.pd_x, Bool.false_and, Bool.false_eq_true, if_false, h.lim_x, limX, k1, k2, k3, k4] at hwx
    have hev := h.events
    have hno := h.nodes
    have hdo := h.documents
    have hmd := h.maxDepth
    have hde := h.depth
    have hby := h.bytes
    have hme := h.mergeKeys
    have hco := h.containers
    cases br <;> simp only [BreachSpec, h.lim_e] at hs
    case ratio a n => rw [h.pd_e] at hs; cases hs.1
    case events n => omega
    case aliases n => rw [hna] at hs; exact absurd hs.1 (by simp)
    case anchors n => omega
    case depth n => obtain ⟨h1, h3, h4⟩ := hs; rw [hde, hmd] at h3; simp only [h1, if_true] at hwx; omega
    case documents n => obtain ⟨h1, -, h3, h4⟩ := hs; simp only [h1, b2n, if_true] at hwx; omega
    case nodes n => obtain ⟨h1, h3, h4⟩ := hs; simp only [h1, b2n, if_true] at hwx; omega
    case scalarBytes n =>
      obtain ⟨h3, h4⟩ := hs
      rw [hby] at h3
      have hb := hwx.2.2.2.2.2.2.1
      cases r <;> simp only [erase, scalarBytesOf, satAdd_eq_min] at h3 hb <;> omega
    case mergeKeys n =>
      obtain ⟨h1, h3, h4⟩ := hs
      rw [hco] at h1
      have := hwx.2.2.2.2.2.2.2
      omega
    case unbalanced =>
      obtain ⟨h1, h3⟩ := hs
      obtain ⟨h4, h5⟩ := observe_ok_balanced hx (by rw [k3]; exact h1)
      rcases h3 with h3 | h3
      · exact h4 (by rw [← hde]; exact h3)
      · rw [wf_erase, ← hco, h3] at h5; cases h5

/-- one `observe_alias_to_be_replayed` call: accepted while the number of alias calls stays within `K` -/
theorem sim_alias {lim : Limits} {K : Nat} {e eX : Enf} {k : Nat} (h : SimRel lim K e eX k)
    (hk : k + 1 ≤ K) (hK1 : K ≤ lim.maxEvents) (hK2 : K ≤ lim.maxAliases) :
    ∃ e', e.observeAliasReplayed = .ok e' ∧ SimRel lim K e' eX (k + 1) ∧ e'.defined = e.defined := by
  have hwx := h.within_x
  simp only [Within, h.lim_x, limX] at hwx
  have hev := h.events
  have hal := h.aliases
  have h1 : ¬ e.report.events + 1 > lim.maxEvents := by omega
  have h2 : ¬ e.report.aliases + 1 > lim.maxAliases := by omega
  have hobs : e.observeAliasReplayed = .ok
      { e with report := { e.report with events := e.report.events + 1, aliases := e.report.aliases + 1 } } := by
    simp only [Enf.observeAliasReplayed, h.lim_e, h1, h2, ↓reduceIte]
  refine ⟨_, hobs, ?_, rfl⟩
  constructor
  · exact h.lim_e
  · exact h.lim_x
  · exact h.pd_e
  · exact h.pd_x
  · exact h.within_x
  · exact h.depth
  · exact h.containers
  · show e.report.events + 1 = eX.report.events + (k + 1)
    omega
  · show e.report.aliases + 1 = k + 1
    omega
  · exact h.documents
  · exact h.nodes
  · exact h.maxDepth
  · exact h.bytes
  · exact h.mergeKeys

/-- the enforcer over the pump's observations follows the enforcer over the stripped stream -/
theorem feedObs_sim (lim : Limits) (K : Nat) (hK1 : K ≤ lim.maxEvents) (hK2 : K ≤ lim.maxAliases) :
    ∀ (O : List Obs) (e eX eX' : Enf) (k i : Nat), noOcc O = true → (∀ r ∈ rawsOf O, isAliasEv r = false) →
      SimRel lim K e eX k → k + nAl O ≤ K →
      (defAfter e.defined (rawsOf O)).length ≤ lim.maxAnchors →
      runFrom eX i ((rawsOf O).map erase) = .ok eX' →
      ∃ e', feedObs e O = .ok e' ∧ SimRel lim K e' eX' (k + nAl O) ∧ e'.defined = defAfter e.defined (rawsOf O) := by
  intro O
  induction O with
  | nil =>
    intro e eX eX' k i _ _ h _ _ hx
    simp only [rawsOf, List.map_nil, runFrom, Except.ok.injEq] at hx
    subst hx
    exact ⟨e, rfl, by simpa [nAl] using h, rfl⟩
  | cons o O ih =>
    intro e eX eX' k i hno hna h hk hanch hx
    cases o with
    | occupies => simp [noOcc] at hno
    | aliasReplayed =>
      simp only [nAl] at hk ⊢
      obtain ⟨e1, h1, hrel1, hd1⟩ := sim_alias h (by omega) hK1 hK2
      simp only [rawsOf] at hx hanch hna ⊢
      obtain ⟨e', a1, a2, a3⟩ := ih e1 eX eX' (k + 1) i (by simpa [noOcc] using hno) hna hrel1 (by omega)
        (by rw [hd1]; exact hanch) hx
      refine ⟨e', by simp only [feedObs, obsStep, h1]; exact a1, ?_, by rw [a3, hd1]⟩
      have : k + 1 + nAl O = k + (nAl O + 1) := by omega
      rw [← this]; exact a2
    | raw r =>
      simp only [rawsOf, List.map_cons, runFrom, nAl, defAfter] at hx hanch hk ⊢
      cases hx1 : eX.observe (erase r) with
      | error b => rw [hx1] at hx; cases hx
      | ok eX1 =>
        rw [hx1] at hx
        simp only at hx
        have hna1 : isAliasEv r = false := hna r (by simp [rawsOf])
        have hk' : k ≤ K := by omega
        have hstep : (defIns e.defined (anchorOf r)).length ≤ lim.maxAnchors :=
          Nat.le_trans (defAfter_length_ge _ _) hanch
        obtain ⟨h1, hrel1⟩ := sim_raw h hk' hK1 hna1 hstep hx1
        have hd1 : (next e r).defined = defIns e.defined (anchorOf r) := next_defined h.pd_e r
        obtain ⟨e', a1, a2, a3⟩ := ih (next e r) eX1 eX' k (i + 1) (by simpa [noOcc] using hno)
          (fun r' hr' => hna r' (by simp [rawsOf, hr'])) hrel1 hk (by rw [hd1]; exact hanch) hx
        exact ⟨e', by simp only [feedObs, obsStep, h1]; exact a1, a2, by rw [a3, hd1]⟩

end SaphyrVerif.Lemmas.E2EBudget
