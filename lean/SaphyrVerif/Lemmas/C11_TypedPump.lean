import SaphyrVerif.Lemmas.C11_TypedBase
import SaphyrVerif.Lemmas.C11_Docs
import SaphyrVerif.Lemmas.C11_Measure
import SaphyrVerif.Lemmas.CurSimTree
/-!
Typed multi-document theorems (C11), part 7: the live cursor inside one document of a stream.

`LiveInvP` is the invariant of a live cursor that serves the events `l` still to come of the CURRENT
document and then stands, with a clean per-document state, in front of the document-end marker: nothing is
said about what follows that marker (later documents may be anything, even ill-formed).  It also records
where the parser is: the remaining parser items are node items of the current document followed by the
rest `R` of the stream — which is what the recovery `skip_to_next_document` needs.
-/
namespace SaphyrVerif.Lemmas.C11T
open SaphyrVerif SaphyrVerif.Scalars SaphyrVerif.Pump SaphyrVerif.De SaphyrVerif.Spec
open SaphyrVerif.Lemmas.C02 (Steps Good Post noFoldedIndent)
open SaphyrVerif.Lemmas.C11 (Boundary)
open SaphyrVerif.Lemmas.Frame (Ctx)

/-! ### `next_impl`: look-ahead slot, budget, last location
(the same facts as in `Lemmas/CurSimPump.lean`, which cannot be imported together with `Lemmas/C11_Measure.lean`) -/

theorem nextImpl_look (p : Pump) (inp : List RawItem) : (nextImpl p inp).2.1.look = p.look :=
  (Lemmas.C11.nextImpl_measure p inp).1

theorem serveInject_budget (p : Pump) (fs : List InjectFrame) (h : p.budget = none) :
    (serveInject p fs).2.budget = none := by
  induction fs with
  | nil => exact h
  | cons fr rest ih =>
    simp only [serveInject]
    repeat' split
    all_goals first
      | exact ih
      | exact h
      | simp_all

theorem parserLoop_budget (p : Pump) (inp : List RawItem) (h : p.budget = none) :
    (parserLoop p inp).2.1.budget = none := by
  fun_induction parserLoop p inp
  all_goals try (simp_all +zetaDelta [Pump.resetDocumentState]; done)
  case case6 =>
    simp_all +zetaDelta only
    split <;> simp_all
  case case15 =>
    rename_i ob hx
    have hb : ob = .ok none := by simp +zetaDelta [h]
    rw [hb] at hx
    cases hx
    simp +zetaDelta
  case case18 =>
    rename_i p3 step p' hs ob hx
    have := serveInject_budget p3 p3.inject (by simp_all +zetaDelta)
    rw [hs] at this
    simpa +zetaDelta using this
  case case19 =>
    rename_i p3 p' hs ob hx ih
    apply ih
    have := serveInject_budget p3 p3.inject (by simp_all +zetaDelta)
    rw [hs] at this
    simpa +zetaDelta using this

theorem nextImpl_budget (p : Pump) (inp : List RawItem) (h : p.budget = none) :
    (nextImpl p inp).2.1.budget = none := by
  unfold nextImpl
  have h1 := serveInject_budget p p.inject h
  rcases hs : serveInject p p.inject with ⟨_ | step, p'⟩
  · rw [hs] at h1
    exact parserLoop_budget p' inp h1
  · rw [hs] at h1
    exact h1

theorem serveInject_event_lastLoc (p : Pump) (fs : List InjectFrame) {e : Ev} {p' : Pump}
    (h : serveInject p fs = (some (.event e), p')) : p'.lastLoc = e.loc := by
  induction fs with
  | nil => simp [serveInject] at h
  | cons fr rest ih =>
    simp only [serveInject] at h
    repeat' split at h
    all_goals first
      | exact ih h
      | (simp only [Prod.mk.injEq, Option.some.injEq, Step.event.injEq, reduceCtorEq, false_and] at h
         obtain ⟨rfl, rfl⟩ := h
         rfl)
      | (simp at h; done)

theorem parserLoop_event_lastLoc (p : Pump) (inp : List RawItem) {e : Ev} {p' : Pump} {rest : List RawItem}
    (h : parserLoop p inp = (.event e, p', rest)) : p'.lastLoc = e.loc := by
  fun_induction parserLoop p inp
  all_goals try (simp_all +zetaDelta [Ev.loc]; done)
  all_goals try (simp +zetaDelta only [Prod.mk.injEq, Step.event.injEq] at h
                 obtain ⟨rfl, rfl, -⟩ := h
                 rfl)
  case case18 =>
    rename_i p3 step p4 hs ob hx
    simp only [Prod.mk.injEq] at h
    obtain ⟨rfl, rfl, -⟩ := h
    exact serveInject_event_lastLoc _ _ hs

theorem nextImpl_event_lastLoc {p : Pump} {inp : List RawItem} {e : Ev} {p' : Pump} {rest : List RawItem}
    (h : nextImpl p inp = (.event e, p', rest)) : p'.lastLoc = e.loc := by
  unfold nextImpl at h
  rcases hs : serveInject p p.inject with ⟨_ | step, p1⟩
  · rw [hs] at h
    exact parserLoop_event_lastLoc _ _ h
  · rw [hs] at h
    simp only [Prod.mk.injEq] at h
    obtain ⟨rfl, rfl, -⟩ := h
    exact serveInject_event_lastLoc _ _ hs

theorem pump_eta_look {q : Pump} {e : Ev} (h1 : q.look = none) (h2 : q.lastLoc = e.loc) :
    ({ ({ q with look := some e } : Pump) with look := none, lastLoc := e.loc } : Pump) = q := by
  cases q
  simp_all

/-! ### what `next_impl` never changes -/

/-- no budget enforcer, no recursion wrappers in progress, fixed limits, multi-document mode -/
structure Static (L : AliasLimits) (p : Pump) : Prop where
  bud : p.budget = none
  rip : p.recursiveInProgress = []
  lim : p.limits = L
  sade : p.stopAtDocEnd = false

theorem serveInject_fixed (p : Pump) (fs : List InjectFrame) :
    (serveInject p fs).2.recursiveInProgress = p.recursiveInProgress ∧
    (serveInject p fs).2.limits = p.limits ∧ (serveInject p fs).2.stopAtDocEnd = p.stopAtDocEnd := by
  induction fs with
  | nil => exact ⟨rfl, rfl, rfl⟩
  | cons fr rest ih =>
    simp only [serveInject]
    repeat' split
    all_goals first
      | exact ih
      | exact ⟨rfl, rfl, rfl⟩

theorem parserLoop_fixed (p : Pump) (inp : List RawItem) :
    (parserLoop p inp).2.1.recursiveInProgress = p.recursiveInProgress ∧
    (parserLoop p inp).2.1.limits = p.limits ∧ (parserLoop p inp).2.1.stopAtDocEnd = p.stopAtDocEnd := by
  fun_induction parserLoop p inp
  all_goals try (simp_all +zetaDelta [Pump.resetDocumentState]; done)
  case case6 =>
    simp +zetaDelta only
    split <;> exact ⟨rfl, rfl, rfl⟩
  case case18 =>
    rename_i p3 step p' hs ob hx
    have := serveInject_fixed p3 p3.inject
    rw [hs] at this
    simpa +zetaDelta using this
  case case19 =>
    rename_i p3 p' hs ob hx ih
    have := serveInject_fixed p3 p3.inject
    rw [hs] at this
    simp +zetaDelta at this ih ⊢
    exact ⟨ih.1.trans this.1, ih.2.1.trans this.2.1, ih.2.2.trans this.2.2⟩

theorem nextImpl_fixed (p : Pump) (inp : List RawItem) :
    (nextImpl p inp).2.1.recursiveInProgress = p.recursiveInProgress ∧
    (nextImpl p inp).2.1.limits = p.limits ∧ (nextImpl p inp).2.1.stopAtDocEnd = p.stopAtDocEnd := by
  unfold nextImpl
  have h1 := serveInject_fixed p p.inject
  rcases hs : serveInject p p.inject with ⟨_ | step, p'⟩
  · rw [hs] at h1
    have h2 := parserLoop_fixed p' inp
    exact ⟨h2.1.trans h1.1, h2.2.1.trans h1.2.1, h2.2.2.trans h1.2.2⟩
  · rw [hs] at h1
    exact h1

theorem nextImpl_static {L : AliasLimits} {p : Pump} (h : Static L p) (inp : List RawItem) :
    Static L (nextImpl p inp).2.1 := by
  obtain ⟨h1, h2, h3⟩ := nextImpl_fixed p inp
  exact ⟨nextImpl_budget p inp h.bud, h1.trans h.rip, h2.trans h.lim, h3.trans h.sade⟩

/-! ### the parser only moves forward -/

theorem parserLoop_suffix (p : Pump) (inp : List RawItem) : (parserLoop p inp).2.2 <:+ inp := by
  fun_induction parserLoop p inp
  all_goals try (simp_all +zetaDelta; done)
  all_goals try (simp +zetaDelta only; exact List.suffix_cons _ _)
  all_goals try (rename_i ih; exact List.IsSuffix.trans (by simp +zetaDelta [ih]) (List.suffix_cons _ _))


theorem nextImpl_suffix (p : Pump) (inp : List RawItem) : (nextImpl p inp).2.2 <:+ inp := by
  unfold nextImpl
  rcases hs : serveInject p p.inject with ⟨_ | step, p'⟩
  · exact parserLoop_suffix p' inp
  · exact List.suffix_refl _

/-- a suffix of `B ++ R` that still ends with `R` is a suffix of `B` followed by `R` -/
theorem suffix_split {α : Type} {x B R : List α} (h1 : x <:+ B ++ R) (h2 : R <:+ x) :
    ∃ B', x = B' ++ R ∧ B' <:+ B := by
  obtain ⟨P', rfl⟩ := h2
  obtain ⟨P, hP⟩ := h1
  refine ⟨P', rfl, P, ?_⟩
  rw [← List.append_assoc] at hP
  exact List.append_cancel_right hP

/-! ### items the recovery path skips over -/

/-- a node item: skipped over by `skip_to_next_document` -/
def skipNeutral : RawItem → Bool
  | .ev (.scalar ..) _ | .ev (.seqStart ..) _ | .ev .seqEnd _ | .ev (.mapStart ..) _ | .ev .mapEnd _
  | .ev (.alias _) _ => true
  | _ => false

mutual
theorem itemsOf_neutral : ∀ t : LNode, ∀ x ∈ itemsOf t, skipNeutral x = true
  | .scalar .., x, hx => by simp [itemsOf] at hx; subst hx; rfl
  | .alias .., x, hx => by simp [itemsOf] at hx; subst hx; rfl
  | .seq a tag loc eloc items, x, hx => by
    simp only [itemsOf, List.mem_cons, List.mem_append, List.mem_nil_iff, or_false] at hx
    rcases hx with rfl | hx | rfl
    · rfl
    · exact itemsOfL_neutral items x hx
    · rfl
  | .map a tag loc eloc entries, x, hx => by
    simp only [itemsOf, List.mem_cons, List.mem_append, List.mem_nil_iff, or_false] at hx
    rcases hx with rfl | hx | rfl
    · rfl
    · exact itemsOfE_neutral entries x hx
    · rfl
theorem itemsOfL_neutral : ∀ ts : List LNode, ∀ x ∈ itemsOfL ts, skipNeutral x = true
  | [], x, hx => by simp [itemsOfL] at hx
  | t :: ts, x, hx => by
    simp only [itemsOfL, List.mem_append] at hx
    rcases hx with hx | hx
    · exact itemsOf_neutral t x hx
    · exact itemsOfL_neutral ts x hx
theorem itemsOfE_neutral : ∀ es : List (LNode × LNode), ∀ x ∈ itemsOfE es, skipNeutral x = true
  | [], x, hx => by simp [itemsOfE] at hx
  | (k, v) :: es, x, hx => by
    simp only [itemsOfE, List.mem_append] at hx
    rcases hx with (hx | hx) | hx
    · exact itemsOf_neutral k x hx
    · exact itemsOf_neutral v x hx
    · exact itemsOfE_neutral es x hx
end

/-- the recovery path runs over node items without looking at them (only `last_location` moves) -/
theorem skipLoop_neutral (B : List RawItem) (hB : ∀ x ∈ B, skipNeutral x = true) (rest : List RawItem) :
    ∀ p : Pump, ∃ l, skipLoop p (B ++ rest) = skipLoop { p with lastLoc := l } rest := by
  induction B with
  | nil => intro p; exact ⟨p.lastLoc, rfl⟩
  | cons x B ih =>
    intro p
    have hx := hB x (List.mem_cons_self ..)
    have ih' := ih (fun y hy => hB y (List.mem_cons_of_mem _ hy))
    cases x with
    | err ua l => simp [skipNeutral] at hx
    | ev raw loc =>
      cases raw <;> simp only [skipNeutral, Bool.false_eq_true] at hx
      all_goals
        simp only [List.cons_append, skipLoop]
        obtain ⟨l, hl⟩ := ih' { p with lastLoc := loc }
        exact ⟨l, hl⟩

/-! ### runs of the pump up to the end of the current document -/

/-- `RunP Kp p inp es`: `next_impl` delivers exactly the events `es`, one per call and without error, and
then the pump is in a state described by `Kp` -/
inductive RunP (Kp : Pump → List RawItem → Prop) : Pump → List RawItem → List Ev → Prop
  | done {p : Pump} {inp : List RawItem} : Kp p inp → RunP Kp p inp []
  | ev {p : Pump} {inp : List RawItem} {e : Ev} {p' : Pump} {inp' : List RawItem} {es : List Ev} :
      nextImpl p inp = (.event e, p', inp') → RunP Kp p' inp' es → RunP Kp p inp (e :: es)

theorem RunP.of_steps {Kp p inp es p1 inp1} (h : Steps p inp es p1 inp1) (hk : Kp p1 inp1) : RunP Kp p inp es := by
  induction h with
  | refl => exact RunP.done hk
  | cons hn _ ih => exact RunP.ev hn (ih hk)

/-- the input the run ends at is still ahead -/
theorem RunP.suffix {Kp : Pump → List RawItem → Prop} {R : List RawItem} (hK : ∀ p inp, Kp p inp → inp = R)
    {p inp es} (h : RunP Kp p inp es) : R <:+ inp := by
  induction h with
  | done hk => rw [hK _ _ hk]; exact List.suffix_refl _
  | @ev p inp e p' inp' es hn _ ih =>
    have := nextImpl_suffix p inp
    rw [hn] at this
    exact ih.trans this

/-- the remaining parser items: node items of the current document, then `R` -/
def J (R : List RawItem) (inq : List RawItem) : Prop := ∃ B, inq = B ++ R ∧ ∀ x ∈ B, skipNeutral x = true

theorem J.step {R inq inq' : List RawItem} (h : J R inq) (h1 : inq' <:+ inq) (h2 : R <:+ inq') : J R inq' := by
  obtain ⟨B, rfl, hB⟩ := h
  obtain ⟨B', rfl, hB'⟩ := suffix_split h1 h2
  exact ⟨B', rfl, fun x hx => hB x (hB'.subset hx)⟩

/-- the invariant of a live cursor that serves `l` (the rest of the current document) and then reaches a
`Kp` state: either the look-ahead slot is empty and the pump runs over `l`, or it holds the head of `l` -/
def LiveInvP (L : AliasLimits) (R : List RawItem) (Kp : Pump → List RawItem → Prop) (d : Cur) (l : List Ev) : Prop :=
  ∃ q inq, d = .live q inq ∧ Static L q ∧ J R inq ∧
    ((q.look = none ∧ RunP Kp q inq l) ∨
     (∃ e l' q0, l = e :: l' ∧ q0.look = none ∧ q0.lastLoc = e.loc ∧ q = { q0 with look := some e } ∧
        RunP Kp q0 inq l'))

theorem liveInvP_step {L : AliasLimits} {R : List RawItem} {Kp : Pump → List RawItem → Prop}
    (hK : ∀ p inp, Kp p inp → inp = R) :
    ∀ d e l, LiveInvP L R Kp d (e :: l) →
      (∃ d1, d.peek = .ok (some e) d1 ∧ LiveInvP L R Kp d1 (e :: l)) ∧
      (∃ d2, d.next = .ok (some e) d2 ∧ LiveInvP L R Kp d2 l) := by
  rintro d e l ⟨q, inq, rfl, hst, hJ, h⟩
  rcases h with ⟨hl, hr⟩ | ⟨e', l', q0, hel, hl0, hloc, rfl, hr⟩
  · cases hr with
    | @ev _ _ _ q' inq' _ hn hr' =>
      have hst' : Static L q' := by
        have := nextImpl_static hst inq
        rw [hn] at this; exact this
      have hl' : q'.look = none := by
        have := nextImpl_look q inq
        rw [hn] at this
        rw [← hl]; exact this
      have hloc := nextImpl_event_lastLoc hn
      have hJ' : J R inq' := by
        have hsuf := nextImpl_suffix q inq
        rw [hn] at hsuf
        exact hJ.step hsuf (hr'.suffix hK)
      constructor
      · refine ⟨.live { q' with look := some e, lastLoc := e.loc } inq',
          by simp [Cur.peek, Pump.peek, hl, hn], _, _, rfl, ⟨hst'.bud, hst'.rip, hst'.lim, hst'.sade⟩, hJ',
          .inr ⟨e, l, q', rfl, hl', hloc, ?_, hr'⟩⟩
        cases q'
        simp_all
      · exact ⟨.live q' inq', by simp [Cur.next, Pump.next, hl, hn], q', inq', rfl, hst', hJ', .inl ⟨hl', hr'⟩⟩
  · cases hel
    have hst0 : Static L q0 := ⟨hst.bud, hst.rip, hst.lim, hst.sade⟩
    constructor
    · refine ⟨.live { ({ q0 with look := some e } : Pump) with lastLoc := e.loc } inq,
        by simp [Cur.peek, Pump.peek], _, _, rfl, ⟨hst.bud, hst.rip, hst.lim, hst.sade⟩, hJ,
        .inr ⟨e, l, q0, rfl, hl0, hloc, ?_, hr⟩⟩
      cases q0
      simp_all
    · refine ⟨.live q0 inq, ?_, q0, inq, rfl, hst0, hJ, .inl ⟨hl0, hr⟩⟩
      simp only [Cur.next, Pump.next]
      rw [pump_eta_look hl0 hloc]

/-- when nothing is left of the document, the cursor is a live cursor in a `Kp` state with an empty
look-ahead slot -/
theorem liveInvP_nil {L : AliasLimits} {R : List RawItem} {Kp : Pump → List RawItem → Prop} {d : Cur}
    (h : LiveInvP L R Kp d []) : ∃ q inq, d = .live q inq ∧ Static L q ∧ q.look = none ∧ Kp q inq := by
  obtain ⟨q, inq, rfl, hst, -, h⟩ := h
  rcases h with ⟨hl, hr⟩ | ⟨e', l', q0, hel, -⟩
  · cases hr with
    | done hk => exact ⟨q, inq, rfl, hst, hl, hk⟩
  · cases hel

end SaphyrVerif.Lemmas.C11T
