import SaphyrVerif.Lemmas.C02_Node
/-!
Helper lemmas for C02, part 5: the node lemma by mutual structural induction over the tree, and the
run over a whole single-document stream.
-/
namespace SaphyrVerif.Lemmas.C02
open SaphyrVerif SaphyrVerif.Scalars SaphyrVerif.Pump SaphyrVerif.Spec SaphyrVerif.Budget

theorem Post.refl {p : Pump} (hg : Good p) : Post p p ⟨[], p.anchors, 0⟩ (fun _ => 0) := by
  constructor
  · exact hg
  · rfl
  · simp
  · rfl
  · intro i; exact Nat.le_refl _
  · rfl
  · rfl
  · intro h
    rcases h with h | h
    · exact h
    · exact absurd rfl h

theorem Steps.nil_inv {p inp p' inp'} (h : Steps p inp [] p' inp') : p = p' ∧ inp = inp' := by
  generalize hes : ([] : List Ev) = es at h
  cases h with
  | refl => exact ⟨rfl, rfl⟩
  | cons _ _ => cases hes

mutual
theorem pump_node (t : LNode) (p : Pump) (hg : Good p) (rest : List RawItem) :
    Outcome p (itemsOf t ++ rest) rest (fun id => aliasCount id t) (noFoldedIndent t)
      (expand p.anchors (p.recStack.map (·.id)) t) := by
  match t with
  | .scalar v st a tag loc =>
    have h := node_scalar hg v st a tag loc rest
    simp only [itemsOf, aliasCount, noFoldedIndent, expand, List.singleton_append]
    exact h
  | .alias id loc =>
    have h := node_alias hg id loc rest
    simp only [itemsOf, aliasCount, noFoldedIndent, List.singleton_append]
    exact h
  | .seq a tag loc eloc items =>
    have h := node_container hg a (.seqStart a (tagCode tag) tag loc) (.seqEnd eloc)
      (.ev (.seqStart a tag) loc) (.ev .seqEnd eloc) (itemsOfL items) rest
      (fun id => aliasCountL id items) (noFoldedIndentL items)
      (expandL p.anchors (if a != 0 then a :: p.recStack.map (·.id) else p.recStack.map (·.id)) items)
      (fun rest' => step_seqStart hg a tag loc rest')
      (fun p2 hg2 rest' => step_seqEnd hg2 eloc rest')
      (fun p1 hg1 ha hr => by
        have := pump_nodes items p1 hg1 (.ev .seqEnd eloc :: rest)
        rw [ha, hr, ids_startFrames] at this
        exact this)
    simp only [itemsOf, aliasCount, noFoldedIndent, expand]
    generalize expandL p.anchors _ items = res at h ⊢
    cases res <;> exact h
  | .map a tag loc eloc entries =>
    have h := node_container hg a (.mapStart a loc) (.mapEnd eloc)
      (.ev (.mapStart a tag) loc) (.ev .mapEnd eloc) (itemsOfE entries) rest
      (fun id => aliasCountE id entries) (noFoldedIndentE entries)
      (expandE p.anchors (if a != 0 then a :: p.recStack.map (·.id) else p.recStack.map (·.id)) entries)
      (fun rest' => step_mapStart hg a tag loc rest')
      (fun p2 hg2 rest' => step_mapEnd hg2 eloc rest')
      (fun p1 hg1 ha hr => by
        have := pump_entries entries p1 hg1 (.ev .mapEnd eloc :: rest)
        rw [ha, hr, ids_startFrames] at this
        exact this)
    simp only [itemsOf, aliasCount, noFoldedIndent, expand]
    generalize expandE p.anchors _ entries = res at h ⊢
    cases res <;> exact h
theorem pump_nodes (ts : List LNode) (p : Pump) (hg : Good p) (rest : List RawItem) :
    Outcome p (itemsOfL ts ++ rest) rest (fun id => aliasCountL id ts) (noFoldedIndentL ts)
      (expandL p.anchors (p.recStack.map (·.id)) ts) := by
  match ts with
  | [] =>
    simp only [itemsOfL, aliasCountL, noFoldedIndentL, expandL, List.nil_append]
    exact Or.inl ⟨p, Steps.refl _ _, Post.refl hg⟩
  | t :: ts =>
    have h1 := pump_node t p hg (itemsOfL ts ++ rest)
    have h := Outcome.comp h1 (fun σ' => expandL σ' (p.recStack.map (·.id)) ts)
      (fun p1 r1 hg1 _ ha hr => by
        have := pump_nodes ts p1 hg1 rest
        rw [ha, hr, ids_recordL] at this
        exact this)
    simp only [itemsOfL, aliasCountL, noFoldedIndentL, expandL]
    generalize expand p.anchors _ t = res1 at h ⊢
    cases res1 with
    | error e => exact h
    | ok r1 =>
      simp only [bind2] at h ⊢
      generalize expandL r1.tab _ ts = res2 at h ⊢
      cases res2 <;> exact h
theorem pump_entries (es : List (LNode × LNode)) (p : Pump) (hg : Good p) (rest : List RawItem) :
    Outcome p (itemsOfE es ++ rest) rest (fun id => aliasCountE id es) (noFoldedIndentE es)
      (expandE p.anchors (p.recStack.map (·.id)) es) := by
  match es with
  | [] =>
    simp only [itemsOfE, aliasCountE, noFoldedIndentE, expandE, List.nil_append]
    exact Or.inl ⟨p, Steps.refl _ _, Post.refl hg⟩
  | (k, v) :: es =>
    have h1 := pump_node k p hg (itemsOf v ++ (itemsOfE es ++ rest))
    have h12 := Outcome.comp h1 (fun σ' => expand σ' (p.recStack.map (·.id)) v)
      (fun p1 r1 hg1 _ ha hr => by
        have := pump_node v p1 hg1 (itemsOfE es ++ rest)
        rw [ha, hr, ids_recordL] at this
        exact this)
    have h := Outcome.comp h12 (fun σ' => expandE σ' (p.recStack.map (·.id)) es)
      (fun p2 r hg2 _ ha hr => by
        have := pump_entries es p2 hg2 rest
        rw [ha, hr, ids_recordL] at this
        exact this)
    simp only [itemsOfE, aliasCountE, noFoldedIndentE, expandE]
    generalize expand p.anchors _ k = res1 at h ⊢
    cases res1 with
    | error e => exact h
    | ok r1 =>
      simp only [bind2] at h ⊢
      generalize expand r1.tab _ v = res2 at h ⊢
      cases res2 with
      | error e => exact h
      | ok r2 =>
        simp only at h ⊢
        generalize expandE r2.tab _ es = res3 at h ⊢
        cases res3 <;> exact h
end

/-- the limits are too small for the document -/
def ExceedsL (L : AliasLimits) (rep : Nat) (ac : Nat → Nat) : Prop :=
  L.maxReplayStackDepth < 1 ∨ L.maxTotalReplayedEvents < rep ∨ ∃ id, L.maxAliasExpansionsPerAnchor < ac id

/-- case analysis of the run over a whole document stream -/
def DocOutcome (p : Pump) (inp : List RawItem) (X : Nat → Prop) (fo : Bool) : Except ExpErr Exp → Prop
  | .ok r => (∃ p', Ends p inp r.evs p') ∨ Bad p inp (· <+: r.evs) (X r.replayed) fo
  | .error e => (∃ es p', Stops p inp es (errOf e) p') ∨ Bad p inp (fun _ => True) True fo

/-- state after the stream start and document start markers -/
def afterDocStart (L : AliasLimits) (l1 : Loc) : Pump := { limits := L, lastLoc := l1 }

theorem good_afterDocStart (L : AliasLimits) (l1 : Loc) : Good (afterDocStart L l1) := by
  constructor
  · rfl
  · rfl
  · intro fr hfr; cases hfr
  · intro f hf; cases hf
  · exact TabNe_nil

theorem doc_start (L : AliasLimits) (l0 l1 : Loc) (X : List RawItem) :
    nextImpl { limits := L } (.ev .streamStart l0 :: .ev (.docStart false) l1 :: X) =
      nextImpl (afterDocStart L l1) X := by
  simp [nextImpl, serveInject, parserLoop, Pump.resetDocumentState, afterDocStart]

theorem doc_end {p : Pump} (hg : Good p) (hs : p.stopAtDocEnd = false) (hp : p.producedAny = true)
    (l2 l3 : Loc) : ∃ p' inp2, nextImpl p [.ev .docEnd l2, .ev .streamEnd l3] = (.eof, p', inp2) := by
  rw [nextImpl_good hg]
  simp only [parserLoop, hg.bud, Pump.resetDocumentState, clr, hs, hp, Bool.false_eq_true, if_false,
    Bool.not_true]
  exact ⟨_, _, rfl⟩

theorem doc_outcome (L : AliasLimits) (t : LNode) (l0 l1 l2 l3 : Loc) :
    DocOutcome { limits := L } (docStream t l0 l1 l2 l3) (fun rep => ExceedsL L rep (fun id => aliasCount id t))
      (noFoldedIndent t) (expand [] [] t) := by
  have hg := good_afterDocStart L l1
  have h := pump_node t (afterDocStart L l1) hg [.ev .docEnd l2, .ev .streamEnd l3]
  have heq : nextImpl { limits := L } (docStream t l0 l1 l2 l3) =
      nextImpl (afterDocStart L l1) (itemsOf t ++ [.ev .docEnd l2, .ev .streamEnd l3]) := by
    unfold docStream
    exact doc_start L l0 l1 _
  have hX : ∀ rep, Exceeds (afterDocStart L l1) rep (fun id => aliasCount id t) →
      ExceedsL L rep (fun id => aliasCount id t) := by
    intro rep hx
    rcases hx with hx | hx | ⟨id, hx⟩
    · exact Or.inl hx
    · exact Or.inr (Or.inl (by simpa [afterDocStart] using hx))
    · exact Or.inr (Or.inr ⟨id, by simpa [afterDocStart, lookupCount] using hx⟩)
  change Outcome _ _ _ _ _ (expand [] [] t) at h
  generalize expand [] [] t = res at h ⊢
  cases res with
  | error e =>
    simp only [Outcome, DocOutcome] at h ⊢
    rcases h with ⟨es, p', hs⟩ | hb
    · exact Or.inl ⟨es, p', Stops.of_eq heq hs⟩
    · exact Or.inr (Bad.of_eq heq hb)
  | ok r =>
    simp only [Outcome, DocOutcome] at h ⊢
    rcases h with ⟨p', hs, hpost⟩ | hb
    · left
      have hne : r.evs ≠ [] := by
        intro he
        rw [he] at hs
        have hinv := Steps.nil_inv hs
        have hlen := congrArg List.length hinv.2
        cases t <;> simp [itemsOf] at hlen
      obtain ⟨pf, inp2, hn⟩ := doc_end hpost.good (by rw [hpost.sade]; rfl) (hpost.prod (Or.inr hne)) l2 l3
      exact ⟨pf, Ends.of_eq heq ⟨p', _, inp2, hs, hn⟩⟩
    · exact Or.inr (Bad.of_eq heq (hb.mono (fun _ h => h) (hX _) id))

end SaphyrVerif.Lemmas.C02
