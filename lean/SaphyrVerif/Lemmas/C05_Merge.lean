import SaphyrVerif.Lemmas.C05_Spec
import SaphyrVerif.Props.C03
import SaphyrVerif.Props.C04
/-!
Helper lemmas for C05, part 6: key capture, value skipping and merge-value expansion on a replay cursor
inside a larger buffer (from the statements of C03 / C04).
-/
namespace SaphyrVerif.Lemmas.C05
open SaphyrVerif SaphyrVerif.Scalars SaphyrVerif.Pump SaphyrVerif.De SaphyrVerif.Spec

theorem buf_split {buf : List Ev} {i : Nat} {t : ENode} {rest : List Ev} (h : buf.drop i = eflatten t ++ rest) :
    buf = buf.take i ++ eflatten t ++ rest ∧ (buf.take i).length = i := by
  obtain ⟨e, tl, he, -⟩ := eflatten_cons t
  have hlt : i < buf.length := lt_length_of_drop (x := e) (tl := tl ++ rest) (by rw [h, he]; rfl)
  refine ⟨?_, by simp [List.length_take]; omega⟩
  rw [List.append_assoc, ← h]; simp

theorem capture_drop {buf : List Ev} {i : Nat} {t : ENode} {rest : List Ev} (ref : Option Loc)
    (h : buf.drop i = eflatten t ++ rest) :
    ∃ n, ∀ fuel, n ≤ fuel →
      capture fuel (.replay buf i ref) = .ok ⟨fpOf t, eflatten t, t.loc⟩ (.replay buf (i + (eflatten t).length) ref) := by
  obtain ⟨hb, hl⟩ := buf_split h
  obtain ⟨n, hn⟩ := Props.C04.capture_node_exact t (buf.take i) rest ref
  rw [← hb, hl] at hn
  exact ⟨n, hn⟩

theorem skip_drop {buf : List Ev} {i : Nat} {t : ENode} {rest : List Ev} (ref : Option Loc)
    (h : buf.drop i = eflatten t ++ rest) :
    ∃ n, ∀ fuel, n ≤ fuel →
      skipOneNode fuel (.replay buf i ref) = .ok () (.replay buf (i + (eflatten t).length) ref) := by
  obtain ⟨hb, hl⟩ := buf_split h
  obtain ⟨n, hn⟩ := Props.C04.skip_one_node_exact t (buf.take i) rest ref
  rw [← hb, hl] at hn
  exact ⟨n, hn⟩

/-! ### pending entries versus entries of the tree -/

def entProj (p : PendingEntry) : FP × List Ev × FP × List Ev := (p.key.fp, p.key.events, p.value.fp, p.value.events)
def nodeProj (e : ENode × ENode) : FP × List Ev × FP × List Ev := (fpOf e.1, eflatten e.1, fpOf e.2, eflatten e.2)

/-- the recorded entries are those of the tree (fingerprints and events) -/
def PRel (ps : List PendingEntry) (es : List (ENode × ENode)) : Prop := ps.map entProj = es.map nodeProj

theorem PRel.nil : PRel [] [] := rfl

theorem PRel.append {a b : List PendingEntry} {x y : List (ENode × ENode)} (h1 : PRel a x) (h2 : PRel b y) :
    PRel (a ++ b) (x ++ y) := by
  simp only [PRel, List.map_append] at *; rw [h1, h2]

theorem PRel.nil_right {ps : List PendingEntry} (h : PRel ps []) : ps = [] := by
  simpa [PRel] using h

theorem PRel.nil_left {es : List (ENode × ENode)} (h : PRel [] es) : es = [] := by
  cases es with
  | nil => rfl
  | cons e es => simp [PRel] at h

theorem PRel.cons_right {ps : List PendingEntry} {e : ENode × ENode} {es : List (ENode × ENode)} (h : PRel ps (e :: es)) :
    ∃ p ps', ps = p :: ps' ∧ entProj p = nodeProj e ∧ PRel ps' es := by
  cases ps with
  | nil => simp [PRel] at h
  | cons p ps' =>
    simp only [PRel, List.map_cons, List.cons.injEq] at h
    exact ⟨p, ps', rfl, h.1, h.2⟩

theorem PRel.isEmpty {ps : List PendingEntry} {es : List (ENode × ENode)} (h : PRel ps es) : ps.isEmpty = es.isEmpty := by
  cases es with
  | nil => rw [h.nil_right]; rfl
  | cons e es => obtain ⟨p, ps', rfl, -, -⟩ := h.cons_right; rfl

theorem collect_spec (src : ENode) (loc ref : Loc) :
    ∃ n, ∀ fuel, n ≤ fuel →
      match sourceEntries src with
      | some es => ∃ ps, pendingFromEvents fuel (eflatten src) loc ref = .ok ps ∧ PRel ps es
      | none => IsErrE (pendingFromEvents fuel (eflatten src) loc ref) := by
  obtain ⟨n, hn⟩ := Props.C03.collect_entries_spec src loc ref
  refine ⟨n, fun fuel hf => ?_⟩
  have := hn fuel hf
  cases hs : sourceEntries src with
  | none =>
    cases hp : pendingFromEvents fuel (eflatten src) loc ref with
    | error e => simp
    | ok ps => simp [hs, hp] at this
  | some es =>
    cases hp : pendingFromEvents fuel (eflatten src) loc ref with
    | error e => simp [hs, hp] at this
    | ok ps =>
      simp only [hs, hp] at this
      exact ⟨ps, rfl, this⟩

theorem foldl_batches (init : List PendingEntry) (l : List (List PendingEntry)) :
    l.foldl (fun acc b => b ++ acc) init = l.foldl (fun acc b => b ++ acc) [] ++ init := by
  induction l generalizing init with
  | nil => simp
  | cons b l ih => simp only [List.foldl_cons, List.append_nil]; rw [ih (b ++ init), ih b]; simp

/-- the element loop of a merge sequence -/
theorem mergeSeqBatches_spec (items : List ENode) :
    ∀ {buf : List Ev} {i : Nat} (ref : Option Loc) {el : Loc} {rest : List Ev},
    buf.drop i = eflattenL items ++ .seqEnd el :: rest →
    ∃ n, ∀ fuel, n ≤ fuel → ∀ batches,
      match seqSourceEntries items with
      | some es => ∃ pbs, mergeSeqBatches fuel (.replay buf i ref) batches =
          .ok (batches ++ pbs) (.replay buf (i + (eflattenL items).length + 1) ref) ∧
          PRel (pbs.foldl (fun acc b => b ++ acc) []) es
      | none => IsErr (mergeSeqBatches fuel (.replay buf i ref) batches) := by
  induction items with
  | nil =>
    intro buf i ref el rest h
    refine ⟨1, fun fuel hf batches => ?_⟩
    obtain ⟨fuel, rfl⟩ : ∃ f, fuel = f + 1 := ⟨fuel - 1, by omega⟩
    simp only [eflattenL_nil, List.nil_append] at h
    simp only [seqSourceEntries_nil, mergeSeqBatches, peek_cons ref h, next_cons ref h]
    exact ⟨[], by simp, PRel.nil⟩
  | cons x xs ih =>
    intro buf i ref el rest h
    simp only [eflattenL_cons, List.append_assoc] at h
    obtain ⟨n1, h1⟩ := capture_drop ref h
    have h' := drop_add_of_drop h
    obtain ⟨n2, h2⟩ := ih ref h'
    obtain ⟨e, tl, hx, hopen, -⟩ := eflatten_cons x
    have hpk : buf.drop i = e :: (tl ++ (eflattenL xs ++ .seqEnd el :: rest)) := by rw [h, hx]; rfl
    obtain ⟨n3, h3⟩ := collect_spec x x.loc (Cur.replay buf i ref).refLoc
    refine ⟨max n1 (max n2 n3) + 1, fun fuel hf batches => ?_⟩
    obtain ⟨fuel, rfl⟩ : ∃ f, fuel = f + 1 := ⟨fuel - 1, by omega⟩
    have e1 := h1 fuel (by omega)
    have e2 := h2 fuel (by omega)
    have e3 := h3 fuel (by omega)
    have hstep : mergeSeqBatches (fuel + 1) (.replay buf i ref) batches =
        match pendingFromEvents fuel (eflatten x) x.loc (Cur.replay buf i ref).refLoc with
        | .error e => .err e (.replay buf (i + (eflatten x).length) ref)
        | .ok b => mergeSeqBatches fuel (.replay buf (i + (eflatten x).length) ref) (batches ++ [b]) := by
      rw [mergeSeqBatches]
      simp only [peek_cons ref hpk]
      cases e <;> simp [Ev.isOpen] at hopen <;> simp only [e1] <;> rfl
    rw [hstep, seqSourceEntries_cons]
    cases hs : sourceEntries x with
    | none =>
      simp only [hs] at e3
      obtain ⟨err, he⟩ := e3
      simp [he]
    | some b =>
      simp only [hs] at e3
      obtain ⟨pb, hp, hrel⟩ := e3
      simp only [hp]
      have e2' := e2 (batches ++ [pb])
      cases hr : seqSourceEntries xs with
      | none => simp only [hr] at e2' ⊢; exact e2'
      | some r =>
        simp only [hr] at e2' ⊢
        obtain ⟨pbs, hm, hrel'⟩ := e2'
        refine ⟨pb :: pbs, ?_, ?_⟩
        · rw [hm]; simp [Nat.add_assoc]
        · simp only [List.foldl_cons, List.append_nil]
          rw [foldl_batches]
          exact PRel.append hrel' hrel

/-- expansion of a merge value read from the live cursor -/
theorem pendingFromLive_spec (src : ENode) {buf : List Ev} {i : Nat} (ref : Option Loc) (mref : Loc) {rest : List Ev}
    (h : buf.drop i = eflatten src ++ rest) :
    ∃ n, ∀ fuel, n ≤ fuel →
      match sourceEntries src with
      | some es => ∃ ps, pendingFromLive fuel (.replay buf i ref) mref =
          .ok ps (.replay buf (i + (eflatten src).length) ref) ∧ PRel ps es
      | none => IsErr (pendingFromLive fuel (.replay buf i ref) mref) := by
  cases src with
  | scalar v tag rt st a l =>
    refine ⟨1, fun fuel hf => ?_⟩
    obtain ⟨fuel, rfl⟩ : ∃ f, fuel = f + 1 := ⟨fuel - 1, by omega⟩
    simp only [eflatten, List.cons_append, List.nil_append] at h
    simp only [sourceEntries_scalar, pendingFromLive, peek_cons ref h, next_cons ref h, eflatten]
    by_cases hn : mergeScalarIsNull v st tag = true
    · simp only [hn, if_true]
      exact ⟨[], by simp, PRel.nil⟩
    · simp [hn]
  | map a l el entries =>
    obtain ⟨n1, h1⟩ := capture_drop ref h
    obtain ⟨n2, h2⟩ := collect_spec (.map a l el entries) (ENode.map a l el entries).loc mref
    refine ⟨max n1 n2 + 1, fun fuel hf => ?_⟩
    obtain ⟨fuel, rfl⟩ : ∃ f, fuel = f + 1 := ⟨fuel - 1, by omega⟩
    have e1 := h1 fuel (by omega)
    have e2 := h2 fuel (by omega)
    have hpk : buf.drop i = .mapStart a l :: (eflattenE entries ++ [.mapEnd el] ++ rest) := by
      rw [h]; simp [eflatten]
    rw [pendingFromLive]
    simp only [peek_cons ref hpk, e1]
    cases hs : sourceEntries (.map a l el entries) with
    | none =>
      simp only [hs] at e2
      obtain ⟨err, he⟩ := e2
      simp [he]
    | some es =>
      simp only [hs] at e2
      obtain ⟨ps, hp, hrel⟩ := e2
      simp only [hp]
      exact ⟨ps, rfl, hrel⟩
  | seq a tag rt l el items =>
    have hpk : buf.drop i = .seqStart a tag rt l :: (eflattenL items ++ .seqEnd el :: rest) := by
      rw [h]; simp [eflatten]
    obtain ⟨n1, h1⟩ := mergeSeqBatches_spec items ref (drop_succ_of_drop hpk)
    refine ⟨n1 + 1, fun fuel hf => ?_⟩
    obtain ⟨fuel, rfl⟩ : ∃ f, fuel = f + 1 := ⟨fuel - 1, by omega⟩
    have e1 := h1 fuel (by omega) []
    rw [pendingFromLive]
    simp only [peek_cons ref hpk, next_cons ref hpk, sourceEntries_seq]
    cases hs : seqSourceEntries items with
    | none =>
      simp only [hs] at e1
      obtain ⟨err, c, he⟩ := e1
      simp [he]
    | some es =>
      simp only [hs] at e1
      obtain ⟨pbs, hm, hrel⟩ := e1
      simp only [hm, List.nil_append]
      refine ⟨_, ?_, hrel⟩
      simp [eflatten]
      omega

end SaphyrVerif.Lemmas.C05
