import SaphyrVerif.Spec.BudgetSpec
/-!
Helper lemmas for C07.

Plan: `next` is the check-free successor function of the enforcer (`observe` = checks + `next`);
`nextAll` folds it over an event list.  Every counter of `nextAll e evs` is an independent count
of `evs`.  The container stack / merge-key counter are described by the pure "ghost" functions
`cstep` / `mkOf` / `wf`, for which the tree lemmas are proved by mutual structural induction.
-/
namespace SaphyrVerif.Lemmas.C07
open SaphyrVerif SaphyrVerif.Scalars SaphyrVerif.Budget SaphyrVerif.Spec

/-! ## ghost functions -/

def isStart : Raw → Bool
  | .seqStart .. | .mapStart .. => true
  | _ => false

def isEnd : Raw → Bool
  | .seqEnd | .mapEnd => true
  | _ => false

def isDocStart : Raw → Bool
  | .docStart _ => true
  | _ => false

/-- stream framing: not counted at all under the per-document policy -/
def isStreamFrame : Raw → Bool
  | .streamStart | .streamEnd => true
  | _ => false

def b2n (b : Bool) : Nat := if b then 1 else 0

/-- insertion into the duplicate-free anchor set -/
def defIns (bs : List Nat) (a : Nat) : List Nat :=
  if a != 0 && !bs.contains a then a :: bs else bs

/-- pop of a container (`fm` = from mapping value) -/
def popC (fm : Bool) (rest : List CState) : List CState := if fm then finishValue rest else rest

/-- container stack after one event (total; `observe` fails where `wf` is false) -/
def cstep (pd : Bool) (cs : List CState) : Raw → List CState
  | .scalar .. => (handleScalar cs false).1
  | .alias _ => handleAlias cs
  | .mapStart .. => .map true (enteringContainer cs).2 :: (enteringContainer cs).1
  | .seqStart .. => .seq (enteringContainer cs).2 :: (enteringContainer cs).1
  | .mapEnd =>
    match cs with
    | .map _ fm :: rest => popC fm rest
    | _ :: rest => rest
    | [] => []
  | .seqEnd =>
    match cs with
    | .seq fm :: rest => popC fm rest
    | _ :: rest => rest
    | [] => []
  | .docStart _ => if pd then [] else cs
  | _ => cs

/-- is the top of the stack a mapping that expects a key? -/
def isKeyTop : List CState → Bool
  | .map true _ :: _ => true
  | _ => false

/-- merge keys counted by one event -/
def mkOf (cs : List CState) : Raw → Nat
  | .scalar v st _ tag => b2n (isKeyTop cs && (tag.isNone && st == .plain && v == ['<', '<']))
  | _ => 0

/-- the End event matches the top of the stack -/
def wf (cs : List CState) : Raw → Bool
  | .mapEnd => match cs with | .map _ _ :: _ => true | _ => false
  | .seqEnd => match cs with | .seq _ :: _ => true | _ => false
  | _ => true

def cstepAll (pd : Bool) : List CState → List Raw → List CState
  | cs, [] => cs
  | cs, ev :: evs => cstepAll pd (cstep pd cs ev) evs

def mkAll (pd : Bool) : List CState → List Raw → Nat
  | _, [] => 0
  | cs, ev :: evs => mkOf cs ev + mkAll pd (cstep pd cs ev) evs

def wfAll (pd : Bool) : List CState → List Raw → Bool
  | _, [] => true
  | cs, ev :: evs => wf cs ev && wfAll pd (cstep pd cs ev) evs

/-- the state the per-document prologue of `observe` hands to the counting part: under the per-document
policy a `DocumentStart` forgets the previous document first; every other event (and the whole-input
policy) leaves the state alone -/
def pro (e : Enf) (ev : Raw) : Enf :=
  if e.perDocument && isDocStart ev then
    { e with report := { documents := e.report.documents }, defined := [], depth := 0, containers := [] }
  else e

/-- check-free successor state.  Per-document policy: a `DocumentStart` is the FIRST event charged to the
new document (reset, then `events = 1`); `StreamStart` / `StreamEnd` are not counted. -/
def next (e : Enf) (ev : Raw) : Enf :=
  if e.perDocument && isDocStart ev then
    { e with report := { events := 1, documents := e.report.documents }, defined := [], depth := 0, containers := [] }
  else if e.perDocument && isStreamFrame ev then e
  else
    { e with
      report :=
        { events := e.report.events + 1
          aliases := e.report.aliases + b2n (isAliasEv ev)
          anchors := if isNodeEv ev then (defIns e.defined (anchorOf ev)).length else e.report.anchors
          documents := e.report.documents + b2n (isDocStart ev)
          nodes := e.report.nodes + b2n (isNodeEv ev)
          maxDepth := if isStart ev then max e.report.maxDepth (satAdd e.depth 1) else e.report.maxDepth
          totalScalarBytes :=
            match ev with
            | .scalar v _ _ _ => satAdd e.report.totalScalarBytes (utf8Len v)
            | _ => e.report.totalScalarBytes
          mergeKeys := e.report.mergeKeys + mkOf e.containers ev }
      depth := if isStart ev then satAdd e.depth 1 else if isEnd ev then e.depth - 1 else e.depth
      defined := defIns e.defined (anchorOf ev)
      containers := cstep e.perDocument e.containers ev }

def nextAll (e : Enf) : List Raw → Enf
  | [] => e
  | ev :: evs => nextAll (next e ev) evs

/-! ## `observe` = checks + `next` -/

theorem handleScalar_fst (cs : List CState) (b : Bool) : (handleScalar cs b).1 = (handleScalar cs false).1 := by
  unfold handleScalar; split <;> rfl

theorem handleScalar_snd (cs : List CState) (b : Bool) : (handleScalar cs b).2 = (isKeyTop cs && b) := by
  unfold handleScalar isKeyTop; split <;> simp

theorem bumpNodes_ok {e e1 : Enf} (h : e.bumpNodes = .ok e1) :
    e1 = { e with report := { e.report with nodes := e.report.nodes + 1 } } ∧ e.report.nodes + 1 ≤ e.lim.maxNodes := by
  simp only [Enf.bumpNodes] at h
  split at h
  · cases h
  · injection h with h; subst h; exact ⟨rfl, by omega⟩

theorem bumpNodes_err {e : Enf} {b : Breach} (h : e.bumpNodes = .error b) :
    b = .nodes (e.report.nodes + 1) ∧ e.report.nodes + 1 > e.lim.maxNodes := by
  simp only [Enf.bumpNodes] at h
  split at h
  · injection h with h; subst h; exact ⟨rfl, by assumption⟩
  · cases h

theorem ite_gt_eq_max (d m : Nat) : (if d > m then d else m) = max m d := by
  split <;> omega

theorem bumpDepth_ok {e e1 : Enf} (h : e.bumpDepth = .ok e1) :
    e1 = { e with depth := satAdd e.depth 1,
                  report := { e.report with maxDepth := max e.report.maxDepth (satAdd e.depth 1) } } ∧
    max e.report.maxDepth (satAdd e.depth 1) ≤ e.lim.maxDepth := by
  simp only [Enf.bumpDepth, ite_gt_eq_max] at h
  split at h
  · cases h
  · injection h with h; subst h; exact ⟨rfl, by omega⟩

theorem bumpDepth_err {e : Enf} {b : Breach} (h : e.bumpDepth = .error b) :
    b = .depth (max e.report.maxDepth (satAdd e.depth 1)) ∧
    max e.report.maxDepth (satAdd e.depth 1) > e.lim.maxDepth := by
  simp only [Enf.bumpDepth, ite_gt_eq_max] at h
  split at h
  · injection h with h; subst h; exact ⟨rfl, by assumption⟩
  · cases h

theorem recordAnchor_ok {e e1 : Enf} {a : Nat} (h : e.recordAnchor a = .ok e1) :
    e1 = { e with defined := defIns e.defined a,
                  report := { e.report with anchors := (defIns e.defined a).length } } ∧
    (defIns e.defined a).length ≤ max e.defined.length e.lim.maxAnchors := by
  simp only [Enf.recordAnchor] at h
  split at h
  · rename_i hc
    split at h
    · cases h
    · injection h with h; subst h
      have hd : defIns e.defined a = a :: e.defined := by simp only [defIns, if_pos hc]
      rw [hd]; exact ⟨rfl, by simp only [List.length_cons] at *; omega⟩
  · rename_i hc
    injection h with h; subst h
    have hd : defIns e.defined a = e.defined := by simp only [defIns, if_neg hc]
    rw [hd]; exact ⟨rfl, by omega⟩

theorem recordAnchor_err {e : Enf} {a : Nat} {b : Breach} (h : e.recordAnchor a = .error b) :
    b = .anchors (defIns e.defined a).length ∧ (defIns e.defined a).length > e.lim.maxAnchors := by
  simp only [Enf.recordAnchor] at h
  split at h
  · rename_i hc
    split at h
    · injection h with h; subst h
      have hd : defIns e.defined a = a :: e.defined := by simp only [defIns, if_pos hc]
      rw [hd]; exact ⟨rfl, by assumption⟩
    · cases h
  · cases h

/-- what a breach raised by `observe` says; `e` is the state after the per-document prologue (`pro`) -/
def BreachSpec (e : Enf) (ev : Raw) : Breach → Prop
  | .events n => n = e.report.events + 1 ∧ n > e.lim.maxEvents
  | .nodes n => isNodeEv ev = true ∧ n = e.report.nodes + 1 ∧ n > e.lim.maxNodes
  | .aliases n => isAliasEv ev = true ∧ n = e.report.aliases + 1 ∧ n > e.lim.maxAliases
  | .anchors n => n = (defIns e.defined (anchorOf ev)).length ∧ n > e.lim.maxAnchors
  | .documents n => isDocStart ev = true ∧ e.perDocument = false ∧ n = e.report.documents + 1 ∧ n > e.lim.maxDocuments
  | .scalarBytes n => n = satAdd e.report.totalScalarBytes (scalarBytesOf ev) ∧ n > e.lim.maxTotalScalarBytes
  | .depth n => isStart ev = true ∧ n = max e.report.maxDepth (satAdd e.depth 1) ∧ n > e.lim.maxDepth
  | .mergeKeys n => mkOf e.containers ev = 1 ∧ n = e.report.mergeKeys + 1 ∧ n > e.lim.maxMergeKeys
  | .ratio a n => e.perDocument = true ∧ ev = .docEnd ∧ e.report.events + 1 ≤ e.lim.maxEvents ∧
      e.ratioBreach = some (.ratio a n)
  | .unbalanced => isEnd ev = true ∧ (e.depth = 0 ∨ wf e.containers ev = false)

/-- the within-limits part of the state -/
def Within (e : Enf) : Prop :=
  e.report.events ≤ e.lim.maxEvents ∧ e.report.aliases ≤ e.lim.maxAliases ∧ e.defined.length ≤ e.lim.maxAnchors ∧
  e.report.maxDepth ≤ e.lim.maxDepth ∧ e.report.documents ≤ e.lim.maxDocuments ∧ e.report.nodes ≤ e.lim.maxNodes ∧
  e.report.totalScalarBytes ≤ e.lim.maxTotalScalarBytes ∧ e.report.mergeKeys ≤ e.lim.maxMergeKeys

/-- outcome of `observe`, uniformly -/
def Outcome (e : Enf) (ev : Raw) : Except Breach Enf → Prop
  | .ok e' => e' = next e ev ∧ (Within e → Within e')
  | .error b => BreachSpec (pro e ev) ev b

@[simp] theorem defIns_zero (bs : List Nat) : defIns bs 0 = bs := by simp [defIns]

theorem perDocPrologue_eq (e : Enf) (ev : Raw) :
    e.perDocPrologue ev = if e.perDocument && isStreamFrame ev then none else some (pro e ev) := by
  cases hpd : e.perDocument <;> cases ev <;> simp [Enf.perDocPrologue, pro, hpd, isStreamFrame, isDocStart, Enf.beginDocument, Report.reset]

/-- `observe` = per-document prologue, then the counting part -/
theorem observe_eq (e : Enf) (ev : Raw) :
    e.observe ev = if e.perDocument && isStreamFrame ev then .ok e else (pro e ev).observeCounted ev := by
  unfold Enf.observe
  rw [perDocPrologue_eq]
  by_cases h : (e.perDocument && isStreamFrame ev) = true <;> simp [h]

theorem pro_of_not_docStart {e : Enf} {ev : Raw} (h : isDocStart ev = false) : pro e ev = e := by
  simp [pro, h]

@[simp] theorem pro_of_not_pd {e : Enf} (ev : Raw) (h : e.perDocument = false) : pro e ev = e := by
  simp [pro, h]

/-- the whole-input policy has no prologue -/
theorem observe_of_not_pd (e : Enf) (ev : Raw) (h : e.perDocument = false) : e.observe ev = e.observeCounted ev := by
  rw [observe_eq, pro_of_not_pd ev h, h]; simp

/-- events that are neither `DocumentStart` nor stream framing go straight to the counting part -/
theorem observe_plain (e : Enf) {ev : Raw} (h1 : isDocStart ev = false) (h2 : isStreamFrame ev = false) :
    e.observe ev = e.observeCounted ev := by
  rw [observe_eq, pro_of_not_docStart h1, h2]; simp

macro "fin" : tactic =>
  `(tactic| (simp_all [next, pro, isStreamFrame, isDocStart, isAliasEv, isNodeEv, isStart, isEnd, anchorOf, scalarBytesOf, mkOf, cstep, wf, b2n,
      BreachSpec, Within, Outcome, popC, Enf.beginDocument, Report.reset] <;> try (intros; omega)))

theorem observe_outcome_scalar (e : Enf) v st a tag :
    Outcome e (.scalar v st a tag) (e.observe (.scalar v st a tag)) := by
  rw [observe_plain e rfl rfl]
  simp only [Enf.observeCounted]
  split
  · fin
  · split
    · rename_i b h1
      obtain ⟨rfl, h1⟩ := bumpNodes_err h1
      fin
    · rename_i e1 h1
      obtain ⟨rfl, h1⟩ := bumpNodes_ok h1
      dsimp only at h1 ⊢
      split
      · fin
      · split
        · rename_i b h2
          obtain ⟨rfl, h2⟩ := recordAnchor_err h2
          fin
        · rename_i e2 h2
          obtain ⟨rfl, h2⟩ := recordAnchor_ok h2
          dsimp only at h2 ⊢
          simp only [handleScalar_snd, handleScalar_fst _ (tag.isNone && st == .plain && v == ['<', '<'])]
          split
          · split
            · fin
            · fin
          · fin

theorem observe_outcome_mapStart (e : Enf) a tag : Outcome e (.mapStart a tag) (e.observe (.mapStart a tag)) := by
  rw [observe_plain e rfl rfl]
  simp only [Enf.observeCounted]
  split
  · fin
  · split
    · rename_i b h1
      obtain ⟨rfl, h1⟩ := bumpNodes_err h1
      fin
    · rename_i e1 h1
      obtain ⟨rfl, h1⟩ := bumpNodes_ok h1
      dsimp only at h1 ⊢
      split
      · rename_i b h2
        obtain ⟨rfl, h2⟩ := bumpDepth_err h2
        fin
      · rename_i e2 h2
        obtain ⟨rfl, h2⟩ := bumpDepth_ok h2
        dsimp only at h2 ⊢
        generalize hr : Enf.recordAnchor _ a = r
        cases r with
        | error b =>
          obtain ⟨rfl, h3⟩ := recordAnchor_err hr
          fin
        | ok e3 =>
          obtain ⟨rfl, h3⟩ := recordAnchor_ok hr
          dsimp only at h3
          fin

theorem observe_outcome_seqStart (e : Enf) a tag : Outcome e (.seqStart a tag) (e.observe (.seqStart a tag)) := by
  rw [observe_plain e rfl rfl]
  simp only [Enf.observeCounted]
  split
  · fin
  · split
    · rename_i b h1
      obtain ⟨rfl, h1⟩ := bumpNodes_err h1
      fin
    · rename_i e1 h1
      obtain ⟨rfl, h1⟩ := bumpNodes_ok h1
      dsimp only at h1 ⊢
      split
      · rename_i b h2
        obtain ⟨rfl, h2⟩ := bumpDepth_err h2
        fin
      · rename_i e2 h2
        obtain ⟨rfl, h2⟩ := bumpDepth_ok h2
        dsimp only at h2 ⊢
        generalize hr : Enf.recordAnchor _ a = r
        cases r with
        | error b =>
          obtain ⟨rfl, h3⟩ := recordAnchor_err hr
          fin
        | ok e3 =>
          obtain ⟨rfl, h3⟩ := recordAnchor_ok hr
          dsimp only at h3
          fin


theorem observe_outcome_mapEnd (e : Enf) : Outcome e .mapEnd (e.observe .mapEnd) := by
  rw [observe_plain e rfl rfl]
  simp only [Enf.observeCounted]
  split
  · fin
  · split
    · fin
    · split
      · fin
      · fin

theorem observe_outcome_seqEnd (e : Enf) : Outcome e .seqEnd (e.observe .seqEnd) := by
  rw [observe_plain e rfl rfl]
  simp only [Enf.observeCounted]
  split
  · fin
  · split
    · fin
    · split
      · fin
      · fin

theorem observe_outcome_alias (e : Enf) id : Outcome e (.alias id) (e.observe (.alias id)) := by
  rw [observe_plain e rfl rfl]
  simp only [Enf.observeCounted]
  split
  · fin
  · split
    · fin
    · fin

theorem observe_outcome_docStart (e : Enf) x : Outcome e (.docStart x) (e.observe (.docStart x)) := by
  rw [observe_eq]
  cases hpd : e.perDocument
  · simp only [pro, hpd, isStreamFrame, isDocStart, Bool.false_and, Bool.false_eq_true, if_false, Enf.observeCounted]
    split
    · fin
    · split
      · split
        · fin
        · fin
      · fin
  · simp only [pro, hpd, isStreamFrame, isDocStart, Bool.and_false, Bool.and_true, Bool.false_eq_true, if_false, if_true,
      Enf.observeCounted]
    split
    · fin
    · fin

theorem observe_outcome_frame (e : Enf) (ev : Raw) (hf : isStreamFrame ev = true) : Outcome e ev (e.observe ev) := by
  have hd : isDocStart ev = false := by cases ev <;> simp_all [isStreamFrame, isDocStart]
  rw [observe_eq, pro_of_not_docStart hd]
  cases hpd : e.perDocument
  · cases ev <;> simp only [isStreamFrame] at hf <;> try (cases hf)
    all_goals (simp only [isStreamFrame, Bool.false_and, Bool.false_eq_true, if_false, Enf.observeCounted]; split <;> fin)
  · simp only [hf, Bool.and_true, if_true, Outcome]
    exact ⟨by simp [next, hpd, hd, hf], id⟩

/-- the ratio heuristic does not look at the event counter -/
theorem ratioBreach_events (e : Enf) (k : Nat) :
    ({ e with report := { e.report with events := k } }).ratioBreach = e.ratioBreach := rfl

theorem observe_outcome_docEnd (e : Enf) : Outcome e .docEnd (e.observe .docEnd) := by
  rw [observe_plain e rfl rfl]
  simp only [Enf.observeCounted, ratioBreach_events]
  split
  · fin
  · split
    · rename_i hpd
      split
      · rename_i b hb
        have : ∃ a n, b = .ratio a n := by
          simp only [Enf.ratioBreach] at hb
          split at hb
          · exact ⟨_, _, (Option.some.inj hb).symm⟩
          · cases hb
        obtain ⟨a, n, rfl⟩ := this
        simp only [Outcome, BreachSpec, pro, isDocStart, Bool.and_false, Bool.false_eq_true, if_false]
        rename_i hev
        exact ⟨hpd, trivial, by omega, hb⟩
      · fin
    · fin

theorem observe_outcome (e : Enf) (ev : Raw) : Outcome e ev (e.observe ev) := by
  cases ev with
  | scalar v st a tag => exact observe_outcome_scalar e v st a tag
  | mapStart a tag => exact observe_outcome_mapStart e a tag
  | seqStart a tag => exact observe_outcome_seqStart e a tag
  | mapEnd => exact observe_outcome_mapEnd e
  | seqEnd => exact observe_outcome_seqEnd e
  | alias id => exact observe_outcome_alias e id
  | docStart x => exact observe_outcome_docStart e x
  | docEnd => exact observe_outcome_docEnd e
  | nothing => rw [observe_plain e rfl rfl]; simp only [Enf.observeCounted]; split <;> fin
  | streamStart => exact observe_outcome_frame e _ rfl
  | streamEnd => exact observe_outcome_frame e _ rfl

/-! ## `runFrom` -/

theorem observe_ok {e e' : Enf} {ev : Raw} (h : e.observe ev = .ok e') : e' = next e ev ∧ (Within e → Within e') := by
  have := observe_outcome e ev
  rw [h] at this; exact this

theorem observe_err {e : Enf} {ev : Raw} {b : Breach} (h : e.observe ev = .error b) : BreachSpec (pro e ev) ev b := by
  have := observe_outcome e ev
  rw [h] at this; exact this

theorem runFrom_append (e : Enf) (i : Nat) (xs ys : List Raw) :
    runFrom e i (xs ++ ys) =
      match runFrom e i xs with
      | .error x => .error x
      | .ok e' => runFrom e' (i + xs.length) ys := by
  induction xs generalizing e i with
  | nil => simp [runFrom]
  | cons x xs ih =>
    simp only [List.cons_append, runFrom]
    cases h : e.observe x with
    | error b => simp
    | ok e1 =>
      simp only []
      rw [ih]
      simp only [List.length_cons]
      have : i + 1 + xs.length = i + (xs.length + 1) := by omega
      rw [this]

theorem nextAll_append (e : Enf) (xs ys : List Raw) : nextAll e (xs ++ ys) = nextAll (nextAll e xs) ys := by
  induction xs generalizing e with
  | nil => rfl
  | cons x xs ih => simp only [List.cons_append, nextAll, ih]

theorem runFrom_ok {e e' : Enf} {i : Nat} {evs : List Raw} (h : runFrom e i evs = .ok e') :
    e' = nextAll e evs ∧ (Within e → Within e') := by
  induction evs generalizing e i with
  | nil => simp only [runFrom] at h; injection h with h; subst h; exact ⟨rfl, id⟩
  | cons x xs ih =>
    simp only [runFrom] at h
    cases h1 : e.observe x with
    | error b => rw [h1] at h; cases h
    | ok e1 =>
      rw [h1] at h
      obtain ⟨rfl, hw⟩ := observe_ok h1
      obtain ⟨rfl, hw'⟩ := ih h
      exact ⟨rfl, fun w => hw' (hw w)⟩

theorem runFrom_err {e : Enf} {i j : Nat} {b : Breach} {evs : List Raw} (h : runFrom e i evs = .error (j, b)) :
    ∃ pre ev post, evs = pre ++ ev :: post ∧ j = i + pre.length ∧ runFrom e i pre = .ok (nextAll e pre) ∧
      (nextAll e pre).observe ev = .error b := by
  induction evs generalizing e i with
  | nil => simp only [runFrom] at h; cases h
  | cons x xs ih =>
    simp only [runFrom] at h
    cases h1 : e.observe x with
    | error b1 =>
      rw [h1] at h
      injection h with h; injection h with hj hb; subst hj; subst hb
      exact ⟨[], x, xs, rfl, rfl, rfl, h1⟩
    | ok e1 =>
      rw [h1] at h
      obtain ⟨rfl, -⟩ := observe_ok h1
      obtain ⟨pre, ev, post, rfl, rfl, hok, herr⟩ := ih h
      refine ⟨x :: pre, ev, post, rfl, by simp only [List.length_cons]; omega, ?_, herr⟩
      simp only [runFrom, h1, nextAll]; exact hok

/-- acceptance does not depend on the start index -/
theorem runFrom_index {e e' : Enf} {i : Nat} (j : Nat) {evs : List Raw} (h : runFrom e i evs = .ok e') :
    runFrom e j evs = .ok e' := by
  induction evs generalizing e i j with
  | nil => simpa [runFrom] using h
  | cons x xs ih =>
    simp only [runFrom] at h ⊢
    cases h1 : e.observe x with
    | error b => rw [h1] at h; cases h
    | ok e1 => rw [h1] at h; exact ih _ h

/-! ## fields of `nextAll` -/

@[simp] theorem next_lim (e : Enf) (ev : Raw) : (next e ev).lim = e.lim := by
  unfold next; split <;> (try split) <;> rfl

@[simp] theorem next_pd (e : Enf) (ev : Raw) : (next e ev).perDocument = e.perDocument := by
  unfold next; split <;> (try split) <;> rfl

@[simp] theorem nextAll_lim (e : Enf) (evs : List Raw) : (nextAll e evs).lim = e.lim := by
  induction evs generalizing e with
  | nil => rfl
  | cons x xs ih => simp [nextAll, ih]

@[simp] theorem nextAll_pd (e : Enf) (evs : List Raw) : (nextAll e evs).perDocument = e.perDocument := by
  induction evs generalizing e with
  | nil => rfl
  | cons x xs ih => simp [nextAll, ih]

theorem b2n_eq (b : Bool) : b2n b = if b then 1 else 0 := rfl

theorem nNodes_cons (x : Raw) (xs : List Raw) : nNodes (x :: xs) = b2n (isNodeEv x) + nNodes xs := by
  simp only [nNodes, List.filter_cons, b2n]; split <;> simp <;> omega

theorem nAliases_cons (x : Raw) (xs : List Raw) : nAliases (x :: xs) = b2n (isAliasEv x) + nAliases xs := by
  simp only [nAliases, List.filter_cons, b2n]; split <;> simp <;> omega

theorem nDocuments_cons (x : Raw) (xs : List Raw) : nDocuments (x :: xs) = b2n (isDocStart x) + nDocuments xs := by
  cases x <;> simp [nDocuments, b2n, isDocStart] <;> omega

theorem scalarBytes_cons (x : Raw) (xs : List Raw) : scalarBytes (x :: xs) = scalarBytesOf x + scalarBytes xs := by
  simp [scalarBytes]

theorem nextAll_events {e : Enf} (hpd : e.perDocument = false) (evs : List Raw) :
    (nextAll e evs).report.events = e.report.events + evs.length := by
  induction evs generalizing e with
  | nil => rfl
  | cons x xs ih =>
    simp only [nextAll]; rw [ih (by simpa using hpd)]
    simp [next, hpd]; omega

theorem nextAll_nodes {e : Enf} (hpd : e.perDocument = false) (evs : List Raw) :
    (nextAll e evs).report.nodes = e.report.nodes + nNodes evs := by
  induction evs generalizing e with
  | nil => rfl
  | cons x xs ih =>
    simp only [nextAll]; rw [ih (by simpa using hpd), nNodes_cons]
    simp [next, hpd]; omega

theorem nextAll_aliases {e : Enf} (hpd : e.perDocument = false) (evs : List Raw) :
    (nextAll e evs).report.aliases = e.report.aliases + nAliases evs := by
  induction evs generalizing e with
  | nil => rfl
  | cons x xs ih =>
    simp only [nextAll]; rw [ih (by simpa using hpd), nAliases_cons]
    simp [next, hpd]; omega

theorem nextAll_documents {e : Enf} (hpd : e.perDocument = false) (evs : List Raw) :
    (nextAll e evs).report.documents = e.report.documents + nDocuments evs := by
  induction evs generalizing e with
  | nil => rfl
  | cons x xs ih =>
    simp only [nextAll]; rw [ih (by simpa using hpd), nDocuments_cons]
    simp [next, hpd]; omega

/-! ## anchors -/

def defAfter (bs : List Nat) : List Raw → List Nat
  | [] => bs
  | ev :: evs => defAfter (defIns bs (anchorOf ev)) evs

theorem defAfter_append (bs : List Nat) (xs ys : List Raw) :
    defAfter bs (xs ++ ys) = defAfter (defAfter bs xs) ys := by
  induction xs generalizing bs with
  | nil => rfl
  | cons x xs ih => simp only [List.cons_append, defAfter, ih]

theorem defIns_length_ge (bs : List Nat) (a : Nat) : bs.length ≤ (defIns bs a).length := by
  unfold defIns; split <;> simp

theorem defAfter_length_ge (bs : List Nat) (evs : List Raw) : bs.length ≤ (defAfter bs evs).length := by
  induction evs generalizing bs with
  | nil => exact Nat.le_refl _
  | cons x xs ih => exact Nat.le_trans (defIns_length_ge bs _) (ih _)

theorem loop_length_eq (bs : List Nat) (evs : List Raw) :
    (List.eraseDupsBy.loop (· == ·) ((evs.map anchorOf).filter (· != 0)) bs).length = (defAfter bs evs).length := by
  induction evs generalizing bs with
  | nil => simp [List.eraseDupsBy.loop, defAfter]
  | cons x xs ih =>
    simp only [List.map_cons, List.filter_cons, defAfter]
    by_cases h0 : anchorOf x = 0
    · simp [h0, ih]
    · have h0' : (anchorOf x != 0) = true := by simpa using h0
      simp only [h0', if_true, List.eraseDupsBy.loop]
      by_cases hc : bs.contains (anchorOf x) = true
      · have : bs.any (fun b => anchorOf x == b) = true := by
          rw [← List.contains_eq_any_beq]; exact hc
        have hd : defIns bs (anchorOf x) = bs := by unfold defIns; rw [hc]; simp
        simp only [this, ih, hd]
      · have hc' : bs.contains (anchorOf x) = false := by simpa using hc
        have : bs.any (fun b => anchorOf x == b) = false := by
          rw [← List.contains_eq_any_beq]; exact hc'
        have hd : defIns bs (anchorOf x) = anchorOf x :: bs := by unfold defIns; rw [hc', h0']; simp
        simp only [this, ih, hd]

theorem nAnchors_eq (evs : List Raw) : nAnchors evs = (defAfter [] evs).length := by
  simp only [nAnchors, List.eraseDups, List.eraseDupsBy]
  exact loop_length_eq [] evs

theorem next_defined {e : Enf} (hpd : e.perDocument = false) (ev : Raw) :
    (next e ev).defined = defIns e.defined (anchorOf ev) := by
  simp [next, hpd]

theorem nextAll_defined {e : Enf} (hpd : e.perDocument = false) (evs : List Raw) :
    (nextAll e evs).defined = defAfter e.defined evs := by
  induction evs generalizing e with
  | nil => rfl
  | cons x xs ih =>
    simp only [nextAll, defAfter]; rw [ih (by simpa using hpd), next_defined hpd]

/-! ## scalar bytes -/

theorem satAdd_eq_min (a b : Nat) : satAdd a b = min (a + b) USIZE_MAX := by
  unfold satAdd; split <;> omega

theorem next_tsb {e : Enf} (hpd : e.perDocument = false) (ev : Raw) (hle : e.report.totalScalarBytes ≤ USIZE_MAX) :
    (next e ev).report.totalScalarBytes = min (e.report.totalScalarBytes + scalarBytesOf ev) USIZE_MAX := by
  cases ev <;> simp [next, hpd, scalarBytesOf, satAdd_eq_min] <;> omega

theorem nextAll_tsb {e : Enf} (hpd : e.perDocument = false) (evs : List Raw)
    (hle : e.report.totalScalarBytes ≤ USIZE_MAX) :
    (nextAll e evs).report.totalScalarBytes = min (e.report.totalScalarBytes + scalarBytes evs) USIZE_MAX := by
  induction evs generalizing e with
  | nil => simp only [nextAll, scalarBytes, List.map_nil, List.sum_nil]; omega
  | cons x xs ih =>
    simp only [nextAll]
    rw [ih (by simpa using hpd) (by rw [next_tsb hpd x hle]; omega), next_tsb hpd x hle, scalarBytes_cons]
    omega

/-! ## containers and merge keys -/

theorem next_containers (e : Enf) (ev : Raw) :
    (next e ev).containers = cstep e.perDocument e.containers ev := by
  unfold next; split
  · rename_i h
    simp only [Bool.and_eq_true] at h
    cases ev <;> simp_all [isDocStart, cstep]
  · split
    · rename_i h
      simp only [Bool.and_eq_true] at h
      cases ev <;> simp_all [isStreamFrame, cstep]
    · rfl

theorem nextAll_containers (e : Enf) (evs : List Raw) :
    (nextAll e evs).containers = cstepAll e.perDocument e.containers evs := by
  induction evs generalizing e with
  | nil => rfl
  | cons x xs ih => simp only [nextAll, cstepAll]; rw [ih, next_containers, next_pd]

theorem nextAll_mergeKeys {e : Enf} (hpd : e.perDocument = false) (evs : List Raw) :
    (nextAll e evs).report.mergeKeys = e.report.mergeKeys + mkAll false e.containers evs := by
  induction evs generalizing e with
  | nil => rfl
  | cons x xs ih =>
    simp only [nextAll, mkAll]; rw [ih (by simpa using hpd), next_containers, hpd]
    simp [next, hpd]; omega

theorem cstepAll_append (pd : Bool) (cs : List CState) (xs ys : List Raw) :
    cstepAll pd cs (xs ++ ys) = cstepAll pd (cstepAll pd cs xs) ys := by
  induction xs generalizing cs with
  | nil => rfl
  | cons x xs ih => simp only [List.cons_append, cstepAll, ih]

theorem mkAll_append (pd : Bool) (cs : List CState) (xs ys : List Raw) :
    mkAll pd cs (xs ++ ys) = mkAll pd cs xs + mkAll pd (cstepAll pd cs xs) ys := by
  induction xs generalizing cs with
  | nil => simp [mkAll, cstepAll]
  | cons x xs ih => simp only [List.cons_append, mkAll, cstepAll, ih]; omega

theorem wfAll_append (pd : Bool) (cs : List CState) (xs ys : List Raw) :
    wfAll pd cs (xs ++ ys) = (wfAll pd cs xs && wfAll pd (cstepAll pd cs xs) ys) := by
  induction xs generalizing cs with
  | nil => simp [wfAll, cstepAll]
  | cons x xs ih => simp only [List.cons_append, wfAll, cstepAll, ih, Bool.and_assoc]

/-! ## depth -/

theorem finishValue_length (cs : List CState) : (finishValue cs).length = cs.length := by
  unfold finishValue; split <;> simp

theorem enteringContainer_length (cs : List CState) : (enteringContainer cs).1.length = cs.length := by
  unfold enteringContainer; split <;> simp

theorem handleAlias_length (cs : List CState) : (handleAlias cs).length = cs.length := by
  unfold handleAlias; split <;> simp [finishValue_length]

theorem handleScalar_length (cs : List CState) (b : Bool) : (handleScalar cs b).1.length = cs.length := by
  unfold handleScalar; split <;> simp [finishValue_length]

theorem popC_length (fm : Bool) (cs : List CState) : (popC fm cs).length = cs.length := by
  unfold popC; split <;> simp [finishValue_length]

theorem cstep_length (pd : Bool) (cs : List CState) (ev : Raw) :
    (cstep pd cs ev).length =
      if pd && isDocStart ev then 0 else if isStart ev then cs.length + 1 else if isEnd ev then cs.length - 1 else cs.length := by
  cases ev <;> simp [cstep, isDocStart, isStart, isEnd, handleScalar_length, handleAlias_length, enteringContainer_length]
  · cases pd <;> simp
  · split <;> simp [popC_length]
  · split <;> simp [popC_length]

theorem satAdd_one {d : Nat} (h : d + 1 < 2 ^ 64) : satAdd d 1 = d + 1 := by
  unfold satAdd USIZE_MAX; split <;> omega

theorem next_depth (e : Enf) (ev : Raw) :
    (next e ev).depth =
      if e.perDocument && isDocStart ev then 0 else if isStart ev then satAdd e.depth 1 else if isEnd ev then e.depth - 1 else e.depth := by
  unfold next; split
  · rfl
  · split
    · rename_i h
      simp only [Bool.and_eq_true] at h
      cases ev <;> simp_all [isStreamFrame, isStart, isEnd]
    · rfl

/-- depth = height of the container stack (both policies) -/
theorem nextAll_depth_len {e : Enf} (evs : List Raw) (hd : e.depth = e.containers.length)
    (hlen : e.depth + evs.length < 2 ^ 64) :
    (nextAll e evs).depth = (nextAll e evs).containers.length := by
  induction evs generalizing e with
  | nil => exact hd
  | cons x xs ih =>
    simp only [nextAll]
    simp only [List.length_cons] at hlen
    have h1 : (next e x).depth = (next e x).containers.length := by
      rw [next_depth, next_containers, cstep_length, satAdd_one (by omega), hd]
    have h2 : (next e x).depth ≤ e.depth + 1 := by
      rw [next_depth, satAdd_one (by omega)]; split <;> (try split) <;> (try split) <;> omega
    exact ih h1 (by omega)

def depthAfter (d : Nat) : List Raw → Nat
  | [] => d
  | ev :: evs => depthAfter (depthStep d ev) evs

theorem depthStep_eq (d : Nat) (ev : Raw) :
    depthStep d ev = if isStart ev then d + 1 else if isEnd ev then d - 1 else d := by
  cases ev <;> simp [depthStep, isStart, isEnd]

theorem maxDepthFrom_append (d m : Nat) (xs ys : List Raw) :
    maxDepthFrom d m (xs ++ ys) = maxDepthFrom (depthAfter d xs) (maxDepthFrom d m xs) ys := by
  induction xs generalizing d m with
  | nil => rfl
  | cons x xs ih => simp only [List.cons_append, maxDepthFrom, depthAfter, ih]

theorem maxDepthFrom_ge (d m : Nat) (xs : List Raw) : m ≤ maxDepthFrom d m xs := by
  induction xs generalizing d m with
  | nil => exact Nat.le_refl _
  | cons x xs ih => simp only [maxDepthFrom]; exact Nat.le_trans (Nat.le_max_left _ _) (ih _ _)

theorem nextAll_depth {e : Enf} (hpd : e.perDocument = false) (evs : List Raw)
    (hm : e.depth ≤ e.report.maxDepth) (hlen : e.depth + evs.length < 2 ^ 64) :
    (nextAll e evs).depth = depthAfter e.depth evs ∧
    (nextAll e evs).report.maxDepth = maxDepthFrom e.depth e.report.maxDepth evs ∧
    (nextAll e evs).depth ≤ (nextAll e evs).report.maxDepth := by
  induction evs generalizing e with
  | nil => exact ⟨rfl, rfl, hm⟩
  | cons x xs ih =>
    simp only [nextAll, depthAfter, maxDepthFrom]
    simp only [List.length_cons] at hlen
    have h1 : (next e x).depth = depthStep e.depth x := by
      rw [next_depth, depthStep_eq, satAdd_one (by omega), hpd]; simp
    have h2 : (next e x).report.maxDepth = max e.report.maxDepth (depthStep e.depth x) := by
      rw [depthStep_eq]
      simp only [next, hpd, Bool.false_and, satAdd_one (show e.depth + 1 < 2 ^ 64 by omega)]
      simp only [Bool.false_eq_true, if_false]
      split <;> (try split) <;> omega
    have h3 : depthStep e.depth x ≤ e.depth + 1 := by
      rw [depthStep_eq]; split <;> (try split) <;> omega
    have := ih (e := next e x) (by simpa using hpd) (by rw [h1, h2]; omega) (by rw [h1]; omega)
    rw [h1, h2] at this
    exact this

/-! ## tree lemmas for the ghost machine -/

/-- ghost summary of an event list from stack `cs`: final stack, merge keys, well-formedness -/
def G (pd : Bool) (cs : List CState) (evs : List Raw) : List CState × Nat × Bool :=
  (cstepAll pd cs evs, mkAll pd cs evs, wfAll pd cs evs)

theorem G_append (pd : Bool) (cs : List CState) (xs ys : List Raw) :
    G pd cs (xs ++ ys) =
      ((G pd (G pd cs xs).1 ys).1, (G pd cs xs).2.1 + (G pd (G pd cs xs).1 ys).2.1,
       ((G pd cs xs).2.2 && (G pd (G pd cs xs).1 ys).2.2)) := by
  simp only [G, cstepAll_append, mkAll_append, wfAll_append]

theorem G_nil (pd : Bool) (cs : List CState) : G pd cs [] = (cs, 0, true) := rfl

theorem G_cons (pd : Bool) (cs : List CState) (x : Raw) (xs : List Raw) :
    G pd cs (x :: xs) =
      ((G pd (cstep pd cs x) xs).1, mkOf cs x + (G pd (cstep pd cs x) xs).2.1,
       (wf cs x && (G pd (cstep pd cs x) xs).2.2)) := rfl

theorem handleAlias_key (fm : Bool) (r : List CState) : handleAlias (.map true fm :: r) = .map false fm :: r := rfl
theorem handleAlias_val (fm : Bool) (r : List CState) : handleAlias (.map false fm :: r) = .map true fm :: r := rfl
theorem handleAlias_seq (fm : Bool) (r : List CState) : handleAlias (.seq fm :: r) = .seq fm :: r := rfl

/-- closing a container opened over `cs` gives `handleAlias cs` -/
theorem pop_entering (cs : List CState) :
    popC (enteringContainer cs).2 (enteringContainer cs).1 = handleAlias cs := by
  unfold enteringContainer handleAlias popC
  split <;> simp [finishValue]

mutual
theorem G_node (pd : Bool) (t : Node) (cs : List CState) :
    G pd cs (flatten t) = (handleAlias cs, mergeKeys t + b2n (isKeyTop cs && isMergeKeyTree t), true) := by
  match t with
  | .scalar v st a tag =>
    simp only [flatten, G_cons, G_nil, cstep, mkOf, wf, mergeKeys, isMergeKeyTree]
    have : (handleScalar cs false).1 = handleAlias cs := by
      unfold handleScalar handleAlias; split <;> rfl
    simp [this]
  | .alias id =>
    simp [flatten, G_cons, G_nil, cstep, mkOf, wf, mergeKeys, isMergeKeyTree, b2n]
  | .seq a tag items =>
    simp only [flatten, G_cons, G_append, G_nil, cstep, mkOf, wf, mergeKeys, isMergeKeyTree]
    rw [G_list pd items]
    simp [pop_entering, b2n]
  | .map a tag entries =>
    simp only [flatten, G_cons, G_append, G_nil, cstep, mkOf, wf, mergeKeys, isMergeKeyTree]
    rw [G_entries pd entries]
    simp [pop_entering, b2n]
theorem G_list (pd : Bool) (ts : List Node) (fm : Bool) (r : List CState) :
    G pd (.seq fm :: r) (flattenL ts) = (.seq fm :: r, mergeKeysL ts, true) := by
  match ts with
  | [] => rfl
  | t :: ts =>
    simp only [flattenL, G_append, mergeKeysL]
    rw [G_node pd t, handleAlias_seq, G_list pd ts]
    simp [isKeyTop, b2n]
theorem G_entries (pd : Bool) (es : List (Node × Node)) (fm : Bool) (r : List CState) :
    G pd (.map true fm :: r) (flattenE es) = (.map true fm :: r, mergeKeysE es, true) := by
  match es with
  | [] => rfl
  | (k, v) :: es =>
    simp only [flattenE, G_append, mergeKeysE]
    rw [G_node pd k, handleAlias_key, G_node pd v, handleAlias_val, G_entries pd es]
    simp [isKeyTop, b2n]
    omega
end

theorem G_docs (pd : Bool) (ds : List Node) : G pd [] (flattenDocs ds) = ([], mergeKeysDocs ds, true) := by
  induction ds with
  | nil => rfl
  | cons d ds ih =>
    simp only [flattenDocs, flattenDoc, G_append, G_cons, G_nil, mergeKeysDocs]
    have hc : cstep pd [] (.docStart false) = [] := by cases pd <;> rfl
    rw [hc, G_node pd d]
    simp only [handleAlias, cstep, ih]
    simp [isKeyTop, b2n, mkOf, wf]

theorem G_stream (pd : Bool) (ds : List Node) : G pd [] (flattenStream ds) = ([], mergeKeysDocs ds, true) := by
  simp only [flattenStream, G_cons, G_append, G_nil, cstep, G_docs]
  simp [mkOf, wf]

/-! ## counts over `pre ++ ev :: post` -/

theorem nNodes_append (xs ys : List Raw) : nNodes (xs ++ ys) = nNodes xs + nNodes ys := by
  simp [nNodes]

theorem nAliases_append (xs ys : List Raw) : nAliases (xs ++ ys) = nAliases xs + nAliases ys := by
  simp [nAliases]

theorem nDocuments_append (xs ys : List Raw) : nDocuments (xs ++ ys) = nDocuments xs + nDocuments ys := by
  simp [nDocuments]

theorem scalarBytes_append (xs ys : List Raw) : scalarBytes (xs ++ ys) = scalarBytes xs + scalarBytes ys := by
  simp [scalarBytes]

theorem nNodes_nil : nNodes [] = 0 := rfl
theorem nAliases_nil : nAliases [] = 0 := rfl
theorem nDocuments_nil : nDocuments [] = 0 := rfl
theorem scalarBytes_nil : scalarBytes [] = 0 := rfl

theorem nAliases_le_length (xs : List Raw) : nAliases xs ≤ xs.length := by
  simp only [nAliases]; exact List.length_filter_le _ _

/-! ## the state reached from the fresh all-content enforcer -/

theorem within_new (lim : Limits) (pd : Bool) : Within (Enf.new lim pd) := by
  simp [Within, Enf.new]

section fresh
variable (lim : Limits) (evs : List Raw)

theorem fresh_lim : (nextAll (Enf.new lim false) evs).lim = lim := by simp [Enf.new]

theorem fresh_events : (nextAll (Enf.new lim false) evs).report.events = evs.length := by
  rw [nextAll_events (by rfl)]; simp [Enf.new]

theorem fresh_nodes : (nextAll (Enf.new lim false) evs).report.nodes = nNodes evs := by
  rw [nextAll_nodes (by rfl)]; simp [Enf.new]

theorem fresh_aliases : (nextAll (Enf.new lim false) evs).report.aliases = nAliases evs := by
  rw [nextAll_aliases (by rfl)]; simp [Enf.new]

theorem fresh_documents : (nextAll (Enf.new lim false) evs).report.documents = nDocuments evs := by
  rw [nextAll_documents (by rfl)]; simp [Enf.new]

theorem fresh_defined : (nextAll (Enf.new lim false) evs).defined = defAfter [] evs := by
  rw [nextAll_defined (by rfl)]; rfl

theorem fresh_anchors : (nextAll (Enf.new lim false) evs).defined.length = nAnchors evs := by
  rw [fresh_defined, nAnchors_eq]

theorem fresh_tsb : (nextAll (Enf.new lim false) evs).report.totalScalarBytes = min (scalarBytes evs) USIZE_MAX := by
  rw [nextAll_tsb (by rfl) _ (by simp [Enf.new])]; simp [Enf.new]

theorem fresh_mergeKeys : (nextAll (Enf.new lim false) evs).report.mergeKeys = mkAll false [] evs := by
  rw [nextAll_mergeKeys (by rfl)]; simp [Enf.new]

theorem fresh_containers (pd : Bool) : (nextAll (Enf.new lim pd) evs).containers = cstepAll pd [] evs := by
  rw [nextAll_containers]; rfl

theorem fresh_depth_len (pd : Bool) (hlen : evs.length < 2 ^ 64) :
    (nextAll (Enf.new lim pd) evs).depth = (nextAll (Enf.new lim pd) evs).containers.length :=
  nextAll_depth_len evs rfl (by simpa [Enf.new] using hlen)

theorem fresh_depth (hlen : evs.length < 2 ^ 64) :
    (nextAll (Enf.new lim false) evs).depth = depthAfter 0 evs ∧
    (nextAll (Enf.new lim false) evs).report.maxDepth = maxDepth evs := by
  have := nextAll_depth (e := Enf.new lim false) rfl evs (Nat.le_refl _) (by simpa [Enf.new] using hlen)
  exact ⟨this.1, this.2.1⟩

end fresh

/-! ## finalize -/

theorem finalize_fst (e : Enf) : e.finalize.1 = { e.report with anchors := e.defined.length } := by
  unfold Enf.finalize; simp only []; split <;> rfl

theorem finalize_snd (e : Enf) (hpd : e.perDocument = false) :
    e.finalize.2 =
      if (e.lim.enforceRatio && decide (e.finalize.1.aliases ≥ e.lim.minAliases) &&
          (e.finalize.1.anchors == 0 || decide (e.finalize.1.aliases > satMul e.lim.multiplier e.finalize.1.anchors))) = true
      then some (.ratio e.finalize.1.aliases e.finalize.1.anchors) else none := by
  rw [finalize_fst]
  unfold Enf.finalize; simp only [hpd, Bool.not_false, if_true]; rfl

/-- per-document policy: `finalize` does not judge the ratio (every `DocumentEnd` did) -/
theorem finalize_snd_pd (e : Enf) (hpd : e.perDocument = true) : e.finalize.2 = none := by
  unfold Enf.finalize; simp [hpd]

theorem gt_satMul {a : Nat} (m k : Nat) (ha : a ≤ USIZE_MAX) : a > satMul m k ↔ a > m * k := by
  unfold satMul; split <;> omega

/-! ## unbalanced never happens on well-formed lists -/

theorem wf_nil_of_isEnd {ev : Raw} (h : isEnd ev = true) : wf [] ev = false := by
  cases ev <;> simp_all [isEnd, wf]

theorem pro_of_isEnd {e : Enf} {ev : Raw} (h : isEnd ev = true) : pro e ev = e :=
  pro_of_not_docStart (by cases ev <;> simp_all [isEnd, isDocStart])

theorem unbalanced_wfAll_false {e : Enf} {i j : Nat} {evs : List Raw} (hd : e.depth = e.containers.length)
    (hlen : e.depth + evs.length < 2 ^ 64) (h : runFrom e i evs = .error (j, .unbalanced)) :
    wfAll e.perDocument e.containers evs = false := by
  obtain ⟨pre, ev, post, rfl, -, -, herr⟩ := runFrom_err h
  have hb := observe_err herr
  simp only [BreachSpec] at hb
  rw [pro_of_isEnd hb.1] at hb
  have hlen' : e.depth + pre.length < 2 ^ 64 := by
    simp only [List.length_append, List.length_cons] at hlen; omega
  have hdl := nextAll_depth_len pre hd hlen'
  have hwf : wf (cstepAll e.perDocument e.containers pre) ev = false := by
    rw [← nextAll_containers]
    rcases hb.2 with h0 | h0
    · rw [h0] at hdl
      have : (nextAll e pre).containers = [] := List.eq_nil_of_length_eq_zero hdl.symm
      rw [this]; exact wf_nil_of_isEnd hb.1
    · exact h0
  rw [wfAll_append]; simp only [wfAll, hwf, Bool.false_and, Bool.and_false]

/-! ## `within` and depth bounds -/

theorem within_iff (lim : Limits) (r : Report) :
    within lim r = true ↔
      (r.events ≤ lim.maxEvents ∧ r.aliases ≤ lim.maxAliases ∧ r.anchors ≤ lim.maxAnchors ∧
       r.maxDepth ≤ lim.maxDepth ∧ r.documents ≤ lim.maxDocuments ∧ r.nodes ≤ lim.maxNodes ∧
       r.totalScalarBytes ≤ lim.maxTotalScalarBytes ∧ r.mergeKeys ≤ lim.maxMergeKeys) := by
  simp [within, and_assoc]

theorem depthAfter_le (d : Nat) (xs : List Raw) : depthAfter d xs ≤ d + xs.length := by
  induction xs generalizing d with
  | nil => exact Nat.le_refl _
  | cons x xs ih =>
    simp only [depthAfter, List.length_cons]
    have := ih (depthStep d x)
    have h3 : depthStep d x ≤ d + 1 := by
      rw [depthStep_eq]; split <;> (try split) <;> omega
    omega

/-! ## per-document policy -/

/-- acceptance of a run -/
def acc : Except (Nat × Breach) Enf → Bool
  | .ok _ => true
  | .error _ => false

/-- move the reported index of a breach by `k` (the final state is untouched) -/
def shiftErr (k : Nat) : Except (Nat × Breach) Enf → Except (Nat × Breach) Enf
  | .ok e => .ok e
  | .error (i, b) => .error (k + i, b)

theorem runFrom_shift (e : Enf) (k i : Nat) (evs : List Raw) :
    runFrom e (k + i) evs = shiftErr k (runFrom e i evs) := by
  induction evs generalizing e i with
  | nil => rfl
  | cons x xs ih =>
    simp only [runFrom]
    cases e.observe x with
    | error b => rfl
    | ok e1 => exact ih e1 (i + 1)

@[simp] theorem acc_shiftErr (k : Nat) (r : Except (Nat × Breach) Enf) : acc (shiftErr k r) = acc r := by
  cases r with
  | ok e => rfl
  | error p => rfl

/-- the per-document state right after a `DocumentStart`: nothing but the limits, the (never changing)
documents counter and the one counted event -/
def docStartState (lim : Limits) (docs : Nat) : Enf :=
  { lim, perDocument := true, report := { events := 1, documents := docs } }

/-- per-document policy: what `observe` does on a `DocumentStart` depends on the limits and on the documents
counter only — not on anything counted before -/
theorem observe_docStart_pd {e : Enf} (x : Bool) (hpd : e.perDocument = true) :
    e.observe (.docStart x) =
      if 1 > e.lim.maxEvents then .error (.events 1) else .ok (docStartState e.lim e.report.documents) := by
  cases e with
  | mk lim pd report depth defined containers =>
    simp only [] at hpd
    subst hpd
    simp [observe_eq, pro, isStreamFrame, isDocStart, Enf.observeCounted, docStartState]

/-- per-document policy: stream framing is not observed at all -/
theorem observe_frame_pd {e : Enf} (hpd : e.perDocument = true) {ev : Raw} (hf : isStreamFrame ev = true) :
    e.observe ev = .ok e := by
  rw [observe_eq, hpd, hf]; rfl

theorem next_documents_pd {e : Enf} (hpd : e.perDocument = true) (ev : Raw) :
    (next e ev).report.documents = e.report.documents := by
  unfold next; split
  · rfl
  · split
    · rfl
    · rename_i h _
      simp only [hpd, Bool.true_and] at h
      simp [h, b2n]

theorem nextAll_documents_pd {e : Enf} (hpd : e.perDocument = true) (evs : List Raw) :
    (nextAll e evs).report.documents = e.report.documents := by
  induction evs generalizing e with
  | nil => rfl
  | cons x xs ih => simp only [nextAll]; rw [ih (by simpa using hpd), next_documents_pd hpd]

/-- KEY LEMMA (per-document policy).  The run over an event list that begins with a `DocumentStart` is the same
from any two states that agree on the limits and on the documents counter: counters, defined anchors, depth
and container stack of whatever was observed before are irrelevant.  Arbitrary event lists (not only trees),
arbitrary states (also the one left behind by an abandoned document). -/
theorem runFrom_docStart_pd {e e' : Enf} (hpd : e.perDocument = true) (hpd' : e'.perDocument = true)
    (hl : e.lim = e'.lim) (hdoc : e.report.documents = e'.report.documents) (x : Bool) (evs : List Raw) (i : Nat) :
    runFrom e i (.docStart x :: evs) = runFrom e' i (.docStart x :: evs) := by
  simp only [runFrom, observe_docStart_pd x hpd, observe_docStart_pd x hpd', hl, hdoc]

/-- one document on its own: its events `DocumentStart … DocumentEnd` from the fresh per-document state -/
def docRun (lim : Limits) (d : Node) : Except (Nat × Breach) Enf :=
  runFrom (Enf.new lim true) 0 (flattenDoc d)

/-- a state a per-document run can be in between two documents: right policy, right limits, documents
counter still zero (everything else arbitrary) -/
def PdState (lim : Limits) (e : Enf) : Prop :=
  e.perDocument = true ∧ e.lim = lim ∧ e.report.documents = 0

theorem pdState_new (lim : Limits) : PdState lim (Enf.new lim true) := ⟨rfl, rfl, rfl⟩

theorem pdState_run {lim : Limits} {e e' : Enf} {i : Nat} {evs : List Raw} (hs : PdState lim e)
    (h : runFrom e i evs = .ok e') : PdState lim e' := by
  obtain ⟨rfl, -⟩ := runFrom_ok h
  exact ⟨by rw [nextAll_pd]; exact hs.1, by rw [nextAll_lim]; exact hs.2.1,
    by rw [nextAll_documents_pd hs.1]; exact hs.2.2⟩

/-- the run over the events of one document from ANY between-documents state is the run of the document
on its own (breach index moved to the position of the document) -/
theorem runFrom_flattenDoc_pd {lim : Limits} {e : Enf} (hs : PdState lim e) (i : Nat) (d : Node) :
    runFrom e i (flattenDoc d) = shiftErr i (docRun lim d) := by
  unfold docRun flattenDoc
  rw [← runFrom_shift, Nat.add_zero]
  exact runFrom_docStart_pd hs.1 rfl hs.2.1 hs.2.2 _ _ _

/-- what a per-document run of a stream must be: the documents one at a time, each from the fresh state;
the first failing document decides, otherwise the state is the one the last document ended in -/
def perDocSpec (lim : Limits) : Nat → Enf → List Node → Except (Nat × Breach) Enf
  | _, last, [] => .ok last
  | off, _, d :: ds =>
    match docRun lim d with
    | .error (i, b) => .error (off + i, b)
    | .ok e => perDocSpec lim (off + (flattenDoc d).length) e ds

/-- documents only (no `StreamEnd`): from any between-documents state -/
theorem perdoc_docs0 (lim : Limits) (ds : List Node) (e : Enf) (i : Nat) (hs : PdState lim e) :
    runFrom e i (flattenDocs ds) = perDocSpec lim i e ds := by
  induction ds generalizing e i with
  | nil => rfl
  | cons d ds ih =>
    simp only [flattenDocs, perDocSpec]
    rw [runFrom_append, runFrom_flattenDoc_pd hs]
    cases h0 : docRun lim d with
    | error p => rfl
    | ok e1 => exact ih e1 _ (pdState_run (pdState_new lim) h0)

theorem pdState_perDocSpec {lim : Limits} {off : Nat} {last e : Enf} {ds : List Node} (hs : PdState lim last)
    (h : perDocSpec lim off last ds = .ok e) : PdState lim e := by
  rw [← perdoc_docs0 lim ds last off hs] at h
  exact pdState_run hs h

theorem perdoc_docs (lim : Limits) (ds : List Node) (e : Enf) (i : Nat) (hs : PdState lim e) :
    runFrom e i (flattenDocs ds ++ [.streamEnd]) = perDocSpec lim i e ds := by
  rw [runFrom_append, perdoc_docs0 lim ds e i hs]
  cases h : perDocSpec lim i e ds with
  | error p => rfl
  | ok e1 =>
    simp only [runFrom, observe_frame_pd (pdState_perDocSpec hs h).1 (ev := .streamEnd) rfl]

/-- the per-document run of everything before a document: `StreamStart` (not counted), then the documents -/
theorem perDoc_prefix_eq (lim : Limits) (ds : List Node) :
    run lim true (.streamStart :: flattenDocs ds) = perDocSpec lim 1 (Enf.new lim true) ds := by
  simp only [run, runFrom, observe_frame_pd (e := Enf.new lim true) rfl (ev := .streamStart) rfl]
  exact perdoc_docs0 lim ds _ _ (pdState_new lim)

/-- the per-document run of a whole stream, completely: `StreamStart` is not counted, then document by
document -/
theorem perDoc_run_eq (lim : Limits) (ds : List Node) :
    run lim true (flattenStream ds) = perDocSpec lim 1 (Enf.new lim true) ds := by
  simp only [run, flattenStream, runFrom, observe_frame_pd (e := Enf.new lim true) rfl (ev := .streamStart) rfl]
  exact perdoc_docs lim ds _ _ (pdState_new lim)

theorem perDocSpec_append (lim : Limits) (off : Nat) (last : Enf) (pre ds : List Node) :
    perDocSpec lim off last (pre ++ ds) =
      match perDocSpec lim off last pre with
      | .error x => .error x
      | .ok e => perDocSpec lim (off + (flattenDocs pre).length) e ds := by
  induction pre generalizing off last with
  | nil => rfl
  | cons d pre ih =>
    simp only [List.cons_append, perDocSpec, flattenDocs, List.length_append]
    cases docRun lim d with
    | error p => rfl
    | ok e1 => simp only []; rw [ih, Nat.add_assoc]

theorem runFrom_err_index {e : Enf} {i j : Nat} {b : Breach} {evs : List Raw} (h : runFrom e i evs = .error (j, b)) :
    i ≤ j ∧ j < i + evs.length := by
  obtain ⟨pre, ev, post, rfl, rfl, -, -⟩ := runFrom_err h
  simp only [List.length_append, List.length_cons]; omega

theorem perDocSpec_err_index {lim : Limits} {off : Nat} {last : Enf} {ds : List Node} {j : Nat} {b : Breach}
    (h : perDocSpec lim off last ds = .error (j, b)) : off ≤ j := by
  induction ds generalizing off last with
  | nil => cases h
  | cons d ds ih =>
    simp only [perDocSpec] at h
    split at h
    · injection h with h; injection h with h1 h2; omega
    · have := ih h; omega

/-- the usage report of an accepted run (`finalize`), `none` for a rejected one -/
def okReport : Except (Nat × Breach) Enf → Option Report
  | .ok e => some e.finalize.1
  | .error _ => none

@[simp] theorem okReport_shiftErr (k : Nat) (r : Except (Nat × Breach) Enf) : okReport (shiftErr k r) = okReport r := by
  cases r with
  | ok e => rfl
  | error p => rfl

theorem acc_perDocSpec (lim : Limits) (ds : List Node) (off : Nat) (last : Enf) :
    acc (perDocSpec lim off last ds) = ds.all (fun d => acc (docRun lim d)) := by
  induction ds generalizing off last with
  | nil => rfl
  | cons d ds ih =>
    simp only [perDocSpec, List.all_cons]
    cases h0 : docRun lim d with
    | error p => rfl
    | ok e1 => simp only [acc, Bool.true_and]; exact ih _ _

/-- a one-document stream is the document on its own (index moved past the uncounted `StreamStart`) -/
theorem perDoc_single (lim : Limits) (d : Node) :
    run lim true (flattenStream [d]) = shiftErr 1 (docRun lim d) := by
  rw [perDoc_run_eq]
  simp only [perDocSpec]
  cases docRun lim d with
  | error p => rfl
  | ok e1 => rfl

/-! ## a (necessarily astronomically large) counterexample to "never unbalanced" without the size bound

A sequence nested `2^64` deep saturates the `usize` depth counter; the last `SequenceEnd` then finds
`depth == 0` and is reported as unbalanced. -/

/-- `[[[ ... "" ... ]]]`, `n` levels -/
def nest : Nat → Node
  | 0 => .scalar [] .plain 0 none
  | n + 1 => .seq 0 none [nest n]

def bigLim : Limits :=
  { maxEvents := 2 ^ 70, maxAliases := 2 ^ 70, maxAnchors := 2 ^ 70, maxDepth := 2 ^ 70, maxDocuments := 2 ^ 70,
    maxNodes := 2 ^ 70, maxTotalScalarBytes := 2 ^ 70, maxMergeKeys := 2 ^ 70, enforceRatio := false,
    minAliases := 0, multiplier := 0 }

theorem replicate_snoc {α} (n : Nat) (a : α) : List.replicate n a ++ [a] = a :: List.replicate n a := by
  induction n with
  | zero => rfl
  | succ n ih => simp only [List.replicate_succ, List.cons_append, ih]

theorem flatten_nest (n : Nat) :
    flatten (nest n) =
      List.replicate n (Raw.seqStart 0 none) ++ Raw.scalar [] .plain 0 none :: List.replicate n Raw.seqEnd := by
  induction n with
  | zero => rfl
  | succ n ih =>
    simp only [nest, flatten, flattenL, ih, List.append_nil, List.replicate_succ, List.cons_append,
      List.append_assoc, replicate_snoc]

theorem nextAll_starts_depth {e : Enf} (hpd : e.perDocument = false) (hd : e.depth ≤ USIZE_MAX) (n : Nat) :
    (nextAll e (List.replicate n (Raw.seqStart 0 none))).depth = min (e.depth + n) USIZE_MAX := by
  induction n generalizing e with
  | zero =>
    show e.depth = min (e.depth + 0) USIZE_MAX
    omega
  | succ n ih =>
    simp only [List.replicate_succ, nextAll]
    have h1 : (next e (Raw.seqStart 0 none)).depth = min (e.depth + 1) USIZE_MAX := by
      rw [next_depth, hpd]
      simp only [isDocStart, isStart, Bool.false_and, Bool.false_eq_true, if_false, if_true, satAdd_eq_min]
    rw [ih (by simpa using hpd) (by rw [h1]; omega), h1]
    omega

theorem nextAll_ends_depth (e : Enf) (n : Nat) :
    (nextAll e (List.replicate n Raw.seqEnd)).depth = e.depth - n := by
  induction n generalizing e with
  | zero => rfl
  | succ n ih =>
    simp only [List.replicate_succ, nextAll]
    rw [ih, next_depth]
    simp only [isDocStart, isStart, isEnd, Bool.and_false, Bool.false_eq_true, if_false, if_true]
    omega

theorem defAfter_length_le (bs : List Nat) (evs : List Raw) : (defAfter bs evs).length ≤ bs.length + evs.length := by
  induction evs generalizing bs with
  | nil => exact Nat.le_refl _
  | cons x xs ih =>
    simp only [defAfter, List.length_cons]
    have h1 := ih (defIns bs (anchorOf x))
    have h2 : (defIns bs (anchorOf x)).length ≤ bs.length + 1 := by
      unfold defIns; split <;> simp
    omega

theorem mkAll_le (pd : Bool) (cs : List CState) (evs : List Raw) : mkAll pd cs evs ≤ evs.length := by
  induction evs generalizing cs with
  | nil => exact Nat.le_refl _
  | cons x xs ih =>
    simp only [mkAll, List.length_cons]
    have h1 := ih (cstep pd cs x)
    have h2 : mkOf cs x ≤ 1 := by
      cases x <;> simp only [mkOf, b2n] <;> (try split) <;> omega
    omega

theorem nextAll_maxDepth_le {e : Enf} (hpd : e.perDocument = false) (evs : List Raw) :
    (nextAll e evs).report.maxDepth ≤ max e.report.maxDepth USIZE_MAX := by
  induction evs generalizing e with
  | nil => simp only [nextAll]; omega
  | cons x xs ih =>
    simp only [nextAll]
    have h1 := ih (e := next e x) (by simpa using hpd)
    have h2 : (next e x).report.maxDepth ≤ max e.report.maxDepth USIZE_MAX := by
      simp only [next, hpd, Bool.false_and, Bool.false_eq_true, if_false, satAdd_eq_min]
      split <;> omega
    omega

theorem nNodes_le_length (xs : List Raw) : nNodes xs ≤ xs.length := by
  simp only [nNodes]; exact List.length_filter_le _ _

theorem nDocuments_le_length (xs : List Raw) : nDocuments xs ≤ xs.length := by
  simp only [nDocuments]; exact List.length_filter_le _ _

theorem observe_seqEnd_depth0 {E e2 : Enf} (hd : E.depth = 0) (h : E.observe .seqEnd = .ok e2) : False := by
  rw [observe_plain E rfl rfl] at h
  simp only [Enf.observeCounted] at h
  split at h
  · cases h
  · simp [hd] at h

/-- the stream of the counterexample, split right before the offending `SequenceEnd` -/
theorem counter_stream (M : Nat) :
    flattenStream [nest (M + 1)] =
      ([Raw.streamStart, Raw.docStart false] ++ List.replicate (M + 1) (Raw.seqStart 0 none) ++
        [Raw.scalar [] .plain 0 none] ++ List.replicate M Raw.seqEnd) ++ Raw.seqEnd :: [Raw.docEnd, Raw.streamEnd] := by
  simp only [flattenStream, flattenDocs, flattenDoc, flatten_nest, List.append_nil]
  rw [show List.replicate (M + 1) Raw.seqEnd = List.replicate M Raw.seqEnd ++ [Raw.seqEnd] by
    rw [replicate_snoc]; rfl]
  simp only [List.cons_append, List.append_assoc, List.nil_append]

theorem counter_depth (M : Nat) (hM : M = USIZE_MAX) :
    (nextAll (Enf.new bigLim false)
      ([Raw.streamStart, Raw.docStart false] ++ List.replicate (M + 1) (Raw.seqStart 0 none) ++
        [Raw.scalar [] .plain 0 none] ++ List.replicate M Raw.seqEnd)).depth = 0 := by
  rw [nextAll_append, nextAll_ends_depth, nextAll_append, nextAll_append]
  have h1 : (nextAll (Enf.new bigLim false) [Raw.streamStart, Raw.docStart false]).depth = 0 := rfl
  have h2 := nextAll_starts_depth (e := nextAll (Enf.new bigLim false) [Raw.streamStart, Raw.docStart false]) rfl (by rw [h1]; omega) (M + 1)
  rw [h1] at h2
  show (next _ _).depth - M = 0
  rw [next_depth]
  simp only [nextAll_pd, isDocStart, isStart, isEnd, Bool.and_false, Bool.false_eq_true, if_false]
  rw [h2]; omega

theorem counter_unbalanced (M : Nat) (hM : M = USIZE_MAX) :
    ∃ i, run bigLim false (flattenStream [nest (M + 1)]) = .error (i, .unbalanced) := by
  have hU : USIZE_MAX = 2 ^ 64 - 1 := rfl
  cases h : run bigLim false (flattenStream [nest (M + 1)]) with
  | ok e =>
    exfalso
    unfold run at h
    rw [counter_stream, runFrom_append] at h
    split at h
    · cases h
    · rename_i e1 h1
      obtain ⟨rfl, -⟩ := runFrom_ok h1
      simp only [runFrom] at h
      split at h
      · cases h
      · rename_i e2 h2
        exact observe_seqEnd_depth0 (counter_depth M hM) h2
  | error p =>
    obtain ⟨j, b⟩ := p
    unfold run at h
    obtain ⟨pre, ev, post, heq, -, -, herr⟩ := runFrom_err h
    have hb := observe_err herr
    rw [pro_of_not_pd ev (by simp [Enf.new])] at hb
    have hlen : pre.length + 1 + post.length = 2 * M + 7 := by
      have := congrArg List.length heq
      rw [counter_stream] at this
      simp only [List.length_append, List.length_cons, List.length_replicate, List.length_nil] at this
      omega
    cases b <;> simp only [BreachSpec, fresh_lim] at hb
    case unbalanced => exact ⟨j, rfl⟩
    case ratio a n => simp [Enf.new] at hb
    case events n => rw [fresh_events] at hb; simp only [bigLim] at hb; omega
    case nodes n =>
      rw [fresh_nodes] at hb; have := nNodes_le_length pre; simp only [bigLim] at hb; omega
    case aliases n =>
      rw [fresh_aliases] at hb; have := nAliases_le_length pre; simp only [bigLim] at hb; omega
    case documents n =>
      rw [fresh_documents] at hb; have := nDocuments_le_length pre; simp only [bigLim] at hb; omega
    case anchors n =>
      rw [fresh_defined] at hb
      have := defAfter_length_le (defAfter [] pre) [ev]
      have := defAfter_length_le [] pre
      simp only [defAfter, List.length_cons, List.length_nil, bigLim] at *
      omega
    case scalarBytes n => rw [satAdd_eq_min] at hb; simp only [bigLim] at hb; omega
    case depth n =>
      have := nextAll_maxDepth_le (e := Enf.new bigLim false) rfl pre
      rw [satAdd_eq_min] at hb
      simp only [bigLim, Enf.new] at hb this
      omega
    case mergeKeys n =>
      rw [fresh_mergeKeys] at hb; have := mkAll_le false [] pre; simp only [bigLim] at hb; omega

/-! ## alternative: a configured depth limit below `usize::MAX` also keeps the depth counter exact -/

theorem next_maxDepth (e : Enf) (ev : Raw) :
    (next e ev).report.maxDepth =
      if e.perDocument && isDocStart ev then 0
      else if isStart ev then max e.report.maxDepth (satAdd e.depth 1) else e.report.maxDepth := by
  unfold next; split
  · rfl
  · split
    · rename_i h
      simp only [Bool.and_eq_true] at h
      cases ev <;> simp_all [isStreamFrame, isStart]
    · rfl

/-- invariant of accepted runs -/
def DepthInv (e : Enf) : Prop :=
  Within e ∧ e.depth = e.containers.length ∧ e.depth ≤ e.report.maxDepth

theorem depthInv_new (lim : Limits) (pd : Bool) : DepthInv (Enf.new lim pd) :=
  ⟨within_new lim pd, rfl, Nat.le_refl _⟩

theorem depthInv_step {e e' : Enf} {ev : Raw} (hlim : e.lim.maxDepth < USIZE_MAX) (hI : DepthInv e)
    (h : e.observe ev = .ok e') : DepthInv e' := by
  obtain ⟨hW, hd, hm⟩ := hI
  obtain ⟨rfl, hw⟩ := observe_ok h
  have hW' := hw hW
  have hU : USIZE_MAX = 2 ^ 64 - 1 := rfl
  have hdl : e.depth + 1 < 2 ^ 64 := by
    have := hW.2.2.2.1; omega
  refine ⟨hW', ?_, ?_⟩
  · rw [next_depth, next_containers, cstep_length, satAdd_one hdl, hd]
  · rw [next_depth, next_maxDepth, satAdd_one hdl]
    split <;> (try split) <;> (try split) <;> omega

theorem depthInv_run {e e' : Enf} {i : Nat} {evs : List Raw} (hlim : e.lim.maxDepth < USIZE_MAX) (hI : DepthInv e)
    (h : runFrom e i evs = .ok e') : DepthInv e' := by
  induction evs generalizing e i with
  | nil => simp only [runFrom] at h; injection h with h; subst h; exact hI
  | cons x xs ih =>
    simp only [runFrom] at h
    cases h1 : e.observe x with
    | error b => rw [h1] at h; cases h
    | ok e1 =>
      rw [h1] at h
      have hl : e1.lim = e.lim := by obtain ⟨rfl, -⟩ := observe_ok h1; simp
      exact ih (by rw [hl]; exact hlim) (depthInv_step hlim hI h1) h

theorem unbalanced_wfAll_false' {e : Enf} {i j : Nat} {evs : List Raw} (hlim : e.lim.maxDepth < USIZE_MAX)
    (hI : DepthInv e) (h : runFrom e i evs = .error (j, .unbalanced)) :
    wfAll e.perDocument e.containers evs = false := by
  obtain ⟨pre, ev, post, rfl, -, hok, herr⟩ := runFrom_err h
  have hb := observe_err herr
  simp only [BreachSpec] at hb
  rw [pro_of_isEnd hb.1] at hb
  have hdl := (depthInv_run hlim hI hok).2.1
  have hwf : wf (cstepAll e.perDocument e.containers pre) ev = false := by
    rw [← nextAll_containers]
    rcases hb.2 with h0 | h0
    · rw [h0] at hdl
      have : (nextAll e pre).containers = [] := List.eq_nil_of_length_eq_zero hdl.symm
      rw [this]; exact wf_nil_of_isEnd hb.1
    · exact h0
  rw [wfAll_append]; simp only [wfAll, hwf, Bool.false_and, Bool.and_false]

end SaphyrVerif.Lemmas.C07
