import SaphyrVerif.Spec.BudgetSpec
/-!
Helper lemmas for C07.

Plan: `next` is the check-free successor function of the enforcer (`observe` = checks + `next`);
`nextAll` folds it over an event list.  Every counter of `nextAll e evs` is an independent count
of `evs`.  The container stack / merge-key counter are described by the pure "ghost" functions
`cstep` / `mkOf` / `wf`, for which the tree lemmas are proved by mutual structural induction.
-/
namespace SaphyrVerif.Lemmas.C07
open SaphyrVerif SaphyrVerif.Scalars SaphyrVerif.Budget SaphyrVerif.Spec

/-! ## ghost functions -/

def isStart : Raw → Bool
  | .seqStart .. | .mapStart .. => true
  | _ => false

def isEnd : Raw → Bool
  | .seqEnd | .mapEnd => true
  | _ => false

def isDocStart : Raw → Bool
  | .docStart _ => true
  | _ => false

def b2n (b : Bool) : Nat := if b then 1 else 0

/-- insertion into the duplicate-free anchor set -/
def defIns (bs : List Nat) (a : Nat) : List Nat :=
  if a != 0 && !bs.contains a then a :: bs else bs

/-- pop of a container (`fm` = from mapping value) -/
def popC (fm : Bool) (rest : List CState) : List CState := if fm then finishValue rest else rest

/-- container stack after one event (total; `observe` fails where `wf` is false) -/
def cstep (pd : Bool) (cs : List CState) : Raw → List CState
  | .scalar .. => (handleScalar cs false).1
  | .alias _ => handleAlias cs
  | .mapStart .. => .map true (enteringContainer cs).2 :: (enteringContainer cs).1
  | .seqStart .. => .seq (enteringContainer cs).2 :: (enteringContainer cs).1
  | .mapEnd =>
    match cs with
    | .map _ fm :: rest => popC fm rest
    | _ :: rest => rest
    | [] => []
  | .seqEnd =>
    match cs with
    | .seq fm :: rest => popC fm rest
    | _ :: rest => rest
    | [] => []
  | .docStart _ => if pd then [] else cs
  | _ => cs

/-- is the top of the stack a mapping that expects a key? -/
def isKeyTop : List CState → Bool
  | .map true _ :: _ => true
  | _ => false

/-- merge keys counted by one event -/
def mkOf (cs : List CState) : Raw → Nat
  | .scalar v st _ tag => b2n (isKeyTop cs && (tag.isNone && st == .plain && v == ['<', '<']))
  | _ => 0

/-- the End event matches the top of the stack -/
def wf (cs : List CState) : Raw → Bool
  | .mapEnd => match cs with | .map _ _ :: _ => true | _ => false
  | .seqEnd => match cs with | .seq _ :: _ => true | _ => false
  | _ => true

def cstepAll (pd : Bool) : List CState → List Raw → List CState
  | cs, [] => cs
  | cs, ev :: evs => cstepAll pd (cstep pd cs ev) evs

def mkAll (pd : Bool) : List CState → List Raw → Nat
  | _, [] => 0
  | cs, ev :: evs => mkOf cs ev + mkAll pd (cstep pd cs ev) evs

def wfAll (pd : Bool) : List CState → List Raw → Bool
  | _, [] => true
  | cs, ev :: evs => wf cs ev && wfAll pd (cstep pd cs ev) evs

/-- check-free successor state -/
def next (e : Enf) (ev : Raw) : Enf :=
  if e.perDocument && isDocStart ev then
    { e with report := { documents := e.report.documents }, defined := [], depth := 0, containers := [] }
  else
    { e with
      report :=
        { events := e.report.events + 1
          aliases := e.report.aliases + b2n (isAliasEv ev)
          anchors := if isNodeEv ev then (defIns e.defined (anchorOf ev)).length else e.report.anchors
          documents := e.report.documents + b2n (isDocStart ev)
          nodes := e.report.nodes + b2n (isNodeEv ev)
          maxDepth := if isStart ev then max e.report.maxDepth (satAdd e.depth 1) else e.report.maxDepth
          totalScalarBytes :=
            match ev with
            | .scalar v _ _ _ => satAdd e.report.totalScalarBytes (utf8Len v)
            | _ => e.report.totalScalarBytes
          mergeKeys := e.report.mergeKeys + mkOf e.containers ev }
      depth := if isStart ev then satAdd e.depth 1 else if isEnd ev then e.depth - 1 else e.depth
      defined := defIns e.defined (anchorOf ev)
      containers := cstep e.perDocument e.containers ev }

def nextAll (e : Enf) : List Raw → Enf
  | [] => e
  | ev :: evs => nextAll (next e ev) evs

/-! ## `observe` = checks + `next` -/

theorem handleScalar_fst (cs : List CState) (b : Bool) : (handleScalar cs b).1 = (handleScalar cs false).1 := by
  unfold handleScalar; split <;> rfl

theorem handleScalar_snd (cs : List CState) (b : Bool) : (handleScalar cs b).2 = (isKeyTop cs && b) := by
  unfold handleScalar isKeyTop; split <;> simp

theorem bumpNodes_ok {e e1 : Enf} (h : e.bumpNodes = .ok e1) :
    e1 = { e with report := { e.report with nodes := e.report.nodes + 1 } } ∧ e.report.nodes + 1 ≤ e.lim.maxNodes := by
  simp only [Enf.bumpNodes] at h
  split at h
  · cases h
  · injection h with h; subst h; exact ⟨rfl, by omega⟩

theorem bumpNodes_err {e : Enf} {b : Breach} (h : e.bumpNodes = .error b) :
    b = .nodes (e.report.nodes + 1) ∧ e.report.nodes + 1 > e.lim.maxNodes := by
  simp only [Enf.bumpNodes] at h
  split at h
  · injection h with h; subst h; exact ⟨rfl, by assumption⟩
  · cases h

theorem ite_gt_eq_max (d m : Nat) : (if d > m then d else m) = max m d := by
  split <;> omega

theorem bumpDepth_ok {e e1 : Enf} (h : e.bumpDepth = .ok e1) :
    e1 = { e with depth := satAdd e.depth 1,
                  report := { e.report with maxDepth := max e.report.maxDepth (satAdd e.depth 1) } } ∧
    max e.report.maxDepth (satAdd e.depth 1) ≤ e.lim.maxDepth := by
  simp only [Enf.bumpDepth, ite_gt_eq_max] at h
  split at h
  · cases h
  · injection h with h; subst h; exact ⟨rfl, by omega⟩

theorem bumpDepth_err {e : Enf} {b : Breach} (h : e.bumpDepth = .error b) :
    b = .depth (max e.report.maxDepth (satAdd e.depth 1)) ∧
    max e.report.maxDepth (satAdd e.depth 1) > e.lim.maxDepth := by
  simp only [Enf.bumpDepth, ite_gt_eq_max] at h
  split at h
  · injection h with h; subst h; exact ⟨rfl, by assumption⟩
  · cases h

theorem recordAnchor_ok {e e1 : Enf} {a : Nat} (h : e.recordAnchor a = .ok e1) :
    e1 = { e with defined := defIns e.defined a,
                  report := { e.report with anchors := (defIns e.defined a).length } } ∧
    (defIns e.defined a).length ≤ max e.defined.length e.lim.maxAnchors := by
  simp only [Enf.recordAnchor] at h
  split at h
  · rename_i hc
    split at h
    · cases h
    · injection h with h; subst h
      have hd : defIns e.defined a = a :: e.defined := by simp only [defIns, if_pos hc]
      rw [hd]; exact ⟨rfl, by simp only [List.length_cons] at *; omega⟩
  · rename_i hc
    injection h with h; subst h
    have hd : defIns e.defined a = e.defined := by simp only [defIns, if_neg hc]
    rw [hd]; exact ⟨rfl, by omega⟩

theorem recordAnchor_err {e : Enf} {a : Nat} {b : Breach} (h : e.recordAnchor a = .error b) :
    b = .anchors (defIns e.defined a).length ∧ (defIns e.defined a).length > e.lim.maxAnchors := by
  simp only [Enf.recordAnchor] at h
  split at h
  · rename_i hc
    split at h
    · injection h with h; subst h
      have hd : defIns e.defined a = a :: e.defined := by simp only [defIns, if_pos hc]
      rw [hd]; exact ⟨rfl, by assumption⟩
    · cases h
  · cases h

/-- what a breach raised by `observe` says -/
def BreachSpec (e : Enf) (ev : Raw) : Breach → Prop
  | .events n => n = e.report.events + 1 ∧ n > e.lim.maxEvents
  | .nodes n => isNodeEv ev = true ∧ n = e.report.nodes + 1 ∧ n > e.lim.maxNodes
  | .aliases n => isAliasEv ev = true ∧ n = e.report.aliases + 1 ∧ n > e.lim.maxAliases
  | .anchors n => n = (defIns e.defined (anchorOf ev)).length ∧ n > e.lim.maxAnchors
  | .documents n => isDocStart ev = true ∧ e.perDocument = false ∧ n = e.report.documents + 1 ∧ n > e.lim.maxDocuments
  | .scalarBytes n => n = satAdd e.report.totalScalarBytes (scalarBytesOf ev) ∧ n > e.lim.maxTotalScalarBytes
  | .depth n => isStart ev = true ∧ n = max e.report.maxDepth (satAdd e.depth 1) ∧ n > e.lim.maxDepth
  | .mergeKeys n => mkOf e.containers ev = 1 ∧ n = e.report.mergeKeys + 1 ∧ n > e.lim.maxMergeKeys
  | .ratio _ _ => False
  | .unbalanced => isEnd ev = true ∧ (e.depth = 0 ∨ wf e.containers ev = false)

/-- the within-limits part of the state -/
def Within (e : Enf) : Prop :=
  e.report.events ≤ e.lim.maxEvents ∧ e.report.aliases ≤ e.lim.maxAliases ∧ e.defined.length ≤ e.lim.maxAnchors ∧
  e.report.maxDepth ≤ e.lim.maxDepth ∧ e.report.documents ≤ e.lim.maxDocuments ∧ e.report.nodes ≤ e.lim.maxNodes ∧
  e.report.totalScalarBytes ≤ e.lim.maxTotalScalarBytes ∧ e.report.mergeKeys ≤ e.lim.maxMergeKeys

/-- outcome of `observe`, uniformly -/
def Outcome (e : Enf) (ev : Raw) : Except Breach Enf → Prop
  | .ok e' => e' = next e ev ∧ (Within e → Within e')
  | .error b => BreachSpec e ev b

@[simp] theorem defIns_zero (bs : List Nat) : defIns bs 0 = bs := by simp [defIns]

macro "fin" : tactic =>
  `(tactic| (simp_all [next, isDocStart, isAliasEv, isNodeEv, isStart, isEnd, anchorOf, scalarBytesOf, mkOf, cstep, wf, b2n,
      BreachSpec, Within, Outcome, popC, Enf.beginDocument, Report.reset] <;> try (intros; omega)))

theorem observe_outcome_scalar (e : Enf) v st a tag :
    Outcome e (.scalar v st a tag) (e.observe (.scalar v st a tag)) := by
  simp only [Enf.observe]
  split
  · fin
  · split
    · rename_i b h1
      obtain ⟨rfl, h1⟩ := bumpNodes_err h1
      fin
    · rename_i e1 h1
      obtain ⟨rfl, h1⟩ := bumpNodes_ok h1
      dsimp only at h1 ⊢
      split
      · fin
      · split
        · rename_i b h2
          obtain ⟨rfl, h2⟩ := recordAnchor_err h2
          fin
        · rename_i e2 h2
          obtain ⟨rfl, h2⟩ := recordAnchor_ok h2
          dsimp only at h2 ⊢
          simp only [handleScalar_snd, handleScalar_fst _ (tag.isNone && st == .plain && v == ['<', '<'])]
          split
          · split
            · fin
            · fin
          · fin

theorem observe_outcome_mapStart (e : Enf) a tag : Outcome e (.mapStart a tag) (e.observe (.mapStart a tag)) := by
  simp only [Enf.observe]
  split
  · fin
  · split
    · rename_i b h1
      obtain ⟨rfl, h1⟩ := bumpNodes_err h1
      fin
    · rename_i e1 h1
      obtain ⟨rfl, h1⟩ := bumpNodes_ok h1
      dsimp only at h1 ⊢
      split
      · rename_i b h2
        obtain ⟨rfl, h2⟩ := bumpDepth_err h2
        fin
      · rename_i e2 h2
        obtain ⟨rfl, h2⟩ := bumpDepth_ok h2
        dsimp only at h2 ⊢
        generalize hr : Enf.recordAnchor _ a = r
        cases r with
        | error b =>
          obtain ⟨rfl, h3⟩ := recordAnchor_err hr
          fin
        | ok e3 =>
          obtain ⟨rfl, h3⟩ := recordAnchor_ok hr
          dsimp only at h3
          fin

theorem observe_outcome_seqStart (e : Enf) a tag : Outcome e (.seqStart a tag) (e.observe (.seqStart a tag)) := by
  simp only [Enf.observe]
  split
  · fin
  · split
    · rename_i b h1
      obtain ⟨rfl, h1⟩ := bumpNodes_err h1
      fin
    · rename_i e1 h1
      obtain ⟨rfl, h1⟩ := bumpNodes_ok h1
      dsimp only at h1 ⊢
      split
      · rename_i b h2
        obtain ⟨rfl, h2⟩ := bumpDepth_err h2
        fin
      · rename_i e2 h2
        obtain ⟨rfl, h2⟩ := bumpDepth_ok h2
        dsimp only at h2 ⊢
        generalize hr : Enf.recordAnchor _ a = r
        cases r with
        | error b =>
          obtain ⟨rfl, h3⟩ := recordAnchor_err hr
          fin
        | ok e3 =>
          obtain ⟨rfl, h3⟩ := recordAnchor_ok hr
          dsimp only at h3
          fin


theorem observe_outcome_mapEnd (e : Enf) : Outcome e .mapEnd (e.observe .mapEnd) := by
  simp only [Enf.observe]
  split
  · fin
  · split
    · fin
    · split
      · fin
      · fin

theorem observe_outcome_seqEnd (e : Enf) : Outcome e .seqEnd (e.observe .seqEnd) := by
  simp only [Enf.observe]
  split
  · fin
  · split
    · fin
    · split
      · fin
      · fin

theorem observe_outcome_alias (e : Enf) id : Outcome e (.alias id) (e.observe (.alias id)) := by
  simp only [Enf.observe]
  split
  · fin
  · split
    · fin
    · fin

theorem observe_outcome_docStart (e : Enf) x : Outcome e (.docStart x) (e.observe (.docStart x)) := by
  simp only [Enf.observe]
  split
  · fin
  · split
    · fin
    · split
      · fin
      · fin

theorem observe_outcome (e : Enf) (ev : Raw) : Outcome e ev (e.observe ev) := by
  cases ev with
  | scalar v st a tag => exact observe_outcome_scalar e v st a tag
  | mapStart a tag => exact observe_outcome_mapStart e a tag
  | seqStart a tag => exact observe_outcome_seqStart e a tag
  | mapEnd => exact observe_outcome_mapEnd e
  | seqEnd => exact observe_outcome_seqEnd e
  | alias id => exact observe_outcome_alias e id
  | docStart x => exact observe_outcome_docStart e x
  | docEnd => simp only [Enf.observe]; split <;> fin
  | nothing => simp only [Enf.observe]; split <;> fin
  | streamStart => simp only [Enf.observe]; split <;> fin
  | streamEnd => simp only [Enf.observe]; split <;> fin

/-! ## `runFrom` -/

theorem observe_ok {e e' : Enf} {ev : Raw} (h : e.observe ev = .ok e') : e' = next e ev ∧ (Within e → Within e') := by
  have := observe_outcome e ev
  rw [h] at this; exact this

theorem observe_err {e : Enf} {ev : Raw} {b : Breach} (h : e.observe ev = .error b) : BreachSpec e ev b := by
  have := observe_outcome e ev
  rw [h] at this; exact this

theorem runFrom_append (e : Enf) (i : Nat) (xs ys : List Raw) :
    runFrom e i (xs ++ ys) =
      match runFrom e i xs with
      | .error x => .error x
      | .ok e' => runFrom e' (i + xs.length) ys := by
  induction xs generalizing e i with
  | nil => simp [runFrom]
  | cons x xs ih =>
    simp only [List.cons_append, runFrom]
    cases h : e.observe x with
    | error b => simp
    | ok e1 =>
      simp only []
      rw [ih]
      simp only [List.length_cons]
      have : i + 1 + xs.length = i + (xs.length + 1) := by omega
      rw [this]

theorem nextAll_append (e : Enf) (xs ys : List Raw) : nextAll e (xs ++ ys) = nextAll (nextAll e xs) ys := by
  induction xs generalizing e with
  | nil => rfl
  | cons x xs ih => simp only [List.cons_append, nextAll, ih]

theorem runFrom_ok {e e' : Enf} {i : Nat} {evs : List Raw} (h : runFrom e i evs = .ok e') :
    e' = nextAll e evs ∧ (Within e → Within e') := by
  induction evs generalizing e i with
  | nil => simp only [runFrom] at h; injection h with h; subst h; exact ⟨rfl, id⟩
  | cons x xs ih =>
    simp only [runFrom] at h
    cases h1 : e.observe x with
    | error b => rw [h1] at h; cases h
    | ok e1 =>
      rw [h1] at h
      obtain ⟨rfl, hw⟩ := observe_ok h1
      obtain ⟨rfl, hw'⟩ := ih h
      exact ⟨rfl, fun w => hw' (hw w)⟩

theorem runFrom_err {e : Enf} {i j : Nat} {b : Breach} {evs : List Raw} (h : runFrom e i evs = .error (j, b)) :
    ∃ pre ev post, evs = pre ++ ev :: post ∧ j = i + pre.length ∧ runFrom e i pre = .ok (nextAll e pre) ∧
      (nextAll e pre).observe ev = .error b := by
  induction evs generalizing e i with
  | nil => simp only [runFrom] at h; cases h
  | cons x xs ih =>
    simp only [runFrom] at h
    cases h1 : e.observe x with
    | error b1 =>
      rw [h1] at h
      injection h with h; injection h with hj hb; subst hj; subst hb
      exact ⟨[], x, xs, rfl, rfl, rfl, h1⟩
    | ok e1 =>
      rw [h1] at h
      obtain ⟨rfl, -⟩ := observe_ok h1
      obtain ⟨pre, ev, post, rfl, rfl, hok, herr⟩ := ih h
      refine ⟨x :: pre, ev, post, rfl, by simp only [List.length_cons]; omega, ?_, herr⟩
      simp only [runFrom, h1, nextAll]; exact hok

/-- acceptance does not depend on the start index -/
theorem runFrom_index {e e' : Enf} {i : Nat} (j : Nat) {evs : List Raw} (h : runFrom e i evs = .ok e') :
    runFrom e j evs = .ok e' := by
  induction evs generalizing e i j with
  | nil => simpa [runFrom] using h
  | cons x xs ih =>
    simp only [runFrom] at h ⊢
    cases h1 : e.observe x with
    | error b => rw [h1] at h; cases h
    | ok e1 => rw [h1] at h; exact ih _ h

/-! ## fields of `nextAll` -/

@[simp] theorem next_lim (e : Enf) (ev : Raw) : (next e ev).lim = e.lim := by
  unfold next; split <;> rfl

@[simp] theorem next_pd (e : Enf) (ev : Raw) : (next e ev).perDocument = e.perDocument := by
  unfold next; split <;> rfl

@[simp] theorem nextAll_lim (e : Enf) (evs : List Raw) : (nextAll e evs).lim = e.lim := by
  induction evs generalizing e with
  | nil => rfl
  | cons x xs ih => simp [nextAll, ih]

@[simp] theorem nextAll_pd (e : Enf) (evs : List Raw) : (nextAll e evs).perDocument = e.perDocument := by
  induction evs generalizing e with
  | nil => rfl
  | cons x xs ih => simp [nextAll, ih]

theorem b2n_eq (b : Bool) : b2n b = if b then 1 else 0 := rfl

theorem nNodes_cons (x : Raw) (xs : List Raw) : nNodes (x :: xs) = b2n (isNodeEv x) + nNodes xs := by
  simp only [nNodes, List.filter_cons, b2n]; split <;> simp <;> omega

theorem nAliases_cons (x : Raw) (xs : List Raw) : nAliases (x :: xs) = b2n (isAliasEv x) + nAliases xs := by
  simp only [nAliases, List.filter_cons, b2n]; split <;> simp <;> omega

theorem nDocuments_cons (x : Raw) (xs : List Raw) : nDocuments (x :: xs) = b2n (isDocStart x) + nDocuments xs := by
  cases x <;> simp [nDocuments, b2n, isDocStart] <;> omega

theorem scalarBytes_cons (x : Raw) (xs : List Raw) : scalarBytes (x :: xs) = scalarBytesOf x + scalarBytes xs := by
  simp [scalarBytes]

theorem nextAll_events {e : Enf} (hpd : e.perDocument = false) (evs : List Raw) :
    (nextAll e evs).report.events = e.report.events + evs.length := by
  induction evs generalizing e with
  | nil => rfl
  | cons x xs ih =>
    simp only [nextAll]; rw [ih (by simpa using hpd)]
    simp [next, hpd]; omega

theorem nextAll_nodes {e : Enf} (hpd : e.perDocument = false) (evs : List Raw) :
    (nextAll e evs).report.nodes = e.report.nodes + nNodes evs := by
  induction evs generalizing e with
  | nil => rfl
  | cons x xs ih =>
    simp only [nextAll]; rw [ih (by simpa using hpd), nNodes_cons]
    simp [next, hpd]; omega

theorem nextAll_aliases {e : Enf} (hpd : e.perDocument = false) (evs : List Raw) :
    (nextAll e evs).report.aliases = e.report.aliases + nAliases evs := by
  induction evs generalizing e with
  | nil => rfl
  | cons x xs ih =>
    simp only [nextAll]; rw [ih (by simpa using hpd), nAliases_cons]
    simp [next, hpd]; omega

theorem nextAll_documents {e : Enf} (hpd : e.perDocument = false) (evs : List Raw) :
    (nextAll e evs).report.documents = e.report.documents + nDocuments evs := by
  induction evs generalizing e with
  | nil => rfl
  | cons x xs ih =>
    simp only [nextAll]; rw [ih (by simpa using hpd), nDocuments_cons]
    simp [next, hpd]; omega

/-! ## anchors -/

def defAfter (bs : List Nat) : List Raw → List Nat
  | [] => bs
  | ev :: evs => defAfter (defIns bs (anchorOf ev)) evs

theorem defAfter_append (bs : List Nat) (xs ys : List Raw) :
    defAfter bs (xs ++ ys) = defAfter (defAfter bs xs) ys := by
  induction xs generalizing bs with
  | nil => rfl
  | cons x xs ih => simp only [List.cons_append, defAfter, ih]

theorem defIns_length_ge (bs : List Nat) (a : Nat) : bs.length ≤ (defIns bs a).length := by
  unfold defIns; split <;> simp

theorem defAfter_length_ge (bs : List Nat) (evs : List Raw) : bs.length ≤ (defAfter bs evs).length := by
  induction evs generalizing bs with
  | nil => exact Nat.le_refl _
  | cons x xs ih => exact Nat.le_trans (defIns_length_ge bs _) (ih _)

theorem loop_length_eq (bs : List Nat) (evs : List Raw) :
    (List.eraseDupsBy.loop (· == ·) ((evs.map anchorOf).filter (· != 0)) bs).length = (defAfter bs evs).length := by
  induction evs generalizing bs with
  | nil => simp [List.eraseDupsBy.loop, defAfter]
  | cons x xs ih =>
    simp only [List.map_cons, List.filter_cons, defAfter]
    by_cases h0 : anchorOf x = 0
    · simp [h0, ih]
    · have h0' : (anchorOf x != 0) = true := by simpa using h0
      simp only [h0', if_true, List.eraseDupsBy.loop]
      by_cases hc : bs.contains (anchorOf x) = true
      · have : bs.any (fun b => anchorOf x == b) = true := by
          rw [← List.contains_eq_any_beq]; exact hc
        have hd : defIns bs (anchorOf x) = bs := by unfold defIns; rw [hc]; simp
        simp only [this, ih, hd]
      · have hc' : bs.contains (anchorOf x) = false := by simpa using hc
        have : bs.any (fun b => anchorOf x == b) = false := by
          rw [← List.contains_eq_any_beq]; exact hc'
        have hd : defIns bs (anchorOf x) = anchorOf x :: bs := by unfold defIns; rw [hc', h0']; simp
        simp only [this, ih, hd]

theorem nAnchors_eq (evs : List Raw) : nAnchors evs = (defAfter [] evs).length := by
  simp only [nAnchors, List.eraseDups, List.eraseDupsBy]
  exact loop_length_eq [] evs

theorem next_defined {e : Enf} (hpd : e.perDocument = false) (ev : Raw) :
    (next e ev).defined = defIns e.defined (anchorOf ev) := by
  simp [next, hpd]

theorem nextAll_defined {e : Enf} (hpd : e.perDocument = false) (evs : List Raw) :
    (nextAll e evs).defined = defAfter e.defined evs := by
  induction evs generalizing e with
  | nil => rfl
  | cons x xs ih =>
    simp only [nextAll, defAfter]; rw [ih (by simpa using hpd), next_defined hpd]

/-! ## scalar bytes -/

theorem satAdd_eq_min (a b : Nat) : satAdd a b = min (a + b) USIZE_MAX := by
  unfold satAdd; split <;> omega

theorem next_tsb {e : Enf} (hpd : e.perDocument = false) (ev : Raw) (hle : e.report.totalScalarBytes ≤ USIZE_MAX) :
    (next e ev).report.totalScalarBytes = min (e.report.totalScalarBytes + scalarBytesOf ev) USIZE_MAX := by
  cases ev <;> simp [next, hpd, scalarBytesOf, satAdd_eq_min] <;> omega

theorem nextAll_tsb {e : Enf} (hpd : e.perDocument = false) (evs : List Raw)
    (hle : e.report.totalScalarBytes ≤ USIZE_MAX) :
    (nextAll e evs).report.totalScalarBytes = min (e.report.totalScalarBytes + scalarBytes evs) USIZE_MAX := by
  induction evs generalizing e with
  | nil => simp only [nextAll, scalarBytes, List.map_nil, List.sum_nil]; omega
  | cons x xs ih =>
    simp only [nextAll]
    rw [ih (by simpa using hpd) (by rw [next_tsb hpd x hle]; omega), next_tsb hpd x hle, scalarBytes_cons]
    omega

/-! ## containers and merge keys -/

theorem next_containers (e : Enf) (ev : Raw) :
    (next e ev).containers = cstep e.perDocument e.containers ev := by
  unfold next; split
  · rename_i h
    simp only [Bool.and_eq_true] at h
    cases ev <;> simp_all [isDocStart, cstep]
  · rfl

theorem nextAll_containers (e : Enf) (evs : List Raw) :
    (nextAll e evs).containers = cstepAll e.perDocument e.containers evs := by
  induction evs generalizing e with
  | nil => rfl
  | cons x xs ih => simp only [nextAll, cstepAll]; rw [ih, next_containers, next_pd]

theorem nextAll_mergeKeys {e : Enf} (hpd : e.perDocument = false) (evs : List Raw) :
    (nextAll e evs).report.mergeKeys = e.report.mergeKeys + mkAll false e.containers evs := by
  induction evs generalizing e with
  | nil => rfl
  | cons x xs ih =>
    simp only [nextAll, mkAll]; rw [ih (by simpa using hpd), next_containers, hpd]
    simp [next, hpd]; omega

theorem cstepAll_append (pd : Bool) (cs : List CState) (xs ys : List Raw) :
    cstepAll pd cs (xs ++ ys) = cstepAll pd (cstepAll pd cs xs) ys := by
  induction xs generalizing cs with
  | nil => rfl
  | cons x xs ih => simp only [List.cons_append, cstepAll, ih]

theorem mkAll_append (pd : Bool) (cs : List CState) (xs ys : List Raw) :
    mkAll pd cs (xs ++ ys) = mkAll pd cs xs + mkAll pd (cstepAll pd cs xs) ys := by
  induction xs generalizing cs with
  | nil => simp [mkAll, cstepAll]
  | cons x xs ih => simp only [List.cons_append, mkAll, cstepAll, ih]; omega

theorem wfAll_append (pd : Bool) (cs : List CState) (xs ys : List Raw) :
    wfAll pd cs (xs ++ ys) = (wfAll pd cs xs && wfAll pd (cstepAll pd cs xs) ys) := by
  induction xs generalizing cs with
  | nil => simp [wfAll, cstepAll]
  | cons x xs ih => simp only [List.cons_append, wfAll, cstepAll, ih, Bool.and_assoc]

/-! ## depth -/

theorem finishValue_length (cs : List CState) : (finishValue cs).length = cs.length := by
  unfold finishValue; split <;> simp

theorem enteringContainer_length (cs : List CState) : (enteringContainer cs).1.length = cs.length := by
  unfold enteringContainer; split <;> simp

theorem handleAlias_length (cs : List CState) : (handleAlias cs).length = cs.length := by
  unfold handleAlias; split <;> simp [finishValue_length]

theorem handleScalar_length (cs : List CState) (b : Bool) : (handleScalar cs b).1.length = cs.length := by
  unfold handleScalar; split <;> simp [finishValue_length]

theorem popC_length (fm : Bool) (cs : List CState) : (popC fm cs).length = cs.length := by
  unfold popC; split <;> simp [finishValue_length]

theorem cstep_length (pd : Bool) (cs : List CState) (ev : Raw) :
    (cstep pd cs ev).length =
      if pd && isDocStart ev then 0 else if isStart ev then cs.length + 1 else if isEnd ev then cs.length - 1 else cs.length := by
  cases ev <;> simp [cstep, isDocStart, isStart, isEnd, handleScalar_length, handleAlias_length, enteringContainer_length]
  · cases pd <;> simp
  · split <;> simp [popC_length]
  · split <;> simp [popC_length]

theorem satAdd_one {d : Nat} (h : d + 1 < 2 ^ 64) : satAdd d 1 = d + 1 := by
  unfold satAdd USIZE_MAX; split <;> omega

theorem next_depth (e : Enf) (ev : Raw) :
    (next e ev).depth =
      if e.perDocument && isDocStart ev then 0 else if isStart ev then satAdd e.depth 1 else if isEnd ev then e.depth - 1 else e.depth := by
  unfold next; split <;> rfl

/-- depth = height of the container stack (both policies) -/
theorem nextAll_depth_len {e : Enf} (evs : List Raw) (hd : e.depth = e.containers.length)
    (hlen : e.depth + evs.length < 2 ^ 64) :
    (nextAll e evs).depth = (nextAll e evs).containers.length := by
  induction evs generalizing e with
  | nil => exact hd
  | cons x xs ih =>
    simp only [nextAll]
    simp only [List.length_cons] at hlen
    have h1 : (next e x).depth = (next e x).containers.length := by
      rw [next_depth, next_containers, cstep_length, satAdd_one (by omega), hd]
    have h2 : (next e x).depth ≤ e.depth + 1 := by
      rw [next_depth, satAdd_one (by omega)]; split <;> (try split) <;> (try split) <;> omega
    exact ih h1 (by omega)

def depthAfter (d : Nat) : List Raw → Nat
  | [] => d
  | ev :: evs => depthAfter (depthStep d ev) evs

theorem depthStep_eq (d : Nat) (ev : Raw) :
    depthStep d ev = if isStart ev then d + 1 else if isEnd ev then d - 1 else d := by
  cases ev <;> simp [depthStep, isStart, isEnd]

theorem maxDepthFrom_append (d m : Nat) (xs ys : List Raw) :
    maxDepthFrom d m (xs ++ ys) = maxDepthFrom (depthAfter d xs) (maxDepthFrom d m xs) ys := by
  induction xs generalizing d m with
  | nil => rfl
  | cons x xs ih => simp only [List.cons_append, maxDepthFrom, depthAfter, ih]

theorem maxDepthFrom_ge (d m : Nat) (xs : List Raw) : m ≤ maxDepthFrom d m xs := by
  induction xs generalizing d m with
  | nil => exact Nat.le_refl _
  | cons x xs ih => simp only [maxDepthFrom]; exact Nat.le_trans (Nat.le_max_left _ _) (ih _ _)

theorem nextAll_depth {e : Enf} (hpd : e.perDocument = false) (evs : List Raw)
    (hm : e.depth ≤ e.report.maxDepth) (hlen : e.depth + evs.length < 2 ^ 64) :
    (nextAll e evs).depth = depthAfter e.depth evs ∧
    (nextAll e evs).report.maxDepth = maxDepthFrom e.depth e.report.maxDepth evs ∧
    (nextAll e evs).depth ≤ (nextAll e evs).report.maxDepth := by
  induction evs generalizing e with
  | nil => exact ⟨rfl, rfl, hm⟩
  | cons x xs ih =>
    simp only [nextAll, depthAfter, maxDepthFrom]
    simp only [List.length_cons] at hlen
    have h1 : (next e x).depth = depthStep e.depth x := by
      rw [next_depth, depthStep_eq, satAdd_one (by omega), hpd]; simp
    have h2 : (next e x).report.maxDepth = max e.report.maxDepth (depthStep e.depth x) := by
      rw [depthStep_eq]
      simp only [next, hpd, Bool.false_and, satAdd_one (show e.depth + 1 < 2 ^ 64 by omega)]
      simp only [Bool.false_eq_true, if_false]
      split <;> (try split) <;> omega
    have h3 : depthStep e.depth x ≤ e.depth + 1 := by
      rw [depthStep_eq]; split <;> (try split) <;> omega
    have := ih (e := next e x) (by simpa using hpd) (by rw [h1, h2]; omega) (by rw [h1]; omega)
    rw [h1, h2] at this
    exact this

/-! ## tree lemmas for the ghost machine -/

/-- ghost summary of an event list from stack `cs`: final stack, merge keys, well-formedness -/
def G (pd : Bool) (cs : List CState) (evs : List Raw) : List CState × Nat × Bool :=
  (cstepAll pd cs evs, mkAll pd cs evs, wfAll pd cs evs)

theorem G_append (pd : Bool) (cs : List CState) (xs ys : List Raw) :
    G pd cs (xs ++ ys) =
      ((G pd (G pd cs xs).1 ys).1, (G pd cs xs).2.1 + (G pd (G pd cs xs).1 ys).2.1,
       ((G pd cs xs).2.2 && (G pd (G pd cs xs).1 ys).2.2)) := by
  simp only [G, cstepAll_append, mkAll_append, wfAll_append]

theorem G_nil (pd : Bool) (cs : List CState) : G pd cs [] = (cs, 0, true) := rfl

theorem G_cons (pd : Bool) (cs : List CState) (x : Raw) (xs : List Raw) :
    G pd cs (x :: xs) =
      ((G pd (cstep pd cs x) xs).1, mkOf cs x + (G pd (cstep pd cs x) xs).2.1,
       (wf cs x && (G pd (cstep pd cs x) xs).2.2)) := rfl

theorem handleAlias_key (fm : Bool) (r : List CState) : handleAlias (.map true fm :: r) = .map false fm :: r := rfl
theorem handleAlias_val (fm : Bool) (r : List CState) : handleAlias (.map false fm :: r) = .map true fm :: r := rfl
theorem handleAlias_seq (fm : Bool) (r : List CState) : handleAlias (.seq fm :: r) = .seq fm :: r := rfl

/-- closing a container opened over `cs` gives `handleAlias cs` -/
theorem pop_entering (cs : List CState) :
    popC (enteringContainer cs).2 (enteringContainer cs).1 = handleAlias cs := by
  unfold enteringContainer handleAlias popC
  split <;> simp [finishValue]

mutual
theorem G_node (pd : Bool) (t : Node) (cs : List CState) :
    G pd cs (flatten t) = (handleAlias cs, mergeKeys t + b2n (isKeyTop cs && isMergeKeyTree t), true) := by
  match t with
  | .scalar v st a tag =>
    simp only [flatten, G_cons, G_nil, cstep, mkOf, wf, mergeKeys, isMergeKeyTree]
    have : (handleScalar cs false).1 = handleAlias cs := by
      unfold handleScalar handleAlias; split <;> rfl
    simp [this]
  | .alias id =>
    simp [flatten, G_cons, G_nil, cstep, mkOf, wf, mergeKeys, isMergeKeyTree, b2n]
  | .seq a tag items =>
    simp only [flatten, G_cons, G_append, G_nil, cstep, mkOf, wf, mergeKeys, isMergeKeyTree]
    rw [G_list pd items]
    simp [pop_entering, b2n]
  | .map a tag entries =>
    simp only [flatten, G_cons, G_append, G_nil, cstep, mkOf, wf, mergeKeys, isMergeKeyTree]
    rw [G_entries pd entries]
    simp [pop_entering, b2n]
theorem G_list (pd : Bool) (ts : List Node) (fm : Bool) (r : List CState) :
    G pd (.seq fm :: r) (flattenL ts) = (.seq fm :: r, mergeKeysL ts, true) := by
  match ts with
  | [] => rfl
  | t :: ts =>
    simp only [flattenL, G_append, mergeKeysL]
    rw [G_node pd t, handleAlias_seq, G_list pd ts]
    simp [isKeyTop, b2n]
theorem G_entries (pd : Bool) (es : List (Node × Node)) (fm : Bool) (r : List CState) :
    G pd (.map true fm :: r) (flattenE es) = (.map true fm :: r, mergeKeysE es, true) := by
  match es with
  | [] => rfl
  | (k, v) :: es =>
    simp only [flattenE, G_append, mergeKeysE]
    rw [G_node pd k, handleAlias_key, G_node pd v, handleAlias_val, G_entries pd es]
    simp [isKeyTop, b2n]
    omega
end

theorem G_docs (pd : Bool) (ds : List Node) : G pd [] (flattenDocs ds) = ([], mergeKeysDocs ds, true) := by
  induction ds with
  | nil => rfl
  | cons d ds ih =>
    simp only [flattenDocs, flattenDoc, G_append, G_cons, G_nil, mergeKeysDocs]
    have hc : cstep pd [] (.docStart false) = [] := by cases pd <;> rfl
    rw [hc, G_node pd d]
    simp only [handleAlias, cstep, ih]
    simp [isKeyTop, b2n, mkOf, wf]

theorem G_stream (pd : Bool) (ds : List Node) : G pd [] (flattenStream ds) = ([], mergeKeysDocs ds, true) := by
  simp only [flattenStream, G_cons, G_append, G_nil, cstep, G_docs]
  simp [mkOf, wf]

/-! ## counts over `pre ++ ev :: post` -/

theorem nNodes_append (xs ys : List Raw) : nNodes (xs ++ ys) = nNodes xs + nNodes ys := by
  simp [nNodes]

theorem nAliases_append (xs ys : List Raw) : nAliases (xs ++ ys) = nAliases xs + nAliases ys := by
  simp [nAliases]

theorem nDocuments_append (xs ys : List Raw) : nDocuments (xs ++ ys) = nDocuments xs + nDocuments ys := by
  simp [nDocuments]

theorem scalarBytes_append (xs ys : List Raw) : scalarBytes (xs ++ ys) = scalarBytes xs + scalarBytes ys := by
  simp [scalarBytes]

theorem nNodes_nil : nNodes [] = 0 := rfl
theorem nAliases_nil : nAliases [] = 0 := rfl
theorem nDocuments_nil : nDocuments [] = 0 := rfl
theorem scalarBytes_nil : scalarBytes [] = 0 := rfl

theorem nAliases_le_length (xs : List Raw) : nAliases xs ≤ xs.length := by
  simp only [nAliases]; exact List.length_filter_le _ _

/-! ## the state reached from the fresh all-content enforcer -/

theorem within_new (lim : Limits) (pd : Bool) : Within (Enf.new lim pd) := by
  simp [Within, Enf.new]

section fresh
variable (lim : Limits) (evs : List Raw)

theorem fresh_lim : (nextAll (Enf.new lim false) evs).lim = lim := by simp [Enf.new]

theorem fresh_events : (nextAll (Enf.new lim false) evs).report.events = evs.length := by
  rw [nextAll_events (by rfl)]; simp [Enf.new]

theorem fresh_nodes : (nextAll (Enf.new lim false) evs).report.nodes = nNodes evs := by
  rw [nextAll_nodes (by rfl)]; simp [Enf.new]

theorem fresh_aliases : (nextAll (Enf.new lim false) evs).report.aliases = nAliases evs := by
  rw [nextAll_aliases (by rfl)]; simp [Enf.new]

theorem fresh_documents : (nextAll (Enf.new lim false) evs).report.documents = nDocuments evs := by
  rw [nextAll_documents (by rfl)]; simp [Enf.new]

theorem fresh_defined : (nextAll (Enf.new lim false) evs).defined = defAfter [] evs := by
  rw [nextAll_defined (by rfl)]; rfl

theorem fresh_anchors : (nextAll (Enf.new lim false) evs).defined.length = nAnchors evs := by
  rw [fresh_defined, nAnchors_eq]

theorem fresh_tsb : (nextAll (Enf.new lim false) evs).report.totalScalarBytes = min (scalarBytes evs) USIZE_MAX := by
  rw [nextAll_tsb (by rfl) _ (by simp [Enf.new])]; simp [Enf.new]

theorem fresh_mergeKeys : (nextAll (Enf.new lim false) evs).report.mergeKeys = mkAll false [] evs := by
  rw [nextAll_mergeKeys (by rfl)]; simp [Enf.new]

theorem fresh_containers (pd : Bool) : (nextAll (Enf.new lim pd) evs).containers = cstepAll pd [] evs := by
  rw [nextAll_containers]; rfl

theorem fresh_depth_len (pd : Bool) (hlen : evs.length < 2 ^ 64) :
    (nextAll (Enf.new lim pd) evs).depth = (nextAll (Enf.new lim pd) evs).containers.length :=
  nextAll_depth_len evs rfl (by simpa [Enf.new] using hlen)

theorem fresh_depth (hlen : evs.length < 2 ^ 64) :
    (nextAll (Enf.new lim false) evs).depth = depthAfter 0 evs ∧
    (nextAll (Enf.new lim false) evs).report.maxDepth = maxDepth evs := by
  have := nextAll_depth (e := Enf.new lim false) rfl evs (Nat.le_refl _) (by simpa [Enf.new] using hlen)
  exact ⟨this.1, this.2.1⟩

end fresh

/-! ## finalize -/

theorem finalize_fst (e : Enf) : e.finalize.1 = { e.report with anchors := e.defined.length } := by
  unfold Enf.finalize; simp only []; split <;> rfl

theorem finalize_snd (e : Enf) :
    e.finalize.2 =
      if (e.lim.enforceRatio && decide (e.finalize.1.aliases ≥ e.lim.minAliases) &&
          (e.finalize.1.anchors == 0 || decide (e.finalize.1.aliases > satMul e.lim.multiplier e.finalize.1.anchors))) = true
      then some (.ratio e.finalize.1.aliases e.finalize.1.anchors) else none := by
  rw [finalize_fst]
  unfold Enf.finalize; simp only []; split <;> rfl

theorem gt_satMul {a : Nat} (m k : Nat) (ha : a ≤ USIZE_MAX) : a > satMul m k ↔ a > m * k := by
  unfold satMul; split <;> omega

/-! ## unbalanced never happens on well-formed lists -/

theorem wf_nil_of_isEnd {ev : Raw} (h : isEnd ev = true) : wf [] ev = false := by
  cases ev <;> simp_all [isEnd, wf]

theorem unbalanced_wfAll_false {e : Enf} {i j : Nat} {evs : List Raw} (hd : e.depth = e.containers.length)
    (hlen : e.depth + evs.length < 2 ^ 64) (h : runFrom e i evs = .error (j, .unbalanced)) :
    wfAll e.perDocument e.containers evs = false := by
  obtain ⟨pre, ev, post, rfl, -, -, herr⟩ := runFrom_err h
  have hb := observe_err herr
  simp only [BreachSpec] at hb
  have hlen' : e.depth + pre.length < 2 ^ 64 := by
    simp only [List.length_append, List.length_cons] at hlen; omega
  have hdl := nextAll_depth_len pre hd hlen'
  have hwf : wf (cstepAll e.perDocument e.containers pre) ev = false := by
    rw [← nextAll_containers]
    rcases hb.2 with h0 | h0
    · rw [h0] at hdl
      have : (nextAll e pre).containers = [] := List.eq_nil_of_length_eq_zero hdl.symm
      rw [this]; exact wf_nil_of_isEnd hb.1
    · exact h0
  rw [wfAll_append]; simp only [wfAll, hwf, Bool.false_and, Bool.and_false]

/-! ## `within` and depth bounds -/

theorem within_iff (lim : Limits) (r : Report) :
    within lim r = true ↔
      (r.events ≤ lim.maxEvents ∧ r.aliases ≤ lim.maxAliases ∧ r.anchors ≤ lim.maxAnchors ∧
       r.maxDepth ≤ lim.maxDepth ∧ r.documents ≤ lim.maxDocuments ∧ r.nodes ≤ lim.maxNodes ∧
       r.totalScalarBytes ≤ lim.maxTotalScalarBytes ∧ r.mergeKeys ≤ lim.maxMergeKeys) := by
  simp [within, and_assoc]

theorem depthAfter_le (d : Nat) (xs : List Raw) : depthAfter d xs ≤ d + xs.length := by
  induction xs generalizing d with
  | nil => exact Nat.le_refl _
  | cons x xs ih =>
    simp only [depthAfter, List.length_cons]
    have := ih (depthStep d x)
    have h3 : depthStep d x ≤ d + 1 := by
      rw [depthStep_eq]; split <;> (try split) <;> omega
    omega

/-! ## per-document policy -/

/-- acceptance of a run -/
def acc : Except (Nat × Breach) Enf → Bool
  | .ok _ => true
  | .error _ => false

/-- one document is accepted on its own: its events from the reset state, and the event check that follows it -/
def docOk (lim : Limits) (d : Node) : Bool :=
  match runFrom (Enf.new lim true) 0 (flatten d ++ [.docEnd]) with
  | .ok e1 => decide (e1.report.events + 1 ≤ lim.maxEvents)
  | .error _ => false

theorem observe_docStart_pd {e : Enf} (x : Bool) (hpd : e.perDocument = true) (hdoc : e.report.documents = 0) :
    e.observe (.docStart x) =
      if e.report.events + 1 > e.lim.maxEvents then .error (.events (e.report.events + 1))
      else .ok (Enf.new e.lim true) := by
  cases e with
  | mk lim pd report depth defined containers =>
    simp only [] at hpd hdoc
    subst hpd
    simp [Enf.observe, Enf.beginDocument, Report.reset, Enf.new, hdoc]

theorem observe_streamEnd (e : Enf) :
    e.observe .streamEnd =
      if e.report.events + 1 > e.lim.maxEvents then .error (.events (e.report.events + 1))
      else .ok { e with report := { e.report with events := e.report.events + 1 } } := by
  simp [Enf.observe]

theorem observe_streamStart (e : Enf) :
    e.observe .streamStart =
      if e.report.events + 1 > e.lim.maxEvents then .error (.events (e.report.events + 1))
      else .ok { e with report := { e.report with events := e.report.events + 1 } } := by
  simp [Enf.observe]

theorem next_documents_pd {e : Enf} (hpd : e.perDocument = true) (ev : Raw) :
    (next e ev).report.documents = e.report.documents := by
  unfold next; split
  · rfl
  · rename_i h
    simp only [hpd, Bool.true_and] at h
    simp [h, b2n]

theorem nextAll_documents_pd {e : Enf} (hpd : e.perDocument = true) (evs : List Raw) :
    (nextAll e evs).report.documents = e.report.documents := by
  induction evs generalizing e with
  | nil => rfl
  | cons x xs ih => simp only [nextAll]; rw [ih (by simpa using hpd), next_documents_pd hpd]

theorem docEnd_events (e : Enf) : (next e .docEnd).report.events = e.report.events + 1 := by
  simp [next, isDocStart]

theorem perdoc_docs (lim : Limits) (ds : List Node) (e : Enf) (i : Nat)
    (hl : e.lim = lim) (hpd : e.perDocument = true) (hdoc : e.report.documents = 0) :
    acc (runFrom e i (flattenDocs ds ++ [.streamEnd])) =
      (decide (e.report.events + 1 ≤ lim.maxEvents) && ds.all (docOk lim)) := by
  induction ds generalizing e i with
  | nil =>
    simp only [flattenDocs, List.nil_append, runFrom, observe_streamEnd, hl, List.all_nil, Bool.and_true]
    by_cases h : e.report.events + 1 > lim.maxEvents
    · simp only [if_pos h, acc]; simp; omega
    · simp only [if_neg h, acc]; simp; omega
  | cons d ds ih =>
    have hsplit : flattenDocs (d :: ds) ++ [Raw.streamEnd] =
        Raw.docStart false :: ((flatten d ++ [Raw.docEnd]) ++ (flattenDocs ds ++ [Raw.streamEnd])) := by
      simp [flattenDocs, flattenDoc]
    rw [hsplit]
    simp only [runFrom, observe_docStart_pd false hpd hdoc, hl, List.all_cons]
    by_cases h : e.report.events + 1 > lim.maxEvents
    · simp only [if_pos h, acc]; simp; omega
    · simp only [if_neg h]
      have hle : decide (e.report.events + 1 ≤ lim.maxEvents) = true := by simp; omega
      rw [hle, Bool.true_and, runFrom_append]
      unfold docOk
      cases h0 : runFrom (Enf.new lim true) 0 (flatten d ++ [Raw.docEnd]) with
      | ok e1 =>
        rw [runFrom_index (i + 1) h0]
        simp only []
        obtain ⟨rfl, -⟩ := runFrom_ok h0
        exact ih _ _ (by simp [Enf.new]) (by simp [Enf.new]) (by rw [nextAll_documents_pd (by rfl)]; rfl)
      | error p =>
        cases h1 : runFrom (Enf.new lim true) (i + 1) (flatten d ++ [Raw.docEnd]) with
        | ok e1 => rw [runFrom_index 0 h1] at h0; cases h0
        | error q => simp [acc]

theorem docOk_events {lim : Limits} {d : Node} (h : docOk lim d = true) : 2 ≤ lim.maxEvents := by
  unfold docOk at h
  split at h
  · rename_i e1 h0
    obtain ⟨rfl, -⟩ := runFrom_ok h0
    rw [nextAll_append] at h
    simp only [nextAll, docEnd_events, decide_eq_true_eq] at h
    omega
  · cases h

theorem perDoc_eq (lim : Limits) (ds : List Node) :
    acc (run lim true (flattenStream ds)) =
      (decide (1 ≤ lim.maxEvents) && (decide (2 ≤ lim.maxEvents) && ds.all (docOk lim))) := by
  simp only [run, flattenStream, runFrom, observe_streamStart]
  by_cases h : (Enf.new lim true).report.events + 1 > (Enf.new lim true).lim.maxEvents
  · rw [if_pos h]
    simp only [Enf.new] at h
    simp [acc]; omega
  · rw [if_neg h]
    simp only []
    rw [perdoc_docs lim ds _ _ rfl rfl rfl]
    simp only [Enf.new] at h ⊢
    simp; omega

/-! ## a (necessarily astronomically large) counterexample to "never unbalanced" without the size bound

A sequence nested `2^64` deep saturates the `usize` depth counter; the last `SequenceEnd` then finds
`depth == 0` and is reported as unbalanced. -/

/-- `[[[ ... "" ... ]]]`, `n` levels -/
def nest : Nat → Node
  | 0 => .scalar [] .plain 0 none
  | n + 1 => .seq 0 none [nest n]

def bigLim : Limits :=
  { maxEvents := 2 ^ 70, maxAliases := 2 ^ 70, maxAnchors := 2 ^ 70, maxDepth := 2 ^ 70, maxDocuments := 2 ^ 70,
    maxNodes := 2 ^ 70, maxTotalScalarBytes := 2 ^ 70, maxMergeKeys := 2 ^ 70, enforceRatio := false,
    minAliases := 0, multiplier := 0 }

theorem replicate_snoc {α} (n : Nat) (a : α) : List.replicate n a ++ [a] = a :: List.replicate n a := by
  induction n with
  | zero => rfl
  | succ n ih => simp only [List.replicate_succ, List.cons_append, ih]

theorem flatten_nest (n : Nat) :
    flatten (nest n) =
      List.replicate n (Raw.seqStart 0 none) ++ Raw.scalar [] .plain 0 none :: List.replicate n Raw.seqEnd := by
  induction n with
  | zero => rfl
  | succ n ih =>
    simp only [nest, flatten, flattenL, ih, List.append_nil, List.replicate_succ, List.cons_append,
      List.append_assoc, replicate_snoc]

theorem nextAll_starts_depth {e : Enf} (hpd : e.perDocument = false) (hd : e.depth ≤ USIZE_MAX) (n : Nat) :
    (nextAll e (List.replicate n (Raw.seqStart 0 none))).depth = min (e.depth + n) USIZE_MAX := by
  induction n generalizing e with
  | zero =>
    show e.depth = min (e.depth + 0) USIZE_MAX
    omega
  | succ n ih =>
    simp only [List.replicate_succ, nextAll]
    have h1 : (next e (Raw.seqStart 0 none)).depth = min (e.depth + 1) USIZE_MAX := by
      rw [next_depth, hpd]
      simp only [isDocStart, isStart, Bool.false_and, Bool.false_eq_true, if_false, if_true, satAdd_eq_min]
    rw [ih (by simpa using hpd) (by rw [h1]; omega), h1]
    omega

theorem nextAll_ends_depth (e : Enf) (n : Nat) :
    (nextAll e (List.replicate n Raw.seqEnd)).depth = e.depth - n := by
  induction n generalizing e with
  | zero => rfl
  | succ n ih =>
    simp only [List.replicate_succ, nextAll]
    rw [ih, next_depth]
    simp only [isDocStart, isStart, isEnd, Bool.and_false, Bool.false_eq_true, if_false, if_true]
    omega

theorem defAfter_length_le (bs : List Nat) (evs : List Raw) : (defAfter bs evs).length ≤ bs.length + evs.length := by
  induction evs generalizing bs with
  | nil => exact Nat.le_refl _
  | cons x xs ih =>
    simp only [defAfter, List.length_cons]
    have h1 := ih (defIns bs (anchorOf x))
    have h2 : (defIns bs (anchorOf x)).length ≤ bs.length + 1 := by
      unfold defIns; split <;> simp
    omega

theorem mkAll_le (pd : Bool) (cs : List CState) (evs : List Raw) : mkAll pd cs evs ≤ evs.length := by
  induction evs generalizing cs with
  | nil => exact Nat.le_refl _
  | cons x xs ih =>
    simp only [mkAll, List.length_cons]
    have h1 := ih (cstep pd cs x)
    have h2 : mkOf cs x ≤ 1 := by
      cases x <;> simp only [mkOf, b2n] <;> (try split) <;> omega
    omega

theorem nextAll_maxDepth_le {e : Enf} (hpd : e.perDocument = false) (evs : List Raw) :
    (nextAll e evs).report.maxDepth ≤ max e.report.maxDepth USIZE_MAX := by
  induction evs generalizing e with
  | nil => simp only [nextAll]; omega
  | cons x xs ih =>
    simp only [nextAll]
    have h1 := ih (e := next e x) (by simpa using hpd)
    have h2 : (next e x).report.maxDepth ≤ max e.report.maxDepth USIZE_MAX := by
      simp only [next, hpd, Bool.false_and, Bool.false_eq_true, if_false, satAdd_eq_min]
      split <;> omega
    omega

theorem nNodes_le_length (xs : List Raw) : nNodes xs ≤ xs.length := by
  simp only [nNodes]; exact List.length_filter_le _ _

theorem nDocuments_le_length (xs : List Raw) : nDocuments xs ≤ xs.length := by
  simp only [nDocuments]; exact List.length_filter_le _ _

theorem observe_seqEnd_depth0 {E e2 : Enf} (hd : E.depth = 0) (h : E.observe .seqEnd = .ok e2) : False := by
  simp only [Enf.observe] at h
  split at h
  · cases h
  · simp [hd] at h

/-- the stream of the counterexample, split right before the offending `SequenceEnd` -/
theorem counter_stream (M : Nat) :
    flattenStream [nest (M + 1)] =
      ([Raw.streamStart, Raw.docStart false] ++ List.replicate (M + 1) (Raw.seqStart 0 none) ++
        [Raw.scalar [] .plain 0 none] ++ List.replicate M Raw.seqEnd) ++ Raw.seqEnd :: [Raw.docEnd, Raw.streamEnd] := by
  simp only [flattenStream, flattenDocs, flattenDoc, flatten_nest, List.append_nil]
  rw [show List.replicate (M + 1) Raw.seqEnd = List.replicate M Raw.seqEnd ++ [Raw.seqEnd] by
    rw [replicate_snoc]; rfl]
  simp only [List.cons_append, List.append_assoc, List.nil_append]

theorem counter_depth (M : Nat) (hM : M = USIZE_MAX) :
    (nextAll (Enf.new bigLim false)
      ([Raw.streamStart, Raw.docStart false] ++ List.replicate (M + 1) (Raw.seqStart 0 none) ++
        [Raw.scalar [] .plain 0 none] ++ List.replicate M Raw.seqEnd)).depth = 0 := by
  rw [nextAll_append, nextAll_ends_depth, nextAll_append, nextAll_append]
  have h1 : (nextAll (Enf.new bigLim false) [Raw.streamStart, Raw.docStart false]).depth = 0 := rfl
  have h2 := nextAll_starts_depth (e := nextAll (Enf.new bigLim false) [Raw.streamStart, Raw.docStart false]) rfl (by rw [h1]; omega) (M + 1)
  rw [h1] at h2
  show (next _ _).depth - M = 0
  rw [next_depth]
  simp only [nextAll_pd, isDocStart, isStart, isEnd, Bool.and_false, Bool.false_eq_true, if_false]
  rw [h2]; omega

theorem counter_unbalanced (M : Nat) (hM : M = USIZE_MAX) :
    ∃ i, run bigLim false (flattenStream [nest (M + 1)]) = .error (i, .unbalanced) := by
  have hU : USIZE_MAX = 2 ^ 64 - 1 := rfl
  cases h : run bigLim false (flattenStream [nest (M + 1)]) with
  | ok e =>
    exfalso
    unfold run at h
    rw [counter_stream, runFrom_append] at h
    split at h
    · cases h
    · rename_i e1 h1
      obtain ⟨rfl, -⟩ := runFrom_ok h1
      simp only [runFrom] at h
      split at h
      · cases h
      · rename_i e2 h2
        exact observe_seqEnd_depth0 (counter_depth M hM) h2
  | error p =>
    obtain ⟨j, b⟩ := p
    unfold run at h
    obtain ⟨pre, ev, post, heq, -, -, herr⟩ := runFrom_err h
    have hb := observe_err herr
    have hlen : pre.length + 1 + post.length = 2 * M + 7 := by
      have := congrArg List.length heq
      rw [counter_stream] at this
      simp only [List.length_append, List.length_cons, List.length_replicate, List.length_nil] at this
      omega
    cases b <;> simp only [BreachSpec, fresh_lim] at hb
    case unbalanced => exact ⟨j, rfl⟩
    case events n => rw [fresh_events] at hb; simp only [bigLim] at hb; omega
    case nodes n =>
      rw [fresh_nodes] at hb; have := nNodes_le_length pre; simp only [bigLim] at hb; omega
    case aliases n =>
      rw [fresh_aliases] at hb; have := nAliases_le_length pre; simp only [bigLim] at hb; omega
    case documents n =>
      rw [fresh_documents] at hb; have := nDocuments_le_length pre; simp only [bigLim] at hb; omega
    case anchors n =>
      rw [fresh_defined] at hb
      have := defAfter_length_le (defAfter [] pre) [ev]
      have := defAfter_length_le [] pre
      simp only [defAfter, List.length_cons, List.length_nil, bigLim] at *
      omega
    case scalarBytes n => rw [satAdd_eq_min] at hb; simp only [bigLim] at hb; omega
    case depth n =>
      have := nextAll_maxDepth_le (e := Enf.new bigLim false) rfl pre
      rw [satAdd_eq_min] at hb
      simp only [bigLim, Enf.new] at hb this
      omega
    case mergeKeys n =>
      rw [fresh_mergeKeys] at hb; have := mkAll_le false [] pre; simp only [bigLim] at hb; omega

/-! ## alternative: a configured depth limit below `usize::MAX` also keeps the depth counter exact -/

theorem next_maxDepth (e : Enf) (ev : Raw) :
    (next e ev).report.maxDepth =
      if e.perDocument && isDocStart ev then 0
      else if isStart ev then max e.report.maxDepth (satAdd e.depth 1) else e.report.maxDepth := by
  unfold next; split <;> rfl

/-- invariant of accepted runs -/
def DepthInv (e : Enf) : Prop :=
  Within e ∧ e.depth = e.containers.length ∧ e.depth ≤ e.report.maxDepth

theorem depthInv_new (lim : Limits) (pd : Bool) : DepthInv (Enf.new lim pd) :=
  ⟨within_new lim pd, rfl, Nat.le_refl _⟩

theorem depthInv_step {e e' : Enf} {ev : Raw} (hlim : e.lim.maxDepth < USIZE_MAX) (hI : DepthInv e)
    (h : e.observe ev = .ok e') : DepthInv e' := by
  obtain ⟨hW, hd, hm⟩ := hI
  obtain ⟨rfl, hw⟩ := observe_ok h
  have hW' := hw hW
  have hU : USIZE_MAX = 2 ^ 64 - 1 := rfl
  have hdl : e.depth + 1 < 2 ^ 64 := by
    have := hW.2.2.2.1; omega
  refine ⟨hW', ?_, ?_⟩
  · rw [next_depth, next_containers, cstep_length, satAdd_one hdl, hd]
  · rw [next_depth, next_maxDepth, satAdd_one hdl]
    split <;> (try split) <;> (try split) <;> omega

theorem depthInv_run {e e' : Enf} {i : Nat} {evs : List Raw} (hlim : e.lim.maxDepth < USIZE_MAX) (hI : DepthInv e)
    (h : runFrom e i evs = .ok e') : DepthInv e' := by
  induction evs generalizing e i with
  | nil => simp only [runFrom] at h; injection h with h; subst h; exact hI
  | cons x xs ih =>
    simp only [runFrom] at h
    cases h1 : e.observe x with
    | error b => rw [h1] at h; cases h
    | ok e1 =>
      rw [h1] at h
      have hl : e1.lim = e.lim := by obtain ⟨rfl, -⟩ := observe_ok h1; simp
      exact ih (by rw [hl]; exact hlim) (depthInv_step hlim hI h1) h

theorem unbalanced_wfAll_false' {e : Enf} {i j : Nat} {evs : List Raw} (hlim : e.lim.maxDepth < USIZE_MAX)
    (hI : DepthInv e) (h : runFrom e i evs = .error (j, .unbalanced)) :
    wfAll e.perDocument e.containers evs = false := by
  obtain ⟨pre, ev, post, rfl, -, hok, herr⟩ := runFrom_err h
  have hb := observe_err herr
  simp only [BreachSpec] at hb
  have hdl := (depthInv_run hlim hI hok).2.1
  have hwf : wf (cstepAll e.perDocument e.containers pre) ev = false := by
    rw [← nextAll_containers]
    rcases hb.2 with h0 | h0
    · rw [h0] at hdl
      have : (nextAll e pre).containers = [] := List.eq_nil_of_length_eq_zero hdl.symm
      rw [this]; exact wf_nil_of_isEnd hb.1
    · exact h0
  rw [wfAll_append]; simp only [wfAll, hwf, Bool.false_and, Bool.and_false]

end SaphyrVerif.Lemmas.C07
