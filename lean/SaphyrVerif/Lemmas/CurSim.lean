import SaphyrVerif.Lemmas.Cursor
import SaphyrVerif.Model.Entry
/-!
Cursor simulation, part 1: what it means for a cursor (live pump or recorded buffer) to *serve* a list of
events, the simulation relation `Sim` between two cursors serving the same events, its primitive lemmas
(`peek` / `next` agree and lead to related cursors), and the comparison of results modulo locations
(`RV`, `sameVal`, the erasure of the `ref` fields of the map-access state).

`Cur.refLoc` and `Cur.lastLoc` are deliberately NOT part of the relation: a live pump reports the alias
site while it replays a recorded buffer, a plain replay cursor reports the event's own location, and a
live pump moves `last_location` already on `peek`.  Both flow only into error payloads and into the `ref`
field of `PendingEntry` / `pendingValue` (which again only flows into error payloads).
-/
namespace SaphyrVerif.Lemmas.CurSim
open SaphyrVerif SaphyrVerif.Pump SaphyrVerif.De

/-! ### serving a list of events -/

/-- `Inv` is closed under the two cursor operations and describes them: `peek` returns the head of the
remaining events without consuming it, `next` returns it and continues with the tail; on the empty list
both report end of input.  Neither ever fails, and `finish()` (the budget finalisation of the live cursor)
has nothing to report in any state reached. -/
def ServesInv (Inv : Cur → List Ev → Prop) : Prop :=
  ∀ d l, Inv d l → Entry.finishCur d = none ∧
    (∃ d1, d.peek = .ok l.head? d1 ∧ Inv d1 l) ∧ (∃ d2, d.next = .ok l.head? d2 ∧ Inv d2 l.tail)

/-- the cursor delivers, without error, exactly the events `es` (through any interleaving of `peek` and
`next`) and then end of input, for ever -/
def Serves (c : Cur) (es : List Ev) : Prop := ∃ Inv, ServesInv Inv ∧ Inv c es

theorem Serves.peek {c : Cur} {es : List Ev} (h : Serves c es) :
    ∃ d, c.peek = .ok es.head? d ∧ Serves d es := by
  obtain ⟨Inv, hI, hc⟩ := h
  obtain ⟨-, ⟨d, h1, h2⟩, -⟩ := hI c es hc
  exact ⟨d, h1, Inv, hI, h2⟩

theorem Serves.next {c : Cur} {es : List Ev} (h : Serves c es) :
    ∃ d, c.next = .ok es.head? d ∧ Serves d es.tail := by
  obtain ⟨Inv, hI, hc⟩ := h
  obtain ⟨-, -, ⟨d, h1, h2⟩⟩ := hI c es hc
  exact ⟨d, h1, Inv, hI, h2⟩

/-- `finish()` has nothing to report -/
theorem Serves.finish {c : Cur} {es : List Ev} (h : Serves c es) : Entry.finishCur c = none := by
  obtain ⟨Inv, hI, hc⟩ := h
  exact (hI c es hc).1

/-- a replay cursor serves the rest of its buffer, whatever its reference location is -/
theorem serves_replay (buf : List Ev) (idx : Nat) (ref : Option Loc) :
    Serves (.replay buf idx ref) (buf.drop idx) := by
  refine ⟨fun d l => ∃ i, d = .replay buf i ref ∧ l = buf.drop i, ?_, idx, rfl, rfl⟩
  rintro d l ⟨i, rfl, rfl⟩
  have hh : (buf.drop i).head? = buf[i]? := by
    rw [List.head?_drop]
  refine ⟨rfl, ?_, ?_⟩
  · exact ⟨_, by rw [hh]; rfl, i, rfl, rfl⟩
  · simp only [Cur.next, hh]
    cases hg : buf[i]? with
    | none =>
      refine ⟨_, rfl, i, rfl, ?_⟩
      have hle : buf.length ≤ i := by simpa using hg
      simp [List.drop_eq_nil_of_le hle]
    | some e =>
      refine ⟨_, rfl, i + 1, rfl, ?_⟩
      simp [List.tail_drop]

/-- what is served is determined by the cursor -/
theorem Serves.unique {c : Cur} {es es' : List Ev} (h : Serves c es) (h' : Serves c es') : es = es' := by
  induction es generalizing c es' with
  | nil =>
    cases es' with
    | nil => rfl
    | cons e' t' =>
      obtain ⟨d, h1, -⟩ := h.next
      obtain ⟨d', h1', -⟩ := h'.next
      rw [h1] at h1'
      simp at h1'
  | cons e t ih =>
    cases es' with
    | nil =>
      obtain ⟨d, h1, -⟩ := h.next
      obtain ⟨d', h1', -⟩ := h'.next
      rw [h1] at h1'
      simp at h1'
    | cons e' t' =>
      obtain ⟨d, h1, h2⟩ := h.next
      obtain ⟨d', h1', h2'⟩ := h'.next
      rw [h1] at h1'
      simp only [List.head?_cons, R.ok.injEq, Option.some.injEq] at h1'
      obtain ⟨rfl, rfl⟩ := h1'
      have := ih h2 h2'
      simp only [List.tail_cons] at this
      rw [this]

/-! ### the simulation -/

/-- the two cursors serve the same events.  Instances: a live pump cursor and the replay cursor over the
events it delivers (`Lemmas/CurSimPump.lean`); two replay cursors over the same buffer at the same index
with different reference locations (`Sim.replay`). -/
def Sim (c c' : Cur) : Prop := ∃ es, Serves c es ∧ Serves c' es

theorem Sim.replay (buf : List Ev) (idx : Nat) (ref ref' : Option Loc) :
    Sim (.replay buf idx ref) (.replay buf idx ref') :=
  ⟨_, serves_replay buf idx ref, serves_replay buf idx ref'⟩

theorem Sim.of_serves {c : Cur} {buf : List Ev} {idx : Nat} (h : Serves c (buf.drop idx)) (ref : Option Loc) :
    Sim c (.replay buf idx ref) := ⟨_, h, serves_replay buf idx ref⟩

theorem Sim.refl_replay (buf : List Ev) (idx : Nat) (ref : Option Loc) :
    Sim (.replay buf idx ref) (.replay buf idx ref) := Sim.replay buf idx ref ref

theorem Sim.symm {c c' : Cur} (h : Sim c c') : Sim c' c := by
  obtain ⟨es, h1, h2⟩ := h
  exact ⟨es, h2, h1⟩

theorem Sim.trans {a b c : Cur} (h1 : Sim a b) (h2 : Sim b c) : Sim a c := by
  obtain ⟨es, ha, hb⟩ := h1
  obtain ⟨es', hb', hc⟩ := h2
  cases hb.unique hb'
  exact ⟨es, ha, hc⟩

theorem Sim.finish_left {c c' : Cur} (h : Sim c c') : Entry.finishCur c = none := by
  obtain ⟨es, h1, -⟩ := h
  exact h1.finish

theorem Sim.finish_right {c c' : Cur} (h : Sim c c') : Entry.finishCur c' = none := by
  obtain ⟨es, -, h2⟩ := h
  exact h2.finish

/-- (primitive) `peek` succeeds on both sides with the same answer and leads to related cursors -/
theorem Sim.peek {c c' : Cur} (h : Sim c c') :
    ∃ o d d', c.peek = .ok o d ∧ c'.peek = .ok o d' ∧ Sim d d' := by
  obtain ⟨es, h1, h2⟩ := h
  obtain ⟨d, e1, s1⟩ := h1.peek
  obtain ⟨d', e2, s2⟩ := h2.peek
  exact ⟨_, d, d', e1, e2, es, s1, s2⟩

/-- (primitive) `next` succeeds on both sides with the same answer and leads to related cursors -/
theorem Sim.next {c c' : Cur} (h : Sim c c') :
    ∃ o d d', c.next = .ok o d ∧ c'.next = .ok o d' ∧ Sim d d' := by
  obtain ⟨es, h1, h2⟩ := h
  obtain ⟨d, e1, s1⟩ := h1.next
  obtain ⟨d', e2, s2⟩ := h2.next
  exact ⟨_, d, d', e1, e2, _, s1, s2⟩

/-- `peek` then `next` deliver the same event (both sides) -/
theorem Serves.peek_next {c : Cur} {es : List Ev} (h : Serves c es) :
    ∃ d d2, c.peek = .ok es.head? d ∧ d.next = .ok es.head? d2 ∧ Serves d2 es.tail := by
  obtain ⟨d, h1, h2⟩ := h.peek
  obtain ⟨d2, h3, h4⟩ := h2.next
  exact ⟨d, d2, h1, h3, h4⟩

/-! ### results modulo locations -/

/-- two results agree modulo locations: both succeed with `rel`-related values and `Sim`-related
cursors, or both fail (the errors may differ in their location payload, and — because
`attach_alias_locations_if_missing` turns an error into an `AliasError` depending on the reference
location — even in their kind) -/
inductive RV {α β : Type} (rel : α → β → Prop) : R α → R β → Prop
  | ok {a : α} {b : β} {c c' : Cur} : rel a b → Sim c c' → RV rel (.ok a c) (.ok b c')
  | err {e e' : DErr} {c c' : Cur} : RV rel (.err e c) (.err e' c')

/-- both succeed with the same value (and related cursors), or both fail -/
abbrev sameVal {α : Type} (x y : R α) : Prop := RV Eq x y

/-- the same for `Except`-valued helpers -/
inductive EV {α β : Type} (rel : α → β → Prop) : Except DErr α → Except DErr β → Prop
  | ok {a : α} {b : β} : rel a b → EV rel (.ok a) (.ok b)
  | err {e e' : DErr} : EV rel (.error e) (.error e')

theorem RV.fwd_ok {α β : Type} {rel : α → β → Prop} {x : R α} {x' : R β} {a : α} {c : Cur}
    (heq : x = .ok a c) (h : RV rel x x') : ∃ a' c', x' = .ok a' c' ∧ rel a a' ∧ Sim c c' := by
  cases h with
  | ok hr hs => cases heq; exact ⟨_, _, rfl, hr, hs⟩
  | err => cases heq

theorem RV.fwd_err {α β : Type} {rel : α → β → Prop} {x : R α} {x' : R β} {e : DErr} {c : Cur}
    (heq : x = .err e c) (h : RV rel x x') : ∃ e' c', x' = .err e' c' := by
  cases h with
  | ok hr hs => cases heq
  | err => exact ⟨_, _, rfl⟩

theorem EV.fwd_ok {α β : Type} {rel : α → β → Prop} {x : Except DErr α} {x' : Except DErr β} {a : α}
    (heq : x = .ok a) (h : EV rel x x') : ∃ a', x' = .ok a' ∧ rel a a' := by
  cases h with
  | ok hr => cases heq; exact ⟨_, rfl, hr⟩
  | err => cases heq

theorem EV.fwd_err {α β : Type} {rel : α → β → Prop} {x : Except DErr α} {x' : Except DErr β} {e : DErr}
    (heq : x = .error e) (h : EV rel x x') : ∃ e', x' = .error e' := by
  cases h with
  | ok hr => cases heq
  | err => exact ⟨_, rfl⟩

theorem EV.both_ok {α β : Type} {rel : α → β → Prop} {x : Except DErr α} {x' : Except DErr β} {a : α} {a' : β}
    (h : EV rel x x') (h1 : x = .ok a) (h2 : x' = .ok a') : rel a a' := by
  cases h with
  | ok hr => cases h1; cases h2; exact hr
  | err => cases h1

theorem EV.not_ok_err {α β : Type} {rel : α → β → Prop} {x : Except DErr α} {x' : Except DErr β} {a : α} {e : DErr}
    (h : EV rel x x') (h1 : x = .ok a) (h2 : x' = .error e) : False := by
  cases h with
  | ok hr => cases h2
  | err => cases h1

theorem EV.not_err_ok {α β : Type} {rel : α → β → Prop} {x : Except DErr α} {x' : Except DErr β} {a' : β} {e : DErr}
    (h : EV rel x x') (h1 : x = .error e) (h2 : x' = .ok a') : False := by
  cases h with
  | ok hr => cases h1
  | err => cases h2

/-- outcome-kind preservation: related results succeed together -/
theorem RV.isOk_iff {α β : Type} {rel : α → β → Prop} {x : R α} {x' : R β} (h : RV rel x x') :
    (∃ a c, x = .ok a c) ↔ (∃ b c', x' = .ok b c') := by
  cases h with
  | ok hr hs => exact ⟨fun _ => ⟨_, _, rfl⟩, fun _ => ⟨_, _, rfl⟩⟩
  | err => exact ⟨fun h => (by obtain ⟨_, _, h⟩ := h; cases h), fun h => (by obtain ⟨_, _, h⟩ := h; cases h)⟩

/-- a successful left run determines the right value -/
theorem sameVal.ok_iff {α : Type} {x y : R α} (h : sameVal x y) (v : α) :
    (∃ c, x = .ok v c) ↔ (∃ c', y = .ok v c') := by
  cases h with
  | ok hr hs =>
    cases hr
    exact ⟨fun h => (by obtain ⟨_, h⟩ := h; cases h; exact ⟨_, rfl⟩),
      fun h => (by obtain ⟨_, h⟩ := h; cases h; exact ⟨_, rfl⟩)⟩
  | err => exact ⟨fun h => (by obtain ⟨_, h⟩ := h; cases h), fun h => (by obtain ⟨_, h⟩ := h; cases h)⟩

/-! ### erasure of the reference locations of the map access -/

/-- a pending entry without its reference location (fingerprints, recorded events and start locations of
key and value are kept: `KeyNode`s are EQUAL on both sides, because `capture` takes the location from the
event itself) -/
def kv (e : PendingEntry) : KeyNode × KeyNode := (e.key, e.value)

/-- lists of pending entries equal up to `ref` -/
def PL (a b : List PendingEntry) : Prop := a.map kv = b.map kv
/-- merge batches equal up to `ref` -/
def PLL (a b : List (List PendingEntry)) : Prop := a.map (·.map kv) = b.map (·.map kv)

/-- the map-access state without reference locations -/
structure MAe where
  haveKey : Bool
  seen : List FP
  pending : List (KeyNode × KeyNode)
  mergeStack : List (List (KeyNode × KeyNode))
  flushingMerges : Bool
  pendingValue : Option (List Ev)

def er (m : MA) : MAe :=
  ⟨m.haveKey, m.seen, m.pending.map kv, m.mergeStack.map (·.map kv), m.flushingMerges, m.pendingValue.map (·.1)⟩

/-- map-access states equal up to reference locations -/
def MRel (m m' : MA) : Prop := er m = er m'

theorem PL.refl (a : List PendingEntry) : PL a a := rfl
theorem PLL.refl (a : List (List PendingEntry)) : PLL a a := rfl
theorem MRel.refl (m : MA) : MRel m m := rfl

theorem PL.nil_left {b : List PendingEntry} (h : PL [] b) : b = [] := by
  cases b with
  | nil => rfl
  | cons _ _ => simp [PL] at h

theorem PL.cons_left {e : PendingEntry} {a b : List PendingEntry} (h : PL (e :: a) b) :
    ∃ r' b', b = ⟨e.key, e.value, r'⟩ :: b' ∧ PL a b' := by
  cases b with
  | nil => simp [PL] at h
  | cons e' b' =>
    simp only [PL, List.map_cons, List.cons.injEq, kv, Prod.mk.injEq] at h
    obtain ⟨⟨h1, h2⟩, h3⟩ := h
    obtain ⟨k', v', r'⟩ := e'
    simp only at h1 h2
    subst h1 h2
    exact ⟨r', b', rfl, h3⟩

theorem PL.isEmpty {a b : List PendingEntry} (h : PL a b) : a.isEmpty = b.isEmpty := by
  cases a with
  | nil => rw [h.nil_left]
  | cons e a =>
    obtain ⟨r', b', rfl, -⟩ := h.cons_left
    rfl

theorem PL.append {a b a' b' : List PendingEntry} (h1 : PL a a') (h2 : PL b b') : PL (a ++ b) (a' ++ b') := by
  simp only [PL, List.map_append] at *
  rw [h1, h2]

theorem PL.cons {a a' : List PendingEntry} (k v : KeyNode) (r r' : Loc) (h : PL a a') :
    PL (⟨k, v, r⟩ :: a) (⟨k, v, r'⟩ :: a') := by
  simp only [PL, List.map_cons, kv] at *
  rw [h]

theorem PLL.nil_left {b : List (List PendingEntry)} (h : PLL [] b) : b = [] := by
  cases b with
  | nil => rfl
  | cons _ _ => simp [PLL] at h

theorem PLL.cons_left {x : List PendingEntry} {a b : List (List PendingEntry)} (h : PLL (x :: a) b) :
    ∃ x' b', b = x' :: b' ∧ PL x x' ∧ PLL a b' := by
  cases b with
  | nil => simp [PLL] at h
  | cons x' b' =>
    simp only [PLL, List.map_cons, List.cons.injEq] at h
    exact ⟨x', b', rfl, h.1, h.2⟩

theorem PLL.cons {x x' : List PendingEntry} {a a' : List (List PendingEntry)} (h1 : PL x x') (h2 : PLL a a') :
    PLL (x :: a) (x' :: a') := by
  simp only [PLL, PL, List.map_cons] at *
  rw [h1, h2]

theorem PLL.append {a b a' b' : List (List PendingEntry)} (h1 : PLL a a') (h2 : PLL b b') :
    PLL (a ++ b) (a' ++ b') := by
  simp only [PLL, List.map_append] at *
  rw [h1, h2]

theorem PLL.isEmpty {a b : List (List PendingEntry)} (h : PLL a b) : a.isEmpty = b.isEmpty := by
  cases a with
  | nil => rw [h.nil_left]
  | cons e a =>
    obtain ⟨x', b', rfl, -⟩ := h.cons_left
    rfl

/-- `batches.foldl (fun acc b => b ++ acc)` (merge-sequence batches, popped last to first) -/
theorem PLL.foldl_pre {a a' : List (List PendingEntry)} (h : PLL a a') {i i' : List PendingEntry} (hi : PL i i') :
    PL (a.foldl (fun acc b => b ++ acc) i) (a'.foldl (fun acc b => b ++ acc) i') := by
  induction a generalizing a' i i' with
  | nil => rw [h.nil_left]; exact hi
  | cons x a ih =>
    obtain ⟨x', b', rfl, hx, hb⟩ := h.cons_left
    exact ih hb (hx.append hi)

/-- `merges.foldl (fun acc b => acc ++ b)` (nested merges of a merge source) -/
theorem PLL.foldl_post {a a' : List (List PendingEntry)} (h : PLL a a') {i i' : List PendingEntry} (hi : PL i i') :
    PL (a.foldl (fun acc b => acc ++ b) i) (a'.foldl (fun acc b => acc ++ b) i') := by
  induction a generalizing a' i i' with
  | nil => rw [h.nil_left]; exact hi
  | cons x a ih =>
    obtain ⟨x', b', rfl, hx, hb⟩ := h.cons_left
    exact ih hb (hi.append hx)

end SaphyrVerif.Lemmas.CurSim
