import SaphyrVerif.Lemmas.CurSim
import Lean.Elab.Tactic
/-!
Cursor simulation: proof automation — step both cursors of the most recent `Sim` hypothesis, and transport
the outcome of a call from the left side (an equation produced by `split`) to the right side.
-/
namespace SaphyrVerif.Lemmas.CurSim
open SaphyrVerif SaphyrVerif.Scalars SaphyrVerif.Pump SaphyrVerif.De

open Lean Elab Tactic Meta in
/-- advance a cursor on both sides: for a hypothesis `Sim c c'` such that `c.next` (or `c.peek`) occurs in
the goal, rewrite both calls by the primitive lemma; then, if some `match` on the call distinguishes the
delivered event (anything but the two alternatives `.err e c` / `.ok a c`), distinguish the event kinds so that both
sides take the same branch -/
elab "sim_step" : tactic => withMainContext do
  let tgt ← instantiateMVars (← getMainTarget)
  let env ← getEnv
  for ldecl in (← getLCtx) do
    if ldecl.isImplementationDetail then continue
    let ty ← instantiateMVars ldecl.type
    if ty.isAppOfArity ``Sim 2 then
      let c := ty.getArg! 0
      for (op, lem) in [(``SaphyrVerif.De.Cur.next, ``Sim.next), (``SaphyrVerif.De.Cur.peek, ``Sim.peek)] do
        let t := mkApp (mkConst op) c
        if (tgt.find? (· == t)).isSome then
          -- is the event inspected?
          let inspected := (tgt.find? fun e =>
            match e.getAppFn with
            | .const n _ =>
              match Lean.Meta.getMatcherInfoCore? env n with
              | some info =>
                let args := e.getAppArgs
                let pos := info.getFirstDiscrPos
                pos < args.size && args[pos]! == t && info.altNumParams != #[2, 2]
              | none => false
            | _ => false).isSome
          -- … or used outside a `match` (be careful: distinguish)
          let direct := (tgt.find? fun e =>
            match e.getAppFn with
            | .const n _ =>
              match Lean.Meta.getMatcherInfoCore? env n with
              | some info =>
                let args := e.getAppArgs
                let pos := info.getFirstDiscrPos
                pos < args.size && args[pos]! == t
              | none => false
            | _ => false).isSome
          let hstx ← Term.exprToSyntax ldecl.toExpr
          if inspected || !direct then
            evalTactic (← `(tactic| (
              have hx := $(mkIdent lem) $hstx
              obtain ⟨o, _, _, h1, h2, _⟩ := hx
              rw [h1, h2]
              clear h1 h2
              rcases o with _ | (_ | _ | _ | _ | _))))
          else
            evalTactic (← `(tactic| (
              have hx := $(mkIdent lem) $hstx
              obtain ⟨_, _, _, h1, h2, _⟩ := hx
              rw [h1, h2]
              clear h1 h2)))
          return
  throwError "sim_step: no cursor operation to advance"

/-- relations between lists of pending entries (side goals) -/
syntax "pl_tac" : tactic
/-- extension point: a relation obtained from the induction hypothesis -/
syntax "pl_leaf" : tactic
macro_rules
  | `(tactic| pl_leaf) => `(tactic| fail "pl_leaf")
macro_rules
  | `(tactic| pl_tac) => `(tactic| with_reducible first
    | assumption
    | (apply PL.append <;> pl_tac)
    | (apply PL.cons; pl_tac)
    | (apply PLL.cons <;> pl_tac)
    | (apply PLL.append <;> pl_tac)
    | (apply PLL.foldl_pre <;> pl_tac)
    | (apply PLL.foldl_post <;> pl_tac)
    | exact PL.refl _
    | exact PLL.refl _
    | pl_leaf)

/-- transport a successful call on the left (`h : f … c = .ok a d`, produced by `split`) to the right;
`prf` is the simulation fact for that call -/
macro "fwdk_eq " h:term ", " prf:term : tactic =>
  `(tactic| (
    have hx := RV.fwd_ok $h $prf
    obtain ⟨_, _, h2, hr, _⟩ := hx
    subst hr
    rw [h2]
    clear h2))

/-- the same for results compared by a relation that is kept as a hypothesis -/
macro "fwdk_rel " h:term ", " prf:term : tactic =>
  `(tactic| (
    have hx := RV.fwd_ok $h $prf
    obtain ⟨_, _, h2, _, _⟩ := hx
    rw [h2]
    clear h2))

/-- … and for pairs `(value, state)` -/
macro "fwdk_pair " h:term ", " prf:term : tactic =>
  `(tactic| (
    have hx := RV.fwd_ok $h $prf
    obtain ⟨⟨_, _⟩, _, h2, ⟨hr, _⟩, _⟩ := hx
    dsimp only at hr
    subst hr
    rw [h2]
    clear h2))

/-- transport a failed call on the left to the right -/
macro "fwde " h:term ", " prf:term : tactic =>
  `(tactic| (
    have hx := RV.fwd_err $h $prf
    obtain ⟨_, _, h2⟩ := hx
    rw [h2]
    clear h2))

open Lean Elab Tactic Meta in
/-- the newest hypothesis of the form `f … = R.ok …` / `f … = R.err …`: the head symbol of `f …`, whether
it is a success, and the hypothesis as a term -/
def newestCallEq (depth : Nat := 6) : TacticM (Option (Name × Bool × Term)) := withMainContext do
  let decls := (← getLCtx).decls.toList.reverse.filterMap id
  for ldecl in decls.take depth do
    if ldecl.isImplementationDetail then continue
    let ty ← instantiateMVars ldecl.type
    if let some (_, lhs, rhs) := ty.eq? then
      let isOk := rhs.isAppOf ``SaphyrVerif.De.R.ok
      let isErr := rhs.isAppOf ``SaphyrVerif.De.R.err
      if isOk || isErr then
        if let .const n _ := lhs.getAppFn then
          let h ← Term.exprToSyntax ldecl.toExpr
          return some (n, isOk, h)
  return none

end SaphyrVerif.Lemmas.CurSim
