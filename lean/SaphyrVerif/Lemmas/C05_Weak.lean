import SaphyrVerif.Lemmas.C05_Cursor
import SaphyrVerif.Lemmas.C05_Weak4
/-!
Weak cursor invariant of the deserializer model (C05): for arbitrary buffers, fuel and other arguments, a
function called on a replay cursor `.replay buf i ref` that returns `.ok _ c'` leaves a replay cursor on the same
buffer and reference at an index `j ≥ i`, and between `i` and `j` the nesting depth never dropped below
`depthAt buf i - k` (`Stays buf ref i k c'`), where `k = 0` for the functions that consume whole nodes, `k = 1`
for the loop bodies that also consume the closing event of the container opened by their caller, and `k = depth`
for `skipDepth` / `collectTaggedSeq`.

Parts: `C05_Weak1` (cursor steps, `Stays` algebra, scalar-level helpers), `C05_Weak2` (skip / capture / merge readers),
`C05_Weak3` (`bytesLoop`, `nextKey`), `C05_Weak4` (the simultaneous induction `weakAll`).
Already exported by the parts: `deserScalarTyped_weak`, `deserString_weak`, `deserStr_weak`, `deserAnyScalar_weak`,
`takeStringScalar_weak`, `byteSeqVisit_weak`, `structFinish_weak`, `capture_weak`, `skipOneNode_weak`,
`skipDepth_weak`, `collectTaggedSeq_weak`, `mergeSeqBatches_weak`, `pendingFromLive_weak`, `collectLoop_weak`,
`collectEntriesFromMap_weak`, `nextKey_post`.
-/
namespace SaphyrVerif.Lemmas.C05
open SaphyrVerif SaphyrVerif.Scalars SaphyrVerif.Pump SaphyrVerif.De SaphyrVerif.Spec

variable {fuel : Nat} {cfg : Cfg} {buf : List Ev} {i : Nat} {ref : Option Loc} {c' : Cur}

theorem deser_weak {ty : Ty} {ik km : Bool} {v : Val}
    (h : deser fuel cfg ty ik km (.replay buf i ref) = .ok v c') : Stays buf ref i 0 c' :=
  (weakAll buf ref fuel).deser h

theorem seqElems_weak {t : Ty} {acc vs : List Val}
    (h : seqElems fuel cfg t (.replay buf i ref) acc = .ok vs c') : Stays buf ref i 0 c' :=
  (weakAll buf ref fuel).seqElems h

theorem tupleElems_weak {ts : List Ty} {acc vs : List Val}
    (h : tupleElems fuel cfg ts (.replay buf i ref) acc = .ok vs c') : Stays buf ref i 0 c' :=
  (weakAll buf ref fuel).tupleElems h

theorem bytesLoop_weak {acc : List Nat} {v : Val}
    (h : bytesLoop fuel cfg (.replay buf i ref) acc = .ok v c') : Stays buf ref i 1 c' :=
  bytesLoop_weak' fuel h

theorem deserSeqLike_weak {shape : Ty ⊕ List Ty} {v : Val}
    (h : deserSeqLike fuel cfg shape (.replay buf i ref) = .ok v c') : Stays buf ref i 0 c' :=
  (weakAll buf ref fuel).deserSeqLike h

theorem deserMapLike_weak {shape : (Ty × Ty) ⊕ (List (String × Ty) × Bool)} {v : Val}
    (h : deserMapLike fuel cfg shape (.replay buf i ref) = .ok v c') : Stays buf ref i 0 c' :=
  (weakAll buf ref fuel).deserMapLike h

theorem deserEnum_weak {name : String} {variants : List (String × VTy)} {v : Val}
    (h : deserEnum fuel cfg name variants (.replay buf i ref) = .ok v c') : Stays buf ref i 0 c' :=
  (weakAll buf ref fuel).deserEnum h

theorem nextValue_weak {vt : Ty} {m : MA} {r : Val × MA}
    (h : nextValue fuel cfg vt (.replay buf i ref) m = .ok r c') : Stays buf ref i 0 c' := by
  obtain ⟨v, m'⟩ := r
  exact ((weakAll buf ref fuel).nextValue h).1

/-- `nextValue` keeps `flushingMerges`, and does not touch the cursor when a recorded value is pending -/
theorem nextValue_weak' {vt : Ty} {m m' : MA} {v : Val}
    (h : nextValue fuel cfg vt (.replay buf i ref) m = .ok (v, m') c') :
    Stays buf ref i 0 c' ∧ m'.flushingMerges = m.flushingMerges ∧
      (m.pendingValue.isSome = true → c' = .replay buf i ref) :=
  (weakAll buf ref fuel).nextValue h

theorem mapEntries_weak {kt vt : Ty} {m : MA} {acc es : List (Val × Val)}
    (h : mapEntries fuel cfg kt vt (.replay buf i ref) m acc = .ok es c') : Stays buf ref i 1 c' :=
  ((weakAll buf ref fuel).mapEntries h).2

/-- started while the merge stack is being flushed, the entry loop never moves the cursor -/
theorem mapEntries_flushing {kt vt : Ty} {m : MA} {acc es : List (Val × Val)}
    (h : mapEntries fuel cfg kt vt (.replay buf i ref) m acc = .ok es c') (hm : m.flushingMerges = true) :
    c' = .replay buf i ref :=
  ((weakAll buf ref fuel).mapEntries h).1 hm

theorem structEntries_weak {fields : List (String × Ty)} {deny : Bool} {m : MA} {acc got : List (String × Val)}
    (h : structEntries fuel cfg fields deny (.replay buf i ref) m acc = .ok got c') : Stays buf ref i 1 c' :=
  ((weakAll buf ref fuel).structEntries h).2

theorem structEntries_flushing {fields : List (String × Ty)} {deny : Bool} {m : MA} {acc got : List (String × Val)}
    (h : structEntries fuel cfg fields deny (.replay buf i ref) m acc = .ok got c') (hm : m.flushingMerges = true) :
    c' = .replay buf i ref :=
  ((weakAll buf ref fuel).structEntries h).1 hm

theorem variantPayload_weak {variants : List (String × VTy)} {vname : List Char} {vloc : Loc}
    {mapMode tagged : Bool} {v : Val}
    (h : variantPayload fuel cfg variants vname vloc mapMode tagged (.replay buf i ref) = .ok v c') :
    Stays buf ref i (if mapMode then 1 else 0) c' :=
  (weakAll buf ref fuel).variantPayload h

#print axioms deser_weak
#print axioms mapEntries_weak

end SaphyrVerif.Lemmas.C05
