import SaphyrVerif.Lemmas.C05_Spec
/-!
Helper lemmas for C05, part 3: the effective entries of a mapping as a stream — the abstract state of
the map access (`ASt`), its next delivery (`nextStep`) and everything it still delivers (`remaining`);
`remaining` of the initial state is `effEntries`.
-/
namespace SaphyrVerif.Lemmas.C05
open SaphyrVerif SaphyrVerif.Scalars SaphyrVerif.Pump SaphyrVerif.De SaphyrVerif.Spec

/-- abstract state of the map access: reading own entries `rem` with the merged entries collected so far
(`q`, the batch of the latest merge key first), or flushing the merged entries after the end of the mapping -/
inductive ASt where
  | live (rem q : List (ENode × ENode))
  | flush (q : List (ENode × ENode))

/-- outcome of one `next_key` call -/
inductive Step where
  | fail
  | done
  | deliver (k v : ENode) (st : ASt)

def flushStep : List (ENode × ENode) → List FP → Step
  | [], _ => .done
  | (k, v) :: q, seen => if seen.any (· == fpOf k) then flushStep q seen else .deliver k v (.flush q)

def liveStep (dup : DupPolicy) : List (ENode × ENode) → List (ENode × ENode) → List FP → Step
  | [], q, seen => flushStep q seen
  | (k, v) :: rest, q, seen =>
    if isMergeKeyNode k then
      match sourceEntries v with
      | none => .fail
      | some b => liveStep dup rest (b ++ q) seen
    else
      match dup with
      | .error => if seen.any (· == fpOf k) then .fail else .deliver k v (.live rest q)
      | .firstWins => if seen.any (· == fpOf k) then liveStep dup rest q seen else .deliver k v (.live rest q)
      | .lastWins => .deliver k v (.live rest q)

def nextStep (dup : DupPolicy) : ASt → List FP → Step
  | .live rem q, seen => liveStep dup rem q seen
  | .flush q, seen => flushStep q seen

def remLive (dup : DupPolicy) : List (ENode × ENode) → List (ENode × ENode) → List FP → Option (List (ENode × ENode))
  | [], q, seen => some (dropSeen q seen)
  | (k, v) :: rest, q, seen =>
    if isMergeKeyNode k then
      match sourceEntries v with
      | none => none
      | some b => remLive dup rest (b ++ q) seen
    else
      match dup with
      | .error =>
        if seen.any (· == fpOf k) then none else (remLive dup rest q (fpOf k :: seen)).map ((k, v) :: ·)
      | .firstWins =>
        if seen.any (· == fpOf k) then remLive dup rest q seen
        else (remLive dup rest q (fpOf k :: seen)).map ((k, v) :: ·)
      | .lastWins => (remLive dup rest q (fpOf k :: seen)).map ((k, v) :: ·)

/-- everything the access still delivers from a state -/
def remaining (dup : DupPolicy) : ASt → List FP → Option (List (ENode × ENode))
  | .live rem q, seen => remLive dup rem q seen
  | .flush q, seen => some (dropSeen q seen)

/-- the order in which states follow each other -/
def StepLt : ASt → ASt → Prop
  | .flush q', .flush q => q'.length < q.length
  | .flush _, .live _ _ => True
  | .live rem' _, .live rem _ => rem'.length < rem.length
  | .live _ _, .flush _ => False

theorem ASt.wf_induction {P : ASt → Prop} (h : ∀ st, (∀ st', StepLt st' st → P st') → P st) : ∀ st, P st := by
  have hf : ∀ n, ∀ q : List (ENode × ENode), q.length < n → P (.flush q) := by
    intro n
    induction n with
    | zero => intro q hq; omega
    | succ n ih =>
      intro q hq
      apply h
      intro st' hlt
      cases st' with
      | live r q' => exact hlt.elim
      | flush q' => exact ih q' (by simp only [StepLt] at hlt; omega)
  have hl : ∀ n, ∀ rem q : List (ENode × ENode), rem.length < n → P (.live rem q) := by
    intro n
    induction n with
    | zero => intro rem q hq; omega
    | succ n ih =>
      intro rem q hq
      apply h
      intro st' hlt
      cases st' with
      | live r q' => exact ih r q' (by simp only [StepLt] at hlt; omega)
      | flush q' => exact hf _ q' (Nat.lt_succ_self _)
  intro st
  cases st with
  | live rem q => exact hl _ rem q (Nat.lt_succ_self _)
  | flush q => exact hf _ q (Nat.lt_succ_self _)

theorem flushStep_lt {q : List (ENode × ENode)} {seen : List FP} {k v : ENode} {st : ASt}
    (h : flushStep q seen = .deliver k v st) : ∃ q', st = .flush q' ∧ q'.length < q.length := by
  induction q with
  | nil => simp [flushStep] at h
  | cons e q ih =>
    obtain ⟨k', v'⟩ := e
    simp only [flushStep] at h
    split at h
    · obtain ⟨q', h1, h2⟩ := ih h
      exact ⟨q', h1, by simp; omega⟩
    · cases h; exact ⟨q, rfl, by simp⟩

theorem liveStep_lt {dup : DupPolicy} {rem q : List (ENode × ENode)} {seen : List FP} {k v : ENode} {st : ASt}
    (h : liveStep dup rem q seen = .deliver k v st) : StepLt st (.live rem q) := by
  induction rem generalizing q with
  | nil =>
    simp only [liveStep] at h
    obtain ⟨q', h1, -⟩ := flushStep_lt h
    subst h1; trivial
  | cons e rest ih =>
    obtain ⟨k', v'⟩ := e
    have hmono : ∀ q', StepLt st (.live rest q') → StepLt st (.live ((k', v') :: rest) q) := by
      intro q' hh
      cases st with
      | flush _ => trivial
      | live r _ => simp only [StepLt] at hh ⊢; simp; omega
    simp only [liveStep] at h
    split at h
    · split at h
      · cases h
      · exact hmono _ (ih h)
    · split at h
      · split at h
        · cases h
        · cases h; simp [StepLt]
      · split at h
        · exact hmono _ (ih h)
        · cases h; simp [StepLt]
      · cases h; simp [StepLt]

theorem nextStep_lt {dup : DupPolicy} {st : ASt} {seen : List FP} {k v : ENode} {st' : ASt}
    (h : nextStep dup st seen = .deliver k v st') : StepLt st' st := by
  cases st with
  | live rem q => exact liveStep_lt h
  | flush q =>
    obtain ⟨q', h1, h2⟩ := flushStep_lt h
    subst h1; exact h2

/-- candidates of a state are admissible -/
def ASt.OK (d : Nat) : ASt → Prop
  | .live rem q => AllOK d rem ∧ AllOK d q
  | .flush q => AllOK d q

theorem flushStep_ok {d : Nat} {q : List (ENode × ENode)} {seen : List FP} {k v : ENode} {st : ASt}
    (hq : AllOK d q) (h : flushStep q seen = .deliver k v st) : EntOK d (k, v) ∧ st.OK d := by
  induction q with
  | nil => simp [flushStep] at h
  | cons e q ih =>
    obtain ⟨k', v'⟩ := e
    simp only [flushStep] at h
    split at h
    · exact ih hq.tail h
    · cases h; exact ⟨hq.head, hq.tail⟩

theorem liveStep_ok {dup : DupPolicy} {d : Nat} {rem q : List (ENode × ENode)} {seen : List FP} {k v : ENode} {st : ASt}
    (hr : AllOK d rem) (hq : AllOK d q) (h : liveStep dup rem q seen = .deliver k v st) :
    EntOK d (k, v) ∧ st.OK d := by
  induction rem generalizing q with
  | nil =>
    simp only [liveStep] at h
    exact flushStep_ok hq h
  | cons e rest ih =>
    obtain ⟨k', v'⟩ := e
    simp only [liveStep] at h
    split at h
    · split at h
      · cases h
      · rename_i b hb
        exact ih hr.tail (AllOK.append (allOK_source hr.head hb) hq) h
    · split at h
      · split at h
        · cases h
        · cases h; exact ⟨hr.head, hr.tail, hq⟩
      · split at h
        · exact ih hr.tail hq h
        · cases h; exact ⟨hr.head, hr.tail, hq⟩
      · cases h; exact ⟨hr.head, hr.tail, hq⟩

theorem nextStep_ok {dup : DupPolicy} {d : Nat} {st : ASt} {seen : List FP} {k v : ENode} {st' : ASt}
    (hst : st.OK d) (h : nextStep dup st seen = .deliver k v st') : EntOK d (k, v) ∧ st'.OK d := by
  cases st with
  | live rem q => exact liveStep_ok hst.1 hst.2 h
  | flush q => exact flushStep_ok hst h

/-! ### `remaining` unfolds along `nextStep` -/

theorem remaining_flush_step (q : List (ENode × ENode)) (seen : List FP) :
    some (dropSeen q seen) =
      match flushStep q seen with
      | .fail => none
      | .done => some []
      | .deliver k v st => (remaining .error st (fpOf k :: seen)).map ((k, v) :: ·) := by
  induction q with
  | nil => simp [flushStep, dropSeen]
  | cons e q ih =>
    obtain ⟨k, v⟩ := e
    simp only [flushStep, dropSeen]
    split
    · exact ih
    · simp [remaining]

theorem remaining_flush_dup (dup dup' : DupPolicy) (q : List (ENode × ENode)) (seen : List FP) :
    remaining dup (.flush q) seen = remaining dup' (.flush q) seen := rfl

theorem remaining_step (dup : DupPolicy) (st : ASt) (seen : List FP) :
    remaining dup st seen =
      match nextStep dup st seen with
      | .fail => none
      | .done => some []
      | .deliver k v st' => (remaining dup st' (fpOf k :: seen)).map ((k, v) :: ·) := by
  cases st with
  | flush q =>
    simp only [remaining, nextStep]
    have := remaining_flush_step q seen
    rw [this]
    split <;> simp_all
    rename_i k v st' heq
    -- the state delivered by `flushStep` is a flush state
    clear this
    induction q with
    | nil => simp [flushStep] at heq
    | cons e q ih =>
      obtain ⟨k', v'⟩ := e
      simp only [flushStep] at heq
      split at heq
      · exact ih heq
      · cases heq; rfl
  | live rem q =>
    simp only [remaining, nextStep]
    induction rem generalizing q with
    | nil =>
      simp only [remLive, liveStep]
      have := remaining_flush_step q seen
      rw [this]
      split <;> simp_all
      rename_i k v st' heq
      clear this
      induction q with
      | nil => simp [flushStep] at heq
      | cons e q ih =>
        obtain ⟨k', v'⟩ := e
        simp only [flushStep] at heq
        split at heq
        · exact ih heq
        · cases heq; rfl
    | cons e rest ih =>
      obtain ⟨k, v⟩ := e
      simp only [remLive, liveStep]
      split
      · split
        · rfl
        · exact ih _
      · cases dup with
        | error => simp only []; split <;> simp
        | firstWins =>
          simp only []
          split
          · exact ih _
          · simp
        | lastWins => simp

/-! ### the initial state delivers `effEntries` -/

theorem mapM_snoc {α β : Type} (f : α → Option β) (l : List α) (x : α) :
    (l ++ [x]).mapM f = match l.mapM f, f x with
      | some a, some b => some (a ++ [b])
      | _, _ => none := by
  induction l with
  | nil => cases h : f x <;> simp [h]
  | cons y l ih =>
    simp only [List.cons_append, List.mapM_cons, ih]
    cases h1 : f y <;> cases h2 : l.mapM f <;> cases h3 : f x <;> simp

/-- generalisation of `effEntries` to an intermediate state -/
def effGen (dup : DupPolicy) (rem q : List (ENode × ENode)) (seen : List FP) : Option (List (ENode × ENode)) :=
  match applyPolicy dup (splitEntries rem).1 seen with
  | none => none
  | some ownKept =>
    match (splitEntries rem).2.reverse.mapM sourceEntries with
    | none => none
    | some batches =>
      some (ownKept ++ dropSeen (batches.flatten ++ q) ((ownKept.map fun p => fpOf p.1).reverse ++ seen))

theorem splitEntries_cons (k v : ENode) (rest : List (ENode × ENode)) :
    splitEntries ((k, v) :: rest) =
      if isMergeKeyNode k then ((splitEntries rest).1, v :: (splitEntries rest).2)
      else ((k, v) :: (splitEntries rest).1, (splitEntries rest).2) := by
  simp only [splitEntries]

theorem remLive_eq_effGen (dup : DupPolicy) (rem q : List (ENode × ENode)) (seen : List FP) :
    remLive dup rem q seen = effGen dup rem q seen := by
  induction rem generalizing q seen with
  | nil => simp [remLive, effGen, splitEntries, applyPolicy]
  | cons e rest ih =>
    obtain ⟨k, v⟩ := e
    simp only [remLive, effGen, splitEntries_cons]
    by_cases hm : isMergeKeyNode k = true
    · simp only [hm, if_true, List.reverse_cons, mapM_snoc]
      cases hb : sourceEntries v with
      | none =>
        cases applyPolicy dup (splitEntries rest).1 seen <;> simp
      | some b =>
        simp only [ih, effGen]
        cases applyPolicy dup (splitEntries rest).1 seen <;> simp
        cases List.mapM sourceEntries (splitEntries rest).2.reverse <;> simp
    · simp only [hm, if_false, Bool.false_eq_true]
      cases dup with
      | error =>
        simp only [applyPolicy]
        split
        · rfl
        · simp only [ih, effGen]
          cases applyPolicy .error (splitEntries rest).1 (fpOf k :: seen) <;> simp
          cases List.mapM sourceEntries (splitEntries rest).2.reverse <;> simp
      | firstWins =>
        simp only [applyPolicy]
        split
        · simp only [ih, effGen]
        · simp only [ih, effGen]
          cases applyPolicy .firstWins (splitEntries rest).1 (fpOf k :: seen) <;> simp
          cases List.mapM sourceEntries (splitEntries rest).2.reverse <;> simp
      | lastWins =>
        simp only [applyPolicy]
        simp only [ih, effGen]
        cases applyPolicy .lastWins (splitEntries rest).1 (fpOf k :: seen) <;> simp
        cases List.mapM sourceEntries (splitEntries rest).2.reverse <;> simp

theorem remaining_init (dup : DupPolicy) (entries : List (ENode × ENode)) :
    remaining dup (.live entries []) [] = effEntries dup entries := by
  simp only [remaining, remLive_eq_effGen, effGen, effEntries]
  cases h : splitEntries entries with
  | mk own merges =>
    simp only []
    cases applyPolicy dup own [] <;> simp
    cases List.mapM sourceEntries merges.reverse <;> simp


end SaphyrVerif.Lemmas.C05
