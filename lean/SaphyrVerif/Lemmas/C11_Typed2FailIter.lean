import SaphyrVerif.Lemmas.C11_Typed2Fail
import SaphyrVerif.Lemmas.C11_Typed2Stream
/-!
Typed multi-document theorems (C11), continued — part 8: the streaming iterator inside a document in which the
pump fails.  `soloRounds` is the loop of `ReadIter::next` on a LIVE cursor until the iterator leaves the current
document — by an error of its own `peek` (the iterator is finished) or by an error item followed by the recovery —
with its items; it is meant to be evaluated on the document ON ITS OWN (the one-document stream).  `iter_lock`: the
iterator inside the same document in ANY stream makes exactly these rounds and yields exactly these items
(the same values, the same errors), by the lock-step pass `Lemmas.Lock.lA`.
-/
namespace SaphyrVerif.Lemmas.C11B
open SaphyrVerif SaphyrVerif.Scalars SaphyrVerif.Pump SaphyrVerif.De SaphyrVerif.Spec SaphyrVerif.Budget SaphyrVerif.Entry
open SaphyrVerif.Lemmas.C11 (Doc)
open SaphyrVerif.Lemmas.C11T (J skipNeutral Item evIsNull)
open SaphyrVerif.Lemmas.Lock (LP LR Closed)

/-- one round of the iterator after its `peek` has seen the event `ev` and left the cursor `c` (`rec` = the
following rounds); the flag of the result: `true` = the document is left through the recovery after an error
item, `false` = the iterator is finished -/
def roundTail (cfg : Cfg) (ty : Ty) (rec : Pump → List RawItem → Option Rounds) (ev : Ev) (c : Cur) : Option Rounds :=
  match ev, c with
  | .seqEnd l, .live _ _ => some ([.error ⟨"UnexpectedSequenceEnd", l, 0⟩], true, 1)
  | .mapEnd l, .live _ _ => some ([.error ⟨"UnexpectedMappingEnd", l, 0⟩], true, 1)
  | .seqEnd _, _ => none
  | .mapEnd _, _ => none
  | ev, c =>
    if evIsNull ev then
      match c.next with
      | .ok _ (.live p inp) => (rec p inp).map (Rounds.push [])
      | .err e _ => some ([.error e], false, 1)
      | _ => none
    else
      match deser (fuelFor 100000) cfg ty false false c with
      | .ok v (.live p inp) => (rec p inp).map (Rounds.push [.ok v])
      | .err e (.live _ _) => some ([.error e], true, 1)
      | _ => none

/-- the rounds of the iterator from the live cursor `.live p inp` until it leaves the current document -/
def soloRounds (cfg : Cfg) (ty : Ty) : Nat → Pump → List RawItem → Option Rounds
  | 0, _, _ => none
  | n + 1, p, inp =>
    match Cur.peek (.live p inp) with
    | .err e _ => some ([.error e], false, 1)
    | .ok none _ => none
    | .ok (some ev) c => roundTail cfg ty (soloRounds cfg ty n) ev c

/-- what the iterator does from a cursor inside the document, in terms of the rounds `r`: `F m acc` is
`iterLoop (m + r.2.2) p inp acc` -/
def FailDesc (L : AliasLimits) (ob : Option Limits) (X : List RawItem) (cfg : Cfg) (ty : Ty)
    (F : Nat → List Item → List Item) (r : Rounds) : Prop :=
  (r.2.1 = false → ∀ m acc, F m acc = acc ++ r.1) ∧
  (r.2.1 = true → ∃ q3 inq3, StatB L ob q3 ∧ J X inq3 ∧ ∀ m acc, F m acc =
      (let (found, p4, inp4) := Pump.skipToNextDocument q3 inq3
       if found then iterLoop cfg ty m p4 inp4 (acc ++ r.1) else acc ++ r.1))

theorem failDesc_push {L : AliasLimits} {ob : Option Limits} {X : List RawItem} {cfg : Cfg} {ty : Ty}
    {F F2 : Nat → List Item → List Item} {r2 : Rounds} (x : List Item) (h : FailDesc L ob X cfg ty F2 r2)
    (hF : ∀ m acc, F m acc = F2 m (acc ++ x)) : FailDesc L ob X cfg ty F (Rounds.push x r2) := by
  obtain ⟨h1, h2⟩ := h
  constructor
  · intro hf m acc
    rw [hF, h1 hf]
    simp [Rounds.push]
  · intro ht
    obtain ⟨q3, inq3, hst, hJ, heq⟩ := h2 ht
    refine ⟨q3, inq3, hst, hJ, fun m acc => ?_⟩
    rw [hF, heq]
    simp [Rounds.push]

/-- the round with the error item `e` and the recovery from the cursor `.live q3 inq3` -/
theorem failDesc_skip {L : AliasLimits} {ob : Option Limits} {X : List RawItem} {cfg : Cfg} {ty : Ty}
    {F : Nat → List Item → List Item} {e : DErr} {q3 : Pump} {inq3 : List RawItem} (hst : StatB L ob q3)
    (hJ : J X inq3)
    (hF : ∀ m acc, F m acc = (let (found, p4, inp4) := Pump.skipToNextDocument q3 inq3
       if found then iterLoop cfg ty m p4 inp4 (acc ++ [.error e]) else acc ++ [.error e])) :
    FailDesc L ob X cfg ty F ([.error e], true, 1) :=
  ⟨(fun h => by cases h), fun _ => ⟨q3, inq3, hst, hJ, hF⟩⟩

theorem failDesc_fin {L : AliasLimits} {ob : Option Limits} {X : List RawItem} {cfg : Cfg} {ty : Ty}
    {F : Nat → List Item → List Item} {e : DErr} (hF : ∀ m acc, F m acc = acc ++ [.error e]) :
    FailDesc L ob X cfg ty F ([.error e], false, 1) :=
  ⟨fun _ => hF, fun h => by cases h⟩

/-- the rounds inside a document in which the iterator does not reach the end of the document always end with an
error item -/
theorem soloRounds_last (cfg : Cfg) (ty : Ty) : ∀ (N : Nat) (p : Pump) (inp : List RawItem) (r : Rounds),
    soloRounds cfg ty N p inp = some r → ∃ init e, r.1 = init ++ [.error e] := by
  intro N
  induction N with
  | zero => intro p inp r h; simp [soloRounds] at h
  | succ n ih =>
    intro p inp r h
    have hpush : ∀ (x : List Item) (p2 : Pump) (i2 : List RawItem),
        (soloRounds cfg ty n p2 i2).map (Rounds.push x) = some r → ∃ init e, r.1 = init ++ [.error e] := by
      intro x p2 i2 hx
      cases hr2 : soloRounds cfg ty n p2 i2 with
      | none => rw [hr2] at hx; cases hx
      | some r2 =>
        rw [hr2] at hx
        simp only [Option.map_some, Option.some.injEq] at hx
        subst hx
        obtain ⟨init, e, he⟩ := ih p2 i2 r2 hr2
        exact ⟨x ++ init, e, by simp [Rounds.push, he]⟩
    simp only [soloRounds] at h
    split at h
    · cases h; exact ⟨[], _, rfl⟩
    · cases h
    · rename_i ev c hpk
      unfold roundTail at h
      split at h
      · cases h; exact ⟨[], _, rfl⟩
      · cases h; exact ⟨[], _, rfl⟩
      · cases h
      · cases h
      · split at h
        · split at h
          · exact hpush _ _ _ h
          · cases h; exact ⟨[], _, rfl⟩
          · cases h
        · split at h
          · exact hpush _ _ _ h
          · cases h; exact ⟨[], _, rfl⟩
          · cases h

theorem roundTail_open (cfg : Cfg) (ty : Ty) (rec : Pump → List RawItem → Option Rounds) {ev : Ev}
    (hopen : Lemmas.C05.Ev.isOpen ev = true) (c : Cur) :
    roundTail cfg ty rec ev c =
      (if evIsNull ev then
        match c.next with
        | .ok _ (.live p inp) => (rec p inp).map (Rounds.push [])
        | .err e _ => some ([.error e], false, 1)
        | _ => none
      else
        match deser (fuelFor 100000) cfg ty false false c with
        | .ok v (.live p inp) => (rec p inp).map (Rounds.push [.ok v])
        | .err e (.live _ _) => some ([.error e], true, 1)
        | _ => none) := by
  cases ev <;> first | rfl | simp [Lemmas.C05.Ev.isOpen] at hopen

theorem live_of_failInv {L : AliasLimits} {ob : Option Limits} {X : List RawItem} {c : Cur} (h : FailInv L ob X c) :
    ∃ q inq, c = .live q inq ∧ StatB L ob q ∧ J X inq := by
  obtain ⟨q, inq, l, rfl, hst, hJ, -, -⟩ := h
  exact ⟨q, inq, rfl, hst, hJ⟩

section
variable {L : AliasLimits} {ob : Option Limits} {X : List RawItem} (Y : List RawItem) (b' : Bool) (hX : X ≠ [])
  (cfg : Cfg) (ty : Ty)
include hX

/-- the statement of `iter_lock` for the fuel `n` -/
def LockAt (L : AliasLimits) (ob : Option Limits) (X Y : List RawItem) (b' : Bool) (cfg : Cfg) (ty : Ty) (n : Nat) : Prop :=
  ∀ (p : Pump) (inp : List RawItem) (r : Rounds), FailInv L ob X (.live p inp) →
    soloRounds cfg ty n (withFlags p true b') (swapSuf X Y inp) = some r →
    FailDesc L ob X cfg ty (fun m acc => iterLoop cfg ty (m + r.2.2) p inp acc) r

/-- the round after the `peek`, on both cursors -/
theorem tail_lock (n : Nat) (ih : LockAt L ob X Y b' cfg ty n) {ev : Ev} {dL : Cur} (hI : FailInv L ob X dL)
    (r : Rounds) (hr : roundTail cfg ty (soloRounds cfg ty n) ev (swapCur X Y b' dL) = some r)
    {p : Pump} {inp : List RawItem} (hpk : Cur.peek (.live p inp) = .ok (some ev) dL) :
    FailDesc L ob X cfg ty (fun m acc => iterLoop cfg ty (m + r.2.2) p inp acc) r := by
  have hcl := closed_failP L ob X Y b' hX
  obtain ⟨pL, iL, rfl, hstL, hJL⟩ := live_of_failInv hI
  have hopenCase : Lemmas.C05.Ev.isOpen ev = true →
      FailDesc L ob X cfg ty (fun m acc => iterLoop cfg ty (m + r.2.2) p inp acc) r := by
    intro hopen
    rw [roundTail_open cfg ty _ hopen] at hr
    have hloop := iterLoop_open cfg ty hpk hopen
    by_cases hnull : evIsNull ev = true
    · simp only [hnull, if_true] at hr hloop
      rcases hcl.next_cases (P := failP L ob X Y b') hI with ⟨o, d', hn, hn', hI'⟩ | ⟨e, d', hn, hn', hE'⟩
      · obtain ⟨p2, i2, rfl, -, -⟩ := live_of_failInv hI'
        have hn'' : (swapCur X Y b' (.live pL iL)).next = .ok o (.live (withFlags p2 true b') (swapSuf X Y i2)) := hn'
        rw [hn''] at hr
        simp only [] at hr
        cases hr2 : soloRounds cfg ty n (withFlags p2 true b') (swapSuf X Y i2) with
        | none => rw [hr2] at hr; cases hr
        | some r2 =>
          rw [hr2] at hr
          simp only [Option.map_some, Option.some.injEq] at hr
          subst hr
          refine failDesc_push [] (ih p2 i2 r2 hI' hr2) (fun m acc => ?_)
          show iterLoop cfg ty (m + (r2.2.2 + 1)) p inp acc = _
          rw [show m + (r2.2.2 + 1) = (m + r2.2.2) + 1 from rfl, hloop, hn]
          simp
      · have hn'' : (swapCur X Y b' (.live pL iL)).next = .err e (swapCur X Y b' d') := hn'
        rw [hn''] at hr
        simp only [Option.some.injEq] at hr
        subst hr
        refine failDesc_fin (fun m acc => ?_)
        show iterLoop cfg ty (m + 1) p inp acc = _
        rw [hloop, hn]
    · have hnull' : evIsNull ev = false := by simpa using hnull
      simp only [hnull', Bool.false_eq_true, if_false] at hr hloop
      have hlr := (Lemmas.Lock.lA hcl (fuelFor 100000)).deser cfg ty false false hI
      cases hL : deser (fuelFor 100000) cfg ty false false (.live pL iL) with
      | ok v d' =>
        obtain ⟨hR, hI'⟩ := hlr.fwd_ok hL
        obtain ⟨p2, i2, rfl, -, -⟩ := live_of_failInv hI'
        have hR' : deser (fuelFor 100000) cfg ty false false (swapCur X Y b' (.live pL iL)) =
            .ok v (.live (withFlags p2 true b') (swapSuf X Y i2)) := hR
        rw [hR'] at hr
        simp only [] at hr
        cases hr2 : soloRounds cfg ty n (withFlags p2 true b') (swapSuf X Y i2) with
        | none => rw [hr2] at hr; cases hr
        | some r2 =>
          rw [hr2] at hr
          simp only [Option.map_some, Option.some.injEq] at hr
          subst hr
          refine failDesc_push [.ok v] (ih p2 i2 r2 hI' hr2) (fun m acc => ?_)
          show iterLoop cfg ty (m + (r2.2.2 + 1)) p inp acc = _
          rw [show m + (r2.2.2 + 1) = (m + r2.2.2) + 1 from rfl, hloop, hL]
      | err e d' =>
        obtain ⟨hR, hE'⟩ := hlr.fwd_err hL
        obtain ⟨q3, inq3, rfl, hst3, hJ3⟩ := hE'
        have hR' : deser (fuelFor 100000) cfg ty false false (swapCur X Y b' (.live pL iL)) =
            .err e (.live (withFlags q3 true b') (swapSuf X Y inq3)) := hR
        rw [hR'] at hr
        simp only [Option.some.injEq] at hr
        subst hr
        refine failDesc_skip hst3 hJ3 (fun m acc => ?_)
        show iterLoop cfg ty (m + 1) p inp acc = _
        rw [hloop, hL]
  cases ev with
  | scalar v tg rt st a l => exact hopenCase rfl
  | seqStart a tg rt l => exact hopenCase rfl
  | mapStart a l => exact hopenCase rfl
  | seqEnd l =>
    simp only [roundTail, swapCur, Option.some.injEq] at hr
    subst hr
    refine failDesc_skip hstL hJL (fun m acc => ?_)
    show iterLoop cfg ty (m + 1) p inp acc = _
    rw [iterLoop_seqEnd cfg ty hpk]
  | mapEnd l =>
    simp only [roundTail, swapCur, Option.some.injEq] at hr
    subst hr
    refine failDesc_skip hstL hJL (fun m acc => ?_)
    show iterLoop cfg ty (m + 1) p inp acc = _
    rw [iterLoop_mapEnd cfg ty hpk]

/-- (lock-step) the iterator inside a failing document of a stream makes the rounds that `soloRounds` computes on
the twin cursor (the same document in front of another rest of the stream) and yields the same items -/
theorem iter_lock : ∀ n, LockAt L ob X Y b' cfg ty n := by
  have hcl := closed_failP L ob X Y b' hX
  intro n
  induction n with
  | zero => intro p inp r _ hr; simp [soloRounds] at hr
  | succ n ih =>
    intro p inp r hI hr
    simp only [soloRounds] at hr
    rcases hcl.peek_cases (P := failP L ob X Y b') hI with ⟨o, d, hp, hp', hI'⟩ | ⟨e, d, hp, hp', hE'⟩
    · have hp'' : Cur.peek (.live (withFlags p true b') (swapSuf X Y inp)) = .ok o (swapCur X Y b' d) := hp'
      rw [hp''] at hr
      cases o with
      | none => cases hr
      | some ev => exact tail_lock Y b' hX cfg ty n ih hI' r hr hp
    · have hp'' : Cur.peek (.live (withFlags p true b') (swapSuf X Y inp)) = .err e (swapCur X Y b' d) := hp'
      rw [hp''] at hr
      simp only [Option.some.injEq] at hr
      subst hr
      refine failDesc_fin (fun m acc => ?_)
      show iterLoop cfg ty (m + 1) p inp acc = _
      simp only [iterLoop, hp]

end

end SaphyrVerif.Lemmas.C11B
