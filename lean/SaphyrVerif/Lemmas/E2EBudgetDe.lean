import SaphyrVerif.Lemmas.E2EBudgetTac
/-!
End-to-end composition with the budget enforcer, part 4: the statement `BA` — every function of the mutual
block of `Model/De.lean` that reads from the cursor maps a budgeted cursor and its stripped twin to results
related by `BR` — and the automation that proves one induction step per function.
(`pendingFromEvents` and `deserKey` read from private replay buffers only: they are literally the same call on
both sides.)
-/
namespace SaphyrVerif.Lemmas.E2EBudget
open SaphyrVerif SaphyrVerif.Scalars SaphyrVerif.Pump SaphyrVerif.Budget SaphyrVerif.De
open SaphyrVerif.Lemmas.CurSim (newestCallEq)

set_option linter.unusedSimpArgs false
set_option linter.unusedVariables false

/-- the comparison statement for all cursor-reading functions of the mutual block at one fuel value -/
structure BA (P : BP) (fuel : Nat) : Prop where
  capture : ∀ {c}, P.Inv c → BR P (De.capture fuel c) (De.capture fuel (strip c))
  captureSeq : ∀ fps evs {c}, P.Inv c → BR P (De.captureSeq fuel c fps evs) (De.captureSeq fuel (strip c) fps evs)
  captureMap : ∀ fps evs {c}, P.Inv c → BR P (De.captureMap fuel c fps evs) (De.captureMap fuel (strip c) fps evs)
  mergeSeqBatches : ∀ b {c}, P.Inv c → BR P (De.mergeSeqBatches fuel c b) (De.mergeSeqBatches fuel (strip c) b)
  pendingFromLive : ∀ r {c}, P.Inv c → BR P (De.pendingFromLive fuel c r) (De.pendingFromLive fuel (strip c) r)
  collectEntriesFromMap : ∀ r {c}, P.Inv c →
    BR P (De.collectEntriesFromMap fuel c r) (De.collectEntriesFromMap fuel (strip c) r)
  collectLoop : ∀ r f m {c}, P.Inv c → BR P (De.collectLoop fuel c r f m) (De.collectLoop fuel (strip c) r f m)
  skipOneNode : ∀ {c}, P.Inv c → BR P (De.skipOneNode fuel c) (De.skipOneNode fuel (strip c))
  skipDepth : ∀ depth {c}, P.Inv c → BR P (De.skipDepth fuel c depth) (De.skipDepth fuel (strip c) depth)
  deser : ∀ cfg ty ik km {c}, P.Inv c → BR P (De.deser fuel cfg ty ik km c) (De.deser fuel cfg ty ik km (strip c))
  bytesLoop : ∀ cfg acc {c}, P.Inv c → BR P (De.bytesLoop fuel cfg c acc) (De.bytesLoop fuel cfg (strip c) acc)
  deserSeqLike : ∀ cfg shape {c}, P.Inv c →
    BR P (De.deserSeqLike fuel cfg shape c) (De.deserSeqLike fuel cfg shape (strip c))
  seqElems : ∀ cfg t acc {c}, P.Inv c → BR P (De.seqElems fuel cfg t c acc) (De.seqElems fuel cfg t (strip c) acc)
  tupleElems : ∀ cfg ts acc {c}, P.Inv c →
    BR P (De.tupleElems fuel cfg ts c acc) (De.tupleElems fuel cfg ts (strip c) acc)
  deserMapLike : ∀ cfg shape {c}, P.Inv c →
    BR P (De.deserMapLike fuel cfg shape c) (De.deserMapLike fuel cfg shape (strip c))
  mapEntries : ∀ cfg kt vt m acc {c}, P.Inv c →
    BR P (De.mapEntries fuel cfg kt vt c m acc) (De.mapEntries fuel cfg kt vt (strip c) m acc)
  structEntries : ∀ cfg fields deny m acc {c}, P.Inv c →
    BR P (De.structEntries fuel cfg fields deny c m acc) (De.structEntries fuel cfg fields deny (strip c) m acc)
  nextKey : ∀ cfg ks m {c}, P.Inv c → BR P (De.nextKey fuel cfg ks c m) (De.nextKey fuel cfg ks (strip c) m)
  nextValue : ∀ cfg vt m {c}, P.Inv c → BR P (De.nextValue fuel cfg vt c m) (De.nextValue fuel cfg vt (strip c) m)
  deserEnum : ∀ cfg name variants {c}, P.Inv c →
    BR P (De.deserEnum fuel cfg name variants c) (De.deserEnum fuel cfg name variants (strip c))
  collectTaggedSeq : ∀ depth acc {c}, P.Inv c →
    BR P (De.collectTaggedSeq fuel c depth acc) (De.collectTaggedSeq fuel (strip c) depth acc)
  variantPayload : ∀ cfg variants vname vloc mapMode tagged {c}, P.Inv c →
    BR P (De.variantPayload fuel cfg variants vname vloc mapMode tagged c)
      (De.variantPayload fuel cfg variants vname vloc mapMode tagged (strip c))

/-! ### automation -/

open Lean Elab Tactic Meta in
/-- the `BR` fact for a call with head symbol `n` (all explicit arguments are left to unification, the
invariant of the cursor is found among the hypotheses) -/
def brFact (n : Name) : TacticM (Option Term) := do
  match n with
  | ``De.capture => return some (← `(BA.capture ‹BA _ _› (by assumption)))
  | ``De.captureSeq => return some (← `(BA.captureSeq ‹BA _ _› _ _ (by assumption)))
  | ``De.captureMap => return some (← `(BA.captureMap ‹BA _ _› _ _ (by assumption)))
  | ``De.mergeSeqBatches => return some (← `(BA.mergeSeqBatches ‹BA _ _› _ (by assumption)))
  | ``De.pendingFromLive => return some (← `(BA.pendingFromLive ‹BA _ _› _ (by assumption)))
  | ``De.collectEntriesFromMap => return some (← `(BA.collectEntriesFromMap ‹BA _ _› _ (by assumption)))
  | ``De.collectLoop => return some (← `(BA.collectLoop ‹BA _ _› _ _ _ (by assumption)))
  | ``De.skipOneNode => return some (← `(BA.skipOneNode ‹BA _ _› (by assumption)))
  | ``De.skipDepth => return some (← `(BA.skipDepth ‹BA _ _› _ (by assumption)))
  | ``De.deser => return some (← `(BA.deser ‹BA _ _› _ _ _ _ (by assumption)))
  | ``De.bytesLoop => return some (← `(BA.bytesLoop ‹BA _ _› _ _ (by assumption)))
  | ``De.deserSeqLike => return some (← `(BA.deserSeqLike ‹BA _ _› _ _ (by assumption)))
  | ``De.seqElems => return some (← `(BA.seqElems ‹BA _ _› _ _ _ (by assumption)))
  | ``De.tupleElems => return some (← `(BA.tupleElems ‹BA _ _› _ _ _ (by assumption)))
  | ``De.deserMapLike => return some (← `(BA.deserMapLike ‹BA _ _› _ _ (by assumption)))
  | ``De.mapEntries => return some (← `(BA.mapEntries ‹BA _ _› _ _ _ _ _ (by assumption)))
  | ``De.structEntries => return some (← `(BA.structEntries ‹BA _ _› _ _ _ _ _ (by assumption)))
  | ``De.nextKey => return some (← `(BA.nextKey ‹BA _ _› _ _ _ (by assumption)))
  | ``De.nextValue => return some (← `(BA.nextValue ‹BA _ _› _ _ _ (by assumption)))
  | ``De.deserEnum => return some (← `(BA.deserEnum ‹BA _ _› _ _ _ (by assumption)))
  | ``De.collectTaggedSeq => return some (← `(BA.collectTaggedSeq ‹BA _ _› _ _ (by assumption)))
  | ``De.variantPayload => return some (← `(BA.variantPayload ‹BA _ _› _ _ _ _ _ _ (by assumption)))
  | ``De.takeStringScalar => return some (← `(takeStringScalar_br ‹Closed _› _ (by assumption)))
  | ``De.deserScalarTyped => return some (← `(deserScalarTyped_br ‹Closed _› _ _ (by assumption)))
  | ``De.deserString => return some (← `(deserString_br ‹Closed _› _ (by assumption)))
  | ``De.deserStr => return some (← `(deserStr_br ‹Closed _› _ (by assumption)))
  | ``De.deserAnyScalar => return some (← `(deserAnyScalar_br ‹Closed _› _ _ _ _ _ (by assumption)))
  | ``De.byteSeqVisit => return some (← `(byteSeqVisit_br ‹Closed _› _ _ (by assumption)))
  | ``De.structFinish => return some (← `(structFinish_br ‹Closed _› _ _ (by assumption)))
  | _ => return none

open Lean Elab Tactic Meta in
/-- is the cursor argument of the call in `lhs` a live-able cursor variable (not a literal replay cursor)? -/
def callOnReplay (lhs : Expr) : Bool :=
  lhs.getAppArgs.any fun a => a.isAppOf ``SaphyrVerif.De.Cur.replay

open Lean Elab Tactic Meta in
/-- transport the outcome of the call in the newest equation produced by `split` to the stripped side -/
elab "b_fwd" : tactic => withMainContext do
  let decls := (← getLCtx).decls.toList.reverse.filterMap id
  for ldecl in decls.take 6 do
    if ldecl.isImplementationDetail then continue
    let ty ← instantiateMVars ldecl.type
    if let some (_, lhs, rhs) := ty.eq? then
      let isOk := rhs.isAppOf ``SaphyrVerif.De.R.ok
      let isErr := rhs.isAppOf ``SaphyrVerif.De.R.err
      if isOk || isErr then
        if let .const n _ := lhs.getAppFn then
          if callOnReplay lhs then throwError "b_fwd: call on a replay cursor (same on both sides)"
          let some prf ← brFact n | throwError "b_fwd: no rule for {n}"
          let h ← Term.exprToSyntax ldecl.toExpr
          if isOk then evalTactic (← `(tactic| bfwd_ok $h, $prf))
          else evalTactic (← `(tactic| bfwd_err $h, $prf))
          return
  throwError "b_fwd: no call"

open Lean Elab Tactic Meta in
/-- the head symbols of the two sides of a goal `BR P lhs rhs` -/
def brGoalHeads : TacticM (Option (Name × Name)) := withMainContext do
  let tgt := (← instantiateMVars (← getMainTarget)).cleanupAnnotations
  if tgt.isAppOfArity ``BR 4 then
    let l := (tgt.getArg! 2).cleanupAnnotations
    let r := (tgt.getArg! 3).cleanupAnnotations
    match l.getAppFn, r.getAppFn with
    | .const a _, .const b _ => return some (a, b)
    | _, _ => return none
  return none

open Lean Elab Tactic Meta in
/-- close a leaf: both sides failed alike / succeeded alike / the budgeted side reports the breach -/
elab "b_leaf" : tactic => do
  let some (a, b) ← brGoalHeads | throwError "b_leaf: not a leaf"
  if a == ``R.err && b == ``R.err then evalTactic (← `(tactic| first | with_reducible exact BR.err | b_breach))
  else if a == ``R.ok && b == ``R.ok then evalTactic (← `(tactic| with_reducible exact BR.ok (by assumption)))
  else if a == ``R.err then evalTactic (← `(tactic| b_breach))
  else throwError "b_leaf: not a leaf"

open Lean Elab Tactic Meta in
/-- close a tail call by the induction hypothesis (or by a leaf lemma) -/
elab "b_tail" : tactic => do
  let some (a, b) ← brGoalHeads | throwError "b_tail: not a call"
  unless a == b do throwError "b_tail: different heads"
  let some prf ← brFact a | throwError "b_tail: no rule for {a}"
  evalTactic (← `(tactic| exact $prf))

theorem act1_eq1 (p : Prop) [Decidable p] : ((if p then (1 : Nat) else 0) == 1) = decide p := by
  by_cases h : p <;> simp [h]
theorem act1_eq2 (p : Prop) [Decidable p] : ((if p then (1 : Nat) else 0) == 2) = false := by
  by_cases h : p <;> simp [h]
theorem act2_eq1 (p : Prop) [Decidable p] : ((if p then (2 : Nat) else 0) == 1) = false := by
  by_cases h : p <;> simp [h]
theorem act2_eq2 (p : Prop) [Decidable p] : ((if p then (2 : Nat) else 0) == 2) = decide p := by
  by_cases h : p <;> simp [h]
theorem act0_eq1 : ((0 : Nat) == 1) = false := rfl
theorem act0_eq2 : ((0 : Nat) == 2) = false := rfl

macro "b_simp" : tactic =>
  `(tactic| simp only [*, ↓reduceIte, Bool.false_eq_true, act1_eq1, act1_eq2, act2_eq1, act2_eq2, act0_eq1, act0_eq2,
      decide_eq_true_eq, strip_lastLoc, strip_refLoc, strip_atAlias, strip_tagUseSite, strip_eofErr, strip_replay])

macro "b_loop" : tactic =>
  `(tactic| repeat' (first | b_leaf | b_step | b_simp | (split <;> try b_fwd) | b_tail))

end SaphyrVerif.Lemmas.E2EBudget
