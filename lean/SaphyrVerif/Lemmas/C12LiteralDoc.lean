import SaphyrVerif.Lemmas.C12Literal
import SaphyrVerif.Lemmas.C12Frame
/-!
Helper lemmas for C12: the automatic literal block at document level — what `serialize_str` writes
(`serializeStr_literal`) and how `readNode` / `readDoc` read it (`readNode_block`).
-/
set_option linter.unusedSimpArgs false

namespace SaphyrVerif.Lemmas.C12
open SaphyrVerif SaphyrVerif.SerScalar SaphyrVerif.Spec.Read SaphyrVerif.Scalars

theorem joinLines_map (f : List Char → List Char) (ls : List (List Char)) :
    ls.flatMap (fun line => f line ++ ['\n']) = joinLines (ls.map f) := by
  simp [joinLines, List.flatMap_map]

theorem joinLines_append (a b : List (List Char)) : joinLines (a ++ b) = joinLines a ++ joinLines b := by
  simp [joinLines]

theorem joinLines_replicate (k : Nat) (x : List Char) :
    (List.replicate k (x ++ ['\n'])).flatten = joinLines (List.replicate k x) := by
  induction k with
  | zero => rfl
  | succ k ih => simp [List.replicate_succ, joinLines, List.flatMap_cons] at ih ⊢; exact ih

/-- the literal body the writer emits is the joined `litLines` (content not empty) -/
theorem literalBody_eq (N : Nat) (v : List Char) (hcontent : trimEndNl v ≠ []) :
    literalBody N v = joinLines (litLines N v) := by
  have hce : (trimEndNl v).isEmpty = false := by
    cases h : trimEndNl v with
    | nil => exact absurd h hcontent
    | cons a b => rfl
  simp only [literalBody, litLines, hce, Bool.false_eq_true, if_false, joinLines_map, joinLines_append]
  congr 1
  by_cases h2 : v.length - (trimEndNl v).length ≥ 2
  · simp [h2, joinLines_replicate]
  · have : v.length - (trimEndNl v).length - 1 = 0 := by omega
    simp [h2, this, joinLines]

theorem takeWhile_nobreak (hdr rest : List Char) (h : ∀ c ∈ hdr, isBreak c = false) :
    (hdr ++ '\n' :: rest).takeWhile (fun c => !isBreak c) = hdr ∧
    (hdr ++ '\n' :: rest).dropWhile (fun c => !isBreak c) = '\n' :: rest := by
  induction hdr with
  | nil => simp [List.takeWhile, List.dropWhile, isBreak]
  | cons a hdr ih =>
    have ha := h a (by simp)
    have := ih (fun c hc => h c (by simp [hc]))
    simp [List.takeWhile, List.dropWhile, ha, this.1, this.2]

/-- the node-level reader on a block scalar text: header line, then the body lines -/
theorem readNode_block (p : Spec.Read.Pos) (hcl : p.closing = []) (hfl : p.isFlow = false) (literal : Bool)
    (hdr : List Char) (lines : List (List Char)) (col0 : Bool) (parent : Int)
    (hhdr : ∀ c ∈ hdr, isBreak c = false ∧ isNul c = false)
    (hlines : ∀ l ∈ lines, ∀ c ∈ l, c ≠ '\n' ∧ c ≠ '\r') :
    readNode p ((if literal then '|' else '>') :: (hdr ++ '\n' :: joinLines lines)) col0 parent =
      (readBlock literal parent hdr lines).bind
        (fun vr => if onlyTrailers vr.2 then some (if literal then Style.literal else Style.folded, vr.1) else none) := by
  have hsl : splitLines ('\n' :: joinLines lines) [] = some ([] :: lines) := by
    have := splitLines_join ([] :: lines) (by
      intro l hl c hc
      simp only [List.mem_cons] at hl
      rcases hl with e | hl
      · subst e; cases hc
      · exact hlines l hl c hc)
    simpa [joinLines] using this
  have htw := takeWhile_nobreak hdr (joinLines lines) (fun c hc => (hhdr c hc).1)
  have hnul : hdr.any isNul = false := by
    apply Bool.eq_false_iff.mpr
    intro hc
    obtain ⟨c, hcm, hcn⟩ := List.any_eq_true.mp hc
    rw [(hhdr c hcm).2] at hcn; cases hcn
  cases literal with
  | true =>
    have hk : startKind p.isFlow col0 ('|' :: (hdr ++ '\n' :: joinLines lines)) = .literal := by
      rw [hfl]; cases col0 <;> simp [startKind, isDocMarker_head, isFlowInd]
    unfold readNode
    simp only [hk, if_true, List.drop_succ_cons, List.drop_zero, htw.1, htw.2, hnul, hcl, List.isEmpty_nil,
      Bool.not_true, Bool.or_self, Bool.false_eq_true, if_false, hsl]
    rfl
  | false =>
    have hk : startKind p.isFlow col0 ('>' :: (hdr ++ '\n' :: joinLines lines)) = .folded := by
      rw [hfl]; cases col0 <;> simp [startKind, isDocMarker_head, isFlowInd]
    unfold readNode
    simp only [hk, List.drop_succ_cons, List.drop_zero, htw.1, htw.2, hnul, hcl, List.isEmpty_nil,
      Bool.not_true, Bool.or_self, Bool.false_eq_true, if_false, hsl]
    rfl


theorem splitNl_go_mem (s cur : List Char) : ∀ l ∈ splitNl.go s cur, ∀ c ∈ l, c ∈ cur ∨ c ∈ s := by
  induction s generalizing cur with
  | nil =>
    intro l hl c hc
    simp only [splitNl.go, List.mem_singleton] at hl
    subst hl
    left; simpa using hc
  | cons a s ih =>
    rw [splitNl.go]
    by_cases h : (a == '\n') = true
    · rw [if_pos h]
      intro l hl c hc
      simp only [List.mem_cons] at hl
      rcases hl with e | hl
      · subst e; left; simpa using hc
      · rcases ih [] l hl c hc with h1 | h1
        · cases h1
        · right; simp [h1]
    · rw [if_neg h]
      intro l hl c hc
      rcases ih (a :: cur) l hl c hc with h1 | h1
      · simp only [List.mem_cons] at h1
        rcases h1 with e | h1
        · right; simp [e]
        · left; exact h1
      · right; simp [h1]

theorem trimEndNl_mem (v : List Char) : ∀ c ∈ trimEndNl v, c ∈ v := by
  intro c hc
  have := (trimEndNl_spec v).1
  rw [this]
  simp [hc]

/-- characters of the emitted body lines: spaces or characters of the string -/
theorem litLines_mem (N : Nat) (v : List Char) : ∀ l ∈ litLines N v, ∀ c ∈ l, c = ' ' ∨ (c ∈ v ∧ c ≠ '\n') := by
  intro l hl c hc
  unfold litLines at hl
  simp only at hl
  have hsp : ∀ c ∈ spaces N, c = ' ' := by intro c hc; simp [spaces] at hc; exact hc.2
  split at hl
  · split at hl
    · simp only [List.mem_singleton] at hl; subst hl; left; exact hsp c hc
    · cases hl
  · simp only [List.mem_append, List.mem_map, List.mem_replicate] at hl
    rcases hl with ⟨x, hx, e⟩ | ⟨_, e⟩
    · subst e
      simp only [List.mem_append] at hc
      rcases hc with hc | hc
      · left; exact hsp c hc
      · right
        have hm := splitNl_go_mem (trimEndNl v) [] x (by simpa [splitNl] using hx) c hc
        have hn := splitNl_go_no_nl (trimEndNl v) [] (by simp) x (by simpa [splitNl] using hx) c hc
        rcases hm with h1 | h1
        · cases h1
        · exact ⟨trimEndNl_mem v c h1, hn⟩
    · subst e; left; exact hsp c hc

theorem litHeader_chars (d : Option Nat) (hd : ∀ n, d = some n → 1 ≤ n ∧ n ≤ 9) (t : Nat) :
    ∀ c ∈ litHeader d t, isBreak c = false ∧ isNul c = false := by
  intro c hc
  unfold litHeader at hc
  simp only [List.mem_append] at hc
  rcases hc with hc | hc
  · cases d with
    | none => cases hc
    | some n =>
      obtain ⟨h1, h2⟩ := hd n rfl
      simp only [List.mem_singleton] at hc
      subst hc
      have hm : n ∈ [1, 2, 3, 4, 5, 6, 7, 8, 9] := mem_range19 n h1 h2
      have key : ∀ n ∈ [1, 2, 3, 4, 5, 6, 7, 8, 9], isBreak (Char.ofNat (48 + n)) = false ∧ isNul (Char.ofNat (48 + n)) = false := by decide
      exact key n hm
  · have hc2 := chompInd_cap t
    rw [hc2.1] at hc
    have hm : min t 2 ∈ [0, 1, 2] := mem_range02 _ (by omega)
    have key : ∀ m ∈ [0, 1, 2], ∀ c ∈ chompInd m, isBreak c = false ∧ isNul c = false := by decide
    exact key _ hm c hc

/-- the block value positions: root, map value, seq item, enum newtype payload, sequence in sequence,
mapping in mapping, sequence in mapping -/
def isBlockPos : SerScalar.Pos → Bool
  | .root | .mapValue | .seqItem | .variant | .seqInSeq | .nestedMapValue | .seqInMap => true
  | _ => false

theorem blockPos_facts (p : SerScalar.Pos) (hp : isBlockPos p = true) :
    isKeyPos p = false ∧ (toRead p).isFlow = false ∧ (toRead p).closing = [] := by
  cases p <;> first | (cases hp; done) | exact ⟨rfl, rfl, rfl⟩

theorem indentCols_nat (o : Opts) (cx : Ctx) (d k : Nat) (h : ((o.indentStep * d : Nat) : Int) + cx.shift = (k : Int)) :
    indentCols o cx d = k := by
  unfold indentCols
  rw [h]; rfl

/-- base depth, body column and parent column per block position: either the base depth is 0 and the
parent is at column 0 or the root, or the base depth is positive; the body is always deeper than the
parent -/
theorem blockPos_cols (o : Opts) (p : SerScalar.Pos) (hp : isBlockPos p = true) (hstep : 1 ≤ o.indentStep) :
    (posCtx o p).inFlow = false ∧ 1 ≤ blockCols o (posCtx o p) ∧
    posParentO o (toRead p) + 1 ≤ (blockCols o (posCtx o p) : Int) ∧
    ((blockBase (posCtx o p) = 0 ∧ posParentO o (toRead p) ≤ 0) ∨ blockBase (posCtx o p) > 0) := by
  have h1 : ∀ cx : Ctx, cx.shift = 0 → ∀ d, indentCols o cx d = o.indentStep * d := by
    intro cx hs d; apply indentCols_nat; rw [hs]; simp
  cases p with
  | root =>
    have : blockCols o (posCtx o .root) = o.indentStep := by simp [blockCols, blockBase, posCtx, h1]
    refine ⟨rfl, by omega, by simp only [this, toRead, posParentO, posParent]; omega, Or.inl ⟨rfl, by simp [toRead, posParentO, posParent]⟩⟩
  | mapValue =>
    have : blockCols o (posCtx o .mapValue) = o.indentStep := by simp [blockCols, blockBase, posCtx, h1]
    refine ⟨rfl, by omega, by simp only [this, toRead, posParentO, posParent]; omega, Or.inl ⟨rfl, by simp [toRead, posParentO, posParent]⟩⟩
  | seqItem =>
    have : blockCols o (posCtx o .seqItem) = o.indentStep := by simp [blockCols, blockBase, posCtx, h1]
    refine ⟨rfl, by omega, by simp only [this, toRead, posParentO, posParent]; omega, Or.inl ⟨rfl, by simp [toRead, posParentO, posParent]⟩⟩
  | variant =>
    have : blockCols o (posCtx o .variant) = o.indentStep := by simp [blockCols, blockBase, posCtx, h1]
    refine ⟨rfl, by omega, by simp only [this, toRead, posParentO, posParent]; omega, Or.inl ⟨rfl, by simp [toRead, posParentO, posParent]⟩⟩
  | seqInSeq =>
    have : blockCols o (posCtx o .seqInSeq) = o.indentStep + 2 := by
      show indentCols o _ 2 = o.indentStep + 2
      apply indentCols_nat
      simp only [posCtx]
      omega
    refine ⟨rfl, by omega, by simp only [this, toRead, posParentO, posParent]; omega, Or.inr (by simp [blockBase, posCtx])⟩
  | nestedMapValue =>
    have : blockCols o (posCtx o .nestedMapValue) = o.indentStep * 2 := by simp [blockCols, blockBase, posCtx, h1]
    refine ⟨rfl, by omega, by simp only [this, toRead, posParentO]; omega, Or.inr (by simp [blockBase, posCtx])⟩
  | seqInMap =>
    cases hc : o.compactList with
    | true =>
      have hb : blockBase (posCtx o .seqInMap) = 0 := by simp [blockBase, posCtx, hc]
      have : blockCols o (posCtx o .seqInMap) = o.indentStep := by
        unfold blockCols; rw [hb, h1 _ rfl]; omega
      refine ⟨rfl, by omega, by simp only [this, toRead, posParentO, seqInMapDepth, hc]; simp; omega,
        Or.inl ⟨hb, by simp [toRead, posParentO, seqInMapDepth, hc]⟩⟩
    | false =>
      have hb : blockBase (posCtx o .seqInMap) = 1 := by simp [blockBase, posCtx, hc]
      have : blockCols o (posCtx o .seqInMap) = o.indentStep * 2 := by
        unfold blockCols; rw [hb, h1 _ rfl]
      refine ⟨rfl, by omega, by simp only [this, toRead, posParentO, seqInMapDepth, hc]; simp; omega,
        Or.inr (by omega)⟩
  | mapKey => cases hp
  | flowSeq => cases hp
  | flowMapValue => cases hp
  | flowMapKey => cases hp

/-- Geometry of a block scalar that is not sent to the fall-back: the body column is positive and deeper
than the parent node; an indentation indicator is only written where it is a single digit and the parent
is at column 0 or the root. -/
theorem block_geometry (o : Opts) (p : SerScalar.Pos) (hp : isBlockPos p = true) (hstep : 1 ≤ o.indentStep)
    (v : List Char) (hnf : blockFallback o (posCtx o p) v = false) :
    (posCtx o p).inFlow = false ∧ 1 ≤ blockCols o (posCtx o p) ∧
    (needsInd v = false → posParentO o (toRead p) + 1 ≤ (blockCols o (posCtx o p) : Int)) ∧
    (needsInd v = true → blockCols o (posCtx o p) ≤ 9 ∧ posParentO o (toRead p) ≤ 0) ∧
    (∀ c ∈ v, isControl c = true → c = '\n' ∨ c = '\t') := by
  simp only [blockFallback, Bool.or_eq_false_iff] at hnf
  obtain ⟨⟨⟨h1, _⟩, h3⟩, _⟩ := hnf
  have hctl : ∀ c ∈ v, isControl c = true → c = '\n' ∨ c = '\t' := by
    intro c hc hcc
    have := any_false_mem h3 c hc
    simp only [hcc, Bool.true_and, Bool.and_eq_false_iff, bne_eq_false_iff_eq] at this
    exact this
  obtain ⟨hfl, hpos, hdeep, hcase⟩ := blockPos_cols o p hp hstep
  refine ⟨hfl, hpos, fun _ => hdeep, ?_, hctl⟩
  intro hn
  simp only [hn, Bool.true_and, Bool.or_eq_false_iff, decide_eq_false_iff_not] at h1
  rcases hcase with ⟨_, hpar⟩ | hb
  · exact ⟨by omega, hpar⟩
  · exact absurd hb h1.2

/-- what the automatic literal selection implies about the string (since the repair a252cf9: the
writer itself refuses CR / NUL / other controls and contents made of line breaks only) -/
theorem autoStyle_literal_facts {o : Opts} {v : List Char} (h : autoStyle o false v = some .literal) :
    o.quoteAll = false ∧ trimEndNl v ≠ [] ∧ ∀ c ∈ v, c ≠ '\r' ∧ isNul c = false := by
  unfold autoStyle at h
  cases hq : o.quoteAll with
  | true => simp [hq] at h
  | false =>
    refine ⟨rfl, ?_⟩
    simp only [hq, Bool.not_false, Bool.and_true, Bool.true_and, if_true] at h
    cases hn : v.contains '\n' with
    | false =>
      simp only [hn, Bool.false_eq_true, if_false] at h
      split at h
      · split at h <;> cases h
      · cases h
    | true =>
      simp only [hn, if_true] at h
      cases hpb : o.preferBlock with
      | false => simp [hpb] at h
      | true =>
        simp only [hpb, if_true] at h
        by_cases hlong : (decide (v.length > o.foldedWrap) && blockOk v) = true
        · simp only [Bool.and_eq_true] at hlong
          have hbo := hlong.2
          simp only [blockOk, Bool.and_eq_true, Bool.not_eq_true'] at hbo
          refine ⟨by intro e; rw [e] at hbo; simp at hbo, ?_⟩
          intro c hc
          have := any_false_mem hbo.1 c hc
          constructor
          · intro e; subst e; revert this; decide
          · apply Bool.eq_false_iff.mpr; intro e
            have hc0 := char_of_toNat' (eq_of_beq e); subst hc0; revert this; decide
        · rw [if_neg hlong] at h
          by_cases hpv : isPlainValueSafe ((trimEndNl v).map (fun c => if c == '\n' then ' ' else c)) o.yaml12 false = true
          · obtain ⟨_, hhead, _, _, hsafe, _⟩ := pvs_unfold hpv
            have hne : trimEndNl v ≠ [] := by
              intro e; rw [e] at hhead; simp [headRejects] at hhead
            refine ⟨hne, ?_⟩
            have hcontent : ∀ c ∈ trimEndNl v, c ≠ '\r' ∧ isNul c = false := by
              intro c hc
              by_cases hcn : c = '\n'
              · subst hcn; exact ⟨by decide, by decide⟩
              · have hm : c ∈ (trimEndNl v).map (fun c => if c == '\n' then ' ' else c) := by
                  apply List.mem_map.mpr
                  exact ⟨c, hc, by simp [hcn]⟩
                obtain ⟨_, hb, hnul⟩ := not_control_facts (hsafe c hm).1
                simp only [isBreak, Bool.or_eq_false_iff] at hb
                exact ⟨by simpa using hb.2, hnul⟩
            intro c hc
            have hv := (trimEndNl_spec v).1
            rw [hv] at hc
            simp only [List.mem_append] at hc
            rcases hc with hc | hc
            · exact hcontent c hc
            · have : c = '\n' := by simp [nls] at hc; exact hc.2
              subst this; exact ⟨by decide, by decide⟩
          · rw [if_neg hpv] at h; cases h

/-- the block header as the reader's lemma wants it -/
theorem blockHeaderTail_eq (o : Opts) (cx : Ctx) (v : List Char) :
    blockHeaderTail o cx v =
      litHeader (if firstLineLeadingSpaces (trimEndNl v) > 0 then some (blockCols o cx) else none)
        (v.length - (trimEndNl v).length) := by
  unfold blockHeaderTail litHeader needsInd
  by_cases h : firstLineLeadingSpaces (trimEndNl v) > 0 <;> simp [h]

/-- The automatic literal block round-trips at document level in every block value position with a
fixed opening, whenever the writer really emits it (selection, no fall-back), under every option vector. -/
theorem literal_doc (o : Opts) (p : SerScalar.Pos) (v : List Char) (hp : isBlockPos p = true)
    (hstep : 1 ≤ o.indentStep) (hauto : autoStyle o false v = some .literal)
    (hnf : blockFallback o (posCtx o p) v = false) :
    ∃ t, emitDoc o p v = .ok t ∧ readDoc (toRead p) t = some (.literal, v) := by
  obtain ⟨hkey, hflow, hclosing⟩ := blockPos_facts p hp
  obtain ⟨hinflow, hN, hgeoA, hgeoE, _⟩ := block_geometry o p hp hstep v hnf
  obtain ⟨_, hcontent, hchars⟩ := autoStyle_literal_facts hauto
  let N := blockCols o (posCtx o p)
  let hdr := blockHeaderTail o (posCtx o p) v
  let T := '|' :: (hdr ++ '\n' :: joinLines (litLines N v))
  have hser : serializeStr o (posCtx o p) v =
      .ok (spOf (posCtx o p) ++ writeIndent o (posCtx o p) (blockBase (posCtx o p)) ++ T) := by
    unfold serializeStr
    rw [hinflow, hauto]
    simp only [hnf, Bool.false_eq_true, if_false, spOf, T, hdr, N, literalBody_eq _ v hcontent]
  have hemit := emit_of_block o p hkey hflow v T (blockBase (posCtx o p)) (by intro e; subst e; rfl) hser
  refine ⟨_, hemit, ?_⟩
  have hhdr_eq := blockHeaderTail_eq o (posCtx o p) v
  have hhdr : ∀ c ∈ hdr, isBreak c = false ∧ isNul c = false := by
    show ∀ c ∈ blockHeaderTail o (posCtx o p) v, _
    rw [hhdr_eq]
    apply litHeader_chars
    intro n hn
    by_cases hf : firstLineLeadingSpaces (trimEndNl v) > 0
    · rw [if_pos hf] at hn; injection hn with e
      have := (hgeoE (by simp [needsInd, hf])).1
      subst e
      exact ⟨hN, this⟩
    · rw [if_neg hf] at hn; cases hn
  have hlines : ∀ l ∈ litLines N v, ∀ c ∈ l, c ≠ '\n' ∧ c ≠ '\r' := by
    intro l hl c hc
    rcases litLines_mem _ v l hl c hc with e | ⟨hm, hn⟩
    · subst e; exact ⟨by decide, by decide⟩
    · exact ⟨hn, (hchars c hm).1⟩
  have hnode := readNode_block (toRead p) hclosing hflow true hdr (litLines N v)
    (posCol0 (toRead p)) (posParentO o (toRead p)) hhdr hlines
  have hread : readBlock true (posParentO o (toRead p)) hdr (litLines N v) = some (v, []) := by
    show readBlock true _ (blockHeaderTail o (posCtx o p) v) _ = _
    rw [hhdr_eq]
    apply literal_read N (posParentO o (toRead p)) v hN hcontent
    · intro h0; exact hgeoA (by simp [needsInd, h0])
    · intro h0; exact hgeoE (by simp [needsInd, h0])
  try simp only [if_true] at hnode
  rw [hread] at hnode
  have hnul : (T).any isNul = false := by
    have h2 : hdr.any isNul = false := by
      apply Bool.eq_false_iff.mpr
      intro hc
      obtain ⟨c, hcm, hcn⟩ := List.any_eq_true.mp hc
      rw [(hhdr c hcm).2] at hcn; cases hcn
    have h3 : (joinLines (litLines N v)).any isNul = false := by
      apply Bool.eq_false_iff.mpr
      intro hc
      obtain ⟨c, hcm, hcn⟩ := List.any_eq_true.mp hc
      simp only [joinLines, List.mem_flatMap, List.mem_append, List.mem_singleton] at hcm
      obtain ⟨l, hl, hcm⟩ := hcm
      rcases hcm with hcm | e
      · rcases litLines_mem _ v l hl c hcm with e | ⟨hm, _⟩
        · subst e; revert hcn; decide
        · rw [(hchars c hm).2] at hcn; cases hcn
      · subst e; revert hcn; decide
    simp only [T, List.any_append, List.any_cons, h2, h3]
    decide
  show readDoc (toRead p) (preamble o ++ (openingO o (toRead p) ++ '|' :: (hdr ++ '\n' :: joinLines (litLines N v)))) = _
  rw [readDoc_open o (toRead p) hstep '|' _ (by decide) (by decide) (by decide) hnul]
  simp only [hnode, Option.bind_some, onlyTrailers, List.all_nil, if_true]

end SaphyrVerif.Lemmas.C12
