import SaphyrVerif.Lemmas.C12Literal
import SaphyrVerif.Lemmas.C12Doc
/-!
Helper lemmas for C12: the automatic literal block at document level — what `serialize_str` writes
(`serializeStr_literal`) and how `readNode` / `readDoc` read it (`readNode_block`).
-/
set_option linter.unusedSimpArgs false

namespace SaphyrVerif.Lemmas.C12
open SaphyrVerif SaphyrVerif.SerScalar SaphyrVerif.Spec.Read SaphyrVerif.Scalars

/-- the base depth `serialize_str` uses for a block scalar -/
def blockBase (cx : Ctx) : Nat :=
  if cx.pendingSpace then cx.mapDepth.getD cx.depth else cx.afterDash.getD cx.depth

def needsInd (v : List Char) : Bool := firstLineLeadingSpaces (trimEndNl v) > 0

theorem joinLines_map (f : List Char → List Char) (ls : List (List Char)) :
    ls.flatMap (fun line => f line ++ ['\n']) = joinLines (ls.map f) := by
  simp [joinLines, List.flatMap_map]

theorem joinLines_append (a b : List (List Char)) : joinLines (a ++ b) = joinLines a ++ joinLines b := by
  simp [joinLines]

theorem joinLines_replicate (k : Nat) (x : List Char) :
    (List.replicate k (x ++ ['\n'])).flatten = joinLines (List.replicate k x) := by
  induction k with
  | zero => rfl
  | succ k ih => simp [List.replicate_succ, joinLines, List.flatMap_cons] at ih ⊢; exact ih

/-- what `serialize_str` writes in the automatic literal style (content not empty, no fallback to
quoting because of a two-digit indicator) -/
theorem serializeStr_literal (o : Opts) (cx : Ctx) (v : List Char)
    (hauto : autoStyle o cx.inFlow v = some .literal) (hcontent : trimEndNl v ≠ [])
    (hfb : needsInd v = true → o.indentStep * (blockBase cx + 1) ≤ 9) (hb0 : blockBase cx = 0) :
    serializeStr o cx v = .ok
      ((if cx.pendingSpace then [' '] else []) ++ writeIndent o cx (blockBase cx) ++
        ('|' :: (litHeader (if firstLineLeadingSpaces (trimEndNl v) > 0 then some (o.indentStep * (blockBase cx + 1)) else none)
                  (v.length - (trimEndNl v).length)
          ++ '\n' :: joinLines (litLines (o.indentStep * (blockBase cx + 1)) v)))) := by
  unfold serializeStr
  rw [hauto]
  simp only
  have hce : (trimEndNl v).isEmpty = false := by
    cases h : trimEndNl v with
    | nil => exact absurd h hcontent
    | cons a b => rfl
  have hbase : (if cx.pendingSpace = true then cx.mapDepth.getD cx.depth else cx.afterDash.getD cx.depth) = blockBase cx := rfl
  rw [hbase]
  have hsh : (decide (o.indentStep < 2) && !cx.pendingSpace && decide (blockBase cx > 0)) = false := by
    rw [hb0]; simp
  by_cases hn : firstLineLeadingSpaces (trimEndNl v) > 0
  · have hle := hfb (by simp [needsInd, hn])
    have hnot : ¬ (o.indentStep * (blockBase cx + 1) > 9) := by omega
    have hb0' : ¬ (blockBase cx > 0) := by omega
    simp only [hsh, hn, decide_true, Bool.true_and, decide_eq_true_eq, hnot, hb0', decide_false, Bool.or_self,
      if_false, hce, Bool.false_eq_true, if_true, litHeader, litLines, joinLines_map, joinLines_append]
    congr 1
    simp only [List.append_assoc, List.cons_append, List.nil_append, List.singleton_append]
    congr 4
    by_cases h2 : v.length - (trimEndNl v).length ≥ 2
    · simp [h2, joinLines_replicate]
    · have : v.length - (trimEndNl v).length - 1 = 0 := by omega
      simp [h2, this, joinLines]
  · simp only [hsh, hn, decide_false, Bool.false_and, Bool.or_self, Bool.false_eq_true, if_false, hce, litHeader, litLines,
      joinLines_map, joinLines_append, List.nil_append]
    congr 1
    simp only [List.append_assoc, List.cons_append, List.nil_append, List.singleton_append]
    congr 3
    by_cases h2 : v.length - (trimEndNl v).length ≥ 2
    · simp [h2, joinLines_replicate]
    · have : v.length - (trimEndNl v).length - 1 = 0 := by omega
      simp [h2, this, joinLines]


theorem takeWhile_nobreak (hdr rest : List Char) (h : ∀ c ∈ hdr, isBreak c = false) :
    (hdr ++ '\n' :: rest).takeWhile (fun c => !isBreak c) = hdr ∧
    (hdr ++ '\n' :: rest).dropWhile (fun c => !isBreak c) = '\n' :: rest := by
  induction hdr with
  | nil => simp [List.takeWhile, List.dropWhile, isBreak]
  | cons a hdr ih =>
    have ha := h a (by simp)
    have := ih (fun c hc => h c (by simp [hc]))
    simp [List.takeWhile, List.dropWhile, ha, this.1, this.2]

theorem isDocMarker_head (a : Char) (t : List Char) (h1 : a ≠ '-') (h2 : a ≠ '.') : isDocMarker (a :: t) = false := by
  cases t with
  | nil => rfl
  | cons b t =>
    cases t with
    | nil => rfl
    | cons c r => simp [isDocMarker, h1, h2]

/-- the node-level reader on a block scalar text: header line, then the body lines -/
theorem readNode_block (p : Spec.Read.Pos) (hcl : p.closing = []) (hfl : p.isFlow = false) (literal : Bool)
    (hdr : List Char) (lines : List (List Char)) (col0 : Bool) (parent : Int)
    (hhdr : ∀ c ∈ hdr, isBreak c = false ∧ isNul c = false)
    (hlines : ∀ l ∈ lines, ∀ c ∈ l, c ≠ '\n' ∧ c ≠ '\r') :
    readNode p ((if literal then '|' else '>') :: (hdr ++ '\n' :: joinLines lines)) col0 parent =
      (readBlock literal parent hdr lines).bind
        (fun vr => if onlyTrailers vr.2 then some (if literal then Style.literal else Style.folded, vr.1) else none) := by
  have hsl : splitLines ('\n' :: joinLines lines) [] = some ([] :: lines) := by
    have := splitLines_join ([] :: lines) (by
      intro l hl c hc
      simp only [List.mem_cons] at hl
      rcases hl with e | hl
      · subst e; cases hc
      · exact hlines l hl c hc)
    simpa [joinLines] using this
  have htw := takeWhile_nobreak hdr (joinLines lines) (fun c hc => (hhdr c hc).1)
  have hnul : hdr.any isNul = false := by
    apply Bool.eq_false_iff.mpr
    intro hc
    obtain ⟨c, hcm, hcn⟩ := List.any_eq_true.mp hc
    rw [(hhdr c hcm).2] at hcn; cases hcn
  cases literal with
  | true =>
    have hk : startKind p.isFlow col0 ('|' :: (hdr ++ '\n' :: joinLines lines)) = .literal := by
      rw [hfl]; cases col0 <;> simp [startKind, isDocMarker_head, isFlowInd]
    unfold readNode
    simp only [hk, if_true, List.drop_succ_cons, List.drop_zero, htw.1, htw.2, hnul, hcl, List.isEmpty_nil,
      Bool.not_true, Bool.or_self, Bool.false_eq_true, if_false, hsl]
    rfl
  | false =>
    have hk : startKind p.isFlow col0 ('>' :: (hdr ++ '\n' :: joinLines lines)) = .folded := by
      rw [hfl]; cases col0 <;> simp [startKind, isDocMarker_head, isFlowInd]
    unfold readNode
    simp only [hk, List.drop_succ_cons, List.drop_zero, htw.1, htw.2, hnul, hcl, List.isEmpty_nil,
      Bool.not_true, Bool.or_self, Bool.false_eq_true, if_false, hsl]
    rfl


theorem splitNl_go_mem (s cur : List Char) : ∀ l ∈ splitNl.go s cur, ∀ c ∈ l, c ∈ cur ∨ c ∈ s := by
  induction s generalizing cur with
  | nil =>
    intro l hl c hc
    simp only [splitNl.go, List.mem_singleton] at hl
    subst hl
    left; simpa using hc
  | cons a s ih =>
    rw [splitNl.go]
    by_cases h : (a == '\n') = true
    · rw [if_pos h]
      intro l hl c hc
      simp only [List.mem_cons] at hl
      rcases hl with e | hl
      · subst e; left; simpa using hc
      · rcases ih [] l hl c hc with h1 | h1
        · cases h1
        · right; simp [h1]
    · rw [if_neg h]
      intro l hl c hc
      rcases ih (a :: cur) l hl c hc with h1 | h1
      · simp only [List.mem_cons] at h1
        rcases h1 with e | h1
        · right; simp [e]
        · left; exact h1
      · right; simp [h1]

theorem trimEndNl_mem (v : List Char) : ∀ c ∈ trimEndNl v, c ∈ v := by
  intro c hc
  have := (trimEndNl_spec v).1
  rw [this]
  simp [hc]

/-- characters of the emitted body lines: spaces or characters of the string -/
theorem litLines_mem (N : Nat) (v : List Char) : ∀ l ∈ litLines N v, ∀ c ∈ l, c = ' ' ∨ (c ∈ v ∧ c ≠ '\n') := by
  intro l hl c hc
  unfold litLines at hl
  simp only at hl
  have hsp : ∀ c ∈ spaces N, c = ' ' := by intro c hc; simp [spaces] at hc; exact hc.2
  split at hl
  · split at hl
    · simp only [List.mem_singleton] at hl; subst hl; left; exact hsp c hc
    · cases hl
  · simp only [List.mem_append, List.mem_map, List.mem_replicate] at hl
    rcases hl with ⟨x, hx, e⟩ | ⟨_, e⟩
    · subst e
      simp only [List.mem_append] at hc
      rcases hc with hc | hc
      · left; exact hsp c hc
      · right
        have hm := splitNl_go_mem (trimEndNl v) [] x (by simpa [splitNl] using hx) c hc
        have hn := splitNl_go_no_nl (trimEndNl v) [] (by simp) x (by simpa [splitNl] using hx) c hc
        rcases hm with h1 | h1
        · cases h1
        · exact ⟨trimEndNl_mem v c h1, hn⟩
    · subst e; left; exact hsp c hc

theorem litHeader_chars (d : Option Nat) (hd : ∀ n, d = some n → 1 ≤ n ∧ n ≤ 9) (t : Nat) :
    ∀ c ∈ litHeader d t, isBreak c = false ∧ isNul c = false := by
  intro c hc
  unfold litHeader at hc
  simp only [List.mem_append] at hc
  rcases hc with hc | hc
  · cases d with
    | none => cases hc
    | some n =>
      obtain ⟨h1, h2⟩ := hd n rfl
      simp only [List.mem_singleton] at hc
      subst hc
      have hm : n ∈ [1, 2, 3, 4, 5, 6, 7, 8, 9] := mem_range19 n h1 h2
      have key : ∀ n ∈ [1, 2, 3, 4, 5, 6, 7, 8, 9], isBreak (Char.ofNat (48 + n)) = false ∧ isNul (Char.ofNat (48 + n)) = false := by decide
      exact key n hm
  · have hc2 := chompInd_cap t
    rw [hc2.1] at hc
    have hm : min t 2 ∈ [0, 1, 2] := mem_range02 _ (by omega)
    have key : ∀ m ∈ [0, 1, 2], ∀ c ∈ chompInd m, isBreak c = false ∧ isNul c = false := by decide
    exact key _ hm c hc

/-- positions in which a block scalar's body is at `indent_step` columns and the parent node is at
column 0 or is the root -/
def blockSimplePos : SerScalar.Pos → Bool
  | .root | .mapValue | .seqItem | .variant => true
  | _ => false

/-- what the automatic literal selection implies about the string (since the repair a252cf9: the
writer itself refuses CR / NUL / other controls and contents made of line breaks only) -/
theorem autoStyle_literal_facts {o : Opts} {v : List Char} (h : autoStyle o false v = some .literal) :
    o.quoteAll = false ∧ trimEndNl v ≠ [] ∧ ∀ c ∈ v, c ≠ '\r' ∧ isNul c = false := by
  unfold autoStyle at h
  cases hq : o.quoteAll with
  | true => simp [hq] at h
  | false =>
    refine ⟨rfl, ?_⟩
    simp only [hq, Bool.not_false, Bool.and_true, Bool.true_and, if_true] at h
    cases hn : v.contains '\n' with
    | false =>
      simp only [hn, Bool.false_eq_true, if_false] at h
      split at h
      · split at h <;> cases h
      · cases h
    | true =>
      simp only [hn, if_true] at h
      cases hpb : o.preferBlock with
      | false => simp [hpb] at h
      | true =>
        simp only [hpb, if_true] at h
        by_cases hlong : (decide (v.length > o.foldedWrap) && blockOk v) = true
        · simp only [Bool.and_eq_true] at hlong
          have hbo := hlong.2
          simp only [blockOk, Bool.and_eq_true, Bool.not_eq_true'] at hbo
          refine ⟨by intro e; rw [e] at hbo; simp at hbo, ?_⟩
          intro c hc
          have := any_false_mem hbo.1 c hc
          constructor
          · intro e; subst e; revert this; decide
          · apply Bool.eq_false_iff.mpr; intro e
            have hc0 := char_of_toNat' (eq_of_beq e); subst hc0; revert this; decide
        · rw [if_neg hlong] at h
          by_cases hpv : isPlainValueSafe ((trimEndNl v).map (fun c => if c == '\n' then ' ' else c)) o.yaml12 false = true
          · obtain ⟨_, hhead, _, _, hsafe, _⟩ := pvs_unfold hpv
            have hne : trimEndNl v ≠ [] := by
              intro e; rw [e] at hhead; simp [headRejects] at hhead
            refine ⟨hne, ?_⟩
            have hcontent : ∀ c ∈ trimEndNl v, c ≠ '\r' ∧ isNul c = false := by
              intro c hc
              by_cases hcn : c = '\n'
              · subst hcn; exact ⟨by decide, by decide⟩
              · have hm : c ∈ (trimEndNl v).map (fun c => if c == '\n' then ' ' else c) := by
                  apply List.mem_map.mpr
                  exact ⟨c, hc, by simp [hcn]⟩
                obtain ⟨_, hb, hnul⟩ := not_control_facts (hsafe c hm).1
                simp only [isBreak, Bool.or_eq_false_iff] at hb
                exact ⟨by simpa using hb.2, hnul⟩
            intro c hc
            have hv := (trimEndNl_spec v).1
            rw [hv] at hc
            simp only [List.mem_append] at hc
            rcases hc with hc | hc
            · exact hcontent c hc
            · have : c = '\n' := by simp [nls] at hc; exact hc.2
              subst this; exact ⟨by decide, by decide⟩
          · rw [if_neg hpv] at h; cases h

/-- "the writer emits the automatic literal style" in a position whose base depth is 0: the selection,
and no fall-back to quoting because of a two-digit indentation indicator -/
def writerLiteral (o : Opts) (v : List Char) : Prop :=
  autoStyle o false v = some .literal ∧ (needsInd v = true → o.indentStep ≤ 9)

/-- The automatic literal block round-trips at document level: root, map value, seq item, enum newtype
payload, for every string the writer sends there, under every option vector. -/
theorem literal_doc (o : Opts) (p : SerScalar.Pos) (v : List Char) (hp : blockSimplePos p = true)
    (hstep : 1 ≤ o.indentStep) (hw : writerLiteral o v) :
    ∃ t, emitDoc o p v = .ok t ∧ readDoc (toRead p) t = some (.literal, v) := by
  obtain ⟨hauto, hdig⟩ := hw
  obtain ⟨hq, hcontent, hchars⟩ := autoStyle_literal_facts hauto
  let hdr := litHeader (if firstLineLeadingSpaces (trimEndNl v) > 0 then some (o.indentStep * (0 + 1)) else none)
      (v.length - (trimEndNl v).length)
  let body := '|' :: (hdr ++ '\n' :: joinLines (litLines (o.indentStep * (0 + 1)) v))
  have hemit : emitDoc o p v = .ok (preamble o ++ (opening (toRead p) ++ body)) := by
    have hV : writePlainOrQuoted ['V'] o.quoteAll = ['V'] := by rw [hq]; decide
    cases p <;> first
      | (cases hp; done)
      | (simp only [emitDoc, hV]
         rw [serializeStr_literal o _ v hauto hcontent (by intro h; simp only [blockBase]; have := hdig h; simp; omega) rfl]
         cases hy : o.yaml12 <;> simp [blockBase, writeIndent, hy, spaces, opening, toRead, body, hdr, preamble])
  refine ⟨_, hemit, ?_⟩
  have hhdr : ∀ c ∈ hdr, isBreak c = false ∧ isNul c = false := by
    apply litHeader_chars
    intro n hn
    by_cases hf : firstLineLeadingSpaces (trimEndNl v) > 0
    · rw [if_pos hf] at hn; injection hn with e
      have := hdig (by simp [needsInd, hf])
      omega
    · rw [if_neg hf] at hn; cases hn
  have hlines : ∀ l ∈ litLines (o.indentStep * (0 + 1)) v, ∀ c ∈ l, c ≠ '\n' ∧ c ≠ '\r' := by
    intro l hl c hc
    rcases litLines_mem _ v l hl c hc with e | ⟨hm, hn⟩
    · subst e; exact ⟨by decide, by decide⟩
    · exact ⟨hn, (hchars c hm).1⟩
  have hpp : simplePos (toRead p) = true := by cases p <;> first | rfl | (cases hp; done)
  have hso := stripOpening_opening (toRead p) hpp '|' (hdr ++ '\n' :: joinLines (litLines (o.indentStep * (0 + 1)) v)) (by decide)
  have hcl : (toRead p).closing = [] := by cases p <;> first | rfl | (cases hp; done)
  have hfl : (toRead p).isFlow = false := by cases p <;> first | rfl | (cases hp; done)
  have hnode := readNode_block (toRead p) hcl hfl true hdr (litLines (o.indentStep * (0 + 1)) v)
    (posCol0 (toRead p)) (posParent (toRead p)) hhdr hlines
  have hread := literal_read (o.indentStep * (0 + 1)) (posParent (toRead p)) v (by omega) hcontent
    (by intro _; cases p <;> first | (cases hp; done) | (simp only [toRead, posParent]; omega))
    (by intro hf
        have := hdig (by simp [needsInd, hf])
        refine ⟨by omega, ?_⟩
        cases p <;> first | (cases hp; done) | (simp only [toRead, posParent]; omega))
  simp only [if_true] at hnode
  rw [hread] at hnode
  -- the document frame
  obtain ⟨hh1, hh2⟩ := opening_head (toRead p) '|' (hdr ++ '\n' :: joinLines (litLines (o.indentStep * (0 + 1)) v)) (by decide) (by decide)
  rw [readDoc_frame o (toRead p) _ hh1 hh2]
  have hpc : ((opening (toRead p) ++ body).head? == some '%') = false := by
    cases p <;> first | rfl | (cases hp; done)
  have hnul : (opening (toRead p) ++ body).any isNul = false := by
    have h1 : (opening (toRead p)).any isNul = false := by cases p <;> decide
    have h2 : hdr.any isNul = false := by
      apply Bool.eq_false_iff.mpr
      intro hc
      obtain ⟨c, hcm, hcn⟩ := List.any_eq_true.mp hc
      rw [(hhdr c hcm).2] at hcn; cases hcn
    have h3 : (joinLines (litLines (o.indentStep * (0 + 1)) v)).any isNul = false := by
      apply Bool.eq_false_iff.mpr
      intro hc
      obtain ⟨c, hcm, hcn⟩ := List.any_eq_true.mp hc
      simp only [joinLines, List.mem_flatMap, List.mem_append, List.mem_singleton] at hcm
      obtain ⟨l, hl, hcm⟩ := hcm
      rcases hcm with hcm | e
      · rcases litLines_mem _ v l hl c hcm with e | ⟨hm, _⟩
        · subst e; revert hcn; decide
        · rw [(hchars c hm).2] at hcn; cases hcn
      · subst e; revert hcn; decide
    simp only [body, List.any_append, List.any_cons, h1, h2, h3]
    decide
  show readDocBody (toRead p) (opening (toRead p) ++ body) = _
  unfold readDocBody
  rw [hpc, hnul]
  simp only [Bool.or_self, Bool.false_eq_true, if_false]
  show (match stripOpening (toRead p) (opening (toRead p) ++ '|' :: (hdr ++ '\n' :: joinLines (litLines (o.indentStep * (0 + 1)) v))) with
    | none => none
    | some (s, col0, parent) => readNode (toRead p) s col0 parent) = _
  rw [hso]
  simp only [hnode, Option.bind_some, onlyTrailers, List.all_nil, if_true]

end SaphyrVerif.Lemmas.C12
