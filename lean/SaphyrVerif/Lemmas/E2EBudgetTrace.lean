import SaphyrVerif.Lemmas.E2EBudgetShape
import SaphyrVerif.Lemmas.E2EBudgetLim
/-!
End-to-end composition with the budget enforcer, part 13: the observations of a whole run.  `ORun` is `Run` with the
list of everything the enforcer is shown; the budgeted pump runs breach-free exactly when the enforcer accepts
that list; and the list is described in terms of the items consumed and the events delivered: the alias
observations are the alias items, the anchors are those of the raw node items (a replayed event is shown
without its anchor), and — anchors and tags erased — the node observations are the delivered events.
-/
namespace SaphyrVerif.Lemmas.E2EBudget
open SaphyrVerif SaphyrVerif.Scalars SaphyrVerif.Pump SaphyrVerif.Budget SaphyrVerif.De SaphyrVerif.Spec
open SaphyrVerif.Lemmas.CurSim (Quiet Run)
open SaphyrVerif.Lemmas.C02 (Steps)
open SaphyrVerif.Lemmas.C07 (defAfter defAfter_append defIns defIns_zero)

set_option linter.unusedSimpArgs false
set_option linter.unusedVariables false

/-! ### fields `next_impl` never changes -/

theorem serveInject_rip_sade (p : Pump) (fs : List InjectFrame) :
    (serveInject p fs).2.recursiveInProgress = p.recursiveInProgress ∧
      (serveInject p fs).2.stopAtDocEnd = p.stopAtDocEnd := by
  induction fs with
  | nil => exact ⟨rfl, rfl⟩
  | cons fr rest ih =>
    simp only [serveInject]
    repeat' split
    all_goals first
      | exact ih
      | exact ⟨rfl, rfl⟩

theorem parserLoop_rip_sade (p : Pump) (inp : List RawItem) :
    (parserLoop p inp).2.1.recursiveInProgress = p.recursiveInProgress ∧
      (parserLoop p inp).2.1.stopAtDocEnd = p.stopAtDocEnd := by
  fun_induction parserLoop p inp
  all_goals try (simp_all +zetaDelta [Pump.resetDocumentState]; done)
  case case6 =>
    simp +zetaDelta only
    split <;> exact ⟨rfl, rfl⟩
  case case18 =>
    rename_i p3 step p' hs ob hx
    have := serveInject_rip_sade p3 p3.inject
    rw [hs] at this
    simpa +zetaDelta using this
  case case19 =>
    rename_i p3 p' hs ob hx ih
    have := serveInject_rip_sade p3 p3.inject
    rw [hs] at this
    rw [ih.1, ih.2]
    simpa +zetaDelta using this

theorem nextImpl_rip_sade (p : Pump) (inp : List RawItem) :
    (nextImpl p inp).2.1.recursiveInProgress = p.recursiveInProgress ∧
      (nextImpl p inp).2.1.stopAtDocEnd = p.stopAtDocEnd := by
  unfold nextImpl
  have h1 := serveInject_rip_sade p p.inject
  rcases hs : serveInject p p.inject with ⟨_ | step, p'⟩
  · rw [hs] at h1
    have h2 := parserLoop_rip_sade p' inp
    exact ⟨h2.1.trans h1.1, h2.2.trans h1.2⟩
  · rw [hs] at h1
    exact h1

/-- what the shape lemma needs of a pump without enforcer -/
structure Plain0 (q : Pump) : Prop where
  bud : q.budget = none
  rip : q.recursiveInProgress = []
  sade : q.stopAtDocEnd = false

theorem Plain0.step {q : Pump} (h : Plain0 q) {inp : List RawItem} {s : Step} {q' : Pump} {rest : List RawItem}
    (hn : nextImpl q inp = (s, q', rest)) : Plain0 q' := by
  have h1 := CurSim.nextImpl_budget q inp h.bud
  have h2 := nextImpl_rip_sade q inp
  rw [hn] at h1 h2
  exact ⟨h1, h2.1.trans h.rip, h2.2.trans h.sade⟩

/-! ### runs with their observations -/

/-- `Steps` with the list of observations -/
inductive OSteps : Pump → List RawItem → List Ev → List Obs → Pump → List RawItem → Prop
  | refl (q : Pump) (inp : List RawItem) : OSteps q inp [] [] q inp
  | cons {q : Pump} {inp : List RawItem} {e : Ev} {q1 : Pump} {inp1 : List RawItem} {es : List Ev} {O : List Obs}
      {q2 : Pump} {inp2 : List RawItem} :
      nextImpl q inp = (.event e, q1, inp1) → OSteps q1 inp1 es O q2 inp2 →
      OSteps q inp (e :: es) (obsCall q inp ++ O) q2 inp2

theorem osteps_of_steps {q inp es q' rest} (h : Steps q inp es q' rest) : ∃ O, OSteps q inp es O q' rest := by
  induction h with
  | refl => exact ⟨[], OSteps.refl _ _⟩
  | cons hn _ ih =>
    obtain ⟨O, hO⟩ := ih
    exact ⟨_, OSteps.cons hn hO⟩

/-- breach-free steps of a budgeted pump -/
inductive BSteps : Pump → List RawItem → List Ev → Pump → List RawItem → Prop
  | refl (p : Pump) (inp : List RawItem) : BSteps p inp [] p inp
  | cons {p : Pump} {inp : List RawItem} {e : Ev} {p1 : Pump} {inp1 : List RawItem} {es : List Ev}
      {p2 : Pump} {inp2 : List RawItem} :
      nextImpl p inp = (.event e, p1, inp1) → BSteps p1 inp1 es p2 inp2 → BSteps p inp (e :: es) p2 inp2

theorem BSteps.brunTo {p inp es p1 inp1 pf} (h : BSteps p inp es p1 inp1) (hf : BRunTo p1 inp1 [] pf) :
    BRunTo p inp es pf := by
  induction h with
  | refl => exact hf
  | cons hn _ ih => exact BRunTo.ev hn (ih hf)

/-- if the enforcer accepts the observations of the steps, the budgeted pump makes the same steps -/
theorem bsteps_of_osteps {q inp es O q' rest} (h : OSteps q inp es O q' rest) :
    ∀ (b bf : Enf), q.budget = none → feedObs b O = .ok bf →
      BSteps (withBud q b) inp es (withBud q' bf) rest ∧ q'.budget = none := by
  induction h with
  | refl q inp =>
    intro b bf hq hf
    simp only [feedObs, Except.ok.injEq] at hf
    subst hf
    exact ⟨BSteps.refl _ _, hq⟩
  | @cons q inp e q1 inp1 es O q2 inp2 hn _ ih =>
    intro b bf hq hf
    rw [feedObs_append] at hf
    cases h1 : feedObs b (obsCall q inp) with
    | error br => rw [h1] at hf; cases hf
    | ok b1 =>
      rw [h1] at hf
      simp only at hf
      have ho := nextImpl_obs q inp hq b hn
      rw [h1] at ho
      have hq1 : q1.budget = none := by
        have := CurSim.nextImpl_budget q inp hq
        rw [hn] at this; exact this
      obtain ⟨hb, hq2⟩ := ih b1 bf hq1 hf
      exact ⟨BSteps.cons ho hb, hq2⟩

/-! ### projections of an observation list -/

/-- the events shown through `observe` -/
def rawsOf : List Obs → List Raw
  | [] => []
  | .raw r :: os => r :: rawsOf os
  | _ :: os => rawsOf os

/-- number of `observe_alias_to_be_replayed` calls -/
def nAl : List Obs → Nat
  | [] => 0
  | .aliasReplayed :: os => nAl os + 1
  | _ :: os => nAl os

/-- no `alias_occupies_position` call (recursion wrappers not in use) -/
def noOcc : List Obs → Bool
  | [] => true
  | .occupies :: _ => false
  | _ :: os => noOcc os

/-- an event without anchor and tag (what `observe_budget_for_replay` re-synthesises) -/
def erase : Raw → Raw
  | .scalar v st _ _ => .scalar v st 0 none
  | .seqStart _ _ => .seqStart 0 none
  | .mapStart _ _ => .mapStart 0 none
  | r => r

theorem rawsOf_append (a b : List Obs) : rawsOf (a ++ b) = rawsOf a ++ rawsOf b := by
  induction a with
  | nil => rfl
  | cons x xs ih => cases x <;> simp [rawsOf, ih]

theorem nAl_append (a b : List Obs) : nAl (a ++ b) = nAl a + nAl b := by
  induction a with
  | nil => simp [nAl]
  | cons x xs ih => cases x <;> simp [nAl, ih] <;> omega

theorem noOcc_append (a b : List Obs) : noOcc (a ++ b) = (noOcc a && noOcc b) := by
  induction a with
  | nil => simp [noOcc]
  | cons x xs ih => cases x <;> simp [noOcc, ih]

/-- alias items of a parser input -/
def nAliasItems : List RawItem → Nat
  | [] => 0
  | .ev (.alias _) _ :: rest => nAliasItems rest + 1
  | _ :: rest => nAliasItems rest

/-- the raw events of the non-alias items -/
def itemRaws : List RawItem → List Raw
  | [] => []
  | .ev (.alias _) _ :: rest => itemRaws rest
  | .ev r _ :: rest => r :: itemRaws rest
  | .err _ _ :: rest => itemRaws rest

/-- a node / end item or an alias item (what the items of a node consist of) -/
def nodeOrAlias : RawItem → Bool
  | .ev (.scalar ..) _ | .ev (.seqStart ..) _ | .ev .seqEnd _ | .ev (.mapStart ..) _ | .ev .mapEnd _
  | .ev (.alias _) _ => true
  | _ => false

theorem nAliasItems_append (a b : List RawItem) : nAliasItems (a ++ b) = nAliasItems a + nAliasItems b := by
  induction a with
  | nil => simp [nAliasItems]
  | cons x xs ih =>
    rcases x with ⟨r, l⟩ | ⟨u, l⟩
    · cases r <;> simp [nAliasItems, ih] <;> omega
    · simp [nAliasItems, ih]

theorem itemRaws_append (a b : List RawItem) : itemRaws (a ++ b) = itemRaws a ++ itemRaws b := by
  induction a with
  | nil => rfl
  | cons x xs ih =>
    rcases x with ⟨r, l⟩ | ⟨u, l⟩
    · cases r <;> simp [itemRaws, ih]
    · simp [itemRaws, ih]

theorem nAl_itemsObs (c : List RawItem) : nAl (itemsObs c) = nAliasItems c := by
  induction c with
  | nil => rfl
  | cons x xs ih =>
    rcases x with ⟨r, l⟩ | ⟨u, l⟩
    · cases r <;> simp [itemsObs, itemObs, obsItem, nAl, nAliasItems, ih, nAl_append] <;> omega
    · simp [itemsObs, itemObs, nAliasItems, ih]

theorem rawsOf_itemsObs (c : List RawItem) : rawsOf (itemsObs c) = itemRaws c := by
  induction c with
  | nil => rfl
  | cons x xs ih =>
    rcases x with ⟨r, l⟩ | ⟨u, l⟩
    · cases r <;> simp [itemsObs, itemObs, obsItem, rawsOf, itemRaws, ih, rawsOf_append]
    · simp [itemsObs, itemObs, itemRaws, ih]

theorem noOcc_itemsObs (c : List RawItem) : noOcc (itemsObs c) = true := by
  induction c with
  | nil => rfl
  | cons x xs ih =>
    rcases x with ⟨r, l⟩ | ⟨u, l⟩
    · cases r <;> simp [itemsObs, itemObs, obsItem, noOcc, ih, noOcc_append]
    · simp [itemsObs, itemObs, ih]

/-- items that are passed over and belong to a node are aliases: nothing of them is shown through `observe` -/
theorem itemRaws_skipped {c : List RawItem} (h1 : c.all skippable = true) (h2 : ∀ it ∈ c, nodeOrAlias it = true) :
    itemRaws c = [] := by
  induction c with
  | nil => rfl
  | cons x xs ih =>
    simp only [List.all_cons, Bool.and_eq_true] at h1
    have hx := h2 x (by simp)
    have := ih h1.2 (fun it hit => h2 it (by simp [hit]))
    rcases x with ⟨r, l⟩ | ⟨u, l⟩
    · cases r <;> simp_all [itemRaws, skippable, nodeOrAlias]
    · simp [nodeOrAlias] at hx

theorem erase_of_evOf {r : Raw} {l : Loc} {e : Ev} (h : evOf r l = some e) : erase r = replayRaw e := by
  cases r <;> simp [evOf] at h <;> subst h <;> rfl

theorem erase_replayRaw (e : Ev) : erase (replayRaw e) = replayRaw e := by cases e <;> rfl

theorem anchorOf_replayRaw (e : Ev) : anchorOf (replayRaw e) = 0 := by cases e <;> rfl

theorem evOf_not_alias {r : Raw} {l : Loc} {e : Ev} (h : evOf r l = some e) :
    itemRaws [.ev r l] = [r] ∧ nAliasItems [.ev r l] = 0 ∧ nodeOrAlias (.ev r l) = true := by
  cases r <;> simp [evOf] at h <;> simp [itemRaws, nAliasItems, nodeOrAlias]

theorem defAfter_snoc_zero (bs : List Nat) (xs : List Raw) (x : Raw) (h : anchorOf x = 0) :
    defAfter bs (xs ++ [x]) = defAfter bs xs := by
  rw [defAfter_append]
  simp [defAfter, h]

/-- the observations of one delivering call, in terms of the items it consumed and the event it delivered -/
theorem call_facts {rest : List RawItem} {s : Step} {c : List RawItem} {O : List Obs} (h : CallShape rest s c O)
    (e : Ev) (hs : s = .event e) (hrest : rest ≠ []) :
    nAl O = nAliasItems c ∧ noOcc O = true ∧
    (∀ bs, defAfter bs (rawsOf O) = defAfter bs (itemRaws c)) ∧
    ((∀ it ∈ c, nodeOrAlias it = true) → (rawsOf O).map erase = [replayRaw e]) := by
  cases h with
  | replay0 e' =>
    cases hs
    refine ⟨rfl, rfl, fun bs => ?_, fun _ => ?_⟩
    · simp [rawsOf, itemRaws, defAfter, anchorOf_replayRaw]
    · simp [rawsOf, erase_replayRaw]
  | loop hl =>
    cases hl with
    | raw skipped r l e' hsk he =>
      cases hs
      obtain ⟨h1, h2, h3⟩ := evOf_not_alias he
      refine ⟨?_, ?_, fun bs => ?_, fun hall => ?_⟩
      · simp [nAl_append, nAl_itemsObs, nAl, nAliasItems_append, h2]
      · simp [noOcc_append, noOcc_itemsObs, noOcc]
      · simp [rawsOf_append, rawsOf_itemsObs, rawsOf, itemRaws_append, h1]
      · have hsk0 := itemRaws_skipped hsk (fun it hit => hall it (by simp [hit]))
        simp [rawsOf_append, rawsOf_itemsObs, rawsOf, hsk0, erase_of_evOf he]
    | replay skipped id l e' hsk =>
      cases hs
      refine ⟨?_, ?_, fun bs => ?_, fun hall => ?_⟩
      · simp [nAl_append, nAl_itemsObs, nAl, nAliasItems_append, nAliasItems]
      · simp [noOcc_append, noOcc_itemsObs, noOcc]
      · have h1 : rawsOf (itemsObs skipped ++ [Obs.aliasReplayed, Obs.raw (replayRaw e)]) =
            itemRaws skipped ++ [replayRaw e] := by
          simp [rawsOf_append, rawsOf_itemsObs, rawsOf]
        have h2 : itemRaws (skipped ++ [RawItem.ev (Raw.alias id) l]) = itemRaws skipped := by
          simp [itemRaws_append, itemRaws]
        rw [h1, h2, defAfter_snoc_zero _ _ _ (anchorOf_replayRaw e)]
      · have hsk0 := itemRaws_skipped hsk (fun it hit => hall it (by simp [hit]))
        simp [rawsOf_append, rawsOf_itemsObs, rawsOf, hsk0, erase_replayRaw]
    | null _ e' hr => exact absurd hr hrest
    | eof _ hsk => cases hs
    | error er _ _ => cases hs

/-- the observations of a sequence of delivering calls, in terms of the items consumed and the events delivered -/
theorem osteps_facts {q inp es O q' rest} (h : OSteps q inp es O q' rest) (hp : Plain0 q) (hrest : rest ≠ []) :
    ∃ C, inp = C ++ rest ∧ nAl O = nAliasItems C ∧ noOcc O = true ∧
      (∀ bs, defAfter bs (rawsOf O) = defAfter bs (itemRaws C)) ∧
      ((∀ it ∈ C, nodeOrAlias it = true) → (rawsOf O).map erase = es.map replayRaw) ∧ Plain0 q' := by
  induction h with
  | refl q inp => exact ⟨[], rfl, rfl, rfl, fun _ => rfl, fun _ => rfl, hp⟩
  | @cons q inp e q1 inp1 es O q2 inp2 hn _ ih =>
    obtain ⟨C', hC', a1, a2, a3, a4, a5⟩ := ih (hp.step hn) hrest
    obtain ⟨c, hc, hsh⟩ := nextImpl_shape q inp hp.bud hp.rip hp.sade hn
    have hne : inp1 ≠ [] := by
      rw [hC']
      intro h0
      exact hrest (List.append_eq_nil_iff.mp h0).2
    obtain ⟨b1, b2, b3, b4⟩ := call_facts hsh e rfl hne
    refine ⟨c ++ C', by rw [hc, hC', List.append_assoc], ?_, ?_, fun bs => ?_, fun hall => ?_, a5⟩
    · rw [nAl_append, nAliasItems_append, a1, b1]
    · rw [noOcc_append, a2, b2]; rfl
    · rw [rawsOf_append, defAfter_append, b3, a3, itemRaws_append, defAfter_append]
    · rw [rawsOf_append, List.map_append, b4 (fun it hit => hall it (by simp [hit])),
        a4 (fun it hit => hall it (by simp [hit]))]
      rfl

end SaphyrVerif.Lemmas.E2EBudget
