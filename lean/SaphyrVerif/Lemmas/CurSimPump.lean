import SaphyrVerif.Lemmas.CurSim
import SaphyrVerif.Lemmas.C02_Doc
import SaphyrVerif.Lemmas.C08_Step
/-!
Cursor simulation, part 4: the live cursor.  A pump that delivers the events `es` through `next_impl`
and then reports end of input for good (`Run`) *serves* `es` in the sense of `Lemmas/CurSim.lean`, through
any interleaving of `peek` and `next` (the look-ahead slot and `last_location` are accounted for); the
pump over a single-document stream runs like this over the expansion of the document.
-/
namespace SaphyrVerif.Lemmas.CurSim
open SaphyrVerif SaphyrVerif.Scalars SaphyrVerif.Pump SaphyrVerif.De SaphyrVerif.Spec
open SaphyrVerif.Lemmas.C02 (Steps Good Post noFoldedIndent afterDocStart)

/-! ### `next_impl` never touches the look-ahead slot, and leaves `last_location` at the delivered event -/

theorem serveInject_look (p : Pump) (fs : List InjectFrame) : (serveInject p fs).2.look = p.look := by
  induction fs with
  | nil => rfl
  | cons fr rest ih =>
    simp only [serveInject]
    repeat' split
    all_goals first
      | exact ih
      | rfl

theorem parserLoop_look (p : Pump) (inp : List RawItem) : (parserLoop p inp).2.1.look = p.look := by
  fun_induction parserLoop p inp
  all_goals try (simp_all +zetaDelta [Pump.resetDocumentState]; done)
  case case6 =>
    simp +zetaDelta only
    split <;> rfl
  case case18 =>
    rename_i p3 step p' hs ob hx
    have := serveInject_look p3 p3.inject
    rw [hs] at this
    simpa +zetaDelta using this
  case case19 =>
    rename_i p3 p' hs ob hx ih
    rw [ih]
    have := serveInject_look p3 p3.inject
    rw [hs] at this
    simpa +zetaDelta using this

theorem nextImpl_look (p : Pump) (inp : List RawItem) : (nextImpl p inp).2.1.look = p.look := by
  unfold nextImpl
  have h1 := serveInject_look p p.inject
  rcases hs : serveInject p p.inject with ⟨_ | step, p'⟩
  · rw [hs] at h1
    simp only
    rw [parserLoop_look, h1]
  · rw [hs] at h1
    exact h1

/-! ### without a budget enforcer `next_impl` never installs one -/

theorem serveInject_budget (p : Pump) (fs : List InjectFrame) (h : p.budget = none) :
    (serveInject p fs).2.budget = none := by
  induction fs with
  | nil => exact h
  | cons fr rest ih =>
    simp only [serveInject]
    repeat' split
    all_goals first
      | exact ih
      | exact h
      | simp_all

theorem parserLoop_budget (p : Pump) (inp : List RawItem) (h : p.budget = none) :
    (parserLoop p inp).2.1.budget = none := by
  fun_induction parserLoop p inp
  all_goals try (simp_all +zetaDelta [Pump.resetDocumentState]; done)
  case case6 =>
    simp_all +zetaDelta only
    split <;> simp_all
  case case15 =>
    rename_i ob hx
    have hb : ob = .ok none := by simp +zetaDelta [h]
    rw [hb] at hx
    cases hx
    simp +zetaDelta
  case case18 =>
    rename_i p3 step p' hs ob hx
    have := serveInject_budget p3 p3.inject (by simp_all +zetaDelta)
    rw [hs] at this
    simpa +zetaDelta using this
  case case19 =>
    rename_i p3 p' hs ob hx ih
    apply ih
    have := serveInject_budget p3 p3.inject (by simp_all +zetaDelta)
    rw [hs] at this
    simpa +zetaDelta using this

theorem nextImpl_budget (p : Pump) (inp : List RawItem) (h : p.budget = none) :
    (nextImpl p inp).2.1.budget = none := by
  unfold nextImpl
  have h1 := serveInject_budget p p.inject h
  rcases hs : serveInject p p.inject with ⟨_ | step, p'⟩
  · rw [hs] at h1
    exact parserLoop_budget p' inp h1
  · rw [hs] at h1
    exact h1

theorem Skip1.look {p q : Pump} (h : C08.Skip1 p q) : q.look = p.look := by
  cases h <;> rfl

theorem nextImpl_event_lastLoc {p : Pump} {inp : List RawItem} {e : Ev} {p' : Pump} {rest : List RawItem}
    (h : nextImpl p inp = (.event e, p', rest)) : p'.lastLoc = e.loc := by
  obtain ⟨q, -, hq⟩ := C08.nextImpl_event p inp e p' rest h
  rcases hq with ⟨⟨-, -, rfl, rfl⟩, -⟩ | hd
  · rfl
  · cases hd <;> rfl

/-! ### runs -/

/-- end of input for good: the look-ahead slot is empty and `next_impl` answers end of input without
changing anything -/
def Quiet (p : Pump) (inp : List RawItem) : Prop := p.look = none ∧ nextImpl p inp = (.eof, p, inp)

theorem finishCur_live {p : Pump} (inp : List RawItem) (h : p.budget = none) :
    Entry.finishCur (.live p inp) = none := by
  simp [Entry.finishCur, Pump.finish, h]

/-- `Run p inp es`: `next_impl` delivers exactly the events `es`, one per call and without error, then end
of input, after which the pump is quiet -/
inductive Run : Pump → List RawItem → List Ev → Prop
  | eof {p : Pump} {inp : List RawItem} {p' : Pump} {inp' : List RawItem} :
      nextImpl p inp = (.eof, p', inp') → Quiet p' inp' → Run p inp []
  | ev {p : Pump} {inp : List RawItem} {e : Ev} {p' : Pump} {inp' : List RawItem} {es : List Ev} :
      nextImpl p inp = (.event e, p', inp') → Run p' inp' es → Run p inp (e :: es)

theorem Run.of_steps {p inp es p1 inp1} (h : Steps p inp es p1 inp1) (hr : Run p1 inp1 []) : Run p inp es := by
  induction h with
  | refl => exact hr
  | cons hn _ ih => exact Run.ev hn (ih hr)

/-- a run only depends on the result of the first `next_impl` call -/
theorem Run.of_eq {p inp q inq es} (h : nextImpl p inp = nextImpl q inq) (hr : Run q inq es) : Run p inp es := by
  cases hr with
  | eof hn hq => exact Run.eof (h.trans hn) hq
  | ev hn hr => exact Run.ev (h.trans hn) hr

theorem Steps.look {p inp es p1 inp1} (h : Steps p inp es p1 inp1) : p1.look = p.look := by
  induction h with
  | refl => rfl
  | @cons p inp e p1 inp1 es p2 inp2 hn _ ih =>
    rw [ih]
    have := nextImpl_look p inp
    rw [hn] at this
    exact this

theorem pump_eta_look {q : Pump} {e : Ev} (h1 : q.look = none) (h2 : q.lastLoc = e.loc) :
    ({ ({ q with look := some e } : Pump) with look := none, lastLoc := e.loc } : Pump) = q := by
  cases q
  simp_all

theorem pump_eta_lastLoc {q : Pump} {l : Loc} (h2 : q.lastLoc = l) : ({ q with lastLoc := l } : Pump) = q := by
  cases q
  simp_all

/-- the invariant of a live cursor that serves `l`: either the look-ahead slot is empty and the pump runs
over `l`, or it holds the head of `l` (put there by `peek`) and the pump runs over the tail -/
def LiveInv (d : Cur) (l : List Ev) : Prop :=
  ∃ q inq, d = .live q inq ∧ q.budget = none ∧
    ((q.look = none ∧ Run q inq l) ∨
     (∃ e l' q0, l = e :: l' ∧ q0.look = none ∧ q0.lastLoc = e.loc ∧ q = { q0 with look := some e } ∧ Run q0 inq l'))

theorem liveInv_serves : ServesInv LiveInv := by
  rintro d l ⟨q, inq, rfl, hb, h⟩
  refine ⟨finishCur_live inq hb, ?_⟩
  rcases h with ⟨hl, hr⟩ | ⟨e, l', q0, rfl, hl0, hloc, rfl, hr⟩
  · cases hr with
    | @eof _ _ q' inq' hn hq =>
      have hb' : q'.budget = none := by
        have := nextImpl_budget q inq hb
        rw [hn] at this; exact this
      have hA : LiveInv (.live q' inq') [] := ⟨q', inq', rfl, hb', .inl ⟨hq.1, Run.eof hq.2 hq⟩⟩
      constructor
      · exact ⟨.live q' inq', by simp [Cur.peek, Pump.peek, hl, hn], hA⟩
      · exact ⟨.live q' inq', by simp [Cur.next, Pump.next, hl, hn], hA⟩
    | @ev _ _ e q' inq' es hn hr' =>
      have hb' : q'.budget = none := by
        have := nextImpl_budget q inq hb
        rw [hn] at this; exact this
      have hl' : q'.look = none := by
        have := nextImpl_look q inq
        rw [hn] at this
        rw [← hl]; exact this
      have hloc := nextImpl_event_lastLoc hn
      constructor
      · refine ⟨.live { q' with look := some e, lastLoc := e.loc } inq',
          by simp [Cur.peek, Pump.peek, hl, hn], _, _, rfl, hb', .inr ⟨e, es, q', rfl, hl', hloc, ?_, hr'⟩⟩
        cases q'
        simp_all
      · exact ⟨.live q' inq', by simp [Cur.next, Pump.next, hl, hn], q', inq', rfl, hb', .inl ⟨hl', hr'⟩⟩
  · have hb0 : q0.budget = none := hb
    constructor
    · refine ⟨.live { ({ q0 with look := some e } : Pump) with lastLoc := e.loc } inq,
        by simp [Cur.peek, Pump.peek], _, _, rfl, hb0, .inr ⟨e, l', q0, rfl, hl0, hloc, ?_, hr⟩⟩
      cases q0
      simp_all
    · refine ⟨.live q0 inq, ?_, q0, inq, rfl, hb0, .inl ⟨hl0, hr⟩⟩
      simp only [Cur.next, Pump.next]
      rw [pump_eta_look hl0 hloc]
      rfl

/-- a pump with an empty look-ahead slot and no budget enforcer that runs over `es` serves `es` -/
theorem serves_live {p : Pump} {inp : List RawItem} {es : List Ev} (hl : p.look = none) (hb : p.budget = none)
    (hr : Run p inp es) : Serves (.live p inp) es :=
  ⟨LiveInv, liveInv_serves, p, inp, rfl, hb, .inl ⟨hl, hr⟩⟩

/-- the live cursor and the replay cursor over the delivered events are related -/
theorem sim_live_replay {p : Pump} {inp : List RawItem} {es : List Ev} (hl : p.look = none) (hb : p.budget = none)
    (hr : Run p inp es) (ref : Option Loc) : Sim (.live p inp) (.replay es 0 ref) :=
  ⟨es, serves_live hl hb hr, by simpa using serves_replay es 0 ref⟩

/-! ### the single-document stream -/

/-- (composition with C02) over a single-document stream whose expansion exists and stays within the alias
limits, the pump runs exactly over the expansion -/
theorem run_docStream (L : AliasLimits) (t : LNode) (l0 l1 l2 l3 : Loc) (r : Exp)
    (hnf : noFoldedIndent t = true)
    (hexp : expand [] [] t = .ok r)
    (hL1 : 1 ≤ L.maxReplayStackDepth)
    (hL2 : r.replayed ≤ L.maxTotalReplayedEvents)
    (hL3 : ∀ id, aliasCount id t ≤ L.maxAliasExpansionsPerAnchor) :
    Run { limits := L } (docStream t l0 l1 l2 l3) r.evs := by
  have hg := C02.good_afterDocStart L l1
  have h := C02.pump_node t (afterDocStart L l1) hg [.ev .docEnd l2, .ev .streamEnd l3]
  have heq : nextImpl { limits := L } (docStream t l0 l1 l2 l3) =
      nextImpl (afterDocStart L l1) (itemsOf t ++ [.ev .docEnd l2, .ev .streamEnd l3]) := by
    unfold docStream
    exact C02.doc_start L l0 l1 _
  change C02.Outcome _ _ _ _ _ (expand [] [] t) at h
  rw [hexp] at h
  simp only [C02.Outcome] at h
  rcases h with ⟨p1, hs, hpost⟩ | hb
  · apply Run.of_eq heq
    apply Run.of_steps hs
    have hl1 : p1.look = none := by rw [Steps.look hs]; rfl
    have hne : r.evs ≠ [] := by
      intro he
      rw [he] at hs
      have hinv := C02.Steps.nil_inv hs
      have hlen := congrArg List.length hinv.2
      cases t <;> simp [itemsOf] at hlen
    have hpa : p1.producedAny = true := hpost.prod (Or.inr hne)
    have hsd : p1.stopAtDocEnd = false := by rw [hpost.sade]; rfl
    have hn : nextImpl p1 [.ev .docEnd l2, .ev .streamEnd l3] =
        (.eof, { (C02.clr p1).resetDocumentState with seenDocEnd := true, lastLoc := l3 }, []) := by
      rw [C02.nextImpl_good hpost.good]
      simp [parserLoop, hpost.good.bud, Pump.resetDocumentState, C02.clr, hsd, hpa]
    refine Run.eof hn ⟨?_, ?_⟩
    · simpa [Pump.resetDocumentState, C02.clr] using hl1
    · simp [nextImpl, serveInject, parserLoop, Pump.resetDocumentState, C02.clr, hpa]
  · exfalso
    rcases hb with ⟨es, err, p', -, -, -, hx⟩ | ⟨hf, -⟩
    · rcases hx with hx | hx | ⟨id, hx⟩
      · simp only [afterDocStart] at hx; omega
      · simp only [afterDocStart] at hx; omega
      · have := hL3 id
        simp only [afterDocStart, lookupCount, List.find?_nil] at hx
        omega
    · rw [hnf] at hf; cases hf

end SaphyrVerif.Lemmas.CurSim
