import SaphyrVerif.Lemmas.C19Literal
/-!
C19: decimal number tokens with digit separators (`Spec.Robotics.NumTok`): the token scanner consumes
exactly the token and yields the value of the same number written without separators.
-/
set_option linter.unusedSimpArgs false
namespace SaphyrVerif.Lemmas.C19L
open SaphyrVerif SaphyrVerif.F64 SaphyrVerif.Robotics SaphyrVerif.Spec.Robotics SaphyrVerif.Lemmas.C19

/-- a digit run is consumed and the loop goes on behind it -/
theorem numLoop_run (eU : RErr) (ds rest pre : List Nat) (k seen : Nat) (bufR : List Nat) (hv : Bool)
    (hd : Digits ds) (hcap : seen + ds.length ≤ MAX_NUM_DIGITS) :
    numLoop eU pre (ds ++ rest) k seen bufR hv =
      numLoop eU (ds.reverse ++ pre) rest (k + ds.length) (seen + ds.length) (ds.reverse ++ bufR) (hv || !ds.isEmpty) := by
  induction ds generalizing pre k seen bufR hv with
  | nil => simp
  | cons d ds ih =>
    have hdd : isDigit d = true := hd d (List.mem_cons_self)
    have hlen : seen + 1 + ds.length ≤ MAX_NUM_DIGITS := by simp only [List.length_cons] at hcap; omega
    have hnot : ¬ MAX_NUM_DIGITS < seen + 1 := by omega
    simp only [List.cons_append, numLoop, hdd, ↓reduceIte, hnot]
    rw [ih (d :: pre) (k + 1) (seen + 1) (d :: bufR) true hd.tail hlen]
    simp only [List.reverse_cons, List.append_assoc, List.singleton_append, List.length_cons, Bool.true_or,
      List.isEmpty_cons, Bool.not_false, Bool.or_true]
    congr 1 <;> omega

theorem groups_digits_cons (g : List Nat) (gs : Groups) : Groups.digits (g :: gs) = g ++ Groups.digits gs := by
  simp [Groups.digits]

theorem groups_wf_tail {g : List Nat} {gs : Groups} (h : Groups.WF (g :: gs)) : Groups.WF gs :=
  fun x hx => h x (List.mem_cons_of_mem _ hx)

theorem groups_render_head {g : List Nat} {gs : Groups} (h : Groups.WF (g :: gs)) (rest : List Nat) :
    ∃ d r, Groups.render (g :: gs) ++ rest = d :: r ∧ isDigit d = true := by
  obtain ⟨hne, hdig⟩ := h g (List.mem_cons_self)
  cases g with
  | nil => exact absurd rfl hne
  | cons d r =>
    have hd := hdig d (List.mem_cons_self)
    cases gs with
    | nil => exact ⟨d, r ++ rest, by simp [Groups.render], hd⟩
    | cons g' gs' => exact ⟨d, r ++ 95 :: (Groups.render (g' :: gs') ++ rest), by simp [Groups.render], hd⟩

theorem numLoop_groups (eU : RErr) (gs : Groups) (rest pre : List Nat) (k seen : Nat) (bufR : List Nat) (hv : Bool)
    (hg : gs.WF) (hs : Stops rest) (hcap : seen + gs.digits.length ≤ MAX_NUM_DIGITS) :
    ∃ pre', numLoop eU pre (gs.render ++ rest) k seen bufR hv =
      .ok ⟨pre', rest, seen + gs.digits.length, gs.digits.reverse ++ bufR, hv || !gs.isEmpty⟩ := by
  induction gs generalizing pre k seen bufR hv with
  | nil =>
    have := numLoop_digits eU [] rest pre k seen bufR hv (by intro c hc; cases hc) hs (by simpa [Groups.digits] using hcap)
    exact ⟨pre, by simpa [Groups.render, Groups.digits] using this⟩
  | cons g gs ih =>
    obtain ⟨hne, hdig⟩ := hg g (List.mem_cons_self)
    rw [groups_digits_cons] at hcap ⊢
    simp only [List.length_append] at hcap
    cases gs with
    | nil =>
      have := numLoop_digits eU g rest pre k seen bufR hv hdig hs (by simp [Groups.digits] at hcap; omega)
      refine ⟨g.reverse ++ pre, ?_⟩
      simp only [Groups.render, Groups.digits, List.flatten_nil, List.append_nil, List.isEmpty_cons, Bool.not_false,
        Bool.or_true]
      rw [this]
      have : g.isEmpty = false := by cases g <;> simp_all
      simp [this]
    | cons g' gs' =>
      simp only [Groups.render, List.append_assoc, List.cons_append]
      rw [numLoop_run eU g _ pre k seen bufR hv hdig (by omega)]
      -- the underscore: previous byte is the last digit of `g`, next byte the first digit of `g'`
      obtain ⟨d', r', hhead, hd'⟩ := groups_render_head (groups_wf_tail hg) rest
      have hprev : prevIsDigit (g.reverse ++ pre) (k + g.length) = .ok true := by
        cases hg' : g.reverse with
        | nil => simp at hg'; exact absurd hg' hne
        | cons l r =>
          have hl : l ∈ g := by
            have : l ∈ g.reverse := by rw [hg']; exact List.mem_cons_self
            exact List.mem_reverse.mp this
          have hlen : k + g.length ≠ 0 := by
            cases g with
            | nil => exact absurd rfl hne
            | cons _ _ => simp
          have : (k + g.length == 0) = false := by simpa using hlen
          simp [prevIsDigit, this, hdig l hl]
      have h95 : isDigit 95 = false := by decide
      unfold numLoop
      simp only [h95, Bool.false_eq_true, ↓reduceIte, beq_self_eq_true, hprev]
      rw [hhead]
      have hcap2 : ¬ MAX_NUM_DIGITS < seen + g.length := by omega
      simp only [nextIsDigit, hd', Bool.not_true, Bool.or_self, Bool.false_eq_true, ↓reduceIte, hcap2]
      rw [← hhead]
      obtain ⟨pre', hih⟩ := ih (95 :: (g.reverse ++ pre)) (k + g.length + 1) (seen + g.length) (g.reverse ++ bufR)
        (hv || !g.isEmpty) (groups_wf_tail hg) (by omega)
      refine ⟨pre', ?_⟩
      rw [hih]
      simp [Nat.add_assoc]

theorem sexaLook_run (ds rest : List Nat) (sd lu : Bool) (hd : Digits ds) :
    sexaLook (ds ++ rest) sd lu = if ds.isEmpty then sexaLook rest sd lu else sexaLook rest true false := by
  induction ds generalizing sd lu with
  | nil => simp
  | cons d ds ih =>
    have hdd : isDigit d = true := hd d (List.mem_cons_self)
    simp only [List.cons_append, sexaLook, hdd, ↓reduceIte, List.isEmpty_cons, Bool.false_eq_true]
    rw [ih true false hd.tail]
    split <;> rfl

theorem sexaLook_groups (gs : Groups) (rest : List Nat) (hg : gs.WF) (hne : gs ≠ []) (hs : Stops rest) (sd : Bool) :
    sexaLook (gs.render ++ rest) sd false = (true, false, rest.head?) := by
  induction gs generalizing sd with
  | nil => exact absurd rfl hne
  | cons g gs ih =>
    obtain ⟨hgne, hdig⟩ := hg g (List.mem_cons_self)
    have hge : g.isEmpty = false := by cases g <;> simp_all
    cases gs with
    | nil =>
      simp only [Groups.render]
      rw [sexaLook_run g rest sd false hdig]
      simp only [hge, Bool.false_eq_true, ↓reduceIte]
      have := sexaLook_digits [] rest true false (by intro c hc; cases hc) hs
      simpa using this
    | cons g' gs' =>
      simp only [Groups.render, List.append_assoc, List.cons_append]
      rw [sexaLook_run g _ sd false hdig]
      simp only [hge, Bool.false_eq_true, ↓reduceIte]
      have h95 : isDigit 95 = false := by decide
      obtain ⟨d', r', hhead, hd'⟩ := groups_render_head (groups_wf_tail hg) rest
      unfold sexaLook
      simp only [h95, Bool.false_eq_true, ↓reduceIte, beq_self_eq_true, Bool.not_true, Bool.or_self]
      rw [hhead]
      simp only [sexaLook, hd', ↓reduceIte]
      have := ih (groups_wf_tail hg) (by simp) true
      rw [hhead] at this
      simp only [sexaLook, hd', ↓reduceIte] at this
      exact this

/-! ## the parts of a number token -/

def fracR (t : NumTok) : List Nat := match t.frac with | none => [] | some g => 46 :: g.render
def expR (t : NumTok) : List Nat :=
  match t.exp with
  | none => []
  | some (up, sg, g) => (if up then 69 else 101) :: (signBytes sg ++ g.render)

theorem render_eq (t : NumTok) : t.render = t.ip.render ++ (fracR t ++ expR t) := by
  obtain ⟨ip, frac, exp⟩ := t
  cases frac <;> cases exp <;> simp [NumTok.render, fracR, expR]

theorem stopsToken_stops {k : List Nat} (h : StopsToken k) : Stops k :=
  fun c r hc => ⟨(h c r hc).1, (h c r hc).2.1⟩

theorem expR_head (t : NumTok) : expR t = [] ∨ ∃ c r, expR t = c :: r ∧ (c = 69 ∨ c = 101) := by
  unfold expR
  split
  · exact Or.inl rfl
  · rename_i up sg g _
    exact Or.inr ⟨_, _, rfl, by cases up <;> simp⟩

/-- what follows the exponent part does not look like an exponent, a fraction, a digit or a colon -/
theorem stops_expR_k (t : NumTok) {k : List Nat} (hk : StopsToken k) :
    ∀ c r, expR t ++ k = c :: r → isDigit c = false ∧ c ≠ 95 ∧ c ≠ 46 ∧ c ≠ 58 := by
  intro c r h
  rcases expR_head t with he | ⟨c', r', he, hc'⟩
  · rw [he, List.nil_append] at h
    obtain ⟨h1, h2, h3, h4, _⟩ := hk c r h
    exact ⟨h1, h2, h3, h4⟩
  · rw [he] at h
    cases h
    rcases hc' with h | h <;> (subst h; decide)

theorem stops_fracR (t : NumTok) {k : List Nat} (hk : StopsToken k) :
    ∀ c r, fracR t ++ (expR t ++ k) = c :: r → isDigit c = false ∧ c ≠ 95 ∧ c ≠ 58 := by
  intro c r h
  unfold fracR at h
  split at h
  · rw [List.nil_append] at h
    obtain ⟨h1, h2, _, h4⟩ := stops_expR_k t hk c r h
    exact ⟨h1, h2, h4⟩
  · cases h; decide

theorem numFrac_tok (t : NumTok) (hwf : t.WF) (k : List Nat) (hk : StopsToken k) (n1 : NumSt)
    (h : n1.rest = fracR t ++ (expR t ++ k))
    (hcap : n1.seen + t.plain.fracDigits.length ≤ MAX_NUM_DIGITS) :
    ∃ n2, numFrac n1 = .ok n2 ∧ n2.rest = expR t ++ k ∧ n2.seen = n1.seen + t.plain.fracDigits.length ∧
      n2.bufR = t.plain.fracBytes.reverse ++ n1.bufR := by
  unfold fracR at h
  unfold numFrac
  cases hf : t.frac with
  | none =>
    rw [hf] at h
    simp only [List.nil_append] at h
    have hp : t.plain.fracDigits = [] ∧ t.plain.fracBytes = [] := by
      simp [NumTok.plain, PlainLit.fracDigits, PlainLit.fracBytes, hf]
    refine ⟨n1, ?_, h, by rw [hp.1]; rfl, by rw [hp.2]; rfl⟩
    rw [h]
    cases hek : expR t ++ k with
    | nil => rfl
    | cons c r =>
      have := (stops_expR_k t hk c r hek).2.2.1
      split
      · rename_i r' heq; cases heq; exact absurd rfl this
      · rfl
  | some g =>
    rw [hf] at h
    have hp : t.plain.fracDigits = g.digits ∧ t.plain.fracBytes = 46 :: g.digits := by
      simp [NumTok.plain, PlainLit.fracDigits, PlainLit.fracBytes, hf]
    rw [h]
    simp only [List.cons_append]
    have hst : Stops (expR t ++ k) := fun c r hc => ⟨(stops_expR_k t hk c r hc).1, (stops_expR_k t hk c r hc).2.1⟩
    obtain ⟨pre', hn⟩ := numLoop_groups RErr.underscoreFraction g (expR t ++ k) (46 :: n1.pre) 0 n1.seen (46 :: n1.bufR) false
      (hwf.fp g hf) hst (by rw [← hp.1]; exact hcap)
    rw [hn]
    exact ⟨_, rfl, rfl, by rw [hp.1], by rw [hp.2]; simp⟩

theorem numExp_tok (t : NumTok) (hwf : t.WF) (k : List Nat) (hk : StopsToken k) (n2 : NumSt)
    (h : n2.rest = expR t ++ k)
    (hcap : n2.seen + t.plain.expDigits.length ≤ MAX_NUM_DIGITS) :
    ∃ n3, numExp n2 = .ok n3 ∧ n3.rest = k ∧ n3.bufR = t.plain.expBytes.reverse ++ n2.bufR := by
  unfold expR at h
  unfold numExp
  cases he : t.exp with
  | none =>
    rw [he] at h
    simp only [List.nil_append] at h
    have hp : t.plain.expBytes = [] := by simp [NumTok.plain, PlainLit.expBytes, he]
    refine ⟨n2, ?_, h, by rw [hp]; rfl⟩
    rw [h]
    cases hkk : k with
    | nil => rfl
    | cons c r =>
      obtain ⟨_, _, _, _, h5, h6⟩ := hk c r hkk
      have : (c == 101 || c == 69) = false := by simp [h5, h6]
      simp [this]
  | some x =>
    obtain ⟨up, sg, g⟩ := x
    rw [he] at h
    have hpe : t.plain.exp = some (up, sg, g.digits) := by simp [NumTok.plain, he]
    have hds : t.plain.expDigits = g.digits := by simp [PlainLit.expDigits, hpe]
    have hpb : t.plain.expBytes = (if up then 69 else 101) :: (signBytes sg ++ g.digits) := by
      simp [PlainLit.expBytes, hpe]
    have hgwf : g.WF := hwf.ed up sg g he
    have hdne : g.digits ≠ [] := by rw [← hds]; exact hwf.plain.expNonempty (by simp [hpe])
    have hgne : g ≠ [] := by intro hg; rw [hg] at hdne; exact hdne rfl
    rw [hds] at hcap
    have h' : n2.rest = (if up = true then 69 else 101) :: (signBytes sg ++ (g.render ++ k)) := by
      rw [h]; simp
    rw [h']
    have hc : ((if up = true then 69 else 101) == 101 || (if up = true then 69 else 101) == 69) = true := by
      cases up <;> rfl
    simp only [hc, ↓reduceIte]
    obtain ⟨g0, gs0, hg0⟩ : ∃ g0 gs0, g = g0 :: gs0 := by
      cases g with
      | nil => exact absurd rfl hgne
      | cons a b => exact ⟨a, b, rfl⟩
    obtain ⟨d', r', hhead, hd'⟩ := groups_render_head (g := g0) (gs := gs0) (by rw [← hg0]; exact hgwf) k
    rw [← hg0] at hhead
    have hem : (expMarker (if up = true then 69 else 101) n2.pre (signBytes sg ++ (g.render ++ k)) n2.bufR).2 =
        (g.render ++ k, (signBytes sg).reverse ++ (if up = true then 69 else 101) :: n2.bufR) := by
      cases sg with
      | none =>
        simp only [signBytes, List.nil_append]
        rw [hhead]
        have h1 : (d' == 43 || d' == 45) = false := by
          simp only [isDigit, Bool.and_eq_true, decide_eq_true_eq] at hd'
          simp only [Bool.or_eq_false_iff, beq_eq_false_iff_ne, ne_eq]
          omega
        simp [expMarker, h1]
      | some b => cases b <;> simp [expMarker, signBytes]
    generalize expMarker (if up = true then 69 else 101) n2.pre (signBytes sg ++ (g.render ++ k)) n2.bufR = em at hem ⊢
    obtain ⟨p', r'', b'⟩ := em
    simp only [Prod.mk.injEq] at hem
    obtain ⟨hr', hb'⟩ := hem
    simp only [hr', hb']
    obtain ⟨pre', hn⟩ := numLoop_groups RErr.underscoreExponent g k p' 0 n2.seen
      ((signBytes sg).reverse ++ (if up = true then 69 else 101) :: n2.bufR) false hgwf (stopsToken_stops hk) hcap
    rw [hn]
    have hemp : g.isEmpty = false := by rw [hg0]; rfl
    simp only [hemp, Bool.not_false, Bool.or_true, Bool.not_true, Bool.false_eq_true, ↓reduceIte]
    refine ⟨_, rfl, rfl, ?_⟩
    rw [hpb]
    simp


theorem groups_render_bytes (gs : Groups) (hg : gs.WF) : ∀ c ∈ gs.render, isDigit c = true ∨ c = 95 := by
  induction gs with
  | nil => intro c hc; cases hc
  | cons g gs ih =>
    obtain ⟨_, hdig⟩ := hg g (List.mem_cons_self)
    cases gs with
    | nil => intro c hc; exact Or.inl (hdig c hc)
    | cons g' gs' =>
      intro c hc
      simp only [Groups.render, List.mem_append, List.mem_cons] at hc
      rcases hc with h | h | h
      · exact Or.inl (hdig c h)
      · exact Or.inr h
      · exact ih (groups_wf_tail hg) c h

theorem tok_render_ascii (t : NumTok) (hwf : t.WF) : ∀ c ∈ t.render, c < 128 := by
  have hgb : ∀ (gs : Groups), gs.WF → ∀ c ∈ gs.render, c < 128 := by
    intro gs hg c hc
    rcases groups_render_bytes gs hg c hc with h | h
    · simp only [isDigit, Bool.and_eq_true, decide_eq_true_eq] at h; omega
    · omega
  intro c hc
  rw [render_eq] at hc
  simp only [List.mem_append] at hc
  rcases hc with h | h | h
  · exact hgb _ hwf.ip c h
  · unfold fracR at h
    cases hf : t.frac with
    | none => rw [hf] at h; cases h
    | some g =>
      rw [hf] at h
      cases h with
      | head => decide
      | tail _ h => exact hgb g (hwf.fp g hf) c h
  · unfold expR at h
    cases he : t.exp with
    | none => rw [he] at h; cases h
    | some x =>
      obtain ⟨up, sg, g⟩ := x
      rw [he] at h
      simp only [List.mem_cons, List.mem_append] at h
      rcases h with h | h | h
      · subst h; cases up <;> decide
      · have := allowed_lt c (allowed_signBytes sg c h); exact this
      · exact hgb g (hwf.ed up sg g he) c h

/-- first byte of a token: a digit, or '.' followed by a digit -/
theorem tok_head (t : NumTok) (hwf : t.WF) (k : List Nat) :
    ∃ c r, t.render ++ k = c :: r ∧ (isDigit c = true ∨ (c = 46 ∧ ∃ d r', r = d :: r' ∧ isDigit d = true)) := by
  rw [render_eq]
  cases hip : t.ip with
  | cons g gs =>
    obtain ⟨d, r, hh, hd⟩ := groups_render_head (g := g) (gs := gs) (by rw [← hip]; exact hwf.ip) (fracR t ++ expR t ++ k)
    exact ⟨d, r, by simpa using hh, Or.inl hd⟩
  | nil =>
    have hm := hwf.plain.mant
    have hpi : t.plain.ip = [] := by simp [NumTok.plain, hip, Groups.digits]
    rw [hpi] at hm
    simp only [List.length_nil, Nat.zero_add] at hm
    cases hf : t.frac with
    | none =>
      have : t.plain.fracDigits = [] := by simp [NumTok.plain, PlainLit.fracDigits, hf]
      rw [this] at hm; exact absurd rfl hm
    | some g =>
      have hfd : t.plain.fracDigits = g.digits := by simp [NumTok.plain, PlainLit.fracDigits, hf]
      rw [hfd] at hm
      cases g with
      | nil => exact absurd rfl hm
      | cons g0 gs0 =>
        obtain ⟨d, r, hh, hd⟩ := groups_render_head (g := g0) (gs := gs0) (hwf.fp _ hf) (expR t ++ k)
        refine ⟨46, d :: r, ?_, Or.inr ⟨rfl, d, r, rfl, hd⟩⟩
        simp only [Groups.render, List.nil_append, fracR, hf, List.cons_append, List.append_assoc]
        rw [← hh]

theorem trySexagesimal_tok (tag : Nat) (t : NumTok) (hwf : t.WF) (k : List Nat) (hk : StopsToken k)
    (pre : List Nat) (d : Nat) (tm : Bool) :
    trySexagesimal tag ⟨pre, t.render ++ k, d, tm⟩ = .ok none := by
  have hb : t.render ++ k = t.ip.render ++ (fracR t ++ (expR t ++ k)) := by rw [render_eq]; simp
  have hst : Stops (fracR t ++ (expR t ++ k)) := fun c r hc => ⟨(stops_fracR t hk c r hc).1, (stops_fracR t hk c r hc).2.1⟩
  have hcolon : ((fracR t ++ (expR t ++ k)).head? != some 58) = true := by
    cases hh : fracR t ++ (expR t ++ k) with
    | nil => rfl
    | cons c r =>
      have := (stops_fracR t hk c r hh).2.2
      simp [this]
  have hlook : ∃ b, sexaLook (t.render ++ k) false false = (b, false, (fracR t ++ (expR t ++ k)).head?) := by
    rw [hb]
    cases hip : t.ip with
    | nil =>
      have := sexaLook_digits [] (fracR t ++ (expR t ++ k)) false false (by intro c hc; cases hc) hst
      exact ⟨false, by simpa [Groups.render] using this⟩
    | cons g gs =>
      exact ⟨true, by rw [← hip]; exact sexaLook_groups t.ip _ hwf.ip (by rw [hip]; simp) hst false⟩
  obtain ⟨b, hlook⟩ := hlook
  unfold trySexagesimal
  simp only [hlook, hcolon, Bool.or_false, ↓reduceIte, ite_self]

/-- (T) a decimal number token with separators, followed by `k`: the scanner consumes exactly the token
and yields the correctly rounded value of the number written without separators. -/
theorem parseNumberOrSpecial_tok (tag : Nat) (t : NumTok) (hwf : t.WF) (hcap : t.plain.digitCount ≤ MAX_NUM_DIGITS)
    (k : List Nat) (hk : StopsToken k) (pre : List Nat) (d : Nat) (tm : Bool) :
    ∃ pre', parseNumberOrSpecial tag ⟨pre, t.render ++ k, d, tm⟩ =
      .ok ((t.plain.value binary64, false, true), ⟨pre', k, d, tm⟩) := by
  unfold PlainLit.digitCount at hcap
  have hpip : t.plain.ip = t.ip.digits := rfl
  rw [hpip] at hcap
  have hh := tok_head t hwf k
  unfold parseNumberOrSpecial
  simp only []
  rw [startsCi_head _ [46, 105, 110, 102] rfl rfl (by intro d hd h; cases h; simp [isDigit] at hd) hh]
  rw [startsCi_head _ [46, 110, 97, 110] rfl rfl (by intro d hd h; cases h; simp [isDigit] at hd) hh]
  simp only [Bool.false_eq_true, ↓reduceIte]
  rw [trySexagesimal_tok tag t hwf k hk]
  simp only [Res.bind]
  have hb : t.render ++ k = t.ip.render ++ (fracR t ++ (expR t ++ k)) := by rw [render_eq]; simp
  have hst : Stops (fracR t ++ (expR t ++ k)) := fun c r hc => ⟨(stops_fracR t hk c r hc).1, (stops_fracR t hk c r hc).2.1⟩
  rw [hb]
  obtain ⟨p1, hn1⟩ := numLoop_groups RErr.underscoreNumber t.ip _ pre 0 0 [] false hwf.ip hst (by omega)
  rw [hn1]
  simp only [HRes.lift, Res.bind]
  obtain ⟨n2, hn2, h2r, h2s, h2b⟩ := numFrac_tok t hwf k hk
    ⟨p1, fracR t ++ (expR t ++ k), 0 + t.ip.digits.length, t.ip.digits.reverse ++ [], false || !t.ip.isEmpty⟩ rfl
    (by simp only []; omega)
  rw [hn2]
  simp only [HRes.lift, Res.bind]
  obtain ⟨n3, hn3, h3r, h3b⟩ := numExp_tok t hwf k hk n2 h2r (by rw [h2s]; simp only []; omega)
  rw [hn3]
  simp only [HRes.lift, Res.bind]
  have hbuf : n3.bufR.reverse = t.plain.body := by
    rw [h3b, h2b]; simp [PlainLit.body, hpip]
  have hne : n3.bufR.isEmpty = false := by
    obtain ⟨c, r, hbd, _⟩ := body_head t.plain hwf.plain
    cases hbr : n3.bufR with
    | nil => rw [hbr] at hbuf; rw [← hbuf] at hbd; cases hbd
    | cons _ _ => rfl
  simp only [hne, Bool.false_eq_true, ↓reduceIte]
  have hpr : t.plain.render = t.plain.body := by simp [PlainLit.render, NumTok.plain, signBytes]
  rw [hbuf, ← hpr, fromStr_lit binary64 t.plain hwf.plain]
  exact ⟨n3.pre, by rw [h3r]⟩


/-! ## `.inf` / `.nan` -/

theorem advN_four (a b c d : Nat) (pre k : List Nat) :
    advN 4 pre (a :: b :: c :: d :: k) = .ok (d :: c :: b :: a :: pre, k) := by
  simp [advN]

theorem dotInf_tok (tag : Nat) (a b c d : Nat) (hl : [a, b, c, d].map lowerByte = [46, 105, 110, 102])
    (k : List Nat) (pre : List Nat) (dp : Nat) (tm : Bool) :
    parseNumberOrSpecial tag ⟨pre, a :: b :: c :: d :: k, dp, tm⟩ =
      .ok ((.inf false, false, true), ⟨d :: c :: b :: a :: pre, k, dp, tm⟩) := by
  unfold parseNumberOrSpecial
  simp only []
  have h1 : startsCi (a :: b :: c :: d :: k) [46, 105, 110, 102] = true := by
    unfold startsCi
    have hlen : ¬ (a :: b :: c :: d :: k).length < [46, 105, 110, 102].length := by simp
    rw [if_neg hlen]
    simpa using hl
  rw [h1]
  simp only [HRes.lift, Res.bind, ↓reduceIte, advN_four]

theorem dotNan_tok (tag : Nat) (a b c d : Nat) (hl : [a, b, c, d].map lowerByte = [46, 110, 97, 110])
    (k : List Nat) (pre : List Nat) (dp : Nat) (tm : Bool) :
    parseNumberOrSpecial tag ⟨pre, a :: b :: c :: d :: k, dp, tm⟩ =
      .ok ((.nan, false, true), ⟨d :: c :: b :: a :: pre, k, dp, tm⟩) := by
  unfold parseNumberOrSpecial
  simp only []
  have h0 : startsCi (a :: b :: c :: d :: k) [46, 105, 110, 102] = false := by
    unfold startsCi
    have hlen : ¬ (a :: b :: c :: d :: k).length < [46, 105, 110, 102].length := by simp
    rw [if_neg hlen]
    simp only [List.map_cons, List.map_nil, List.cons.injEq, and_true] at hl
    simp [hl.1, hl.2.1]
  have h1 : startsCi (a :: b :: c :: d :: k) [46, 110, 97, 110] = true := by
    unfold startsCi
    have hlen : ¬ (a :: b :: c :: d :: k).length < [46, 110, 97, 110].length := by simp
    rw [if_neg hlen]
    simpa using hl
  rw [h0]
  simp only [Bool.false_eq_true, ↓reduceIte]
  rw [h1]
  simp only [HRes.lift, Res.bind, ↓reduceIte, advN_four]

end SaphyrVerif.Lemmas.C19L
