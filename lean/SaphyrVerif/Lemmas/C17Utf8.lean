import SaphyrVerif.Model.Snippet
import SaphyrVerif.Spec.Snippet
/-!
Helper lemmas for C17, part 1: the UTF-8 byte view (`encode`/`decode`) and the byte-level
sanitiser / cleanliness scan against their character-level specifications.
-/
namespace SaphyrVerif.Lemmas.C17
open SaphyrVerif SaphyrVerif.Snippet
open SaphyrVerif.Spec.Snippet (isControl sanitizeChar)

theorem char_valid (c : Char) : c.toNat < 0xD800 ∨ (0xDFFF < c.toNat ∧ c.toNat < 0x110000) := by
  exact c.valid

theorem utf8LenChar_pos (c : Char) : 1 ≤ utf8LenChar c := by
  unfold utf8LenChar; simp only []; split <;> (try split) <;> (try split) <;> omega

theorem utf8LenChar_le (c : Char) : utf8LenChar c ≤ 4 := by
  unfold utf8LenChar; simp only []; split <;> (try split) <;> (try split) <;> omega

theorem utf8Bytes_length (c : Char) : (utf8Bytes c).length = utf8LenChar c := by
  unfold utf8Bytes utf8LenChar; simp only []
  split
  · rfl
  · split
    · rfl
    · split <;> rfl

theorem encode_append (a b : List Char) : encode (a ++ b) = encode a ++ encode b := by
  induction a with
  | nil => rfl
  | cons c cs ih => simp [encode, ih]

theorem encode_length (s : List Char) : (encode s).length = utf8Len s := by
  induction s with
  | nil => rfl
  | cons c cs ih =>
    simp only [encode, List.length_append, utf8Bytes_length, ih, utf8Len, List.map_cons, List.sum_cons]

theorem utf8Len_cons (c : Char) (s : List Char) : utf8Len (c :: s) = utf8LenChar c + utf8Len s := by
  simp [utf8Len]

theorem utf8Len_append (a b : List Char) : utf8Len (a ++ b) = utf8Len a + utf8Len b := by
  simp [utf8Len, List.map_append, List.sum_append]

@[simp] theorem utf8Len_nil : utf8Len [] = 0 := rfl

/-! ### the four shapes of an encoded character -/

inductive Shape (c : Char) : Prop where
  | one (h : c.toNat < 0x80) (e : utf8Bytes c = [c.toNat])
  | two (h1 : 0x80 ≤ c.toNat) (h2 : c.toNat < 0x800)
      (e : utf8Bytes c = [0xC0 + c.toNat / 64, 0x80 + c.toNat % 64])
  | three (h1 : 0x800 ≤ c.toNat) (h2 : c.toNat < 0x10000)
      (e : utf8Bytes c = [0xE0 + c.toNat / 4096, 0x80 + (c.toNat / 64) % 64, 0x80 + c.toNat % 64])
  | four (h1 : 0x10000 ≤ c.toNat)
      (e : utf8Bytes c = [0xF0 + c.toNat / 262144, 0x80 + (c.toNat / 4096) % 64, 0x80 + (c.toNat / 64) % 64, 0x80 + c.toNat % 64])

theorem shape (c : Char) : Shape c := by
  by_cases h1 : c.toNat < 0x80
  · exact .one h1 (by simp [utf8Bytes, h1])
  · by_cases h2 : c.toNat < 0x800
    · exact .two (by omega) h2 (by simp [utf8Bytes, h1, h2])
    · by_cases h3 : c.toNat < 0x10000
      · exact .three (by omega) h3 (by simp [utf8Bytes, h1, h2, h3])
      · exact .four (by omega) (by simp [utf8Bytes, h1, h2, h3])

/-! ### decode ∘ encode -/

theorem decode_1 (n : Nat) (rest : List Nat) (h : n < 0x80) :
    decode (n :: rest) = (decode rest).map (Char.ofNat n :: ·) := by
  rw [decode.eq_def]; simp only [h, if_true]

theorem decode_2 (b0 b1 : Nat) (rest : List Nat) (h0 : 0xC2 ≤ b0 ∧ b0 < 0xE0) (h1 : 0x80 ≤ b1 ∧ b1 < 0xC0) :
    decode (b0 :: b1 :: rest) = (decode rest).map (Char.ofNat ((b0 - 0xC0) * 64 + (b1 - 0x80)) :: ·) := by
  have a : ¬ b0 < 0x80 := by omega
  rw [decode.eq_def]; simp only [a, h0, h1, if_false, if_true, and_self]

theorem decode_3 (b0 b1 b2 : Nat) (rest : List Nat) (h0 : 0xE0 ≤ b0 ∧ b0 < 0xF0)
    (h1 : 0x80 ≤ b1 ∧ b1 < 0xC0 ∧ 0x80 ≤ b2 ∧ b2 < 0xC0 ∧
      (b0 - 0xE0) * 4096 + (b1 - 0x80) * 64 + (b2 - 0x80) ≥ 0x800 ∧
      ¬ (0xD800 ≤ (b0 - 0xE0) * 4096 + (b1 - 0x80) * 64 + (b2 - 0x80) ∧
         (b0 - 0xE0) * 4096 + (b1 - 0x80) * 64 + (b2 - 0x80) < 0xE000)) :
    decode (b0 :: b1 :: b2 :: rest) =
      (decode rest).map (Char.ofNat ((b0 - 0xE0) * 4096 + (b1 - 0x80) * 64 + (b2 - 0x80)) :: ·) := by
  have a : ¬ b0 < 0x80 := by omega
  have a2 : ¬ (0xC2 ≤ b0 ∧ b0 < 0xE0) := by omega
  rw [decode.eq_def]; simp only [a, a2, h0, if_false, if_true, and_self]
  rw [if_pos h1]

theorem decode_4 (b0 b1 b2 b3 : Nat) (rest : List Nat) (h0 : 0xF0 ≤ b0 ∧ b0 < 0xF5)
    (h1 : 0x80 ≤ b1 ∧ b1 < 0xC0 ∧ 0x80 ≤ b2 ∧ b2 < 0xC0 ∧ 0x80 ≤ b3 ∧ b3 < 0xC0 ∧
      (b0 - 0xF0) * 262144 + (b1 - 0x80) * 4096 + (b2 - 0x80) * 64 + (b3 - 0x80) ≥ 0x10000 ∧
      (b0 - 0xF0) * 262144 + (b1 - 0x80) * 4096 + (b2 - 0x80) * 64 + (b3 - 0x80) ≤ 0x10FFFF) :
    decode (b0 :: b1 :: b2 :: b3 :: rest) =
      (decode rest).map (Char.ofNat ((b0 - 0xF0) * 262144 + (b1 - 0x80) * 4096 + (b2 - 0x80) * 64 + (b3 - 0x80)) :: ·) := by
  have a : ¬ b0 < 0x80 := by omega
  have a2 : ¬ (0xC2 ≤ b0 ∧ b0 < 0xE0) := by omega
  have a3 : ¬ (0xE0 ≤ b0 ∧ b0 < 0xF0) := by omega
  rw [decode.eq_def]; simp only [a, a2, a3, h0, if_false, if_true, and_self]
  rw [if_pos h1]

theorem decode_encode_cons (c : Char) (rest : List Nat) :
    decode (utf8Bytes c ++ rest) = (decode rest).map (c :: ·) := by
  have hv := char_valid c
  rcases shape c with ⟨h, e⟩ | ⟨h1, h2, e⟩ | ⟨h1, h2, e⟩ | ⟨h1, e⟩
  · rw [e]; simp only [List.cons_append, List.nil_append]
    rw [decode_1 _ _ h, Char.ofNat_toNat]
  · rw [e]; simp only [List.cons_append, List.nil_append]
    rw [decode_2 _ _ _ (by omega) (by omega)]
    have a4 : (0xC0 + c.toNat / 64 - 0xC0) * 64 + (0x80 + c.toNat % 64 - 0x80) = c.toNat := by omega
    rw [a4, Char.ofNat_toNat]
  · rw [e]; simp only [List.cons_append, List.nil_append]
    have a4 : (0xE0 + c.toNat / 4096 - 0xE0) * 4096 + (0x80 + c.toNat / 64 % 64 - 0x80) * 64 +
        (0x80 + c.toNat % 64 - 0x80) = c.toNat := by omega
    rw [decode_3 _ _ _ _ (by omega) (by rw [a4]; omega), a4, Char.ofNat_toNat]
  · rw [e]; simp only [List.cons_append, List.nil_append]
    have a4 : (0xF0 + c.toNat / 262144 - 0xF0) * 262144 + (0x80 + c.toNat / 4096 % 64 - 0x80) * 4096 +
        (0x80 + c.toNat / 64 % 64 - 0x80) * 64 + (0x80 + c.toNat % 64 - 0x80) = c.toNat := by omega
    rw [decode_4 _ _ _ _ _ (by omega) (by rw [a4]; omega), a4, Char.ofNat_toNat]

theorem decode_encode (s : List Char) : decode (encode s) = some s := by
  induction s with
  | nil => rfl
  | cons c cs ih => rw [encode, decode_encode_cons, ih]; rfl

/-! ### sanitiser -/

theorem pass1_append (a b : List Nat) : pass1 (a ++ b) = pass1 a ++ pass1 b := by
  simp [pass1]

theorem pass2_cons_ne (b : Nat) (rest : List Nat) (h : b ≠ 0xC2) : pass2 (b :: rest) = b :: pass2 rest := by
  cases rest with
  | nil => simp [pass2]
  | cons b1 r =>
    rw [pass2]
    have : (b == 0xC2) = false := by simp [h]
    simp [this]

/-- bytes other than `0xC2` pass through the second loop unchanged -/
theorem pass2_append_noC2 (bs rest : List Nat) (h : ∀ b ∈ bs, b ≠ 0xC2) :
    pass2 (bs ++ rest) = bs ++ pass2 rest := by
  induction bs with
  | nil => rfl
  | cons b bs ih =>
    rw [List.cons_append, pass2_cons_ne _ _ (h b (by simp)), ih (fun x hx => h x (by simp [hx]))]
    rfl

theorem isC0Del_ge (b : Nat) (h : 0x80 ≤ b) : isC0Del b = false := by
  unfold isC0Del
  have h1 : ¬ b < 0x20 := by omega
  have h2 : ¬ b = 0x7F := by omega
  simp [h1, h2]

/-- bytes ≥ 0x80 pass through the first loop unchanged -/
theorem pass1_ge (bs : List Nat) (h : ∀ b ∈ bs, 0x80 ≤ b) : pass1 bs = bs := by
  unfold pass1
  induction bs with
  | nil => rfl
  | cons b bs ih =>
    rw [List.map_cons, isC0Del_ge b (h b (by simp)), ih (fun x hx => h x (by simp [hx]))]
    simp

theorem sanitizeChar_of_ge (c : Char) (h : 0xA0 ≤ c.toNat) : sanitizeChar c = c := by
  unfold sanitizeChar
  simp only []
  have a : ¬ c.toNat < 0x20 := by omega
  have b : ¬ c.toNat = 0x7F := by omega
  have d : ¬ c.toNat ≤ 0x9F := by omega
  simp [a, b, d]

/-- the sanitiser acts character by character -/
theorem sanitize_char_bytes (c : Char) (rest : List Nat) :
    pass2 (pass1 (utf8Bytes c) ++ rest) = utf8Bytes (sanitizeChar c) ++ pass2 rest := by
  have hv := char_valid c
  rcases shape c with ⟨h, e⟩ | ⟨h1, h2, e⟩ | ⟨h1, h2, e⟩ | ⟨h1, e⟩
  · -- ASCII
    rw [e]
    by_cases hc : isC0Del c.toNat = true
    · have hs : sanitizeChar c = ' ' := by
        unfold sanitizeChar isC0Del at *
        simp only [] at *
        simp only [hc, if_true]
      rw [hs]
      have e2 : utf8Bytes ' ' = [0x20] := by decide
      have e1 : pass1 [c.toNat] = [0x20] := by simp [pass1, hc]
      rw [e2, e1]
      exact pass2_append_noC2 [0x20] rest (by simp)
    · have hc' : isC0Del c.toNat = false := by simpa using hc
      have hs : sanitizeChar c = c := by
        unfold sanitizeChar isC0Del at *
        simp only [] at *
        have h80 : ¬ (0x80 ≤ c.toNat) := by omega
        simp [hc', h80]
      have e1 : pass1 [c.toNat] = [c.toNat] := by simp [pass1, hc']
      rw [hs, e, e1]
      exact pass2_append_noC2 [c.toNat] rest (by simp; omega)
  · -- two bytes
    rw [e, pass1_ge _ (by simp; omega)]
    by_cases hc1 : c.toNat ≤ 0x9F
    · -- C1
      have hs : sanitizeChar c = Char.ofNat 0xA0 := by
        unfold sanitizeChar
        simp only []
        have a : ¬ c.toNat < 0x20 := by omega
        have b : ¬ c.toNat = 0x7F := by omega
        simp [a, b, h1, hc1]
      rw [hs]
      have e2 : utf8Bytes (Char.ofNat 0xA0) = [0xC2, 0xA0] := by decide
      have b0' : 0xC0 + c.toNat / 64 = 0xC2 := by omega
      rw [e2, b0']
      simp only [List.cons_append, List.nil_append]
      rw [pass2]
      have hb1 : 0x80 + c.toNat % 64 ≤ 0x9F := by omega
      simp [hb1]
    · rw [sanitizeChar_of_ge c (by omega), e]
      by_cases hb : 0xC0 + c.toNat / 64 = 0xC2
      · -- lead byte C2 but second byte ≥ A0
        simp only [List.cons_append, List.nil_append]
        rw [pass2]
        have b1 : (decide (0x80 ≤ 0x80 + c.toNat % 64) && decide (0x80 + c.toNat % 64 ≤ 0x9F)) = false := by
          have : ¬ (0x80 + c.toNat % 64 ≤ 0x9F) := by omega
          simp [this]
        simp only [b1, Bool.and_false, Bool.false_eq_true, if_false]
        rw [pass2_cons_ne _ _ (show 0x80 + c.toNat % 64 ≠ 0xC2 by omega)]
      · exact pass2_append_noC2 _ rest (by simp; omega)
  · -- three bytes
    rw [e, pass1_ge _ (by simp; omega), sanitizeChar_of_ge c (by omega), e]
    exact pass2_append_noC2 _ rest (by simp; omega)
  · -- four bytes
    rw [e, pass1_ge _ (by simp; omega), sanitizeChar_of_ge c (by omega), e]
    exact pass2_append_noC2 _ rest (by simp; omega)

theorem sanitizeBytes_encode (s : List Char) :
    sanitizeBytes (encode s) = encode (Spec.Snippet.sanitize s) := by
  unfold sanitizeBytes
  induction s with
  | nil => rfl
  | cons c cs ih =>
    rw [encode, pass1_append, sanitize_char_bytes, ih]
    rfl

theorem sanitize_eq (s : List Char) : Snippet.sanitize s = .ok (Spec.Snippet.sanitize s) := by
  unfold Snippet.sanitize
  rw [sanitizeBytes_encode, decode_encode]

/-! ### cleanliness scan -/

theorem hasC1Pair_cons_ne (b : Nat) (rest : List Nat) (h : b ≠ 0xC2) : hasC1Pair (b :: rest) = hasC1Pair rest := by
  cases rest with
  | nil => simp [hasC1Pair]
  | cons b1 r =>
    rw [hasC1Pair]
    have : (b == 0xC2) = false := by simp [h]
    simp [this]

theorem hasC1Pair_append_noC2 (bs rest : List Nat) (h : ∀ b ∈ bs, b ≠ 0xC2) :
    hasC1Pair (bs ++ rest) = hasC1Pair rest := by
  induction bs with
  | nil => rfl
  | cons b bs ih =>
    rw [List.cons_append, hasC1Pair_cons_ne _ _ (h b (by simp)), ih (fun x hx => h x (by simp [hx]))]

theorem all_ge_noC0 (bs : List Nat) (h : ∀ b ∈ bs, 0x80 ≤ b) : bs.all (fun b => !isC0Del b) = true := by
  rw [List.all_eq_true]
  intro b hb
  rw [isC0Del_ge b (h b hb)]
  rfl

theorem isControl_of_ge (c : Char) (h : 0xA0 ≤ c.toNat) : isControl c = false := by
  unfold isControl
  simp only []
  have a : ¬ c.toNat < 0x20 := by omega
  have b : ¬ c.toNat = 0x7F := by omega
  have d : ¬ c.toNat ≤ 0x9F := by omega
  simp [a, b, d]

theorem clean_char_bytes (c : Char) (rest : List Nat) :
    ((utf8Bytes c ++ rest).all (fun b => !isC0Del b) && !hasC1Pair (utf8Bytes c ++ rest)) =
      (!isControl c && (rest.all (fun b => !isC0Del b) && !hasC1Pair rest)) := by
  have hv := char_valid c
  rw [List.all_append]
  rcases shape c with ⟨h, e⟩ | ⟨h1, h2, e⟩ | ⟨h1, h2, e⟩ | ⟨h1, e⟩
  · rw [e, hasC1Pair_append_noC2 [c.toNat] rest (by simp; omega)]
    have : isControl c = isC0Del c.toNat := by
      unfold isControl isC0Del
      simp only []
      have : ¬ (0x80 ≤ c.toNat) := by omega
      simp [this]
    rw [this]
    simp only [List.all_cons, List.all_nil, Bool.and_true, Bool.and_assoc]
  · rw [e, all_ge_noC0 _ (by simp; omega)]
    by_cases hc1 : c.toNat ≤ 0x9F
    · have hcn : isControl c = true := by
        unfold isControl
        simp only []
        simp [h1, hc1]
      have b0' : 0xC0 + c.toNat / 64 = 0xC2 := by omega
      rw [hcn, b0']
      simp only [List.cons_append, List.nil_append]
      rw [hasC1Pair]
      have hb1 : 0x80 + c.toNat % 64 ≤ 0x9F := by omega
      simp [hb1]
    · rw [isControl_of_ge c (by omega)]
      by_cases hb : 0xC0 + c.toNat / 64 = 0xC2
      · simp only [List.cons_append, List.nil_append]
        rw [hasC1Pair]
        have b1 : (decide (0x80 ≤ 0x80 + c.toNat % 64) && decide (0x80 + c.toNat % 64 ≤ 0x9F)) = false := by
          have : ¬ (0x80 + c.toNat % 64 ≤ 0x9F) := by omega
          simp [this]
        rw [b1, hasC1Pair_cons_ne _ _ (show 0x80 + c.toNat % 64 ≠ 0xC2 by omega)]
        simp
      · rw [hasC1Pair_append_noC2 _ rest (by simp; omega)]
        simp
  · rw [e, all_ge_noC0 _ (by simp; omega), isControl_of_ge c (by omega),
      hasC1Pair_append_noC2 _ rest (by simp; omega)]
    simp
  · rw [e, all_ge_noC0 _ (by simp; omega), isControl_of_ge c (by omega),
      hasC1Pair_append_noC2 _ rest (by simp; omega)]
    simp

theorem isClean_eq (s : List Char) : isClean s = Spec.Snippet.clean s := by
  unfold isClean isCleanBytes Spec.Snippet.clean
  induction s with
  | nil => rfl
  | cons c cs ih =>
    rw [encode, clean_char_bytes, ih]
    simp [List.all_cons]

/-! ### the specification sanitiser -/

theorem sanitizeChar_clean (c : Char) : isControl (sanitizeChar c) = false := by
  unfold sanitizeChar
  simp only []
  split
  · decide
  · split
    · decide
    · rename_i h1 h2
      unfold isControl
      simp only []
      simp only [Bool.or_eq_true, Bool.and_eq_true, decide_eq_true_eq, bne_iff_ne, beq_iff_eq, not_or, not_and] at h1 h2
      simp only [Bool.or_eq_false_iff, Bool.and_eq_false_iff, decide_eq_false_iff_not, beq_eq_false_iff_ne, bne_eq_false_iff_eq]
      omega

theorem sanitizeChar_len (c : Char) : utf8LenChar (sanitizeChar c) = utf8LenChar c := by
  unfold sanitizeChar
  simp only []
  split
  · rename_i h
    simp only [Bool.or_eq_true, Bool.and_eq_true, decide_eq_true_eq, bne_iff_ne, beq_iff_eq] at h
    have : utf8LenChar ' ' = 1 := by decide
    rw [this]
    unfold utf8LenChar
    simp only []
    have : c.toNat < 0x80 := by omega
    simp [this]
  · split
    · rename_i h1 h2
      simp only [Bool.and_eq_true, decide_eq_true_eq] at h2
      have : utf8LenChar (Char.ofNat 0xA0) = 2 := by decide
      rw [this]
      unfold utf8LenChar
      simp only []
      have a : ¬ c.toNat < 0x80 := by omega
      have b : c.toNat < 0x800 := by omega
      simp [a, b]
    · rfl

theorem sanitizeChar_id (c : Char) (h : isControl c = false) : sanitizeChar c = c := by
  unfold sanitizeChar
  unfold isControl at h
  simp only [] at *
  simp only [Bool.or_eq_false_iff] at h
  obtain ⟨⟨h1, h2⟩, h3⟩ := h
  have : ((decide (c.toNat < 0x20) && c.toNat != 0x0A && c.toNat != 0x09) || c.toNat == 0x7F) = false := by
    simp [h1, h2]
  simp [this, h3]

end SaphyrVerif.Lemmas.C17
