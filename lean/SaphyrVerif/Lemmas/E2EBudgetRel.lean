import SaphyrVerif.Lemmas.E2EBudget
/-!
End-to-end composition with the budget enforcer, part 2 (cursor level): the relation `BR` between the result of
an operation on a live cursor WITH a budget enforcer and the result of the same operation on the cursor
WITHOUT it (`strip`): same answer and the same successor cursor up to the enforcer, or the budgeted side
reports a breach.  Parametrised by an invariant of the budgeted cursor and by whether a breach may happen at
all, so that the same pass over the typed deserializer yields both "a budget can only reject" (`Inv` = the
synthesized-null invariant, breaches allowed) and "within the limits the budget is invisible" (`Inv` = the
enforcer accepts everything that is still to come, no breach).
-/
namespace SaphyrVerif.Lemmas.E2EBudget
set_option linter.unusedSimpArgs false
open SaphyrVerif SaphyrVerif.Scalars SaphyrVerif.Pump SaphyrVerif.Budget SaphyrVerif.De

/-- the cursor without the budget enforcer of its pump -/
def strip : Cur → Cur
  | .live p inp => .live (stripP p) inp
  | .replay b i r => .replay b i r

@[simp] theorem strip_lastLoc (c : Cur) : (strip c).lastLoc = c.lastLoc := by cases c <;> rfl
@[simp] theorem strip_refLoc (c : Cur) : (strip c).refLoc = c.refLoc := by cases c <;> rfl
@[simp] theorem strip_atAlias (c : Cur) : (strip c).atAlias = c.atAlias := by cases c <;> rfl
@[simp] theorem strip_tagUseSite (c : Cur) (l : Loc) : tagUseSite (strip c) l = tagUseSite c l := by simp [tagUseSite]
@[simp] theorem strip_eofErr (c : Cur) : eofErr (strip c) = eofErr c := by simp [eofErr]
@[simp] theorem strip_replay (b : List Ev) (i : Nat) (r : Option Loc) : strip (.replay b i r) = .replay b i r := rfl

/-- the error kinds a budget breach can surface as: `Error::Budget`, or — when the breach is reported while
an alias is replayed inside a sequence element / mapping value / enum payload — the `AliasError` that
`attach_alias_locations_if_missing` wraps it into -/
def budgetish (e : DErr) : Prop := e.kind = "Budget" ∨ e.kind = "AliasError"

theorem budgetish_attach {e : DErr} (h : budgetish e) (ref defined : Loc) : budgetish (attachAlias e ref defined) := by
  unfold attachAlias
  split
  · exact h
  · split
    · exact .inr rfl
    · split
      · exact h
      · exact h

theorem budgetish_ite {e : DErr} (h : budgetish e) (b : Bool) (ref defined : Loc) :
    budgetish (if b then e else attachAlias e ref defined) := by
  cases b
  · exact budgetish_attach h ref defined
  · exact h

theorem budgetish_ofPErr (b : Breach) (l : Loc) : budgetish (ofPErr (.budget b l)) := .inl rfl

/-- the pump of the cursor did not synthesize the null of an empty stream -/
def noSyn : Cur → Prop
  | .live p _ => p.synthesizedNull = false
  | .replay .. => True

/-- parameters of the comparison: the invariant of the budgeted cursor, and whether breaches may occur -/
structure BP where
  Inv : Cur → Prop
  ab : Prop

/-- budgeted result versus budget-free result -/
inductive BR (P : BP) {α : Type} : R α → R α → Prop
  | ok {a : α} {d : Cur} : P.Inv d → BR P (.ok a d) (.ok a (strip d))
  | err {e : DErr} {d : Cur} : BR P (.err e d) (.err e (strip d))
  | breach {e : DErr} {d : Cur} {y : R α} : P.ab → budgetish e → noSyn d → BR P (.err e d) y

theorem BR.fwd_ok {P : BP} {α : Type} {x y : R α} {a : α} {d : Cur} (heq : x = .ok a d) (h : BR P x y) :
    y = .ok a (strip d) ∧ P.Inv d := by
  cases h with
  | ok hi => cases heq; exact ⟨rfl, hi⟩
  | err => cases heq
  | breach => cases heq

theorem BR.fwd_err {P : BP} {α : Type} {x y : R α} {e : DErr} {d : Cur} (heq : x = .err e d) (h : BR P x y) :
    y = .err e (strip d) ∨ (P.ab ∧ budgetish e ∧ noSyn d) := by
  cases h with
  | ok hi => cases heq
  | err => cases heq; exact .inl rfl
  | breach hab hb hns => cases heq; exact .inr ⟨hab, hb, hns⟩

/-- the invariant is kept by the two cursor operations, which answer alike with and without the enforcer —
or (if allowed) the enforcer reports a breach -/
def Closed (P : BP) : Prop := ∀ c, P.Inv c → BR P c.peek (strip c).peek ∧ BR P c.next (strip c).next

theorem Closed.peek_cases {P : BP} (hcl : Closed P) {c : Cur} (h : P.Inv c) :
    (∃ o d, c.peek = .ok o d ∧ (strip c).peek = .ok o (strip d) ∧ P.Inv d) ∨
    (∃ e d, c.peek = .err e d ∧ (strip c).peek = .err e (strip d)) ∨
    (∃ e d, c.peek = .err e d ∧ P.ab ∧ budgetish e ∧ noSyn d) := by
  have hx := (hcl c h).1
  revert hx
  generalize c.peek = x
  generalize (strip c).peek = y
  intro hx
  cases hx with
  | ok hi => exact .inl ⟨_, _, rfl, rfl, hi⟩
  | err => exact .inr (.inl ⟨_, _, rfl, rfl⟩)
  | breach hab hb hns => exact .inr (.inr ⟨_, _, rfl, hab, hb, hns⟩)

theorem Closed.next_cases {P : BP} (hcl : Closed P) {c : Cur} (h : P.Inv c) :
    (∃ o d, c.next = .ok o d ∧ (strip c).next = .ok o (strip d) ∧ P.Inv d) ∨
    (∃ e d, c.next = .err e d ∧ (strip c).next = .err e (strip d)) ∨
    (∃ e d, c.next = .err e d ∧ P.ab ∧ budgetish e ∧ noSyn d) := by
  have hx := (hcl c h).2
  revert hx
  generalize c.next = x
  generalize (strip c).next = y
  intro hx
  cases hx with
  | ok hi => exact .inl ⟨_, _, rfl, rfl, hi⟩
  | err => exact .inr (.inl ⟨_, _, rfl, rfl⟩)
  | breach hab hb hns => exact .inr (.inr ⟨_, _, rfl, hab, hb, hns⟩)

/-! ### the first instance: any pump, breaches allowed -/

/-- the synthesized-null invariant of a live cursor -/
def InvJ : Cur → Prop
  | .live p inp => J p inp
  | .replay .. => True

/-- "a budget can only reject": every cursor whose pump satisfies `J`, breaches allowed -/
def P1 : BP := ⟨InvJ, True⟩

theorem next_strip {p : Pump} {inp : List RawItem} {s : Step} {p' : Pump} {rest : List RawItem}
    (hJ : J p inp) (h : Pump.next p inp = (s, p', rest)) :
    J p' rest ∧ (Pump.next (stripP p) inp = (s, stripP p', rest) ∨ (IsBreach s ∧ p'.synthesizedNull = false)) := by
  unfold Pump.next at h ⊢
  cases hl : p.look with
  | some ev =>
    rw [hl] at h
    simp only [Prod.mk.injEq] at h
    obtain ⟨rfl, rfl, rfl⟩ := h
    exact ⟨hJ, .inl (by simp [hl])⟩
  | none =>
    rw [hl] at h
    simp only at h
    obtain ⟨hJ', hb⟩ := nextImpl_J hJ h
    refine ⟨hJ', ?_⟩
    rcases nextImpl_strip p inp h with h1 | ⟨hbr, -⟩
    · exact .inl (by simp [hl, h1])
    · exact .inr ⟨hbr, hb hbr⟩

theorem peek_strip {p : Pump} {inp : List RawItem} {s : Step} {p' : Pump} {rest : List RawItem}
    (hJ : J p inp) (h : Pump.peek p inp = (s, p', rest)) :
    J p' rest ∧ (Pump.peek (stripP p) inp = (s, stripP p', rest) ∨ (IsBreach s ∧ p'.synthesizedNull = false)) := by
  unfold Pump.peek at h ⊢
  cases hl : p.look with
  | some ev =>
    rw [hl] at h
    simp only [Prod.mk.injEq] at h
    obtain ⟨rfl, rfl, rfl⟩ := h
    exact ⟨hJ, .inl (by simp [hl])⟩
  | none =>
    rw [hl] at h
    simp only at h
    rcases hn : nextImpl p inp with ⟨s1, p1, r1⟩
    rw [hn] at h
    obtain ⟨hJ', hb⟩ := nextImpl_J hJ hn
    rcases nextImpl_strip p inp hn with h1 | ⟨hbr, -⟩
    · cases s1 with
      | event ev =>
        simp only [Prod.mk.injEq] at h
        obtain ⟨rfl, rfl, rfl⟩ := h
        exact ⟨hJ', .inl (by simp [hl, h1])⟩
      | eof =>
        simp only [Prod.mk.injEq] at h
        obtain ⟨rfl, rfl, rfl⟩ := h
        exact ⟨hJ', .inl (by simp [hl, h1])⟩
      | error er =>
        simp only [Prod.mk.injEq] at h
        obtain ⟨rfl, rfl, rfl⟩ := h
        exact ⟨hJ', .inl (by simp [hl, h1])⟩
    · obtain ⟨b, l, rfl⟩ := hbr
      simp only [Prod.mk.injEq] at h
      obtain ⟨rfl, rfl, rfl⟩ := h
      exact ⟨hJ', .inr ⟨⟨b, l, rfl⟩, hb ⟨b, l, rfl⟩⟩⟩

theorem closed_P1 : Closed P1 := by
  intro c hc
  cases c with
  | replay b i r =>
    constructor
    · exact BR.ok (P := P1) (d := .replay b i r) trivial
    · simp only [Cur.next, strip]
      split
      · exact BR.ok (P := P1) (d := .replay b (i + 1) r) trivial
      · exact BR.ok (P := P1) (d := .replay b i r) trivial
  | live p inp =>
    have hJ : J p inp := hc
    constructor
    · simp only [Cur.peek, strip]
      rcases hp : Pump.peek p inp with ⟨s, p', rest⟩
      obtain ⟨hJ', h2⟩ := peek_strip hJ hp
      rcases h2 with h2 | ⟨⟨b, l, rfl⟩, hs⟩
      · rw [h2]
        cases s with
        | event e => exact BR.ok (P := P1) (d := .live p' rest) hJ'
        | eof => exact BR.ok (P := P1) (d := .live p' rest) hJ'
        | error e => exact BR.err (d := .live p' rest)
      · exact BR.breach (d := .live p' rest) trivial (budgetish_ofPErr b l) hs
    · simp only [Cur.next, strip]
      rcases hp : Pump.next p inp with ⟨s, p', rest⟩
      obtain ⟨hJ', h2⟩ := next_strip hJ hp
      rcases h2 with h2 | ⟨⟨b, l, rfl⟩, hs⟩
      · rw [h2]
        cases s with
        | event e => exact BR.ok (P := P1) (d := .live p' rest) hJ'
        | eof => exact BR.ok (P := P1) (d := .live p' rest) hJ'
        | error e => exact BR.err (d := .live p' rest)
      · exact BR.breach (d := .live p' rest) trivial (budgetish_ofPErr b l) hs

end SaphyrVerif.Lemmas.E2EBudget
