import SaphyrVerif.Model.SerScalar
import SaphyrVerif.Spec.Scalars
import SaphyrVerif.Lemmas.C12Plain
/-!
Helper lemmas for C12, integers: Rust's `Display` text of an integer denotes that integer in the
notation of `Spec/Scalars.lean` (`intNotation` / `uintNotation`), so C06's exactness theorems give the round trip.
-/
namespace SaphyrVerif.Lemmas.C12
open SaphyrVerif SaphyrVerif.SerScalar SaphyrVerif.Scalars SaphyrVerif.Spec

def dchar (d : Nat) : Char := Char.ofNat (48 + d)

theorem dchar_facts : ∀ d, d < 10 →
    digitOf 10 (dchar d) = some d ∧ (dchar d != '_') = true ∧ isWhitespace (dchar d) = false ∧
    (d ≠ 0 → dchar d ≠ '0') ∧ dchar d ≠ '-' ∧ dchar d ≠ '+' := by decide

/-- digit strings: what `natDigits` produces -/
def IsDigits (l : List Char) : Prop := ∀ c ∈ l, ∃ d, d < 10 ∧ c = dchar d

theorem natDigits_digits (n : Nat) : IsDigits (natDigits n) := by
  induction n using Nat.strongRecOn with
  | _ n ih =>
    rw [natDigits]
    by_cases h : n < 10
    · rw [if_pos h]
      intro c hc
      simp only [List.mem_singleton] at hc
      exact ⟨n, h, hc⟩
    · rw [if_neg h]
      intro c hc
      simp only [List.mem_append, List.mem_singleton] at hc
      rcases hc with hc | hc
      · exact ih (n / 10) (by omega) c hc
      · exact ⟨n % 10, by omega, hc⟩

theorem natDigits_ne_nil (n : Nat) : natDigits n ≠ [] := by
  rw [natDigits]
  by_cases h : n < 10
  · rw [if_pos h]; simp
  · rw [if_neg h]; simp

/-- no leading zero: the text is `0` or starts with a non-zero digit -/
theorem natDigits_head (n : Nat) : natDigits n = ['0'] ∨ ∃ c r, natDigits n = c :: r ∧ c ≠ '0' ∧ c ≠ '-' ∧ c ≠ '+' := by
  induction n using Nat.strongRecOn with
  | _ n ih =>
    rw [natDigits]
    by_cases h : n < 10
    · rw [if_pos h]
      by_cases h0 : n = 0
      · subst h0; left; rfl
      · right
        obtain ⟨_, _, _, hz, hm, hp⟩ := dchar_facts n h
        exact ⟨dchar n, [], rfl, hz h0, hm, hp⟩
    · rw [if_neg h]
      right
      rcases ih (n / 10) (by omega) with h0 | ⟨c, r, hcr, hc0, hcm, hcp⟩
      · -- n / 10 = 0 is impossible for n ≥ 10
        exfalso
        have h10 : n / 10 ≠ 0 := by omega
        have hlt : n / 10 < 10 ∨ ¬ n / 10 < 10 := Decidable.em _
        rcases hlt with hl | hl
        · rw [natDigits, if_pos hl] at h0
          obtain ⟨_, _, _, hz, _, _⟩ := dchar_facts (n / 10) hl
          have : dchar (n / 10) = '0' := by simpa [dchar] using h0
          exact hz h10 this
        · rw [natDigits, if_neg hl] at h0
          have := congrArg List.length h0
          simp at this
          have hne := natDigits_ne_nil (n / 10 / 10)
          cases hd : natDigits (n / 10 / 10) with
          | nil => exact hne hd
          | cons a b => rw [hd] at this; simp at this
      · exact ⟨c, r ++ [Char.ofNat (48 + n % 10)], by rw [hcr]; rfl, hc0, hcm, hcp⟩

def valOf (ds : List Char) : Option Nat :=
  (ds.mapM (digitOf 10)).map (List.foldl (fun a d => a * 10 + d) 0)

theorem mapM_snoc (l : List Char) (c : Char) :
    (l ++ [c]).mapM (digitOf 10) = (l.mapM (digitOf 10)).bind (fun vs => (digitOf 10 c).map (fun d => vs ++ [d])) := by
  induction l with
  | nil => cases h : digitOf 10 c <;> simp [List.mapM_cons, h]
  | cons a l ih =>
    simp only [List.cons_append, List.mapM_cons, ih]
    cases ha : digitOf 10 a with
    | none => simp
    | some va =>
      cases hl : l.mapM (digitOf 10) with
      | none => simp
      | some vl => cases hc : digitOf 10 c <;> simp

theorem valOf_natDigits (n : Nat) : valOf (natDigits n) = some n := by
  induction n using Nat.strongRecOn with
  | _ n ih =>
    rw [natDigits]
    by_cases h : n < 10
    · rw [if_pos h]
      obtain ⟨hd, _⟩ := dchar_facts n h
      show valOf [dchar n] = some n
      simp [valOf, List.mapM_cons, hd]
    · rw [if_neg h]
      have hi := ih (n / 10) (by omega)
      obtain ⟨hd, _⟩ := dchar_facts (n % 10) (by omega)
      unfold valOf at hi ⊢
      show ((natDigits (n / 10) ++ [dchar (n % 10)]).mapM (digitOf 10)).map _ = some n
      rw [mapM_snoc, hd]
      cases hm : (natDigits (n / 10)).mapM (digitOf 10) with
      | none => rw [hm] at hi; simp at hi
      | some vs =>
        rw [hm] at hi
        simp only [Option.map_some, Option.some.injEq] at hi
        simp only [Option.map_some, Option.bind_some, List.foldl_append, List.foldl_cons, List.foldl_nil, hi, Option.some.injEq]
        omega

theorem filter_digits (l : List Char) (h : IsDigits l) : l.filter (fun c => c != '_') = l := by
  apply List.filter_eq_self.mpr
  intro c hc
  obtain ⟨d, hd, e⟩ := h c hc
  subst e
  exact (dchar_facts d hd).2.1

theorem digitsValue_natDigits (n : Nat) : digitsValue? 10 (natDigits n) = some n := by
  unfold digitsValue?
  simp only [filter_digits _ (natDigits_digits n)]
  have hne := natDigits_ne_nil n
  have : (natDigits n).isEmpty = false := by
    cases h : natDigits n with
    | nil => exact absurd h hne
    | cons a b => rfl
  rw [this]
  exact valOf_natDigits n

theorem radix_natDigits (n : Nat) : radixAndDigits false (natDigits n) = (10, natDigits n) := by
  rcases natDigits_head n with h | ⟨c, r, hcr, hc0, _, _⟩
  · rw [h]; rfl
  · rw [hcr]
    unfold radixAndDigits
    split <;> first | (rename_i heq; injection heq with h1 _; exact absurd h1 hc0) | rfl

theorem trim_no_ws (l : List Char) (hne : l ≠ []) (h : ∀ c ∈ l, isWhitespace c = false) : trim l = l := by
  unfold trim
  have h1 : trimStart l = l := by
    unfold trimStart
    cases l with
    | nil => rfl
    | cons a r => simp [List.dropWhile, h a (by simp)]
  rw [h1]
  obtain ⟨x, hx⟩ : ∃ x, l.getLast? = some x := by
    cases hl : l.getLast? with
    | none => simp at hl; exact absurd hl hne
    | some x => exact ⟨x, rfl⟩
  have hxm : x ∈ l := List.mem_of_getLast? hx
  exact trimEnd_of_last l hx (h x hxm)

theorem digits_no_ws (n : Nat) : ∀ c ∈ natDigits n, isWhitespace c = false := by
  intro c hc
  obtain ⟨d, hd, e⟩ := natDigits_digits n c hc
  subst e
  exact (dchar_facts d hd).2.2.1

/-- the unsigned notation of the `Display` text -/
theorem uintNotation_natDigits (n : Nat) : uintNotation false (natDigits n) = some n := by
  unfold uintNotation
  rw [trim_no_ws _ (natDigits_ne_nil n) (digits_no_ws n)]
  rcases natDigits_head n with h | ⟨c, r, hcr, hc0, hcm, hcp⟩
  · have hn : n = 0 := by
      have := digitsValue_natDigits n
      rw [h] at this
      have h0 : digitsValue? 10 ['0'] = some 0 := by decide
      rw [h0] at this
      simp only [Option.some.injEq] at this
      omega
    rw [h, hn]; decide
  · have hr := radix_natDigits n
    have hv := digitsValue_natDigits n
    rw [hcr] at hr hv ⊢
    dsimp only
    split
    · rename_i heq; injection heq with h1 _; exact absurd h1 hcm
    · split
      · rename_i heq; injection heq with h1 _; exact absurd h1 hcp
      · simp only [hr]; exact hv

/-- the signed notation of the `Display` text -/
theorem intNotation_showInt (v : Int) : intNotation false (showInt v) = some v := by
  unfold showInt
  by_cases hneg : v < 0
  · rw [if_pos hneg]
    unfold intNotation
    have hws : ∀ c ∈ '-' :: natDigits v.natAbs, isWhitespace c = false := by
      intro c hc
      simp only [List.mem_cons] at hc
      rcases hc with e | hc
      · subst e; decide
      · exact digits_no_ws _ c hc
    rw [trim_no_ws _ (by simp) hws]
    simp only [radix_natDigits, digitsValue_natDigits, Option.map_some, if_true, Option.some.injEq, Int.ofNat_eq_natCast]
    omega
  · rw [if_neg hneg]
    unfold intNotation
    rw [trim_no_ws _ (natDigits_ne_nil _) (digits_no_ws _)]
    rcases natDigits_head v.natAbs with h | ⟨c, r, hcr, hc0, hcm, hcp⟩
    · have hv : v = 0 := by
        have := digitsValue_natDigits v.natAbs
        rw [h] at this
        have h0 : digitsValue? 10 ['0'] = some 0 := by decide
        rw [h0] at this
        simp only [Option.some.injEq] at this
        omega
      rw [h, hv]; decide
    · have hr := radix_natDigits v.natAbs
      have hv := digitsValue_natDigits v.natAbs
      rw [hcr] at hr hv ⊢
      dsimp only
      split
      · rename_i heq; injection heq with h1 _; exact absurd h1 hcp
      · rename_i heq; injection heq with h1 _; exact absurd h1 hcm
      · simp only [hr, hv, Option.map_some, Bool.false_eq_true, if_false, Option.some.injEq, Int.ofNat_eq_natCast]
        omega

end SaphyrVerif.Lemmas.C12
