import SaphyrVerif.Lemmas.E2EBudgetObs
import SaphyrVerif.Lemmas.C07
/-!
End-to-end composition with the budget enforcer, part 9 (enforcer level): the counters only grow along a list of
observations (all-content policy), and acceptance depends on the limits only through "every counter of the
FINAL state is within its limit": an accepted list of observations is accepted under any other limits that
bound the final counters, with the same final state.
-/
namespace SaphyrVerif.Lemmas.E2EBudget
open SaphyrVerif SaphyrVerif.Scalars SaphyrVerif.Budget SaphyrVerif.Spec
open SaphyrVerif.Lemmas.C07

set_option linter.unusedSimpArgs false

/-- the same enforcer state under other limits -/
def withLim (e : Enf) (lim : Limits) : Enf := { e with lim := lim }

/-- all-content policy, scalar bytes not above the saturation bound -/
def EnfOk (e : Enf) : Prop := e.perDocument = false ∧ e.report.totalScalarBytes ≤ USIZE_MAX

/-- every counter of `e` is at most the counter of `e'` -/
def LeC (e e' : Enf) : Prop :=
  e.report.events ≤ e'.report.events ∧ e.report.aliases ≤ e'.report.aliases ∧ e.defined.length ≤ e'.defined.length ∧
  e.report.maxDepth ≤ e'.report.maxDepth ∧ e.report.documents ≤ e'.report.documents ∧
  e.report.nodes ≤ e'.report.nodes ∧ e.report.totalScalarBytes ≤ e'.report.totalScalarBytes ∧
  e.report.mergeKeys ≤ e'.report.mergeKeys

theorem LeC.refl (e : Enf) : LeC e e := by simp [LeC]

theorem LeC.trans {a b c : Enf} (h1 : LeC a b) (h2 : LeC b c) : LeC a c := by
  simp only [LeC] at *
  omega

/-- `Within` is downward closed -/
theorem within_of_leC {e e' : Enf} (lim : Limits) (h : LeC e e') (hw : Within (withLim e' lim)) :
    Within (withLim e lim) := by
  simp only [LeC, Within, withLim] at *
  omega

theorem next_withLim (e : Enf) (lim : Limits) (ev : Raw) : next (withLim e lim) ev = withLim (next e ev) lim := by
  simp only [next, withLim]
  by_cases hc : (e.perDocument && isDocStart ev) = true
  · simp [hc]
  · by_cases hf : (e.perDocument && isStreamFrame ev) = true <;> simp [hc, hf]

theorem next_leC {e : Enf} (ho : EnfOk e) (ev : Raw) : LeC e (next e ev) ∧ EnfOk (next e ev) := by
  obtain ⟨hpd, hb⟩ := ho
  have hd := defIns_length_ge e.defined (anchorOf ev)
  refine ⟨?_, ?_, ?_⟩
  · simp only [LeC, next, hpd, Bool.false_and, Bool.false_eq_true, if_false]
    refine ⟨by omega, by omega, hd, ?_, by omega, by omega, ?_, by omega⟩
    · split <;> omega
    · cases ev <;> simp only [satAdd_eq_min] <;> omega
  · simp [next, hpd]
  · simp only [next, hpd, Bool.false_and, Bool.false_eq_true, if_false]
    cases ev <;> simp only [satAdd_eq_min] <;> omega

/-- an accepted end event is balanced -/
theorem observe_ok_balanced {e e' : Enf} {ev : Raw} (h : e.observe ev = .ok e') (he : isEnd ev = true) :
    e.depth ≠ 0 ∧ wf e.containers ev = true := by
  cases ev <;> simp [isEnd] at he
  all_goals
    rw [observe_plain e rfl rfl] at h
    simp only [Enf.observeCounted] at h
    split at h
    · cases h
    · split at h
      · cases h
      · rename_i hd
        split at h
        · rename_i hc
          simp only [wf, hc]
          exact ⟨by simpa using hd, trivial⟩
        · cases h

/-- `observe` under other limits that bound the new counters: same successor state -/
theorem observe_withLim {e e' : Enf} {ev : Raw} (lim : Limits) (ho : EnfOk e) (h : e.observe ev = .ok e')
    (hw : Within (withLim e' lim)) : (withLim e lim).observe ev = .ok (withLim e' lim) := by
  obtain ⟨rfl, -⟩ := observe_ok h
  obtain ⟨hpd, hb⟩ := ho
  cases h2 : (withLim e lim).observe ev with
  | ok e2 =>
    obtain ⟨rfl, -⟩ := observe_ok h2
    rw [next_withLim]
  | error br =>
    exfalso
    have hs := observe_err h2
    rw [pro_of_not_pd ev (by simpa [withLim] using hpd)] at hs
    simp only [Within, withLim, next, hpd, Bool.false_and, Bool.false_eq_true, if_false] at hw
    cases br <;> simp only [BreachSpec, withLim] at hs
    case ratio a n => rw [hpd] at hs; cases hs.1
    case events n => omega
    case aliases n => obtain ⟨h1, h3, h4⟩ := hs; simp only [h1, b2n, if_true] at hw; omega
    case anchors n => omega
    case depth n => obtain ⟨h1, h3, h4⟩ := hs; simp only [h1, if_true] at hw; omega
    case documents n => obtain ⟨h1, -, h3, h4⟩ := hs; simp only [h1, b2n, if_true] at hw; omega
    case nodes n => obtain ⟨h1, h3, h4⟩ := hs; simp only [h1, b2n, if_true] at hw; omega
    case scalarBytes n =>
      obtain ⟨h3, h4⟩ := hs
      cases ev <;> simp only [scalarBytesOf, satAdd_eq_min] at h3 hw <;> omega
    case mergeKeys n => obtain ⟨h1, h3, h4⟩ := hs; simp only [h1] at hw; omega
    case unbalanced =>
      obtain ⟨h1, h3⟩ := hs
      obtain ⟨h4, h5⟩ := observe_ok_balanced h h1
      rcases h3 with h3 | h3
      · exact h4 h3
      · rw [h5] at h3; cases h3

theorem observe_leC {e e' : Enf} {ev : Raw} (ho : EnfOk e) (h : e.observe ev = .ok e') : LeC e e' ∧ EnfOk e' := by
  obtain ⟨rfl, -⟩ := observe_ok h
  exact next_leC ho ev

theorem aliasReplayed_ok {e e' : Enf} (h : e.observeAliasReplayed = .ok e') :
    e' = { e with report := { e.report with events := e.report.events + 1, aliases := e.report.aliases + 1 } } ∧
      e.report.events + 1 ≤ e.lim.maxEvents ∧ e.report.aliases + 1 ≤ e.lim.maxAliases := by
  simp only [Enf.observeAliasReplayed] at h
  split at h
  · cases h
  · split at h
    · cases h
    · cases h
      exact ⟨rfl, by omega, by omega⟩

theorem aliasReplayed_leC {e e' : Enf} (ho : EnfOk e) (h : e.observeAliasReplayed = .ok e') : LeC e e' ∧ EnfOk e' := by
  obtain ⟨rfl, -, -⟩ := aliasReplayed_ok h
  exact ⟨by simp [LeC], ho⟩

theorem aliasReplayed_withLim {e e' : Enf} (lim : Limits) (h : e.observeAliasReplayed = .ok e')
    (hw : Within (withLim e' lim)) : (withLim e lim).observeAliasReplayed = .ok (withLim e' lim) := by
  obtain ⟨rfl, -, -⟩ := aliasReplayed_ok h
  simp only [Within, withLim] at hw
  simp only [Enf.observeAliasReplayed, withLim]
  have h1 : ¬ e.report.events + 1 > lim.maxEvents := by omega
  have h2 : ¬ e.report.aliases + 1 > lim.maxAliases := by omega
  simp only [h1, h2, ↓reduceIte]

theorem obsStep_leC {e e' : Enf} {o : Obs} (ho : EnfOk e) (h : obsStep e o = .ok e') : LeC e e' ∧ EnfOk e' := by
  cases o with
  | raw r => exact observe_leC ho h
  | aliasReplayed => exact aliasReplayed_leC ho h
  | occupies =>
    simp only [obsStep, Except.ok.injEq] at h
    subst h
    exact ⟨by simp [LeC, Enf.aliasOccupiesPosition], ho⟩

theorem obsStep_withLim {e e' : Enf} {o : Obs} (lim : Limits) (ho : EnfOk e) (h : obsStep e o = .ok e')
    (hw : Within (withLim e' lim)) : obsStep (withLim e lim) o = .ok (withLim e' lim) := by
  cases o with
  | raw r => exact observe_withLim lim ho h hw
  | aliasReplayed => exact aliasReplayed_withLim lim h hw
  | occupies =>
    simp only [obsStep, Except.ok.injEq] at h ⊢
    subst h
    rfl

theorem feedObs_append (e : Enf) (xs ys : List Obs) :
    feedObs e (xs ++ ys) = match feedObs e xs with | .error b => .error b | .ok e' => feedObs e' ys := by
  induction xs generalizing e with
  | nil => rfl
  | cons x xs ih =>
    simp only [List.cons_append, feedObs]
    cases obsStep e x with
    | error b => rfl
    | ok e1 => exact ih e1

/-- (monotonicity along prefixes) the counters only grow -/
theorem feedObs_leC {e e' : Enf} {os : List Obs} (ho : EnfOk e) (h : feedObs e os = .ok e') : LeC e e' ∧ EnfOk e' := by
  induction os generalizing e with
  | nil => simp only [feedObs, Except.ok.injEq] at h; subst h; exact ⟨LeC.refl _, ho⟩
  | cons o os ih =>
    simp only [feedObs] at h
    cases h1 : obsStep e o with
    | error b => rw [h1] at h; cases h
    | ok e1 =>
      rw [h1] at h
      obtain ⟨a1, a2⟩ := obsStep_leC ho h1
      obtain ⟨b1, b2⟩ := ih a2 h
      exact ⟨a1.trans b1, b2⟩

/-- an accepted list of observations is accepted under any limits that bound the FINAL counters -/
theorem feedObs_withLim {e e' : Enf} {os : List Obs} (lim : Limits) (ho : EnfOk e) (h : feedObs e os = .ok e')
    (hw : Within (withLim e' lim)) : feedObs (withLim e lim) os = .ok (withLim e' lim) := by
  induction os generalizing e with
  | nil => simp only [feedObs, Except.ok.injEq] at h ⊢; subst h; rfl
  | cons o os ih =>
    simp only [feedObs] at h ⊢
    cases h1 : obsStep e o with
    | error b => rw [h1] at h; cases h
    | ok e1 =>
      rw [h1] at h
      obtain ⟨-, a2⟩ := obsStep_leC ho h1
      obtain ⟨b1, -⟩ := feedObs_leC a2 h
      rw [obsStep_withLim lim ho h1 (within_of_leC lim b1 hw)]
      exact ih a2 h

end SaphyrVerif.Lemmas.E2EBudget
