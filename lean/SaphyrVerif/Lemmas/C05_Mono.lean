import SaphyrVerif.Model.De
/-!
Fuel monotonicity of success for the deserializer model (`SaphyrVerif.De`).
-/
namespace SaphyrVerif.Lemmas.C05
open SaphyrVerif SaphyrVerif.Scalars SaphyrVerif.Pump SaphyrVerif.De

/-! ### the order "succeeds with the same result" -/

/-- whenever `x` succeeds, `y` succeeds with the same value and cursor -/
def MLe {α : Type} (x y : R α) : Prop := ∀ a c, x = .ok a c → y = .ok a c
/-- the same for `Except`-valued helpers -/
def MLeE {α : Type} (x y : Except DErr α) : Prop := ∀ a, x = .ok a → y = .ok a

def rOk {α : Type} : R α → Bool
  | .ok .. => true
  | .err .. => false
def eOk {α : Type} : Except DErr α → Bool
  | .ok .. => true
  | .error .. => false

theorem rOk_ok {α : Type} (a : α) (c : Cur) : rOk (R.ok a c) = true := rfl
theorem eOk_ok {α : Type} (a : α) : eOk (Except.ok a : Except DErr α) = true := rfl

theorem MLe.err {α : Type} (e : DErr) (c : Cur) (y : R α) : MLe (.err e c) y := by
  intro a c' h; cases h
theorem MLe.refl {α : Type} (x : R α) : MLe x x := fun _ _ h => h
theorem MLeE.err {α : Type} (e : DErr) (y : Except DErr α) : MLeE (.error e) y := by
  intro a h; cases h
theorem MLeE.refl {α : Type} (x : Except DErr α) : MLeE x x := fun _ h => h

theorem MLe.eq_of_ok {α : Type} {x y : R α} (h : MLe x y) (hx : rOk x = true) : y = x := by
  cases x with
  | ok a c => exact h a c rfl
  | err e c => cases hx
theorem MLeE.eq_of_ok {α : Type} {x y : Except DErr α} (h : MLeE x y) (hx : eOk x = true) : y = x := by
  cases x with
  | ok a => exact h a rfl
  | error e => cases hx

set_option linter.unusedSimpArgs false
set_option linter.unusedVariables false

/-- all functions of the mutual block are monotone from `fuel` to `fuel + 1` -/
structure MonoA (fuel : Nat) : Prop where
  capture : ∀ a, MLe (De.capture fuel a) (De.capture (fuel + 1) a)
  captureSeq : ∀ a b c, MLe (De.captureSeq fuel a b c) (De.captureSeq (fuel + 1) a b c)
  captureMap : ∀ a b c, MLe (De.captureMap fuel a b c) (De.captureMap (fuel + 1) a b c)
  pendingFromEvents : ∀ a b c, MLeE (De.pendingFromEvents fuel a b c) (De.pendingFromEvents (fuel + 1) a b c)
  mergeSeqBatches : ∀ a b, MLe (De.mergeSeqBatches fuel a b) (De.mergeSeqBatches (fuel + 1) a b)
  pendingFromLive : ∀ a b, MLe (De.pendingFromLive fuel a b) (De.pendingFromLive (fuel + 1) a b)
  collectEntriesFromMap : ∀ a b, MLe (De.collectEntriesFromMap fuel a b) (De.collectEntriesFromMap (fuel + 1) a b)
  collectLoop : ∀ a b c d, MLe (De.collectLoop fuel a b c d) (De.collectLoop (fuel + 1) a b c d)
  skipOneNode : ∀ a, MLe (De.skipOneNode fuel a) (De.skipOneNode (fuel + 1) a)
  skipDepth : ∀ a b, MLe (De.skipDepth fuel a b) (De.skipDepth (fuel + 1) a b)
  deser : ∀ a b c d e, MLe (De.deser fuel a b c d e) (De.deser (fuel + 1) a b c d e)
  bytesLoop : ∀ a b c, MLe (De.bytesLoop fuel a b c) (De.bytesLoop (fuel + 1) a b c)
  deserSeqLike : ∀ a b c, MLe (De.deserSeqLike fuel a b c) (De.deserSeqLike (fuel + 1) a b c)
  seqElems : ∀ a b c d, MLe (De.seqElems fuel a b c d) (De.seqElems (fuel + 1) a b c d)
  tupleElems : ∀ a b c d, MLe (De.tupleElems fuel a b c d) (De.tupleElems (fuel + 1) a b c d)
  deserMapLike : ∀ a b c, MLe (De.deserMapLike fuel a b c) (De.deserMapLike (fuel + 1) a b c)
  mapEntries : ∀ a b c d e f, MLe (De.mapEntries fuel a b c d e f) (De.mapEntries (fuel + 1) a b c d e f)
  structEntries : ∀ a b c d e f, MLe (De.structEntries fuel a b c d e f) (De.structEntries (fuel + 1) a b c d e f)
  nextKey : ∀ a b c d, MLe (De.nextKey fuel a b c d) (De.nextKey (fuel + 1) a b c d)
  deserKey : ∀ a b c d, MLeE (De.deserKey fuel a b c d) (De.deserKey (fuel + 1) a b c d)
  nextValue : ∀ a b c d, MLe (De.nextValue fuel a b c d) (De.nextValue (fuel + 1) a b c d)
  deserEnum : ∀ a b c d, MLe (De.deserEnum fuel a b c d) (De.deserEnum (fuel + 1) a b c d)
  collectTaggedSeq : ∀ a b c, MLe (De.collectTaggedSeq fuel a b c) (De.collectTaggedSeq (fuel + 1) a b c)
  variantPayload : ∀ a b c d e f g, MLe (De.variantPayload fuel a b c d e f g) (De.variantPayload (fuel + 1) a b c d e f g)

/-- the same facts as conditional rewrite rules `f (fuel + 1) x = f fuel x` -/
structure MonoR (fuel : Nat) : Prop where
  capture : ∀ a, rOk (De.capture fuel a) = true → De.capture (fuel + 1) a = De.capture fuel a
  captureSeq : ∀ a b c, rOk (De.captureSeq fuel a b c) = true → De.captureSeq (fuel + 1) a b c = De.captureSeq fuel a b c
  captureMap : ∀ a b c, rOk (De.captureMap fuel a b c) = true → De.captureMap (fuel + 1) a b c = De.captureMap fuel a b c
  pendingFromEvents : ∀ a b c, eOk (De.pendingFromEvents fuel a b c) = true → De.pendingFromEvents (fuel + 1) a b c = De.pendingFromEvents fuel a b c
  mergeSeqBatches : ∀ a b, rOk (De.mergeSeqBatches fuel a b) = true → De.mergeSeqBatches (fuel + 1) a b = De.mergeSeqBatches fuel a b
  pendingFromLive : ∀ a b, rOk (De.pendingFromLive fuel a b) = true → De.pendingFromLive (fuel + 1) a b = De.pendingFromLive fuel a b
  collectEntriesFromMap : ∀ a b, rOk (De.collectEntriesFromMap fuel a b) = true → De.collectEntriesFromMap (fuel + 1) a b = De.collectEntriesFromMap fuel a b
  collectLoop : ∀ a b c d, rOk (De.collectLoop fuel a b c d) = true → De.collectLoop (fuel + 1) a b c d = De.collectLoop fuel a b c d
  skipOneNode : ∀ a, rOk (De.skipOneNode fuel a) = true → De.skipOneNode (fuel + 1) a = De.skipOneNode fuel a
  skipDepth : ∀ a b, rOk (De.skipDepth fuel a b) = true → De.skipDepth (fuel + 1) a b = De.skipDepth fuel a b
  deser : ∀ a b c d e, rOk (De.deser fuel a b c d e) = true → De.deser (fuel + 1) a b c d e = De.deser fuel a b c d e
  bytesLoop : ∀ a b c, rOk (De.bytesLoop fuel a b c) = true → De.bytesLoop (fuel + 1) a b c = De.bytesLoop fuel a b c
  deserSeqLike : ∀ a b c, rOk (De.deserSeqLike fuel a b c) = true → De.deserSeqLike (fuel + 1) a b c = De.deserSeqLike fuel a b c
  seqElems : ∀ a b c d, rOk (De.seqElems fuel a b c d) = true → De.seqElems (fuel + 1) a b c d = De.seqElems fuel a b c d
  tupleElems : ∀ a b c d, rOk (De.tupleElems fuel a b c d) = true → De.tupleElems (fuel + 1) a b c d = De.tupleElems fuel a b c d
  deserMapLike : ∀ a b c, rOk (De.deserMapLike fuel a b c) = true → De.deserMapLike (fuel + 1) a b c = De.deserMapLike fuel a b c
  mapEntries : ∀ a b c d e f, rOk (De.mapEntries fuel a b c d e f) = true → De.mapEntries (fuel + 1) a b c d e f = De.mapEntries fuel a b c d e f
  structEntries : ∀ a b c d e f, rOk (De.structEntries fuel a b c d e f) = true → De.structEntries (fuel + 1) a b c d e f = De.structEntries fuel a b c d e f
  nextKey : ∀ a b c d, rOk (De.nextKey fuel a b c d) = true → De.nextKey (fuel + 1) a b c d = De.nextKey fuel a b c d
  deserKey : ∀ a b c d, eOk (De.deserKey fuel a b c d) = true → De.deserKey (fuel + 1) a b c d = De.deserKey fuel a b c d
  nextValue : ∀ a b c d, rOk (De.nextValue fuel a b c d) = true → De.nextValue (fuel + 1) a b c d = De.nextValue fuel a b c d
  deserEnum : ∀ a b c d, rOk (De.deserEnum fuel a b c d) = true → De.deserEnum (fuel + 1) a b c d = De.deserEnum fuel a b c d
  collectTaggedSeq : ∀ a b c, rOk (De.collectTaggedSeq fuel a b c) = true → De.collectTaggedSeq (fuel + 1) a b c = De.collectTaggedSeq fuel a b c
  variantPayload : ∀ a b c d e f g, rOk (De.variantPayload fuel a b c d e f g) = true → De.variantPayload (fuel + 1) a b c d e f g = De.variantPayload fuel a b c d e f g

theorem MonoA.toR {fuel : Nat} (h : MonoA fuel) : MonoR fuel where
  capture := fun a => (h.capture a).eq_of_ok
  captureSeq := fun a b c => (h.captureSeq a b c).eq_of_ok
  captureMap := fun a b c => (h.captureMap a b c).eq_of_ok
  pendingFromEvents := fun a b c => (h.pendingFromEvents a b c).eq_of_ok
  mergeSeqBatches := fun a b => (h.mergeSeqBatches a b).eq_of_ok
  pendingFromLive := fun a b => (h.pendingFromLive a b).eq_of_ok
  collectEntriesFromMap := fun a b => (h.collectEntriesFromMap a b).eq_of_ok
  collectLoop := fun a b c d => (h.collectLoop a b c d).eq_of_ok
  skipOneNode := fun a => (h.skipOneNode a).eq_of_ok
  skipDepth := fun a b => (h.skipDepth a b).eq_of_ok
  deser := fun a b c d e => (h.deser a b c d e).eq_of_ok
  bytesLoop := fun a b c => (h.bytesLoop a b c).eq_of_ok
  deserSeqLike := fun a b c => (h.deserSeqLike a b c).eq_of_ok
  seqElems := fun a b c d => (h.seqElems a b c d).eq_of_ok
  tupleElems := fun a b c d => (h.tupleElems a b c d).eq_of_ok
  deserMapLike := fun a b c => (h.deserMapLike a b c).eq_of_ok
  mapEntries := fun a b c d e f => (h.mapEntries a b c d e f).eq_of_ok
  structEntries := fun a b c d e f => (h.structEntries a b c d e f).eq_of_ok
  nextKey := fun a b c d => (h.nextKey a b c d).eq_of_ok
  deserKey := fun a b c d => (h.deserKey a b c d).eq_of_ok
  nextValue := fun a b c d => (h.nextValue a b c d).eq_of_ok
  deserEnum := fun a b c d => (h.deserEnum a b c d).eq_of_ok
  collectTaggedSeq := fun a b c => (h.collectTaggedSeq a b c).eq_of_ok
  variantPayload := fun a b c d e f g => (h.variantPayload a b c d e f g).eq_of_ok

/-- close a goal whose left side is an error, whose sides agree, or which is an instance of the induction hypothesis -/
macro "mono_close" : tactic =>
  `(tactic| first
      | exact MLe.err _ _ _
      | exact MLe.refl _
      | exact MLeE.err _ _
      | exact MLeE.refl _
      | exact MonoA.capture ‹MonoA _› _
      | exact MonoA.captureSeq ‹MonoA _› _ _ _
      | exact MonoA.captureMap ‹MonoA _› _ _ _
      | exact MonoA.pendingFromEvents ‹MonoA _› _ _ _
      | exact MonoA.mergeSeqBatches ‹MonoA _› _ _
      | exact MonoA.pendingFromLive ‹MonoA _› _ _
      | exact MonoA.collectEntriesFromMap ‹MonoA _› _ _
      | exact MonoA.collectLoop ‹MonoA _› _ _ _ _
      | exact MonoA.skipOneNode ‹MonoA _› _
      | exact MonoA.skipDepth ‹MonoA _› _ _
      | exact MonoA.deser ‹MonoA _› _ _ _ _ _
      | exact MonoA.bytesLoop ‹MonoA _› _ _ _
      | exact MonoA.deserSeqLike ‹MonoA _› _ _ _
      | exact MonoA.seqElems ‹MonoA _› _ _ _ _
      | exact MonoA.tupleElems ‹MonoA _› _ _ _ _
      | exact MonoA.deserMapLike ‹MonoA _› _ _ _
      | exact MonoA.mapEntries ‹MonoA _› _ _ _ _ _ _
      | exact MonoA.structEntries ‹MonoA _› _ _ _ _ _ _
      | exact MonoA.nextKey ‹MonoA _› _ _ _ _
      | exact MonoA.deserKey ‹MonoA _› _ _ _ _
      | exact MonoA.nextValue ‹MonoA _› _ _ _ _
      | exact MonoA.deserEnum ‹MonoA _› _ _ _ _
      | exact MonoA.collectTaggedSeq ‹MonoA _› _ _ _
      | exact MonoA.variantPayload ‹MonoA _› _ _ _ _ _ _ _)

/-- bring the rewrite rules of the induction hypothesis into the context -/
macro "mono_setup" ih:ident : tactic =>
  `(tactic| (
    have := (MonoA.toR $ih).capture
    have := (MonoA.toR $ih).captureSeq
    have := (MonoA.toR $ih).captureMap
    have := (MonoA.toR $ih).pendingFromEvents
    have := (MonoA.toR $ih).mergeSeqBatches
    have := (MonoA.toR $ih).pendingFromLive
    have := (MonoA.toR $ih).collectEntriesFromMap
    have := (MonoA.toR $ih).collectLoop
    have := (MonoA.toR $ih).skipOneNode
    have := (MonoA.toR $ih).skipDepth
    have := (MonoA.toR $ih).deser
    have := (MonoA.toR $ih).bytesLoop
    have := (MonoA.toR $ih).deserSeqLike
    have := (MonoA.toR $ih).seqElems
    have := (MonoA.toR $ih).tupleElems
    have := (MonoA.toR $ih).deserMapLike
    have := (MonoA.toR $ih).mapEntries
    have := (MonoA.toR $ih).structEntries
    have := (MonoA.toR $ih).nextKey
    have := (MonoA.toR $ih).deserKey
    have := (MonoA.toR $ih).nextValue
    have := (MonoA.toR $ih).deserEnum
    have := (MonoA.toR $ih).collectTaggedSeq
    have := (MonoA.toR $ih).variantPayload
  ))

/-- close trivial goals, rewrite with the hypotheses (scrutinee equations and induction hypothesis), or split -/
macro "mono_loop" : tactic =>
  `(tactic| repeat' (first | mono_close | simp only [*, rOk_ok, eOk_ok] | split))

theorem capture_monoStep {fuel : Nat} (ih : MonoA fuel) : ∀ a, MLe (De.capture (fuel + 1) a) (De.capture (fuel + 1 + 1) a) := by
  intro a
  mono_setup ih
  rw [De.capture, De.capture]
  mono_loop

theorem captureSeq_monoStep {fuel : Nat} (ih : MonoA fuel) : ∀ a b c, MLe (De.captureSeq (fuel + 1) a b c) (De.captureSeq (fuel + 1 + 1) a b c) := by
  intro a b c
  mono_setup ih
  rw [De.captureSeq, De.captureSeq]
  mono_loop

theorem captureMap_monoStep {fuel : Nat} (ih : MonoA fuel) : ∀ a b c, MLe (De.captureMap (fuel + 1) a b c) (De.captureMap (fuel + 1 + 1) a b c) := by
  intro a b c
  mono_setup ih
  rw [De.captureMap, De.captureMap]
  mono_loop

theorem pendingFromEvents_monoStep {fuel : Nat} (ih : MonoA fuel) : ∀ a b c, MLeE (De.pendingFromEvents (fuel + 1) a b c) (De.pendingFromEvents (fuel + 1 + 1) a b c) := by
  intro a b c
  mono_setup ih
  rw [De.pendingFromEvents, De.pendingFromEvents]
  mono_loop

theorem mergeSeqBatches_monoStep {fuel : Nat} (ih : MonoA fuel) : ∀ a b, MLe (De.mergeSeqBatches (fuel + 1) a b) (De.mergeSeqBatches (fuel + 1 + 1) a b) := by
  intro a b
  mono_setup ih
  rw [De.mergeSeqBatches, De.mergeSeqBatches]
  mono_loop

theorem pendingFromLive_monoStep {fuel : Nat} (ih : MonoA fuel) : ∀ a b, MLe (De.pendingFromLive (fuel + 1) a b) (De.pendingFromLive (fuel + 1 + 1) a b) := by
  intro a b
  mono_setup ih
  rw [De.pendingFromLive, De.pendingFromLive]
  mono_loop

theorem collectEntriesFromMap_monoStep {fuel : Nat} (ih : MonoA fuel) : ∀ a b, MLe (De.collectEntriesFromMap (fuel + 1) a b) (De.collectEntriesFromMap (fuel + 1 + 1) a b) := by
  intro a b
  mono_setup ih
  rw [De.collectEntriesFromMap, De.collectEntriesFromMap]
  mono_loop

theorem collectLoop_monoStep {fuel : Nat} (ih : MonoA fuel) : ∀ a b c d, MLe (De.collectLoop (fuel + 1) a b c d) (De.collectLoop (fuel + 1 + 1) a b c d) := by
  intro a b c d
  mono_setup ih
  rw [De.collectLoop, De.collectLoop]
  mono_loop

theorem skipOneNode_monoStep {fuel : Nat} (ih : MonoA fuel) : ∀ a, MLe (De.skipOneNode (fuel + 1) a) (De.skipOneNode (fuel + 1 + 1) a) := by
  intro a
  mono_setup ih
  rw [De.skipOneNode, De.skipOneNode]
  mono_loop

theorem skipDepth_monoStep {fuel : Nat} (ih : MonoA fuel) : ∀ a b, MLe (De.skipDepth (fuel + 1) a b) (De.skipDepth (fuel + 1 + 1) a b) := by
  intro a b
  mono_setup ih
  rw [De.skipDepth, De.skipDepth]
  mono_loop

theorem deser_monoStep {fuel : Nat} (ih : MonoA fuel) : ∀ a b c d e, MLe (De.deser (fuel + 1) a b c d e) (De.deser (fuel + 1 + 1) a b c d e) := by
  intro a b c d e
  mono_setup ih
  rw [De.deser.eq_def, De.deser.eq_def]
  mono_loop

theorem bytesLoop_monoStep {fuel : Nat} (ih : MonoA fuel) : ∀ a b c, MLe (De.bytesLoop (fuel + 1) a b c) (De.bytesLoop (fuel + 1 + 1) a b c) := by
  intro a b c
  mono_setup ih
  rw [De.bytesLoop, De.bytesLoop]
  mono_loop

theorem deserSeqLike_monoStep {fuel : Nat} (ih : MonoA fuel) : ∀ a b c, MLe (De.deserSeqLike (fuel + 1) a b c) (De.deserSeqLike (fuel + 1 + 1) a b c) := by
  intro a b c
  mono_setup ih
  cases b <;> rw [De.deserSeqLike, De.deserSeqLike]
  mono_loop

theorem seqElems_monoStep {fuel : Nat} (ih : MonoA fuel) : ∀ a b c d, MLe (De.seqElems (fuel + 1) a b c d) (De.seqElems (fuel + 1 + 1) a b c d) := by
  intro a b c d
  mono_setup ih
  rw [De.seqElems, De.seqElems]
  mono_loop

theorem tupleElems_monoStep {fuel : Nat} (ih : MonoA fuel) : ∀ a b c d, MLe (De.tupleElems (fuel + 1) a b c d) (De.tupleElems (fuel + 1 + 1) a b c d) := by
  intro a b c d
  mono_setup ih
  cases b <;> rw [De.tupleElems, De.tupleElems]
  mono_loop

theorem deserMapLike_monoStep {fuel : Nat} (ih : MonoA fuel) : ∀ a b c, MLe (De.deserMapLike (fuel + 1) a b c) (De.deserMapLike (fuel + 1 + 1) a b c) := by
  intro a b c
  mono_setup ih
  rw [De.deserMapLike, De.deserMapLike]
  mono_loop

theorem mapEntries_monoStep {fuel : Nat} (ih : MonoA fuel) : ∀ a b c d e f, MLe (De.mapEntries (fuel + 1) a b c d e f) (De.mapEntries (fuel + 1 + 1) a b c d e f) := by
  intro a b c d e f
  mono_setup ih
  rw [De.mapEntries, De.mapEntries]
  mono_loop

theorem structEntries_monoStep {fuel : Nat} (ih : MonoA fuel) : ∀ a b c d e f, MLe (De.structEntries (fuel + 1) a b c d e f) (De.structEntries (fuel + 1 + 1) a b c d e f) := by
  intro a b c d e f
  mono_setup ih
  rw [De.structEntries, De.structEntries]
  mono_loop

theorem nextKey_monoStep {fuel : Nat} (ih : MonoA fuel) : ∀ a b c d, MLe (De.nextKey (fuel + 1) a b c d) (De.nextKey (fuel + 1 + 1) a b c d) := by
  intro a b c d
  mono_setup ih
  rw [De.nextKey, De.nextKey]
  mono_loop

theorem deserKey_monoStep {fuel : Nat} (ih : MonoA fuel) : ∀ a b c d, MLeE (De.deserKey (fuel + 1) a b c d) (De.deserKey (fuel + 1 + 1) a b c d) := by
  intro a b c d
  mono_setup ih
  rw [De.deserKey.eq_def, De.deserKey.eq_def]
  mono_loop

theorem nextValue_monoStep {fuel : Nat} (ih : MonoA fuel) : ∀ a b c d, MLe (De.nextValue (fuel + 1) a b c d) (De.nextValue (fuel + 1 + 1) a b c d) := by
  intro a b c d
  mono_setup ih
  rw [De.nextValue, De.nextValue]
  mono_loop

theorem deserEnum_monoStep {fuel : Nat} (ih : MonoA fuel) : ∀ a b c d, MLe (De.deserEnum (fuel + 1) a b c d) (De.deserEnum (fuel + 1 + 1) a b c d) := by
  intro a b c d
  mono_setup ih
  rw [De.deserEnum, De.deserEnum]
  mono_loop

theorem collectTaggedSeq_monoStep {fuel : Nat} (ih : MonoA fuel) : ∀ a b c, MLe (De.collectTaggedSeq (fuel + 1) a b c) (De.collectTaggedSeq (fuel + 1 + 1) a b c) := by
  intro a b c
  mono_setup ih
  rw [De.collectTaggedSeq, De.collectTaggedSeq]
  mono_loop

theorem variantPayload_monoStep {fuel : Nat} (ih : MonoA fuel) : ∀ a b c d e f g, MLe (De.variantPayload (fuel + 1) a b c d e f g) (De.variantPayload (fuel + 1 + 1) a b c d e f g) := by
  intro a b c d e f g
  mono_setup ih
  rw [De.variantPayload, De.variantPayload]
  mono_loop

theorem monoA : ∀ fuel, MonoA fuel
  | 0 => by
    constructor
    · intro a; rw [De.capture]; mono_close
    · intro a b c; rw [De.captureSeq]; mono_close
    · intro a b c; rw [De.captureMap]; mono_close
    · intro a b c; rw [De.pendingFromEvents]; mono_close
    · intro a b; rw [De.mergeSeqBatches]; mono_close
    · intro a b; rw [De.pendingFromLive]; mono_close
    · intro a b; rw [De.collectEntriesFromMap]; mono_close
    · intro a b c d; rw [De.collectLoop]; mono_close
    · intro a; rw [De.skipOneNode]; mono_close
    · intro a b; rw [De.skipDepth]; mono_close
    · intro a b c d e; rw [De.deser]; mono_close
    · intro a b c; rw [De.bytesLoop]; mono_close
    · intro a b c; rw [De.deserSeqLike]; mono_close
    · intro a b c d; rw [De.seqElems]; mono_close
    · intro a b c d; rw [De.tupleElems]; mono_close
    · intro a b c; rw [De.deserMapLike]; mono_close
    · intro a b c d e f; rw [De.mapEntries]; mono_close
    · intro a b c d e f; rw [De.structEntries]; mono_close
    · intro a b c d; rw [De.nextKey]; mono_close
    · intro a b c d; rw [De.deserKey]; mono_close
    · intro a b c d; rw [De.nextValue]; mono_close
    · intro a b c d; rw [De.deserEnum]; mono_close
    · intro a b c; rw [De.collectTaggedSeq]; mono_close
    · intro a b c d e f g; rw [De.variantPayload]; mono_close
  | fuel + 1 =>
    have ih := monoA fuel
    {
      capture := capture_monoStep ih
      captureSeq := captureSeq_monoStep ih
      captureMap := captureMap_monoStep ih
      pendingFromEvents := pendingFromEvents_monoStep ih
      mergeSeqBatches := mergeSeqBatches_monoStep ih
      pendingFromLive := pendingFromLive_monoStep ih
      collectEntriesFromMap := collectEntriesFromMap_monoStep ih
      collectLoop := collectLoop_monoStep ih
      skipOneNode := skipOneNode_monoStep ih
      skipDepth := skipDepth_monoStep ih
      deser := deser_monoStep ih
      bytesLoop := bytesLoop_monoStep ih
      deserSeqLike := deserSeqLike_monoStep ih
      seqElems := seqElems_monoStep ih
      tupleElems := tupleElems_monoStep ih
      deserMapLike := deserMapLike_monoStep ih
      mapEntries := mapEntries_monoStep ih
      structEntries := structEntries_monoStep ih
      nextKey := nextKey_monoStep ih
      deserKey := deserKey_monoStep ih
      nextValue := nextValue_monoStep ih
      deserEnum := deserEnum_monoStep ih
      collectTaggedSeq := collectTaggedSeq_monoStep ih
      variantPayload := variantPayload_monoStep ih
    }

/-! ### exported corollaries -/

theorem MLe.of_le {α : Type} {f : Nat → R α} (hstep : ∀ n, MLe (f n) (f (n + 1))) {n m : Nat} (hle : n ≤ m)
    {a : α} {c : Cur} (h : f n = .ok a c) : f m = .ok a c := by
  induction hle with
  | refl => exact h
  | step _ ih => exact hstep _ _ _ ih

theorem MLeE.of_le {α : Type} {f : Nat → Except DErr α} (hstep : ∀ n, MLeE (f n) (f (n + 1))) {n m : Nat} (hle : n ≤ m)
    {a : α} (h : f n = .ok a) : f m = .ok a := by
  induction hle with
  | refl => exact h
  | step _ ih => exact hstep _ _ ih

theorem capture_mono {fuel : Nat} {c : Cur} {c' : Cur} {r : KeyNode}
    (h : De.capture fuel c = .ok r c') : De.capture (fuel + 1) c = .ok r c' :=
  (monoA fuel).capture _ _ _ h

theorem capture_mono_le {fuel fuel' : Nat} {c : Cur} {c' : Cur} {r : KeyNode}
    (hle : fuel ≤ fuel') (h : De.capture fuel c = .ok r c') : De.capture fuel' c = .ok r c' :=
  MLe.of_le (f := fun n => De.capture n c) (fun n => (monoA n).capture _) hle h

theorem captureSeq_mono {fuel : Nat} {c : Cur} {fps : List FP} {evs : List Ev} {c' : Cur} {r : List FP × List Ev}
    (h : De.captureSeq fuel c fps evs = .ok r c') : De.captureSeq (fuel + 1) c fps evs = .ok r c' :=
  (monoA fuel).captureSeq _ _ _ _ _ h

theorem captureSeq_mono_le {fuel fuel' : Nat} {c : Cur} {fps : List FP} {evs : List Ev} {c' : Cur} {r : List FP × List Ev}
    (hle : fuel ≤ fuel') (h : De.captureSeq fuel c fps evs = .ok r c') : De.captureSeq fuel' c fps evs = .ok r c' :=
  MLe.of_le (f := fun n => De.captureSeq n c fps evs) (fun n => (monoA n).captureSeq _ _ _) hle h

theorem captureMap_mono {fuel : Nat} {c : Cur} {fps : List (FP × FP)} {evs : List Ev} {c' : Cur} {r : List (FP × FP) × List Ev}
    (h : De.captureMap fuel c fps evs = .ok r c') : De.captureMap (fuel + 1) c fps evs = .ok r c' :=
  (monoA fuel).captureMap _ _ _ _ _ h

theorem captureMap_mono_le {fuel fuel' : Nat} {c : Cur} {fps : List (FP × FP)} {evs : List Ev} {c' : Cur} {r : List (FP × FP) × List Ev}
    (hle : fuel ≤ fuel') (h : De.captureMap fuel c fps evs = .ok r c') : De.captureMap fuel' c fps evs = .ok r c' :=
  MLe.of_le (f := fun n => De.captureMap n c fps evs) (fun n => (monoA n).captureMap _ _ _) hle h

theorem pendingFromEvents_mono {fuel : Nat} {events : List Ev} {location ref : Loc} {r : List PendingEntry}
    (h : De.pendingFromEvents fuel events location ref = .ok r) : De.pendingFromEvents (fuel + 1) events location ref = .ok r :=
  (monoA fuel).pendingFromEvents _ _ _ _ h

theorem pendingFromEvents_mono_le {fuel fuel' : Nat} {events : List Ev} {location ref : Loc} {r : List PendingEntry}
    (hle : fuel ≤ fuel') (h : De.pendingFromEvents fuel events location ref = .ok r) : De.pendingFromEvents fuel' events location ref = .ok r :=
  MLeE.of_le (f := fun n => De.pendingFromEvents n events location ref) (fun n => (monoA n).pendingFromEvents _ _ _) hle h

theorem mergeSeqBatches_mono {fuel : Nat} {c : Cur} {batches : List (List PendingEntry)} {c' : Cur} {r : List (List PendingEntry)}
    (h : De.mergeSeqBatches fuel c batches = .ok r c') : De.mergeSeqBatches (fuel + 1) c batches = .ok r c' :=
  (monoA fuel).mergeSeqBatches _ _ _ _ h

theorem mergeSeqBatches_mono_le {fuel fuel' : Nat} {c : Cur} {batches : List (List PendingEntry)} {c' : Cur} {r : List (List PendingEntry)}
    (hle : fuel ≤ fuel') (h : De.mergeSeqBatches fuel c batches = .ok r c') : De.mergeSeqBatches fuel' c batches = .ok r c' :=
  MLe.of_le (f := fun n => De.mergeSeqBatches n c batches) (fun n => (monoA n).mergeSeqBatches _ _) hle h

theorem pendingFromLive_mono {fuel : Nat} {c : Cur} {mergeRef : Loc} {c' : Cur} {r : List PendingEntry}
    (h : De.pendingFromLive fuel c mergeRef = .ok r c') : De.pendingFromLive (fuel + 1) c mergeRef = .ok r c' :=
  (monoA fuel).pendingFromLive _ _ _ _ h

theorem pendingFromLive_mono_le {fuel fuel' : Nat} {c : Cur} {mergeRef : Loc} {c' : Cur} {r : List PendingEntry}
    (hle : fuel ≤ fuel') (h : De.pendingFromLive fuel c mergeRef = .ok r c') : De.pendingFromLive fuel' c mergeRef = .ok r c' :=
  MLe.of_le (f := fun n => De.pendingFromLive n c mergeRef) (fun n => (monoA n).pendingFromLive _ _) hle h

theorem collectEntriesFromMap_mono {fuel : Nat} {c : Cur} {ref : Loc} {c' : Cur} {r : List PendingEntry}
    (h : De.collectEntriesFromMap fuel c ref = .ok r c') : De.collectEntriesFromMap (fuel + 1) c ref = .ok r c' :=
  (monoA fuel).collectEntriesFromMap _ _ _ _ h

theorem collectEntriesFromMap_mono_le {fuel fuel' : Nat} {c : Cur} {ref : Loc} {c' : Cur} {r : List PendingEntry}
    (hle : fuel ≤ fuel') (h : De.collectEntriesFromMap fuel c ref = .ok r c') : De.collectEntriesFromMap fuel' c ref = .ok r c' :=
  MLe.of_le (f := fun n => De.collectEntriesFromMap n c ref) (fun n => (monoA n).collectEntriesFromMap _ _) hle h

theorem collectLoop_mono {fuel : Nat} {c : Cur} {ref : Loc} {fields : List PendingEntry} {merges : List (List PendingEntry)} {c' : Cur} {r : List PendingEntry}
    (h : De.collectLoop fuel c ref fields merges = .ok r c') : De.collectLoop (fuel + 1) c ref fields merges = .ok r c' :=
  (monoA fuel).collectLoop _ _ _ _ _ _ h

theorem collectLoop_mono_le {fuel fuel' : Nat} {c : Cur} {ref : Loc} {fields : List PendingEntry} {merges : List (List PendingEntry)} {c' : Cur} {r : List PendingEntry}
    (hle : fuel ≤ fuel') (h : De.collectLoop fuel c ref fields merges = .ok r c') : De.collectLoop fuel' c ref fields merges = .ok r c' :=
  MLe.of_le (f := fun n => De.collectLoop n c ref fields merges) (fun n => (monoA n).collectLoop _ _ _ _) hle h

theorem skipOneNode_mono {fuel : Nat} {c : Cur} {c' : Cur} {r : Unit}
    (h : De.skipOneNode fuel c = .ok r c') : De.skipOneNode (fuel + 1) c = .ok r c' :=
  (monoA fuel).skipOneNode _ _ _ h

theorem skipOneNode_mono_le {fuel fuel' : Nat} {c : Cur} {c' : Cur} {r : Unit}
    (hle : fuel ≤ fuel') (h : De.skipOneNode fuel c = .ok r c') : De.skipOneNode fuel' c = .ok r c' :=
  MLe.of_le (f := fun n => De.skipOneNode n c) (fun n => (monoA n).skipOneNode _) hle h

theorem skipDepth_mono {fuel : Nat} {c : Cur} {depth : Nat} {c' : Cur} {r : Unit}
    (h : De.skipDepth fuel c depth = .ok r c') : De.skipDepth (fuel + 1) c depth = .ok r c' :=
  (monoA fuel).skipDepth _ _ _ _ h

theorem skipDepth_mono_le {fuel fuel' : Nat} {c : Cur} {depth : Nat} {c' : Cur} {r : Unit}
    (hle : fuel ≤ fuel') (h : De.skipDepth fuel c depth = .ok r c') : De.skipDepth fuel' c depth = .ok r c' :=
  MLe.of_le (f := fun n => De.skipDepth n c depth) (fun n => (monoA n).skipDepth _ _) hle h

theorem deser_mono {fuel : Nat} {cfg : Cfg} {ty : Ty} {ik km : Bool} {c : Cur} {c' : Cur} {v : Val}
    (h : De.deser fuel cfg ty ik km c = .ok v c') : De.deser (fuel + 1) cfg ty ik km c = .ok v c' :=
  (monoA fuel).deser _ _ _ _ _ _ _ h

theorem deser_mono_le {fuel fuel' : Nat} {cfg : Cfg} {ty : Ty} {ik km : Bool} {c : Cur} {c' : Cur} {v : Val}
    (hle : fuel ≤ fuel') (h : De.deser fuel cfg ty ik km c = .ok v c') : De.deser fuel' cfg ty ik km c = .ok v c' :=
  MLe.of_le (f := fun n => De.deser n cfg ty ik km c) (fun n => (monoA n).deser _ _ _ _ _) hle h

theorem bytesLoop_mono {fuel : Nat} {cfg : Cfg} {c : Cur} {acc : List Nat} {c' : Cur} {r : Val}
    (h : De.bytesLoop fuel cfg c acc = .ok r c') : De.bytesLoop (fuel + 1) cfg c acc = .ok r c' :=
  (monoA fuel).bytesLoop _ _ _ _ _ h

theorem bytesLoop_mono_le {fuel fuel' : Nat} {cfg : Cfg} {c : Cur} {acc : List Nat} {c' : Cur} {r : Val}
    (hle : fuel ≤ fuel') (h : De.bytesLoop fuel cfg c acc = .ok r c') : De.bytesLoop fuel' cfg c acc = .ok r c' :=
  MLe.of_le (f := fun n => De.bytesLoop n cfg c acc) (fun n => (monoA n).bytesLoop _ _ _) hle h

theorem deserSeqLike_mono {fuel : Nat} {cfg : Cfg} {shape : Ty ⊕ List Ty} {c : Cur} {c' : Cur} {r : Val}
    (h : De.deserSeqLike fuel cfg shape c = .ok r c') : De.deserSeqLike (fuel + 1) cfg shape c = .ok r c' :=
  (monoA fuel).deserSeqLike _ _ _ _ _ h

theorem deserSeqLike_mono_le {fuel fuel' : Nat} {cfg : Cfg} {shape : Ty ⊕ List Ty} {c : Cur} {c' : Cur} {r : Val}
    (hle : fuel ≤ fuel') (h : De.deserSeqLike fuel cfg shape c = .ok r c') : De.deserSeqLike fuel' cfg shape c = .ok r c' :=
  MLe.of_le (f := fun n => De.deserSeqLike n cfg shape c) (fun n => (monoA n).deserSeqLike _ _ _) hle h

theorem seqElems_mono {fuel : Nat} {cfg : Cfg} {t : Ty} {c : Cur} {acc : List Val} {c' : Cur} {r : List Val}
    (h : De.seqElems fuel cfg t c acc = .ok r c') : De.seqElems (fuel + 1) cfg t c acc = .ok r c' :=
  (monoA fuel).seqElems _ _ _ _ _ _ h

theorem seqElems_mono_le {fuel fuel' : Nat} {cfg : Cfg} {t : Ty} {c : Cur} {acc : List Val} {c' : Cur} {r : List Val}
    (hle : fuel ≤ fuel') (h : De.seqElems fuel cfg t c acc = .ok r c') : De.seqElems fuel' cfg t c acc = .ok r c' :=
  MLe.of_le (f := fun n => De.seqElems n cfg t c acc) (fun n => (monoA n).seqElems _ _ _ _) hle h

theorem tupleElems_mono {fuel : Nat} {cfg : Cfg} {ts : List Ty} {c : Cur} {acc : List Val} {c' : Cur} {r : List Val}
    (h : De.tupleElems fuel cfg ts c acc = .ok r c') : De.tupleElems (fuel + 1) cfg ts c acc = .ok r c' :=
  (monoA fuel).tupleElems _ _ _ _ _ _ h

theorem tupleElems_mono_le {fuel fuel' : Nat} {cfg : Cfg} {ts : List Ty} {c : Cur} {acc : List Val} {c' : Cur} {r : List Val}
    (hle : fuel ≤ fuel') (h : De.tupleElems fuel cfg ts c acc = .ok r c') : De.tupleElems fuel' cfg ts c acc = .ok r c' :=
  MLe.of_le (f := fun n => De.tupleElems n cfg ts c acc) (fun n => (monoA n).tupleElems _ _ _ _) hle h

theorem deserMapLike_mono {fuel : Nat} {cfg : Cfg} {shape : (Ty × Ty) ⊕ (List (String × Ty) × Bool)} {c : Cur} {c' : Cur} {r : Val}
    (h : De.deserMapLike fuel cfg shape c = .ok r c') : De.deserMapLike (fuel + 1) cfg shape c = .ok r c' :=
  (monoA fuel).deserMapLike _ _ _ _ _ h

theorem deserMapLike_mono_le {fuel fuel' : Nat} {cfg : Cfg} {shape : (Ty × Ty) ⊕ (List (String × Ty) × Bool)} {c : Cur} {c' : Cur} {r : Val}
    (hle : fuel ≤ fuel') (h : De.deserMapLike fuel cfg shape c = .ok r c') : De.deserMapLike fuel' cfg shape c = .ok r c' :=
  MLe.of_le (f := fun n => De.deserMapLike n cfg shape c) (fun n => (monoA n).deserMapLike _ _ _) hle h

theorem mapEntries_mono {fuel : Nat} {cfg : Cfg} {kt vt : Ty} {c : Cur} {m : MA} {acc : List (Val × Val)} {c' : Cur} {r : List (Val × Val)}
    (h : De.mapEntries fuel cfg kt vt c m acc = .ok r c') : De.mapEntries (fuel + 1) cfg kt vt c m acc = .ok r c' :=
  (monoA fuel).mapEntries _ _ _ _ _ _ _ _ h

theorem mapEntries_mono_le {fuel fuel' : Nat} {cfg : Cfg} {kt vt : Ty} {c : Cur} {m : MA} {acc : List (Val × Val)} {c' : Cur} {r : List (Val × Val)}
    (hle : fuel ≤ fuel') (h : De.mapEntries fuel cfg kt vt c m acc = .ok r c') : De.mapEntries fuel' cfg kt vt c m acc = .ok r c' :=
  MLe.of_le (f := fun n => De.mapEntries n cfg kt vt c m acc) (fun n => (monoA n).mapEntries _ _ _ _ _ _) hle h

theorem structEntries_mono {fuel : Nat} {cfg : Cfg} {fields : List (String × Ty)} {deny : Bool} {c : Cur} {m : MA} {acc : List (String × Val)} {c' : Cur} {r : List (String × Val)}
    (h : De.structEntries fuel cfg fields deny c m acc = .ok r c') : De.structEntries (fuel + 1) cfg fields deny c m acc = .ok r c' :=
  (monoA fuel).structEntries _ _ _ _ _ _ _ _ h

theorem structEntries_mono_le {fuel fuel' : Nat} {cfg : Cfg} {fields : List (String × Ty)} {deny : Bool} {c : Cur} {m : MA} {acc : List (String × Val)} {c' : Cur} {r : List (String × Val)}
    (hle : fuel ≤ fuel') (h : De.structEntries fuel cfg fields deny c m acc = .ok r c') : De.structEntries fuel' cfg fields deny c m acc = .ok r c' :=
  MLe.of_le (f := fun n => De.structEntries n cfg fields deny c m acc) (fun n => (monoA n).structEntries _ _ _ _ _ _) hle h

theorem nextKey_mono {fuel : Nat} {cfg : Cfg} {kseed : Ty ⊕ Unit} {c : Cur} {m : MA} {c' : Cur} {r : KeyStep × MA}
    (h : De.nextKey fuel cfg kseed c m = .ok r c') : De.nextKey (fuel + 1) cfg kseed c m = .ok r c' :=
  (monoA fuel).nextKey _ _ _ _ _ _ h

theorem nextKey_mono_le {fuel fuel' : Nat} {cfg : Cfg} {kseed : Ty ⊕ Unit} {c : Cur} {m : MA} {c' : Cur} {r : KeyStep × MA}
    (hle : fuel ≤ fuel') (h : De.nextKey fuel cfg kseed c m = .ok r c') : De.nextKey fuel' cfg kseed c m = .ok r c' :=
  MLe.of_le (f := fun n => De.nextKey n cfg kseed c m) (fun n => (monoA n).nextKey _ _ _ _) hle h

theorem deserKey_mono {fuel : Nat} {cfg : Cfg} {kseed : Ty ⊕ Unit} {events : List Ev} {kemn : Bool} {r : Val}
    (h : De.deserKey fuel cfg kseed events kemn = .ok r) : De.deserKey (fuel + 1) cfg kseed events kemn = .ok r :=
  (monoA fuel).deserKey _ _ _ _ _ h

theorem deserKey_mono_le {fuel fuel' : Nat} {cfg : Cfg} {kseed : Ty ⊕ Unit} {events : List Ev} {kemn : Bool} {r : Val}
    (hle : fuel ≤ fuel') (h : De.deserKey fuel cfg kseed events kemn = .ok r) : De.deserKey fuel' cfg kseed events kemn = .ok r :=
  MLeE.of_le (f := fun n => De.deserKey n cfg kseed events kemn) (fun n => (monoA n).deserKey _ _ _ _) hle h

theorem nextValue_mono {fuel : Nat} {cfg : Cfg} {vt : Ty} {c : Cur} {m : MA} {c' : Cur} {r : Val × MA}
    (h : De.nextValue fuel cfg vt c m = .ok r c') : De.nextValue (fuel + 1) cfg vt c m = .ok r c' :=
  (monoA fuel).nextValue _ _ _ _ _ _ h

theorem nextValue_mono_le {fuel fuel' : Nat} {cfg : Cfg} {vt : Ty} {c : Cur} {m : MA} {c' : Cur} {r : Val × MA}
    (hle : fuel ≤ fuel') (h : De.nextValue fuel cfg vt c m = .ok r c') : De.nextValue fuel' cfg vt c m = .ok r c' :=
  MLe.of_le (f := fun n => De.nextValue n cfg vt c m) (fun n => (monoA n).nextValue _ _ _ _) hle h

theorem deserEnum_mono {fuel : Nat} {cfg : Cfg} {name : String} {variants : List (String × VTy)} {c : Cur} {c' : Cur} {r : Val}
    (h : De.deserEnum fuel cfg name variants c = .ok r c') : De.deserEnum (fuel + 1) cfg name variants c = .ok r c' :=
  (monoA fuel).deserEnum _ _ _ _ _ _ h

theorem deserEnum_mono_le {fuel fuel' : Nat} {cfg : Cfg} {name : String} {variants : List (String × VTy)} {c : Cur} {c' : Cur} {r : Val}
    (hle : fuel ≤ fuel') (h : De.deserEnum fuel cfg name variants c = .ok r c') : De.deserEnum fuel' cfg name variants c = .ok r c' :=
  MLe.of_le (f := fun n => De.deserEnum n cfg name variants c) (fun n => (monoA n).deserEnum _ _ _ _) hle h

theorem collectTaggedSeq_mono {fuel : Nat} {c : Cur} {depth : Nat} {acc : List Ev} {c' : Cur} {r : List Ev}
    (h : De.collectTaggedSeq fuel c depth acc = .ok r c') : De.collectTaggedSeq (fuel + 1) c depth acc = .ok r c' :=
  (monoA fuel).collectTaggedSeq _ _ _ _ _ h

theorem collectTaggedSeq_mono_le {fuel fuel' : Nat} {c : Cur} {depth : Nat} {acc : List Ev} {c' : Cur} {r : List Ev}
    (hle : fuel ≤ fuel') (h : De.collectTaggedSeq fuel c depth acc = .ok r c') : De.collectTaggedSeq fuel' c depth acc = .ok r c' :=
  MLe.of_le (f := fun n => De.collectTaggedSeq n c depth acc) (fun n => (monoA n).collectTaggedSeq _ _ _) hle h

theorem variantPayload_mono {fuel : Nat} {cfg : Cfg} {variants : List (String × VTy)} {vname : List Char} {vloc : Loc} {mapMode tagged : Bool} {c : Cur} {c' : Cur} {r : Val}
    (h : De.variantPayload fuel cfg variants vname vloc mapMode tagged c = .ok r c') : De.variantPayload (fuel + 1) cfg variants vname vloc mapMode tagged c = .ok r c' :=
  (monoA fuel).variantPayload _ _ _ _ _ _ _ _ _ h

theorem variantPayload_mono_le {fuel fuel' : Nat} {cfg : Cfg} {variants : List (String × VTy)} {vname : List Char} {vloc : Loc} {mapMode tagged : Bool} {c : Cur} {c' : Cur} {r : Val}
    (hle : fuel ≤ fuel') (h : De.variantPayload fuel cfg variants vname vloc mapMode tagged c = .ok r c') : De.variantPayload fuel' cfg variants vname vloc mapMode tagged c = .ok r c' :=
  MLe.of_le (f := fun n => De.variantPayload n cfg variants vname vloc mapMode tagged c) (fun n => (monoA n).variantPayload _ _ _ _ _ _ _) hle h

#print axioms deser_mono_le
#print axioms nextKey_mono_le
#print axioms deserKey_mono_le

end SaphyrVerif.Lemmas.C05
