import SaphyrVerif.Model.SerScalar
import SaphyrVerif.Model.FloatDec
/-!
Helper lemmas for C12, floats: `push_float_string`'s normalisation of zmij's digit string.
zmij is external; its documented output shape is `[-]digits[.digits][e[-]digits]`. Strings of that shape
are described by their parts (`ZmijParts`), so "for every string of the shape" is "for all parts".
-/
namespace SaphyrVerif.Lemmas.C12
open SaphyrVerif SaphyrVerif.SerScalar

/-- the parts of a string of zmij's output shape -/
structure ZmijParts where
  neg : Bool
  ip : List Char                          -- integer digits (non-empty)
  fp : Option (List Char)                 -- fraction digits after `.` (non-empty when present)
  exp : Option (Bool × List Char)         -- exponent: negative?, digits (non-empty)

def allDigits (l : List Char) : Prop := ∀ c ∈ l, FloatDec.isDigit c = true

def ZmijParts.wf (p : ZmijParts) : Prop :=
  p.ip ≠ [] ∧ allDigits p.ip ∧
  (∀ f, p.fp = some f → f ≠ [] ∧ allDigits f) ∧
  (∀ en ed, p.exp = some (en, ed) → ed ≠ [] ∧ allDigits ed)

def signText (neg : Bool) : List Char := if neg then ['-'] else []

/-- mantissa text as zmij prints it -/
def ZmijParts.mant (p : ZmijParts) : List Char :=
  signText p.neg ++ p.ip ++ (match p.fp with | some f => '.' :: f | none => [])

/-- the string zmij prints -/
def ZmijParts.text (p : ZmijParts) : List Char :=
  p.mant ++ (match p.exp with | some (en, ed) => 'e' :: (signText en ++ ed) | none => [])

/-- the YAML float text: always a `.` in the mantissa, always a sign in the exponent -/
def ZmijParts.yaml (p : ZmijParts) : List Char :=
  signText p.neg ++ p.ip ++ ('.' :: (match p.fp with | some f => f | none => ['0'])) ++
    (match p.exp with | some (en, ed) => 'e' :: (if en then '-' else '+') :: ed | none => [])

theorem digit_not_e {c : Char} (h : FloatDec.isDigit c = true) : (c == 'e') = false ∧ (c == 'E') = false ∧ (c == '.') = false := by
  simp only [FloatDec.isDigit, Bool.and_eq_true, decide_eq_true_eq] at h
  refine ⟨?_, ?_, ?_⟩ <;> (apply Bool.eq_false_iff.mpr; intro e; have := eq_of_beq e; subst this; revert h; decide)

theorem findIdx_append {p : Char → Bool} (pre : List Char) (x : Char) (post : List Char)
    (h1 : ∀ c ∈ pre, p c = false) (h2 : p x = true) :
    (pre ++ x :: post).findIdx? p = some pre.length := by
  induction pre with
  | nil => simp [List.findIdx?_cons, h2]
  | cons a pre ih =>
    have ha := h1 a (by simp)
    have := ih (fun c hc => h1 c (by simp [hc]))
    simp [List.findIdx?_cons, ha, this]

theorem findIdx_none {p : Char → Bool} (l : List Char) (h : ∀ c ∈ l, p c = false) : l.findIdx? p = none := by
  induction l with
  | nil => rfl
  | cons a l ih =>
    have ha := h a (by simp)
    simp [List.findIdx?_cons, ha, ih (fun c hc => h c (by simp [hc]))]

theorem drop_len_succ (l : List Char) (x : Char) (r : List Char) : (l ++ x :: r).drop (l.length + 1) = r := by
  induction l with
  | nil => rfl
  | cons a l ih => simp [ih]

theorem mant_no_e (p : ZmijParts) (h : p.wf) : ∀ c ∈ p.mant, (c == 'e') = false ∧ (c == 'E') = false := by
  intro c hc
  unfold ZmijParts.mant signText at hc
  simp only [List.mem_append] at hc
  rcases hc with (hc | hc) | hc
  · split at hc
    · simp only [List.mem_singleton] at hc; subst hc; decide
    · cases hc
  · exact ⟨(digit_not_e (h.2.1 c hc)).1, (digit_not_e (h.2.1 c hc)).2.1⟩
  · cases hf : p.fp with
    | none => rw [hf] at hc; cases hc
    | some f =>
      rw [hf] at hc
      simp only [List.mem_cons] at hc
      rcases hc with hc | hc
      · subst hc; decide
      · have := (h.2.2.1 f hf).2 c hc
        exact ⟨(digit_not_e this).1, (digit_not_e this).2.1⟩

theorem mant_contains_dot (p : ZmijParts) (h : p.wf) : p.mant.contains '.' = p.fp.isSome := by
  unfold ZmijParts.mant signText
  have hip : p.ip.contains '.' = false := by
    apply Bool.eq_false_iff.mpr
    intro hc
    have hmem : '.' ∈ p.ip := by simpa using hc
    have := (digit_not_e (h.2.1 _ hmem)).2.2
    simp at this
  cases hf : p.fp with
  | none =>
    cases hn : p.neg <;> simp <;> (intro hm; have := (digit_not_e (h.2.1 _ hm)).2.2; simp at this)
  | some f => cases hn : p.neg <;> simp

/-- `push_float_string` on a finite value: the emitted text, for every string of zmij's shape -/
theorem normalize_parts (p : ZmijParts) (h : p.wf) : normalizeFloatText p.text = p.yaml := by
  unfold normalizeFloatText
  have hdot := mant_contains_dot p h
  cases he : p.exp with
  | none =>
    have htext : p.text = p.mant := by simp [ZmijParts.text, he]
    have hnoe : ∀ c ∈ p.text, (c == 'e') = false ∧ (c == 'E') = false := by rw [htext]; exact mant_no_e p h
    have h1 : p.text.findIdx? (fun c => c == 'e') = none := findIdx_none _ (fun c hc => (hnoe c hc).1)
    have h2 : p.text.findIdx? (fun c => c == 'E') = none := findIdx_none _ (fun c hc => (hnoe c hc).2)
    simp only [h1, h2]
    rw [htext, hdot]
    unfold ZmijParts.yaml ZmijParts.mant
    cases hf : p.fp with
    | none => simp [he]
    | some f => simp [he]
  | some ee =>
    obtain ⟨en, ed⟩ := ee
    have htext : p.text = p.mant ++ 'e' :: (signText en ++ ed) := by simp [ZmijParts.text, he]
    have h1 : p.text.findIdx? (fun c => c == 'e') = some p.mant.length := by
      rw [htext]; exact findIdx_append _ _ _ (fun c hc => (mant_no_e p h c hc).1) (by decide)
    simp only [h1]
    rw [htext]
    simp only [List.take_left', List.drop_left', List.take_succ_cons, List.take_zero]
    have hdrop : List.drop (p.mant.length + 1) (p.mant ++ 'e' :: (signText en ++ ed)) = signText en ++ ed := by
      exact drop_len_succ _ _ _
    rw [hdrop, hdot]
    obtain ⟨hed, hdig⟩ := h.2.2.2 en ed he
    unfold ZmijParts.yaml ZmijParts.mant
    cases ed with
    | nil => exact absurd rfl hed
    | cons d ed' =>
      have hd := hdig d (by simp)
      have hdp : d ≠ '+' ∧ d ≠ '-' := by
        simp only [FloatDec.isDigit, Bool.and_eq_true, decide_eq_true_eq] at hd
        constructor <;> (intro e; subst e; revert hd; decide)
      have hsign : expSignInsert (d :: ed') = ['+'] := by
        unfold expSignInsert
        split
        · next heq => injection heq with h1 _; exact absurd h1 hdp.1
        · next heq => injection heq with h1 _; exact absurd h1 hdp.2
        · rfl
      cases en with
      | true =>
        cases hf : p.fp with
        | none => simp [he, signText, expSignInsert]
        | some f => simp [he, signText, expSignInsert]
      | false =>
        cases hf : p.fp with
        | none => simp [he, signText, hsign]
        | some f => simp [he, signText, hsign]


/-! ### the decimal value of the text (denotation: `FloatDec.parseDec`) -/

theorem tw_append (ds rest : List Char) (hd : allDigits ds)
    (hr : ∀ c r, rest = c :: r → FloatDec.isDigit c = false) :
    (ds ++ rest).takeWhile FloatDec.isDigit = ds ∧ (ds ++ rest).dropWhile FloatDec.isDigit = rest := by
  induction ds with
  | nil =>
    cases rest with
    | nil => exact ⟨rfl, rfl⟩
    | cons c r => simp [hr c r rfl]
  | cons a ds ih =>
    have ha := hd a (by simp)
    have := ih (fun c hc => hd c (by simp [hc]))
    simp [ha, this.1, this.2]

/-- exponent part: `e`, a sign text, digits -/
def expTxt (ex : Option (List Char × List Char)) : List Char :=
  match ex with
  | some (sg, ed) => 'e' :: (sg ++ ed)
  | none => []

def expVal (ex : Option (List Char × List Char)) : Int :=
  match ex with
  | some (sg, ed) => if sg = ['-'] then - (Int.ofNat (FloatDec.digitsVal ed)) else Int.ofNat (FloatDec.digitsVal ed)
  | none => 0

def fracTxt (fp : Option (List Char)) : List Char :=
  match fp with
  | some f => '.' :: f
  | none => []

def fracDigits (fp : Option (List Char)) : List Char :=
  match fp with
  | some f => f
  | none => []

theorem digit_not_sign {c : Char} (h : FloatDec.isDigit c = true) : c ≠ '-' ∧ c ≠ '+' ∧ c ≠ '.' ∧ c ≠ 'e' := by
  simp only [FloatDec.isDigit, Bool.and_eq_true, decide_eq_true_eq] at h
  refine ⟨?_, ?_, ?_, ?_⟩ <;> (intro e; subst e; revert h; decide)

theorem stripSign_digits (c : Char) (r : List Char) (h : FloatDec.isDigit c = true) : FloatDec.stripSign (c :: r) = (false, c :: r) := by
  obtain ⟨h1, h2, _, _⟩ := digit_not_sign h
  unfold FloatDec.stripSign
  split
  · rename_i heq; injection heq with e _; exact absurd e h1
  · rename_i heq; injection heq with e _; exact absurd e h2
  · rfl

theorem parseExp_expTxt (ex : Option (List Char × List Char))
    (h : ∀ sg ed, ex = some (sg, ed) → (sg = [] ∨ sg = ['-'] ∨ sg = ['+']) ∧ ed ≠ [] ∧ allDigits ed) :
    FloatDec.parseExp (expTxt ex) = some (expVal ex) := by
  cases ex with
  | none => rfl
  | some se =>
    obtain ⟨sg, ed⟩ := se
    obtain ⟨hsg, hne, hd⟩ := h sg ed rfl
    have hall : ed.all FloatDec.isDigit = true := List.all_eq_true.mpr hd
    have hemp : ed.isEmpty = false := by cases ed with | nil => exact absurd rfl hne | cons a b => rfl
    cases ed with
    | nil => exact absurd rfl hne
    | cons d ed' =>
      have hdd := hd d (by simp)
      rcases hsg with e | e | e <;> subst e
      · simp only [expTxt, List.nil_append, FloatDec.parseExp, beq_self_eq_true, Bool.true_or, if_true, stripSign_digits d ed' hdd]
        simp [hall, expVal]
      · simp only [expTxt, FloatDec.parseExp, beq_self_eq_true, Bool.true_or, if_true]
        show (match FloatDec.stripSign ('-' :: d :: ed') with | (eneg, dd) => _) = _
        simp [FloatDec.stripSign, hall, expVal]
      · simp only [expTxt, FloatDec.parseExp, beq_self_eq_true, Bool.true_or, if_true]
        show (match FloatDec.stripSign ('+' :: d :: ed') with | (eneg, dd) => _) = _
        simp [FloatDec.stripSign, hall, expVal]

theorem expTxt_head (ex : Option (List Char × List Char)) :
    ∀ c r, expTxt ex = c :: r → FloatDec.isDigit c = false ∧ c ≠ '.' := by
  intro c r h
  cases ex with
  | none => cases h
  | some se => obtain ⟨sg, ed⟩ := se; injection h with h1 _; subst h1; exact ⟨by decide, by decide⟩

theorem splitFrac_render (fp : Option (List Char)) (ex : Option (List Char × List Char))
    (hf : ∀ f, fp = some f → allDigits f) :
    FloatDec.splitFrac (fracTxt fp ++ expTxt ex) = (fracDigits fp, expTxt ex) := by
  cases fp with
  | some f =>
    have := tw_append f (expTxt ex) (hf f rfl) (fun c r h => (expTxt_head ex c r h).1)
    simp [fracTxt, fracDigits, FloatDec.splitFrac, this.1, this.2]
  | none =>
    simp only [fracTxt, fracDigits, List.nil_append]
    unfold FloatDec.splitFrac
    split
    · rename_i t heq; exact absurd rfl (expTxt_head ex '.' t heq).2
    · rfl

/-- value of a rendered decimal: sign, integer digits, optional fraction, optional exponent -/
theorem parseDec_render (neg : Bool) (ip : List Char) (fp : Option (List Char)) (ex : Option (List Char × List Char))
    (hip : ip ≠ []) (hipd : allDigits ip) (hf : ∀ f, fp = some f → allDigits f)
    (hex : ∀ sg ed, ex = some (sg, ed) → (sg = [] ∨ sg = ['-'] ∨ sg = ['+']) ∧ ed ≠ [] ∧ allDigits ed) :
    FloatDec.parseDec (signText neg ++ ip ++ (fracTxt fp ++ expTxt ex)) =
      some (neg, FloatDec.digitsVal (ip ++ fracDigits fp), expVal ex - Int.ofNat (fracDigits fp).length) := by
  have hrest : ∀ c r, fracTxt fp ++ expTxt ex = c :: r → FloatDec.isDigit c = false := by
    intro c r h
    cases fp with
    | some f => simp only [fracTxt, List.cons_append] at h; injection h with h1 _; subst h1; decide
    | none => simp only [fracTxt, List.nil_append] at h; exact (expTxt_head ex c r h).1
  have htw := tw_append ip (fracTxt fp ++ expTxt ex) hipd hrest
  have hstrip : FloatDec.stripSign (signText neg ++ ip ++ (fracTxt fp ++ expTxt ex)) = (neg, ip ++ (fracTxt fp ++ expTxt ex)) := by
    cases neg with
    | true => simp [signText, FloatDec.stripSign]
    | false =>
      cases ip with
      | nil => exact absurd rfl hip
      | cons d ip' => simpa [signText] using stripSign_digits d _ (hipd d (by simp))
  unfold FloatDec.parseDec
  rw [hstrip]
  simp only [htw.1, htw.2, splitFrac_render fp ex hf, parseExp_expTxt ex hex]
  have : ip.isEmpty = false := by cases ip with | nil => exact absurd rfl hip | cons a b => rfl
  simp [this]

/-- zmij's text denotes (neg, m, e) -/
def ZmijParts.ex (p : ZmijParts) : Option (List Char × List Char) :=
  match p.exp with
  | some (en, ed) => some (signText en, ed)
  | none => none

def ZmijParts.exYaml (p : ZmijParts) : Option (List Char × List Char) :=
  match p.exp with
  | some (en, ed) => some (if en then ['-'] else ['+'], ed)
  | none => none

theorem text_render (p : ZmijParts) :
    p.text = signText p.neg ++ p.ip ++ (fracTxt p.fp ++ expTxt p.ex) := by
  unfold ZmijParts.text ZmijParts.mant ZmijParts.ex fracTxt expTxt
  cases p.fp <;> cases p.exp <;> simp

theorem yaml_render (p : ZmijParts) :
    p.yaml = signText p.neg ++ p.ip ++ (fracTxt (some (match p.fp with | some f => f | none => ['0'])) ++ expTxt p.exYaml) := by
  unfold ZmijParts.yaml ZmijParts.exYaml fracTxt expTxt
  cases p.fp <;> cases hx : p.exp <;> simp
  all_goals (rename_i v; obtain ⟨en, ed⟩ := v; cases en <;> simp)

/-- same decimal value: `m · 10^e = m' · 10^e'` written without division -/
def sameDecimal (a b : Bool × Nat × Int) : Prop :=
  a.1 = b.1 ∧ ∃ k : Nat, (a.2.2 = b.2.2 + k ∧ b.2.1 = a.2.1 * 10 ^ k) ∨ (b.2.2 = a.2.2 + k ∧ a.2.1 = b.2.1 * 10 ^ k)

theorem digitsVal_snoc0 (l : List Char) : FloatDec.digitsVal (l ++ ['0']) = FloatDec.digitsVal l * 10 := by
  simp [FloatDec.digitsVal, List.foldl_append]

/-- the normalised text denotes the same decimal as zmij's digits -/
theorem value_parts (p : ZmijParts) (h : p.wf) :
    ∃ a b, FloatDec.parseDec p.text = some a ∧ FloatDec.parseDec p.yaml = some b ∧ sameDecimal a b := by
  obtain ⟨hip, hipd, hfp, hexp⟩ := h
  have hex1 : ∀ sg ed, p.ex = some (sg, ed) → (sg = [] ∨ sg = ['-'] ∨ sg = ['+']) ∧ ed ≠ [] ∧ allDigits ed := by
    intro sg ed he
    unfold ZmijParts.ex at he
    cases hx : p.exp with
    | none => rw [hx] at he; cases he
    | some v =>
      obtain ⟨en, ed'⟩ := v
      rw [hx] at he
      simp only [Option.some.injEq, Prod.mk.injEq] at he
      obtain ⟨e1, e2⟩ := he
      subst e1 e2
      refine ⟨?_, hexp en ed' hx⟩
      cases en <;> simp [signText]
  have hex2 : ∀ sg ed, p.exYaml = some (sg, ed) → (sg = [] ∨ sg = ['-'] ∨ sg = ['+']) ∧ ed ≠ [] ∧ allDigits ed := by
    intro sg ed he
    unfold ZmijParts.exYaml at he
    cases hx : p.exp with
    | none => rw [hx] at he; cases he
    | some v =>
      obtain ⟨en, ed'⟩ := v
      rw [hx] at he
      simp only [Option.some.injEq, Prod.mk.injEq] at he
      obtain ⟨e1, e2⟩ := he
      subst e1 e2
      refine ⟨?_, hexp en ed' hx⟩
      cases en <;> simp
  have hval : expVal p.exYaml = expVal p.ex := by
    unfold ZmijParts.exYaml ZmijParts.ex expVal
    cases hx : p.exp with
    | none => rfl
    | some v => obtain ⟨en, ed⟩ := v; cases en <;> simp [signText]
  have h1 := parseDec_render p.neg p.ip p.fp p.ex hip hipd (fun f hf => (hfp f hf).2) hex1
  have hf2 : ∀ f, (some (match p.fp with | some f => f | none => ['0']) : Option (List Char)) = some f → allDigits f := by
    intro f hf
    simp only [Option.some.injEq] at hf
    subst hf
    cases hpf : p.fp with
    | none => intro c hc; simp only [List.mem_singleton] at hc; subst hc; decide
    | some f' => exact (hfp f' hpf).2
  have h2 := parseDec_render p.neg p.ip (some (match p.fp with | some f => f | none => ['0'])) p.exYaml hip hipd hf2 hex2
  rw [← text_render] at h1
  rw [← yaml_render] at h2
  refine ⟨_, _, h1, h2, rfl, ?_⟩
  cases hpf : p.fp with
  | some f => exact ⟨0, Or.inl ⟨by simp [fracDigits, hval], by simp [fracDigits]⟩⟩
  | none =>
    refine ⟨1, Or.inl ⟨?_, ?_⟩⟩
    · simp only [fracDigits, hval, List.length_nil, List.length_singleton, Int.ofNat_eq_natCast]; omega
    · simp only [fracDigits, List.append_nil, digitsVal_snoc0]

end SaphyrVerif.Lemmas.C12
