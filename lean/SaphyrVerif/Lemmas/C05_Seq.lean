import SaphyrVerif.Lemmas.C05_Deser
import SaphyrVerif.Lemmas.C05_Weak
/-!
Helper lemmas for C05, part 8: sequences — the element loops `seqElems` / `tupleElems`, `deserSeqLike`
for `Vec<T>` and tuples, null-like and `!!binary` scalars at a sequence position.
-/
namespace SaphyrVerif.Lemmas.C05
open SaphyrVerif SaphyrVerif.Scalars SaphyrVerif.Pump SaphyrVerif.De SaphyrVerif.Spec

theorem NodeOut.shift {α : Type} {buf : List Ev} {ref : Option Loc} {i a L : Nat} {df : Bool} {x : R α}
    (h : NodeOut buf ref (i + a) L df none x) : NodeOut buf ref i (a + L) df none x := by
  rcases h with h | ⟨hd, v, j, hx, h1, h2⟩
  · exact Or.inl h
  · exact Or.inr ⟨hd, v, j, hx, by omega, by omega⟩

theorem listFrom_cons (f : NodeFn) (x : ENode) (xs : List ENode) :
    listFrom f (x :: xs) = match f x, listFrom f xs with
      | some v, some vs => some (v :: vs)
      | _, _ => none := by
  simp only [listFrom]; rfl

/-- after a stop strictly inside the element `x`, a continuation that never dips more than `k` below its start
depth stops before the end of `tail` (whose balance is at most `-k`) -/
theorem deficit_continue {buf : List Ev} {ref : Option Loc} {i j : Nat} {x : ENode} {tail rest : List Ev} {k : Int}
    (h : buf.drop i = eflatten x ++ (tail ++ rest)) (hk : bal tail + k ≤ 0)
    (h1 : i < j) (h2 : j < i + (eflatten x).length) {c' : Cur} (hs : Stays buf ref j k c') :
    ∃ j', c' = .replay buf j' ref ∧ i < j' ∧ j' < i + ((eflatten x).length + tail.length) := by
  obtain ⟨j', rfl, hjj, hab⟩ := hs
  refine ⟨j', rfl, by omega, ?_⟩
  have hin := depthAt_inside h h1 h2
  have hnode : depthAt buf (i + (eflatten x ++ tail).length) = depthAt buf i + bal tail := by
    rw [depthAt_add (a := eflatten x ++ tail) (r := rest) (by rw [h]; simp) _ (Nat.le_refl _)]
    rw [List.take_length, bal_append, (eflatten_bal x).1]; simp
  have := hab.lt_of_depth (q := i + (eflatten x ++ tail).length) (by simp; omega) (by omega)
  simpa using this

theorem seqElems_step {buf : List Ev} {i : Nat} (ref : Option Loc) {e : Ev} {tl : List Ev} (fuel : Nat) (cfg : Cfg) (t : Ty)
    (acc : List Val) (h : buf.drop i = e :: tl) (hopen : Ev.isOpen e = true) :
    seqElems (fuel + 1) cfg t (.replay buf i ref) acc =
      match deser fuel cfg t false false (.replay buf i ref) with
      | .err er c => .err (attachAlias er (Cur.replay buf i ref).refLoc e.loc) c
      | .ok v c => seqElems fuel cfg t c (acc ++ [v]) := by
  rw [seqElems]
  simp only [peek_cons ref h]
  cases e <;> simp [Ev.isOpen] at hopen <;> rfl

theorem seqElems_spec (cfg : Cfg) (df : Bool) (t : Ty) (items : List ENode) (hit : ∀ it ∈ items, Ref df cfg t it) :
    ∀ {buf : List Ev} {i : Nat} (ref : Option Loc) {el : Loc} {rest : List Ev},
    buf.drop i = eflattenL items ++ .seqEnd el :: rest →
    ∃ n, ∀ fuel, n ≤ fuel → ∀ acc,
      NodeOut buf ref i (eflattenL items).length df ((listFrom (interp cfg t) items).map (acc ++ ·))
        (seqElems fuel cfg t (.replay buf i ref) acc) := by
  induction items with
  | nil =>
    intro buf i ref el rest h
    refine ⟨1, fun fuel hf acc => ?_⟩
    obtain ⟨fuel, rfl⟩ : ∃ f, fuel = f + 1 := ⟨fuel - 1, by omega⟩
    simp only [eflattenL_nil, List.nil_append] at h
    rw [seqElems]
    simp [peek_cons ref h, listFrom, NodeOut]
  | cons x xs ih =>
    intro buf i ref el rest h
    simp only [eflattenL_cons, List.append_assoc] at h
    obtain ⟨n1, h1⟩ := hit x (List.mem_cons_self ..) buf i ref _ h
    obtain ⟨n2, h2⟩ := ih (fun it hi => hit it (List.mem_cons_of_mem _ hi)) ref (drop_add_of_drop h)
    obtain ⟨e, tl, hx, hopen, -⟩ := eflatten_cons x
    have hpk : buf.drop i = e :: (tl ++ (eflattenL xs ++ .seqEnd el :: rest)) := by rw [h, hx]; rfl
    refine ⟨max n1 n2 + 1, fun fuel hf acc => ?_⟩
    obtain ⟨fuel, rfl⟩ : ∃ f, fuel = f + 1 := ⟨fuel - 1, by omega⟩
    rw [seqElems_step ref fuel cfg t acc hpk hopen, listFrom_cons]
    simp only [eflattenL_cons, List.length_append]
    rcases (h1 fuel (by omega)).cases with ⟨v, hv, hx⟩ | ⟨hv, e', c, hx⟩ | ⟨hv, hd, v, j, hx, hj1, hj2⟩ <;>
      simp only [hv, hx]
    · have e2 := h2 fuel (by omega) (acc ++ [v])
      cases hl : listFrom (interp cfg t) xs with
      | none => simp only [hl, Option.map_none] at e2 ⊢; exact e2.shift
      | some vs =>
        simp only [hl, Option.map_some, NodeOut] at e2 ⊢
        rw [e2]; simp [Nat.add_assoc]
    · exact NodeOut.of_err (by simp)
    · cases hres : seqElems fuel cfg t (.replay buf j ref) (acc ++ [v]) with
      | err e' c => exact NodeOut.of_err (by simp)
      | ok vs c' =>
        obtain ⟨j', rfl, hj1', hj2'⟩ := deficit_continue (tail := eflattenL xs) (rest := .seqEnd el :: rest) (k := 0)
          (by simpa using h) (by simp [(eflattenL_bal xs).1]) hj1 hj2 (seqElems_weak hres)
        exact NodeOut.deficit hd hj1' hj2'

/-! ### tuples -/

theorem tupleFrom_cons (f : NodeFn) (fs : List NodeFn) (x : ENode) (xs : List ENode) :
    tupleFrom (f :: fs) (x :: xs) = match f x, tupleFrom fs xs with
      | some v, some vs => some (v :: vs)
      | _, _ => none := by
  simp only [tupleFrom]; rfl

theorem interpFns_cons (cfg : Cfg) (t : Ty) (ts : List Ty) : interpFns cfg (t :: ts) = interp cfg t :: interpFns cfg ts := by
  rw [interpFns]
theorem interpFns_nil (cfg : Cfg) : interpFns cfg [] = [] := by rw [interpFns]

theorem tupleElems_step {buf : List Ev} {i : Nat} (ref : Option Loc) {e : Ev} {tl : List Ev} (fuel : Nat) (cfg : Cfg) (t : Ty)
    (ts : List Ty) (acc : List Val) (h : buf.drop i = e :: tl) (hopen : Ev.isOpen e = true) :
    tupleElems (fuel + 1) cfg (t :: ts) (.replay buf i ref) acc =
      match deser fuel cfg t false false (.replay buf i ref) with
      | .err er c => .err (attachAlias er (Cur.replay buf i ref).refLoc e.loc) c
      | .ok v c => tupleElems fuel cfg ts c (acc ++ [v]) := by
  rw [tupleElems]
  simp only [peek_cons ref h]
  cases e <;> simp [Ev.isOpen] at hopen <;> rfl

/-- outcome of the tuple element loop: exact, or an error, or a stop before the closing event -/
def TupleOut (buf : List Ev) (ref : Option Loc) (i L : Nat) (exp : Option (List Val)) (x : R (List Val)) : Prop :=
  match exp with
  | some vs => x = .ok vs (.replay buf (i + L) ref)
  | none => IsErr x ∨ ∃ vs j, x = .ok vs (.replay buf j ref) ∧ i ≤ j ∧ j < i + L

theorem tupleElems_spec (cfg : Cfg) (ts : List Ty) :
    ∀ (items : List ENode), (∀ it ∈ items, ∀ ty, Ref true cfg ty it) →
    ∀ {buf : List Ev} {i : Nat} (ref : Option Loc) {el : Loc} {rest : List Ev},
    buf.drop i = eflattenL items ++ .seqEnd el :: rest →
    ∃ n, ∀ fuel, n ≤ fuel → ∀ acc,
      TupleOut buf ref i (eflattenL items).length ((tupleFrom (interpFns cfg ts) items).map (acc ++ ·))
        (tupleElems fuel cfg ts (.replay buf i ref) acc) := by
  induction ts with
  | nil =>
    intro items _ buf i ref el rest h
    refine ⟨1, fun fuel hf acc => ?_⟩
    obtain ⟨fuel, rfl⟩ : ∃ f, fuel = f + 1 := ⟨fuel - 1, by omega⟩
    rw [tupleElems, interpFns_nil]
    cases items with
    | nil => simp [tupleFrom, TupleOut]
    | cons x xs =>
      have := eflatten_length_pos x
      simp only [tupleFrom, Option.map_none, TupleOut]
      exact Or.inr ⟨acc, i, rfl, Nat.le_refl _, by simp; omega⟩
  | cons t ts ih =>
    intro items hit buf i ref el rest h
    cases items with
    | nil =>
      refine ⟨1, fun fuel hf acc => ?_⟩
      obtain ⟨fuel, rfl⟩ : ∃ f, fuel = f + 1 := ⟨fuel - 1, by omega⟩
      simp only [eflattenL_nil, List.nil_append] at h
      rw [tupleElems, interpFns_cons]
      simp [peek_cons ref h, tupleFrom, TupleOut]
    | cons x xs =>
      simp only [eflattenL_cons, List.append_assoc] at h
      obtain ⟨n1, h1⟩ := hit x (List.mem_cons_self ..) t buf i ref _ h
      obtain ⟨n2, h2⟩ := ih xs (fun it hi => hit it (List.mem_cons_of_mem _ hi)) ref (drop_add_of_drop h)
      obtain ⟨e, tl, hx, hopen, -⟩ := eflatten_cons x
      have hpk : buf.drop i = e :: (tl ++ (eflattenL xs ++ .seqEnd el :: rest)) := by rw [h, hx]; rfl
      refine ⟨max n1 n2 + 1, fun fuel hf acc => ?_⟩
      obtain ⟨fuel, rfl⟩ : ∃ f, fuel = f + 1 := ⟨fuel - 1, by omega⟩
      rw [tupleElems_step ref fuel cfg t ts acc hpk hopen, interpFns_cons, tupleFrom_cons]
      simp only [eflattenL_cons, List.length_append]
      rcases (h1 fuel (by omega)).cases with ⟨v, hv, hx⟩ | ⟨hv, e', c, hx⟩ | ⟨hv, hd, v, j, hx, hj1, hj2⟩ <;>
        simp only [hv, hx]
      · have e2 := h2 fuel (by omega) (acc ++ [v])
        cases hl : tupleFrom (interpFns cfg ts) xs with
        | none =>
          simp only [hl, Option.map_none, TupleOut] at e2 ⊢
          rcases e2 with e2 | ⟨vs, j, hj, hj1, hj2⟩
          · exact Or.inl e2
          · exact Or.inr ⟨vs, j, hj, by omega, by omega⟩
        | some vs =>
          simp only [hl, Option.map_some, TupleOut] at e2 ⊢
          rw [e2]; simp [Nat.add_assoc]
      · exact Or.inl (by simp)
      · cases hres : tupleElems fuel cfg ts (.replay buf j ref) (acc ++ [v]) with
        | err e' c => exact Or.inl (by simp)
        | ok vs c' =>
          obtain ⟨j', rfl, hj1', hj2'⟩ := deficit_continue (tail := eflattenL xs) (rest := .seqEnd el :: rest) (k := 0)
            (by simpa using h) (by simp [(eflattenL_bal xs).1]) hj1 hj2 (tupleElems_weak hres)
          exact Or.inr ⟨vs, j', rfl, by omega, hj2'⟩

/-! ### `deserSeqLike` -/

/-- the end of `deserialize_seq`: consume the closing event if it is next -/
def seqFinish (vs : List Val) (c : Cur) : R Val :=
  match c.peek with
  | .err e c => .err e c
  | .ok (some (.seqEnd _)) c =>
    match c.next with
    | .err e c => .err e c
    | .ok _ c => .ok (.seq vs) c
  | .ok _ c => .ok (.seq vs) c

theorem seqFinish_end {buf : List Ev} {j : Nat} (ref : Option Loc) {el : Loc} {tl : List Ev} (vs : List Val)
    (h : buf.drop j = .seqEnd el :: tl) : seqFinish vs (.replay buf j ref) = .ok (.seq vs) (.replay buf (j + 1) ref) := by
  simp [seqFinish, peek_cons ref h, next_cons ref h]

theorem seqFinish_any (buf : List Ev) (j : Nat) (ref : Option Loc) (vs : List Val) :
    ∃ j', seqFinish vs (.replay buf j ref) = .ok (.seq vs) (.replay buf j' ref) ∧ j ≤ j' ∧ j' ≤ j + 1 := by
  simp only [seqFinish, Cur.peek]
  cases hb : buf[j]? with
  | none => exact ⟨j, by simp, by omega, by omega⟩
  | some e =>
    cases e with
    | seqEnd l => exact ⟨j + 1, by simp [Cur.next, hb], by omega, by omega⟩
    | scalar => exact ⟨j, by simp, by omega, by omega⟩
    | seqStart => exact ⟨j, by simp, by omega, by omega⟩
    | mapStart => exact ⟨j, by simp, by omega, by omega⟩
    | mapEnd => exact ⟨j, by simp, by omega, by omega⟩

theorem deserSeqLike_seqStart {buf : List Ev} {i : Nat} (ref : Option Loc) {a tag : Nat} {rt : Option (List Char)} {l : Loc}
    {tl : List Ev} (fuel : Nat) (cfg : Cfg) (shape : Ty ⊕ List Ty) (h : buf.drop i = .seqStart a tag rt l :: tl) :
    deserSeqLike (fuel + 1) cfg shape (.replay buf i ref) =
      match (match shape with
        | .inl t => seqElems fuel cfg t (.replay buf (i + 1) ref) []
        | .inr ts => tupleElems fuel cfg ts (.replay buf (i + 1) ref) []) with
      | .err e c => .err e c
      | .ok vs c => seqFinish vs c := by
  rw [deserSeqLike]
  simp only [peek_cons ref h, next_cons ref h]
  rfl

theorem deserSeqLike_mapStart {buf : List Ev} {i : Nat} (ref : Option Loc) {a : Nat} {l : Loc}
    {tl : List Ev} (fuel : Nat) (cfg : Cfg) (shape : Ty ⊕ List Ty) (h : buf.drop i = .mapStart a l :: tl) :
    IsErr (deserSeqLike fuel cfg shape (.replay buf i ref)) := by
  cases fuel with
  | zero => rw [deserSeqLike]; simp
  | succ fuel =>
    rw [deserSeqLike]
    simp [peek_cons ref h, next_cons ref h]

theorem mapM_some' {α β : Type} (g : α → β) (l : List α) : l.mapM (fun x => some (g x)) = some (l.map g) := by
  induction l with
  | nil => rfl
  | cons x l ih => simp [List.mapM_cons, ih]

theorem mapM_none' {α β : Type} (l : List α) : l.mapM (fun _ => (none : Option β)) = if l.isEmpty then some [] else none := by
  cases l <;> simp [List.mapM_cons]

/-- `!!binary` scalar at a `Vec<T>` position -/
theorem byteSeqVisit_inl (t : Ty) (data : List Nat) (c : Cur) :
    Expect (byteSeqVisit (.inl t) data c)
      (match t with
       | .int _ _ | .any => some (.seq (data.map fun b => .int (Int.ofNat b)))
       | _ => if data.isEmpty then some (.seq []) else none) c := by
  simp only [byteSeqVisit]
  cases t <;> simp only [mapM_some', mapM_none']
  case int => simp
  case any => simp
  all_goals (cases data <;> simp)

theorem seqLike_inl_scalar {buf : List Ev} {i : Nat} (ref : Option Loc) {v : List Char} {tag : Nat} {rt : Option (List Char)}
    {st : Style} {a : Nat} {l : Loc} {tl : List Ev} (fuel : Nat) (cfg : Cfg) (t : Ty)
    (h : buf.drop i = .scalar v tag rt st a l :: tl) :
    Expect (deserSeqLike (fuel + 1) cfg (.inl t) (.replay buf i ref)) (interp cfg (.seq t) (.scalar v tag rt st a l))
      (.replay buf (i + 1) ref) := by
  rw [deserSeqLike, interp]
  simp only [peek_cons ref h, next_cons ref h, isNullScalar]
  by_cases h1 : (tag == tagNull || scalarIsNullish v st) = true
  · simp [h1]
  · simp only [h1, if_false, Bool.false_eq_true]
    by_cases h2 : (tag == tagBinary) = true
    · simp only [h2, if_true]
      cases hd : Base64.decode (utf8Bytes v) with
      | none => cases t <;> simp
      | some data =>
        have := byteSeqVisit_inl t data (.replay buf (i + 1) ref)
        cases t <;> simpa using this
    · simp [h2]

theorem interp_seq_seq (cfg : Cfg) (te : Ty) (a tag : Nat) (rt : Option (List Char)) (l el : Loc) (items : List ENode) :
    interp cfg (.seq te) (.seq a tag rt l el items) = (listFrom (interp cfg te) items).map .seq := by rw [interp]

theorem interp_seq_map (cfg : Cfg) (te : Ty) (a : Nat) (l el : Loc) (es : List (ENode × ENode)) :
    interp cfg (.seq te) (.map a l el es) = none := by rw [interp]

/-- `Vec<T>` at any node -/
theorem seqLike_inl {cfg : Cfg} {df : Bool} {te : Ty} {t : ENode}
    (hsub : ∀ a tag rt l el items, t = .seq a tag rt l el items → ∀ it ∈ items, Ref df cfg te it)
    {buf : List Ev} {i : Nat} (ref : Option Loc) {rest : List Ev} (h : buf.drop i = eflatten t ++ rest) :
    ∃ n, ∀ fuel, n ≤ fuel →
      NodeOut buf ref i (eflatten t).length df (interp cfg (.seq te) t) (deserSeqLike fuel cfg (.inl te) (.replay buf i ref)) := by
  cases t with
  | scalar v tag rt st a l =>
    refine ⟨1, fun fuel hf => ?_⟩
    obtain ⟨fuel, rfl⟩ : ∃ f, fuel = f + 1 := ⟨fuel - 1, by omega⟩
    exact NodeOut.of_expect (by simpa using seqLike_inl_scalar ref fuel cfg te (drop_scalar h))
  | map a l el es =>
    refine ⟨0, fun fuel _ => ?_⟩
    rw [interp_seq_map]
    exact NodeOut.of_err (deserSeqLike_mapStart ref fuel cfg _ (drop_map h))
  | seq a tag rt l el items =>
    have h' := drop_seq h
    have h1 := drop_succ_of_drop h'
    obtain ⟨n, hn⟩ := seqElems_spec cfg df te items (hsub a tag rt l el items rfl) ref h1
    refine ⟨n + 1, fun fuel hf => ?_⟩
    obtain ⟨fuel, rfl⟩ : ∃ f, fuel = f + 1 := ⟨fuel - 1, by omega⟩
    rw [deserSeqLike_seqStart ref fuel cfg _ h', interp_seq_seq]
    simp only []
    have hend := drop_add_of_drop h1
    rcases (hn fuel (by omega) []).cases with ⟨vs, hv, hx⟩ | ⟨hv, e', c, hx⟩ | ⟨hv, hd, vs, j, hx, hj1, hj2⟩
    · simp only [hx]
      cases hl : listFrom (interp cfg te) items with
      | none => simp [hl] at hv
      | some vs' =>
        simp only [hl, Option.map_some, List.nil_append, Option.some.injEq] at hv
        subst hv
        rw [seqFinish_end ref _ hend]
        simp only [Option.map_some, NodeOut, eflatten_seq_length]
        congr 2; omega
    · simp only [hx]
      cases hl : listFrom (interp cfg te) items with
      | some vs' => simp [hl] at hv
      | none => exact NodeOut.of_err (by simp)
    · simp only [hx]
      cases hl : listFrom (interp cfg te) items with
      | some vs' => simp [hl] at hv
      | none =>
        obtain ⟨j', hj', h1', h2'⟩ := seqFinish_any buf j ref vs
        rw [hj']
        exact NodeOut.deficit hd (by omega) (by simp; omega)

theorem ref_seq {cfg : Cfg} {df : Bool} {te : Ty} {t : ENode}
    (hsub : ∀ a tag rt l el items, t = .seq a tag rt l el items → ∀ it ∈ items, Ref df cfg te it) :
    Ref df cfg (.seq te) t := by
  intro buf i ref rest h
  obtain ⟨n, hn⟩ := seqLike_inl hsub ref h
  refine ⟨n + 1, fun fuel hf => ?_⟩
  obtain ⟨fuel, rfl⟩ : ∃ f, fuel = f + 1 := ⟨fuel - 1, by omega⟩
  rw [deser]
  exact hn fuel (by omega)

/-! ### tuples at any node -/

theorem zip_mapM_conv (F : Ty × Nat → Option Val)
    (hF : ∀ t b, F (t, b) = if acceptsByte t then some (Val.int (Int.ofNat b)) else none)
    (ts : List Ty) (data : List Nat) (hl : data.length = ts.length) :
    (ts.zip data).mapM F =
      if (ts.map acceptsByte).all id then some (data.map fun b => Val.int (Int.ofNat b)) else none := by
  induction ts generalizing data with
  | nil =>
    cases data with
    | nil => rfl
    | cons d ds => simp at hl
  | cons t ts ih =>
    cases data with
    | nil => simp at hl
    | cons d ds =>
      have := ih ds (by simpa using hl)
      simp only [List.zip_cons_cons, List.mapM_cons, this, hF]
      by_cases ha : acceptsByte t = true <;> by_cases hr : (ts.map acceptsByte).all id = true <;>
        simp [ha, hr]

theorem seqLike_inr_scalar {buf : List Ev} {i : Nat} (ref : Option Loc) {v : List Char} {tag : Nat} {rt : Option (List Char)}
    {st : Style} {a : Nat} {l : Loc} {tl : List Ev} (fuel : Nat) (cfg : Cfg) (ts : List Ty)
    (h : buf.drop i = .scalar v tag rt st a l :: tl) :
    Expect (deserSeqLike (fuel + 1) cfg (.inr ts) (.replay buf i ref))
      (tupleNode (interpFns cfg ts) (ts.map acceptsByte) (.scalar v tag rt st a l)) (.replay buf (i + 1) ref) := by
  have hlen : (interpFns cfg ts).isEmpty = ts.isEmpty := by
    cases ts with
    | nil => rw [interpFns_nil]; rfl
    | cons t ts => rw [interpFns_cons]; rfl
  rw [deserSeqLike]
  simp only [peek_cons ref h, next_cons ref h, tupleNode, isNullScalar, hlen]
  by_cases h1 : (tag == tagNull || scalarIsNullish v st) = true
  · simp only [h1, if_true]
    cases ts.isEmpty <;> simp
  · simp only [h1, if_false, Bool.false_eq_true]
    by_cases h2 : (tag == tagBinary) = true
    · simp only [h2, if_true]
      cases hd : Base64.decode (utf8Bytes v) with
      | none => simp
      | some data =>
        simp only [byteSeqVisit, List.length_map]
        by_cases hl : data.length = ts.length
        · simp only [hl, Nat.lt_irrefl, if_false, beq_self_eq_true, Bool.true_and, bne_self_eq_false, Bool.false_eq_true]
          generalize hF : (fun p : Ty × Nat => _) = F
          have hz := zip_mapM_conv F (fun t b => by rw [← hF]; cases t <;> rfl) ts data hl
          rw [hz]
          by_cases hall : (ts.map acceptsByte).all id = true <;> simp [hall]
        · have hne : (data.length == ts.length) = false := by simpa using hl
          simp only [hne, Bool.false_and, Bool.false_eq_true, if_false]
          split
          · simp
          · split
            · have : (data.length != ts.length) = true := by simpa using hl
              simp [this]
            · simp
    · simp [h2]

theorem interp_tuple (cfg : Cfg) (ts : List Ty) (t : ENode) :
    interp cfg (.tuple ts) t = tupleNode (interpFns cfg ts) (ts.map acceptsByte) t := by rw [interp]

/-- a tuple at any node -/
theorem seqLike_inr {cfg : Cfg} {ts : List Ty} {t : ENode}
    (hsub : ∀ a tag rt l el items, t = .seq a tag rt l el items → ∀ it ∈ items, ∀ ty, Ref true cfg ty it)
    {buf : List Ev} {i : Nat} (ref : Option Loc) {rest : List Ev} (h : buf.drop i = eflatten t ++ rest) :
    ∃ n, ∀ fuel, n ≤ fuel →
      NodeOut buf ref i (eflatten t).length true (tupleNode (interpFns cfg ts) (ts.map acceptsByte) t)
        (deserSeqLike fuel cfg (.inr ts) (.replay buf i ref)) := by
  cases t with
  | scalar v tag rt st a l =>
    refine ⟨1, fun fuel hf => ?_⟩
    obtain ⟨fuel, rfl⟩ : ∃ f, fuel = f + 1 := ⟨fuel - 1, by omega⟩
    exact NodeOut.of_expect (by simpa using seqLike_inr_scalar ref fuel cfg ts (drop_scalar h))
  | map a l el es =>
    refine ⟨0, fun fuel _ => ?_⟩
    exact NodeOut.of_err (deserSeqLike_mapStart ref fuel cfg _ (drop_map h))
  | seq a tag rt l el items =>
    have h' := drop_seq h
    have h1 := drop_succ_of_drop h'
    obtain ⟨n, hn⟩ := tupleElems_spec cfg ts items (hsub a tag rt l el items rfl) ref h1
    refine ⟨n + 1, fun fuel hf => ?_⟩
    obtain ⟨fuel, rfl⟩ : ∃ f, fuel = f + 1 := ⟨fuel - 1, by omega⟩
    rw [deserSeqLike_seqStart ref fuel cfg _ h']
    simp only [tupleNode]
    have hend := drop_add_of_drop h1
    have e2 := hn fuel (by omega) []
    cases hl : tupleFrom (interpFns cfg ts) items with
    | some vs =>
      simp only [hl, Option.map_some, List.nil_append, TupleOut] at e2
      simp only [e2]
      rw [seqFinish_end ref _ hend]
      simp only [Option.map_some, NodeOut, eflatten_seq_length]
      congr 2; omega
    | none =>
      simp only [hl, Option.map_none, TupleOut] at e2
      rcases e2 with ⟨e', c, hx⟩ | ⟨vs, j, hx, hj1, hj2⟩
      · simp only [hx]; exact NodeOut.of_err (by simp)
      · simp only [hx]
        obtain ⟨j', hj', h1', h2'⟩ := seqFinish_any buf j ref vs
        rw [hj']
        exact NodeOut.deficit rfl (by omega) (by simp; omega)

theorem ref_tuple {cfg : Cfg} {ts : List Ty} {t : ENode}
    (hsub : ∀ a tag rt l el items, t = .seq a tag rt l el items → ∀ it ∈ items, ∀ ty, Ref true cfg ty it) :
    Ref true cfg (.tuple ts) t := by
  intro buf i ref rest h
  obtain ⟨n, hn⟩ := seqLike_inr (ts := ts) hsub ref h
  refine ⟨n + 1, fun fuel hf => ?_⟩
  obtain ⟨fuel, rfl⟩ : ∃ f, fuel = f + 1 := ⟨fuel - 1, by omega⟩
  rw [deser, interp_tuple]
  exact hn fuel (by omega)

end SaphyrVerif.Lemmas.C05
