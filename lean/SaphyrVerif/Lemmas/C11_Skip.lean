import SaphyrVerif.Model.Pump
/-!
Helper lemmas for C11, part 1: the recovery path `skipLoop` / `skipToNextDocument`.
-/
namespace SaphyrVerif.Lemmas.C11
open SaphyrVerif SaphyrVerif.Scalars SaphyrVerif.Pump

/-- `skipLoop` generalised over the pump: when it reports a new document, the per-document state is the
initial one, the look-ahead is untouched and the consumed prefix contains no document start. -/
theorem skipLoop_found (inp : List RawItem) : ∀ (p p' : Pump) (rest : List RawItem),
    skipLoop p inp = (true, p', rest) →
    p'.look = p.look ∧ p'.inject = [] ∧ p'.recStack = [] ∧ p'.anchors = [] ∧ p'.perAnchor = [] ∧
    p'.totalReplayed = 0 ∧ p'.producedAny = false ∧
    ∃ pre b l, inp = pre ++ .ev (.docStart b) l :: rest ∧ ∀ x ∈ pre, ∀ b' l', x ≠ .ev (.docStart b') l' := by
  induction inp with
  | nil => intro p p' rest h; simp [skipLoop] at h
  | cons it tl ih =>
    intro p p' rest h
    cases it with
    | err ua l => simp [skipLoop] at h
    | ev raw loc =>
      have hcons : ∀ q : Pump, q.look = p.look → skipLoop q tl = (true, p', rest) →
          p'.look = p.look ∧ p'.inject = [] ∧ p'.recStack = [] ∧ p'.anchors = [] ∧ p'.perAnchor = [] ∧
          p'.totalReplayed = 0 ∧ p'.producedAny = false ∧
          ∃ pre b l, RawItem.ev raw loc :: tl = pre ++ .ev (.docStart b) l :: rest ∧
            ∀ x ∈ pre, ∀ b' l', x ≠ .ev (.docStart b') l' := by
        intro q hq hs
        by_cases hd : ∃ b, raw = .docStart b
        · obtain ⟨b, rfl⟩ := hd
          simp only [skipLoop] at h
          split at h
          · simp at h
          · simp at h
            obtain ⟨rfl, rfl⟩ := h
            exact ⟨rfl, rfl, rfl, rfl, rfl, rfl, rfl, [], b, loc, rfl, by simp⟩
        · obtain ⟨h1, h2, h3, h4, h5, h6, h7, pre, b, l, he, hpre⟩ := ih q p' rest hs
          refine ⟨h1.trans hq, h2, h3, h4, h5, h6, h7, .ev raw loc :: pre, b, l, by rw [he]; rfl, ?_⟩
          intro x hx b' l'
          rcases List.mem_cons.mp hx with rfl | hx
          · intro hc
            injection hc with hc _
            exact hd ⟨b', hc⟩
          · exact hpre x hx b' l'
      cases raw with
      | docStart b =>
        simp only [skipLoop] at h
        split at h
        · simp at h
        · simp at h
          obtain ⟨rfl, rfl⟩ := h
          exact ⟨rfl, rfl, rfl, rfl, rfl, rfl, rfl, [], b, loc, rfl, by simp⟩
      | streamEnd => simp [skipLoop] at h
      | docEnd => (simp only [skipLoop] at h; exact hcons _ (by exact rfl) h)
      | streamStart => (simp only [skipLoop] at h; exact hcons _ (by exact rfl) h)
      | scalar v st a t => (simp only [skipLoop] at h; exact hcons _ (by exact rfl) h)
      | seqStart a t => (simp only [skipLoop] at h; exact hcons _ (by exact rfl) h)
      | seqEnd => (simp only [skipLoop] at h; exact hcons _ (by exact rfl) h)
      | mapStart a t => (simp only [skipLoop] at h; exact hcons _ (by exact rfl) h)
      | mapEnd => (simp only [skipLoop] at h; exact hcons _ (by exact rfl) h)
      | alias id => (simp only [skipLoop] at h; exact hcons _ (by exact rfl) h)
      | nothing => (simp only [skipLoop] at h; exact hcons _ (by exact rfl) h)

/-- a scan error reached before any document start / stream end stops the recovery -/
theorem skipLoop_err (pre : List RawItem) (ua : Bool) (l : Loc) (rest : List RawItem)
    (hpre : ∀ x ∈ pre, (∀ b' l', x ≠ .ev (.docStart b') l') ∧ (∀ l', x ≠ .ev .streamEnd l') ∧
      (∀ u l', x ≠ .err u l')) :
    ∀ p : Pump, (skipLoop p (pre ++ .err ua l :: rest)).1 = false := by
  induction pre with
  | nil => intro p; simp [skipLoop]
  | cons it tl ih =>
    intro p
    have ih' := ih (fun x hx => hpre x (List.mem_cons_of_mem _ hx))
    obtain ⟨h1, h2, h3⟩ := hpre it (List.mem_cons_self ..)
    cases it with
    | err u l' => exact absurd rfl (h3 u l')
    | ev raw loc =>
      cases raw with
      | docStart b => exact absurd rfl (h1 b loc)
      | streamEnd => exact absurd rfl (h2 loc)
      | docEnd => simp only [List.cons_append, skipLoop]; exact ih' _
      | streamStart => simp only [List.cons_append, skipLoop]; exact ih' _
      | scalar v st a t => simp only [List.cons_append, skipLoop]; exact ih' _
      | seqStart a t => simp only [List.cons_append, skipLoop]; exact ih' _
      | seqEnd => simp only [List.cons_append, skipLoop]; exact ih' _
      | mapStart a t => simp only [List.cons_append, skipLoop]; exact ih' _
      | mapEnd => simp only [List.cons_append, skipLoop]; exact ih' _
      | alias id => simp only [List.cons_append, skipLoop]; exact ih' _
      | nothing => simp only [List.cons_append, skipLoop]; exact ih' _

/-- the input left by `skipLoop` is a proper suffix when a document was found, a suffix otherwise -/
theorem skipLoop_length (inp : List RawItem) : ∀ (p : Pump),
    (skipLoop p inp).2.2.length ≤ inp.length ∧
      ((skipLoop p inp).1 = true → (skipLoop p inp).2.2.length < inp.length) := by
  induction inp with
  | nil => intro p; simp [skipLoop]
  | cons it tl ih =>
    intro p
    cases it with
    | err ua l => simp [skipLoop]
    | ev raw loc =>
      cases raw
      all_goals simp only [skipLoop, List.length_cons]
      all_goals first
        | exact ⟨Nat.le_succ _, fun _ => Nat.lt_succ_self _⟩
        | exact ⟨Nat.le_succ_of_le (ih _).1, fun h => Nat.lt_succ_of_lt ((ih _).2 h)⟩
        | (split <;> exact ⟨Nat.le_succ _, fun _ => Nat.lt_succ_self _⟩)

end SaphyrVerif.Lemmas.C11
