import SaphyrVerif.Lemmas.C02_Frames
/-!
Helper lemmas for C02, part 6: the replay stack holds at most one frame; erasing anchor marks of an
alias-free tree only erases the ids of the delivered events.
-/
namespace SaphyrVerif.Lemmas.C02
open SaphyrVerif SaphyrVerif.Scalars SaphyrVerif.Pump SaphyrVerif.Spec SaphyrVerif.Budget

theorem serveInject_inject (p : Pump) (fs : List InjectFrame) :
    ((serveInject p fs).1 = none → (serveInject p fs).2.inject = []) ∧
      (serveInject p fs).2.inject.length ≤ fs.length := by
  induction fs with
  | nil => simp [serveInject]
  | cons fr rest ih =>
    simp only [serveInject]
    repeat' split
    all_goals first
      | exact ⟨ih.1, Nat.le_succ_of_le ih.2⟩
      | (constructor <;> simp)

theorem parserLoop_inject (p : Pump) (inp : List RawItem) (h : p.inject = []) :
    (parserLoop p inp).2.1.inject.length ≤ 1 := by
  fun_induction parserLoop p inp
  all_goals try (simp_all +zetaDelta [Pump.resetDocumentState]; done)
  case case6 =>
    simp +zetaDelta only
    split <;> simp [h]
  case case18 =>
    rename_i p3 step p' hs ob hx
    have := (serveInject_inject p3 p3.inject).2
    rw [hs] at this
    simp +zetaDelta [h] at this ⊢
    exact this
  case case19 =>
    rename_i p3 p' hs ob hx ih
    apply ih
    have := (serveInject_inject p3 p3.inject).1
    rw [hs] at this
    exact this rfl

theorem nextImpl_inject (p : Pump) (inp : List RawItem) (h : p.inject.length ≤ 1) :
    (nextImpl p inp).2.1.inject.length ≤ 1 := by
  unfold nextImpl
  have h1 := serveInject_inject p p.inject
  rcases hs : serveInject p p.inject with ⟨_ | step, p'⟩
  · rw [hs] at h1
    exact parserLoop_inject p' inp (h1.1 rfl)
  · rw [hs] at h1
    exact Nat.le_trans h1.2 h


mutual
theorem erase_node (t : LNode) (haf : aliasFree t = true)
    (σ σ' : Tab) (opn opn' : List Nat) (r r' : Exp)
    (h1 : expand σ opn t = .ok r) (h2 : expand σ' opn' (eraseAnchors t) = .ok r') :
    r'.evs = r.evs.map Ev.eraseAnchor := by
  match t with
  | .scalar v st a tag loc =>
    simp only [eraseAnchors, expand, Except.ok.injEq] at h1 h2
    subst h1 h2
    simp [scalarEv, Ev.eraseAnchor, normStyle]
  | .alias id loc => simp [aliasFree] at haf
  | .seq a tag loc eloc items =>
    simp only [aliasFree] at haf
    simp only [eraseAnchors, expand] at h1 h2
    cases hL : expandL σ (if a != 0 then a :: opn else opn) items with
    | error e => rw [hL] at h1; simp at h1
    | ok rL =>
      cases hL' : expandL σ' (if (0:Nat) != 0 then 0 :: opn' else opn') (eraseAnchorsL items) with
      | error e => rw [hL'] at h2; simp at h2
      | ok rL' =>
        have ih := erase_nodes items haf _ _ _ _ _ _ hL hL'
        rw [hL] at h1; simp only [Except.ok.injEq] at h1
        rw [hL'] at h2; simp only [Except.ok.injEq] at h2
        subst h1 h2
        simp [ih, Ev.eraseAnchor]
  | .map a tag loc eloc entries =>
    simp only [aliasFree] at haf
    simp only [eraseAnchors, expand] at h1 h2
    cases hL : expandE σ (if a != 0 then a :: opn else opn) entries with
    | error e => rw [hL] at h1; simp at h1
    | ok rL =>
      cases hL' : expandE σ' (if (0:Nat) != 0 then 0 :: opn' else opn') (eraseAnchorsE entries) with
      | error e => rw [hL'] at h2; simp at h2
      | ok rL' =>
        have ih := erase_entries entries haf _ _ _ _ _ _ hL hL'
        rw [hL] at h1; simp only [Except.ok.injEq] at h1
        rw [hL'] at h2; simp only [Except.ok.injEq] at h2
        subst h1 h2
        simp [ih, Ev.eraseAnchor]
theorem erase_nodes (ts : List LNode) (haf : aliasFreeL ts = true)
    (σ σ' : Tab) (opn opn' : List Nat) (r r' : Exp)
    (h1 : expandL σ opn ts = .ok r) (h2 : expandL σ' opn' (eraseAnchorsL ts) = .ok r') :
    r'.evs = r.evs.map Ev.eraseAnchor := by
  match ts with
  | [] =>
    simp only [eraseAnchorsL, expandL, Except.ok.injEq] at h1 h2
    subst h1 h2
    rfl
  | t :: ts =>
    simp only [aliasFreeL, Bool.and_eq_true] at haf
    simp only [eraseAnchorsL, expandL] at h1 h2
    cases ha : expand σ opn t with
    | error e => rw [ha] at h1; simp at h1
    | ok ra =>
      cases ha' : expand σ' opn' (eraseAnchors t) with
      | error e => rw [ha'] at h2; simp at h2
      | ok ra' =>
        rw [ha] at h1; simp only [] at h1
        rw [ha'] at h2; simp only [] at h2
        cases hb : expandL ra.tab opn ts with
        | error e => rw [hb] at h1; simp at h1
        | ok rb =>
          cases hb' : expandL ra'.tab opn' (eraseAnchorsL ts) with
          | error e => rw [hb'] at h2; simp at h2
          | ok rb' =>
            have ih1 := erase_node t haf.1 _ _ _ _ _ _ ha ha'
            have ih2 := erase_nodes ts haf.2 _ _ _ _ _ _ hb hb'
            rw [hb] at h1; simp only [Except.ok.injEq] at h1
            rw [hb'] at h2; simp only [Except.ok.injEq] at h2
            subst h1 h2
            simp [ih1, ih2]
theorem erase_entries (es : List (LNode × LNode)) (haf : aliasFreeE es = true)
    (σ σ' : Tab) (opn opn' : List Nat) (r r' : Exp)
    (h1 : expandE σ opn es = .ok r) (h2 : expandE σ' opn' (eraseAnchorsE es) = .ok r') :
    r'.evs = r.evs.map Ev.eraseAnchor := by
  match es with
  | [] =>
    simp only [eraseAnchorsE, expandE, Except.ok.injEq] at h1 h2
    subst h1 h2
    rfl
  | (k, v) :: es =>
    simp only [aliasFreeE, Bool.and_eq_true] at haf
    simp only [eraseAnchorsE, expandE] at h1 h2
    cases ha : expand σ opn k with
    | error e => rw [ha] at h1; simp at h1
    | ok ra =>
      cases ha' : expand σ' opn' (eraseAnchors k) with
      | error e => rw [ha'] at h2; simp at h2
      | ok ra' =>
        rw [ha] at h1; simp only [] at h1
        rw [ha'] at h2; simp only [] at h2
        cases hb : expand ra.tab opn v with
        | error e => rw [hb] at h1; simp at h1
        | ok rb =>
          cases hb' : expand ra'.tab opn' (eraseAnchors v) with
          | error e => rw [hb'] at h2; simp at h2
          | ok rb' =>
            rw [hb] at h1; simp only [] at h1
            rw [hb'] at h2; simp only [] at h2
            cases hc : expandE rb.tab opn es with
            | error e => rw [hc] at h1; simp at h1
            | ok rc =>
              cases hc' : expandE rb'.tab opn' (eraseAnchorsE es) with
              | error e => rw [hc'] at h2; simp at h2
              | ok rc' =>
                have ih1 := erase_node k haf.1.1 _ _ _ _ _ _ ha ha'
                have ih2 := erase_node v haf.1.2 _ _ _ _ _ _ hb hb'
                have ih3 := erase_entries es haf.2 _ _ _ _ _ _ hc hc'
                rw [hc] at h1; simp only [Except.ok.injEq] at h1
                rw [hc'] at h2; simp only [Except.ok.injEq] at h2
                subst h1 h2
                simp [ih1, ih2, ih3]
end

end SaphyrVerif.Lemmas.C02
