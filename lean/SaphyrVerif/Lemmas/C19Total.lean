import SaphyrVerif.Model.Robotics
/-!
Helper lemmas for C19 `eval_total`: no helper of the evaluator model panics on input without UTF-8
continuation bytes, every helper only moves the cursor forward (the remaining input of the result is a
suffix of the remaining input of the argument), `depth` and `sexagesimal_is_time` are restored, and the
two kinds of fuel suffice.
-/
set_option linter.unusedSimpArgs false
namespace SaphyrVerif.Lemmas.C19
open SaphyrVerif SaphyrVerif.F64 SaphyrVerif.Robotics

variable {ap : Bool}

/-- `a` is a suffix of `b`. -/
def Suf (a b : List Nat) : Prop := ∃ p, b = p ++ a

theorem Suf.refl (a : List Nat) : Suf a a := ⟨[], rfl⟩
theorem Suf.trans {a b c : List Nat} (h1 : Suf a b) (h2 : Suf b c) : Suf a c := by
  obtain ⟨p, rfl⟩ := h1
  obtain ⟨q, rfl⟩ := h2
  exact ⟨q ++ p, by simp⟩
theorem Suf.cons (c : Nat) (r : List Nat) : Suf r (c :: r) := ⟨[c], rfl⟩
theorem Suf.cons_of {a r : List Nat} (c : Nat) (h : Suf a r) : Suf a (c :: r) := h.trans (Suf.cons c r)
theorem Suf.length_le {a b : List Nat} (h : Suf a b) : a.length ≤ b.length := by
  obtain ⟨p, rfl⟩ := h
  simp
theorem Suf.mem {a b : List Nat} (h : Suf a b) {x : Nat} (hx : x ∈ a) : x ∈ b := by
  obtain ⟨p, rfl⟩ := h
  simp [hx]

/-- no UTF-8 continuation byte -/
def NoCont (l : List Nat) : Prop := ∀ c ∈ l, isCont c = false

theorem NoCont.of_ascii {l : List Nat} (h : ∀ c ∈ l, c < 128) : NoCont l := by
  intro c hc
  have := h c hc
  simp [isCont]
  omega

/-- Every continuation byte directly follows a non-ASCII byte (true of the bytes of any `str`, and of
every suffix of them): the fact that keeps `&self.s[start..self.i]` on char boundaries. -/
def AdjOk : List Nat → Prop
  | [] => True
  | [_] => True
  | a :: b :: r => (isCont b = true → 128 ≤ a) ∧ AdjOk (b :: r)

theorem AdjOk.tail {a : Nat} {l : List Nat} (h : AdjOk (a :: l)) : AdjOk l := by
  cases l with
  | nil => trivial
  | cons b r => exact h.2

theorem AdjOk.suf {a b : List Nat} (h : AdjOk b) (hs : Suf a b) : AdjOk a := by
  obtain ⟨p, rfl⟩ := hs
  induction p with
  | nil => exact h
  | cons x p ih => exact ih (AdjOk.tail h)

theorem AdjOk.of_noCont {l : List Nat} (h : NoCont l) : AdjOk l := by
  induction l with
  | nil => trivial
  | cons a l ih =>
    cases l with
    | nil => trivial
    | cons b r =>
      refine ⟨?_, ih (fun c hc => h c (List.mem_cons_of_mem _ hc))⟩
      intro hb
      have := h b (by simp)
      rw [this] at hb
      cases hb

/-- behind a non-empty run of ASCII bytes there is no continuation byte -/
theorem AdjOk.after_ascii (tok : List Nat) (b : Nat) (q : List Nat) (h : AdjOk (tok ++ b :: q)) (hne : tok ≠ [])
    (ha : ∀ x ∈ tok, x < 128) : isCont b = false := by
  induction tok with
  | nil => exact absurd rfl hne
  | cons a t ih =>
    cases t with
    | nil =>
      have h1 := h.1
      have ha' := ha a (by simp)
      cases hb : isCont b with
      | false => rfl
      | true => have := h1 hb; omega
    | cons a' t' =>
      exact ih (AdjOk.tail h) (by simp) (fun x hx => ha x (List.mem_cons_of_mem _ hx))

/-- either panics are allowed, or the bytes are adjacent-ok -/
def NC (ap : Bool) (l : List Nat) : Prop := ap = true ∨ AdjOk l

theorem NC.suf {a b : List Nat} (h : NC ap b) (hs : Suf a b) : NC ap a := h.imp_right (·.suf hs)

theorem boundaryAhead_zero {rest : List Nat} (h : ∀ c r, rest = c :: r → isCont c = false) :
    boundaryAhead rest 0 = true := by
  unfold boundaryAhead
  cases rest with
  | nil => simp
  | cons c r => simp [h c r rfl]

/-! ## byte-level helpers -/

theorem skipWsL_suf (pre rest : List Nat) : Suf (skipWsL pre rest).2 rest := by
  induction rest generalizing pre with
  | nil => exact Suf.refl _
  | cons c r ih =>
    unfold skipWsL
    split
    · exact (ih _).cons_of c
    · exact Suf.refl _

theorem skipWs_rest (st : St) : Suf st.skipWs.rest st.rest := skipWsL_suf _ _
@[simp] theorem skipWs_depth (st : St) : st.skipWs.depth = st.depth := rfl
@[simp] theorem skipWs_sexTime (st : St) : st.skipWs.sexTime = st.sexTime := rfl

theorem signLoop_suf (pre rest : List Nat) (s : Fl) : Suf (signLoop pre rest s).2.1 rest := by
  induction rest generalizing pre s with
  | nil => exact Suf.refl _
  | cons c r ih =>
    unfold signLoop
    split
    · exact (ih _ _).cons_of c
    · split
      · exact (ih _ _).cons_of c
      · exact Suf.refl _

theorem identLoop_suf (pre rest acc : List Nat) : Suf (identLoop pre rest acc).2.1 rest := by
  induction rest generalizing pre acc with
  | nil => exact Suf.refl _
  | cons c r ih =>
    unfold identLoop
    split
    · exact (ih _ _).cons_of c
    · exact Suf.refl _

/-- outcome of a byte-level helper: a panic only if `ap` ("allow panic") is set; `P` holds of a
successful result -/
def HGood {α} (ap : Bool) (P : α → Prop) : HRes α → Prop
  | .ok a => P a
  | .err _ => True
  | .panic _ => ap = true

theorem numLoop_good (eU : RErr) (pre rest : List Nat) (k seen : Nat) (bufR : List Nat) (hv : Bool)
    (hk : k ≠ 0 → pre ≠ []) :
    HGood ap (fun ns => Suf ns.rest rest) (numLoop eU pre rest k seen bufR hv) := by
  induction rest generalizing pre k seen bufR hv with
  | nil => simp [numLoop, HGood, Suf.refl]
  | cons c r ih =>
    unfold numLoop
    split
    · split
      · trivial
      · have := ih (c :: pre) (k + 1) (seen + 1) (c :: bufR) true (by simp)
        revert this
        cases numLoop eU (c :: pre) r (k + 1) (seen + 1) (c :: bufR) true <;> simp [HGood]
        intro h; exact h.cons_of c
    · split
      · have hp : ∃ b, prevIsDigit pre k = .ok b := by
          unfold prevIsDigit
          split
          · exact ⟨_, rfl⟩
          · rename_i hk0
            cases pre with
            | nil => exact absurd rfl (hk (by simpa using hk0))
            | cons p ps => exact ⟨_, rfl⟩
        obtain ⟨b, hb⟩ := hp
        rw [hb]
        simp only []
        split
        · trivial
        · split
          · trivial
          · have := ih (c :: pre) (k + 1) seen bufR hv (by simp)
            revert this
            cases numLoop eU (c :: pre) r (k + 1) seen bufR hv <;> simp [HGood]
            intro h; exact h.cons_of c
      · simp [HGood, Suf.refl]

theorem HGood.with_eq {α} {P : α → Prop} {r : HRes α} (h : HGood ap P r) :
    HGood ap (fun a => P a ∧ r = .ok a) r := by
  cases r <;> simp_all [HGood]

/-- `buf` only grows -/
theorem numLoop_buf (eU : RErr) (pre rest : List Nat) (k seen : Nat) (bufR : List Nat) (hv : Bool) (ns : NumSt)
    (h : numLoop eU pre rest k seen bufR hv = .ok ns) : ∃ x, ns.bufR = x ++ bufR := by
  induction rest generalizing pre k seen bufR hv with
  | nil =>
    simp only [numLoop, HRes.ok.injEq] at h
    exact ⟨[], by rw [← h]; rfl⟩
  | cons c r ih =>
    unfold numLoop at h
    split at h
    · split at h
      · cases h
      · obtain ⟨x, hx⟩ := ih _ _ _ _ _ h
        exact ⟨x ++ [c], by simp [hx]⟩
    · split at h
      · split at h
        · split at h
          · cases h
          · split at h
            · cases h
            · exact ih _ _ _ _ _ h
        · cases h
        · cases h
      · simp only [HRes.ok.injEq] at h
        exact ⟨[], by rw [← h]; rfl⟩

theorem numLoop_first_digit (eU : RErr) (pre : List Nat) (c : Nat) (r : List Nat) (k seen : Nat) (bufR : List Nat)
    (hv : Bool) (ns : NumSt) (hc : isDigit c = true)
    (h : numLoop eU pre (c :: r) k seen bufR hv = .ok ns) : ns.bufR ≠ [] := by
  unfold numLoop at h
  simp only [hc, ↓reduceIte] at h
  split at h
  · cases h
  · obtain ⟨x, hx⟩ := numLoop_buf _ _ _ _ _ _ _ _ h
    rw [hx]; simp

theorem numLoop_dot (eU : RErr) (pre r : List Nat) (k seen : Nat) (bufR : List Nat) (hv : Bool) :
    numLoop eU pre (46 :: r) k seen bufR hv = .ok ⟨pre, 46 :: r, seen, bufR, hv⟩ := by
  have h1 : isDigit 46 = false := by decide
  have h2 : ((46 : Nat) == 95) = false := by decide
  simp [numLoop, h1, h2]

theorem numFrac_buf (n1 n2 : NumSt) (h : numFrac n1 = .ok n2) :
    (∃ x, n2.bufR = x ++ n1.bufR) ∧ (∀ r, n1.rest = 46 :: r → n2.bufR ≠ []) := by
  unfold numFrac at h
  split at h
  · rename_i r heq
    obtain ⟨x, hx⟩ := numLoop_buf _ _ _ _ _ _ _ _ h
    exact ⟨⟨x ++ [46], by simp [hx]⟩, fun _ _ => by rw [hx]; simp⟩
  · rename_i hne
    simp only [HRes.ok.injEq] at h
    subst h
    exact ⟨⟨[], rfl⟩, fun r hr => absurd hr (hne r)⟩

theorem expMarker_buf (c : Nat) (pre r bufR : List Nat) : ∃ y, (expMarker c pre r bufR).2.2 = y ++ bufR := by
  unfold expMarker
  split
  · split
    · exact ⟨[_, c], rfl⟩
    · exact ⟨[c], rfl⟩
  · exact ⟨[c], rfl⟩

theorem numExp_buf (n2 n3 : NumSt) (h : numExp n2 = .ok n3) : ∃ x, n3.bufR = x ++ n2.bufR := by
  unfold numExp at h
  split at h
  · split at h
    · simp only [] at h
      split at h
      · rename_i n3' hn
        split at h
        · cases h
        · simp only [HRes.ok.injEq] at h
          subst h
          obtain ⟨x, hx⟩ := numLoop_buf _ _ _ _ _ _ _ _ hn
          obtain ⟨y, hy⟩ := expMarker_buf _ n2.pre _ n2.bufR
          exact ⟨x ++ y, by rw [hx, hy]; simp⟩
      · cases h
      · cases h
    · simp only [HRes.ok.injEq] at h
      subst h
      exact ⟨[], rfl⟩
  · simp only [HRes.ok.injEq] at h
    subst h
    exact ⟨[], rfl⟩

theorem readUint_good (pre rest : List Nat) (v : Fl) (d : Nat) (p : Bool) :
    HGood ap (fun r => Suf r.2.1 rest) (readUint pre rest v d p) := by
  induction rest generalizing pre v d p with
  | nil => unfold readUint; split <;> simp [HGood, Suf.refl]
  | cons c r ih =>
    unfold readUint
    split
    · split
      · trivial
      · have := ih (c :: pre) (add F (mul F v TEN) (ofNat F (c - 48))) (d + 1) true
        revert this
        cases readUint (c :: pre) r (add F (mul F v TEN) (ofNat F (c - 48))) (d + 1) true <;> simp [HGood]
        intro h; exact h.cons_of c
    · split
      · split
        · trivial
        · split
          · trivial
          · have := ih (c :: pre) v d false
            revert this
            cases readUint (c :: pre) r v d false <;> simp [HGood]
            intro h; exact h.cons_of c
      · split <;> simp [HGood, Suf.refl]

theorem readU32_good (pre rest : List Nat) :
    HGood ap (fun r => Suf r.2.1 rest) (readU32 pre rest) := by
  unfold readU32
  have := readUint_good (ap := ap) pre rest (zero F false) 0 false
  revert this
  cases readUint pre rest (zero F false) 0 false with
  | ok a =>
    obtain ⟨p, r, v, d⟩ := a
    simp only [HGood]
    intro h
    by_cases hg : gt v U32MAX = true <;> simp [hg, h]
  | err e => simp [HGood]
  | panic s => simp [HGood]

theorem readFrac_good (pre rest : List Nat) (num sc : Fl) (d : Nat) (p : Bool) :
    HGood ap (fun r => Suf r.2.1 rest) (readFrac pre rest num sc d p) := by
  induction rest generalizing pre num sc d p with
  | nil => unfold readFrac; split <;> simp [HGood, Suf.refl]
  | cons c r ih =>
    unfold readFrac
    split
    · simp only []
      split
      · trivial
      · have := ih (c :: pre) (if d < MAX_FRAC_DIGITS then add F (mul F num TEN) (ofNat F (c - 48)) else num)
          (if d < MAX_FRAC_DIGITS then mul F sc TEN else sc) (d + 1) true
        revert this
        cases readFrac (c :: pre) r (if d < MAX_FRAC_DIGITS then add F (mul F num TEN) (ofNat F (c - 48)) else num)
          (if d < MAX_FRAC_DIGITS then mul F sc TEN else sc) (d + 1) true <;> simp [HGood]
        intro h; exact h.cons_of c
    · split
      · split
        · trivial
        · split
          · trivial
          · have := ih (c :: pre) num sc d false
            revert this
            cases readFrac (c :: pre) r num sc d false <;> simp [HGood]
            intro h; exact h.cons_of c
      · split <;> simp [HGood, Suf.refl]

theorem startsCi_len {rest kw : List Nat} (h : startsCi rest kw = true) : kw.length ≤ rest.length := by
  unfold startsCi at h
  split at h
  · cases h
  · omega

theorem advN_good (n : Nat) (pre rest : List Nat) (hn : n ≤ rest.length) :
    HGood ap (fun pr => Suf pr.2 rest) (advN n pre rest) := by
  induction n generalizing pre rest with
  | zero => simp [advN, HGood, Suf.refl]
  | succ n ih =>
    cases rest with
    | nil => simp at hn
    | cons c r =>
      simp only [advN]
      have := ih (c :: pre) r (by simpa using hn)
      revert this
      cases advN n (c :: pre) r <;> simp [HGood]
      intro h; exact h.cons_of c

/-! ## parser level -/

/-- Outcome of a parser function started in `st`: a panic only if `ap` is set, never out of fuel; on success the
cursor only moved forward and `depth` / `sexagesimal_is_time` are as before; an error is raised at a
depth not below the starting depth. -/
def Good (ap : Bool) (st : St) : Res (Eval × St) → Prop
  | .ok (_, st') => Suf st'.rest st.rest ∧ st'.depth = st.depth ∧ st'.sexTime = st.sexTime
  | .err _ d => st.depth ≤ d
  | .panic _ => ap = true
  | .fuel => False

/-- the same for results carrying something else than `(Eval × St)` -/
def GoodH {α} (ap : Bool) (st : St) (P : α → Prop) : Res α → Prop
  | .ok a => P a
  | .err _ d => st.depth ≤ d
  | .panic _ => ap = true
  | .fuel => False

theorem lift_good {α} {P : α → Prop} (st : St) {r : HRes α} (h : HGood ap P r) : GoodH ap st P (HRes.lift st.depth r) := by
  cases r <;> simp_all [HGood, GoodH, HRes.lift]

theorem GoodH.bind {α β} {st : St} {P : α → Prop} {Q : β → Prop} {r : Res α} {g : α → Res β}
    (h : GoodH ap st P r) (hg : ∀ a, P a → GoodH ap st Q (g a)) : GoodH ap st Q (r.bind g) := by
  cases r with
  | ok a => exact hg a h
  | err e d => exact h
  | panic s => exact h
  | fuel => exact h

theorem good_iff (st : St) (r : Res (Eval × St)) :
    Good ap st r ↔ GoodH ap st (fun p => Suf p.2.rest st.rest ∧ p.2.depth = st.depth ∧ p.2.sexTime = st.sexTime) r := by
  cases r with
  | ok a => obtain ⟨ev, st'⟩ := a; simp [Good, GoodH]
  | err e d => simp [Good, GoodH]
  | panic s => simp [Good, GoodH]
  | fuel => simp [Good, GoodH]

/-- transport along a forward move of the cursor -/
theorem Good.mono {st0 st : St} {r : Res (Eval × St)} (h : Good ap st r)
    (hs : Suf st.rest st0.rest) (hd : st.depth = st0.depth) (ht : st.sexTime = st0.sexTime) : Good ap st0 r := by
  cases r with
  | ok a =>
    obtain ⟨ev, st'⟩ := a
    simp only [Good] at h ⊢
    exact ⟨h.1.trans hs, h.2.1.trans hd, h.2.2.trans ht⟩
  | err e d => simp only [Good] at h ⊢; omega
  | panic s => exact h
  | fuel => exact h

theorem Good.bind {st : St} {r : Res (Eval × St)} {g : Eval × St → Res (Eval × St)}
    (h : Good ap st r)
    (hg : ∀ ev st', Suf st'.rest st.rest → st'.depth = st.depth → st'.sexTime = st.sexTime → Good ap st (g (ev, st'))) :
    Good ap st (r.bind g) := by
  cases r with
  | ok a => obtain ⟨ev, st'⟩ := a; exact hg ev st' h.1 h.2.1 h.2.2
  | err e d => exact h
  | panic s => exact h
  | fuel => exact h

theorem trySexagesimal_good (tag : Nat) (st : St) :
    GoodH ap st (fun o => ∀ ev st', o = some (ev, st') →
      Suf st'.rest st.rest ∧ st'.depth = st.depth ∧ st'.sexTime = st.sexTime) (trySexagesimal tag st) := by
  unfold trySexagesimal
  simp only []
  split
  · simp [GoodH]
  · split
    · simp [GoodH]
    · refine GoodH.bind (lift_good st (readUint_good _ _ _ _ _)) ?_
      rintro ⟨pre1, rest1, degWhole, d1⟩ h1
      simp only [] at h1
      split
      · rename_i rest1' heq1; simp only [] at heq1; subst heq1
        refine GoodH.bind (lift_good st (readU32_good _ _)) ?_
        rintro ⟨pre2, rest2, minsU, d2⟩ h2
        simp only [] at h2
        have h2' : Suf rest2 st.rest := (h2.trans (Suf.cons 58 rest1')).trans h1
        split
        · simp [GoodH, St.err]
        · refine GoodH.bind (P := fun r => Suf r.2.1 st.rest) ?_ ?_
          · split
            · rename_i rest2' heq2; simp only [] at heq2; subst heq2
              refine GoodH.bind (lift_good st (readU32_good _ _)) ?_
              rintro ⟨pre3, rest3, secsU, d3⟩ h3
              simp only [] at h3
              have h3' : Suf rest3 st.rest := (h3.trans (Suf.cons 58 rest2')).trans h2'
              split
              · simp [GoodH, St.err]
              · split
                · rename_i rest3' heq3; simp only [] at heq3; subst heq3
                  refine GoodH.bind (lift_good st (readFrac_good _ _ _ _ _ _)) ?_
                  rintro ⟨pre4, rest4, frac, df⟩ h4
                  simp only [] at h4
                  simp only [GoodH]
                  exact (h4.trans (Suf.cons 46 rest3')).trans h3'
                · simpa [GoodH] using h3'
            · simpa [GoodH] using h2'
          · rintro ⟨preE, restE, secs, total⟩ hE
            simp only [] at hE
            split
            · simp [GoodH, St.err]
            · split
              · split <;> (simp only [GoodH]; intro ev st' h; cases h; exact ⟨hE, rfl, rfl⟩)
              · split <;> (simp only [GoodH]; intro ev st' h; cases h; exact ⟨hE, rfl, rfl⟩)
      · simp [GoodH]


theorem numFrac_good (n1 : NumSt) : HGood ap (fun n2 : NumSt => Suf n2.rest n1.rest) (numFrac n1) := by
  unfold numFrac
  split
  · rename_i r heq
    have := numLoop_good (ap := ap) RErr.underscoreFraction (46 :: n1.pre) r 0 n1.seen (46 :: n1.bufR) false (by simp)
    revert this
    cases numLoop RErr.underscoreFraction (46 :: n1.pre) r 0 n1.seen (46 :: n1.bufR) false <;> simp [HGood]
    intro h
    rw [heq]; exact h.cons_of 46
  · simp [HGood, Suf.refl]

theorem numExp_good (n2 : NumSt) : HGood ap (fun n3 : NumSt => Suf n3.rest n2.rest) (numExp n2) := by
  unfold numExp
  split
  · rename_i c r heq
    split
    · have hem : Suf (expMarker c n2.pre r n2.bufR).2.1 r := by
        unfold expMarker
        split
        · split
          · exact Suf.cons _ _
          · exact Suf.refl _
        · exact Suf.refl _
      simp only []
      have := numLoop_good (ap := ap) RErr.underscoreExponent (expMarker c n2.pre r n2.bufR).1
        (expMarker c n2.pre r n2.bufR).2.1 0 n2.seen (expMarker c n2.pre r n2.bufR).2.2 false (by simp)
      revert this
      cases numLoop RErr.underscoreExponent (expMarker c n2.pre r n2.bufR).1
        (expMarker c n2.pre r n2.bufR).2.1 0 n2.seen (expMarker c n2.pre r n2.bufR).2.2 false with
      | ok n3 =>
        simp only [HGood]
        intro h
        by_cases hh : (!n3.hadDigit) = true
        · simp [hh, HGood]
        · simp only [hh, Bool.false_eq_true, ↓reduceIte, HGood]
          rw [heq]; exact (h.trans hem).cons_of c
      | err e => simp [HGood]
      | panic s => simp [HGood]
    · simp [HGood, Suf.refl]
  · simp [HGood, Suf.refl]

theorem parseNumberOrSpecial_good (tag : Nat) (st : St)
    (hc : ∃ c r, st.rest = c :: r ∧ (isDigit c = true ∨ c = 46)) :
    Good ap st (parseNumberOrSpecial tag st) := by
  rw [good_iff]
  unfold parseNumberOrSpecial
  split
  · rename_i hT
    refine GoodH.bind (lift_good st (advN_good 4 _ _ (by simpa using startsCi_len hT))) ?_
    rintro ⟨p, r⟩ hpr
    exact ⟨hpr, rfl, rfl⟩
  · split
    · rename_i hT
      refine GoodH.bind (lift_good st (advN_good 4 _ _ (by simpa using startsCi_len hT))) ?_
      rintro ⟨p, r⟩ hpr
      exact ⟨hpr, rfl, rfl⟩
    · refine GoodH.bind (trySexagesimal_good tag st) ?_
      intro sx hsx
      split
      · rename_i res
        obtain ⟨ev, st'⟩ := res
        exact hsx ev st' rfl
      · refine GoodH.bind (lift_good st (numLoop_good _ _ _ 0 0 [] false (by simp)).with_eq) ?_
        intro n1 ⟨h1, e1⟩
        refine GoodH.bind (lift_good st (numFrac_good n1).with_eq) ?_
        intro n2 ⟨h2', e2⟩
        have h2 : Suf n2.rest st.rest := h2'.trans h1
        refine GoodH.bind (lift_good st (numExp_good n2).with_eq) ?_
        · intro n3 ⟨h3', e3⟩
          have h3 : Suf n3.rest st.rest := h3'.trans h2
          -- `buf` is not empty: the first byte was a digit or the '.'
          have hb2 : n2.bufR ≠ [] := by
            obtain ⟨c, r, hr, hcd⟩ := hc
            rw [hr] at e1
            rcases hcd with hd | h46
            · have := numLoop_first_digit _ _ _ _ _ _ _ _ _ hd e1
              obtain ⟨x, hx⟩ := (numFrac_buf n1 n2 e2).1
              rw [hx]; intro hh; exact this (List.append_eq_nil_iff.mp hh).2
            · subst h46
              rw [numLoop_dot] at e1
              simp only [HRes.ok.injEq] at e1
              exact (numFrac_buf n1 n2 e2).2 r (by rw [← e1])
          have hb3 : n3.bufR.isEmpty = false := by
            obtain ⟨x, hx⟩ := numExp_buf n2 n3 e3
            cases hn3 : n3.bufR with
            | nil => rw [hn3] at hx; exact absurd (List.append_eq_nil_iff.mp hx.symm).2 hb2
            | cons _ _ => rfl
          show GoodH ap st _ _
          simp only [hb3, Bool.false_eq_true, ↓reduceIte]
          split
          · exact ⟨h3, rfl, rfl⟩
          · simp [GoodH, St.err]

theorem enter_good (st : St) :
    GoodH ap st (fun st1 => st1.rest = st.rest ∧ st1.depth = st.depth + 1 ∧ st1.sexTime = st.sexTime ∧
      st.depth < MAX_EXPR_DEPTH) (St.enter st) := by
  unfold St.enter
  split
  · simp [GoodH, St.err]
  · split
    · rename_i h1 h2
      exfalso
      have : MAX_EXPR_DEPTH = 256 := rfl
      omega
    · rename_i h1 h2
      simp only [GoodH]
      refine ⟨trivial, trivial, trivial, ?_⟩
      omega

/-- `let r = E st1; self.exit(); r?` for a good `E` one level deeper -/
theorem exitAfter_good (st st1 : St) (r : Res (Eval × St)) (h : Good ap st1 r) (hd : st1.depth = st.depth + 1)
    (hs : Suf st1.rest st.rest) :
    GoodH ap st (fun p : Eval × St => Suf p.2.rest st.rest ∧ p.2.depth = st.depth ∧ p.2.sexTime = st1.sexTime)
      (exitAfter r) := by
  cases r with
  | ok a =>
    obtain ⟨ev, st2⟩ := a
    simp only [Good] at h
    simp only [exitAfter, St.exit]
    have : st2.depth ≠ 0 := by omega
    simp [this, Res.bind, GoodH]
    exact ⟨h.1.trans hs, by omega, h.2.2⟩
  | err e d =>
    simp only [Good] at h
    simp only [exitAfter]
    have : d ≠ 0 := by omega
    simp [this, GoodH]
    omega
  | panic s => exact h
  | fuel => exact h

/-- Hypothesis on the recursive call: `E` is good one level deeper (it is only ever called there). -/
def EGood (ap : Bool) (E : St → Res (Eval × St)) (D : Nat) (lf : Nat) : Prop :=
  D < MAX_EXPR_DEPTH → ∀ st1 : St, st1.depth = D + 1 → NC ap st1.rest → st1.rest.length < lf → Good ap st1 (E st1)

theorem identStart_facts (c : Nat) (h : isIdentStart c = true) :
    isIdentCont c = true ∧ isCont c = false ∧ c < 128 := by
  simp only [isIdentStart, isAlpha, Bool.or_eq_true, Bool.and_eq_true, decide_eq_true_eq, beq_iff_eq] at h
  refine ⟨?_, ?_, by omega⟩
  · simp only [isIdentCont, isAlpha, isDigit, Bool.or_eq_true, Bool.and_eq_true, decide_eq_true_eq, beq_iff_eq]
    omega
  · simp only [isCont, Bool.and_eq_false_iff, decide_eq_false_iff_not]
    omega

theorem identCont_lt (c : Nat) (h : isIdentCont c = true) : c < 128 := by
  simp only [isIdentCont, isAlpha, isDigit, Bool.or_eq_true, Bool.and_eq_true, decide_eq_true_eq, beq_iff_eq] at h
  omega

/-- the identifier scan consumes identifier bytes only, and at least the first one if it is one -/
theorem identLoop_tok (pre rest acc : List Nat) :
    ∃ tok, rest = tok ++ (identLoop pre rest acc).2.1 ∧ (∀ x ∈ tok, x < 128) ∧
      (∀ c r, rest = c :: r → isIdentCont c = true → tok ≠ []) := by
  induction rest generalizing pre acc with
  | nil => exact ⟨[], rfl, (by intro x hx; cases hx), (by intro c r h; cases h)⟩
  | cons c r ih =>
    unfold identLoop
    split
    · rename_i hc
      obtain ⟨tok, h1, h2, _⟩ := ih (c :: pre) (c :: acc)
      refine ⟨c :: tok, by rw [List.cons_append, ← h1], ?_, by intro _ _ _ _; simp⟩
      intro x hx
      cases hx with
      | head => exact identCont_lt c hc
      | tail _ h => exact h2 x h
    · rename_i hc
      refine ⟨[], rfl, (by intro x hx; cases hx), ?_⟩
      intro c' r' h hc'
      cases h
      exact absurd hc' hc

theorem parseIdentOrSpecial_good (E : St → Res (Eval × St)) (lf : Nat) (st : St) (hE : EGood ap E st.depth lf)
    (hn : NC ap st.rest) (hl : st.rest.length < lf)
    (hh : ∃ c r, st.rest = c :: r ∧ isIdentStart c = true) :
    Good ap st (parseIdentOrSpecial E st) := by
  rw [good_iff]
  unfold parseIdentOrSpecial
  simp only []
  have hil : Suf (identLoop st.pre st.rest []).2.1 st.rest := identLoop_suf _ _ _
  by_cases hb : (boundaryAhead st.rest 0 && boundaryAhead (identLoop st.pre st.rest []).2.1 0) = true
  case neg =>
    cases hn with
    | inl h' => simp [hb, GoodH, h']
    | inr hadj =>
      exfalso
      apply hb
      obtain ⟨c, r, hr, hc⟩ := hh
      obtain ⟨hcc, hnc, _⟩ := identStart_facts c hc
      obtain ⟨tok, ht1, ht2, ht3⟩ := identLoop_tok st.pre st.rest []
      have hne : tok ≠ [] := ht3 c r hr hcc
      rw [Bool.and_eq_true]
      constructor
      · apply boundaryAhead_zero
        intro c' r' h
        rw [hr] at h; cases h; exact hnc
      · apply boundaryAhead_zero
        intro b q hbq
        rw [hbq] at ht1
        rw [ht1] at hadj
        exact AdjOk.after_ascii tok b q hadj hne ht2
  simp only [hb, Bool.not_true, Bool.false_eq_true, ↓reduceIte]
  split
  · exact ⟨hil, rfl, rfl⟩
  · split
    · exact ⟨hil, rfl, rfl⟩
    · split
      · exact ⟨hil, rfl, rfl⟩
      · split
        · exact ⟨hil, rfl, rfl⟩
        · split
          · -- deg( / rad(
            generalize hst1 : ({ st with pre := (identLoop st.pre st.rest []).1, rest := (identLoop st.pre st.rest []).2.1 } : St) = st1
            have h1 : Suf st1.rest st.rest := by rw [← hst1]; exact hil
            have hd1 : st1.depth = st.depth := by rw [← hst1]
            have ht1 : st1.sexTime = st.sexTime := by rw [← hst1]
            have h2 : Suf st1.skipWs.rest st.rest := (skipWs_rest st1).trans h1
            split
            · rename_i r heq
              have h3 : Suf r st.rest := by
                have : Suf r st1.skipWs.rest := by rw [heq]; exact Suf.cons _ _
                exact this.trans h2
              refine GoodH.bind (P := fun st4 : St => st4.rest = r ∧ st4.depth = st.depth + 1 ∧ st4.sexTime = false ∧ st.depth < MAX_EXPR_DEPTH) ?_ ?_
              · have := enter_good (ap := ap) ({ st1.skipWs.adv 40 r with sexTime := false })
                revert this
                cases St.enter ({ st1.skipWs.adv 40 r with sexTime := false }) with
                | ok a => simp only [GoodH, St.adv, skipWs_depth, hd1]; intro h; exact ⟨h.1, h.2.1, h.2.2.1, h.2.2.2⟩
                | err e d => simp only [GoodH, St.adv, skipWs_depth, hd1]; exact id
                | panic s => simp [GoodH]
                | fuel => simp [GoodH]
              · intro st4 ⟨h4r, h4d, h4t, hlt⟩
                have hg4 : Good ap st4 (E st4) := hE hlt st4 h4d (by rw [h4r]; exact hn.suf h3)
                  (by rw [h4r]; exact Nat.lt_of_le_of_lt h3.length_le hl)
                refine GoodH.bind (exitAfter_good st st4 _ hg4 h4d (by rw [h4r]; exact h3)) ?_
                rintro ⟨⟨v, u1, u2⟩, st5⟩ ⟨h5r, h5d, h5t⟩
                simp only [] at h5r h5d h5t
                generalize hst6 : ({ st5 with sexTime := (st1.skipWs.adv 40 r).sexTime } : St).skipWs = st6
                have h6 : Suf st6.rest st.rest := by
                  rw [← hst6]; exact (skipWs_rest _).trans h5r
                have h6d : st6.depth = st.depth := by rw [← hst6]; simpa using h5d
                have h6t : st6.sexTime = st.sexTime := by rw [← hst6]; simp [St.adv, ht1]
                split
                · rename_i r' heq'
                  have : Suf r' st.rest := by
                    have : Suf r' st6.rest := by rw [heq']; exact Suf.cons _ _
                    exact this.trans h6
                  split <;> exact ⟨this, h6d, h6t⟩
                · simp only [GoodH, St.err, St.adv]; omega
                · simp only [GoodH, St.err]; omega
            · simp only [GoodH, St.err, St.adv, skipWs_depth]; omega
            · simp only [GoodH, St.err, skipWs_depth]; omega
          · simp [GoodH, St.err]

theorem primary_good (tag : Nat) (E : St → Res (Eval × St)) (lf : Nat) (st0 : St) (hE : EGood ap E st0.depth lf)
    (hn : NC ap st0.rest) (hl : st0.rest.length < lf) :
    Good ap st0 (primary tag E st0) := by
  unfold primary
  simp only []
  generalize hst : st0.skipWs = st
  have hs : Suf st.rest st0.rest := by rw [← hst]; exact skipWs_rest st0
  have hd : st.depth = st0.depth := by rw [← hst]; rfl
  have ht : st.sexTime = st0.sexTime := by rw [← hst]; rfl
  have hn' : NC ap st.rest := hn.suf hs
  have hl' : st.rest.length < lf := Nat.lt_of_le_of_lt hs.length_le hl
  refine Good.mono (st := st) ?_ hs hd ht
  split
  · simp [Good, St.err]
  · rename_i c r heq
    split
    · -- '('
      rw [good_iff]
      have hr : Suf r st.rest := by rw [heq]; exact Suf.cons _ _
      refine GoodH.bind (P := fun st1 : St => st1.rest = r ∧ st1.depth = st.depth + 1 ∧ st1.sexTime = st.sexTime ∧ st.depth < MAX_EXPR_DEPTH) ?_ ?_
      · have := enter_good (ap := ap) (st.adv c r)
        revert this
        cases St.enter (st.adv c r) with
        | ok a => simp only [GoodH, St.adv]; exact id
        | err e d => simp only [GoodH, St.adv]; exact id
        | panic s => simp [GoodH]
        | fuel => simp [GoodH]
      · intro st1 ⟨h1r, h1d, h1t, hlt⟩
        have hg1 : Good ap st1 (E st1) := hE (by omega) st1 (by omega) (by rw [h1r]; exact hn'.suf hr)
          (by rw [h1r]; exact Nat.lt_of_le_of_lt hr.length_le hl')
        refine GoodH.bind (exitAfter_good st st1 _ hg1 h1d (by rw [h1r]; exact hr)) ?_
        rintro ⟨ev, st2⟩ ⟨h2r, h2d, h2t⟩
        simp only [] at h2r h2d h2t
        have h3 : Suf st2.skipWs.rest st.rest := (skipWs_rest st2).trans h2r
        split
        · rename_i r' heq'
          have : Suf r' st.rest := by
            have : Suf r' st2.skipWs.rest := by rw [heq']; exact Suf.cons _ _
            exact this.trans h3
          exact ⟨this, by simpa [St.adv] using h2d, by simp [St.adv, h2t, h1t]⟩
        · simp only [GoodH, St.err, St.adv, skipWs_depth]; omega
        · simp only [GoodH, St.err, skipWs_depth]; omega
    · split
      · rename_i hcd
        exact parseNumberOrSpecial_good tag st ⟨c, r, heq, by simpa [Bool.or_eq_true] using hcd⟩
      · split
        · rename_i hci
          exact parseIdentOrSpecial_good E lf st (by rw [hd]; exact hE) hn' hl' ⟨c, r, heq, hci⟩
        · simp [Good, St.err]

theorem unary_good (tag : Nat) (E : St → Res (Eval × St)) (lf : Nat) (st0 : St) (hE : EGood ap E st0.depth lf)
    (hn : NC ap st0.rest) (hl : st0.rest.length < lf) :
    Good ap st0 (unary tag E st0) := by
  unfold unary
  simp only []
  generalize hsl : signLoop st0.skipWs.pre st0.skipWs.rest ONE = sl
  generalize hst : (St.mk sl.1 sl.2.1 st0.skipWs.depth st0.skipWs.sexTime) = st
  have hs : Suf st.rest st0.rest := by
    rw [← hst, ← hsl]; exact (signLoop_suf _ _ _).trans (skipWs_rest st0)
  have hd : st.depth = st0.depth := by rw [← hst]; rfl
  have ht : st.sexTime = st0.sexTime := by rw [← hst]; rfl
  have hp := primary_good tag E lf st (by rw [hd]; exact hE) (hn.suf hs) (Nat.lt_of_le_of_lt hs.length_le hl)
  refine Good.mono (st := st) ?_ hs hd ht
  refine Good.bind hp ?_
  rintro ⟨v, uu, sp⟩ st' h1 h2 h3
  exact ⟨h1, h2, h3⟩

theorem termLoop_good (tag : Nat) (E : St → Res (Eval × St)) (lf : Nat) (k : Nat) (ev : Eval) (st0 : St)
    (hE : EGood ap E st0.depth lf) (hn : NC ap st0.rest) (hl : st0.rest.length < lf) (hk : st0.rest.length < k) :
    Good ap st0 (termLoop tag E k ev st0) := by
  induction k generalizing ev st0 with
  | zero => omega
  | succ k ih =>
    obtain ⟨v, uu, sp⟩ := ev
    unfold termLoop
    simp only []
    generalize hst : st0.skipWs = st
    have hs : Suf st.rest st0.rest := by rw [← hst]; exact skipWs_rest st0
    have hd : st.depth = st0.depth := by rw [← hst]; rfl
    have ht : st.sexTime = st0.sexTime := by rw [← hst]; rfl
    refine Good.mono (st := st) ?_ hs hd ht
    have step : ∀ (c : Nat) (r : List Nat) (op : Fl → Fl → Fl), st.rest = c :: r →
        Good ap st ((unary tag E (st.adv c r)).bind fun x =>
          termLoop tag E k (op v x.1.1, uu || x.1.2.1, sp || x.1.2.2) x.2) := by
      intro c r op heq
      have hr : Suf r st.rest := by rw [heq]; exact Suf.cons _ _
      have hrl : r.length < st.rest.length := by rw [heq]; simp
      have hsl := hs.length_le
      have hu := unary_good tag E lf (st.adv c r) (by simpa [St.adv, hd] using hE) (by simpa [St.adv] using (hn.suf hs).suf hr)
        (by simp only [St.adv]; omega)
      refine Good.mono (st := st.adv c r) ?_ hr rfl rfl
      refine Good.bind hu ?_
      intro ev' st' h1 h2 h3
      simp only [St.adv] at h1 h2 h3
      have hl1 := h1.length_le
      have := ih (op v ev'.1, uu || ev'.2.1, sp || ev'.2.2) st' (by rw [h2, hd]; exact hE)
        (((hn.suf hs).suf hr).suf h1) (by omega) (by omega)
      exact Good.mono this h1 h2 h3
    split
    · exact ⟨Suf.refl _, rfl, rfl⟩
    · rename_i c r heq
      split
      · exact step c r (mul F) heq
      · split
        · exact step c r (div F) heq
        · exact ⟨Suf.refl _, rfl, rfl⟩

theorem term_good (tag : Nat) (E : St → Res (Eval × St)) (lf : Nat) (st0 : St)
    (hE : EGood ap E st0.depth lf) (hn : NC ap st0.rest) (hl : st0.rest.length < lf) :
    Good ap st0 (term tag lf E st0) := by
  unfold term
  refine Good.bind (unary_good tag E lf st0 hE hn hl) ?_
  intro ev st' h1 h2 h3
  have hl1 := h1.length_le
  have := termLoop_good tag E lf lf ev st' (by rw [h2]; exact hE) (hn.suf h1) (by omega) (by omega)
  exact Good.mono this h1 h2 h3

theorem exprLoop_good (tag : Nat) (E : St → Res (Eval × St)) (lf : Nat) (k : Nat) (ev : Eval) (st0 : St)
    (hE : EGood ap E st0.depth lf) (hn : NC ap st0.rest) (hl : st0.rest.length < lf) (hk : st0.rest.length < k) :
    Good ap st0 (exprLoop tag lf E k ev st0) := by
  induction k generalizing ev st0 with
  | zero => omega
  | succ k ih =>
    obtain ⟨v, uu, sp⟩ := ev
    unfold exprLoop
    simp only []
    generalize hst : st0.skipWs = st
    have hs : Suf st.rest st0.rest := by rw [← hst]; exact skipWs_rest st0
    have hd : st.depth = st0.depth := by rw [← hst]; rfl
    have ht : st.sexTime = st0.sexTime := by rw [← hst]; rfl
    refine Good.mono (st := st) ?_ hs hd ht
    have step : ∀ (c : Nat) (r : List Nat) (op : Fl → Fl → Fl), st.rest = c :: r →
        Good ap st ((term tag lf E (st.adv c r)).bind fun x =>
          exprLoop tag lf E k (op v x.1.1, uu || x.1.2.1, sp || x.1.2.2) x.2) := by
      intro c r op heq
      have hr : Suf r st.rest := by rw [heq]; exact Suf.cons _ _
      have hrl : r.length < st.rest.length := by rw [heq]; simp
      have hsl := hs.length_le
      have hu := term_good tag E lf (st.adv c r) (by simpa [St.adv, hd] using hE) (by simpa [St.adv] using (hn.suf hs).suf hr)
        (by simp only [St.adv]; omega)
      refine Good.mono (st := st.adv c r) ?_ hr rfl rfl
      refine Good.bind hu ?_
      intro ev' st' h1 h2 h3
      simp only [St.adv] at h1 h2 h3
      have hl1 := h1.length_le
      have := ih (op v ev'.1, uu || ev'.2.1, sp || ev'.2.2) st' (by rw [h2, hd]; exact hE)
        (((hn.suf hs).suf hr).suf h1) (by omega) (by omega)
      exact Good.mono this h1 h2 h3
    split
    · exact ⟨Suf.refl _, rfl, rfl⟩
    · rename_i c r heq
      split
      · exact step c r (add F) heq
      · split
        · exact step c r (sub F) heq
        · exact ⟨Suf.refl _, rfl, rfl⟩

/-- `expr` with recursion fuel `n + 1` is good whenever `depth + n ≥ MAX_EXPR_DEPTH` and the loop fuel
exceeds the remaining length. -/
theorem expr_good (tag lf : Nat) (n : Nat) (st : St) (hdn : MAX_EXPR_DEPTH ≤ st.depth + n)
    (hn : NC ap st.rest) (hl : st.rest.length < lf) :
    Good ap st (expr tag lf (n + 1) st) := by
  induction n generalizing st with
  | zero =>
    have hE : EGood ap (expr tag lf 0) st.depth lf := by
      intro hlt; omega
    unfold expr
    refine Good.bind (term_good tag _ lf st hE hn hl) ?_
    intro ev st' h1 h2 h3
    have hl1 := h1.length_le
    have := exprLoop_good tag (expr tag lf 0) lf lf ev st' (by rw [h2]; exact hE) (hn.suf h1) (by omega) (by omega)
    exact Good.mono this h1 h2 h3
  | succ n ih =>
    have hE : EGood ap (expr tag lf (n + 1)) st.depth lf := by
      intro hlt st1 hd1 hn1 hl1
      exact ih st1 (by omega) hn1 hl1
    unfold expr
    refine Good.bind (term_good tag _ lf st hE hn hl) ?_
    intro ev st' h1 h2 h3
    have hl1 := h1.length_le
    have := exprLoop_good tag (expr tag lf (n + 1)) lf lf ev st' (by rw [h2]; exact hE) (hn.suf h1) (by omega) (by omega)
    exact Good.mono this h1 h2 h3


/-- Outcome classes of the whole evaluation. -/
def TopGood (ap : Bool) : Res Fl → Prop
  | .ok _ => True
  | .err _ _ => True
  | .panic _ => ap = true
  | .fuel => False

theorem evalExpr_good (tag : Nat) (s : List Nat) (hn : NC ap s) : TopGood ap (evalExpr tag s) := by
  unfold evalExpr
  simp only []
  generalize hst : (St.skipWs { pre := [], rest := s, depth := 0, sexTime := true }) = st0
  have hs : Suf st0.rest s := by rw [← hst]; exact skipWs_rest _
  have hd : st0.depth = 0 := by rw [← hst]; rfl
  have hg := expr_good (ap := ap) tag (s.length + 1) MAX_EXPR_DEPTH st0 (by omega) (hn.suf hs)
    (Nat.lt_succ_of_le hs.length_le)
  revert hg
  cases expr tag (s.length + 1) (MAX_EXPR_DEPTH + 1) st0 with
  | ok a =>
    obtain ⟨⟨v, used, plain⟩, st1⟩ := a
    intro _
    simp only [Res.bind]
    split
    · simp [TopGood, St.err]
    · split
      · simp [TopGood]
      · split <;> simp [TopGood, St.err]
  | err e d => intro _; simp [Res.bind, TopGood]
  | panic p => intro h; simpa [Res.bind, TopGood, Good] using h
  | fuel => intro h; simp [Good] at h


/-! ## the bytes of a `str` -/

def HeadOk (l : List Nat) : Prop := ∀ c r, l = c :: r → isCont c = false

theorem AdjOk.append {a b : List Nat} (ha : AdjOk a) (hb : AdjOk b) (hh : HeadOk b) : AdjOk (a ++ b) := by
  induction a with
  | nil => exact hb
  | cons x a ih =>
    cases a with
    | nil =>
      cases b with
      | nil => trivial
      | cons y r =>
        refine ⟨?_, hb⟩
        intro hy
        rw [hh y r rfl] at hy
        cases hy
    | cons x' a' => exact ⟨ha.1, ih ha.2⟩

theorem utf8_char_ok (c : Char) : AdjOk (utf8 [c]) ∧ HeadOk (utf8 [c]) ∧ utf8 [c] ≠ [] := by
  simp only [utf8, List.flatMap_cons, List.flatMap_nil, List.append_nil]
  split
  · rename_i h
    refine ⟨trivial, ?_, by simp⟩
    intro x r hx
    cases hx
    simp only [isCont, Bool.and_eq_false_iff, decide_eq_false_iff_not]
    omega
  · split
    · refine ⟨⟨by intro _; omega, trivial⟩, ?_, by simp⟩
      intro x r hx
      cases hx
      simp only [isCont, Bool.and_eq_false_iff, decide_eq_false_iff_not]
      omega
    · split
      · refine ⟨⟨by intro _; omega, by intro _; omega, trivial⟩, ?_, by simp⟩
        intro x r hx
        cases hx
        simp only [isCont, Bool.and_eq_false_iff, decide_eq_false_iff_not]
        omega
      · refine ⟨⟨by intro _; omega, by intro _; omega, by intro _; omega, trivial⟩, ?_, by simp⟩
        intro x r hx
        cases hx
        simp only [isCont, Bool.and_eq_false_iff, decide_eq_false_iff_not]
        omega

theorem utf8_cons (c : Char) (cs : List Char) : utf8 (c :: cs) = utf8 [c] ++ utf8 cs := by
  simp [utf8]

/-- the UTF-8 bytes of any string: continuation bytes only behind non-ASCII bytes, none in front -/
theorem utf8_ok (cs : List Char) : AdjOk (utf8 cs) ∧ HeadOk (utf8 cs) := by
  induction cs with
  | nil => exact ⟨trivial, by intro c r h; simp [utf8] at h⟩
  | cons c cs ih =>
    obtain ⟨h1, h2, h3⟩ := utf8_char_ok c
    rw [utf8_cons]
    refine ⟨h1.append ih.1 ih.2, ?_⟩
    intro x r hx
    cases hu : utf8 [c] with
    | nil => exact absurd hu h3
    | cons y q =>
      rw [hu] at hx
      simp only [List.cons_append, List.cons.injEq] at hx
      rw [← hx.1]
      exact h2 y q hu

end SaphyrVerif.Lemmas.C19
