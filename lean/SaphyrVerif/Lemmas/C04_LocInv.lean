import SaphyrVerif.Lemmas.C04_Loc
import SaphyrVerif.Lemmas.C02_Misc
/-!
Helper lemmas for C04, location of the duplicate-key error, part 2: the invariant that makes `Events::at_alias`
(`idx == 1` on the top replay frame) exact.  Kept apart from `C04_Loc.lean` because it works on `parserLoop` by
functional induction like `C02_Misc.lean` (modules that do so cannot be imported together with
`C11_Measure.lean`, and `Props/C04.lean` is below the C05 / C11 developments).
-/
namespace SaphyrVerif.Lemmas.C04Loc
open SaphyrVerif SaphyrVerif.Scalars SaphyrVerif.Pump SaphyrVerif.De

/-! ### between two pump calls every replay frame has served at least one event

So `idx == 1` on the top frame after a look-ahead means exactly "this look-ahead pushed the frame":
a frame that was already there had `idx ≥ 1` before and has `idx ≥ 2` after serving the event. -/

/-- every frame has served at least one event -/
def IdxPos (fs : List InjectFrame) : Prop := ∀ fr ∈ fs, 1 ≤ fr.idx

theorem IdxPos.nil : IdxPos [] := by intro fr h; cases h

theorem serveInject_idxPos (p : Pump) (fs : List InjectFrame) (h : IdxPos fs) :
    IdxPos (serveInject p fs).2.inject := by
  induction fs with
  | nil => simpa [serveInject] using IdxPos.nil
  | cons fr rest ih =>
    have hrest : IdxPos rest := fun x hx => h x (List.mem_cons_of_mem _ hx)
    have hserved : IdxPos ({ fr with idx := fr.idx + 1 } :: rest) := by
      intro x hx
      rcases List.mem_cons.mp hx with rfl | hx
      · simp
      · exact hrest x hx
    simp only [serveInject]
    repeat' split
    all_goals first
      | exact ih hrest
      | exact h
      | exact hserved

/-- a frame pushed for an alias (index 0, anchor known) on top of served frames -/
theorem serveInject_idxPos_fresh (p : Pump) (fr : InjectFrame) (fs : List InjectFrame) (h : IdxPos fs)
    (hb : (lookupAnchor p.anchors fr.anchorId).isSome = true) :
    IdxPos (serveInject p (fr :: fs)).2.inject := by
  have hserved : IdxPos ({ fr with idx := fr.idx + 1 } :: fs) := by
    intro x hx
    rcases List.mem_cons.mp hx with rfl | hx
    · simp
    · exact h x hx
  simp only [serveInject]
  repeat' split
  all_goals first
    | exact serveInject_idxPos p fs h
    | exact hserved
    | (rename_i hn; rw [hn] at hb; cases hb)

theorem parserLoop_idxPos (p : Pump) (inp : List RawItem) (h : p.inject = []) :
    IdxPos (parserLoop p inp).2.1.inject := by
  fun_induction parserLoop p inp
  all_goals try (simp_all +zetaDelta [Pump.resetDocumentState, IdxPos]; done)
  case case6 =>
    simp +zetaDelta only
    split <;> simp [h, IdxPos]
  case case18 =>
    rename_i p0 loc rest bud p1 id count p2 hcount nd hnd hrec buf hlk p3 step p' hs ob hx
    have hb : (lookupAnchor p3.anchors ({ anchorId := id, idx := 0, refLoc := loc } : InjectFrame).anchorId).isSome = true := by
      have : lookupAnchor p0.anchors id = some buf := hlk
      simp +zetaDelta [this]
    have := serveInject_idxPos_fresh p3 { anchorId := id, idx := 0, refLoc := loc } [] IdxPos.nil hb
    have hinj : p3.inject = [{ anchorId := id, idx := 0, refLoc := loc }] := by simp +zetaDelta [h]
    rw [hinj] at hs
    rw [hs] at this
    exact this
  case case19 =>
    rename_i p3 p' hs ob hx ih
    apply ih
    have := (C02.serveInject_inject p3 p3.inject).1
    rw [hs] at this
    exact this rfl

theorem nextImpl_idxPos (p : Pump) (inp : List RawItem) (h : IdxPos p.inject) :
    IdxPos (nextImpl p inp).2.1.inject := by
  unfold nextImpl
  have h1 := serveInject_idxPos p p.inject h
  have h2 := C02.serveInject_inject p p.inject
  rcases hs : serveInject p p.inject with ⟨_ | step, p'⟩
  · rw [hs] at h2
    exact parserLoop_idxPos p' inp (h2.1 rfl)
  · rw [hs] at h1
    exact h1

/-- the invariant of the pump as the cursor uses it -/
theorem peek_idxPos (p : Pump) (inp : List RawItem) (h : IdxPos p.inject) : IdxPos (Pump.peek p inp).2.1.inject := by
  unfold Pump.peek
  cases hl : p.look with
  | some ev => exact h
  | none =>
    have := nextImpl_idxPos p inp h
    rcases hn : nextImpl p inp with ⟨s, p', r⟩
    rw [hn] at this
    cases s <;> exact this

theorem next_idxPos (p : Pump) (inp : List RawItem) (h : IdxPos p.inject) : IdxPos (Pump.next p inp).2.1.inject := by
  unfold Pump.next
  cases hl : p.look with
  | some ev => exact h
  | none => exact nextImpl_idxPos p inp h

end SaphyrVerif.Lemmas.C04Loc
