import SaphyrVerif.Model.Locs
/-! C16: everything expanded from one merge source carries the use-site location observed at that source
(`ReplayEvents::with_reference`: nested merges inside the source read the override back). -/
namespace SaphyrVerif.Lemmas.C16
open SaphyrVerif SaphyrVerif.Scalars SaphyrVerif.Pump SaphyrVerif.De

/-- a replay cursor with use-site override `r` -/
def RefIs (r : Loc) : Cur → Prop
  | .replay _ _ (some x) => x = r
  | _ => False

theorem RefIs.elim {r : Loc} {c : Cur} (h : RefIs r c) : ∃ buf idx, c = .replay buf idx (some r) := by
  cases c with
  | live p inp => cases h
  | replay buf idx ref =>
    cases ref with
    | none => cases h
    | some x => cases h; exact ⟨buf, idx, rfl⟩

theorem RefIs.refLoc {r : Loc} {c : Cur} (h : RefIs r c) : c.refLoc = r := by
  obtain ⟨buf, idx, rfl⟩ := h.elim; rfl

theorem RefIs.next_ok {r : Loc} {c : Cur} (h : RefIs r c) : ∃ o c', c.next = .ok o c' ∧ RefIs r c' := by
  obtain ⟨buf, idx, rfl⟩ := h.elim
  simp only [Cur.next]
  cases buf[idx]? with
  | none => exact ⟨_, _, rfl, rfl⟩
  | some e => exact ⟨_, _, rfl, rfl⟩

theorem RefIs.next {r : Loc} {c c' : Cur} {o : Option Ev} (h : RefIs r c) (hn : c.next = .ok o c') : RefIs r c' := by
  obtain ⟨o', c'', h1, h2⟩ := h.next_ok
  rw [h1] at hn
  cases hn
  exact h2

theorem RefIs.next_err {r : Loc} {c c' : Cur} {e : DErr} (h : RefIs r c) (hn : c.next = .err e c') : False := by
  obtain ⟨o', c'', h1, _⟩ := h.next_ok
  rw [h1] at hn
  cases hn

theorem RefIs.peek {r : Loc} {c c' : Cur} {o : Option Ev} (h : RefIs r c) (hn : c.peek = .ok o c') : RefIs r c' := by
  obtain ⟨buf, idx, rfl⟩ := h.elim
  simp only [Cur.peek, R.ok.injEq] at hn
  obtain ⟨_, rfl⟩ := hn
  exact h

/-- `capture_node` leaves a replay cursor a replay cursor with the same override -/
theorem capture_refIs (r : Loc) (fuel : Nat) :
    (∀ c k c', RefIs r c → capture fuel c = .ok k c' → RefIs r c') ∧
    (∀ c fps evs x c', RefIs r c → captureSeq fuel c fps evs = .ok x c' → RefIs r c') ∧
    (∀ c fps evs x c', RefIs r c → captureMap fuel c fps evs = .ok x c' → RefIs r c') := by
  induction fuel with
  | zero =>
    refine ⟨?_, ?_, ?_⟩ <;> intros <;> simp_all [capture, captureSeq, captureMap]
  | succ fuel ih =>
    obtain ⟨ih1, ih2, ih3⟩ := ih
    refine ⟨?_, ?_, ?_⟩
    · intro c k c' hc h
      unfold capture at h
      split at h
      · cases h
      · cases h
      · rename_i ev c1 hn
        have hc1 := hc.next hn
        split at h
        · cases h; exact hc1
        · split at h
          · cases h
          · rename_i x c2 hx
            cases h
            exact ih2 _ _ _ _ _ hc1 hx
        · split at h
          · cases h
          · rename_i x c2 hx
            cases h
            exact ih3 _ _ _ _ _ hc1 hx
        · cases h
        · cases h
    · intro c fps evs x c' hc h
      unfold captureSeq at h
      split at h
      · cases h
      · cases h
      · rename_i l c1 hp
        have hc1 := hc.peek hp
        split at h
        · cases h
        · rename_i o c2 hn
          cases h
          exact hc1.next hn
      · rename_i ev c1 _ hp
        have hc1 := hc.peek hp
        split at h
        · cases h
        · rename_i child c2 hcap
          exact ih2 _ _ _ _ _ (ih1 _ _ _ hc1 hcap) h
    · intro c fps evs x c' hc h
      unfold captureMap at h
      split at h
      · cases h
      · cases h
      · rename_i l c1 hp
        have hc1 := hc.peek hp
        split at h
        · cases h
        · rename_i o c2 hn
          cases h
          exact hc1.next hn
      · rename_i ev c1 _ hp
        have hc1 := hc.peek hp
        split at h
        · cases h
        · rename_i k c2 hcap
          split at h
          · cases h
          · rename_i v c3 hcap2
            exact ih3 _ _ _ _ _ (ih1 _ _ _ (ih1 _ _ _ hc1 hcap) hcap2) h

/-- every entry carries the use-site `r` -/
def AllRef (r : Loc) (es : List PendingEntry) : Prop := ∀ e ∈ es, e.ref = r

theorem AllRef.nil (r : Loc) : AllRef r [] := by intro e h; cases h

theorem AllRef.append {r : Loc} {a b : List PendingEntry} (ha : AllRef r a) (hb : AllRef r b) : AllRef r (a ++ b) := by
  intro e h
  rcases List.mem_append.mp h with h | h
  · exact ha e h
  · exact hb e h

theorem allRef_foldl_prepend (r : Loc) (bs : List (List PendingEntry)) (init : List PendingEntry)
    (hi : AllRef r init) (hb : ∀ b ∈ bs, AllRef r b) : AllRef r (bs.foldl (fun acc b => b ++ acc) init) := by
  induction bs generalizing init with
  | nil => exact hi
  | cons b bs ih =>
    simp only [List.foldl_cons]
    exact ih _ ((hb b (by simp)).append hi) (fun b' hb' => hb b' (by simp [hb']))

theorem allRef_foldl_append (r : Loc) (bs : List (List PendingEntry)) (init : List PendingEntry)
    (hi : AllRef r init) (hb : ∀ b ∈ bs, AllRef r b) : AllRef r (bs.foldl (fun acc b => acc ++ b) init) := by
  induction bs generalizing init with
  | nil => exact hi
  | cons b bs ih =>
    simp only [List.foldl_cons]
    exact ih _ (hi.append (hb b (by simp))) (fun b' hb' => hb b' (by simp [hb']))

/-- the five mutually recursive merge readers, on a replay cursor with override `r` -/
theorem merge_readers_ref (r : Loc) (fuel : Nat) :
    (∀ events loc es, pendingFromEvents fuel events loc r = .ok es → AllRef r es) ∧
    (∀ c batches bs c', RefIs r c → (∀ b ∈ batches, AllRef r b) →
      mergeSeqBatches fuel c batches = .ok bs c' → (∀ b ∈ bs, AllRef r b) ∧ RefIs r c') ∧
    (∀ c es c', RefIs r c → pendingFromLive fuel c r = .ok es c' → AllRef r es ∧ RefIs r c') ∧
    (∀ c es c', RefIs r c → collectEntriesFromMap fuel c r = .ok es c' → AllRef r es ∧ RefIs r c') ∧
    (∀ c fields merges es c', RefIs r c → AllRef r fields → (∀ b ∈ merges, AllRef r b) →
      collectLoop fuel c r fields merges = .ok es c' → AllRef r es ∧ RefIs r c') := by
  induction fuel with
  | zero =>
    refine ⟨?_, ?_, ?_, ?_, ?_⟩ <;> intros <;>
      simp_all [pendingFromEvents, mergeSeqBatches, pendingFromLive, collectEntriesFromMap, collectLoop]
  | succ fuel ih =>
    obtain ⟨ih1, ih2, ih3, ih4, ih5⟩ := ih
    have hcap := (capture_refIs r fuel).1
    refine ⟨?_, ?_, ?_, ?_, ?_⟩
    · -- pendingFromEvents
      intro events loc es h
      have hc0 : RefIs r (Cur.replay events 0 (some r)) := rfl
      unfold pendingFromEvents at h
      simp only at h
      split at h
      · cases h
      · split at h
        · cases h; exact AllRef.nil r
        · cases h
      · split at h
        · cases h
        · rename_i es' c1 hx
          cases h
          exact (ih4 _ _ _ hc0 hx).1
      · split at h
        · cases h
        · rename_i o c1 hn
          have hc1 := hc0.next hn
          split at h
          · cases h
          · rename_i bs c2 hx
            cases h
            exact allRef_foldl_prepend r bs [] (AllRef.nil r) (ih2 _ _ _ _ hc1 (by intro b hb; cases hb) hx).1
      · cases h
    · -- mergeSeqBatches
      intro c batches bs c' hc hb h
      unfold mergeSeqBatches at h
      split at h
      · cases h
      · cases h
      · rename_i l c1 hp
        have hc1 := hc.peek hp
        split at h
        · cases h
        · rename_i o c2 hn
          cases h
          exact ⟨hb, hc1.next hn⟩
      · rename_i ev c1 _ hp
        have hc1 := hc.peek hp
        simp only [hc1.refLoc] at h
        split at h
        · cases h
        · rename_i element c2 hcp
          have hc2 := hcap _ _ _ hc1 hcp
          split at h
          · cases h
          · rename_i b hpe
            refine ih2 _ _ _ _ hc2 ?_ h
            intro b' hb'
            rcases List.mem_append.mp hb' with hb' | hb'
            · exact hb b' hb'
            · simp only [List.mem_singleton] at hb'
              subst hb'
              exact ih1 _ _ _ hpe
    · -- pendingFromLive
      intro c es c' hc h
      unfold pendingFromLive at h
      split at h
      · cases h
      · cases h
      · rename_i v _ _ st _ l c1 hp
        have hc1 := hc.peek hp
        split at h
        · split at h
          · cases h
          · rename_i o c2 hn
            cases h
            exact ⟨AllRef.nil r, hc1.next hn⟩
        · cases h
      · rename_i c1 hp
        have hc1 := hc.peek hp
        split at h
        · cases h
        · rename_i node c2 hcp
          have hc2 := hcap _ _ _ hc1 hcp
          split at h
          · cases h
          · rename_i es' hpe
            cases h
            exact ⟨ih1 _ _ _ hpe, hc2⟩
      · rename_i c1 hp
        have hc1 := hc.peek hp
        split at h
        · cases h
        · rename_i o c2 hn
          have hc2 := hc1.next hn
          split at h
          · cases h
          · rename_i bs c3 hx
            cases h
            obtain ⟨hbs, hc3⟩ := ih2 _ _ _ _ hc2 (by intro b hb; cases hb) hx
            exact ⟨allRef_foldl_prepend r bs [] (AllRef.nil r) hbs, hc3⟩
      · cases h
    · -- collectEntriesFromMap
      intro c es c' hc h
      unfold collectEntriesFromMap at h
      split at h
      · cases h
      · rename_i c1 hn
        exact ih5 _ _ _ _ _ (hc.next hn) (AllRef.nil r) (by intro b hb; cases hb) h
      · cases h
    · -- collectLoop
      intro c fields merges es c' hc hf hm h
      unfold collectLoop at h
      split at h
      · cases h
      · cases h
      · rename_i l c1 hp
        have hc1 := hc.peek hp
        split at h
        · cases h
        · rename_i o c2 hn
          cases h
          exact ⟨hf.append (allRef_foldl_append r merges [] (AllRef.nil r) hm), hc1.next hn⟩
      · rename_i ev c1 _ hp
        have hc1 := hc.peek hp
        split at h
        · cases h
        · rename_i key c2 hcp
          have hc2 := hcap _ _ _ hc1 hcp
          split at h
          · split at h
            · cases h
            · rename_i o c3 hp3
              have hc3 := hc2.peek hp3
              simp only [hc3.refLoc] at h
              split at h
              · cases h
              · rename_i es' c4 hpl
                obtain ⟨hes, hc4⟩ := ih3 _ _ _ hc3 hpl
                refine ih5 _ _ _ _ _ hc4 hf ?_ h
                intro b hb
                rcases List.mem_cons.mp hb with rfl | hb
                · exact hes
                · exact hm b hb
          · split at h
            · cases h
            · rename_i value c3 hcv
              have hc3 := hcap _ _ _ hc2 hcv
              refine ih5 _ _ _ _ _ hc3 ?_ hm h
              exact hf.append (by intro e he; simp only [List.mem_singleton] at he; subst he; rfl)

end SaphyrVerif.Lemmas.C16
