import SaphyrVerif.Lemmas.C11_Typed2FailStream
/-!
Typed multi-document theorems (C11), continued — part 12: streams that MIX served documents (whatever their type
outcome: value, skipped, error item + recovery, left over) and documents in which the pump fails (dangling alias,
budget breach, …), in any order.  Each document has its items "on its own" (`Mix`); the iterator yields their
concatenation, document by document, up to (and including) the first document that finishes the iterator.
-/
namespace SaphyrVerif.Lemmas.C11B
open SaphyrVerif SaphyrVerif.Scalars SaphyrVerif.Pump SaphyrVerif.De SaphyrVerif.Spec SaphyrVerif.Budget SaphyrVerif.Entry
open SaphyrVerif.Lemmas.C11 (Doc docsItems)
open SaphyrVerif.Lemmas.C11T (Item sameItem sameItems peek_congr iterLoop_congr docsItems_cons)

/-- how ONE document is handled on its own: `r = (items, the iterator goes on behind the document, rounds)`.
Either the pump serves the document (then the items are those of `docSpec`, and the iterator always goes on), or
the pump fails inside it (then the items are those of `soloRounds` on the one-document stream, and the iterator
goes on iff the document was left through the recovery); in both cases the rounds fit into the parser items of
the document + 2. -/
inductive DocCase (L : AliasLimits) (ob : Option Limits) (cfg : Cfg) (ty : Ty) (l1 : Loc) (d : Doc) : Rounds → Prop
  | served (evs : List Ev) (r0 : Rounds) : DocServe L ob d evs →
      docSpec cfg ty ((itemsOf d.1).length + 2) evs = some r0 → DocCase L ob cfg ty l1 d (r0.1, true, r0.2.2)
  | failing (es : List Ev) (Ns : Nat) (r0 : Rounds) :
      FailRun [.ev .docEnd 0] (canonStart L ob d.2.2.1) (itemsOf d.1 ++ [.ev .docEnd 0]) es →
      soloRounds cfg ty Ns (canonStart L ob d.2.2.1) (itemsOf d.1 ++ [.ev .docEnd d.2.2.2, .ev .streamEnd l1]) = some r0 →
      r0.2.2 ≤ (itemsOf d.1).length + 2 → DocCase L ob cfg ty l1 d r0

/-- every document of the stream with its own result -/
def Mix (L : AliasLimits) (ob : Option Limits) (cfg : Cfg) (ty : Ty) (l1 : Loc) : List Doc → List Rounds → Prop
  | [], [] => True
  | d :: ds, r :: rs => DocCase L ob cfg ty l1 d r ∧ Mix L ob cfg ty l1 ds rs
  | _, _ => False

/-- the items of the stream: document by document, up to the first document behind which the iterator does not go
on; and the number of rounds -/
def mixItems : List Rounds → List Item × Nat
  | [] => ([], 0)
  | r :: rs => if r.2.1 then (r.1 ++ (mixItems rs).1, r.2.2 + (mixItems rs).2) else (r.1, r.2.2)

theorem docCase_le {L : AliasLimits} {ob : Option Limits} {cfg : Cfg} {ty : Ty} {l1 : Loc} {d : Doc} {r : Rounds}
    (h : DocCase L ob cfg ty l1 d r) : r.2.2 ≤ (itemsOf d.1).length + 2 := by
  cases h with
  | served evs r0 _ hr => exact docRounds_le cfg ty _ _ r0 hr
  | failing es Ns r0 _ _ hle => exact hle

theorem mixItems_le {L : AliasLimits} {ob : Option Limits} {cfg : Cfg} {ty : Ty} {l1 : Loc} :
    ∀ (ds : List Doc) (rs : List Rounds), Mix L ob cfg ty l1 ds rs → (mixItems rs).2 ≤ (docsItems ds).length
  | [], [], _ => Nat.le_refl _
  | d :: ds, r :: rs, h => by
    have h1 := docCase_le h.1
    have h2 := mixItems_le ds rs h.2
    rw [docsItems_length_cons]
    simp only [mixItems]
    split <;> simp only <;> omega
  | [], _ :: _, h => h.elim
  | _ :: _, [], h => h.elim

/-- the iterator over a mixed stream -/
theorem iter_mix {L : AliasLimits} {ob : Option Limits}
    (l1 : Loc) (cfg : Cfg) (ty : Ty) :
    ∀ (ds : List Doc) (rs : List Rounds) (q : Pump) (fuel : Nat) (acc : List Item),
      Mix L ob cfg ty l1 ds rs → BoundaryB L ob q → q.look = none → (ds = [] → q.producedAny = true ∧ FinOk q) →
      (mixItems rs).2 + 1 ≤ fuel →
      ∃ items, iterLoop cfg ty fuel q (docsItems ds ++ [.ev .streamEnd l1]) acc = acc ++ items ∧
        sameItems items (mixItems rs).1 := by
  intro ds
  induction ds with
  | nil =>
    intro rs q fuel acc hmix hq hl hp hf
    cases rs with
    | cons _ _ => exact hmix.elim
    | nil =>
      obtain ⟨m, rfl⟩ : ∃ m, fuel = m + 1 := ⟨fuel - 1, by simp [mixItems] at hf; omega⟩
      exact ⟨[], by simpa [docsItems] using iter_endB hq hl (hp rfl).1 (hp rfl).2 l1 cfg ty m acc, .nil⟩
  | cons d ds ih =>
    intro rs q fuel acc hmix hq hl _ hf
    cases rs with
    | nil => exact hmix.elim
    | cons r rs =>
      obtain ⟨hd, hrest⟩ := hmix
      obtain ⟨t, ex, ls, le⟩ := d
      rw [docsItems_cons]
      -- the continuation behind the document, from a start state reached by the recovery
      have hcont : ∀ (m : Nat) (acc' : List Item) (ex2 : Bool) (ls2 : Loc) (Z : List RawItem) (q4 : Pump),
          docsItems ds ++ [.ev .streamEnd l1] = .ev (.docStart ex2) ls2 :: Z → ds ≠ [] → StartB L ob ls2 q4 →
          (mixItems rs).2 + 1 ≤ m →
          ∃ items, iterLoop cfg ty m q4 Z acc' = acc' ++ items ∧ sameItems items (mixItems rs).1 := by
        intro m acc' ex2 ls2 Z q4 hZ hne hs4 hm
        obtain ⟨hb4, hpk4⟩ := start_as_boundary hs4 ex2 Z
        obtain ⟨items, hi, hsame⟩ := ih rs q4 m acc' hrest hb4 hs4.look (fun h => absurd h hne) hm
        exact ⟨items, by rw [iterLoop_congr cfg ty hpk4, ← hZ, hi], hsame⟩
      have hnext : ds ≠ [] → ∃ ex2 ls2 Z, docsItems ds ++ [.ev .streamEnd l1] = .ev (.docStart ex2) ls2 :: Z := by
        intro hne
        obtain ⟨d2, ds2, rfl⟩ := List.exists_cons_of_ne_nil hne
        obtain ⟨t2, ex2, ls2, le2⟩ := d2
        exact ⟨ex2, ls2, _, docsItems_cons t2 ex2 ls2 le2 ds2 _⟩
      have hlast : ds = [] → rs = [] := by
        intro h0
        subst h0
        cases rs with
        | nil => rfl
        | cons _ _ => exact hrest.elim
      cases hd with
      | served evs r0 hserve hr =>
        obtain ⟨its', hsame, hT, hF⟩ := iter_docB hserve hq hl le (docsItems ds ++ [.ev .streamEnd l1]) cfg ty _ r0 hr
        simp only [mixItems, if_true] at hf ⊢
        obtain ⟨m, rfl⟩ : ∃ m, fuel = m + r0.2.2 := ⟨fuel - r0.2.2, by omega⟩
        have hm : (mixItems rs).2 + 1 ≤ m := by omega
        cases hended : r0.2.1 with
        | true =>
          obtain ⟨q2, hb2, hl2, hp2, hf2, heq⟩ := hT hended
          obtain ⟨items, hi, hsame2⟩ := ih rs q2 m (acc ++ its') hrest hb2 hl2 (fun _ => ⟨hp2, hf2⟩) hm
          exact ⟨its' ++ items, by rw [heq, hi, List.append_assoc], sameItems.append hsame hsame2⟩
        | false =>
          obtain ⟨h1, h2⟩ := hF hended
          by_cases hds' : ds = []
          · have hrs := hlast hds'
            subst hds' hrs
            refine ⟨its', h1 l1 (by simp [docsItems]) m acc, ?_⟩
            simpa [mixItems] using hsame
          · obtain ⟨ex2, ls2, Z, hZ⟩ := hnext hds'
            obtain ⟨q4, hs4, -, heq⟩ := h2 ex2 ls2 Z hZ
            obtain ⟨items, hi, hsame2⟩ := hcont m (acc ++ its') ex2 ls2 Z q4 hZ hds' hs4 hm
            exact ⟨its' ++ items, by rw [heq, hi, List.append_assoc], sameItems.append hsame hsame2⟩
      | failing es Ns r0 hfail hsolo hle =>
        obtain ⟨hF, hT⟩ := iter_fail_docB t ex ls le [.ev .docEnd 0] (docsItems ds ++ [.ev .streamEnd l1])
          [.ev .streamEnd l1] (by simp) hfail cfg ty Ns r hsolo hq hl
        cases hfate : r.2.1 with
        | false =>
          simp only [mixItems, hfate, Bool.false_eq_true, if_false] at hf ⊢
          obtain ⟨m, rfl⟩ : ∃ m, fuel = m + r.2.2 := ⟨fuel - r.2.2, by omega⟩
          exact ⟨r.1, hF hfate m acc, sameItems.refl _⟩
        | true =>
          simp only [mixItems, hfate, if_true] at hf ⊢
          obtain ⟨m, rfl⟩ : ∃ m, fuel = m + r.2.2 := ⟨fuel - r.2.2, by omega⟩
          have hm : (mixItems rs).2 + 1 ≤ m := by omega
          obtain ⟨h1, h2⟩ := hT hfate
          by_cases hds' : ds = []
          · have hrs := hlast hds'
            subst hds' hrs
            refine ⟨r.1, h1 l1 (by simp [docsItems]) m acc, ?_⟩
            simpa [mixItems] using sameItems.refl r.1
          · obtain ⟨ex2, ls2, Z, hZ⟩ := hnext hds'
            obtain ⟨q4, hs4, -, heq⟩ := h2 ex2 ls2 Z hZ
            obtain ⟨items, hi, hsame2⟩ := hcont m (acc ++ r.1) ex2 ls2 Z q4 hZ hds' hs4 hm
            refine ⟨r.1 ++ items, ?_, sameItems.append (sameItems.refl _) hsame2⟩
            have e1 : iterLoop cfg ty (m + r.2.2) q _ acc = _ := heq m acc
            rw [e1, hi, List.append_assoc]

/-- when only the LAST document may finish the iterator, the items are the concatenation over all documents -/
theorem mixItems_all : ∀ (rs : List Rounds), (∀ r ∈ rs.dropLast, r.2.1 = true) →
    (mixItems rs).1 = (rs.map (·.1)).flatten
  | [], _ => rfl
  | [r], _ => by
    simp only [mixItems]
    split <;> simp
  | r :: r2 :: rs, h => by
    have h1 : r.2.1 = true := h r (by simp [List.dropLast])
    have h2 := mixItems_all (r2 :: rs) (fun x hx => h x (by
      simp only [List.dropLast_cons_cons] at hx ⊢
      exact List.mem_cons_of_mem _ hx))
    simp only [mixItems, h1, if_true] at h2 ⊢
    rw [h2]
    simp

end SaphyrVerif.Lemmas.C11B
