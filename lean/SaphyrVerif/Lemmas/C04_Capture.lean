import SaphyrVerif.Lemmas.Cursor
import SaphyrVerif.Lemmas.C04
/-!
Helper lemmas for C04, part 2 (model level): `capture` and `skipOneNode` on a replay cursor standing in
front of the events of a tree consume exactly that tree.  Positions are described by
`buf.drop idx = eflatten t ++ rest`.
-/
namespace SaphyrVerif.Lemmas.C04
open SaphyrVerif SaphyrVerif.Scalars SaphyrVerif.Pump SaphyrVerif.De SaphyrVerif.Spec
open SaphyrVerif.Lemmas.Cursor

/-! ### shape of `eflatten` -/

/-- an event that opens a node (not a container end) -/
def isOpen : Ev → Bool
  | .seqEnd _ | .mapEnd _ => false
  | _ => true

theorem eflatten_eq_cons (t : ENode) : ∃ e tl, eflatten t = e :: tl ∧ isOpen e = true := by
  cases t <;> simp [eflatten, isOpen]

theorem eflatten_length_pos (t : ENode) : 0 < (eflatten t).length := by
  obtain ⟨e, tl, h, _⟩ := eflatten_eq_cons t
  simp [h]

@[simp] theorem eflatten_scalar_length (v tag rt st a l) : (eflatten (.scalar v tag rt st a l)).length = 1 := by
  simp [eflatten]
@[simp] theorem eflatten_seq_length (a tag rt l el items) :
    (eflatten (.seq a tag rt l el items)).length = (eflattenL items).length + 2 := by
  simp [eflatten]
@[simp] theorem eflatten_map_length (a l el es) :
    (eflatten (.map a l el es)).length = (eflattenE es).length + 2 := by
  simp [eflatten]
@[simp] theorem eflattenL_nil_length : (eflattenL []).length = 0 := by simp [eflattenL]
@[simp] theorem eflattenL_cons_length (n ns) :
    (eflattenL (n :: ns)).length = (eflatten n).length + (eflattenL ns).length := by
  simp [eflattenL]
@[simp] theorem eflattenE_nil_length : (eflattenE []).length = 0 := by simp [eflattenE]
@[simp] theorem eflattenE_cons_length (k v es) :
    (eflattenE ((k, v) :: es)).length = (eflatten k).length + (eflatten v).length + (eflattenE es).length := by
  simp [eflattenE, Nat.add_assoc]

/-! ### one step of the capture loops -/

theorem capture_succ_of_drop {buf : List Ev} {idx : Nat} {e : Ev} {tl : List Ev} (ref : Option Loc)
    (h : buf.drop idx = e :: tl) (f : Nat) :
    capture (f + 1) (.replay buf idx ref) =
      match e with
      | .scalar v tag _ _ _ loc => .ok ⟨.scalar v tag, [e], loc⟩ (.replay buf (idx + 1) ref)
      | .seqStart _ _ _ loc =>
        match captureSeq f (.replay buf (idx + 1) ref) [] [e] with
        | .err e c => .err e c
        | .ok (fps, evs) c => .ok ⟨.seq fps, evs, loc⟩ c
      | .mapStart _ loc =>
        match captureMap f (.replay buf (idx + 1) ref) [] [e] with
        | .err e c => .err e c
        | .ok (fps, evs) c => .ok ⟨.map fps, evs, loc⟩ c
      | .seqEnd loc | .mapEnd loc =>
        .err ⟨"UnexpectedContainerEndWhileReadingKeyNode", loc, 0⟩ (.replay buf (idx + 1) ref) := by
  rw [capture, next_replay_of_drop ref h]
  cases e <;> rfl

theorem captureSeq_succ_end {buf : List Ev} {idx : Nat} {l : Loc} {tl : List Ev} (ref : Option Loc)
    (h : buf.drop idx = .seqEnd l :: tl) (f : Nat) (fps : List FP) (evs : List Ev) :
    captureSeq (f + 1) (.replay buf idx ref) fps evs = .ok (fps, evs ++ [.seqEnd l]) (.replay buf (idx + 1) ref) := by
  rw [captureSeq, peek_replay_of_drop ref h]
  simp only [next_replay_of_drop ref h]

theorem captureSeq_succ_open {buf : List Ev} {idx : Nat} {e : Ev} {tl : List Ev} (ref : Option Loc)
    (h : buf.drop idx = e :: tl) (he : isOpen e = true) (f : Nat) (fps : List FP) (evs : List Ev) :
    captureSeq (f + 1) (.replay buf idx ref) fps evs =
      match capture f (.replay buf idx ref) with
      | .err e c => .err e c
      | .ok child c => captureSeq f c (fps ++ [child.fp]) (evs ++ child.events) := by
  rw [captureSeq, peek_replay_of_drop ref h]
  cases e <;> first | rfl | simp [isOpen] at he

theorem captureMap_succ_end {buf : List Ev} {idx : Nat} {l : Loc} {tl : List Ev} (ref : Option Loc)
    (h : buf.drop idx = .mapEnd l :: tl) (f : Nat) (fps : List (FP × FP)) (evs : List Ev) :
    captureMap (f + 1) (.replay buf idx ref) fps evs = .ok (fps, evs ++ [.mapEnd l]) (.replay buf (idx + 1) ref) := by
  rw [captureMap, peek_replay_of_drop ref h]
  simp only [next_replay_of_drop ref h]

theorem captureMap_succ_open {buf : List Ev} {idx : Nat} {e : Ev} {tl : List Ev} (ref : Option Loc)
    (h : buf.drop idx = e :: tl) (he : isOpen e = true) (f : Nat) (fps : List (FP × FP)) (evs : List Ev) :
    captureMap (f + 1) (.replay buf idx ref) fps evs =
      match capture f (.replay buf idx ref) with
      | .err e c => .err e c
      | .ok k c =>
        match capture f c with
        | .err e c => .err e c
        | .ok v c => captureMap f c (fps ++ [(k.fp, v.fp)]) (evs ++ k.events ++ v.events) := by
  rw [captureMap, peek_replay_of_drop ref h]
  cases e <;> first | rfl | simp [isOpen] at he

/-! ### exactness of `capture` -/

/-- the three capture functions on the events of a tree / item list / entry list -/
theorem capture_all (fuel : Nat) :
    (∀ (t : ENode) (buf : List Ev) (idx : Nat) (rest : List Ev) (ref : Option Loc),
      buf.drop idx = eflatten t ++ rest → (eflatten t).length ≤ fuel →
      capture fuel (.replay buf idx ref) =
        .ok ⟨fpOf t, eflatten t, t.loc⟩ (.replay buf (idx + (eflatten t).length) ref)) ∧
    (∀ (items : List ENode) (el : Loc) (buf : List Ev) (idx : Nat) (rest : List Ev) (ref : Option Loc)
      (fps : List FP) (evs : List Ev),
      buf.drop idx = eflattenL items ++ .seqEnd el :: rest → (eflattenL items).length + 1 ≤ fuel →
      captureSeq fuel (.replay buf idx ref) fps evs =
        .ok (fps ++ fpOfL items, evs ++ (eflattenL items ++ [.seqEnd el]))
          (.replay buf (idx + ((eflattenL items).length + 1)) ref)) ∧
    (∀ (es : List (ENode × ENode)) (el : Loc) (buf : List Ev) (idx : Nat) (rest : List Ev) (ref : Option Loc)
      (fps : List (FP × FP)) (evs : List Ev),
      buf.drop idx = eflattenE es ++ .mapEnd el :: rest → (eflattenE es).length + 1 ≤ fuel →
      captureMap fuel (.replay buf idx ref) fps evs =
        .ok (fps ++ fpOfE es, evs ++ (eflattenE es ++ [.mapEnd el]))
          (.replay buf (idx + ((eflattenE es).length + 1)) ref)) := by
  induction fuel with
  | zero =>
    refine ⟨fun t _ _ _ _ _ h => ?_, fun _ _ _ _ _ _ _ _ _ h => ?_, fun _ _ _ _ _ _ _ _ _ h => ?_⟩
    · have := eflatten_length_pos t; omega
    · omega
    · omega
  | succ f ih =>
    obtain ⟨ihN, ihL, ihE⟩ := ih
    refine ⟨?_, ?_, ?_⟩
    · intro t buf idx rest ref h hf
      cases t with
      | scalar v tag rt st a l =>
        simp only [eflatten, List.cons_append, List.nil_append] at h
        rw [capture_succ_of_drop ref h]
        simp [eflatten, fpOf, ENode.loc]
      | seq a tag rt l el items =>
        simp only [eflatten, List.cons_append, List.append_assoc, List.nil_append] at h
        rw [capture_succ_of_drop ref h]
        simp only
        simp only [eflatten_seq_length] at hf
        rw [ihL items el buf (idx + 1) rest ref [] _ (drop_succ_of_drop_eq_cons h) (by omega)]
        simp only [eflatten, fpOf, ENode.loc, List.nil_append, List.cons_append, List.length_cons,
          List.length_append, List.length_nil, R.ok.injEq, true_and]
        congr 1; omega
      | map a l el es =>
        simp only [eflatten, List.cons_append, List.append_assoc, List.nil_append] at h
        rw [capture_succ_of_drop ref h]
        simp only
        simp only [eflatten_map_length] at hf
        rw [ihE es el buf (idx + 1) rest ref [] _ (drop_succ_of_drop_eq_cons h) (by omega)]
        simp only [eflatten, fpOf, ENode.loc, List.nil_append, List.cons_append, List.length_cons,
          List.length_append, List.length_nil, R.ok.injEq, true_and]
        congr 1; omega
    · intro items el buf idx rest ref fps evs h hf
      cases items with
      | nil =>
        simp only [eflattenL, List.nil_append] at h
        rw [captureSeq_succ_end ref h]
        simp [eflattenL, fpOfL]
      | cons n ns =>
        obtain ⟨e, tl, hn, he⟩ := eflatten_eq_cons n
        have h' : buf.drop idx = eflatten n ++ (eflattenL ns ++ .seqEnd el :: rest) := by
          rw [h]; simp [eflattenL]
        have h1 : buf.drop idx = e :: (tl ++ (eflattenL ns ++ .seqEnd el :: rest)) := by
          rw [h', hn]; rfl
        simp only [eflattenL_cons_length] at hf
        have hpos := eflatten_length_pos n
        rw [captureSeq_succ_open ref h1 he, ihN n buf idx _ ref h' (by omega)]
        simp only
        rw [ihL ns el buf _ rest ref _ _ (drop_add_of_drop_eq_append h') (by omega)]
        simp only [eflattenL, fpOfL, List.append_assoc, List.cons_append, List.nil_append, List.length_append,
          R.ok.injEq, true_and]
        congr 1; omega
    · intro es el buf idx rest ref fps evs h hf
      cases es with
      | nil =>
        simp only [eflattenE, List.nil_append] at h
        rw [captureMap_succ_end ref h]
        simp [eflattenE, fpOfE]
      | cons kv es =>
        obtain ⟨k, v⟩ := kv
        obtain ⟨e, tl, hn, he⟩ := eflatten_eq_cons k
        have h' : buf.drop idx = eflatten k ++ (eflatten v ++ (eflattenE es ++ .mapEnd el :: rest)) := by
          rw [h]; simp [eflattenE]
        have h1 : buf.drop idx = e :: (tl ++ (eflatten v ++ (eflattenE es ++ .mapEnd el :: rest))) := by
          rw [h', hn]; rfl
        simp only [eflattenE_cons_length] at hf
        have hpos := eflatten_length_pos k
        have hposv := eflatten_length_pos v
        have h2 := drop_add_of_drop_eq_append h'
        rw [captureMap_succ_open ref h1 he, ihN k buf idx _ ref h' (by omega)]
        simp only
        rw [ihN v buf _ _ ref h2 (by omega)]
        simp only
        rw [ihE es el buf _ rest ref _ _ (drop_add_of_drop_eq_append h2) (by omega)]
        simp only [eflattenE, fpOfE, List.append_assoc, List.cons_append, List.nil_append, List.length_append,
          R.ok.injEq, true_and]
        congr 1; omega

/-- `capture` in front of the events of `t` (position given by `drop`) -/
theorem capture_exact_drop (t : ENode) {buf : List Ev} {idx : Nat} {rest : List Ev} (ref : Option Loc)
    (h : buf.drop idx = eflatten t ++ rest) {fuel : Nat} (hf : (eflatten t).length ≤ fuel) :
    capture fuel (.replay buf idx ref) =
      .ok ⟨fpOf t, eflatten t, t.loc⟩ (.replay buf (idx + (eflatten t).length) ref) :=
  (capture_all fuel).1 t buf idx rest ref h hf

/-! ### `skipOneNode` -/

theorem skipDepth_succ_of_drop {buf : List Ev} {idx : Nat} {e : Ev} {tl : List Ev} (ref : Option Loc)
    (h : buf.drop idx = e :: tl) (f d : Nat) :
    skipDepth (f + 1) (.replay buf idx ref) (d + 1) =
      match e with
      | .seqStart .. | .mapStart .. => skipDepth f (.replay buf (idx + 1) ref) (d + 2)
      | .seqEnd _ | .mapEnd _ => skipDepth f (.replay buf (idx + 1) ref) d
      | .scalar .. => skipDepth f (.replay buf (idx + 1) ref) (d + 1) := by
  rw [skipDepth, next_replay_of_drop ref h]
  cases e <;> simp

theorem skipDepth_zero_depth (f : Nat) (c : Cur) : skipDepth (f + 1) c 0 = .ok () c := by
  rw [skipDepth]; simp

mutual
/-- inside a container (`depth = d + 1`) a whole node is passed over, spending one unit of fuel per event -/
theorem skipDepth_node : ∀ (t : ENode) (buf : List Ev) (idx : Nat) (rest : List Ev) (ref : Option Loc) (f d : Nat),
    buf.drop idx = eflatten t ++ rest →
    skipDepth (f + (eflatten t).length) (.replay buf idx ref) (d + 1) =
      skipDepth f (.replay buf (idx + (eflatten t).length) ref) (d + 1)
  | .scalar v tag rt st a l, buf, idx, rest, ref, f, d, h => by
    simp only [eflatten, List.cons_append, List.nil_append] at h
    simp only [eflatten_scalar_length]
    rw [skipDepth_succ_of_drop ref h]
  | .seq a tag rt l el items, buf, idx, rest, ref, f, d, h => by
    simp only [eflatten, List.cons_append, List.append_assoc, List.nil_append] at h
    simp only [eflatten_seq_length]
    have e1 : f + ((eflattenL items).length + 2) = (f + 1 + (eflattenL items).length) + 1 := by omega
    have h2 := drop_succ_of_drop_eq_cons h
    rw [e1, skipDepth_succ_of_drop ref h]
    simp only
    rw [skipDepth_nodes items buf (idx + 1) _ ref (f + 1) (d + 1) h2,
      skipDepth_succ_of_drop ref (drop_add_of_drop_eq_append h2)]
    simp only
    congr 2; omega
  | .map a l el es, buf, idx, rest, ref, f, d, h => by
    simp only [eflatten, List.cons_append, List.append_assoc, List.nil_append] at h
    simp only [eflatten_map_length]
    have e1 : f + ((eflattenE es).length + 2) = (f + 1 + (eflattenE es).length) + 1 := by omega
    have h2 := drop_succ_of_drop_eq_cons h
    rw [e1, skipDepth_succ_of_drop ref h]
    simp only
    rw [skipDepth_entries es buf (idx + 1) _ ref (f + 1) (d + 1) h2,
      skipDepth_succ_of_drop ref (drop_add_of_drop_eq_append h2)]
    simp only
    congr 2; omega
theorem skipDepth_nodes : ∀ (ts : List ENode) (buf : List Ev) (idx : Nat) (rest : List Ev) (ref : Option Loc) (f d : Nat),
    buf.drop idx = eflattenL ts ++ rest →
    skipDepth (f + (eflattenL ts).length) (.replay buf idx ref) (d + 1) =
      skipDepth f (.replay buf (idx + (eflattenL ts).length) ref) (d + 1)
  | [], buf, idx, rest, ref, f, d, h => by simp
  | n :: ns, buf, idx, rest, ref, f, d, h => by
    have h' : buf.drop idx = eflatten n ++ (eflattenL ns ++ rest) := by rw [h]; simp [eflattenL]
    simp only [eflattenL_cons_length]
    have e1 : f + ((eflatten n).length + (eflattenL ns).length) = (f + (eflattenL ns).length) + (eflatten n).length := by
      omega
    rw [e1, skipDepth_node n buf idx _ ref _ d h',
      skipDepth_nodes ns buf _ rest ref f d (drop_add_of_drop_eq_append h')]
    congr 2; omega
theorem skipDepth_entries : ∀ (es : List (ENode × ENode)) (buf : List Ev) (idx : Nat) (rest : List Ev) (ref : Option Loc)
    (f d : Nat), buf.drop idx = eflattenE es ++ rest →
    skipDepth (f + (eflattenE es).length) (.replay buf idx ref) (d + 1) =
      skipDepth f (.replay buf (idx + (eflattenE es).length) ref) (d + 1)
  | [], buf, idx, rest, ref, f, d, h => by simp
  | (k, v) :: es, buf, idx, rest, ref, f, d, h => by
    have h' : buf.drop idx = eflatten k ++ (eflatten v ++ (eflattenE es ++ rest)) := by rw [h]; simp [eflattenE]
    have h2 := drop_add_of_drop_eq_append h'
    simp only [eflattenE_cons_length]
    have e1 : f + ((eflatten k).length + (eflatten v).length + (eflattenE es).length) =
        (f + (eflattenE es).length + (eflatten v).length) + (eflatten k).length := by omega
    rw [e1, skipDepth_node k buf idx _ ref _ d h', skipDepth_node v buf _ _ ref _ d h2,
      skipDepth_entries es buf _ rest ref f d (drop_add_of_drop_eq_append h2)]
    congr 2; omega
end

/-- `skipOneNode` in front of the events of `t` -/
theorem skipOneNode_exact_drop (t : ENode) {buf : List Ev} {idx : Nat} {rest : List Ev} (ref : Option Loc)
    (h : buf.drop idx = eflatten t ++ rest) {fuel : Nat} (hf : (eflatten t).length + 1 ≤ fuel) :
    skipOneNode fuel (.replay buf idx ref) = .ok () (.replay buf (idx + (eflatten t).length) ref) := by
  obtain ⟨f, rfl⟩ : ∃ f, fuel = f + 1 := ⟨fuel - 1, by omega⟩
  cases t with
  | scalar v tag rt st a l =>
    simp only [eflatten, List.cons_append, List.nil_append] at h
    rw [skipOneNode, next_replay_of_drop ref h]
    simp [eflatten]
  | seq a tag rt l el items =>
    simp only [eflatten, List.cons_append, List.append_assoc, List.nil_append] at h
    simp only [eflatten_seq_length] at hf ⊢
    have h2 := drop_succ_of_drop_eq_cons h
    obtain ⟨g, rfl⟩ : ∃ g, f = (g + 1 + 1) + (eflattenL items).length := ⟨f - (eflattenL items).length - 2, by omega⟩
    rw [skipOneNode, next_replay_of_drop ref h]
    simp only
    rw [skipDepth_nodes items buf (idx + 1) _ ref _ 0 h2,
      skipDepth_succ_of_drop ref (drop_add_of_drop_eq_append h2)]
    simp only
    rw [skipDepth_zero_depth]
    congr 2; omega
  | map a l el es =>
    simp only [eflatten, List.cons_append, List.append_assoc, List.nil_append] at h
    simp only [eflatten_map_length] at hf ⊢
    have h2 := drop_succ_of_drop_eq_cons h
    obtain ⟨g, rfl⟩ : ∃ g, f = (g + 1 + 1) + (eflattenE es).length := ⟨f - (eflattenE es).length - 2, by omega⟩
    rw [skipOneNode, next_replay_of_drop ref h]
    simp only
    rw [skipDepth_entries es buf (idx + 1) _ ref _ 0 h2,
      skipDepth_succ_of_drop ref (drop_add_of_drop_eq_append h2)]
    simp only
    rw [skipDepth_zero_depth]
    congr 2; omega

end SaphyrVerif.Lemmas.C04
