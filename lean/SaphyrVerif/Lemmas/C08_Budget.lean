import SaphyrVerif.Lemmas.C08_Step
import SaphyrVerif.Lemmas.C07
/-!
Helper lemmas for C08, part 4: every skip step and every delivering step passes through `Enf.observe`;
what that does to the event / node counters under the all-content policy.
-/
namespace SaphyrVerif.Lemmas.C08
open SaphyrVerif SaphyrVerif.Scalars SaphyrVerif.Pump SaphyrVerif.Budget SaphyrVerif.Spec

/-- node events (= `isNodeEv` of Props/C08) -/
def nodeEv : Ev → Bool
  | .scalar .. | .seqStart .. | .mapStart .. => true
  | _ => false

theorem isNodeEv_replayRaw (e : Ev) : Spec.isNodeEv (replayRaw e) = nodeEv e := by
  cases e <;> rfl

/-- (whole-input policy; under the per-document policy stream framing is not counted and a `DocumentStart` is
counted from zero) -/
theorem observe_events_le {e e' : Enf} {raw : Raw} (h : e.observe raw = .ok e') (hpd : e.perDocument = false) :
    e.report.events + 1 ≤ e.lim.maxEvents := by
  rw [C07.observe_of_not_pd e raw hpd] at h
  by_cases hc : e.report.events + 1 > e.lim.maxEvents
  · simp [Enf.observeCounted, hc] at h
  · omega

theorem observe_nodes_le {e e' : Enf} {raw : Raw} (h : e.observe raw = .ok e') (hpd : e.perDocument = false)
    (hn : Spec.isNodeEv raw = true) :
    e.report.nodes + 1 ≤ e.lim.maxNodes := by
  rw [C07.observe_of_not_pd e raw hpd] at h
  by_cases hc : e.report.nodes + 1 > e.lim.maxNodes
  · by_cases hc2 : e.report.events + 1 > e.lim.maxEvents
    · simp [Enf.observeCounted, hc2] at h
    · cases raw <;> simp [Spec.isNodeEv] at hn <;> simp [Enf.observeCounted, Enf.bumpNodes, hc, hc2] at h
  · omega

/-- a successful `observe` under the all-content policy -/
theorem observe_counts {e e' : Enf} {raw : Raw} (h : e.observe raw = .ok e') (hpd : e.perDocument = false) :
    e'.perDocument = false ∧ e'.lim = e.lim ∧ e'.report.events = e.report.events + 1 ∧
      e'.report.events ≤ e.lim.maxEvents ∧
      e'.report.nodes = e.report.nodes + (if Spec.isNodeEv raw then 1 else 0) ∧
      (Spec.isNodeEv raw = true → e'.report.nodes ≤ e.lim.maxNodes) := by
  have h1 := observe_events_le h hpd
  have h2 := observe_nodes_le h hpd
  obtain ⟨rfl, -⟩ := C07.observe_ok h
  refine ⟨by simpa using hpd, by simp, ?_, ?_, ?_, ?_⟩
  · simp [C07.next, hpd]
  · simp [C07.next, hpd]; omega
  · simp [C07.next, hpd, C07.b2n]
  · intro hn
    have := h2 hn
    simp [C07.next, hpd, C07.b2n, hn]; omega

/-- the observation the parser loop makes on a raw item: an alias that is about to be replayed is counted
without the key/value bookkeeping -/
def obsEnf (enf : Enf) (raw : Raw) : Except Breach Enf :=
  match raw with
  | .alias _ => enf.observeAliasReplayed
  | _ => enf.observe raw

theorem observeAliasReplayed_counts {e e' : Enf} (h : e.observeAliasReplayed = .ok e') (hpd : e.perDocument = false) :
    e'.perDocument = false ∧ e'.lim = e.lim ∧ e'.report.events = e.report.events + 1 ∧
      e'.report.events ≤ e.lim.maxEvents ∧ e'.report.nodes = e.report.nodes := by
  simp only [Enf.observeAliasReplayed] at h
  split at h
  · cases h
  · split at h
    · cases h
    · cases h
      exact ⟨hpd, rfl, rfl, by simp only; omega, rfl⟩

theorem obsEnf_counts {e e' : Enf} {raw : Raw} (h : obsEnf e raw = .ok e') (hpd : e.perDocument = false) :
    e'.perDocument = false ∧ e'.lim = e.lim ∧ e'.report.events = e.report.events + 1 ∧
      e'.report.events ≤ e.lim.maxEvents ∧
      e'.report.nodes = e.report.nodes + (if Spec.isNodeEv raw then 1 else 0) ∧
      (Spec.isNodeEv raw = true → e'.report.nodes ≤ e.lim.maxNodes) := by
  cases raw
  case alias id =>
    obtain ⟨a, b, c, d, f⟩ := observeAliasReplayed_counts (show e.observeAliasReplayed = .ok e' from h) hpd
    exact ⟨a, b, c, d, by simpa [Spec.isNodeEv] using f, by simp [Spec.isNodeEv]⟩
  all_goals exact observe_counts (show e.observe _ = .ok e' from h) hpd

theorem obs_some {enf : Enf} {raw : Raw} {bud : Option Enf} (h : obs (some enf) raw = .ok bud) :
    ∃ enf', obsEnf enf raw = .ok enf' ∧ bud = some enf' := by
  have h' : (obsEnf enf raw).map some = .ok bud := by
    cases raw <;> simpa only [obs, obsEnf] using h
  cases ho : obsEnf enf raw with
  | error b => rw [ho] at h'; cases h'
  | ok e1 => rw [ho] at h'; cases h'; exact ⟨e1, rfl, rfl⟩

/-- the budget after zero or more observed non-node items -/
def EnfLe (a b : Enf) : Prop :=
  b.perDocument = a.perDocument ∧ b.lim = a.lim ∧ a.report.events ≤ b.report.events ∧ b.report.nodes = a.report.nodes

theorem EnfLe.refl (a : Enf) : EnfLe a a := ⟨rfl, rfl, Nat.le_refl _, rfl⟩

theorem EnfLe.trans {a b c : Enf} (h1 : EnfLe a b) (h2 : EnfLe b c) : EnfLe a c := by
  obtain ⟨a1, a2, a3, a4⟩ := h1
  obtain ⟨b1, b2, b3, b4⟩ := h2
  exact ⟨b1.trans a1, b2.trans a2, Nat.le_trans a3 b3, b4.trans a4⟩

theorem obs_nonnode {enf : Enf} {raw : Raw} {bud : Option Enf} (h : obs (some enf) raw = .ok bud)
    (hpd : enf.perDocument = false) (hn : Spec.isNodeEv raw = false) :
    ∃ enf', bud = some enf' ∧ EnfLe enf enf' ∧ enf.report.events + 1 ≤ enf'.report.events ∧
      enf'.report.events ≤ enf.lim.maxEvents := by
  obtain ⟨enf', ho, rfl⟩ := obs_some h
  obtain ⟨c1, c2, c3, c4, c5, -⟩ := obsEnf_counts ho hpd
  refine ⟨enf', rfl, ⟨c1.trans hpd.symm, c2, by omega, by simp [c5, hn]⟩, by omega, c4⟩

/-- facts preserved by skip steps -/
theorem Skip1.budget {p q : Pump} (h : Skip1 p q) {enf : Enf} (hb : p.budget = some enf)
    (hpd : enf.perDocument = false) :
    (∃ enf', q.budget = some enf' ∧ EnfLe enf enf') ∧ q.producedAny = p.producedAny ∧
      q.synthesizedNull = p.synthesizedNull ∧ q.recursiveInProgress = p.recursiveInProgress := by
  cases h with
  | clear => exact ⟨⟨enf, hb, .refl enf⟩, rfl, rfl, rfl⟩
  | docStart x loc bud hob =>
    rw [hb] at hob
    obtain ⟨enf', rfl, hle, -⟩ := obs_nonnode hob hpd rfl
    exact ⟨⟨enf', rfl, hle⟩, rfl, rfl, rfl⟩
  | docEnd loc bud hob =>
    rw [hb] at hob
    obtain ⟨enf', rfl, hle, -⟩ := obs_nonnode hob hpd rfl
    exact ⟨⟨enf', rfl, hle⟩, rfl, rfl, rfl⟩
  | marker raw loc bud hraw hob =>
    rw [hb] at hob
    obtain ⟨enf', rfl, hle, -⟩ := obs_nonnode hob hpd (by rcases hraw with rfl | rfl | rfl <;> rfl)
    exact ⟨⟨enf', rfl, hle⟩, rfl, rfl, rfl⟩
  | alias id bud hob hc =>
    rw [hb] at hob
    obtain ⟨enf', rfl, hle, -⟩ := obs_nonnode hob hpd rfl
    exact ⟨⟨enf', rfl, hle⟩, rfl, rfl, rfl⟩

theorem Skips.budget {p q : Pump} (h : Skips p q) {enf : Enf} (hb : p.budget = some enf)
    (hpd : enf.perDocument = false) :
    (∃ enf', q.budget = some enf' ∧ EnfLe enf enf') ∧ q.producedAny = p.producedAny ∧
      q.synthesizedNull = p.synthesizedNull ∧ q.recursiveInProgress = p.recursiveInProgress := by
  induction h generalizing enf with
  | refl => exact ⟨⟨enf, hb, .refl enf⟩, rfl, rfl, rfl⟩
  | step h1 _ ih =>
    obtain ⟨⟨e1, hb1, hle1⟩, a1, a2, a3⟩ := h1.budget hb hpd
    obtain ⟨⟨e2, hb2, hle2⟩, b1, b2, b3⟩ := ih hb1 (hle1.1.trans hpd)
    exact ⟨⟨e2, hb2, hle1.trans hle2⟩, b1.trans a1, b2.trans a2, b3.trans a3⟩

/-- what a delivering step guarantees about the budget -/
def Observed (enf enf' : Enf) (e : Ev) (recursive : Prop) : Prop :=
  enf'.perDocument = false ∧ enf'.lim = enf.lim ∧ enf.report.events + 1 ≤ enf'.report.events ∧
    enf'.report.events ≤ enf.lim.maxEvents ∧
    ((enf'.report.nodes = enf.report.nodes + (if nodeEv e then 1 else 0) ∧
        (nodeEv e = true → enf'.report.nodes ≤ enf.lim.maxNodes)) ∨
      (recursive ∧ enf'.report.nodes = enf.report.nodes))

theorem replayBud_some {enf : Enf} {e : Ev} {bud' : Option Enf} (h : ReplayBud (some enf) e bud') :
    ∃ enf', enf.observe (replayRaw e) = .ok enf' ∧ bud' = some enf' := h

theorem Deliver.budget {q p' : Pump} {e : Ev} (h : Deliver q e p') {enf : Enf} (hb : q.budget = some enf)
    (hpd : enf.perDocument = false) :
    (∃ enf', p'.budget = some enf' ∧ Observed enf enf' e (q.recursiveInProgress ≠ [])) ∧
      p'.producedAny = true ∧ p'.synthesizedNull = q.synthesizedNull ∧
      p'.recursiveInProgress = q.recursiveInProgress := by
  cases h with
  | scalar val style anchor tag loc bud hob =>
    rw [hb] at hob
    obtain ⟨enf', ho, rfl⟩ := obs_some hob
    obtain ⟨c1, c2, c3, c4, c5, c6⟩ := obsEnf_counts ho hpd
    exact ⟨⟨enf', rfl, c1, c2, by omega, c4, .inl ⟨c5, fun _ => c6 rfl⟩⟩, rfl, rfl, rfl⟩
  | seqStart anchor tag loc bud hob =>
    rw [hb] at hob
    obtain ⟨enf', ho, rfl⟩ := obs_some hob
    obtain ⟨c1, c2, c3, c4, c5, c6⟩ := obsEnf_counts ho hpd
    exact ⟨⟨enf', rfl, c1, c2, by omega, c4, .inl ⟨c5, fun _ => c6 rfl⟩⟩, rfl, rfl, rfl⟩
  | mapStart anchor tag loc bud hob =>
    rw [hb] at hob
    obtain ⟨enf', ho, rfl⟩ := obs_some hob
    obtain ⟨c1, c2, c3, c4, c5, c6⟩ := obsEnf_counts ho hpd
    exact ⟨⟨enf', rfl, c1, c2, by omega, c4, .inl ⟨c5, fun _ => c6 rfl⟩⟩, rfl, rfl, rfl⟩
  | seqEnd loc bud as fs hob hd =>
    rw [hb] at hob
    obtain ⟨enf', ho, rfl⟩ := obs_some hob
    obtain ⟨c1, c2, c3, c4, c5, c6⟩ := obsEnf_counts ho hpd
    exact ⟨⟨enf', rfl, c1, c2, by omega, c4, .inl ⟨c5, fun h => by cases h⟩⟩, rfl, rfl, rfl⟩
  | mapEnd loc bud as fs hob hd =>
    rw [hb] at hob
    obtain ⟨enf', ho, rfl⟩ := obs_some hob
    obtain ⟨c1, c2, c3, c4, c5, c6⟩ := obsEnf_counts ho hpd
    exact ⟨⟨enf', rfl, c1, c2, by omega, c4, .inl ⟨c5, fun h => by cases h⟩⟩, rfl, rfl, rfl⟩
  | placeholder id loc bud hob hc hrec =>
    rw [hb] at hob
    obtain ⟨enf', ho, rfl⟩ := obs_some hob
    obtain ⟨c1, c2, c3, c4, c5, c6⟩ := obsEnf_counts ho hpd
    have c3' : enf'.aliasOccupiesPosition.report.events = enf.report.events + 1 := c3
    refine ⟨⟨enf'.aliasOccupiesPosition, rfl, c1, c2, by omega, c4, .inr ⟨?_, c5⟩⟩, rfl, rfl, rfl⟩
    intro hnil
    rw [hnil] at hrec
    simp at hrec
  | replay id bud bud' inj ev hob hc htot hrb =>
    rw [hb] at hob
    obtain ⟨enf1, ho1, rfl⟩ := obs_some hob
    obtain ⟨c1, c2, c3, c4, c5, c6⟩ := obsEnf_counts ho1 hpd
    obtain ⟨enf2, ho2, rfl⟩ := replayBud_some hrb
    obtain ⟨d1, d2, d3, d4, d5, d6⟩ := observe_counts ho2 c1
    rw [isNodeEv_replayRaw] at d5 d6
    refine ⟨⟨enf2, rfl, d1, d2.trans c2, by omega, by rw [← c2]; exact d4, .inl ⟨?_, ?_⟩⟩, rfl, rfl, rfl⟩
    · rw [d5, c5]; simp [Spec.isNodeEv]
    · rw [← c2]; exact d6
  | replay0 bud' inj ev htot hrb =>
    rw [hb] at hrb
    obtain ⟨enf2, ho2, rfl⟩ := replayBud_some hrb
    obtain ⟨d1, d2, d3, d4, d5, d6⟩ := observe_counts ho2 hpd
    rw [isNodeEv_replayRaw] at d5 d6
    exact ⟨⟨enf2, rfl, d1, d2, by omega, d4, .inl ⟨d5, d6⟩⟩, rfl, rfl, rfl⟩

/-- the full budget statement about one delivering `next_impl` call: either the event was observed, or it
is the synthesized null of an empty stream (the first and last event) -/
theorem nextImpl_budget (p : Pump) (inp : List RawItem) (e : Ev) (p' : Pump) (rest : List RawItem) (enf : Enf)
    (hb : p.budget = some enf) (hpd : enf.perDocument = false)
    (h : nextImpl p inp = (.event e, p', rest)) :
    p'.recursiveInProgress = p.recursiveInProgress ∧ p'.producedAny = true ∧
    ((∃ enf', p'.budget = some enf' ∧ Observed enf enf' e (p.recursiveInProgress ≠ []) ∧
        p'.synthesizedNull = p.synthesizedNull) ∨
      (p.producedAny = false ∧ p'.synthesizedNull = true ∧ rest = [] ∧ p'.inject = [] ∧
        (∃ loc, e = .scalar [] 4 none .plain 0 loc) ∧ ∃ enf', p'.budget = some enf' ∧ EnfLe enf enf')) := by
  obtain ⟨q, hsk, hfin⟩ := nextImpl_event p inp e p' rest h
  obtain ⟨⟨e1, hb1, hle1⟩, a1, a2, a3⟩ := hsk.budget hb hpd
  rcases hfin with ⟨⟨hpa, rfl, rfl, rfl⟩, hinj⟩ | hd
  · exact ⟨a3, rfl, .inr ⟨a1 ▸ hpa, rfl, rfl, hinj, ⟨_, rfl⟩, e1, hb1, hle1⟩⟩
  · obtain ⟨⟨e2, hb2, o1, o2, o3, o4, o5⟩, b1, b2, b3⟩ := hd.budget hb1 (hle1.1.trans hpd)
    obtain ⟨l1, l2, l3, l4⟩ := hle1
    refine ⟨b3.trans a3, b1, .inl ⟨e2, hb2, ⟨o1, o2.trans l2, by omega, by rw [← l2]; exact o4, ?_⟩, b2.trans a2⟩⟩
    rw [← l2, ← l4, ← a3]
    exact o5

end SaphyrVerif.Lemmas.C08
