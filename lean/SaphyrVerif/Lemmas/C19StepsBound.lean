import SaphyrVerif.Lemmas.C19StepsErase
import SaphyrVerif.Lemmas.C19Total
import SaphyrVerif.Lemmas.C19Ast
/-!
C19: the cost of the instrumented evaluator (`Lemmas/C19Steps.lean`):
`steps ≤ 64 · length + 64` (work linear in the input: every loop iteration and every call is paid for by
a byte that is consumed and never read again, except the bounded look-aheads) and
`frames ≤ 5 · (MAX_EXPR_DEPTH + 1) + 4` (bounded recursion).
-/
set_option linter.unusedSimpArgs false
namespace SaphyrVerif.Lemmas.C19S
open SaphyrVerif SaphyrVerif.F64 SaphyrVerif.Robotics

/-! ## loops: iterations ≤ bytes consumed + 1 -/

theorem skipWsLS_steps (pre rest : List Nat) :
    (skipWsLS pre rest).2 + (skipWsLS pre rest).1.2.length = rest.length + 1 := by
  induction rest generalizing pre with
  | nil => rfl
  | cons c r ih =>
    unfold skipWsLS
    split
    · have := ih (c :: pre)
      simp only [List.length_cons]
      omega
    · simp only [List.length_cons]; omega

theorem skipWsT_steps (st : St) : (skipWsT st).steps + (skipWsT st).val.rest.length = st.rest.length + 1 :=
  skipWsLS_steps _ _

theorem signLoopS_steps (pre rest : List Nat) (s : Fl) :
    (signLoopS pre rest s).2 + (signLoopS pre rest s).1.2.1.length = rest.length + 1 := by
  induction rest generalizing pre s with
  | nil => rfl
  | cons c r ih =>
    unfold signLoopS
    split
    · have := ih (c :: pre) s
      simp only [List.length_cons]
      omega
    · split
      · have := ih (c :: pre) (neg s)
        simp only [List.length_cons]
        omega
      · simp only [List.length_cons]; omega

theorem identLoopS_steps (pre rest acc : List Nat) :
    (identLoopS pre rest acc).2 + (identLoopS pre rest acc).1.2.1.length = rest.length + 1 := by
  induction rest generalizing pre acc with
  | nil => rfl
  | cons c r ih =>
    unfold identLoopS
    split
    · have := ih (c :: pre) (c :: acc)
      simp only [List.length_cons]
      omega
    · simp only [List.length_cons]; omega

theorem skipWsLS_pos (pre rest : List Nat) : 1 ≤ (skipWsLS pre rest).2 := by
  cases rest with
  | nil => simp [skipWsLS]
  | cons c r => unfold skipWsLS; split <;> simp

theorem skipWsT_pos (st : St) : 1 ≤ (skipWsT st).steps := skipWsLS_pos _ _

theorem signLoopS_pos (pre rest : List Nat) (s : Fl) : 1 ≤ (signLoopS pre rest s).2 := by
  cases rest with
  | nil => simp [signLoopS]
  | cons c r =>
    unfold signLoopS
    split
    · simp
    · split <;> simp

theorem identLoopS_pos (pre rest acc : List Nat) : 1 ≤ (identLoopS pre rest acc).2 := by
  cases rest with
  | nil => simp [identLoopS]
  | cons c r => unfold identLoopS; split <;> simp

/-- length of the maximal run of digits and underscores at the front -/
def duRun : List Nat → Nat
  | [] => 0
  | c :: r => if isDigit c || c == 95 then duRun r + 1 else 0

theorem duRun_le (l : List Nat) : duRun l ≤ l.length := by
  induction l with
  | nil => exact Nat.le_refl _
  | cons c r ih =>
    unfold duRun
    split
    · simp only [List.length_cons]; omega
    · omega

/-- what is left after a loop over bytes -/
def remN : HRes NumSt → Nat
  | .ok ns => ns.rest.length
  | _ => 0

/-- a digit loop: iterations ≤ consumed + 1; on success `buf` grew by at most the bytes consumed, and
the whole run of digits and underscores was consumed -/
theorem numLoopS_steps (eU : RErr) (pre rest : List Nat) (k seen : Nat) (bufR : List Nat) (hv : Bool) :
    (numLoopS eU pre rest k seen bufR hv).2 + remN (numLoopS eU pre rest k seen bufR hv).1 ≤ rest.length + 1 ∧
    1 ≤ (numLoopS eU pre rest k seen bufR hv).2 ∧
    ∀ ns, (numLoopS eU pre rest k seen bufR hv).1 = .ok ns →
      ns.bufR.length + ns.rest.length ≤ bufR.length + rest.length ∧ duRun rest + ns.rest.length ≤ rest.length := by
  induction rest generalizing pre k seen bufR hv with
  | nil =>
    refine ⟨by simp [numLoopS, remN], by simp [numLoopS], ?_⟩
    intro ns h
    simp only [numLoopS, HRes.ok.injEq] at h
    subst h
    simp [duRun]
  | cons c r ih =>
    unfold numLoopS
    split
    · rename_i hc
      split
      · exact ⟨by simp [remN], by simp, by intro ns h; cases h⟩
      · obtain ⟨h1, h2, h3⟩ := ih (c :: pre) (k + 1) (seen + 1) (c :: bufR) true
        refine ⟨by simp only [List.length_cons]; omega, by simp, ?_⟩
        intro ns h
        obtain ⟨h4, h5⟩ := h3 ns h
        simp only [List.length_cons, duRun, hc, Bool.true_or, ↓reduceIte] at h4 ⊢
        omega
    · rename_i hc
      split
      · rename_i hu
        cases prevIsDigit pre k with
        | ok p =>
          simp only []
          split
          · exact ⟨by simp [remN], by simp, by intro ns h; cases h⟩
          · split
            · exact ⟨by simp [remN], by simp, by intro ns h; cases h⟩
            · obtain ⟨h1, h2, h3⟩ := ih (c :: pre) (k + 1) seen bufR hv
              refine ⟨by simp only [List.length_cons]; omega, by simp, ?_⟩
              intro ns h
              obtain ⟨h4, h5⟩ := h3 ns h
              simp only [List.length_cons, duRun, hu, Bool.or_true, ↓reduceIte] at h4 ⊢
              omega
        | err e => exact ⟨by simp [remN], by simp, by intro ns h; cases h⟩
        | panic s => exact ⟨by simp [remN], by simp, by intro ns h; cases h⟩
      · rename_i hu
        refine ⟨by simp [remN]; omega, by simp, ?_⟩
        intro ns h
        simp only [HRes.ok.injEq] at h
        subst h
        simp [duRun, hc, hu]

/-- the look-ahead stays inside the run of digits and underscores -/
theorem sexaLookS_steps (rest : List Nat) (sd lu : Bool) : (sexaLookS rest sd lu).2 ≤ duRun rest + 1 := by
  induction rest generalizing sd lu with
  | nil => simp [sexaLookS]
  | cons c r ih =>
    unfold sexaLookS duRun
    split
    · rename_i hc
      have := ih true false
      simp only [hc, Bool.true_or, ↓reduceIte]
      omega
    · rename_i hc
      split
      · rename_i hu
        simp only [hu, Bool.or_true, ↓reduceIte]
        split
        · omega
        · have := ih sd true
          simp only []
          omega
      · omega

/-- what is left after a field reader -/
def remF {α β : Type} : HRes (List Nat × List Nat × α × β) → Nat
  | .ok a => a.2.1.length
  | _ => 0

theorem readUintS_steps (pre rest : List Nat) (v : Fl) (d : Nat) (p : Bool) :
    (readUintS pre rest v d p).2 + remF (readUintS pre rest v d p).1 ≤ rest.length + 1 ∧
    1 ≤ (readUintS pre rest v d p).2 ∧
    ∀ a, (readUintS pre rest v d p).1 = .ok a → duRun rest + a.2.1.length = rest.length := by
  induction rest generalizing pre v d p with
  | nil =>
    unfold readUintS
    refine ⟨?_, by simp, ?_⟩
    · split <;> simp [remF]
    · intro a h
      split at h
      · cases h
      · simp only [HRes.ok.injEq] at h
        subst h
        simp [duRun]
  | cons c r ih =>
    unfold readUintS
    split
    · rename_i hc
      split
      · exact ⟨by simp [remF], by simp, by intro a h; cases h⟩
      · obtain ⟨h1, h2, h3⟩ := ih (c :: pre) (add F (mul F v TEN) (ofNat F (c - 48))) (d + 1) true
        refine ⟨by simp only [List.length_cons]; omega, by simp, ?_⟩
        intro a h
        have := h3 a h
        simp only [List.length_cons, duRun, hc, Bool.true_or, ↓reduceIte]
        omega
    · rename_i hc
      split
      · rename_i hu
        split
        · exact ⟨by simp [remF], by simp, by intro a h; cases h⟩
        · split
          · exact ⟨by simp [remF], by simp, by intro a h; cases h⟩
          · obtain ⟨h1, h2, h3⟩ := ih (c :: pre) v d false
            refine ⟨by simp only [List.length_cons]; omega, by simp, ?_⟩
            intro a h
            have := h3 a h
            simp only [List.length_cons, duRun, hu, Bool.or_true, ↓reduceIte]
            omega
      · rename_i hu
        refine ⟨?_, by simp, ?_⟩
        · split <;> simp [remF] <;> omega
        · intro a h
          split at h
          · cases h
          · simp only [HRes.ok.injEq] at h
            subst h
            simp [duRun, hc, hu]

theorem readFracS_steps (pre rest : List Nat) (num sc : Fl) (d : Nat) (p : Bool) :
    (readFracS pre rest num sc d p).2 + remF (readFracS pre rest num sc d p).1 ≤ rest.length + 1 ∧
    1 ≤ (readFracS pre rest num sc d p).2 := by
  induction rest generalizing pre num sc d p with
  | nil =>
    unfold readFracS
    refine ⟨?_, by simp⟩
    split <;> simp [remF]
  | cons c r ih =>
    unfold readFracS
    split
    · simp only []
      split
      · exact ⟨by simp [remF], by simp⟩
      · obtain ⟨h1, h2⟩ := ih (c :: pre)
          (if d < MAX_FRAC_DIGITS then add F (mul F num TEN) (ofNat F (c - 48)) else num)
          (if d < MAX_FRAC_DIGITS then mul F sc TEN else sc) (d + 1) true
        exact ⟨by simp only [List.length_cons]; omega, by simp⟩
    · split
      · split
        · exact ⟨by simp [remF], by simp⟩
        · split
          · exact ⟨by simp [remF], by simp⟩
          · obtain ⟨h1, h2⟩ := ih (c :: pre) num sc d false
            exact ⟨by simp only [List.length_cons]; omega, by simp⟩
      · refine ⟨?_, by simp⟩
        split <;> simp [remF] <;> omega

/-! ## cost algebra -/

namespace T
variable {α β : Type}
@[simp] theorem ofLoop_steps (x : α × Nat) : (ofLoop x).steps = x.2 := rfl
@[simp] theorem ret_steps (a : α) : (ret a).steps = 0 := rfl
@[simp] theorem tick_steps (n : Nat) (x : T α) : (tick n x).steps = x.steps + n := rfl
@[simp] theorem call_steps (x : T α) : (call x).steps = x.steps + 1 := rfl
@[simp] theorem lift_steps (d : Nat) (x : T (HRes α)) : (lift d x).steps = x.steps := rfl
@[simp] theorem ofLoop_frames (x : α × Nat) : (ofLoop x).frames = 0 := rfl
@[simp] theorem ret_frames (a : α) : (ret a).frames = 0 := rfl
@[simp] theorem tick_frames (n : Nat) (x : T α) : (tick n x).frames = x.frames := rfl
@[simp] theorem call_frames (x : T α) : (call x).frames = x.frames + 1 := rfl
@[simp] theorem lift_frames (d : Nat) (x : T (HRes α)) : (lift d x).frames = x.frames := rfl

theorem bind_steps (x : T (Res α)) (k : α → T (Res β)) :
    (x.bind k).steps = x.steps + (match x.val with | .ok a => (k a).steps | _ => 0) := by
  unfold bind
  cases x.val <;> rfl

theorem bind_frames (x : T (Res α)) (k : α → T (Res β)) :
    (x.bind k).frames = max x.frames (match x.val with | .ok a => (k a).frames | _ => 0) := by
  unfold bind
  cases x.val <;> simp
end T

/-- bytes left after a successful step -/
def remOk {α} (rem : α → Nat) : Res α → Nat
  | .ok a => rem a
  | _ => 0

def remOkH {α} (rem : α → Nat) : HRes α → Nat
  | .ok a => rem a
  | _ => 0

/-- `x`, started with `len` bytes ahead, costs at most `A` per byte consumed plus `B`:
`steps + A · (bytes left) ≤ A · len + B` (on failure nothing is left: `steps ≤ A · len + B`). -/
def Bd {α} (A B len : Nat) (rem : α → Nat) (x : T (Res α)) : Prop :=
  x.steps + A * remOk rem x.val ≤ A * len + B ∧ remOk rem x.val ≤ len

def BdH {α} (A B len : Nat) (rem : α → Nat) (x : T (HRes α)) : Prop :=
  x.steps + A * remOkH rem x.val ≤ A * len + B ∧ remOkH rem x.val ≤ len

theorem Bd.lift {α} {A B len : Nat} {rem : α → Nat} {x : T (HRes α)} (d : Nat) (h : BdH A B len rem x) :
    Bd A B len rem (T.lift d x) := by
  unfold Bd BdH at *
  simp only [T.lift_steps, T.lift_val]
  cases hx : x.val <;> simp only [hx, remOkH, remOk, HRes.lift] at h ⊢ <;> exact h

theorem Bd.bind {α β} {A B1 B2 len : Nat} {rem1 : α → Nat} {rem2 : β → Nat} {x : T (Res α)} {k : α → T (Res β)}
    (hx : Bd A B1 len rem1 x) (hk : ∀ a, x.val = .ok a → Bd A B2 (rem1 a) rem2 (k a)) :
    Bd A (B1 + B2) len rem2 (x.bind k) := by
  unfold Bd at *
  rw [T.bind_steps, T.bind_val]
  cases hv : x.val with
  | ok a =>
    obtain ⟨h1, h2⟩ := hk a hv
    rw [hv] at hx
    simp only [remOk] at hx
    show (x.steps + (k a).steps) + A * remOk rem2 (k a).val ≤ A * len + (B1 + B2) ∧ remOk rem2 (k a).val ≤ len
    have := Nat.mul_le_mul_left A h2
    exact ⟨by omega, by omega⟩
  | err e d => simp only [hv, remOk, Res.bind] at hx ⊢; exact ⟨by omega, by omega⟩
  | panic s => simp only [hv, remOk, Res.bind] at hx ⊢; exact ⟨by omega, by omega⟩
  | fuel => simp only [hv, remOk, Res.bind] at hx ⊢; exact ⟨by omega, by omega⟩

theorem Bd.tick {α} {A B len n : Nat} {rem : α → Nat} {x : T (Res α)} (h : Bd A B len rem x) :
    Bd A (B + n) len rem (T.tick n x) := by
  unfold Bd at *
  simp only [T.tick_steps, T.tick_val]
  exact ⟨by omega, h.2⟩

theorem Bd.call {α} {A B len : Nat} {rem : α → Nat} {x : T (Res α)} (h : Bd A B len rem x) :
    Bd A (B + 1) len rem (T.call x) := by
  unfold Bd at *
  simp only [T.call_steps, T.call_val]
  exact ⟨by omega, h.2⟩

theorem Bd.mono {α} {A B B' len len' : Nat} {rem : α → Nat} {x : T (Res α)} (h : Bd A B len rem x)
    (hB : B ≤ B') (hl : len ≤ len') : Bd A B' len' rem x := by
  unfold Bd at *
  have := Nat.mul_le_mul_left A hl
  exact ⟨by omega, by omega⟩

/-- a dearer price per byte -/
theorem Bd.monoA {α} {A A' B len : Nat} {rem : α → Nat} {x : T (Res α)} (h : Bd A B len rem x)
    (hA : A ≤ A') : Bd A' B len rem x := by
  unfold Bd at *
  obtain ⟨h1, h2⟩ := h
  refine ⟨?_, h2⟩
  obtain ⟨e, rfl⟩ : ∃ e, A' = A + e := ⟨A' - A, by omega⟩
  have := Nat.mul_le_mul_left e h2
  simp only [Nat.add_mul]
  omega

theorem Bd.ret_ok {α} {A B len : Nat} {rem : α → Nat} (a : α) (h : rem a ≤ len) :
    Bd A B len rem (T.ret (.ok a)) := by
  unfold Bd
  simp only [T.ret_steps, T.ret_val, remOk]
  have := Nat.mul_le_mul_left A h
  exact ⟨by omega, h⟩

theorem Bd.ret_fail {α} {A B len : Nat} {rem : α → Nat} (r : Res α) (h : ∀ a, r ≠ .ok a) :
    Bd A B len rem (T.ret r) := by
  unfold Bd
  cases r with
  | ok a => exact absurd rfl (h a)
  | err e d => simp [remOk]
  | panic s => simp [remOk]
  | fuel => simp [remOk]

theorem Bd.ret_err {α} {A B len : Nat} {rem : α → Nat} (st : St) (e : RErr) :
    Bd A B len rem (T.ret (st.err e : Res α)) :=
  Bd.ret_fail _ (by intro a h; cases h)

/-! ## field readers -/

def restOf {α β : Type} (a : List Nat × List Nat × α × β) : Nat := a.2.1.length

theorem readUintT_bd (pre rest : List Nat) :
    BdH 1 2 rest.length restOf (readUintT pre rest) ∧
    ∀ a, (readUintT pre rest).val = .ok a → duRun rest + restOf a = rest.length := by
  obtain ⟨h1, h2, h3⟩ := readUintS_steps pre rest (zero F false) 0 false
  unfold readUintT BdH
  simp only [T.call_steps, T.call_val, T.ofLoop_steps, T.ofLoop_val]
  refine ⟨?_, h3⟩
  cases hx : (readUintS pre rest (zero F false) 0 false).1 with
  | ok a => simp only [hx, remF, remOkH, restOf] at h1 ⊢; omega
  | err e => simp only [hx, remF, remOkH] at h1 ⊢; omega
  | panic s => simp only [hx, remF, remOkH] at h1 ⊢; omega

theorem readU32T_bd (pre rest : List Nat) : BdH 1 3 rest.length restOf (readU32T pre rest) := by
  obtain ⟨⟨h1, h2⟩, _⟩ := readUintT_bd pre rest
  unfold readU32T BdH
  simp only [T.call_steps, T.call_val]
  cases hx : (readUintT pre rest).val with
  | ok a =>
    obtain ⟨p1, r1, v, d⟩ := a
    simp only [hx, remOkH, restOf] at h1 h2 ⊢
    by_cases hg : gt v U32MAX = true <;> simp only [hg, Bool.false_eq_true, ↓reduceIte] <;> omega
  | err e => simp only [hx, remOkH] at h1 h2 ⊢; omega
  | panic s => simp only [hx, remOkH] at h1 h2 ⊢; omega

theorem readFracT_bd (pre rest : List Nat) : BdH 1 2 rest.length restOf (readFracT pre rest) := by
  obtain ⟨h1, h2⟩ := readFracS_steps pre rest (zero F false) ONE 0 false
  unfold readFracT BdH
  simp only [T.call_steps, T.call_val, T.ofLoop_steps, T.ofLoop_val]
  cases hx : (readFracS pre rest (zero F false) ONE 0 false).1 with
  | ok a => simp only [hx, remF, remOkH, restOf] at h1 ⊢; omega
  | err e => simp only [hx, remF, remOkH] at h1 ⊢; omega
  | panic s => simp only [hx, remF, remOkH] at h1 ⊢; omega

/-! ## sexagesimal forms -/

/-- bytes left after a sexagesimal form -/
def remO : Option (Eval × St) → Nat
  | some p => p.2.rest.length
  | none => 0

def rest4 (a : List Nat × List Nat × Fl × Nat) : Nat := a.2.1.length

/-- never `Ok(None)` -/
def NoNone (r : Res (Option (Eval × St))) : Prop := ∀ o, r = .ok o → o ≠ none

theorem NoNone.bind {α} {x : T (Res α)} {k : α → T (Res (Option (Eval × St)))} (h : ∀ a, NoNone (k a).val) :
    NoNone (x.bind k).val := by
  rw [T.bind_val]
  cases hx : x.val with
  | ok a => exact h a
  | err e d => intro o ho; cases ho
  | panic s => intro o ho; cases ho
  | fuel => intro o ho; cases ho

theorem NoNone.err (st : St) (e : RErr) : NoNone (T.ret (st.err e : Res (Option (Eval × St)))).val := by
  intro o ho; cases ho

/-- the part of `try_parse_sexagesimal` behind `D:` -/
theorem sexaTail_bd (tag : Nat) (st : St) (pre1 rest1' : List Nat) (degWhole : Fl) (d1 : Nat) :
    let K : T (Res (Option (Eval × St))) :=
      (T.lift st.depth (readU32T (58 :: pre1) rest1')).bind fun (pre2, rest2, minsU, d2) =>
      if 59 < minsU then T.ret (st.err .minutesRange)
      else
        let mins := ofNat F minsU
        let tail : T (Res (List Nat × List Nat × Fl × Nat)) :=
          match rest2 with
          | 58 :: rest2' =>
            (T.lift st.depth (readU32T (58 :: pre2) rest2')).bind fun (pre3, rest3, secsU, d3) =>
            if 59 < secsU then T.ret (st.err .secondsRange)
            else
              match rest3 with
              | 46 :: rest3' =>
                (T.lift st.depth (readFracT (46 :: pre3) rest3')).bind
                  fun (pre4, rest4, frac, df) =>
                    T.ret (.ok (pre4, rest4, add F (ofNat F secsU) frac, d1 + d2 + d3 + df))
              | _ => T.ret (.ok (pre3, rest3, ofNat F secsU, d1 + d2 + d3))
          | _ => T.ret (.ok (pre2, rest2, zero F false, d1 + d2))
        tail.bind fun (preE, restE, secs, total) =>
          if MAX_NUM_DIGITS < total then T.ret (st.err .tooManyDigitsSexa)
          else
            let stE : St := { st with pre := preE, rest := restE }
            let degrees := add F (add F degWhole (div F mins SIXTY)) (div F secs C3600)
            let seconds := add F (add F (mul F degWhole C3600) (mul F mins SIXTY)) secs
            if st.sexTime then
              if tag == TAG_DEGREES || tag == TAG_RADIANS then
                T.ret (.ok (some ((mul F degrees DEG2RAD, true, false), stE)))
              else T.ret (.ok (some ((seconds, true, false), stE)))
            else if tag == TAG_TIMESTAMP then T.ret (.ok (some ((seconds, true, false), stE)))
            else T.ret (.ok (some ((degrees, true, false), stE)))
    Bd 1 8 rest1'.length remO K ∧ NoNone K.val := by
  intro K
  constructor
  · refine Bd.bind (B1 := 3) (B2 := 5) (Bd.lift _ (readU32T_bd _ _)) ?_
    rintro ⟨pre2, rest2, minsU, d2⟩ hx2
    simp only []
    split
    · exact Bd.ret_err _ _
    · refine Bd.bind (B1 := 5) (B2 := 0) (rem1 := rest4) ?_ ?_
      · split
        · rename_i rest2'
          refine Bd.mono (len := rest2'.length) ?_ (Nat.le_refl _) (by simp [restOf])
          refine Bd.bind (B1 := 3) (B2 := 2) (Bd.lift _ (readU32T_bd _ _)) ?_
          rintro ⟨pre3, rest3, secsU, d3⟩ hx3
          simp only []
          split
          · exact Bd.ret_err _ _
          · split
            · rename_i rest3'
              refine Bd.mono (len := rest3'.length) ?_ (Nat.le_refl _) (by simp [restOf])
              have := Bd.bind (B1 := 2) (B2 := 0) (rem2 := rest4) (Bd.lift st.depth (readFracT_bd (46 :: pre3) rest3'))
                (k := fun (x : List Nat × List Nat × Fl × Nat) =>
                  T.ret (.ok (x.1, x.2.1, add F (ofNat F secsU) x.2.2.1, d1 + d2 + d3 + x.2.2.2))) (by
                  rintro ⟨pre4, r4, frac, df⟩ _
                  exact Bd.ret_ok _ (Nat.le_refl _))
              exact this
            · exact Bd.ret_ok _ (Nat.le_refl _)
        · exact Bd.ret_ok _ (Nat.le_refl _)
      · rintro ⟨preE, restE, secs, total⟩ hxE
        simp only []
        split
        · exact Bd.ret_err _ _
        · split
          · split <;> exact Bd.ret_ok _ (Nat.le_refl _)
          · split <;> exact Bd.ret_ok _ (Nat.le_refl _)
  · refine NoNone.bind ?_
    rintro ⟨pre2, rest2, minsU, d2⟩
    simp only []
    split
    · exact NoNone.err _ _
    · refine NoNone.bind ?_
      rintro ⟨preE, restE, secs, total⟩
      simp only []
      split
      · exact NoNone.err _ _
      · split
        · split <;> (intro o ho; cases ho; simp)
        · split <;> (intro o ho; cases ho; simp)

/-- cost of `try_parse_sexagesimal`: when it declines (`Ok(None)`) it has only looked at the leading run of
digits and underscores; otherwise two steps per byte consumed -/
def sxBound (du len steps : Nat) : Res (Option (Eval × St)) → Prop
  | .ok none => steps ≤ 2 * du + 4
  | .ok (some p) => steps + 2 * p.2.rest.length ≤ 2 * len + 16 ∧ p.2.rest.length ≤ len
  | _ => steps ≤ 2 * len + 16

theorem trySexagesimalT_bd (tag : Nat) (st : St) :
    sxBound (duRun st.rest) st.rest.length (trySexagesimalT tag st).steps (trySexagesimalT tag st).val := by
  have hlk := sexaLookS_steps st.rest false false
  have hdu := duRun_le st.rest
  unfold trySexagesimalT
  simp only [T.call_steps, T.call_val, T.tick_steps, T.tick_val]
  split
  · simp only [T.ret_steps, T.ret_val, sxBound]; omega
  split
  · simp only [T.ret_steps, T.ret_val, sxBound]; omega
  rw [T.bind_steps, T.bind_val]
  obtain ⟨⟨hu1, hu2⟩, hu3⟩ := readUintT_bd st.pre st.rest
  simp only [T.lift_steps, T.lift_val]
  cases hx : (readUintT st.pre st.rest).val with
  | err e =>
    simp only [hx, remOkH] at hu1
    simp only [HRes.lift, Res.bind, sxBound]
    omega
  | panic s =>
    simp only [hx, remOkH] at hu1
    simp only [HRes.lift, Res.bind, sxBound]
    omega
  | ok a =>
    obtain ⟨pre1, rest1, degWhole, d1⟩ := a
    have hu3' := hu3 _ hx
    simp only [hx, remOkH, restOf] at hu1 hu2 hu3'
    simp only [HRes.lift, Res.bind]
    split
    · rename_i rest1'
      obtain ⟨⟨hK1, hK2⟩, hKn⟩ := sexaTail_bd tag st pre1 rest1' degWhole d1
      simp only [] at hK1 hK2 hKn
      simp only [List.length_cons] at hu1 hu2 hu3'
      generalize hK : T.bind _ _ = K at hK1 hK2 hKn ⊢
      cases hKv : K.val with
      | ok o =>
        cases o with
        | none => exact absurd rfl (hKn none hKv)
        | some p =>
          simp only [hKv, remOk, remO] at hK1 hK2
          simp only [sxBound]
          omega
      | err e d => simp only [hKv, remOk] at hK1; simp only [sxBound]; omega
      | panic s => simp only [hKv, remOk] at hK1; simp only [sxBound]; omega
      | fuel => simp only [hKv, remOk] at hK1; simp only [sxBound]; omega
    · simp only [T.ret_steps, T.ret_val, sxBound]
      omega

/-! ## decimal numbers -/

theorem numFracS_steps (n1 : NumSt) :
    (numFracS n1).2 + remN (numFracS n1).1 ≤ n1.rest.length + 1 ∧
    ∀ n2, (numFracS n1).1 = .ok n2 →
      n2.bufR.length + n2.rest.length ≤ n1.bufR.length + n1.rest.length ∧ n2.rest.length ≤ n1.rest.length := by
  obtain ⟨p, rest, seen, bufR, hd⟩ := n1
  unfold numFracS
  simp only []
  split
  · rename_i r
    obtain ⟨h1, h2, h3⟩ := numLoopS_steps RErr.underscoreFraction (46 :: p) r 0 seen (46 :: bufR) false
    refine ⟨by simp only [List.length_cons]; omega, ?_⟩
    intro n2 h
    obtain ⟨h4, h5⟩ := h3 n2 h
    have := duRun_le r
    simp only [List.length_cons] at h4 ⊢
    have h6 : remN (numLoopS RErr.underscoreFraction (46 :: p) r 0 seen (46 :: bufR) false).1 = n2.rest.length := by
      rw [h]; rfl
    omega
  · refine ⟨by simp [remN], ?_⟩
    intro n2 h
    simp only [HRes.ok.injEq] at h
    subst h
    exact ⟨Nat.le_refl _, Nat.le_refl _⟩

theorem expMarker_len (c : Nat) (pre r bufR : List Nat) :
    (expMarker c pre r bufR).2.1.length ≤ r.length ∧
    (expMarker c pre r bufR).2.2.length + (expMarker c pre r bufR).2.1.length = bufR.length + 1 + r.length := by
  cases r with
  | nil => simp [expMarker]
  | cons sg r2 =>
    by_cases h : (sg == 43 || sg == 45) = true
    · simp only [expMarker, h, ↓reduceIte, List.length_cons]; omega
    · simp [expMarker, h]

theorem numExpS_steps (n2 : NumSt) :
    (numExpS n2).2 + remN (numExpS n2).1 ≤ n2.rest.length + 1 ∧
    ∀ n3, (numExpS n2).1 = .ok n3 →
      n3.bufR.length + n3.rest.length ≤ n2.bufR.length + n2.rest.length ∧ n3.rest.length ≤ n2.rest.length := by
  obtain ⟨p, rest, seen, bufR, hd⟩ := n2
  unfold numExpS
  simp only []
  split
  · rename_i c r
    split
    · obtain ⟨e1, e2⟩ := expMarker_len c p r bufR
      obtain ⟨h1, h2, h3⟩ := numLoopS_steps RErr.underscoreExponent (expMarker c p r bufR).1 (expMarker c p r bufR).2.1 0
        seen (expMarker c p r bufR).2.2 false
      simp only [List.length_cons]
      cases hx : (numLoopS RErr.underscoreExponent (expMarker c p r bufR).1 (expMarker c p r bufR).2.1 0
        seen (expMarker c p r bufR).2.2 false).1 with
      | ok n3 =>
        obtain ⟨h4, h5⟩ := h3 n3 hx
        simp only [hx, remN] at h1
        simp only []
        by_cases hh : (!n3.hadDigit) = true
        · simp only [hh, ↓reduceIte, remN]
          refine ⟨by omega, ?_⟩
          intro n3' h; cases h
        · simp only [hh, Bool.false_eq_true, ↓reduceIte, remN]
          refine ⟨by omega, ?_⟩
          intro n3' h
          simp only [HRes.ok.injEq] at h
          subst h
          omega
      | err e =>
        simp only [hx, remN] at h1
        simp only [remN]
        exact ⟨by omega, by intro n3' h; cases h⟩
      | panic s =>
        simp only [hx, remN] at h1
        simp only [remN]
        exact ⟨by omega, by intro n3' h; cases h⟩
    · refine ⟨by simp [remN], ?_⟩
      intro n3 h
      simp only [HRes.ok.injEq] at h
      subst h
      exact ⟨Nat.le_refl _, Nat.le_refl _⟩
  · refine ⟨by simp [remN], ?_⟩
    intro n3 h
    simp only [HRes.ok.injEq] at h
    subst h
    exact ⟨Nat.le_refl _, Nat.le_refl _⟩

/-- `buf` is not empty behind a number that starts with a digit or the '.' -/
theorem buf_nonempty (pre rest : List Nat) (n1 n2 n3 : NumSt)
    (hc : ∃ c r, rest = c :: r ∧ (isDigit c = true ∨ c = 46))
    (e1 : numLoop .underscoreNumber pre rest 0 0 [] false = .ok n1) (e2 : numFrac n1 = .ok n2)
    (e3 : numExp n2 = .ok n3) : n3.bufR.isEmpty = false := by
  have hb2 : n2.bufR ≠ [] := by
    obtain ⟨c, r, hr, hcd⟩ := hc
    rw [hr] at e1
    rcases hcd with hd | h46
    · have := C19.numLoop_first_digit _ _ _ _ _ _ _ _ _ hd e1
      obtain ⟨x, hx⟩ := (C19.numFrac_buf n1 n2 e2).1
      rw [hx]; intro hh; exact this (List.append_eq_nil_iff.mp hh).2
    · subst h46
      rw [C19.numLoop_dot] at e1
      simp only [HRes.ok.injEq] at e1
      exact (C19.numFrac_buf n1 n2 e2).2 r (by rw [← e1])
  obtain ⟨x, hx⟩ := C19.numExp_buf n2 n3 e3
  cases hn3 : n3.bufR with
  | nil => rw [hn3] at hx; exact absurd (List.append_eq_nil_iff.mp hx.symm).2 hb2
  | cons _ _ => rfl

theorem advN_len (n : Nat) (pre rest p r : List Nat) (h : advN n pre rest = .ok (p, r)) :
    r.length + n = rest.length := by
  induction n generalizing pre rest with
  | zero =>
    simp only [advN, HRes.ok.injEq, Prod.mk.injEq] at h
    rw [h.2]; rfl
  | succ n ih =>
    cases rest with
    | nil => simp [advN] at h
    | cons c rest =>
      simp only [advN] at h
      have := ih _ _ h
      simp only [List.length_cons]
      omega

/-- bytes left behind a parser function -/
def remS (p : Eval × St) : Nat := p.2.rest.length

/-- the digit loops and the final `from_str` of `parse_number_or_special` -/
theorem numChain_bd (st : St) (hc : ∃ c r, st.rest = c :: r ∧ (isDigit c = true ∨ c = 46)) :
    let Z : T (Res (Eval × St)) :=
      (T.lift st.depth (T.ofLoop (numLoopS .underscoreNumber st.pre st.rest 0 0 [] false))).bind fun n1 =>
      (T.lift st.depth (T.ofLoop (numFracS n1))).bind fun n2 =>
      (T.lift st.depth (T.ofLoop (numExpS n2))).bind fun n3 =>
      let stE : St := { st with pre := n3.pre, rest := n3.rest }
      if n3.bufR.isEmpty then
        let k := n3.pre.length - st.pre.length
        if !(boundaryAhead st.rest 0 && boundaryAhead n3.rest 0) then T.ret (.panic .strSlice)
        else T.call <| T.tick k <| match fromStr F (n3.pre.take k).reverse with
          | some v => T.ret (.ok ((v, false, true), stE))
          | none => T.ret (st.err .invalidFloat)
      else
        T.call <| T.tick n3.bufR.length <| match fromStr F n3.bufR.reverse with
        | some v => T.ret (.ok ((v, false, true), stE))
        | none => T.ret (st.err .invalidFloat)
    Z.steps + 2 * remOk remS Z.val ≤ 2 * st.rest.length + 5 ∧
    ∀ p, Z.val = .ok p → duRun st.rest + remS p ≤ st.rest.length := by
  intro Z
  obtain ⟨a1, a2, a3⟩ := numLoopS_steps RErr.underscoreNumber st.pre st.rest 0 0 [] false
  have hZ : Z = (T.lift st.depth (T.ofLoop (numLoopS .underscoreNumber st.pre st.rest 0 0 [] false))).bind _ := rfl
  rw [hZ, T.bind_steps, T.bind_val]
  simp only [T.lift_steps, T.lift_val, T.ofLoop_steps, T.ofLoop_val]
  cases h1 : (numLoopS RErr.underscoreNumber st.pre st.rest 0 0 [] false).1 with
  | err e => simp only [h1, remN] at a1; simp only [HRes.lift, Res.bind, remOk]; exact ⟨by omega, by intro p hp; cases hp⟩
  | panic s => simp only [h1, remN] at a1; simp only [HRes.lift, Res.bind, remOk]; exact ⟨by omega, by intro p hp; cases hp⟩
  | ok n1 =>
    obtain ⟨a4, a5⟩ := a3 n1 h1
    simp only [h1, remN] at a1
    simp only [HRes.lift, Res.bind]
    obtain ⟨b1, b3⟩ := numFracS_steps n1
    rw [T.bind_steps, T.bind_val]
    simp only [T.lift_steps, T.lift_val, T.ofLoop_steps, T.ofLoop_val]
    cases h2 : (numFracS n1).1 with
    | err e => simp only [h2, remN] at b1; simp only [HRes.lift, Res.bind, remOk]; exact ⟨by omega, by intro p hp; cases hp⟩
    | panic s => simp only [h2, remN] at b1; simp only [HRes.lift, Res.bind, remOk]; exact ⟨by omega, by intro p hp; cases hp⟩
    | ok n2 =>
      obtain ⟨b4, b5⟩ := b3 n2 h2
      simp only [h2, remN] at b1
      simp only [HRes.lift, Res.bind]
      obtain ⟨c1, c3⟩ := numExpS_steps n2
      rw [T.bind_steps, T.bind_val]
      simp only [T.lift_steps, T.lift_val, T.ofLoop_steps, T.ofLoop_val]
      cases h3 : (numExpS n2).1 with
      | err e => simp only [h3, remN] at c1; simp only [HRes.lift, Res.bind, remOk]; exact ⟨by omega, by intro p hp; cases hp⟩
      | panic s => simp only [h3, remN] at c1; simp only [HRes.lift, Res.bind, remOk]; exact ⟨by omega, by intro p hp; cases hp⟩
      | ok n3 =>
        obtain ⟨c4, c5⟩ := c3 n3 h3
        simp only [h3, remN] at c1
        simp only [HRes.lift, Res.bind]
        have hne : n3.bufR.isEmpty = false :=
          buf_nonempty st.pre st.rest n1 n2 n3 hc (by rw [← numLoopS_fst]; exact h1) (by rw [← numFracS_fst]; exact h2)
            (by rw [← numExpS_fst]; exact h3)
        simp only [hne, Bool.false_eq_true, ↓reduceIte, T.call_steps, T.call_val, T.tick_steps, T.tick_val,
          List.length_nil] at a4 ⊢
        cases fromStr F n3.bufR.reverse with
        | some v =>
          simp only [T.ret_steps, T.ret_val, remOk, remS]
          refine ⟨by omega, ?_⟩
          intro p hp
          simp only [Res.ok.injEq] at hp
          subst hp
          simp only []
          omega
        | none =>
          simp only [T.ret_steps, T.ret_val, remOk, St.err]
          exact ⟨by omega, by intro p hp; cases hp⟩

/-- `parse_number_or_special`: at most four steps per byte of the token, plus a constant -/
theorem parseNumberOrSpecialT_bd (tag : Nat) (st : St)
    (hc : ∃ c r, st.rest = c :: r ∧ (isDigit c = true ∨ c = 46)) :
    Bd 4 32 st.rest.length remS (parseNumberOrSpecialT tag st) := by
  have special : ∀ (ev : Eval) (n : Nat), n ≤ 9 →
      Bd 4 32 st.rest.length remS (T.call (T.tick n
        ((T.lift st.depth (T.ret (advN 4 st.pre st.rest))).bind fun (x : List Nat × List Nat) =>
          T.ret (.ok (ev, ({ st with pre := x.1, rest := x.2 } : St)))))) := by
    intro ev n hn
    unfold Bd
    simp only [T.call_steps, T.call_val, T.tick_steps, T.tick_val, T.bind_steps, T.bind_val, T.lift_steps,
      T.lift_val, T.ret_steps, T.ret_val]
    cases ha : advN 4 st.pre st.rest with
    | ok a =>
      obtain ⟨p, r⟩ := a
      have := advN_len 4 _ _ _ _ ha
      simp only [HRes.lift, Res.bind, remOk, remS]
      omega
    | err e => simp only [HRes.lift, Res.bind, remOk]; omega
    | panic s => simp only [HRes.lift, Res.bind, remOk]; omega
  unfold parseNumberOrSpecialT
  split
  · exact special _ 4 (by omega)
  · have e : ∀ (n m : Nat) (x : T (Res (Eval × St))), T.tick n (T.tick m x) = T.tick (m + n) x := by
      intro n m x; simp [T.tick, Nat.add_assoc]
    split
    · rw [e]; exact special _ 8 (by omega)
    · rw [e]
      obtain ⟨z1, z2⟩ := numChain_bd st hc
      simp only [] at z1 z2
      have hsx := trySexagesimalT_bd tag st
      have hdu := duRun_le st.rest
      unfold Bd
      simp only [T.call_steps, T.call_val, T.tick_steps, T.tick_val]
      rw [T.bind_steps, T.bind_val]
      cases hs : (trySexagesimalT tag st).val with
      | ok o =>
        cases o with
        | some res =>
          simp only [hs, sxBound] at hsx
          simp only [Res.bind, T.ret_steps, T.ret_val, remOk, remS]
          omega
        | none =>
          simp only [hs, sxBound] at hsx
          simp only [Res.bind]
          generalize T.bind _ _ = Z at z1 z2 ⊢
          cases hz : Z.val with
          | ok p =>
            have := z2 p hz
            simp only [hz, remOk] at z1 ⊢
            omega
          | err e d => simp only [hz, remOk] at z1 ⊢; omega
          | panic s => simp only [hz, remOk] at z1 ⊢; omega
          | fuel => simp only [hz, remOk] at z1 ⊢; omega
      | err e d => simp only [hs, sxBound] at hsx; simp only [Res.bind, remOk]; omega
      | panic s => simp only [hs, sxBound] at hsx; simp only [Res.bind, remOk]; omega
      | fuel => simp only [hs, sxBound] at hsx; simp only [Res.bind, remOk]; omega

/-! ## the parser: 48 steps per byte

Constants: `primary` 35, `unary` 38, `term` 41, `expr` 44, identifier 15, each `loop` 2. -/

theorem exitAfterT_bd {A B len : Nat} {x : T (Res (Eval × St))} (h : Bd A B len remS x) :
    Bd A (B + 1) len remS (exitAfterT x) := by
  unfold Bd exitAfterT at *
  simp only []
  cases hx : x.val with
  | ok a =>
    obtain ⟨ev, st⟩ := a
    simp only [hx, remOk, remS] at h
    simp only [exitAfter, St.exit]
    by_cases hd : (st.depth == 0) = true
    · simp only [hd, ↓reduceIte, Res.bind, remOk]; omega
    · simp only [hd, Bool.false_eq_true, ↓reduceIte, Res.bind, remOk, remS]; omega
  | err e d =>
    simp only [hx, remOk] at h
    simp only [exitAfter]
    split <;> (simp only [remOk]; omega)
  | panic s => simp only [hx, remOk] at h; simp only [exitAfter, remOk]; omega
  | fuel => simp only [hx, remOk] at h; simp only [exitAfter, remOk]; omega

theorem enterT_bd {A : Nat} (st : St) :
    Bd A 1 st.rest.length (fun s : St => s.rest.length) (T.tick 1 (T.ret (St.enter st))) := by
  unfold Bd
  simp only [T.tick_steps, T.tick_val, T.ret_steps, T.ret_val]
  cases he : St.enter st with
  | ok st1 =>
    have := (C19.enter_ok he).1
    subst this
    simp only [remOk]; omega
  | err e d => simp only [remOk]; omega
  | panic s => simp only [remOk]; omega
  | fuel => simp only [remOk]; omega

/-- skip white space, expect `)` -/
theorem rparenT_bd (st2 : St) (e1 e2 : RErr) (fT : St → T (Res (Eval × St)))
    (hf : ∀ s, (fT s).steps = 0 ∧ remOk remS (fT s).val ≤ s.rest.length) :
    Bd 48 2 st2.rest.length remS (T.tick ((skipWsT st2).steps + 1)
      (match (skipWsT st2).val.rest with
        | 41 :: r' => fT ((skipWsT st2).val.adv 41 r')
        | c :: r' => T.ret (((skipWsT st2).val.adv c r').err e1)
        | [] => T.ret ((skipWsT st2).val.err e2))) := by
  have hs := skipWsT_steps st2
  have hs' := skipWsT_pos st2
  generalize skipWsT st2 = sw at hs hs' ⊢
  obtain ⟨⟨p, r, d, t⟩, n, fr⟩ := sw
  simp only [] at hs hs' ⊢
  unfold Bd
  simp only [T.tick_steps, T.tick_val]
  split
  · rename_i r'
    obtain ⟨h1, h2⟩ := hf (St.adv ⟨p, 41 :: r', d, t⟩ 41 r')
    simp only [St.adv] at h1 h2
    simp only [List.length_cons] at hs
    simp only [St.adv, h1]
    omega
  · simp only [T.ret_steps, T.ret_val, St.err, remOk]; omega
  · simp only [T.ret_steps, T.ret_val, St.err, remOk]; omega

theorem parseIdentOrSpecialT_bd (ET : St → T (Res (Eval × St)))
    (hE : ∀ st1, Bd 48 44 st1.rest.length remS (ET st1)) (st : St) :
    Bd 48 15 st.rest.length remS (parseIdentOrSpecialT ET st) := by
  have hil := identLoopS_steps st.pre st.rest []
  have hil1 := identLoopS_pos st.pre st.rest []
  unfold parseIdentOrSpecialT
  simp only []
  generalize identLoopS st.pre st.rest [] = ilx at hil hil1 ⊢
  obtain ⟨⟨ip, ir, iacc⟩, n⟩ := ilx
  simp only [] at hil hil1 ⊢
  have simple : ∀ ev : Eval, Bd 48 15 st.rest.length remS (T.call (T.tick (n + 6)
      (T.ret (.ok (ev, ({ st with pre := ip, rest := ir } : St)))))) := by
    intro ev
    unfold Bd
    simp only [T.call_steps, T.call_val, T.tick_steps, T.tick_val, T.ret_steps, T.ret_val, remOk, remS]
    omega
  have fail : ∀ r : Res (Eval × St), (∀ a, r ≠ .ok a) →
      Bd 48 15 st.rest.length remS (T.call (T.tick (n + 6) (T.ret r))) := by
    intro r hr
    unfold Bd
    simp only [T.call_steps, T.call_val, T.tick_steps, T.tick_val, T.ret_steps, T.ret_val]
    cases r with
    | ok a => exact absurd rfl (hr a)
    | err e d => simp only [remOk]; omega
    | panic s => simp only [remOk]; omega
    | fuel => simp only [remOk]; omega
  split
  · exact fail _ (by intro a h; cases h)
  split
  · exact simple _
  split
  · exact simple _
  split
  · exact simple _
  split
  · exact simple _
  split
  · -- deg( / rad(
    have hs2 := skipWsT_steps ({ st with pre := ip, rest := ir } : St)
    have hs2' := skipWsT_pos ({ st with pre := ip, rest := ir } : St)
    generalize skipWsT ({ st with pre := ip, rest := ir } : St) = sw2 at hs2 hs2' ⊢
    obtain ⟨⟨p2, r2, d2, t2⟩, n2, fr2⟩ := sw2
    simp only [] at hs2 hs2' ⊢
    split
    · rename_i r
      simp only [List.length_cons] at hs2
      have core : Bd 48 (1 + (45 + 2)) r.length remS
          ((T.tick 1 (T.ret (St.enter { (St.adv ⟨p2, 40 :: r, d2, t2⟩ 40 r) with sexTime := false }))).bind fun st4 =>
            (exitAfterT (ET st4)).bind fun x =>
              T.tick ((skipWsT { x.2 with sexTime := (St.adv ⟨p2, 40 :: r, d2, t2⟩ 40 r).sexTime }).steps + 1)
                (match (skipWsT { x.2 with sexTime := (St.adv ⟨p2, 40 :: r, d2, t2⟩ 40 r).sexTime }).val.rest with
                  | 41 :: r' =>
                    if (iacc.reverse.map lowerByte == [100, 101, 103]) = true then
                      T.ret (.ok ((mul F x.1.1 DEG2RAD, true, false),
                        (skipWsT { x.2 with sexTime := (St.adv ⟨p2, 40 :: r, d2, t2⟩ 40 r).sexTime }).val.adv 41 r'))
                    else T.ret (.ok ((x.1.1, true, false),
                        (skipWsT { x.2 with sexTime := (St.adv ⟨p2, 40 :: r, d2, t2⟩ 40 r).sexTime }).val.adv 41 r'))
                  | c :: r' => T.ret (((skipWsT { x.2 with sexTime := (St.adv ⟨p2, 40 :: r, d2, t2⟩ 40 r).sexTime }).val.adv c r').err
                      .expectedRParenFn)
                  | [] => T.ret ((skipWsT { x.2 with sexTime := (St.adv ⟨p2, 40 :: r, d2, t2⟩ 40 r).sexTime }).val.err
                      .expectedRParenFn))) := by
        refine Bd.bind (enterT_bd _) ?_
        intro st4 _
        refine Bd.bind (exitAfterT_bd (hE st4)) ?_
        rintro ⟨⟨v, u1, u2⟩, st5⟩ _
        exact rparenT_bd { st5 with sexTime := _ } _ _
          (fun s => if (iacc.reverse.map lowerByte == [100, 101, 103]) = true then
            T.ret (.ok ((mul F v DEG2RAD, true, false), s)) else T.ret (.ok ((v, true, false), s)))
          (by intro s; split <;> simp [remOk, remS])
      unfold Bd at core ⊢
      simp only [T.call_steps, T.call_val, T.tick_steps, T.tick_val] at core ⊢
      generalize T.bind _ _ = Y at core ⊢
      have : remOk remS Y.val ≤ r.length := core.2
      omega
    · unfold Bd
      simp only [T.call_steps, T.call_val, T.tick_steps, T.tick_val, T.ret_steps, T.ret_val, St.err, remOk]
      simp only [List.length_cons] at hs2
      omega
    · unfold Bd
      simp only [T.call_steps, T.call_val, T.tick_steps, T.tick_val, T.ret_steps, T.ret_val, St.err, remOk]
      omega
  · exact fail _ (by intro a h; cases h)

theorem primaryT_bd (tag : Nat) (ET : St → T (Res (Eval × St)))
    (hE : ∀ st1, Bd 48 44 st1.rest.length remS (ET st1)) (st0 : St) :
    Bd 48 35 st0.rest.length remS (primaryT tag ET st0) := by
  have hs := skipWsT_steps st0
  have hs' := skipWsT_pos st0
  unfold primaryT
  simp only []
  generalize skipWsT st0 = sw at hs hs' ⊢
  obtain ⟨⟨p, r0, d, t⟩, n, fr⟩ := sw
  simp only [] at hs hs' ⊢
  cases r0 with
  | nil =>
    unfold Bd
    simp only [T.call_steps, T.call_val, T.tick_steps, T.tick_val, T.ret_steps, T.ret_val, St.err, remOk]
    simp only [List.length_nil] at hs
    omega
  | cons c r =>
    simp only [List.length_cons] at hs
    simp only []
    split
    · -- '('
      have core : Bd 48 (1 + (45 + 2)) r.length remS
          ((T.tick 1 (T.ret (St.enter (St.adv ⟨p, c :: r, d, t⟩ c r)))).bind fun st1 =>
            (exitAfterT (ET st1)).bind fun x =>
              T.tick ((skipWsT x.2).steps + 1)
                (match (skipWsT x.2).val.rest with
                  | 41 :: r' => T.ret (.ok (x.1, (skipWsT x.2).val.adv 41 r'))
                  | c' :: r' => T.ret (((skipWsT x.2).val.adv c' r').err .expectedRParen)
                  | [] => T.ret ((skipWsT x.2).val.err .expectedRParen))) := by
        refine Bd.bind (enterT_bd _) ?_
        intro st1 _
        refine Bd.bind (exitAfterT_bd (hE st1)) ?_
        rintro ⟨ev, st2⟩ _
        exact rparenT_bd st2 _ _ (fun s => T.ret (.ok (ev, s))) (by intro s; simp [remOk, remS])
      unfold Bd at core ⊢
      simp only [T.call_steps, T.call_val, T.tick_steps, T.tick_val] at core ⊢
      generalize T.bind _ _ = Y at core ⊢
      have : remOk remS Y.val ≤ r.length := core.2
      omega
    · split
      · rename_i hcd
        have hb := (parseNumberOrSpecialT_bd tag ⟨p, c :: r, d, t⟩
          ⟨c, r, rfl, by simpa [Bool.or_eq_true] using hcd⟩).monoA (A' := 48) (by omega)
        unfold Bd at hb ⊢
        simp only [T.call_steps, T.call_val, T.tick_steps, T.tick_val, List.length_cons] at hb ⊢
        omega
      · split
        · have hb := parseIdentOrSpecialT_bd ET hE ⟨p, c :: r, d, t⟩
          unfold Bd at hb ⊢
          simp only [T.call_steps, T.call_val, T.tick_steps, T.tick_val, List.length_cons] at hb ⊢
          omega
        · unfold Bd
          simp only [T.call_steps, T.call_val, T.tick_steps, T.tick_val, T.ret_steps, T.ret_val, St.err, remOk]
          omega

theorem unaryT_bd (tag : Nat) (ET : St → T (Res (Eval × St)))
    (hE : ∀ st1, Bd 48 44 st1.rest.length remS (ET st1)) (st0 : St) :
    Bd 48 38 st0.rest.length remS (unaryT tag ET st0) := by
  have hs := skipWsT_steps st0
  have hs' := skipWsT_pos st0
  unfold unaryT
  simp only []
  generalize skipWsT st0 = sw at hs hs' ⊢
  obtain ⟨⟨p, r0, d, t⟩, n, fr⟩ := sw
  simp only [] at hs hs' ⊢
  have hl := signLoopS_steps p r0 ONE
  have hl' := signLoopS_pos p r0 ONE
  generalize signLoopS p r0 ONE = slx at hl hl' ⊢
  obtain ⟨⟨sp, sr, sv⟩, m⟩ := slx
  simp only [] at hl hl' ⊢
  have hp := primaryT_bd tag ET hE ⟨sp, sr, d, t⟩
  unfold Bd at hp ⊢
  simp only [T.call_steps, T.call_val, T.tick_steps, T.tick_val, T.bind_steps, T.bind_val] at hp ⊢
  cases hv : (primaryT tag ET ⟨sp, sr, d, t⟩).val with
  | ok a =>
    obtain ⟨⟨v, uu, sp'⟩, st'⟩ := a
    simp only [hv, remOk, remS] at hp
    simp only [Res.bind, T.ret_steps, T.ret_val, remOk, remS]
    omega
  | err e d' => simp only [hv, remOk] at hp; simp only [Res.bind, remOk]; omega
  | panic s => simp only [hv, remOk] at hp; simp only [Res.bind, remOk]; omega
  | fuel => simp only [hv, remOk] at hp; simp only [Res.bind, remOk]; omega

theorem termLoopT_bd (tag : Nat) (ET : St → T (Res (Eval × St)))
    (hE : ∀ st1, Bd 48 44 st1.rest.length remS (ET st1)) (k : Nat) (ev : Eval) (st0 : St) :
    Bd 48 2 st0.rest.length remS (termLoopT tag ET k ev st0) := by
  induction k generalizing ev st0 with
  | zero => exact Bd.ret_fail _ (by intro a h; cases h)
  | succ k ih =>
    obtain ⟨v, uu, sp⟩ := ev
    have hs := skipWsT_steps st0
    have hs' := skipWsT_pos st0
    unfold termLoopT
    simp only []
    generalize skipWsT st0 = sw at hs hs' ⊢
    obtain ⟨⟨p, r0, d, t⟩, n, fr⟩ := sw
    simp only [] at hs hs' ⊢
    have stop : Bd 48 2 st0.rest.length remS (T.tick (n + 1) (T.ret (.ok ((v, uu, sp), (⟨p, r0, d, t⟩ : St))))) := by
      unfold Bd
      simp only [T.tick_steps, T.tick_val, T.ret_steps, T.ret_val, remOk, remS]
      omega
    have step : ∀ (c : Nat) (r : List Nat) (op : Fl → Fl → Fl), r0 = c :: r →
        Bd 48 2 st0.rest.length remS (T.tick (n + 1)
          ((unaryT tag ET (St.adv ⟨p, r0, d, t⟩ c r)).bind fun x =>
            termLoopT tag ET k (op v x.1.1, uu || x.1.2.1, sp || x.1.2.2) x.2)) := by
      intro c r op hr
      subst hr
      simp only [List.length_cons] at hs
      have hb := Bd.bind (unaryT_bd tag ET hE (St.adv ⟨p, c :: r, d, t⟩ c r))
        (k := fun x => termLoopT tag ET k (op v x.1.1, uu || x.1.2.1, sp || x.1.2.2) x.2)
        (fun a _ => ih _ a.2)
      unfold Bd at hb ⊢
      simp only [T.tick_steps, T.tick_val, St.adv] at hb ⊢
      omega
    cases r0 with
    | nil => exact stop
    | cons c r =>
      simp only []
      split
      · exact step c r (mul F) rfl
      · split
        · exact step c r (div F) rfl
        · exact stop

theorem termT_bd (tag lf : Nat) (ET : St → T (Res (Eval × St)))
    (hE : ∀ st1, Bd 48 44 st1.rest.length remS (ET st1)) (st : St) :
    Bd 48 41 st.rest.length remS (termT tag lf ET st) := by
  unfold termT
  exact Bd.call (Bd.bind (unaryT_bd tag ET hE st) (fun a _ => termLoopT_bd tag ET hE lf a.1 a.2))

theorem exprLoopT_bd (tag lf : Nat) (ET : St → T (Res (Eval × St)))
    (hE : ∀ st1, Bd 48 44 st1.rest.length remS (ET st1)) (k : Nat) (ev : Eval) (st0 : St) :
    Bd 48 2 st0.rest.length remS (exprLoopT tag lf ET k ev st0) := by
  induction k generalizing ev st0 with
  | zero => exact Bd.ret_fail _ (by intro a h; cases h)
  | succ k ih =>
    obtain ⟨v, uu, sp⟩ := ev
    have hs := skipWsT_steps st0
    have hs' := skipWsT_pos st0
    unfold exprLoopT
    simp only []
    generalize skipWsT st0 = sw at hs hs' ⊢
    obtain ⟨⟨p, r0, d, t⟩, n, fr⟩ := sw
    simp only [] at hs hs' ⊢
    have stop : Bd 48 2 st0.rest.length remS (T.tick (n + 1) (T.ret (.ok ((v, uu, sp), (⟨p, r0, d, t⟩ : St))))) := by
      unfold Bd
      simp only [T.tick_steps, T.tick_val, T.ret_steps, T.ret_val, remOk, remS]
      omega
    have step : ∀ (c : Nat) (r : List Nat) (op : Fl → Fl → Fl), r0 = c :: r →
        Bd 48 2 st0.rest.length remS (T.tick (n + 1)
          ((termT tag lf ET (St.adv ⟨p, r0, d, t⟩ c r)).bind fun x =>
            exprLoopT tag lf ET k (op v x.1.1, uu || x.1.2.1, sp || x.1.2.2) x.2)) := by
      intro c r op hr
      subst hr
      simp only [List.length_cons] at hs
      have hb := Bd.bind (termT_bd tag lf ET hE (St.adv ⟨p, c :: r, d, t⟩ c r))
        (k := fun x => exprLoopT tag lf ET k (op v x.1.1, uu || x.1.2.1, sp || x.1.2.2) x.2)
        (fun a _ => ih _ a.2)
      unfold Bd at hb ⊢
      simp only [T.tick_steps, T.tick_val, St.adv] at hb ⊢
      omega
    cases r0 with
    | nil => exact stop
    | cons c r =>
      simp only []
      split
      · exact step c r (add F) rfl
      · split
        · exact step c r (sub F) rfl
        · exact stop

theorem exprT_bd (tag lf n : Nat) (st : St) : Bd 48 44 st.rest.length remS (exprT tag lf n st) := by
  induction n generalizing st with
  | zero => exact Bd.ret_fail _ (by intro a h; cases h)
  | succ n ih =>
    unfold exprT
    exact Bd.call (Bd.bind (termT_bd tag lf _ ih st) (fun a _ => exprLoopT_bd tag lf _ ih lf a.1 a.2))

/-- LINEAR WORK: the instrumented evaluator takes at most `48 · length + 48` steps, whatever the bytes. -/
theorem evalExprT_steps (tag : Nat) (s : List Nat) : (evalExprT tag s).steps ≤ 48 * s.length + 48 := by
  have hs := skipWsT_steps { pre := [], rest := s, depth := 0, sexTime := true }
  have hs' := skipWsT_pos { pre := [], rest := s, depth := 0, sexTime := true }
  unfold evalExprT
  simp only []
  generalize skipWsT { pre := [], rest := s, depth := 0, sexTime := true } = sw at hs hs' ⊢
  obtain ⟨st0, n, fr⟩ := sw
  simp only [] at hs hs' ⊢
  obtain ⟨he1, he2⟩ := exprT_bd tag (s.length + 1) (MAX_EXPR_DEPTH + 1) st0
  simp only [T.call_steps, T.tick_steps, T.bind_steps]
  cases hv : (exprT tag (s.length + 1) (MAX_EXPR_DEPTH + 1) st0).val with
  | ok a =>
    obtain ⟨⟨v, used, plain⟩, st1⟩ := a
    simp only [hv, remOk, remS] at he1 he2
    have h2 := skipWsT_steps st1
    simp only []
    generalize hX : (if (!(skipWsT st1).val.rest.isEmpty) = true then _ else _ : T (Res Fl)) = X
    have hX0 : X.steps = 0 := by
      rw [← hX]
      split
      · rfl
      · split
        · rfl
        · split <;> rfl
    omega
  | err e d => simp only [hv, remOk] at he1; simp only []; omega
  | panic p => simp only [hv, remOk] at he1; simp only []; omega
  | fuel => simp only [hv, remOk] at he1; simp only []; omega

/-! ## stack frames -/

/-- at most `N` frames below (and including) the call -/
def Fr {α} (N : Nat) (x : T α) : Prop := x.frames ≤ N

theorem Fr.ret {α} (N : Nat) (a : α) : Fr N (T.ret a) := Nat.zero_le _
theorem Fr.tick {α} {N n : Nat} {x : T α} (h : Fr N x) : Fr N (T.tick n x) := h
theorem Fr.call {α} {N : Nat} {x : T α} (h : Fr N x) : Fr (N + 1) (T.call x) := Nat.succ_le_succ h
theorem Fr.lift {α} {N d : Nat} {x : T (HRes α)} (h : Fr N x) : Fr N (T.lift d x) := h
theorem Fr.ofLoop {α} (N : Nat) (x : α × Nat) : Fr N (T.ofLoop x) := Nat.zero_le _
theorem Fr.mono {α} {N M : Nat} {x : T α} (h : Fr N x) (hm : N ≤ M) : Fr M x := Nat.le_trans h hm
theorem Fr.bind {α β} {N : Nat} {x : T (Res α)} {k : α → T (Res β)} (hx : Fr N x) (hk : ∀ a, Fr N (k a)) :
    Fr N (x.bind k) := by
  unfold Fr at *
  rw [T.bind_frames]
  cases x.val with
  | ok a => exact Nat.max_le.mpr ⟨hx, hk a⟩
  | err e d => exact Nat.max_le.mpr ⟨hx, Nat.zero_le _⟩
  | panic s => exact Nat.max_le.mpr ⟨hx, Nat.zero_le _⟩
  | fuel => exact Nat.max_le.mpr ⟨hx, Nat.zero_le _⟩

theorem readUintT_fr (pre rest : List Nat) : Fr 1 (readUintT pre rest) := Fr.call (Fr.ofLoop 0 _)
theorem readFracT_fr (pre rest : List Nat) : Fr 1 (readFracT pre rest) := Fr.call (Fr.ofLoop 0 _)
theorem readU32T_fr (pre rest : List Nat) : Fr 2 (readU32T pre rest) := by
  unfold readU32T
  exact Fr.call (readUintT_fr pre rest)

theorem trySexagesimalT_fr (tag : Nat) (st : St) : Fr 3 (trySexagesimalT tag st) := by
  unfold trySexagesimalT
  refine Fr.call (Fr.tick ?_)
  split
  · exact Fr.ret _ _
  split
  · exact Fr.ret _ _
  refine Fr.bind (Fr.lift ((readUintT_fr _ _).mono (by omega))) ?_
  rintro ⟨pre1, rest1, degWhole, d1⟩
  simp only []
  split
  · refine Fr.bind (Fr.lift (readU32T_fr _ _)) ?_
    rintro ⟨pre2, rest2, minsU, d2⟩
    simp only []
    split
    · exact Fr.ret _ _
    · refine Fr.bind ?_ ?_
      · split
        · refine Fr.bind (Fr.lift (readU32T_fr _ _)) ?_
          rintro ⟨pre3, rest3, secsU, d3⟩
          simp only []
          split
          · exact Fr.ret _ _
          · split
            · refine Fr.bind (Fr.lift ((readFracT_fr _ _).mono (by omega))) ?_
              rintro ⟨pre4, rest4, frac, df⟩
              exact Fr.ret _ _
            · exact Fr.ret _ _
        · exact Fr.ret _ _
      · rintro ⟨preE, restE, secs, total⟩
        simp only []
        split
        · exact Fr.ret _ _
        · split
          · split <;> exact Fr.ret _ _
          · split <;> exact Fr.ret _ _
  · exact Fr.ret _ _

theorem parseNumberOrSpecialT_fr (tag : Nat) (st : St) : Fr 4 (parseNumberOrSpecialT tag st) := by
  unfold parseNumberOrSpecialT
  refine Fr.call (Fr.tick ?_)
  split
  · refine Fr.bind (Fr.lift (Fr.ret _ _)) ?_
    rintro ⟨p, r⟩
    exact Fr.ret _ _
  refine Fr.tick ?_
  split
  · refine Fr.bind (Fr.lift (Fr.ret _ _)) ?_
    rintro ⟨p, r⟩
    exact Fr.ret _ _
  refine Fr.bind (trySexagesimalT_fr tag st) ?_
  intro sx
  split
  · exact Fr.ret _ _
  · refine Fr.bind (Fr.lift (Fr.ofLoop _ _)) ?_
    intro n1
    refine Fr.bind (Fr.lift (Fr.ofLoop _ _)) ?_
    intro n2
    refine Fr.bind (Fr.lift (Fr.ofLoop _ _)) ?_
    intro n3
    simp only []
    split
    · split
      · exact Fr.ret _ _
      · refine (Fr.call (N := 0) (Fr.tick ?_)).mono (by omega)
        split <;> exact Fr.ret _ _
    · refine (Fr.call (N := 0) (Fr.tick ?_)).mono (by omega)
      split <;> exact Fr.ret _ _

theorem exitAfterT_fr {α} {N : Nat} {x : T (Res (α × St))} (h : Fr N x) : Fr N (exitAfterT x) := h

theorem parseIdentOrSpecialT_fr (ET : St → T (Res (Eval × St))) (N : Nat) (hE : ∀ st1, Fr N (ET st1)) (st : St) :
    Fr (N + 1) (parseIdentOrSpecialT ET st) := by
  unfold parseIdentOrSpecialT
  refine Fr.call (Fr.tick ?_)
  simp only []
  split
  · exact Fr.ret _ _
  split
  · exact Fr.ret _ _
  split
  · exact Fr.ret _ _
  split
  · exact Fr.ret _ _
  split
  · exact Fr.ret _ _
  split
  · refine Fr.tick ?_
    split
    · refine Fr.bind (Fr.tick (Fr.ret _ _)) ?_
      intro st4
      refine Fr.bind (exitAfterT_fr (hE st4)) ?_
      rintro ⟨⟨v, u1, u2⟩, st5⟩
      refine Fr.tick ?_
      simp only []
      split
      · split <;> exact Fr.ret _ _
      · exact Fr.ret _ _
      · exact Fr.ret _ _
    · exact Fr.ret _ _
    · exact Fr.ret _ _
  · exact Fr.ret _ _

theorem primaryT_fr (tag : Nat) (ET : St → T (Res (Eval × St))) (N : Nat) (hE : ∀ st1, Fr N (ET st1)) (st0 : St) :
    Fr (max 5 (N + 2)) (primaryT tag ET st0) := by
  unfold primaryT
  have e : max 5 (N + 2) = max 4 (N + 1) + 1 := by omega
  rw [e]
  refine Fr.call (Fr.tick ?_)
  simp only []
  split
  · exact Fr.ret _ _
  · split
    · refine Fr.bind (Fr.tick (Fr.ret _ _)) ?_
      intro st1
      refine Fr.bind (exitAfterT_fr ((hE st1).mono (by omega))) ?_
      rintro ⟨ev, st2⟩
      refine Fr.tick ?_
      simp only []
      split <;> exact Fr.ret _ _
    · split
      · exact (parseNumberOrSpecialT_fr tag _).mono (by omega)
      · split
        · exact (parseIdentOrSpecialT_fr ET N hE _).mono (by omega)
        · exact Fr.ret _ _

theorem unaryT_fr (tag : Nat) (ET : St → T (Res (Eval × St))) (N : Nat) (hE : ∀ st1, Fr N (ET st1)) (st0 : St) :
    Fr (max 5 (N + 2) + 1) (unaryT tag ET st0) := by
  unfold unaryT
  refine Fr.call (Fr.tick ?_)
  refine Fr.bind (primaryT_fr tag ET N hE _) ?_
  rintro ⟨⟨v, uu, sp⟩, st'⟩
  exact Fr.ret _ _

theorem termLoopT_fr (tag : Nat) (ET : St → T (Res (Eval × St))) (N : Nat) (hE : ∀ st1, Fr N (ET st1))
    (k : Nat) (ev : Eval) (st0 : St) : Fr (max 5 (N + 2) + 1) (termLoopT tag ET k ev st0) := by
  induction k generalizing ev st0 with
  | zero => exact Fr.ret _ _
  | succ k ih =>
    obtain ⟨v, uu, sp⟩ := ev
    unfold termLoopT
    refine Fr.tick ?_
    simp only []
    split
    · exact Fr.ret _ _
    · split
      · refine Fr.bind (unaryT_fr tag ET N hE _) ?_
        rintro ⟨⟨rhs, u2, s2⟩, st'⟩
        exact ih _ _
      · split
        · refine Fr.bind (unaryT_fr tag ET N hE _) ?_
          rintro ⟨⟨rhs, u2, s2⟩, st'⟩
          exact ih _ _
        · exact Fr.ret _ _

theorem termT_fr (tag lf : Nat) (ET : St → T (Res (Eval × St))) (N : Nat) (hE : ∀ st1, Fr N (ET st1)) (st : St) :
    Fr (max 5 (N + 2) + 2) (termT tag lf ET st) := by
  unfold termT
  refine Fr.call (Fr.bind (unaryT_fr tag ET N hE st) ?_)
  rintro ⟨ev, st'⟩
  exact termLoopT_fr tag ET N hE _ _ _

theorem exprLoopT_fr (tag lf : Nat) (ET : St → T (Res (Eval × St))) (N : Nat) (hE : ∀ st1, Fr N (ET st1))
    (k : Nat) (ev : Eval) (st0 : St) : Fr (max 5 (N + 2) + 2) (exprLoopT tag lf ET k ev st0) := by
  induction k generalizing ev st0 with
  | zero => exact Fr.ret _ _
  | succ k ih =>
    obtain ⟨v, uu, sp⟩ := ev
    unfold exprLoopT
    refine Fr.tick ?_
    simp only []
    split
    · exact Fr.ret _ _
    · split
      · refine Fr.bind (termT_fr tag lf ET N hE _) ?_
        rintro ⟨⟨rhs, u2, s2⟩, st'⟩
        exact ih _ _
      · split
        · refine Fr.bind (termT_fr tag lf ET N hE _) ?_
          rintro ⟨⟨rhs, u2, s2⟩, st'⟩
          exact ih _ _
        · exact Fr.ret _ _

/-- `n` nested activations of `expr`: five frames each (`expr`, `term`, `unary`, `primary`,
`parse_ident_or_special`), plus three for the deepest leaf (`parse_number_or_special`,
`try_parse_sexagesimal`, `read_uint_unders_to_u32` → `…_f64`) -/
theorem exprT_fr (tag lf n : Nat) (st : St) : Fr (5 * n + 3) (exprT tag lf n st) := by
  induction n generalizing st with
  | zero => exact Fr.ret _ _
  | succ n ih =>
    unfold exprT
    have e : 5 * (n + 1) + 3 = (max 5 (5 * n + 3 + 2) + 2) + 1 := by omega
    rw [e]
    refine Fr.call (Fr.bind (termT_fr tag lf _ (5 * n + 3) ih st) ?_)
    rintro ⟨ev, st'⟩
    exact exprLoopT_fr tag lf _ (5 * n + 3) ih _ _ _

/-- BOUNDED RECURSION: the call tree of the instrumented evaluator is at most
`5 · (MAX_EXPR_DEPTH + 1) + 4` frames deep, whatever the bytes. -/
theorem evalExprT_frames (tag : Nat) (s : List Nat) : (evalExprT tag s).frames ≤ 5 * (MAX_EXPR_DEPTH + 1) + 4 := by
  unfold evalExprT
  refine Fr.call (Fr.tick (Fr.bind (exprT_fr tag _ _ _) ?_))
  rintro ⟨⟨v, used, plain⟩, st1⟩
  refine Fr.tick ?_
  split
  · exact Fr.ret _ _
  · split
    · exact Fr.ret _ _
    · split <;> exact Fr.ret _ _

end SaphyrVerif.Lemmas.C19S
