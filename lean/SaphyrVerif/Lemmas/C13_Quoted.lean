import SaphyrVerif.Lemmas.C13_Read
/-!
C13 proof machinery, part 3d: QUOTED tokens.  A single-quoted / double-quoted scalar whose body the
reference reader decodes (`readSq` / `readDq`) to a string `s` is a scalar token for `.str s` and —
followed by `:` — a key token for `s`; the text `write_single_quoted` writes is decoded to the string it
was written for.
-/
set_option linter.unusedSimpArgs false
set_option linter.unusedVariables false
namespace SaphyrVerif.Emit
open SaphyrVerif

/-! ### the reader on quoted scalars -/

/-- what the reader needs to know about the body (text after the opening quote, closing quote
included) of a quoted scalar for `s`: it decodes to `s` whatever follows the closing quote (other than a
second quote character), and lies on one line -/
structure QuotedBody (q : Char) (rd : List Char → Option (List Char × List Char)) (body s : List Char) : Prop where
  read : ∀ rest, rest.head? ≠ some q → rd (body ++ rest) = some (s, rest)
  chars : ∀ x ∈ body, lineChar x = true

theorem notSkippable_quote {i : Nat} {q : Char} {cs : List Char} (hq : q = '"' ∨ q = '\'') :
    (⟨i, q :: cs⟩ : Line).isSkippable = false := by
  rcases hq with rfl | rfl <;> exact notSkippable_of_head (by decide)

theorem classify_quote {q : Char} (cs : List Char) (hq : q = '"' ∨ q = '\'') : classify (q :: cs) = .other := by
  rcases hq with rfl | rfl <;> simp [classify]

theorem skipTag_quote {q : Char} (cs : List Char) (hq : q = '"' ∨ q = '\'') : skipTag (q :: cs) = q :: cs := by
  rcases hq with rfl | rfl <;> simp [skipTag]

/-- a double-quoted scalar alone on its line -/
theorem blockNode_dq (fuel n : Nat) (seqAt : Option Nat) (inl : Bool) (i : Nat) {body s : List Char} (rest : List Line)
    (hb : readDq body = some (s, [])) (hi : n ≤ i) :
    blockNode (fuel + 1) n seqAt inl (⟨i, '"' :: body⟩ :: rest) = some (.str s, rest) := by
  have hlt : ¬ (i < n) := by omega
  rw [blockNode, skipBlank_cons rest (notSkippable_quote (Or.inl rfl))]
  simp only [classify_quote body (Or.inl rfl), hlt, decide_false, Bool.false_and, Bool.false_eq_true, if_false,
    skipTag_quote body (Or.inl rfl)]
  simp [implicitKey, skipTag, hb]

/-- a single-quoted scalar alone on its line -/
theorem blockNode_sq (fuel n : Nat) (seqAt : Option Nat) (inl : Bool) (i : Nat) {body s : List Char} (rest : List Line)
    (hb : readSq body = some (s, [])) (hi : n ≤ i) :
    blockNode (fuel + 1) n seqAt inl (⟨i, '\'' :: body⟩ :: rest) = some (.str s, rest) := by
  have hlt : ¬ (i < n) := by omega
  rw [blockNode, skipBlank_cons rest (notSkippable_quote (Or.inr rfl))]
  simp only [classify_quote body (Or.inr rfl), hlt, decide_false, Bool.false_and, Bool.false_eq_true, if_false,
    skipTag_quote body (Or.inr rfl)]
  simp [implicitKey, skipTag, hb]

theorem lineChar_quote {q : Char} (hq : q = '"' ∨ q = '\'') : lineChar q = true := by
  rcases hq with rfl | rfl <;> decide

theorem quoted_scalarTok_dq {body s : List Char} (h : QuotedBody '"' readDq body s) : ScalarTok ('"' :: body) (.str s) := by
  refine ⟨fun fuel n seqAt inl i rest hi _ => blockNode_dq fuel n seqAt inl i rest (by simpa using h.read [] (by simp)) hi,
    by simp, by simp, ?_, notMarker_head rfl (Or.inl (by decide)) (by decide) 0⟩
  intro x hx
  simp only [List.mem_cons] at hx
  rcases hx with rfl | hx
  · decide
  · exact h.chars x hx

theorem quoted_scalarTok_sq {body s : List Char} (h : QuotedBody '\'' readSq body s) : ScalarTok ('\'' :: body) (.str s) := by
  refine ⟨fun fuel n seqAt inl i rest hi _ => blockNode_sq fuel n seqAt inl i rest (by simpa using h.read [] (by simp)) hi,
    by simp, by simp, ?_, notMarker_head rfl (Or.inl (by decide)) (by decide) 0⟩
  intro x hx
  simp only [List.mem_cons] at hx
  rcases hx with rfl | hx
  · decide
  · exact h.chars x hx

theorem quoted_keyTok_dq {body s : List Char} (h : QuotedBody '"' readDq body s) : KeyTok ('"' :: body) s := by
  refine ⟨?_, fun after => by simp [classify], ⟨'"', body, rfl, by decide⟩, ?_,
    fun after => notMarker_head (t := ('"' :: body) ++ ':' :: after) rfl (Or.inl (by decide)) (by decide) 0,
    quoted_scalarTok_dq h⟩
  · intro after ha
    have := h.read (':' :: after) (by simp)
    simp [implicitKey, skipTag, this, ha]
  · intro x hx
    simp only [List.mem_cons] at hx
    rcases hx with rfl | hx
    · decide
    · exact h.chars x hx

theorem quoted_keyTok_sq {body s : List Char} (h : QuotedBody '\'' readSq body s) : KeyTok ('\'' :: body) s := by
  refine ⟨?_, fun after => by simp [classify], ⟨'\'', body, rfl, by decide⟩, ?_,
    fun after => notMarker_head (t := ('\'' :: body) ++ ':' :: after) rfl (Or.inl (by decide)) (by decide) 0,
    quoted_scalarTok_sq h⟩
  · intro after ha
    have := h.read (':' :: after) (by simp)
    simp [implicitKey, skipTag, this, ha]
  · intro x hx
    simp only [List.mem_cons] at hx
    rcases hx with rfl | hx
    · decide
    · exact h.chars x hx

/-! ### `write_single_quoted` -/

/-- no control character, `'` or `\` (= `!needs_double_quotes`) in particular means no line break and no NUL -/
theorem not_control_lineChar {c : Char} (h : isControl c = false) : lineChar c = true := by
  have h1 : c ≠ '\n' := by rintro rfl; exact absurd h (by decide)
  have h2 : c ≠ '\r' := by rintro rfl; exact absurd h (by decide)
  have h3 : c ≠ Char.ofNat 0 := by rintro rfl; exact absurd h (by decide)
  simp [lineChar, h1, h2, h3]

theorem readSq_cons {c : Char} (hc : c ≠ '\'') (rest : List Char) :
    readSq (c :: rest) = (readSq rest).map fun (t, r) => (c :: t, r) := by
  rw [readSq]
  · intro x h _; exact hc h
  · intro h; exact hc h

theorem readSq_close (rest : List Char) (hr : rest.head? ≠ some '\'') : readSq ('\'' :: rest) = some ([], rest) := by
  cases rest with
  | nil => rfl
  | cons c cs =>
    have hc : c ≠ '\'' := by intro e; exact hr (by simp [e])
    rw [readSq]
    intro x h
    simp only [List.cons.injEq, true_and] at h
    exact hc h.1

/-- the body `write_single_quoted` writes (doubled quotes, closing quote) decodes to the string -/
theorem readSq_body : ∀ (s rest : List Char), rest.head? ≠ some '\'' →
    readSq ((s.flatMap fun c => if c == '\'' then ['\'', '\''] else [c]) ++ '\'' :: rest) = some (s, rest)
  | [], rest, hr => by simpa using readSq_close rest hr
  | c :: cs, rest, hr => by
    have ih := readSq_body cs rest hr
    by_cases hc : c = '\''
    · subst hc
      simp only [List.flatMap_cons, beq_self_eq_true, if_true, List.cons_append, List.nil_append]
      rw [readSq, ih]; rfl
    · have hcb : (c == '\'') = false := by simpa using hc
      simp only [List.flatMap_cons, hcb, Bool.false_eq_true, if_false, List.cons_append, List.nil_append]
      rw [readSq_cons hc, ih]; rfl

/-- `write_single_quoted(s)` for a string without control characters (the writer's guard
`!needs_double_quotes(s)` also excludes `'` and `\`) -/
theorem singleQuoted_body {s : List Char} (h : ∀ c ∈ s, isControl c = false) :
    QuotedBody '\'' readSq ((s.flatMap fun c => if c == '\'' then ['\'', '\''] else [c]) ++ ['\'']) s := by
  refine ⟨fun rest hr => by simpa using readSq_body s rest hr, ?_⟩
  intro x hx
  simp only [List.mem_append, List.mem_flatMap, List.mem_cons, List.not_mem_nil, or_false] at hx
  rcases hx with ⟨c, hc, hx⟩ | rfl
  · by_cases hq : c = '\''
    · subst hq; simp at hx; subst hx; decide
    · simp [hq] at hx; subst hx; exact not_control_lineChar (h x hc)
  · decide

theorem needsDoubleQuotes_false {s : List Char} (h : needsDoubleQuotes s = false) : ∀ c ∈ s, isControl c = false := by
  intro c hc
  have := List.any_eq_false.mp h c hc
  simp only [Bool.or_eq_true, not_or, Bool.not_eq_true] at this
  simpa using this.2

theorem singleQuoted_scalarTok {s : List Char} (h : needsDoubleQuotes s = false) : ScalarTok (singleQuoted s) (.str s) :=
  quoted_scalarTok_sq (singleQuoted_body (needsDoubleQuotes_false h))

theorem singleQuoted_keyTok {s : List Char} (h : needsDoubleQuotes s = false) : KeyTok (singleQuoted s) s :=
  quoted_keyTok_sq (singleQuoted_body (needsDoubleQuotes_false h))

end SaphyrVerif.Emit
