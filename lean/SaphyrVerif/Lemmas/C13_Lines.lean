import SaphyrVerif.Lemmas.C13_Read
/-!
C13 proof machinery, part 3c: the text of a layout splits back into its lines (`toLines ∘ renderLines`),
no structure line of the fragment (`GoodLine`) is a document marker, a directive, a comment or blank, the body
lines of block scalars (`BodyLine`) are indented; the `%YAML 1.2` / `---` prologue in front of the lines
(`readDoc_of_lines_pro`).
-/
set_option linter.unusedSimpArgs false
set_option linter.unusedVariables false
namespace SaphyrVerif.Emit
open SaphyrVerif

/-- characters that occur in the layout of the SAFE fragment (kept for the flow fragment of C20) -/
def layChar (c : Char) : Bool :=
  isTokChar c || c == ' ' || c == ':' || c == '[' || c == ']' || c == '{' || c == '}' || c == ',' || c == '?'

/-- a line of a layout: its text is not empty, does not start with a blank, `#` or `%`, is no document
marker and holds no line break / NUL -/
structure GoodLine (l : Line) : Prop where
  ne : l.text ≠ []
  head : l.text.head? ≠ some ' ' ∧ l.text.head? ≠ some '#' ∧ l.text.head? ≠ some '%'
  chars : ∀ x ∈ l.text, lineChar x = true
  noMarker : isDocMarker ⟨0, l.text⟩ "---".toList = false ∧ isDocMarker ⟨0, l.text⟩ "...".toList = false

theorem layChar_lineChar {c : Char} (h : layChar c = true) : lineChar c = true := by
  have h1 : c ≠ '\n' := by rintro rfl; exact absurd h (by decide)
  have h2 : c ≠ '\r' := by rintro rfl; exact absurd h (by decide)
  have h3 : c ≠ Char.ofNat 0 := by rintro rfl; exact absurd h (by decide)
  simp [lineChar, h1, h2, h3]

theorem tok_layChar {c : Char} (h : isTokChar c = true) : layChar c = true := by simp [layChar, h]

theorem lineChar_ne {c : Char} (h : lineChar c = true) : c ≠ '\n' ∧ c ≠ '\r' ∧ c ≠ Char.ofNat 0 := by
  simpa [lineChar, and_assoc] using h

/-! ### all characters of the layout are line characters, all lines are good -/

def AllLay (h : List Char) : Prop := ∀ x ∈ h, lineChar x = true

/-- a line of a layout: a structure line (`GoodLine`) or a body line of a block scalar -/
def LayLine (l : Line) : Prop := GoodLine l ∨ BodyLine l

/-- every line satisfies `Q` (`Q` = `GoodLine`: layouts without block scalars; `Q` = `LayLine`: all layouts) -/
def AllQ (Q : Line → Prop) (ls : List Line) : Prop := ∀ l ∈ ls, Q l
/-- every line is a structure line or a body line of a block scalar -/
abbrev AllGood (ls : List Line) : Prop := AllQ LayLine ls

theorem AllLay.append {a b : List Char} (ha : AllLay a) (hb : AllLay b) : AllLay (a ++ b) := by
  intro x hx; rcases List.mem_append.mp hx with h | h
  · exact ha x h
  · exact hb x h
theorem AllQ.append {Q : Line → Prop} {a b : List Line} (ha : AllQ Q a) (hb : AllQ Q b) : AllQ Q (a ++ b) := by
  intro x hx; rcases List.mem_append.mp hx with h | h
  · exact ha x h
  · exact hb x h
theorem AllQ.cons {Q : Line → Prop} {l : Line} {ls : List Line} (hl : Q l) (hs : AllQ Q ls) : AllQ Q (l :: ls) := by
  intro x hx; rcases List.mem_cons.mp hx with rfl | h
  · exact hl
  · exact hs x h
theorem allQ_nil {Q : Line → Prop} : AllQ Q [] := fun _ h => absurd h (by simp)
theorem AllQ.mono {Q Q' : Line → Prop} (h : ∀ l, Q l → Q' l) {ls : List Line} (hs : AllQ Q ls) : AllQ Q' ls :=
  fun l hl => h l (hs l hl)
theorem AllGood.append {a b : List Line} (ha : AllGood a) (hb : AllGood b) : AllGood (a ++ b) := AllQ.append ha hb
theorem AllGood.cons {l : Line} {ls : List Line} (hl : GoodLine l) (hs : AllGood ls) : AllGood (l :: ls) :=
  AllQ.cons (Or.inl hl) hs
theorem allGood_nil : AllGood [] := allQ_nil
/-- body lines of a block scalar -/
theorem AllGood.ofBody {ls : List Line} (h : ∀ l ∈ ls, BodyLine l) : AllGood ls := fun l hl => Or.inr (h l hl)

/-- the lines after the string leaves / unit variants of a class satisfy `Q` -/
def BodyQ (Q : Line → Prop) (P : LeafPred) (T : Toks) (k : Nat) : Prop :=
  (∀ pos s, P.str s = true → AllQ Q (T.strAt k pos s).2) ∧ (∀ pos e n, P.unit e n = true → AllQ Q (T.unitAt k pos e n).2)

/-- tokens have no lines after them -/
theorem BodyQ.ofTok {Q : Line → Prop} {P : LeafPred} {T : Toks} (ht : T.IsTok) (k : Nat) : BodyQ Q P T k :=
  ⟨fun pos s _ => by rw [ht.1]; exact allQ_nil, fun pos e n _ => by rw [ht.2]; exact allQ_nil⟩
theorem allLay_nil : AllLay [] := fun _ h => absurd h (by simp)
theorem allLay_safe {s : List Char} (h : isSafeStr s = true) : AllLay s :=
  fun x hx => tok_lineChar (alnum_tok (safe_chars h x hx))
theorem allLay_tok {t : List Char} (h : PlainTok t) : AllLay t := fun x hx => tok_lineChar (h.chars x hx)
theorem allLay_lit (t : List Char) (h : t.all lineChar = true) : AllLay t := fun x hx => List.all_eq_true.mp h x hx
theorem allLay_scalar {t : List Char} {p : PVal} (h : ScalarTok t p) : AllLay t := h.chars
theorem allLay_key {K k : List Char} (h : KeyTok K k) : AllLay K := h.chars

/-- a line that starts with an indicator and a blank (`- `, `? `, `: `) -/
theorem indLine_good {i : Nat} (c : Char) {h : List Char} (hc : c = '-' ∨ c = '?' ∨ c = ':') (hl : AllLay h) :
    GoodLine ⟨i, c :: ' ' :: h⟩ := by
  have hcl : lineChar c = true := by rcases hc with rfl | rfl | rfl <;> decide
  refine ⟨by simp, ?_, ?_, ?_⟩
  · simp only [List.head?_cons, ne_eq, Option.some.injEq]
    rcases hc with rfl | rfl | rfl <;> decide
  · intro x hx
    simp only [List.mem_cons] at hx
    rcases hx with rfl | rfl | hx
    · exact hcl
    · decide
    · exact hl x hx
  · refine notMarker_head (c := c) (cs := ' ' :: h) rfl ?_ ?_ 0
    · exact Or.inr ⟨' ', h, rfl, by decide⟩
    · rcases hc with rfl | rfl | rfl <;> decide

theorem dashLine_good {i : Nat} {h : List Char} (hh : ItemHead h) (hl : AllLay h) : GoodLine ⟨i, '-' :: ' ' :: h⟩ :=
  indLine_good '-' (Or.inl rfl) hl

theorem keyLine_good {i : Nat} {K k h : List Char} (hk : KeyTok K k) (hl : AllLay h) : GoodLine ⟨i, K ++ ':' :: h⟩ := by
  obtain ⟨c, cs, e, hc⟩ := hk.start
  refine ⟨by simp, ?_, ?_, hk.noMarker h⟩
  · subst e
    simp only [List.cons_append, List.head?_cons, ne_eq, Option.some.injEq]
    exact ⟨keyStart_ne hc ' ' (by decide), keyStart_ne hc '#' (by decide), keyStart_ne hc '%' (by decide)⟩
  · exact (allLay_key hk).append (fun x hx => by
      simp only [List.mem_cons] at hx
      rcases hx with rfl | hx
      · decide
      · exact hl x hx)

theorem questionLine_good {i : Nat} {h : List Char} (hl : AllLay h) : GoodLine ⟨i, '?' :: ' ' :: h⟩ :=
  indLine_good '?' (Or.inr (Or.inl rfl)) hl

theorem colonLine_good {i : Nat} {h : List Char} (hl : AllLay h) : GoodLine ⟨i, ':' :: ' ' :: h⟩ :=
  indLine_good ':' (Or.inr (Or.inr rfl)) hl

/-- a line whose first character is a flow bracket -/
theorem bracketLine_good {i : Nat} {t : List Char} (hs : ∃ cs, t = '[' :: cs ∨ t = '{' :: cs) (hl : AllLay t) : GoodLine ⟨i, t⟩ := by
  obtain ⟨cs, h | h⟩ := hs <;> subst h
  · exact ⟨by simp, by simp, hl, notMarker_head rfl (Or.inl (by decide)) (by decide) 0⟩
  · exact ⟨by simp, by simp, hl, notMarker_head rfl (Or.inl (by decide)) (by decide) 0⟩

theorem emptySeqLine_good (i : Nat) : GoodLine ⟨i, "[]".toList⟩ :=
  bracketLine_good ⟨_, Or.inl rfl⟩ (allLay_lit "[]".toList (by decide))
theorem emptyMapLine_good (i : Nat) : GoodLine ⟨i, "{}".toList⟩ :=
  bracketLine_good ⟨_, Or.inr rfl⟩ (allLay_lit "{}".toList (by decide))

/-- a scalar token alone on a line -/
theorem scalarLine_good {i : Nat} {t : List Char} {p : PVal} (h : ScalarTok t p) : GoodLine ⟨i, t⟩ :=
  ⟨h.ne, h.head, h.chars, h.noMarker⟩

theorem seqValOf_good {Q : Line → Prop} (e : Bool) {items : List Line} (h : AllQ Q items) :
    AllLay (seqValOf e items).1 ∧ AllQ Q (seqValOf e items).2.1 := by
  cases e <;> simp only [seqValOf, if_true, if_false, Bool.false_eq_true]
  · exact ⟨allLay_nil, h⟩
  · exact ⟨allLay_lit _ (by decide), allQ_nil⟩

theorem mapValOf_good {Q : Line → Prop} (hQ : ∀ l, GoodLine l → Q l) (m : Nat) (lvb e : Bool) {entries : List Line} (h : AllQ Q entries) :
    AllLay (mapValOf m lvb e entries).1 ∧ AllQ Q (mapValOf m lvb e entries).2.1 := by
  cases e <;> cases lvb <;> simp only [mapValOf, if_true, if_false, Bool.false_eq_true]
  · exact ⟨allLay_nil, h⟩
  · exact ⟨allLay_nil, h⟩
  · exact ⟨allLay_lit _ (by decide), allQ_nil⟩
  · exact ⟨allLay_nil, AllQ.cons (hQ _ (emptyMapLine_good _)) allQ_nil⟩

theorem variantVal_good {Q : Line → Prop} (hQ : ∀ l, GoodLine l → Q l) (m : Nat) {N n : List Char} (hn : KeyTok N n) {r ri : List Char × List Line × Bool}
    (hr : AllLay r.1 ∧ AllQ Q r.2.1) (hri : AllLay ri.1 ∧ AllQ Q ri.2.1) :
    AllLay (variantVal m N r ri).1 ∧ AllQ Q (variantVal m N r ri).2.1 := by
  cases hfit : fitsImplicit N
  · simp only [variantVal, hfit, Bool.false_eq_true, if_false, List.cons_append, List.nil_append]
    exact ⟨allLay_nil, AllQ.cons (hQ _ (questionLine_good (allLay_key hn))) (AllQ.cons (hQ _ (colonLine_good hri.1)) hri.2)⟩
  · simp only [variantVal, hfit, if_true, List.append_assoc, List.singleton_append]
    exact ⟨allLay_nil, AllQ.cons (hQ _ (keyLine_good hn hr.1)) hr.2⟩

theorem variantItem_good {Q : Line → Prop} (hQ : ∀ l, GoodLine l → Q l) (c : Nat) {N n : List Char} (hn : KeyTok N n) {r ri : List Char × List Line × Bool}
    (hr : AllLay r.1 ∧ AllQ Q r.2.1) (hri : AllLay ri.1 ∧ AllQ Q ri.2.1) :
    AllLay (variantItem c N r ri).1 ∧ AllQ Q (variantItem c N r ri).2.1 := by
  cases hfit : fitsImplicit N
  · simp only [variantItem, hfit, Bool.false_eq_true, if_false, List.cons_append, List.nil_append]
    exact ⟨(allLay_lit ['?', ' '] (by decide)).append (allLay_key hn), AllQ.cons (hQ _ (colonLine_good hri.1)) hri.2⟩
  · simp only [variantItem, hfit, if_true]
    exact ⟨((allLay_key hn).append (allLay_lit [':'] (by decide))).append hr.1, hr.2⟩

theorem variantRoot_good {Q : Line → Prop} (hQ : ∀ l, GoodLine l → Q l) {N n : List Char} (hn : KeyTok N n) {r ri : List Char × List Line × Bool}
    (hr : AllLay r.1 ∧ AllQ Q r.2.1) (hri : AllLay ri.1 ∧ AllQ Q ri.2.1) : AllQ Q (variantRoot N r ri) := by
  cases hfit : fitsImplicit N
  · simp only [variantRoot, hfit, Bool.false_eq_true, if_false, List.cons_append, List.nil_append]
    exact AllQ.cons (hQ _ (questionLine_good (allLay_key hn))) (AllQ.cons (hQ _ (colonLine_good hri.1)) hri.2)
  · simp only [variantRoot, hfit, if_true, List.append_assoc, List.singleton_append]
    exact AllQ.cons (hQ _ (keyLine_good hn hr.1)) hr.2

theorem allLay_sp {t : List Char} (h : AllLay t) : AllLay (' ' :: t) :=
  AllLay.append (a := [' ']) (allLay_lit _ (by decide)) h

mutual
theorem lay_val_good {P : LeafPred} {T : Toks} {k : Nat} {Q : Line → Prop} (hQ : ∀ l, GoodLine l → Q l) (hr : ReadContract P T k)
    (hb : BodyQ Q P T k) (cp im : Bool) : ∀ (v : SVal), inFragP P v = true → ∀ (m : Nat) (lvb : Bool),
    AllLay (layVal T k cp im m lvb v).1 ∧ AllQ Q (layVal T k cp im m lvb v).2.1
  | .unit, _, m, lvb => by simp only [layVal]; exact ⟨allLay_lit _ (by decide), allQ_nil⟩
  | .none, _, m, lvb => by simp only [layVal]; exact ⟨allLay_lit _ (by decide), allQ_nil⟩
  | .bool b, _, m, lvb => by cases b <;> simp only [layVal] <;> exact ⟨allLay_lit _ (by decide), allQ_nil⟩
  | .int i, _, m, lvb => by
    simp only [layVal]
    exact ⟨AllLay.append (a := [' ']) (allLay_lit _ (by decide)) (allLay_tok (intText_plainTok i)), allQ_nil⟩
  | .str t, hv, m, lvb => by
    simp only [inFragP] at hv
    simp only [layVal]
    exact ⟨allLay_sp (hr.str (.val m) t hv).chars, hb.1 (.val m) t hv⟩
  | .unitVariant e n, hv, m, lvb => by
    simp only [inFragP] at hv
    simp only [layVal]
    exact ⟨allLay_sp (hr.unit (.val m) e n hv).chars, hb.2 (.val m) e n hv⟩
  | .some v, hv, m, lvb => by simp only [inFragP] at hv; simpa [layVal] using lay_val_good hQ hr hb cp im v hv m lvb
  | .newtypeStruct v, hv, m, lvb => by simp only [inFragP] at hv; simpa [layVal] using lay_val_good hQ hr hb cp im v hv m lvb
  | .newtypeVariant n v, hv, m, lvb => by
    simp only [inFragP, Bool.and_eq_true] at hv
    simp only [layVal]
    exact variantVal_good hQ _ (hr.name n hv.1) (lay_val_good hQ hr hb cp true v hv.2 _ lvb) (lay_item_good hQ hr hb cp v hv.2 _ lvb)
  | .tupleVariant n xs, hv, m, lvb => by
    simp only [inFragP, Bool.and_eq_true] at hv
    simp only [layVal]
    exact variantVal_good hQ _ (hr.name n hv.1) (seqValOf_good _ (lay_items_good hQ hr hb cp xs hv.2 _ false))
      (lay_seqItem_good hQ hr hb cp xs hv.2 _ lvb)
  | .structVariant n fs, hv, m, lvb => by
    simp only [inFragP, Bool.and_eq_true] at hv
    simp only [layVal]
    exact variantVal_good hQ _ (hr.name n hv.1) (mapValOf_good hQ _ _ _ (lay_entries_good hQ hr hb cp fs hv.2.1 _ false))
      (lay_mapItem_good hQ hr hb cp fs hv.2.1 _ lvb)
  | .seq xs, hv, m, lvb => by
    simp only [inFragP] at hv
    simp only [layVal]
    exact seqValOf_good _ (lay_items_good hQ hr hb cp xs hv _ false)
  | .tuple xs, hv, m, lvb => by
    simp only [inFragP] at hv
    simp only [layVal]
    exact seqValOf_good _ (lay_items_good hQ hr hb cp xs hv _ false)
  | .tupleStruct xs, hv, m, lvb => by
    simp only [inFragP] at hv
    simp only [layVal]
    exact seqValOf_good _ (lay_items_good hQ hr hb cp xs hv _ false)
  | .map known es, hv, m, lvb => by
    simp only [inFragP, Bool.and_eq_true] at hv
    simp only [layVal]
    exact mapValOf_good hQ _ _ _ (lay_entries_good hQ hr hb cp es hv.1 _ false)
  | .flowSeq _, hv, _, _ => by simp [inFragP] at hv
  | .flowMap _, hv, _, _ => by simp [inFragP] at hv
  | .commented _ _, hv, _, _ => by simp [inFragP] at hv
  | .spaceAfter _, hv, _, _ => by simp [inFragP] at hv
  | .litStr _, hv, _, _ => by simp [inFragP] at hv
  | .foldStr _, hv, _, _ => by simp [inFragP] at hv
theorem lay_item_good {P : LeafPred} {T : Toks} {k : Nat} {Q : Line → Prop} (hQ : ∀ l, GoodLine l → Q l) (hr : ReadContract P T k)
    (hb : BodyQ Q P T k) (cp : Bool) : ∀ (v : SVal), inFragP P v = true → ∀ (d : Nat) (lvb : Bool),
    AllLay (layItem T k cp d lvb v).1 ∧ AllQ Q (layItem T k cp d lvb v).2.1
  | .unit, _, d, lvb => by simp only [layItem]; exact ⟨allLay_lit _ (by decide), allQ_nil⟩
  | .none, _, d, lvb => by simp only [layItem]; exact ⟨allLay_lit _ (by decide), allQ_nil⟩
  | .bool b, _, d, lvb => by cases b <;> simp only [layItem] <;> exact ⟨allLay_lit _ (by decide), allQ_nil⟩
  | .int i, _, d, lvb => by simp only [layItem]; exact ⟨allLay_tok (intText_plainTok i), allQ_nil⟩
  | .str t, hv, d, lvb => by
    simp only [inFragP] at hv
    simp only [layItem]; exact ⟨(hr.str (.item d) t hv).chars, hb.1 (.item d) t hv⟩
  | .unitVariant e n, hv, d, lvb => by
    simp only [inFragP] at hv
    simp only [layItem]; exact ⟨(hr.unit (.item d) e n hv).chars, hb.2 (.item d) e n hv⟩
  | .some v, hv, d, lvb => by simp only [inFragP] at hv; simpa [layItem] using lay_item_good hQ hr hb cp v hv d lvb
  | .newtypeStruct v, hv, d, lvb => by simp only [inFragP] at hv; simpa [layItem] using lay_item_good hQ hr hb cp v hv d lvb
  | .newtypeVariant n v, hv, d, lvb => by
    simp only [inFragP, Bool.and_eq_true] at hv
    simp only [layItem]
    exact variantItem_good hQ _ (hr.name n hv.1) (lay_val_good hQ hr hb cp true v hv.2 _ lvb) (lay_item_good hQ hr hb cp v hv.2 _ lvb)
  | .tupleVariant n xs, hv, d, lvb => by
    simp only [inFragP, Bool.and_eq_true] at hv
    simp only [layItem]
    exact variantItem_good hQ _ (hr.name n hv.1) (seqValOf_good _ (lay_items_good hQ hr hb cp xs hv.2 _ false))
      (lay_seqItem_good hQ hr hb cp xs hv.2 _ lvb)
  | .structVariant n fs, hv, d, lvb => by
    simp only [inFragP, Bool.and_eq_true] at hv
    simp only [layItem]
    exact variantItem_good hQ _ (hr.name n hv.1) (mapValOf_good hQ _ _ _ (lay_entries_good hQ hr hb cp fs hv.2.1 _ false))
      (lay_mapItem_good hQ hr hb cp fs hv.2.1 _ lvb)
  | .seq xs, hv, d, lvb => by
    simp only [inFragP] at hv
    simp only [layItem]; exact lay_seqItem_good hQ hr hb cp xs hv d lvb
  | .tuple xs, hv, d, lvb => by
    simp only [inFragP] at hv
    simp only [layItem]; exact lay_seqItem_good hQ hr hb cp xs hv d lvb
  | .tupleStruct xs, hv, d, lvb => by
    simp only [inFragP] at hv
    simp only [layItem]; exact lay_seqItem_good hQ hr hb cp xs hv d lvb
  | .map known es, hv, d, lvb => by
    simp only [inFragP, Bool.and_eq_true] at hv
    simp only [layItem]; exact lay_mapItem_good hQ hr hb cp es hv.1 d lvb
  | .flowSeq _, hv, _, _ => by simp [inFragP] at hv
  | .flowMap _, hv, _, _ => by simp [inFragP] at hv
  | .commented _ _, hv, _, _ => by simp [inFragP] at hv
  | .spaceAfter _, hv, _, _ => by simp [inFragP] at hv
  | .litStr _, hv, _, _ => by simp [inFragP] at hv
  | .foldStr _, hv, _, _ => by simp [inFragP] at hv
theorem lay_seqItem_good {P : LeafPred} {T : Toks} {k : Nat} {Q : Line → Prop} (hQ : ∀ l, GoodLine l → Q l) (hr : ReadContract P T k)
    (hb : BodyQ Q P T k) (cp : Bool) : ∀ (xs : List SVal), inFragListP P xs = true → ∀ (d : Nat) (lvb : Bool),
    AllLay (laySeqItem T k cp d lvb xs).1 ∧ AllQ Q (laySeqItem T k cp d lvb xs).2.1
  | [], _, d, lvb => by simp only [laySeqItem]; exact ⟨allLay_lit _ (by decide), allQ_nil⟩
  | x :: xs', hv, d, lvb => by
    simp only [inFragListP, Bool.and_eq_true] at hv
    obtain ⟨h1, h2⟩ := lay_item_good hQ hr hb cp x hv.1 (d + 2) lvb
    have h3 := lay_items_good hQ hr hb cp xs' hv.2 (d + 2) (layItem T k cp (d + 2) lvb x).2.2
    simp only [laySeqItem]
    exact ⟨(allLay_lit ['-', ' '] (by decide)).append h1, h2.append h3⟩
theorem lay_mapItem_good {P : LeafPred} {T : Toks} {k : Nat} {Q : Line → Prop} (hQ : ∀ l, GoodLine l → Q l) (hr : ReadContract P T k)
    (hb : BodyQ Q P T k) (cp : Bool) : ∀ (es : List (SVal × SVal)), inFragEntriesP P es = true → ∀ (d : Nat) (lvb : Bool),
    AllLay (layMapItem T k cp d lvb es).1 ∧ AllQ Q (layMapItem T k cp d lvb es).2.1
  | [], _, d, lvb => by simp only [layMapItem]; exact ⟨allLay_lit _ (by decide), allQ_nil⟩
  | (kk, v) :: es', hv, d, lvb => by
    simp only [inFragEntriesP, Bool.and_eq_true, Bool.or_eq_true] at hv
    rcases hv.1.1 with hsk | hck
    · obtain ⟨kt, rfl, hkt⟩ := keyOk_iff hsk
      cases hfit : fitsImplicit (T.key kt)
      · obtain ⟨h1, h2⟩ := lay_item_good hQ hr hb cp v hv.1.2 (d + 2) false
        have h3 := lay_entries_good hQ hr hb cp es' hv.2 (d + 2) (layItem T k cp (d + 2) false v).2.2
        simp only [layMapItem, keyOf, hfit, Bool.false_eq_true, if_false]
        refine ⟨(allLay_lit ['?', ' '] (by decide)).append (allLay_key (hr.key kt hkt)), ?_⟩
        have := AllQ.cons (hQ _ (colonLine_good (i := d + 2) h1)) (h2.append h3)
        simpa [List.append_assoc] using this
      · obtain ⟨h1, h2⟩ := lay_val_good hQ hr hb cp true v hv.1.2 (d + 2) false
        have h3 := lay_entries_good hQ hr hb cp es' hv.2 (d + 2) (layVal T k cp true (d + 2) false v).2.2
        simp only [layMapItem, keyOf, hfit, if_true]
        exact ⟨((allLay_key (hr.key kt hkt)).append (allLay_lit [':'] (by decide))).append h1, h2.append h3⟩
    · obtain ⟨hk1, hk2⟩ := lay_item_good hQ hr hb cp kk hck.2 (d + 2) false
      obtain ⟨h1, h2⟩ := lay_item_good hQ hr hb cp v hv.1.2 (d + 2) false
      have h3 := lay_entries_good hQ hr hb cp es' hv.2 (d + 2) (layItem T k cp (d + 2) false v).2.2
      simp only [layMapItem, keyOf_complex' kk hck.1]
      refine ⟨(allLay_lit ['?', ' '] (by decide)).append hk1, ?_⟩
      have := hk2.append (AllQ.cons (hQ _ (colonLine_good (i := d + 2) h1)) (h2.append h3))
      simpa [List.append_assoc] using this
theorem lay_items_good {P : LeafPred} {T : Toks} {k : Nat} {Q : Line → Prop} (hQ : ∀ l, GoodLine l → Q l) (hr : ReadContract P T k)
    (hb : BodyQ Q P T k) (cp : Bool) : ∀ (xs : List SVal), inFragListP P xs = true → ∀ (d : Nat) (lvb : Bool),
    AllQ Q (layItems T k cp d lvb xs).1
  | [], _, d, lvb => by simp only [layItems]; exact allQ_nil
  | x :: xs, hv, d, lvb => by
    simp only [inFragListP, Bool.and_eq_true] at hv
    obtain ⟨h1, h2⟩ := lay_item_good hQ hr hb cp x hv.1 d lvb
    have h3 := lay_items_good hQ hr hb cp xs hv.2 d (layItem T k cp d lvb x).2.2
    simp only [layItems, List.cons_append, List.nil_append, List.append_assoc]
    exact AllQ.cons (hQ _ (dashLine_good (itemHead_layItem hr cp x hv.1 d lvb) h1)) (h2.append h3)
theorem lay_entries_good {P : LeafPred} {T : Toks} {k : Nat} {Q : Line → Prop} (hQ : ∀ l, GoodLine l → Q l) (hr : ReadContract P T k)
    (hb : BodyQ Q P T k) (cp : Bool) : ∀ (es : List (SVal × SVal)), inFragEntriesP P es = true → ∀ (m : Nat) (lvb : Bool),
    AllQ Q (layEntries T k cp m lvb es).1
  | [], _, m, lvb => by simp only [layEntries]; exact allQ_nil
  | (kk, v) :: es, hv, m, lvb => by
    simp only [inFragEntriesP, Bool.and_eq_true, Bool.or_eq_true] at hv
    rcases hv.1.1 with hsk | hck
    · obtain ⟨kt, rfl, hkt⟩ := keyOk_iff hsk
      cases hfit : fitsImplicit (T.key kt)
      · obtain ⟨h1, h2⟩ := lay_item_good hQ hr hb cp v hv.1.2 m false
        have h3 := lay_entries_good hQ hr hb cp es hv.2 m (layItem T k cp m false v).2.2
        simp only [layEntries, keyOf, hfit, Bool.false_eq_true, if_false, List.cons_append, List.nil_append, List.append_assoc]
        exact AllQ.cons (hQ _ (questionLine_good (allLay_key (hr.key kt hkt)))) (AllQ.cons (hQ _ (colonLine_good h1)) (h2.append h3))
      · obtain ⟨h1, h2⟩ := lay_val_good hQ hr hb cp true v hv.1.2 m lvb
        have h3 := lay_entries_good hQ hr hb cp es hv.2 m (layVal T k cp true m lvb v).2.2
        simp only [layEntries, keyOf, hfit, if_true, List.cons_append, List.nil_append, List.append_assoc, List.singleton_append]
        exact AllQ.cons (hQ _ (keyLine_good (hr.key kt hkt) h1)) (h2.append h3)
    · obtain ⟨hk1, hk2⟩ := lay_item_good hQ hr hb cp kk hck.2 m lvb
      obtain ⟨h1, h2⟩ := lay_item_good hQ hr hb cp v hv.1.2 m false
      have h3 := lay_entries_good hQ hr hb cp es hv.2 m (layItem T k cp m false v).2.2
      simp only [layEntries, keyOf_complex' kk hck.1, List.cons_append, List.nil_append, List.append_assoc]
      exact AllQ.cons (hQ _ (questionLine_good hk1)) (hk2.append (AllQ.cons (hQ _ (colonLine_good h1)) (h2.append h3)))
end

/-! ### text ↔ lines -/

theorem renderLines_cons' (l : Line) (ls : List Line) :
    renderLines (l :: ls) = spaces l.indent ++ l.text ++ ['\n'] ++ renderLines ls := rfl


theorem layChar_ne {c : Char} (h : lineChar c = true) (c' : Char) (h' : lineChar c' = false) : c ≠ c' := by
  rintro rfl; rw [h] at h'; exact Bool.noConfusion h'

theorem normBreaks_id : ∀ (t : List Char), (∀ x ∈ t, x ≠ '\r') → normBreaks t = t
  | [], _ => rfl
  | c :: cs, h => by
    have hc : c ≠ '\r' := h c (by simp)
    have ih := normBreaks_id cs (fun x hx => h x (by simp [hx]))
    unfold normBreaks
    split
    · rename_i he; simp only [List.cons.injEq] at he; exact absurd he.1 hc
    · rename_i he; simp only [List.cons.injEq] at he; exact absurd he.1 hc
    · rename_i c' cs' _ _ he
      simp only [List.cons.injEq] at he
      obtain ⟨rfl, rfl⟩ := he
      rw [ih]
    · rename_i he; exact absurd he (by simp)

theorem splitNl_ne_nil (t : List Char) : splitNl t ≠ [] := by
  induction t with
  | nil => simp [splitNl]
  | cons c cs ih =>
    unfold splitNl
    split
    · simp
    · split <;> simp

theorem splitNl_cons (c : Char) (cs : List Char) :
    splitNl (c :: cs) = (match splitNl cs with
      | [] => [[]]
      | l :: ls => if c == '\n' then [] :: l :: ls else (c :: l) :: ls) := by
  rw [splitNl]; rfl

theorem splitNl_line : ∀ (a rest : List Char), (∀ x ∈ a, x ≠ '\n') → splitNl (a ++ '\n' :: rest) = a :: splitNl rest
  | [], rest, _ => by
    simp only [List.nil_append]
    rw [splitNl_cons]
    cases h : splitNl rest with
    | nil => exact absurd h (splitNl_ne_nil rest)
    | cons l ls => simp
  | c :: cs, rest, h => by
    have hc : c ≠ '\n' := h c (by simp)
    have ih := splitNl_line cs rest (fun x hx => h x (by simp [hx]))
    simp only [List.cons_append]
    rw [splitNl_cons, ih]
    simp [hc]

theorem spaces_lay (n : Nat) : ∀ x ∈ spaces n, lineChar x = true := by
  intro x hx
  simp only [spaces, List.mem_replicate] at hx
  rw [hx.2]; decide

theorem LayLine.chars {l : Line} (h : LayLine l) : ∀ x ∈ l.text, lineChar x = true := by
  rcases h with h | h
  · exact h.chars
  · exact h.chars

theorem LayLine.head {l : Line} (h : LayLine l) : l.text.head? ≠ some ' ' := by
  rcases h with h | h
  · exact h.head.1
  · exact h.head

theorem lineText_lay {l : Line} (h : LayLine l) : ∀ x ∈ spaces l.indent ++ l.text, lineChar x = true := by
  intro x hx
  rcases List.mem_append.mp hx with h1 | h1
  · exact spaces_lay _ x h1
  · exact h.chars x h1

theorem splitNl_render : ∀ (ls : List Line), AllGood ls →
    splitNl (renderLines ls) = ls.map (fun l => spaces l.indent ++ l.text) ++ [[]]
  | [], _ => by rfl
  | l :: ls, h => by
    have hl : LayLine l := h l (by simp)
    have ih := splitNl_render ls (fun x hx => h x (by simp [hx]))
    simp only [renderLines_cons', List.map_cons, List.cons_append]
    rw [show spaces l.indent ++ l.text ++ ['\n'] ++ renderLines ls = (spaces l.indent ++ l.text) ++ '\n' :: renderLines ls by simp,
      splitNl_line _ _ (fun x hx => layChar_ne (lineText_lay hl x hx) '\n' (by decide)), ih]

/-- the indentation and the text of a line come back from its rendering when the text does not start with a blank -/
theorem mkLine_spaces (i : Nat) (t : List Char) (h : t.head? ≠ some ' ') : mkLine (spaces i ++ t) = ⟨i, t⟩ := by
  have h1 : List.takeWhile (· == ' ') (spaces i ++ t) = spaces i := by
    induction i with
    | zero =>
      cases t with
      | nil => rfl
      | cons c cs =>
        have hc : c ≠ ' ' := fun e => h (by simp [e])
        simp [spaces, hc]
    | succ n ih => simp only [spaces, List.replicate_succ, List.cons_append] at ih ⊢; simp [ih]
  have h2 : List.dropWhile (· == ' ') (spaces i ++ t) = t := by
    clear h1
    induction i with
    | zero =>
      cases t with
      | nil => rfl
      | cons c cs =>
        have hc : c ≠ ' ' := fun e => h (by simp [e])
        simp [spaces, hc]
    | succ n ih => simp only [spaces, List.replicate_succ, List.cons_append] at ih ⊢; simp [ih]
  simp only [mkLine]
  rw [h1, h2]
  simp [spaces]

theorem mkLine_good {l : Line} (h : LayLine l) : mkLine (spaces l.indent ++ l.text) = l := by
  cases l with
  | mk i t => exact mkLine_spaces i t h.head

theorem render_lay : ∀ (ls : List Line), AllGood ls → ∀ x ∈ renderLines ls, lineChar x = true ∨ x = '\n'
  | [], _, x, hx => by exact absurd hx (by simp [renderLines])
  | l :: ls, h, x, hx => by
    simp only [renderLines_cons', List.mem_append, List.mem_cons, List.not_mem_nil, or_false] at hx
    rcases hx with ((h1 | h1) | h1) | h1
    · exact Or.inl (spaces_lay _ x h1)
    · exact Or.inl ((h l (by simp)).chars x h1)
    · exact Or.inr h1
    · exact render_lay ls (fun y hy => h y (by simp [hy])) x h1

theorem map_mkLine : ∀ (ls : List Line), AllGood ls → (ls.map (fun l => spaces l.indent ++ l.text)).map mkLine = ls
  | [], _ => rfl
  | l :: ls, hg => by
    simp only [List.map_cons, List.cons.injEq]
    exact ⟨mkLine_good (hg l (by simp)), map_mkLine ls (fun x hx => hg x (by simp [hx]))⟩

theorem toLines_render (ls : List Line) (h : AllGood ls) : toLines (renderLines ls) = ls := by
  have hcr : ∀ x ∈ renderLines ls, x ≠ '\r' := by
    intro x hx
    rcases render_lay ls h x hx with h1 | rfl
    · exact layChar_ne h1 '\r' (by decide)
    · decide
  unfold toLines
  rw [normBreaks_id _ hcr, splitNl_render ls h]
  have hlast : (ls.map (fun (l : Line) => spaces l.indent ++ l.text) ++ [[]]).getLast? = some [] := by simp
  simp only [hlast, beq_self_eq_true, if_true, List.dropLast_concat]
  exact map_mkLine ls h

theorem takeWhile_all {α : Type} (p : α → Bool) : ∀ (l : List α), (∀ x ∈ l, p x = true) → l.takeWhile p = l
  | [], _ => rfl
  | a :: as, h => by
    simp only [List.takeWhile_cons, h a (by simp), if_true, List.cons.injEq, true_and]
    exact takeWhile_all p as (fun x hx => h x (by simp [hx]))

theorem takeWhile_noNul (ls : List Line) (h : AllGood ls) :
    (renderLines ls).takeWhile (· != Char.ofNat 0) = renderLines ls := by
  apply takeWhile_all
  intro x hx
  rcases render_lay ls h x hx with h1 | rfl
  · have := layChar_ne h1 (Char.ofNat 0) (by decide)
    simpa using this
  · decide

theorem mu_le_render : ∀ (ls : List Line), mu ls ≤ (renderLines ls).length
  | [] => by simp [mu]
  | l :: ls => by
    have := mu_le_render ls
    simp only [mu, renderLines_cons', List.length_append, List.length_cons, List.length_nil]
    omega

/-! ### the root -/

/-- the first line of a document: there is one, it is neither blank nor a comment nor a directive -/
def FirstLine (ls : List Line) : Prop :=
  ∃ l rest, ls = l :: rest ∧ l.isSkippable = false ∧ l.text.head? ≠ some '%'

theorem goodLine_notSkippable {l : Line} (h : GoodLine l) : l.isSkippable = false := by
  obtain ⟨c, cs, e⟩ : ∃ c cs, l.text = c :: cs := by
    cases ht : l.text with
    | nil => exact absurd ht h.ne
    | cons c cs => exact ⟨c, cs, rfl⟩
  have hne : c ≠ '#' := by
    have := h.head.2.1
    rw [e] at this
    intro e'; exact this (by simp [e'])
  cases l with
  | mk i t => simp only at e; subst e; exact notSkippable_of_head hne

theorem FirstLine.ofGood {l : Line} (h : GoodLine l) (rest : List Line) : FirstLine (l :: rest) :=
  ⟨l, rest, rfl, goodLine_notSkippable h, h.head.2.2⟩

theorem FirstLine.ne {ls : List Line} (h : FirstLine ls) : ls ≠ [] := by
  obtain ⟨l, rest, rfl, _⟩ := h; simp

/-- the body lines of the strings of the class, as layout lines -/
theorem ReadContract.layBody {P : LeafPred} {T : Toks} {k : Nat} (hr : ReadContract P T k) : BodyQ LayLine P T k :=
  ⟨fun pos s h => AllGood.ofBody (hr.str pos s h).body, fun pos e n h => AllGood.ofBody (hr.unit pos e n h).body⟩

theorem LeafOK.goodLine {n : Nat} {r : List Char × List Line} {p : PVal} (h : LeafOK n r p) (i : Nat) : GoodLine ⟨i, r.1⟩ :=
  ⟨h.ne, h.head, h.chars, h.noMarker⟩

/-- the lines of a root node read as `p` -/
def RootOK (ls : List Line) (p : PVal) : Prop :=
  AllGood ls ∧ FirstLine ls ∧ ∀ fuel, fuel ≥ 2 * mu ls + 2 → blockNode fuel 0 none false ls = some (p, [])

theorem root_seq {P : LeafPred} {T : Toks} {k : Nat} {cp : Bool} (hr : ReadContract P T k) (hk : k ≥ 1) {xs : List SVal} (hv : inFragListP P xs = true) :
    RootOK (if xs.isEmpty then [⟨0, "[]".toList⟩] else (layItems T k cp 0 false xs).1) (.seq (eraseList xs)) := by
  cases xs with
  | nil =>
    simp only [List.isEmpty_nil, if_true, eraseList]
    refine ⟨AllGood.cons (emptySeqLine_good 0) allGood_nil, FirstLine.ofGood (emptySeqLine_good 0) _, ?_⟩
    intro fuel hf
    obtain ⟨f', rfl⟩ : ∃ f', fuel = f' + 1 := ⟨fuel - 1, by omega⟩
    exact blockNode_emptySeq f' 0 none false 0 [] (by omega)
  | cons x xs' =>
    have hx : inFragP P x = true := by simp only [inFragListP, Bool.and_eq_true] at hv; exact hv.1
    have hh := itemHead_layItem hr cp x hx 0 false
    have hg := lay_items_good (Q := LayLine) (fun _ h => Or.inl h) hr hr.layBody cp (x :: xs') hv 0 false
    have h1 := (lay_item_good (Q := LayLine) (fun _ h => Or.inl h) hr hr.layBody cp x hx 0 false).1
    simp only [List.isEmpty_cons, Bool.false_eq_true, if_false]
    refine ⟨hg, by simp only [layItems, List.cons_append]; exact FirstLine.ofGood (dashLine_good hh h1) _, ?_⟩
    intro fuel hf
    obtain ⟨f', rfl⟩ : ∃ f', fuel = f' + 1 := ⟨fuel - 1, by omega⟩
    have hi := read_items (cp := cp) hr hk (x :: xs') hv f' 0 false [] (by omega) (Or.inl rfl)
    simp only [layItems, List.cons_append, List.nil_append, List.append_assoc, List.append_nil] at hi ⊢
    rw [blockNode_dash f' 0 none 0 _ hh (by omega), hi]
    rfl

theorem root_variant {N n : List Char} (hn : KeyTok N n) {r : List Char × List Line × Bool} {ri : Nat → Bool → List Char × List Line × Bool} {p : PVal}
    (hh : ValHead r.1) (hg : AllLay r.1 ∧ AllGood r.2.1)
    (hr : ∀ fuel klen, fuel ≥ 2 * (r.1.length + 1 + mu r.2.1) + 2 → valueParse fuel 0 klen r.1 r.2.1 = some (p, []))
    (hhi : ItemHead (ri 0 false).1) (hgi : AllLay (ri 0 false).1 ∧ AllGood (ri 0 false).2.1) (hri : ReadsItem ri p) :
    RootOK (variantRoot N r (ri 0 false)) (.map [(.str n, p)]) := by
  refine ⟨variantRoot_good (fun _ h => Or.inl h) hn hg hgi, ?_, ?_⟩
  · cases hfit : fitsImplicit N
    · simp only [variantRoot, hfit, Bool.false_eq_true, if_false, List.cons_append, List.nil_append]
      exact FirstLine.ofGood (questionLine_good (allLay_key hn)) _
    · simp only [variantRoot, hfit, if_true, List.append_assoc, List.singleton_append]
      exact FirstLine.ofGood (keyLine_good hn hg.1) _
  · intro fuel hf
    cases hfit : fitsImplicit N
    · simp only [variantRoot, hfit, Bool.false_eq_true, if_false, List.cons_append, List.nil_append, mu, List.length_cons] at hf ⊢
      obtain ⟨f', rfl⟩ : ∃ f', fuel = f' + 3 := ⟨fuel - 3, by omega⟩
      have ih := hri (f' + 1) 0 (some 0) false [] (by omega) (Or.inl rfl)
      have := blockNode_explicitVariant f' 0 none 0 hn hhi [] (by omega) (by omega) (by simpa using ih) (Or.inl rfl)
      simpa using this
    · simp only [variantRoot, hfit, if_true, List.append_assoc, List.singleton_append] at hf ⊢
      simp only [mu, List.length_append, List.length_cons] at hf
      obtain ⟨f', rfl⟩ : ∃ f', fuel = f' + 3 := ⟨fuel - 3, by omega⟩
      have ih := hr (f' + 1) (N.length + 1) (by omega)
      rw [show f' + 3 = (f' + 1 + 1) + 1 from rfl, blockNode_key (f' + 1 + 1) 0 none 0 _ hn hh (by omega),
        blockMap_cons (f' + 1) 0 _ hn hh hfit, ih]
      simp [blockMap_end f' 0 (Or.inl rfl), hasDupKey]

/-- a `ReadsVal` statement at the root (`m = 0`, nothing after the node) -/
theorem ReadsVal.root {r : Nat → Bool → Bool → List Char × List Line × Bool} {p : PVal} (h : ReadsVal r p) (fuel klen : Nat)
    (hf : fuel ≥ 2 * ((r 0 false false).1.length + 1 + mu (r 0 false false).2.1) + 2) :
    valueParse fuel 0 klen (r 0 false false).1 (r 0 false false).2.1 = some (p, []) := by
  simpa using h fuel 0 false false klen [] hf (Or.inl rfl)

/-- a leaf other than a string / a unit variant at the root: one line, the token -/
theorem root_leaf {P : LeafPred} {T : Toks} {k : Nat} {cp : Bool} (hr : ReadContract P T k) {v : SVal} {tok : List Char}
    (hv : inFragP P v = true) (ht : leafTok T v = some tok) :
    AllGood (layRoot T k cp v) ∧ FirstLine (layRoot T k cp v) ∧
    ∀ fuel, fuel ≥ 2 * mu (layRoot T k cp v) + 2 → blockNode fuel 0 none false (layRoot T k cp v) = some (erase v, []) := by
  have hs := leafTok_scalarTok hr hv ht
  have hl : layRoot T k cp v = [⟨0, tok⟩] := by
    cases v <;> simp only [leafTok, Option.some.injEq, reduceCtorEq] at ht <;> subst ht <;> simp [layRoot, leafTok]
  rw [hl]
  refine ⟨AllGood.cons (scalarLine_good hs) allGood_nil, FirstLine.ofGood (scalarLine_good hs) _, ?_⟩
  intro fuel hf
  obtain ⟨f', rfl⟩ : ∃ f', fuel = f' + 1 := ⟨fuel - 1, by omega⟩
  exact hs.read f' 0 none false 0 [] (by omega) (Or.inl rfl)

/-- a string at the root: the line of the leaf and the lines after it (the body of a block scalar) -/
theorem root_str {P : LeafPred} {T : Toks} {k : Nat} {cp : Bool} (hr : ReadContract P T k) {t : List Char} (hv : P.str t = true) :
    AllGood (layRoot T k cp (.str t)) ∧ FirstLine (layRoot T k cp (.str t)) ∧
    ∀ fuel, fuel ≥ 2 * mu (layRoot T k cp (.str t)) + 2 → blockNode fuel 0 none false (layRoot T k cp (.str t)) = some (.str t, []) := by
  have hs := hr.str .root t hv
  simp only [layRoot]
  refine ⟨AllQ.cons (Or.inl (hs.goodLine 0)) (hr.layBody.1 .root t hv), FirstLine.ofGood (hs.goodLine 0) _, ?_⟩
  intro fuel hf
  obtain ⟨f', rfl⟩ : ∃ f', fuel = f' + 1 := ⟨fuel - 1, by omega⟩
  simpa [StrPos.minIndent] using hs.read f' none false 0 [] (by simp [StrPos.minIndent]) (Or.inl rfl)

/-- a unit variant at the root -/
theorem root_unit {P : LeafPred} {T : Toks} {k : Nat} {cp : Bool} (hr : ReadContract P T k) {e n : List Char} (hv : P.unit e n = true) :
    AllGood (layRoot T k cp (.unitVariant e n)) ∧ FirstLine (layRoot T k cp (.unitVariant e n)) ∧
    ∀ fuel, fuel ≥ 2 * mu (layRoot T k cp (.unitVariant e n)) + 2 →
      blockNode fuel 0 none false (layRoot T k cp (.unitVariant e n)) = some (.str n, []) := by
  have hs := hr.unit .root e n hv
  simp only [layRoot]
  refine ⟨AllQ.cons (Or.inl (hs.goodLine 0)) (hr.layBody.2 .root e n hv), FirstLine.ofGood (hs.goodLine 0) _, ?_⟩
  intro fuel hf
  obtain ⟨f', rfl⟩ : ∃ f', fuel = f' + 1 := ⟨fuel - 1, by omega⟩
  simpa [StrPos.minIndent] using hs.read f' none false 0 [] (by simp [StrPos.minIndent]) (Or.inl rfl)

theorem root_lines {P : LeafPred} {T : Toks} {k : Nat} {cp : Bool} (hr : ReadContract P T k) (hk : k ≥ 1) : ∀ (v : SVal), inFragP P v = true →
    AllGood (layRoot T k cp v) ∧ FirstLine (layRoot T k cp v) ∧
    ∀ fuel, fuel ≥ 2 * mu (layRoot T k cp v) + 2 → blockNode fuel 0 none false (layRoot T k cp v) = some (erase v, [])
  | .unit, hv => root_leaf hr hv rfl
  | .none, hv => root_leaf hr hv rfl
  | .bool b, hv => root_leaf hr hv rfl
  | .int i, hv => root_leaf hr hv rfl
  | .str t, hv => by simp only [inFragP] at hv; simpa [erase] using root_str (cp := cp) hr hv
  | .unitVariant e n, hv => by simp only [inFragP] at hv; simpa [erase] using root_unit (cp := cp) hr hv
  | .some v, hv => by simp only [inFragP] at hv; simpa [layRoot, erase] using root_lines hr hk v hv
  | .newtypeStruct v, hv => by simp only [inFragP] at hv; simpa [layRoot, erase] using root_lines hr hk v hv
  | .newtypeVariant n v, hv => by
    simp only [inFragP, Bool.and_eq_true] at hv
    simpa [layRoot, erase, RootOK] using root_variant (hr.name n hv.1) (r := layVal T k cp false 0 false v)
      (ri := fun c lvb => layItem T k cp c lvb v) (valHead_layVal hr cp false v hv.2 0 false)
      (lay_val_good (Q := LayLine) (fun _ h => Or.inl h) hr hr.layBody cp false v hv.2 0 false) (fun fuel klen hf => (read_val (cp := cp) hr hk v hv.2).root fuel klen hf)
      (itemHead_layItem hr cp v hv.2 0 false) (lay_item_good (Q := LayLine) (fun _ h => Or.inl h) hr hr.layBody cp v hv.2 0 false) (read_item hr hk v hv.2)
  | .tupleVariant n xs, hv => by
    simp only [inFragP, Bool.and_eq_true] at hv
    simpa [layRoot, erase, RootOK] using root_variant (hr.name n hv.1) (r := seqValOf xs.isEmpty (layItems T k cp k false xs).1)
      (ri := fun c lvb => laySeqItem T k cp c lvb xs)
      (seqValOf_head _ _) (seqValOf_good _ (lay_items_good (Q := LayLine) (fun _ h => Or.inl h) hr hr.layBody cp xs hv.2 k false))
      (fun fuel klen hf => by simpa [seqCol] using (reads_seqVal (cp := cp) hr hk hv.2 (read_items hr hk xs hv.2)).root fuel klen (by simpa [seqCol] using hf))
      (laySeqItem_head T k cp 0 false xs) (lay_seqItem_good (Q := LayLine) (fun _ h => Or.inl h) hr hr.layBody cp xs hv.2 0 false) (reads_seqItem hr hv.2 (read_items hr hk xs hv.2))
  | .structVariant n fs, hv => by
    simp only [inFragP, Bool.and_eq_true, decide_eq_true_eq] at hv
    simpa [layRoot, erase, RootOK] using root_variant (hr.name n hv.1) (r := mapValOf k false fs.isEmpty (layEntries T k cp k false fs).1)
      (ri := fun c lvb => layMapItem T k cp c lvb fs)
      (mapValOf_head _ _ _ _) (mapValOf_good (fun _ h => Or.inl h) _ _ _ (lay_entries_good (Q := LayLine) (fun _ h => Or.inl h) hr hr.layBody cp fs hv.2.1 k false))
      (fun fuel klen hf => by simpa using (reads_mapVal (cp := cp) hr hk hv.2.1 (by simpa using hv.2.2) (read_entries hr hk fs hv.2.1)).root fuel klen (by simpa using hf))
      (layMapItem_head hr cp hv.2.1 (by simpa using hv.2.2) 0 false) (lay_mapItem_good (Q := LayLine) (fun _ h => Or.inl h) hr hr.layBody cp fs hv.2.1 0 false)
      (reads_mapItem hr hv.2.1 (by simpa using hv.2.2) (read_entries hr hk fs hv.2.1))
  | .seq xs, hv => by
    simp only [inFragP] at hv
    simpa [layRoot, erase, RootOK] using root_seq hr hk hv
  | .tuple xs, hv => by
    simp only [inFragP] at hv
    simpa [layRoot, erase, RootOK] using root_seq hr hk hv
  | .tupleStruct xs, hv => by
    simp only [inFragP] at hv
    simpa [layRoot, erase, RootOK] using root_seq hr hk hv
  | .map known es, hv => by
    simp only [inFragP, Bool.and_eq_true, decide_eq_true_eq] at hv
    cases es with
    | nil =>
      simp only [layRoot, List.isEmpty_nil, if_true, erase, eraseEntries]
      refine ⟨AllGood.cons (emptyMapLine_good 0) allGood_nil, FirstLine.ofGood (emptyMapLine_good 0) _, ?_⟩
      intro fuel hf
      obtain ⟨f', rfl⟩ : ∃ f', fuel = f' + 1 := ⟨fuel - 1, by omega⟩
      exact blockNode_emptyMap f' 0 none false 0 [] (by omega)
    | cons e es' =>
      have hdup : hasDupKey (eraseEntries (e :: es')) = false := by simpa using hv.2
      have hg := lay_entries_good (Q := LayLine) (fun _ h => Or.inl h) hr hr.layBody cp (e :: es') hv.1 0 false
      obtain ⟨t, ls, he, ht⟩ := layEntries_start hr cp 0 false (e := e) (es := es') hv.1
      simp only [layRoot, List.isEmpty_cons, Bool.false_eq_true, if_false, erase]
      refine ⟨hg, by rw [he]; exact ⟨_, _, rfl, ht.notSkippable 0, ht.notPct⟩, ?_⟩
      intro fuel hf
      obtain ⟨f', rfl⟩ : ∃ f', fuel = f' + 1 := ⟨fuel - 1, by omega⟩
      have hi := read_entries (cp := cp) hr hk (e :: es') hv.1 f' 0 false [] (by omega) (Or.inl rfl)
      rw [he] at hi ⊢
      simp only [List.cons_append, List.append_nil] at hi ⊢
      rw [blockNode_mapStart f' 0 none 0 _ ht (by omega), hi]
      simp [hdup]
  | .flowSeq _, hv => by simp [inFragP] at hv
  | .flowMap _, hv => by simp [inFragP] at hv
  | .commented _ _, hv => by simp [inFragP] at hv
  | .spaceAfter _, hv => by simp [inFragP] at hv
  | .litStr _, hv => by simp [inFragP] at hv
  | .foldStr _, hv => by simp [inFragP] at hv

/-- all lines of the layout of a root value satisfy `Q`, when the structure lines and the lines after the string
leaves do (`Q` = `GoodLine` when the strings are tokens, `Q` = `LayLine` in general) -/
theorem layRoot_good {P : LeafPred} {T : Toks} {k : Nat} {Q : Line → Prop} (hQ : ∀ l, GoodLine l → Q l) (hr : ReadContract P T k)
    (hb : BodyQ Q P T k) (cp : Bool) : ∀ (v : SVal), inFragP P v = true →
    AllQ Q (layRoot T k cp v)
  | .unit, hv => by simpa [layRoot, leafTok] using AllQ.cons (hQ _ (scalarLine_good (i := 0) scalarTok_null)) allQ_nil
  | .none, hv => by simpa [layRoot, leafTok] using AllQ.cons (hQ _ (scalarLine_good (i := 0) scalarTok_null)) allQ_nil
  | .bool b, hv => by simpa [layRoot, leafTok] using AllQ.cons (hQ _ (scalarLine_good (i := 0) (scalarTok_bool b))) allQ_nil
  | .int i, hv => by simpa [layRoot, leafTok] using AllQ.cons (hQ _ (scalarLine_good (i := 0) (scalarTok_int i))) allQ_nil
  | .str t, hv => by
    simp only [inFragP] at hv
    simpa [layRoot] using AllQ.cons (hQ _ ((hr.str .root t hv).goodLine 0)) (hb.1 .root t hv)
  | .unitVariant e n, hv => by
    simp only [inFragP] at hv
    simpa [layRoot] using AllQ.cons (hQ _ ((hr.unit .root e n hv).goodLine 0)) (hb.2 .root e n hv)
  | .some v, hv => by simp only [inFragP] at hv; simpa [layRoot] using layRoot_good hQ hr hb cp v hv
  | .newtypeStruct v, hv => by simp only [inFragP] at hv; simpa [layRoot] using layRoot_good hQ hr hb cp v hv
  | .newtypeVariant n v, hv => by
    simp only [inFragP, Bool.and_eq_true] at hv
    simp only [layRoot]
    exact variantRoot_good hQ (hr.name n hv.1) (lay_val_good hQ hr hb cp false v hv.2 0 false) (lay_item_good hQ hr hb cp v hv.2 0 false)
  | .tupleVariant n xs, hv => by
    simp only [inFragP, Bool.and_eq_true] at hv
    simp only [layRoot]
    exact variantRoot_good hQ (hr.name n hv.1) (seqValOf_good xs.isEmpty (lay_items_good hQ hr hb cp xs hv.2 k false))
      (lay_seqItem_good hQ hr hb cp xs hv.2 0 false)
  | .structVariant n fs, hv => by
    simp only [inFragP, Bool.and_eq_true] at hv
    simp only [layRoot]
    exact variantRoot_good hQ (hr.name n hv.1) (mapValOf_good hQ k false fs.isEmpty (lay_entries_good hQ hr hb cp fs hv.2.1 k false))
      (lay_mapItem_good hQ hr hb cp fs hv.2.1 0 false)
  | .seq xs, hv => by
    simp only [inFragP] at hv
    cases xs with
    | nil => simpa [layRoot] using AllQ.cons (hQ _ (emptySeqLine_good 0)) allQ_nil
    | cons x xs' => simpa [layRoot] using lay_items_good hQ hr hb cp (x :: xs') hv 0 false
  | .tuple xs, hv => by
    simp only [inFragP] at hv
    cases xs with
    | nil => simpa [layRoot] using AllQ.cons (hQ _ (emptySeqLine_good 0)) allQ_nil
    | cons x xs' => simpa [layRoot] using lay_items_good hQ hr hb cp (x :: xs') hv 0 false
  | .tupleStruct xs, hv => by
    simp only [inFragP] at hv
    cases xs with
    | nil => simpa [layRoot] using AllQ.cons (hQ _ (emptySeqLine_good 0)) allQ_nil
    | cons x xs' => simpa [layRoot] using lay_items_good hQ hr hb cp (x :: xs') hv 0 false
  | .map known es, hv => by
    simp only [inFragP, Bool.and_eq_true] at hv
    cases es with
    | nil => simpa [layRoot] using AllQ.cons (hQ _ (emptyMapLine_good 0)) allQ_nil
    | cons e es' => simpa [layRoot] using lay_entries_good hQ hr hb cp (e :: es') hv.1 0 false
  | .flowSeq _, hv => by simp [inFragP] at hv
  | .flowMap _, hv => by simp [inFragP] at hv
  | .commented _ _, hv => by simp [inFragP] at hv
  | .spaceAfter _, hv => by simp [inFragP] at hv
  | .litStr _, hv => by simp [inFragP] at hv
  | .foldStr _, hv => by simp [inFragP] at hv

/-- no line of the fragment is a directive -/
theorem goodLine_not_pct {l : Line} (h : GoodLine l) : l.text.head? ≠ some '%' := h.head.2.2

/-- no line of the fragment is a document marker -/
theorem goodLine_not_marker {l : Line} (h : GoodLine l) :
    isDocMarker l "---".toList = false ∧ isDocMarker l "...".toList = false := by
  have h1 := h.noMarker.1
  have h2 := h.noMarker.2
  simp only [isDocMarker, beq_self_eq_true, Bool.true_and] at h1 h2
  constructor
  · unfold isDocMarker; rw [Bool.and_assoc, h1, Bool.and_false]
  · unfold isDocMarker; rw [Bool.and_assoc, h2, Bool.and_false]

/-- … nor is a body line of a block scalar (it is indented) -/
theorem layLine_not_marker {l : Line} (h : LayLine l) :
    isDocMarker l "---".toList = false ∧ isDocMarker l "...".toList = false := by
  rcases h with h | h
  · exact goodLine_not_marker h
  · have hi : (l.indent == 0) = false := by have := h.ind; simp; omega
    simp [isDocMarker, hi]

theorem dropWhile_all {α : Type} (p : α → Bool) : ∀ (l : List α), (∀ x ∈ l, p x = true) → l.dropWhile p = []
  | [], _ => rfl
  | a :: as, h => by
    simp only [List.dropWhile_cons, h a (by simp), if_true]
    exact dropWhile_all p as (fun x hx => h x (by simp [hx]))

/-- `readDoc` on a text whose lines are known: no NUL, first line neither blank nor a directive, no
document markers — the document is what `blockNode` reads at the root. -/
theorem readDoc_core (text : List Char) (l : Line) (rest : List Line) (pv : PVal)
    (hnul : text.takeWhile (· != Char.ofNat 0) = text) (hlines : toLines text = l :: rest)
    (hns : l.isSkippable = false) (hpct : (l.text.head? == some '%') = false)
    (hm1 : ∀ x ∈ l :: rest, (!isDocMarker x "...".toList) = true)
    (hm2 : ∀ x ∈ l :: rest, isDocMarker x "---".toList = false)
    (hread : blockNode (2 * text.length + 2 * (l :: rest).length + 8) 0 none false (l :: rest) = some (pv, [])) :
    readDoc text = some pv := by
  have hsk : skipBlank (l :: rest) = l :: rest := skipBlank_cons rest hns
  have hany : (l :: rest).any (fun l => isDocMarker l "---".toList) = false := by
    rw [List.any_eq_false]; intro x hx; rw [hm2 x hx]; simp
  unfold readDoc
  simp only [hnul, hlines]
  simp only [hsk, hpct, Bool.and_false, Bool.false_eq_true, if_false, hm2 l (by simp)]
  simp only [takeWhile_all _ _ hm1, dropWhile_all _ _ hm1, List.drop_nil, skipBlank, List.isEmpty_nil, Bool.not_true,
    Bool.false_eq_true, if_false, hany]
  rw [hread]
  simp [skipBlank]

/-- Reading a rendered block of layout lines = parsing the lines as a root node. -/
theorem readDoc_of_lines (L : List Line) (pv : PVal) (hg : AllGood L) (hne : FirstLine L)
    (hread : ∀ fuel, fuel ≥ 2 * mu L + 2 → blockNode fuel 0 none false L = some (pv, [])) :
    readDoc (renderLines L) = some pv := by
  obtain ⟨l, rest, hL, hns, hp⟩ := hne
  have hpct : (l.text.head? == some '%') = false := by simpa using hp
  have hfuel : 2 * (renderLines L).length + 2 * L.length + 8 ≥ 2 * mu L + 2 := by
    have := mu_le_render L; omega
  refine readDoc_core (renderLines L) l rest pv (takeWhile_noNul _ hg) (by rw [toLines_render _ hg, hL])
    hns hpct ?_ ?_ ?_
  · intro x hx; rw [(layLine_not_marker (hg x (by rw [hL]; exact hx))).2]; rfl
  · intro x hx; exact (layLine_not_marker (hg x (by rw [hL]; exact hx))).1
  · rw [← hL]; exact hread _ hfuel

/-- The reference reader maps the rendered layout of a fragment value back to `erase v`. -/
theorem read_layout {P : LeafPred} {T : Toks} {k : Nat} {cp : Bool} (hr : ReadContract P T k) (hk : k ≥ 1) (v : SVal) (hv : inFragP P v = true) :
    readDoc (renderLines (layRoot T k cp v)) = some (erase v) := by
  obtain ⟨hg, hne, hread⟩ := root_lines hr hk v hv
  exact readDoc_of_lines _ _ hg hne hread


/-! ### the prologue -/

theorem toLines_cons_line (a rest : List Char) (ha : ∀ x ∈ a, x ≠ '\n' ∧ x ≠ '\r') (hr : ∀ x ∈ rest, x ≠ '\r') :
    toLines (a ++ '\n' :: rest) = mkLine a :: toLines rest := by
  have h1 : normBreaks (a ++ '\n' :: rest) = a ++ '\n' :: rest := by
    apply normBreaks_id
    intro x hx
    simp only [List.mem_append, List.mem_cons] at hx
    rcases hx with h | rfl | h
    · exact (ha x h).2
    · decide
    · exact hr x h
  unfold toLines
  rw [h1, normBreaks_id rest hr, splitNl_line a rest (fun x hx => (ha x hx).1)]
  cases hs : splitNl rest with
  | nil => exact absurd hs (splitNl_ne_nil rest)
  | cons p ps =>
    by_cases hl : (p :: ps).getLast? = some []
    · simp [hl, List.getLast?_cons_cons, List.dropLast]
    · simp [hl, List.getLast?_cons_cons]



/-- `readDoc` on a text that starts with the `%YAML 1.2` directive and `---`: the document is what
`blockNode` reads from the lines after them. -/
theorem readDoc_core_pro (text : List Char) (L : List Line) (pv : PVal)
    (hnul : text.takeWhile (· != Char.ofNat 0) = text)
    (hlines : toLines text = directiveLine :: startLine :: L)
    (hm1 : ∀ x ∈ L, (!isDocMarker x "...".toList) = true)
    (hm2 : ∀ x ∈ L, isDocMarker x "---".toList = false)
    (hread : blockNode (2 * text.length + 2 * L.length + 8) 0 none false L = some (pv, [])) :
    readDoc text = some pv := by
  have hany : L.any (fun l => isDocMarker l "---".toList) = false := by
    rw [List.any_eq_false]; intro x hx; rw [hm2 x hx]; simp
  have hs1 : skipBlank (directiveLine :: startLine :: L) = directiveLine :: startLine :: L :=
    skipBlank_cons _ (by decide)
  have hs2 : skipBlank (startLine :: L) = startLine :: L := skipBlank_cons _ (by decide)
  have hd : (directiveLine.indent == 0 && directiveLine.text.head? == some '%') = true := by decide
  have hmk : isDocMarker startLine "---".toList = true := by decide
  have haft : (dropSpaces (startLine.text.drop 3)).isEmpty = true := by decide
  unfold readDoc
  simp only [hnul, hlines, hs1, hd, if_true, hs2, hmk, haft]
  simp only [takeWhile_all _ _ hm1, dropWhile_all _ _ hm1, List.drop_nil, skipBlank, List.isEmpty_nil, Bool.not_true,
    Bool.false_eq_true, if_false, hany, List.head?_nil, Bool.or_self]
  rw [hread]
  simp [skipBlank]


theorem toLines_prologue (L : List Line) (hg : AllGood L) :
    toLines (prologueText ++ renderLines L) = directiveLine :: startLine :: L := by
  have hcr : ∀ x ∈ renderLines L, x ≠ '\r' := by
    intro x hx
    rcases render_lay L hg x hx with h1 | rfl
    · exact layChar_ne h1 '\r' (by decide)
    · decide
  have e : prologueText ++ renderLines L =
      ['%', 'Y', 'A', 'M', 'L', ' ', '1', '.', '2'] ++ '\n' :: (['-', '-', '-'] ++ '\n' :: renderLines L) := rfl
  rw [e, toLines_cons_line _ _ (by decide) (by
      intro x hx
      simp only [List.mem_append, List.mem_cons] at hx
      rcases hx with h | rfl | h
      · have : ∀ y ∈ ['-', '-', '-'], y ≠ '\r' := by decide
        exact this x (by simpa using h)
      · decide
      · exact hcr x h),
    toLines_cons_line _ _ (by decide) hcr, toLines_render L hg]
  rfl

/-- Reading the prologue followed by a rendered block of good lines = parsing the lines as a root node. -/
theorem readDoc_of_lines_pro (L : List Line) (pv : PVal) (hg : AllGood L)
    (hread : ∀ fuel, fuel ≥ 2 * mu L + 2 → blockNode fuel 0 none false L = some (pv, [])) :
    readDoc (prologueText ++ renderLines L) = some pv := by
  have hnul : (prologueText ++ renderLines L).takeWhile (· != Char.ofNat 0) = prologueText ++ renderLines L := by
    apply takeWhile_all
    intro x hx
    rcases List.mem_append.mp hx with h | h
    · have : ∀ y ∈ prologueText, (y != Char.ofNat 0) = true := by decide
      exact this x h
    · rcases render_lay L hg x h with h1 | rfl
      · have := layChar_ne h1 (Char.ofNat 0) (by decide)
        simpa using this
      · decide
  have hfuel : 2 * (prologueText ++ renderLines L).length + 2 * L.length + 8 ≥ 2 * mu L + 2 := by
    have := mu_le_render L; simp only [List.length_append]; omega
  refine readDoc_core_pro _ L pv hnul (toLines_prologue L hg) ?_ ?_ (hread _ hfuel)
  · intro x hx; rw [(layLine_not_marker (hg x hx)).2]; rfl
  · intro x hx; exact (layLine_not_marker (hg x hx)).1

/-- The reference reader maps the prologue + rendered layout of a fragment value back to `erase v`. -/
theorem read_layout_pro {P : LeafPred} {T : Toks} {k : Nat} {cp : Bool} (hr : ReadContract P T k) (o : Opts) (hk : k ≥ 1) (v : SVal) (hv : inFragP P v = true) :
    readDoc (prologue o ++ renderLines (layRoot T k cp v)) = some (erase v) := by
  obtain ⟨hg, hne, hread⟩ := root_lines (cp := cp) hr hk v hv
  unfold prologue
  cases o.yaml12
  · simpa using readDoc_of_lines _ _ hg hne hread
  · simpa using readDoc_of_lines_pro _ _ hg hread


end SaphyrVerif.Emit
