import SaphyrVerif.Lemmas.C13_Read
/-!
C13 proof machinery, part 3c: the text of a layout splits back into its lines (`toLines ∘ renderLines`),
no line of the fragment is a document marker, a directive, a comment or blank.
-/
set_option linter.unusedSimpArgs false
set_option linter.unusedVariables false
namespace SaphyrVerif.Emit
open SaphyrVerif

/-- characters that occur in the layout of the fragment -/
def layChar (c : Char) : Bool :=
  isTokChar c || c == ' ' || c == ':' || c == '[' || c == ']' || c == '{' || c == '}' || c == ',' || c == '?'

/-- first characters of layout lines: a letter / digit, a bracket, `?` / `:` (explicit keys), or `-`
followed by something else than `-` -/
def GoodStart (t : List Char) : Prop :=
  ∃ c cs, t = c :: cs ∧ (isLowerAlnum c = true ∨ c = '[' ∨ c = '{' ∨ c = '?' ∨ c = ':' ∨
    (c = '-' ∧ ∃ c2 cs2, cs = c2 :: cs2 ∧ c2 ≠ '-'))

structure GoodLine (l : Line) : Prop where
  start : GoodStart l.text
  chars : ∀ x ∈ l.text, layChar x = true

theorem tok_layChar {c : Char} (h : isTokChar c = true) : layChar c = true := by simp [layChar, h]

theorem PlainTok.goodStart {t : List Char} (h : PlainTok t) (hdash : ∀ cs, t = '-' :: cs → ∃ c2 cs2, cs = c2 :: cs2 ∧ c2 ≠ '-') :
    GoodStart t := by
  obtain ⟨c, cs, rfl, hc⟩ := h.head
  refine ⟨c, cs, rfl, ?_⟩
  simp only [isTokChar, Bool.or_eq_true, beq_iff_eq] at hc
  rcases hc with hc | rfl
  · exact Or.inl hc
  · exact Or.inr (Or.inr (Or.inr (Or.inr (Or.inr ⟨rfl, hdash cs rfl⟩))))

theorem safe_goodStart {s : List Char} (h : isSafeStr s = true) (after : List Char) : GoodStart (s ++ after) := by
  obtain ⟨c, cs, rfl, hc, _, _⟩ := safe_cons h
  exact ⟨c, cs ++ after, rfl, Or.inl (alpha_alnum hc)⟩

theorem intText_goodStart (i : Int) : GoodStart (intText i) := by
  refine (intText_plainTok i).goodStart ?_
  intro cs e
  cases i with
  | ofNat n =>
    rw [intText_nonneg] at e
    have := List.all_eq_true.mp (digits_all n) '-' (by rw [e]; simp)
    exact absurd this (by decide)
  | negSucc n =>
    rw [intText_neg] at e
    simp only [List.cons.injEq, true_and] at e
    have hne := Nat.toDigits_ne_nil (n := n + 1) (b := 10)
    rw [e] at hne
    cases cs with
    | nil => exact absurd rfl hne
    | cons c2 cs2 =>
      refine ⟨c2, cs2, rfl, ?_⟩
      rintro rfl
      have := List.all_eq_true.mp (digits_all (n + 1)) '-' (by rw [e]; simp)
      exact absurd this (by decide)

theorem leaf_goodStart {w : Nat} {v : SVal} {tok : List Char} (hv : inFrag w v = true) (ht : leafTok v = some tok) :
    GoodStart tok ∧ ∀ x ∈ tok, layChar x = true := by
  have hp := leafTok_plainTok hv ht
  refine ⟨?_, fun x hx => tok_layChar (hp.chars x hx)⟩
  cases v <;> simp only [leafTok, Option.some.injEq, reduceCtorEq] at ht
  · subst ht; exact ⟨'n', _, rfl, Or.inl (by decide)⟩
  · rename_i b; subst ht; cases b
    · exact ⟨'f', _, rfl, Or.inl (by decide)⟩
    · exact ⟨'t', _, rfl, Or.inl (by decide)⟩
  · subst ht; exact intText_goodStart _
  · subst ht; simp only [inFrag, Bool.and_eq_true] at hv; simpa using safe_goodStart hv.1 []
  · subst ht; exact ⟨'n', _, rfl, Or.inl (by decide)⟩
  · subst ht; simp only [inFrag, Bool.and_eq_true] at hv; simpa using safe_goodStart hv.1 []

/-! ### all characters of the layout are layout characters, all lines are good -/

def AllLay (h : List Char) : Prop := ∀ x ∈ h, layChar x = true
def AllGood (ls : List Line) : Prop := ∀ l ∈ ls, GoodLine l

theorem AllLay.append {a b : List Char} (ha : AllLay a) (hb : AllLay b) : AllLay (a ++ b) := by
  intro x hx; rcases List.mem_append.mp hx with h | h
  · exact ha x h
  · exact hb x h
theorem AllGood.append {a b : List Line} (ha : AllGood a) (hb : AllGood b) : AllGood (a ++ b) := by
  intro x hx; rcases List.mem_append.mp hx with h | h
  · exact ha x h
  · exact hb x h
theorem AllGood.cons {l : Line} {ls : List Line} (hl : GoodLine l) (hs : AllGood ls) : AllGood (l :: ls) := by
  intro x hx; rcases List.mem_cons.mp hx with rfl | h
  · exact hl
  · exact hs x h
theorem allGood_nil : AllGood [] := fun _ h => absurd h (by simp)
theorem allLay_nil : AllLay [] := fun _ h => absurd h (by simp)
theorem allLay_safe {s : List Char} (h : isSafeStr s = true) : AllLay s :=
  fun x hx => tok_layChar (alnum_tok (safe_chars h x hx))
theorem allLay_tok {t : List Char} (h : PlainTok t) : AllLay t := fun x hx => tok_layChar (h.chars x hx)
theorem allLay_lit (t : List Char) (h : t.all layChar = true) : AllLay t := fun x hx => List.all_eq_true.mp h x hx

theorem dashLine_good {i : Nat} {h : List Char} (hh : ItemHead h) (hl : AllLay h) : GoodLine ⟨i, '-' :: ' ' :: h⟩ :=
  ⟨⟨'-', ' ' :: h, rfl, Or.inr (Or.inr (Or.inr (Or.inr (Or.inr ⟨rfl, ' ', h, rfl, by decide⟩))))⟩,
   fun x hx => by
     simp only [List.mem_cons] at hx
     rcases hx with rfl | rfl | hx
     · decide
     · decide
     · exact hl x hx⟩

theorem keyLine_good {i : Nat} {k h : List Char} (hk : isSafeStr k = true) (hl : AllLay h) : GoodLine ⟨i, k ++ ':' :: h⟩ :=
  ⟨safe_goodStart hk _, (allLay_safe hk).append (fun x hx => by
     simp only [List.mem_cons] at hx
     rcases hx with rfl | hx
     · decide
     · exact hl x hx)⟩

theorem questionLine_good {i : Nat} {h : List Char} (hl : AllLay h) : GoodLine ⟨i, '?' :: ' ' :: h⟩ :=
  ⟨⟨'?', ' ' :: h, rfl, Or.inr (Or.inr (Or.inr (Or.inl rfl)))⟩,
   fun x hx => by
     simp only [List.mem_cons] at hx
     rcases hx with rfl | rfl | hx
     · decide
     · decide
     · exact hl x hx⟩

theorem colonLine_good {i : Nat} {h : List Char} (hl : AllLay h) : GoodLine ⟨i, ':' :: ' ' :: h⟩ :=
  ⟨⟨':', ' ' :: h, rfl, Or.inr (Or.inr (Or.inr (Or.inr (Or.inl rfl))))⟩,
   fun x hx => by
     simp only [List.mem_cons] at hx
     rcases hx with rfl | rfl | hx
     · decide
     · decide
     · exact hl x hx⟩

theorem emptySeqLine_good (i : Nat) : GoodLine ⟨i, "[]".toList⟩ :=
  ⟨⟨'[', _, rfl, Or.inr (Or.inl rfl)⟩, allLay_lit "[]".toList (by decide)⟩
theorem emptyMapLine_good (i : Nat) : GoodLine ⟨i, "{}".toList⟩ :=
  ⟨⟨'{', _, rfl, Or.inr (Or.inr (Or.inl rfl))⟩, allLay_lit "{}".toList (by decide)⟩

theorem seqValOf_good (e : Bool) {items : List Line} (h : AllGood items) :
    AllLay (seqValOf e items).1 ∧ AllGood (seqValOf e items).2.1 := by
  cases e <;> simp only [seqValOf, if_true, if_false, Bool.false_eq_true]
  · exact ⟨allLay_nil, h⟩
  · exact ⟨allLay_lit _ (by decide), allGood_nil⟩

theorem mapValOf_good (m : Nat) (lvb e : Bool) {entries : List Line} (h : AllGood entries) :
    AllLay (mapValOf m lvb e entries).1 ∧ AllGood (mapValOf m lvb e entries).2.1 := by
  cases e <;> cases lvb <;> simp only [mapValOf, if_true, if_false, Bool.false_eq_true]
  · exact ⟨allLay_nil, h⟩
  · exact ⟨allLay_nil, h⟩
  · exact ⟨allLay_lit _ (by decide), allGood_nil⟩
  · exact ⟨allLay_nil, AllGood.cons (emptyMapLine_good _) allGood_nil⟩

theorem variantVal_good (m : Nat) {n : List Char} (hn : isSafeStr n = true) {r : List Char × List Line × Bool}
    (hr : AllLay r.1 ∧ AllGood r.2.1) : AllLay (variantVal m n r).1 ∧ AllGood (variantVal m n r).2.1 := by
  simp only [variantVal, List.append_assoc, List.singleton_append]
  exact ⟨allLay_nil, AllGood.cons (keyLine_good hn hr.1) hr.2⟩

theorem variantItem_good {n : List Char} (hn : isSafeStr n = true) {r : List Char × List Line × Bool}
    (hr : AllLay r.1 ∧ AllGood r.2.1) : AllLay (variantItem n r).1 ∧ AllGood (variantItem n r).2.1 := by
  simp only [variantItem]
  exact ⟨((allLay_safe hn).append (allLay_lit [':'] (by decide))).append hr.1, hr.2⟩

mutual
theorem lay_val_good {w : Nat} (k : Nat) (cp im : Bool) : ∀ (v : SVal), inFrag w v = true → ∀ (m : Nat) (lvb : Bool),
    AllLay (layVal k cp im m lvb v).1 ∧ AllGood (layVal k cp im m lvb v).2.1
  | .unit, _, m, lvb => by simp only [layVal]; exact ⟨allLay_lit _ (by decide), allGood_nil⟩
  | .none, _, m, lvb => by simp only [layVal]; exact ⟨allLay_lit _ (by decide), allGood_nil⟩
  | .bool b, _, m, lvb => by cases b <;> simp only [layVal] <;> exact ⟨allLay_lit _ (by decide), allGood_nil⟩
  | .int i, _, m, lvb => by
    simp only [layVal]
    exact ⟨AllLay.append (a := [' ']) (allLay_lit _ (by decide)) (allLay_tok (intText_plainTok i)), allGood_nil⟩
  | .str t, hv, m, lvb => by
    simp only [inFrag, Bool.and_eq_true] at hv
    simp only [layVal]
    exact ⟨AllLay.append (a := [' ']) (allLay_lit _ (by decide)) (allLay_safe hv.1), allGood_nil⟩
  | .unitVariant e n, hv, m, lvb => by
    simp only [inFrag, Bool.and_eq_true] at hv
    simp only [layVal]
    exact ⟨AllLay.append (a := [' ']) (allLay_lit _ (by decide)) (allLay_safe hv.1), allGood_nil⟩
  | .some v, hv, m, lvb => by simp only [inFrag] at hv; simpa [layVal] using lay_val_good k cp im v hv m lvb
  | .newtypeStruct v, hv, m, lvb => by simp only [inFrag] at hv; simpa [layVal] using lay_val_good k cp im v hv m lvb
  | .newtypeVariant n v, hv, m, lvb => by
    simp only [inFrag, Bool.and_eq_true] at hv
    simp only [layVal]
    exact variantVal_good _ hv.1 (lay_val_good k cp true v hv.2 _ lvb)
  | .tupleVariant n xs, hv, m, lvb => by
    simp only [inFrag, Bool.and_eq_true] at hv
    simp only [layVal]
    exact variantVal_good _ hv.1 (seqValOf_good _ (lay_items_good k cp xs hv.2 _ false))
  | .structVariant n fs, hv, m, lvb => by
    simp only [inFrag, Bool.and_eq_true] at hv
    simp only [layVal]
    exact variantVal_good _ hv.1 (mapValOf_good _ _ _ (lay_entries_good k cp fs hv.2.1 _ false))
  | .seq xs, hv, m, lvb => by
    simp only [inFrag] at hv
    simp only [layVal]
    exact seqValOf_good _ (lay_items_good k cp xs hv _ false)
  | .tuple xs, hv, m, lvb => by
    simp only [inFrag] at hv
    simp only [layVal]
    exact seqValOf_good _ (lay_items_good k cp xs hv _ false)
  | .tupleStruct xs, hv, m, lvb => by
    simp only [inFrag] at hv
    simp only [layVal]
    exact seqValOf_good _ (lay_items_good k cp xs hv _ false)
  | .map known es, hv, m, lvb => by
    simp only [inFrag, Bool.and_eq_true] at hv
    simp only [layVal]
    exact mapValOf_good _ _ _ (lay_entries_good k cp es hv.1 _ false)
  | .flowSeq _, hv, _, _ => by simp [inFrag] at hv
  | .flowMap _, hv, _, _ => by simp [inFrag] at hv
  | .commented _ _, hv, _, _ => by simp [inFrag] at hv
  | .spaceAfter _, hv, _, _ => by simp [inFrag] at hv
  | .litStr _, hv, _, _ => by simp [inFrag] at hv
  | .foldStr _, hv, _, _ => by simp [inFrag] at hv
theorem lay_item_good {w : Nat} (k : Nat) (cp : Bool) : ∀ (v : SVal), inFrag w v = true → ∀ (d : Nat) (lvb : Bool),
    AllLay (layItem k cp d lvb v).1 ∧ AllGood (layItem k cp d lvb v).2.1
  | .unit, _, d, lvb => by simp only [layItem]; exact ⟨allLay_lit _ (by decide), allGood_nil⟩
  | .none, _, d, lvb => by simp only [layItem]; exact ⟨allLay_lit _ (by decide), allGood_nil⟩
  | .bool b, _, d, lvb => by cases b <;> simp only [layItem] <;> exact ⟨allLay_lit _ (by decide), allGood_nil⟩
  | .int i, _, d, lvb => by simp only [layItem]; exact ⟨allLay_tok (intText_plainTok i), allGood_nil⟩
  | .str t, hv, d, lvb => by
    simp only [inFrag, Bool.and_eq_true] at hv
    simp only [layItem]; exact ⟨allLay_safe hv.1, allGood_nil⟩
  | .unitVariant e n, hv, d, lvb => by
    simp only [inFrag, Bool.and_eq_true] at hv
    simp only [layItem]; exact ⟨allLay_safe hv.1, allGood_nil⟩
  | .some v, hv, d, lvb => by simp only [inFrag] at hv; simpa [layItem] using lay_item_good k cp v hv d lvb
  | .newtypeStruct v, hv, d, lvb => by simp only [inFrag] at hv; simpa [layItem] using lay_item_good k cp v hv d lvb
  | .newtypeVariant n v, hv, d, lvb => by
    simp only [inFrag, Bool.and_eq_true] at hv
    simp only [layItem]
    exact variantItem_good hv.1 (lay_val_good k cp true v hv.2 _ lvb)
  | .tupleVariant n xs, hv, d, lvb => by
    simp only [inFrag, Bool.and_eq_true] at hv
    simp only [layItem]
    exact variantItem_good hv.1 (seqValOf_good _ (lay_items_good k cp xs hv.2 _ false))
  | .structVariant n fs, hv, d, lvb => by
    simp only [inFrag, Bool.and_eq_true] at hv
    simp only [layItem]
    exact variantItem_good hv.1 (mapValOf_good _ _ _ (lay_entries_good k cp fs hv.2.1 _ false))
  | .seq [], _, d, lvb => by simp only [layItem, laySeqItem]; exact ⟨allLay_lit _ (by decide), allGood_nil⟩
  | .seq (x :: xs'), hv, d, lvb => by
    simp only [inFrag, inFragList, Bool.and_eq_true] at hv
    obtain ⟨h1, h2⟩ := lay_item_good k cp x hv.1 (d + 2) lvb
    have h3 := lay_items_good k cp xs' hv.2 (d + 2) (layItem k cp (d + 2) lvb x).2.2
    simp only [layItem, laySeqItem]
    exact ⟨(allLay_lit ['-', ' '] (by decide)).append h1, h2.append h3⟩
  | .tuple [], _, d, lvb => by simp only [layItem, laySeqItem]; exact ⟨allLay_lit _ (by decide), allGood_nil⟩
  | .tuple (x :: xs'), hv, d, lvb => by
    simp only [inFrag, inFragList, Bool.and_eq_true] at hv
    obtain ⟨h1, h2⟩ := lay_item_good k cp x hv.1 (d + 2) lvb
    have h3 := lay_items_good k cp xs' hv.2 (d + 2) (layItem k cp (d + 2) lvb x).2.2
    simp only [layItem, laySeqItem]
    exact ⟨(allLay_lit ['-', ' '] (by decide)).append h1, h2.append h3⟩
  | .tupleStruct [], _, d, lvb => by simp only [layItem, laySeqItem]; exact ⟨allLay_lit _ (by decide), allGood_nil⟩
  | .tupleStruct (x :: xs'), hv, d, lvb => by
    simp only [inFrag, inFragList, Bool.and_eq_true] at hv
    obtain ⟨h1, h2⟩ := lay_item_good k cp x hv.1 (d + 2) lvb
    have h3 := lay_items_good k cp xs' hv.2 (d + 2) (layItem k cp (d + 2) lvb x).2.2
    simp only [layItem, laySeqItem]
    exact ⟨(allLay_lit ['-', ' '] (by decide)).append h1, h2.append h3⟩
  | .map known [], _, d, lvb => by simp only [layItem, layMapItem]; exact ⟨allLay_lit _ (by decide), allGood_nil⟩
  | .map known ((kk, v) :: es'), hv, d, lvb => by
    simp only [inFrag, inFragEntries, Bool.and_eq_true, Bool.or_eq_true] at hv
    rcases hv.1.1.1 with hsk | hck
    · obtain ⟨kt, rfl, hkt⟩ := isSafeKey_iff hsk
      obtain ⟨h1, h2⟩ := lay_val_good k cp true v hv.1.1.2 (d + 2) false
      have h3 := lay_entries_good k cp es' hv.1.2 (d + 2) (layVal k cp true (d + 2) false v).2.2
      simp only [layItem, layMapItem, keyOf]
      exact ⟨((allLay_safe hkt).append (allLay_lit [':'] (by decide))).append h1, h2.append h3⟩
    · obtain ⟨hk1, hk2⟩ := lay_item_good k cp kk hck.2 (d + 2) false
      obtain ⟨h1, h2⟩ := lay_item_good k cp v hv.1.1.2 (d + 2) false
      have h3 := lay_entries_good k cp es' hv.1.2 (d + 2) (layItem k cp (d + 2) false v).2.2
      simp only [layItem, layMapItem, keyOf_complex' kk hck.1]
      refine ⟨(allLay_lit ['?', ' '] (by decide)).append hk1, ?_⟩
      have := hk2.append (AllGood.cons (colonLine_good (i := d + 2) h1) (h2.append h3))
      simpa [List.append_assoc] using this
  | .flowSeq _, hv, _, _ => by simp [inFrag] at hv
  | .flowMap _, hv, _, _ => by simp [inFrag] at hv
  | .commented _ _, hv, _, _ => by simp [inFrag] at hv
  | .spaceAfter _, hv, _, _ => by simp [inFrag] at hv
  | .litStr _, hv, _, _ => by simp [inFrag] at hv
  | .foldStr _, hv, _, _ => by simp [inFrag] at hv
theorem lay_items_good {w : Nat} (k : Nat) (cp : Bool) : ∀ (xs : List SVal), inFragList w xs = true → ∀ (d : Nat) (lvb : Bool),
    AllGood (layItems k cp d lvb xs).1
  | [], _, d, lvb => by simp only [layItems]; exact allGood_nil
  | x :: xs, hv, d, lvb => by
    simp only [inFragList, Bool.and_eq_true] at hv
    obtain ⟨h1, h2⟩ := lay_item_good k cp x hv.1 d lvb
    have h3 := lay_items_good k cp xs hv.2 d (layItem k cp d lvb x).2.2
    simp only [layItems, List.cons_append, List.nil_append, List.append_assoc]
    exact AllGood.cons (dashLine_good (itemHead_layItem k cp x hv.1 d lvb) h1) (h2.append h3)
theorem lay_entries_good {w : Nat} (k : Nat) (cp : Bool) : ∀ (es : List (SVal × SVal)), inFragEntries w es = true → ∀ (m : Nat) (lvb : Bool),
    AllGood (layEntries k cp m lvb es).1
  | [], _, m, lvb => by simp only [layEntries]; exact allGood_nil
  | (kk, v) :: es, hv, m, lvb => by
    simp only [inFragEntries, Bool.and_eq_true, Bool.or_eq_true] at hv
    rcases hv.1.1 with hsk | hck
    · obtain ⟨kt, rfl, hkt⟩ := isSafeKey_iff hsk
      obtain ⟨h1, h2⟩ := lay_val_good k cp true v hv.1.2 m lvb
      have h3 := lay_entries_good k cp es hv.2 m (layVal k cp true m lvb v).2.2
      simp only [layEntries, keyOf, List.cons_append, List.nil_append, List.append_assoc, List.singleton_append]
      exact AllGood.cons (keyLine_good hkt h1) (h2.append h3)
    · obtain ⟨hk1, hk2⟩ := lay_item_good k cp kk hck.2 m lvb
      obtain ⟨h1, h2⟩ := lay_item_good k cp v hv.1.2 m false
      have h3 := lay_entries_good k cp es hv.2 m (layItem k cp m false v).2.2
      simp only [layEntries, keyOf_complex' kk hck.1, List.cons_append, List.nil_append, List.append_assoc]
      exact AllGood.cons (questionLine_good hk1) (hk2.append (AllGood.cons (colonLine_good h1) (h2.append h3)))
end

/-! ### text ↔ lines -/

theorem renderLines_cons' (l : Line) (ls : List Line) :
    renderLines (l :: ls) = spaces l.indent ++ l.text ++ ['\n'] ++ renderLines ls := rfl


theorem layChar_ne {c : Char} (h : layChar c = true) (c' : Char) (h' : layChar c' = false) : c ≠ c' := by
  rintro rfl; rw [h] at h'; exact Bool.noConfusion h'

theorem normBreaks_id : ∀ (t : List Char), (∀ x ∈ t, x ≠ '\r') → normBreaks t = t
  | [], _ => rfl
  | c :: cs, h => by
    have hc : c ≠ '\r' := h c (by simp)
    have ih := normBreaks_id cs (fun x hx => h x (by simp [hx]))
    unfold normBreaks
    split
    · rename_i he; simp only [List.cons.injEq] at he; exact absurd he.1 hc
    · rename_i he; simp only [List.cons.injEq] at he; exact absurd he.1 hc
    · rename_i c' cs' _ _ he
      simp only [List.cons.injEq] at he
      obtain ⟨rfl, rfl⟩ := he
      rw [ih]
    · rename_i he; exact absurd he (by simp)

theorem splitNl_ne_nil (t : List Char) : splitNl t ≠ [] := by
  induction t with
  | nil => simp [splitNl]
  | cons c cs ih =>
    unfold splitNl
    split
    · simp
    · split <;> simp

theorem splitNl_cons (c : Char) (cs : List Char) :
    splitNl (c :: cs) = (match splitNl cs with
      | [] => [[]]
      | l :: ls => if c == '\n' then [] :: l :: ls else (c :: l) :: ls) := by
  rw [splitNl]; rfl

theorem splitNl_line : ∀ (a rest : List Char), (∀ x ∈ a, x ≠ '\n') → splitNl (a ++ '\n' :: rest) = a :: splitNl rest
  | [], rest, _ => by
    simp only [List.nil_append]
    rw [splitNl_cons]
    cases h : splitNl rest with
    | nil => exact absurd h (splitNl_ne_nil rest)
    | cons l ls => simp
  | c :: cs, rest, h => by
    have hc : c ≠ '\n' := h c (by simp)
    have ih := splitNl_line cs rest (fun x hx => h x (by simp [hx]))
    simp only [List.cons_append]
    rw [splitNl_cons, ih]
    simp [hc]

theorem spaces_lay (n : Nat) : ∀ x ∈ spaces n, layChar x = true := by
  intro x hx
  simp only [spaces, List.mem_replicate] at hx
  rw [hx.2]; decide

theorem lineText_lay {l : Line} (h : GoodLine l) : ∀ x ∈ spaces l.indent ++ l.text, layChar x = true := by
  intro x hx
  rcases List.mem_append.mp hx with h1 | h1
  · exact spaces_lay _ x h1
  · exact h.chars x h1

theorem splitNl_render : ∀ (ls : List Line), AllGood ls →
    splitNl (renderLines ls) = ls.map (fun l => spaces l.indent ++ l.text) ++ [[]]
  | [], _ => by rfl
  | l :: ls, h => by
    have hl : GoodLine l := h l (by simp)
    have ih := splitNl_render ls (fun x hx => h x (by simp [hx]))
    simp only [renderLines_cons', List.map_cons, List.cons_append]
    rw [show spaces l.indent ++ l.text ++ ['\n'] ++ renderLines ls = (spaces l.indent ++ l.text) ++ '\n' :: renderLines ls by simp,
      splitNl_line _ _ (fun x hx => layChar_ne (lineText_lay hl x hx) '\n' (by decide)), ih]

theorem mkLine_good {l : Line} (h : GoodLine l) : mkLine (spaces l.indent ++ l.text) = l := by
  obtain ⟨c, cs, e, hc⟩ := h.start
  have hsp : c ≠ ' ' := by
    rcases hc with hc | rfl | rfl | rfl | rfl | ⟨rfl, _⟩
    · rintro rfl; exact absurd hc (by decide)
    all_goals decide
  have h1 : List.takeWhile (· == ' ') (spaces l.indent ++ l.text) = spaces l.indent := by
    rw [e]
    induction l.indent with
    | zero => simp [spaces, hsp]
    | succ n ih => simp only [spaces, List.replicate_succ, List.cons_append] at ih ⊢; simp [ih]
  have h2 : List.dropWhile (· == ' ') (spaces l.indent ++ l.text) = l.text := by
    rw [e]
    induction l.indent with
    | zero => simp [spaces, hsp]
    | succ n ih => simp only [spaces, List.replicate_succ, List.cons_append] at ih ⊢; simp [ih]
  cases l with
  | mk i t =>
    simp only [mkLine] at h1 h2 ⊢
    rw [h1, h2]
    simp [spaces]

theorem render_lay : ∀ (ls : List Line), AllGood ls → ∀ x ∈ renderLines ls, layChar x = true ∨ x = '\n'
  | [], _, x, hx => by exact absurd hx (by simp [renderLines])
  | l :: ls, h, x, hx => by
    simp only [renderLines_cons', List.mem_append, List.mem_cons, List.not_mem_nil, or_false] at hx
    rcases hx with ((h1 | h1) | h1) | h1
    · exact Or.inl (spaces_lay _ x h1)
    · exact Or.inl ((h l (by simp)).chars x h1)
    · exact Or.inr h1
    · exact render_lay ls (fun y hy => h y (by simp [hy])) x h1

theorem map_mkLine : ∀ (ls : List Line), AllGood ls → (ls.map (fun l => spaces l.indent ++ l.text)).map mkLine = ls
  | [], _ => rfl
  | l :: ls, hg => by
    simp only [List.map_cons, List.cons.injEq]
    exact ⟨mkLine_good (hg l (by simp)), map_mkLine ls (fun x hx => hg x (by simp [hx]))⟩

theorem toLines_render (ls : List Line) (h : AllGood ls) : toLines (renderLines ls) = ls := by
  have hcr : ∀ x ∈ renderLines ls, x ≠ '\r' := by
    intro x hx
    rcases render_lay ls h x hx with h1 | rfl
    · exact layChar_ne h1 '\r' (by decide)
    · decide
  unfold toLines
  rw [normBreaks_id _ hcr, splitNl_render ls h]
  have hlast : (ls.map (fun (l : Line) => spaces l.indent ++ l.text) ++ [[]]).getLast? = some [] := by simp
  simp only [hlast, beq_self_eq_true, if_true, List.dropLast_concat]
  exact map_mkLine ls h

theorem takeWhile_all {α : Type} (p : α → Bool) : ∀ (l : List α), (∀ x ∈ l, p x = true) → l.takeWhile p = l
  | [], _ => rfl
  | a :: as, h => by
    simp only [List.takeWhile_cons, h a (by simp), if_true, List.cons.injEq, true_and]
    exact takeWhile_all p as (fun x hx => h x (by simp [hx]))

theorem takeWhile_noNul (ls : List Line) (h : AllGood ls) :
    (renderLines ls).takeWhile (· != Char.ofNat 0) = renderLines ls := by
  apply takeWhile_all
  intro x hx
  rcases render_lay ls h x hx with h1 | rfl
  · have := layChar_ne h1 (Char.ofNat 0) (by decide)
    simpa using this
  · decide

theorem mu_le_render : ∀ (ls : List Line), mu ls ≤ (renderLines ls).length
  | [] => by simp [mu]
  | l :: ls => by
    have := mu_le_render ls
    simp only [mu, renderLines_cons', List.length_append, List.length_cons, List.length_nil]
    omega

/-! ### the root -/

/-- the lines of a root node read as `p` -/
def RootOK (ls : List Line) (p : PVal) : Prop :=
  AllGood ls ∧ ls ≠ [] ∧ ∀ fuel, fuel ≥ 2 * mu ls + 2 → blockNode fuel 0 none false ls = some (p, [])

theorem root_seq {w k : Nat} {cp : Bool} (hk : k ≥ 1) {xs : List SVal} (hv : inFragList w xs = true) :
    RootOK (if xs.isEmpty then [⟨0, "[]".toList⟩] else (layItems k cp 0 false xs).1) (.seq (eraseList xs)) := by
  cases xs with
  | nil =>
    simp only [List.isEmpty_nil, if_true, eraseList]
    refine ⟨AllGood.cons (emptySeqLine_good 0) allGood_nil, by simp, ?_⟩
    intro fuel hf
    obtain ⟨f', rfl⟩ : ∃ f', fuel = f' + 1 := ⟨fuel - 1, by omega⟩
    exact blockNode_emptySeq f' 0 none false 0 [] (by omega)
  | cons x xs' =>
    have hx : inFrag w x = true := by simp only [inFragList, Bool.and_eq_true] at hv; exact hv.1
    have hh := itemHead_layItem k cp x hx 0 false
    have hg := lay_items_good k cp (x :: xs') hv 0 false
    simp only [List.isEmpty_cons, Bool.false_eq_true, if_false]
    refine ⟨hg, by simp [layItems], ?_⟩
    intro fuel hf
    obtain ⟨f', rfl⟩ : ∃ f', fuel = f' + 1 := ⟨fuel - 1, by omega⟩
    have hi := read_items (cp := cp) hk (x :: xs') hv f' 0 false [] (by omega) (Or.inl rfl)
    simp only [layItems, List.cons_append, List.nil_append, List.append_assoc, List.append_nil] at hi ⊢
    rw [blockNode_dash f' 0 none 0 _ hh (by omega), hi]
    rfl

theorem root_variant {n : List Char} (hn : isSafeStr n = true) {r : List Char × List Line × Bool} {p : PVal}
    (hh : ValHead r.1) (hg : AllLay r.1 ∧ AllGood r.2.1)
    (hr : ∀ fuel klen, fuel ≥ 2 * (r.1.length + 1 + mu r.2.1) + 2 → valueParse fuel 0 klen r.1 r.2.1 = some (p, [])) :
    RootOK (⟨0, n ++ [':'] ++ r.1⟩ :: r.2.1) (.map [(.str n, p)]) := by
  simp only [List.append_assoc, List.singleton_append]
  refine ⟨AllGood.cons (keyLine_good hn hg.1) hg.2, by simp, ?_⟩
  intro fuel hf
  simp only [mu, List.length_append, List.length_cons] at hf
  obtain ⟨f', rfl⟩ : ∃ f', fuel = f' + 3 := ⟨fuel - 3, by omega⟩
  have ih := hr (f' + 1) (n.length + 1) (by omega)
  rw [show f' + 3 = (f' + 1 + 1) + 1 from rfl, blockNode_key (f' + 1 + 1) 0 none 0 _ hn hh (by omega),
    blockMap_cons (f' + 1) 0 _ hn hh, ih]
  simp [blockMap_end f' 0 (Or.inl rfl), hasDupKey]

/-- a `ReadsVal` statement at the root (`m = 0`, nothing after the node) -/
theorem ReadsVal.root {r : Nat → Bool → Bool → List Char × List Line × Bool} {p : PVal} (h : ReadsVal r p) (fuel klen : Nat)
    (hf : fuel ≥ 2 * ((r 0 false false).1.length + 1 + mu (r 0 false false).2.1) + 2) :
    valueParse fuel 0 klen (r 0 false false).1 (r 0 false false).2.1 = some (p, []) := by
  simpa using h fuel 0 false false klen [] hf (Or.inl rfl)

theorem root_lines {w k : Nat} {cp : Bool} (hk : k ≥ 1) : ∀ (v : SVal), inFrag w v = true →
    AllGood (layRoot k cp v) ∧ layRoot k cp v ≠ [] ∧
    ∀ fuel, fuel ≥ 2 * mu (layRoot k cp v) + 2 → blockNode fuel 0 none false (layRoot k cp v) = some (erase v, [])
  | .unit, hv => by
    simp only [layRoot, leafTok]
    have ht : PlainTok ("null".toList) := plainTok_null
    refine ⟨AllGood.cons ⟨⟨'n', _, rfl, Or.inl (by decide)⟩, allLay_tok ht⟩ allGood_nil, by simp, ?_⟩
    intro fuel hf
    obtain ⟨f', rfl⟩ : ∃ f', fuel = f' + 1 := ⟨fuel - 1, by omega⟩
    simpa [erase, resolvePlain_null] using blockNode_plain f' 0 none false 0 [] ht (by omega) (Or.inl rfl)
  | .none, hv => by
    simp only [layRoot, leafTok]
    have ht : PlainTok ("null".toList) := plainTok_null
    refine ⟨AllGood.cons ⟨⟨'n', _, rfl, Or.inl (by decide)⟩, allLay_tok ht⟩ allGood_nil, by simp, ?_⟩
    intro fuel hf
    obtain ⟨f', rfl⟩ : ∃ f', fuel = f' + 1 := ⟨fuel - 1, by omega⟩
    simpa [erase, resolvePlain_null] using blockNode_plain f' 0 none false 0 [] ht (by omega) (Or.inl rfl)
  | .bool b, hv => by
    cases b
    · simp only [layRoot, leafTok, Bool.false_eq_true, if_false]
      have ht : PlainTok ("false".toList) := plainTok_false
      refine ⟨AllGood.cons ⟨⟨'f', _, rfl, Or.inl (by decide)⟩, allLay_tok ht⟩ allGood_nil, by simp, ?_⟩
      intro fuel hf
      obtain ⟨f', rfl⟩ : ∃ f', fuel = f' + 1 := ⟨fuel - 1, by omega⟩
      simpa [erase, resolvePlain_false] using blockNode_plain f' 0 none false 0 [] ht (by omega) (Or.inl rfl)
    · simp only [layRoot, leafTok, if_true]
      have ht : PlainTok ("true".toList) := plainTok_true
      refine ⟨AllGood.cons ⟨⟨'t', _, rfl, Or.inl (by decide)⟩, allLay_tok ht⟩ allGood_nil, by simp, ?_⟩
      intro fuel hf
      obtain ⟨f', rfl⟩ : ∃ f', fuel = f' + 1 := ⟨fuel - 1, by omega⟩
      simpa [erase, resolvePlain_true] using blockNode_plain f' 0 none false 0 [] ht (by omega) (Or.inl rfl)
  | .int i, hv => by
    simp only [layRoot, leafTok]
    have ht : PlainTok (intText i) := intText_plainTok i
    refine ⟨AllGood.cons ⟨intText_goodStart i, allLay_tok ht⟩ allGood_nil, by simp, ?_⟩
    intro fuel hf
    obtain ⟨f', rfl⟩ : ∃ f', fuel = f' + 1 := ⟨fuel - 1, by omega⟩
    simpa [erase, resolvePlain_int] using blockNode_plain f' 0 none false 0 [] ht (by omega) (Or.inl rfl)
  | .str t, hv => by
    simp only [inFrag, Bool.and_eq_true] at hv
    simp only [layRoot, leafTok]
    have ht : PlainTok (t) := safe_plainTok hv.1
    refine ⟨AllGood.cons ⟨by simpa using safe_goodStart hv.1 [], allLay_tok ht⟩ allGood_nil, by simp, ?_⟩
    intro fuel hf
    obtain ⟨f', rfl⟩ : ∃ f', fuel = f' + 1 := ⟨fuel - 1, by omega⟩
    simpa [erase, resolvePlain_safe hv.1] using blockNode_plain f' 0 none false 0 [] ht (by omega) (Or.inl rfl)
  | .unitVariant e n, hv => by
    simp only [inFrag, Bool.and_eq_true] at hv
    simp only [layRoot, leafTok]
    have ht : PlainTok (n) := safe_plainTok hv.1
    refine ⟨AllGood.cons ⟨by simpa using safe_goodStart hv.1 [], allLay_tok ht⟩ allGood_nil, by simp, ?_⟩
    intro fuel hf
    obtain ⟨f', rfl⟩ : ∃ f', fuel = f' + 1 := ⟨fuel - 1, by omega⟩
    simpa [erase, resolvePlain_safe hv.1] using blockNode_plain f' 0 none false 0 [] ht (by omega) (Or.inl rfl)
  | .some v, hv => by simp only [inFrag] at hv; simpa [layRoot, erase] using root_lines hk v hv
  | .newtypeStruct v, hv => by simp only [inFrag] at hv; simpa [layRoot, erase] using root_lines hk v hv
  | .newtypeVariant n v, hv => by
    simp only [inFrag, Bool.and_eq_true] at hv
    simpa [layRoot, erase, RootOK] using root_variant hv.1 (r := layVal k cp false 0 false v) (valHead_layVal k cp false v hv.2 0 false)
      (lay_val_good k cp false v hv.2 0 false) (fun fuel klen hf => (read_val (cp := cp) hk v hv.2).root fuel klen hf)
  | .tupleVariant n xs, hv => by
    simp only [inFrag, Bool.and_eq_true] at hv
    simpa [layRoot, erase, RootOK] using root_variant hv.1 (r := seqValOf xs.isEmpty (layItems k cp k false xs).1)
      (seqValOf_head _ _) (seqValOf_good _ (lay_items_good k cp xs hv.2 k false))
      (fun fuel klen hf => by simpa [seqCol] using (reads_seqVal (cp := cp) hk hv.2 (read_items hk xs hv.2)).root fuel klen (by simpa [seqCol] using hf))
  | .structVariant n fs, hv => by
    simp only [inFrag, Bool.and_eq_true, decide_eq_true_eq] at hv
    simpa [layRoot, erase, RootOK] using root_variant hv.1 (r := mapValOf k false fs.isEmpty (layEntries k cp k false fs).1)
      (mapValOf_head _ _ _ _) (mapValOf_good _ _ _ (lay_entries_good k cp fs hv.2.1 k false))
      (fun fuel klen hf => by simpa using (reads_mapVal (cp := cp) hk hv.2.1 (by simpa using hv.2.2) (read_entries hk fs hv.2.1)).root fuel klen (by simpa using hf))
  | .seq xs, hv => by
    simp only [inFrag] at hv
    simpa [layRoot, erase, RootOK] using root_seq hk hv
  | .tuple xs, hv => by
    simp only [inFrag] at hv
    simpa [layRoot, erase, RootOK] using root_seq hk hv
  | .tupleStruct xs, hv => by
    simp only [inFrag] at hv
    simpa [layRoot, erase, RootOK] using root_seq hk hv
  | .map known es, hv => by
    simp only [inFrag, Bool.and_eq_true, decide_eq_true_eq] at hv
    cases es with
    | nil =>
      simp only [layRoot, List.isEmpty_nil, if_true, erase, eraseEntries]
      refine ⟨AllGood.cons ⟨⟨'{', _, rfl, Or.inr (Or.inr (Or.inl rfl))⟩, allLay_lit "{}".toList (by decide)⟩ allGood_nil, by simp, ?_⟩
      intro fuel hf
      obtain ⟨f', rfl⟩ : ∃ f', fuel = f' + 1 := ⟨fuel - 1, by omega⟩
      exact blockNode_emptyMap f' 0 none false 0 [] (by omega)
    | cons e es' =>
      have hdup : hasDupKey (eraseEntries (e :: es')) = false := by simpa using hv.2
      have hg := lay_entries_good k cp (e :: es') hv.1 0 false
      obtain ⟨t, ls, he, ht⟩ := layEntries_start k cp 0 false (e := e) (es := es') hv.1
      simp only [layRoot, List.isEmpty_cons, Bool.false_eq_true, if_false, erase]
      refine ⟨hg, by rw [he]; simp, ?_⟩
      intro fuel hf
      obtain ⟨f', rfl⟩ : ∃ f', fuel = f' + 1 := ⟨fuel - 1, by omega⟩
      have hi := read_entries (cp := cp) hk (e :: es') hv.1 f' 0 false [] (by omega) (Or.inl rfl)
      rw [he] at hi ⊢
      simp only [List.cons_append, List.append_nil] at hi ⊢
      rw [blockNode_mapStart f' 0 none 0 _ ht (by omega), hi]
      simp [hdup]
  | .flowSeq _, hv => by simp [inFrag] at hv
  | .flowMap _, hv => by simp [inFrag] at hv
  | .commented _ _, hv => by simp [inFrag] at hv
  | .spaceAfter _, hv => by simp [inFrag] at hv
  | .litStr _, hv => by simp [inFrag] at hv
  | .foldStr _, hv => by simp [inFrag] at hv

theorem goodLine_notSkippable {l : Line} (h : GoodLine l) : l.isSkippable = false := by
  obtain ⟨c, cs, e, hc⟩ := h.start
  have hne : c ≠ '#' := by
    rcases hc with hc | rfl | rfl | rfl | rfl | ⟨rfl, _⟩
    · rintro rfl; exact absurd hc (by decide)
    all_goals decide
  cases l with
  | mk i t => simp only at e; subst e; exact notSkippable_of_head hne

theorem goodLine_head_ne {l : Line} (h : GoodLine l) (x : Char) (hx : isLowerAlnum x = false)
    (h1 : x ≠ '[') (h2 : x ≠ '{') (h3 : x ≠ '-') (h4 : x ≠ '?') (h5 : x ≠ ':') : l.text.head? ≠ some x := by
  obtain ⟨c, cs, e, hc⟩ := h.start
  rw [e]
  simp only [List.head?_cons, ne_eq, Option.some.injEq]
  rintro rfl
  rcases hc with hc | rfl | rfl | rfl | rfl | ⟨rfl, _⟩
  · rw [hx] at hc; exact Bool.noConfusion hc
  · exact h1 rfl
  · exact h2 rfl
  · exact h4 rfl
  · exact h5 rfl
  · exact h3 rfl

/-- no line of the fragment is a document marker -/
theorem goodLine_not_marker {l : Line} (h : GoodLine l) :
    isDocMarker l "---".toList = false ∧ isDocMarker l "...".toList = false := by
  obtain ⟨c, cs, e, hc⟩ := h.start
  refine ⟨?_, ?_⟩
  · simp only [isDocMarker, e, Bool.and_eq_false_iff]
    left; right
    rcases hc with hc | rfl | rfl | rfl | rfl | ⟨rfl, c2, cs2, rfl, hc2⟩
    · have : c ≠ '-' := by rintro rfl; exact absurd hc (by decide)
      cases cs with
      | nil => simp
      | cons a as => cases as <;> simp [this]
    · cases cs with
      | nil => simp
      | cons a as => cases as <;> simp
    · cases cs with
      | nil => simp
      | cons a as => cases as <;> simp
    · cases cs with
      | nil => simp
      | cons a as => cases as <;> simp
    · cases cs with
      | nil => simp
      | cons a as => cases as <;> simp
    · cases cs2 <;> simp [hc2]
  · simp only [isDocMarker, e, Bool.and_eq_false_iff]
    left; right
    have : c ≠ '.' := by
      rcases hc with hc | rfl | rfl | rfl | rfl | ⟨rfl, _⟩
      · rintro rfl; exact absurd hc (by decide)
      all_goals decide
    cases cs with
    | nil => simp
    | cons a as => cases as <;> simp [this]

theorem dropWhile_all {α : Type} (p : α → Bool) : ∀ (l : List α), (∀ x ∈ l, p x = true) → l.dropWhile p = []
  | [], _ => rfl
  | a :: as, h => by
    simp only [List.dropWhile_cons, h a (by simp), if_true]
    exact dropWhile_all p as (fun x hx => h x (by simp [hx]))

/-- `readDoc` on a text whose lines are known: no NUL, first line neither blank nor a directive, no
document markers — the document is what `blockNode` reads at the root. -/
theorem readDoc_core (text : List Char) (l : Line) (rest : List Line) (pv : PVal)
    (hnul : text.takeWhile (· != Char.ofNat 0) = text) (hlines : toLines text = l :: rest)
    (hns : l.isSkippable = false) (hpct : (l.text.head? == some '%') = false)
    (hm1 : ∀ x ∈ l :: rest, (!isDocMarker x "...".toList) = true)
    (hm2 : ∀ x ∈ l :: rest, isDocMarker x "---".toList = false)
    (hread : blockNode (2 * text.length + 2 * (l :: rest).length + 8) 0 none false (l :: rest) = some (pv, [])) :
    readDoc text = some pv := by
  have hsk : skipBlank (l :: rest) = l :: rest := skipBlank_cons rest hns
  have hany : (l :: rest).any (fun l => isDocMarker l "---".toList) = false := by
    rw [List.any_eq_false]; intro x hx; rw [hm2 x hx]; simp
  unfold readDoc
  simp only [hnul, hlines]
  simp only [hsk, hpct, Bool.and_false, Bool.false_eq_true, if_false, hm2 l (by simp)]
  simp only [takeWhile_all _ _ hm1, dropWhile_all _ _ hm1, List.drop_nil, skipBlank, List.isEmpty_nil, Bool.not_true,
    Bool.false_eq_true, if_false, hany]
  rw [hread]
  simp [skipBlank]

/-- Reading a rendered block of good lines = parsing the lines as a root node. -/
theorem readDoc_of_lines (L : List Line) (pv : PVal) (hg : AllGood L) (hne : L ≠ [])
    (hread : ∀ fuel, fuel ≥ 2 * mu L + 2 → blockNode fuel 0 none false L = some (pv, [])) :
    readDoc (renderLines L) = some pv := by
  obtain ⟨l, rest, hL⟩ : ∃ l rest, L = l :: rest := by
    cases h : L with
    | nil => exact absurd h hne
    | cons l rest => exact ⟨l, rest, rfl⟩
  have hl : GoodLine l := hg l (by rw [hL]; simp)
  have hpct : (l.text.head? == some '%') = false := by
    have := goodLine_head_ne hl '%' (by decide) (by decide) (by decide) (by decide) (by decide) (by decide)
    simpa using this
  have hfuel : 2 * (renderLines L).length + 2 * L.length + 8 ≥ 2 * mu L + 2 := by
    have := mu_le_render L; omega
  refine readDoc_core (renderLines L) l rest pv (takeWhile_noNul _ hg) (by rw [toLines_render _ hg, hL])
    (goodLine_notSkippable hl) hpct ?_ ?_ ?_
  · intro x hx; rw [(goodLine_not_marker (hg x (by rw [hL]; exact hx))).2]; rfl
  · intro x hx; exact (goodLine_not_marker (hg x (by rw [hL]; exact hx))).1
  · rw [← hL]; exact hread _ hfuel

/-- The reference reader maps the rendered layout of a fragment value back to `erase v`. -/
theorem read_layout {w k : Nat} {cp : Bool} (hk : k ≥ 1) (v : SVal) (hv : inFrag w v = true) :
    readDoc (renderLines (layRoot k cp v)) = some (erase v) := by
  obtain ⟨hg, hne, hread⟩ := root_lines hk v hv
  exact readDoc_of_lines _ _ hg hne hread

end SaphyrVerif.Emit
